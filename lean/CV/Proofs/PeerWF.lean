/-
Helper lemmas for C17: catalog well-formedness (memdb primary keys are unique) and the exact effect of the
registration transactions on a well-formed catalog.
-/
import CV.Proofs.PeerReg
set_option linter.unusedSectionVars false
set_option linter.unusedSimpArgs false
namespace CV.Peer

theorem find_node {c : Cat} {p n : String} {e : Node} (h : c.nodes.find? (nodeAt p n) = some e) :
    e ∈ c.nodes ∧ e.peer = p ∧ e.name = n := by
  have h1 := List.mem_of_find?_eq_some h
  have h2 := List.find?_some h
  simp only [nodeAt_iff] at h2
  exact ⟨h1, h2.1, h2.2⟩

theorem find_node_none {c : Cat} {p n : String} (h : c.nodes.find? (nodeAt p n) = none) :
    ∀ x ∈ c.nodes, ¬(x.peer = p ∧ x.name = n) := by
  intro x hx
  have := List.find?_eq_none.mp h x hx
  simpa using this

theorem find_svc {c : Cat} {p n i : String} {e : Svc} (h : c.svcs.find? (svcAt p n i) = some e) :
    e ∈ c.svcs ∧ e.peer = p ∧ e.node = n ∧ e.sid = i := by
  have h1 := List.mem_of_find?_eq_some h
  have h2 := List.find?_some h
  simp only [svcAt_iff] at h2
  exact ⟨h1, h2.1, h2.2.1, h2.2.2⟩

theorem find_svc_none {c : Cat} {p n i : String} (h : c.svcs.find? (svcAt p n i) = none) :
    ∀ x ∈ c.svcs, ¬(x.peer = p ∧ x.node = n ∧ x.sid = i) := by
  intro x hx
  have := List.find?_eq_none.mp h x hx
  simpa using this

theorem find_chk {c : Cat} {p n k : String} {e : Chk} (h : c.chks.find? (chkAt p n k) = some e) :
    e ∈ c.chks ∧ e.peer = p ∧ e.node = n ∧ e.cid = k := by
  have h1 := List.mem_of_find?_eq_some h
  have h2 := List.find?_some h
  simp only [chkAt_iff] at h2
  exact ⟨h1, h2.1, h2.2.1, h2.2.2⟩

theorem find_chk_none {c : Cat} {p n k : String} (h : c.chks.find? (chkAt p n k) = none) :
    ∀ x ∈ c.chks, ¬(x.peer = p ∧ x.node = n ∧ x.cid = k) := by
  intro x hx
  have := List.find?_eq_none.mp h x hx
  simpa using this

/-! ### nodes -/

theorem finishNode_spec {c : Cat} (wf : WF c) (nd : Node) (found : Option Node)
    (hf : ∀ n, found = some n → n ∈ c.nodes ∧ n.peer = nd.peer ∧ n.name = nd.name)
    (hn : found = none → ∀ x ∈ c.nodes, ¬(x.peer = nd.peer ∧ x.name = nd.name)) :
    ∀ x, x ∈ (finishNode c nd found).nodes ↔ x = nd ∨ (x ∈ c.nodes ∧ ¬(x.peer = nd.peer ∧ x.name = nd.name)) := by
  intro x
  unfold finishNode
  split
  · rename_i n
    obtain ⟨h1, h2, h3⟩ := hf n rfl
    split
    · rename_i hs
      simp only [sameNode, decide_eq_true_eq] at hs
      have e : n = nd := by
        cases n; cases nd; simp_all
      subst e
      constructor
      · intro hx
        by_cases hk : x.peer = n.peer ∧ x.name = n.name
        · exact Or.inl (wf.nodes x hx n h1 hk.1 hk.2)
        · exact Or.inr ⟨hx, hk⟩
      · rintro (rfl | h)
        · exact h1
        · exact h.1
    · exact mem_putNode
  · exact mem_putNode

theorem ensureNode_spec {c c' : Cat} (wf : WF c) {nd : Node}
    (hid : nd.id ≠ "" → ∀ e ∈ c.nodes, e.peer = nd.peer → e.id = nd.id → e.name = nd.name)
    (h : ensureNode c nd = .ok c') :
    c'.svcs = c.svcs ∧ c'.chks = c.chks ∧
    ∀ x, x ∈ c'.nodes ↔ x = nd ∨ (x ∈ c.nodes ∧ ¬(x.peer = nd.peer ∧ x.name = nd.name)) := by
  have byName : ∀ x, x ∈ (finishNode c nd (c.nodes.find? (nodeAt nd.peer nd.name))).nodes ↔
      x = nd ∨ (x ∈ c.nodes ∧ ¬(x.peer = nd.peer ∧ x.name = nd.name)) := by
    apply finishNode_spec wf
    · intro n hn; exact find_node hn
    · intro hn; exact find_node_none hn
  unfold ensureNode at h
  split at h
  · cases h; exact ⟨by simp, by simp, byName⟩
  · rename_i hne
    split at h
    · rename_i n hfind
      have h1 := List.mem_of_find?_eq_some hfind
      have h2 := List.find?_some hfind
      simp only [decide_eq_true_eq] at h2
      have hname := hid hne n h1 h2.1 h2.2
      simp only [hname, if_true] at h
      cases h
      refine ⟨by simp, by simp, ?_⟩
      apply finishNode_spec wf
      · intro m hm; cases hm; exact ⟨h1, h2.1, hname⟩
      · intro hm; cases hm
    · split at h
      · cases h
      · cases h; exact ⟨by simp, by simp, byName⟩

theorem regNode_spec {c c' : Cat} (wf : WF c) {nd : Node}
    (hid : nd.id ≠ "" → ∀ e ∈ c.nodes, e.peer = nd.peer → e.id = nd.id → e.name = nd.name)
    (h : regNode c nd = .ok c') :
    c'.svcs = c.svcs ∧ c'.chks = c.chks ∧
    ∀ x, x ∈ c'.nodes ↔ x = nd ∨ (x ∈ c.nodes ∧ ¬(x.peer = nd.peer ∧ x.name = nd.name)) := by
  unfold regNode at h
  split at h
  · rename_i e he
    obtain ⟨h1, h2, h3⟩ := find_node he
    split at h
    · exact ensureNode_spec wf hid h
    · rename_i hc
      cases h
      simp only [changesNode, decide_eq_true_eq, not_or, Decidable.not_not] at hc
      have e' : e = nd := by
        cases e; cases nd; simp_all
      subst e'
      refine ⟨rfl, rfl, fun x => ?_⟩
      constructor
      · intro hx
        by_cases hk : x.peer = e.peer ∧ x.name = e.name
        · exact Or.inl (wf.nodes x hx e h1 hk.1 hk.2)
        · exact Or.inr ⟨hx, hk⟩
      · rintro (rfl | h)
        · exact h1
        · exact h.1
  · exact ensureNode_spec wf hid h

/-! ### services -/

theorem regSvc_spec {c c' : Cat} (wf : WF c) {p n : String} {s : SvcDef} (h : regSvc c p n s = .ok c') :
    c'.nodes = c.nodes ∧ c'.chks = c.chks ∧
    ∀ x, x ∈ c'.svcs ↔ x = ⟨p, n, s.sid, s.name, s.port⟩ ∨ (x ∈ c.svcs ∧ ¬(x.peer = p ∧ x.node = n ∧ x.sid = s.sid)) := by
  unfold regSvc at h
  split at h
  · rename_i hst
    cases h
    unfold svcStored at hst
    split at hst
    · rename_i e he
      obtain ⟨h1, h2, h3, h4⟩ := find_svc he
      simp only [sameSvcDef, decide_eq_true_eq] at hst
      have e' : e = ⟨p, n, s.sid, s.name, s.port⟩ := by
        cases e; simp_all
      refine ⟨rfl, rfl, fun x => ?_⟩
      constructor
      · intro hx
        by_cases hk : x.peer = p ∧ x.node = n ∧ x.sid = s.sid
        · left
          rw [← e']
          exact wf.svcs x hx e h1 (by rw [hk.1, h2]) (by rw [hk.2.1, h3]) (by rw [hk.2.2, h4])
        · exact Or.inr ⟨hx, hk⟩
      · rintro (rfl | h)
        · rw [← e']; exact h1
        · exact h.1
    · cases hst
  · split at h
    · cases h; exact ⟨rfl, rfl, fun x => mem_putSvc⟩
    · cases h

/-! ### checks -/

theorem upsertChk_spec {c : Cat} (wf : WF c) (row : Chk) :
    ∀ x, x ∈ (upsertChk c row).chks ↔
      x = row ∨ (x ∈ c.chks ∧ ¬(x.peer = row.peer ∧ x.node = row.node ∧ x.cid = row.cid)) := by
  intro x
  unfold upsertChk
  split
  · rename_i e he
    obtain ⟨h1, h2, h3, h4⟩ := find_chk he
    split
    · rename_i hs
      simp only [sameChk, decide_eq_true_eq] at hs
      have e' : e = row := by
        cases e; cases row; simp_all
      subst e'
      constructor
      · intro hx
        by_cases hk : x.peer = e.peer ∧ x.node = e.node ∧ x.cid = e.cid
        · exact Or.inl (wf.chks x hx e h1 hk.1 hk.2.1 hk.2.2)
        · exact Or.inr ⟨hx, hk⟩
      · rintro (rfl | h)
        · exact h1
        · exact h.1
    · exact mem_putChk
  · exact mem_putChk

/-- the service name `ensureCheckTxn` copies into a check row -/
def snameFor (c : Cat) (p : String) (k : ChkDef) (sname : String) : Prop :=
  (k.sid = "" → sname = k.sname) ∧
  (k.sid ≠ "" → ∃ s ∈ c.svcs, s.peer = p ∧ s.node = k.node ∧ s.sid = k.sid ∧ sname = s.name)

theorem regChk_spec {c c' : Cat} (wf : WF c) {p rn : String} {k : ChkDef} (h : regChk c p rn k = .ok c') :
    ∃ sname, snameFor c p k sname ∧ c'.nodes = c.nodes ∧ c'.svcs = c.svcs ∧
    ∀ x, x ∈ c'.chks ↔ x = ⟨p, k.node, k.cid, k.sid, sname, normStatus k.status⟩ ∨
      (x ∈ c.chks ∧ ¬(x.peer = p ∧ x.node = k.node ∧ x.cid = k.cid)) := by
  unfold regChk at h
  split at h
  · cases h
  · split at h
    · cases h
    · split at h
      · rename_i hs
        cases h
        refine ⟨k.sname, ⟨fun _ => rfl, fun hne => absurd hs hne⟩, (upsertChk_origin _ _).1, (upsertChk_origin _ _).2.1, ?_⟩
        exact upsertChk_spec wf _
      · rename_i hs
        split at h
        · rename_i s hfs
          cases h
          obtain ⟨h1, h2, h3, h4⟩ := find_svc hfs
          refine ⟨s.name, ⟨fun he => absurd he hs, fun _ => ⟨s, h1, h2, h3, h4, rfl⟩⟩, (upsertChk_origin _ _).1, (upsertChk_origin _ _).2.1, ?_⟩
          exact upsertChk_spec wf _
        · cases h

/-! ### well-formedness is preserved -/

theorem WF.of_nodes {c c' : Cat} (wf : WF c) (nd : Node) (hs : c'.svcs = c.svcs) (hk : c'.chks = c.chks)
    (hn : ∀ x, x ∈ c'.nodes ↔ x = nd ∨ (x ∈ c.nodes ∧ ¬(x.peer = nd.peer ∧ x.name = nd.name))) : WF c' := by
  refine ⟨?_, by rw [hs]; exact wf.svcs, by rw [hk]; exact wf.chks, by rw [hs]; exact wf.sid⟩
  intro a ha b hb h1 h2
  rcases (hn a).mp ha with rfl | ⟨ha1, ha2⟩ <;> rcases (hn b).mp hb with rfl | ⟨hb1, hb2⟩
  · rfl
  · exact absurd ⟨h1.symm, h2.symm⟩ hb2
  · exact absurd ⟨h1, h2⟩ ha2
  · exact wf.nodes a ha1 b hb1 h1 h2

theorem WF.of_svcs {c c' : Cat} (wf : WF c) (s : Svc) (hsid : s.sid ≠ "") (hn : c'.nodes = c.nodes) (hk : c'.chks = c.chks)
    (hs : ∀ x, x ∈ c'.svcs ↔ x = s ∨ (x ∈ c.svcs ∧ ¬(x.peer = s.peer ∧ x.node = s.node ∧ x.sid = s.sid))) : WF c' := by
  refine ⟨by rw [hn]; exact wf.nodes, ?_, by rw [hk]; exact wf.chks, ?_⟩
  · intro a ha b hb h1 h2 h3
    rcases (hs a).mp ha with rfl | ⟨ha1, ha2⟩ <;> rcases (hs b).mp hb with rfl | ⟨hb1, hb2⟩
    · rfl
    · exact absurd ⟨h1.symm, h2.symm, h3.symm⟩ hb2
    · exact absurd ⟨h1, h2, h3⟩ ha2
    · exact wf.svcs a ha1 b hb1 h1 h2 h3
  · intro x hx
    rcases (hs x).mp hx with rfl | ⟨h1, _⟩
    · exact hsid
    · exact wf.sid x h1

theorem WF.of_chks {c c' : Cat} (wf : WF c) (k : Chk) (hn : c'.nodes = c.nodes) (hs : c'.svcs = c.svcs)
    (hk : ∀ x, x ∈ c'.chks ↔ x = k ∨ (x ∈ c.chks ∧ ¬(x.peer = k.peer ∧ x.node = k.node ∧ x.cid = k.cid))) : WF c' := by
  refine ⟨by rw [hn]; exact wf.nodes, by rw [hs]; exact wf.svcs, ?_, by rw [hs]; exact wf.sid⟩
  intro a ha b hb h1 h2 h3
  rcases (hk a).mp ha with rfl | ⟨ha1, ha2⟩ <;> rcases (hk b).mp hb with rfl | ⟨hb1, hb2⟩
  · rfl
  · exact absurd ⟨h1.symm, h2.symm, h3.symm⟩ hb2
  · exact absurd ⟨h1, h2, h3⟩ ha2
  · exact wf.chks a ha1 b hb1 h1 h2 h3

theorem WF.of_sub {c c' : Cat} (wf : WF c) (h : Sub c' c) : WF c' :=
  ⟨fun a ha b hb => wf.nodes a (h.nodes a ha) b (h.nodes b hb),
   fun a ha b hb => wf.svcs a (h.svcs a ha) b (h.svcs b hb),
   fun a ha b hb => wf.chks a (h.chks a ha) b (h.chks b hb),
   fun s hs => wf.sid s (h.svcs s hs)⟩

end CV.Peer
