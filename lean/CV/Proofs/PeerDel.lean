/-
Helper lemmas for C17: membership characterisations of the catalog primitives and the deletion phases
of `handleUpdateService` (clean-up commands, unused nodes).
-/
import CV.Proofs.Peer
set_option linter.unusedSectionVars false
namespace CV.Peer

/-! ### membership after the primitive writes -/

@[simp] theorem putNode_svcs (c : Cat) (nd : Node) : (putNode c nd).svcs = c.svcs := rfl
@[simp] theorem putNode_chks (c : Cat) (nd : Node) : (putNode c nd).chks = c.chks := rfl
@[simp] theorem putSvc_nodes (c : Cat) (s : Svc) : (putSvc c s).nodes = c.nodes := rfl
@[simp] theorem putSvc_chks (c : Cat) (s : Svc) : (putSvc c s).chks = c.chks := rfl
@[simp] theorem putChk_nodes (c : Cat) (k : Chk) : (putChk c k).nodes = c.nodes := rfl
@[simp] theorem putChk_svcs (c : Cat) (k : Chk) : (putChk c k).svcs = c.svcs := rfl
@[simp] theorem delChk_nodes (c : Cat) (p n k : String) : (delChk c p n k).nodes = c.nodes := rfl
@[simp] theorem delChk_svcs (c : Cat) (p n k : String) : (delChk c p n k).svcs = c.svcs := rfl

theorem mem_putNode {c : Cat} {nd x : Node} :
    x ∈ (putNode c nd).nodes ↔ x = nd ∨ (x ∈ c.nodes ∧ ¬(x.peer = nd.peer ∧ x.name = nd.name)) := by
  simp [putNode, List.mem_filter, nodeAt]; grind

theorem mem_putSvc {c : Cat} {s x : Svc} :
    x ∈ (putSvc c s).svcs ↔ x = s ∨ (x ∈ c.svcs ∧ ¬(x.peer = s.peer ∧ x.node = s.node ∧ x.sid = s.sid)) := by
  simp [putSvc, List.mem_filter, svcAt]; grind

theorem mem_putChk {c : Cat} {k x : Chk} :
    x ∈ (putChk c k).chks ↔ x = k ∨ (x ∈ c.chks ∧ ¬(x.peer = k.peer ∧ x.node = k.node ∧ x.cid = k.cid)) := by
  simp [putChk, List.mem_filter, chkAt]; grind

theorem mem_delChk {c : Cat} {p n k : String} {x : Chk} :
    x ∈ (delChk c p n k).chks ↔ x ∈ c.chks ∧ ¬(x.peer = p ∧ x.node = n ∧ x.cid = k) := by
  simp [delChk, List.mem_filter, chkAt]; grind

@[simp] theorem delSvc_nodes (c : Cat) (p n i : String) : (delSvc c p n i).nodes = c.nodes := by
  unfold delSvc; split <;> rfl

theorem mem_delSvc_svcs {c : Cat} {p n i : String} {x : Svc} :
    x ∈ (delSvc c p n i).svcs ↔ x ∈ c.svcs ∧ ¬(x.peer = p ∧ x.node = n ∧ x.sid = i) := by
  unfold delSvc
  split
  · simp [List.mem_filter, svcAt]; grind
  · rename_i h
    simp only [List.any_eq_true, svcAt_iff, not_exists, not_and] at h
    grind

theorem mem_delSvc_chks {c : Cat} {p n i : String} {x : Chk} :
    x ∈ (delSvc c p n i).chks ↔
      x ∈ c.chks ∧ ¬((x.peer = p ∧ x.node = n ∧ x.sid = i) ∧ ∃ s ∈ c.svcs, s.peer = p ∧ s.node = n ∧ s.sid = i) := by
  unfold delSvc
  split
  · rename_i h
    simp only [List.any_eq_true, svcAt_iff] at h
    simp [List.mem_filter, chkOfSvc]
    grind
  · rename_i h
    simp only [List.any_eq_true, svcAt_iff] at h
    grind

theorem mem_delNode_nodes {c : Cat} {p n : String} {x : Node} :
    x ∈ (delNode c p n).nodes ↔ x ∈ c.nodes ∧ ¬(x.peer = p ∧ x.name = n) := by
  unfold delNode
  split
  · simp [List.mem_filter, nodeAt]; grind
  · rename_i h
    simp only [List.any_eq_true, nodeAt_iff, not_exists, not_and] at h
    grind

theorem mem_delNode_svcs {c : Cat} {p n : String} {x : Svc} :
    x ∈ (delNode c p n).svcs ↔
      x ∈ c.svcs ∧ ¬((x.peer = p ∧ x.node = n) ∧ ∃ e ∈ c.nodes, e.peer = p ∧ e.name = n) := by
  unfold delNode
  split
  · rename_i h
    simp only [List.any_eq_true, nodeAt_iff] at h
    simp [List.mem_filter, svcOn]
    grind
  · rename_i h
    simp only [List.any_eq_true, nodeAt_iff] at h
    grind

theorem mem_delNode_chks {c : Cat} {p n : String} {x : Chk} :
    x ∈ (delNode c p n).chks ↔
      x ∈ c.chks ∧ ¬((x.peer = p ∧ x.node = n) ∧ ∃ e ∈ c.nodes, e.peer = p ∧ e.name = n) := by
  unfold delNode
  split
  · rename_i h
    simp only [List.any_eq_true, nodeAt_iff] at h
    simp [List.mem_filter, chkOn]
    grind
  · rename_i h
    simp only [List.any_eq_true, nodeAt_iff] at h
    grind

theorem Sub.refl (a : Cat) : Sub a a := ⟨fun _ h => h, fun _ h => h, fun _ h => h⟩
theorem Sub.trans {a b c : Cat} (h1 : Sub a b) (h2 : Sub b c) : Sub a c :=
  ⟨fun x h => h2.nodes x (h1.nodes x h), fun x h => h2.svcs x (h1.svcs x h), fun x h => h2.chks x (h1.chks x h)⟩

theorem sub_delChk (c : Cat) (p n k : String) : Sub (delChk c p n k) c :=
  ⟨fun _ h => h, fun _ h => h, fun _ h => (mem_delChk.mp h).1⟩
theorem sub_delSvc (c : Cat) (p n i : String) : Sub (delSvc c p n i) c :=
  ⟨fun _ h => by simpa using h, fun _ h => (mem_delSvc_svcs.mp h).1, fun _ h => (mem_delSvc_chks.mp h).1⟩
theorem sub_delNode (c : Cat) (p n : String) : Sub (delNode c p n) c :=
  ⟨fun _ h => (mem_delNode_nodes.mp h).1, fun _ h => (mem_delNode_svcs.mp h).1, fun _ h => (mem_delNode_chks.mp h).1⟩

/-- a deregistration command -/
def Op.isDereg : Op → Bool
  | .reg _ => false
  | _ => true

theorem applyOp_dereg (c : Cat) (o : Op) (h : o.isDereg = true) : ∃ c', applyOp c o = .ok c' ∧ Sub c' c := by
  cases o with
  | reg r => simp [Op.isDereg] at h
  | deregSvc p n i => exact ⟨_, rfl, sub_delSvc c p n i⟩
  | deregChk p n k => exact ⟨_, rfl, sub_delChk c p n k⟩
  | deregNode p n => exact ⟨_, rfl, sub_delNode c p n⟩

/-- deregistrations never fail, only remove rows, and what a command removed stays removed -/
theorem runOps_deregs (ops : List Op) (c : Cat) (h : ∀ o ∈ ops, o.isDereg = true) :
    (runOps c ops).2.1 = none ∧ (runOps c ops).2.2 = ops ∧ Sub (runOps c ops).1 c ∧
    (∀ p n i, Op.deregSvc p n i ∈ ops → ∀ x ∈ (runOps c ops).1.svcs, ¬(x.peer = p ∧ x.node = n ∧ x.sid = i)) ∧
    (∀ p n k, Op.deregChk p n k ∈ ops → ∀ x ∈ (runOps c ops).1.chks, ¬(x.peer = p ∧ x.node = n ∧ x.cid = k)) := by
  induction ops generalizing c with
  | nil => exact ⟨rfl, rfl, Sub.refl c, by simp, by simp⟩
  | cons o os ih =>
    obtain ⟨c1, h1, s1⟩ := applyOp_dereg c o (h o (by simp))
    obtain ⟨e, l, s, hs, hk⟩ := ih c1 (fun o' ho' => h o' (by simp [ho']))
    simp only [runOps, h1]
    refine ⟨e, by simp [l], Sub.trans s s1, ?_, ?_⟩
    · intro p n i hm x hx
      simp only [List.mem_cons] at hm
      rcases hm with hm | hm
      · subst hm
        simp only [applyOp, Except.ok.injEq] at h1
        subst h1
        exact (mem_delSvc_svcs.mp (s.svcs x hx)).2
      · exact hs p n i hm x hx
    · intro p n k hm x hx
      simp only [List.mem_cons] at hm
      rcases hm with hm | hm
      · subst hm
        simp only [applyOp, Except.ok.injEq] at h1
        subst h1
        exact (mem_delChk.mp (s.chks x hx)).2
      · exact hk p n k hm x hx

theorem sub_dropUnused (p : String) (ns : List String) (c : Cat) : Sub (dropUnused p c ns).1 c := by
  induction ns generalizing c with
  | nil => exact Sub.refl c
  | cons n ns ih =>
    simp only [dropUnused]
    split
    · exact ih c
    · exact Sub.trans (ih _) (sub_delNode c p n)

end CV.Peer
