/-
Helper lemmas for C17: the registrations of a consistent snapshot never fail — the update is processed.
-/
import CV.Proofs.PeerInv
set_option linter.unusedSectionVars false
set_option linter.unusedSimpArgs false
namespace CV.Peer

theorem regNode_succeeds {c : Cat} (_wf : WF c) {nd : Node}
    (hid : nd.id ≠ "" → ∀ e ∈ c.nodes, e.peer = nd.peer → e.id = nd.id → e.name = nd.name)
    (h2 : nd.id ≠ "" → ∀ e ∈ c.nodes, e.peer = nd.peer → e.name = nd.name → e.id = "" ∨ e.id = nd.id) :
    ∃ c', regNode c nd = .ok c' := by
  have noClash : nd.id ≠ "" → nameClash c nd true = false := by
    intro hne
    cases hc : nameClash c nd true with
    | false => rfl
    | true =>
      exfalso
      simp only [nameClash, List.any_eq_true, Bool.and_eq_true, Bool.or_eq_true, decide_eq_true_eq,
        Bool.not_true, Bool.false_eq_true, or_false] at hc
      obtain ⟨e, he, ⟨⟨h1, h3, h4⟩, h5⟩, _⟩ := hc
      rcases h2 hne e he h1 h3 with h6 | h6
      · exact h5 h6
      · exact h4 h6.symm
  have ens : ∃ c', ensureNode c nd = .ok c' := by
    unfold ensureNode
    split
    · exact ⟨_, rfl⟩
    · rename_i hne
      split
      · rename_i n hfind
        have h1 := List.mem_of_find?_eq_some hfind
        have h3 := List.find?_some hfind
        simp only [decide_eq_true_eq] at h3
        have := hid hne n h1 h3.1 h3.2
        simp only [this, if_true]
        exact ⟨_, rfl⟩
      · simp only [noClash hne, Bool.false_eq_true, if_false]
        exact ⟨_, rfl⟩
  unfold regNode
  split
  · split
    · exact ens
    · exact ⟨_, rfl⟩
  · exact ens

/-- the head conditions under which one registration transaction commits -/
theorem register_succeeds {c : Cat} (wf : WF c) {r : RegReq}
    (hid : r.node.id ≠ "" → ∀ e ∈ c.nodes, e.peer = r.peer → e.id = r.node.id → e.name = r.node.name)
    (h2 : r.node.id ≠ "" → ∀ e ∈ c.nodes, e.peer = r.peer → e.name = r.node.name → e.id = "" ∨ e.id = r.node.id)
    (hsid : ∀ sd, r.svc = some sd → sd.sid ≠ "")
    (hnode : ∀ k ∈ r.chks, k.node = r.node.name)
    (hsvc : ∀ k ∈ r.chks, k.sid ≠ "" → (∃ s ∈ c.svcs, s.peer = r.peer ∧ s.node = k.node ∧ s.sid = k.sid) ∨
      ∃ sd, r.svc = some sd ∧ r.node.name = k.node ∧ sd.sid = k.sid) :
    ∃ c', register c r = .ok c' := by
  obtain ⟨c1, h1⟩ := regNode_succeeds wf (nd := ⟨r.peer, r.node.name, r.node.id, r.node.addr⟩) hid h2
  obtain ⟨s1, k1, n1⟩ := regNode_spec wf hid h1
  have wf1 : WF c1 := WF.of_nodes wf _ s1 k1 n1
  have hn1 : c1.nodes.any (nodeAt r.peer r.node.name) = true := by
    simp only [List.any_eq_true, nodeAt_iff]
    exact ⟨_, (n1 _).mpr (Or.inl rfl), rfl, rfl⟩
  -- the service part
  have step2 : ∃ c2, (match r.svc with
      | some s => regSvc c1 r.peer r.node.name s
      | none => Except.ok c1) = .ok c2 ∧ WF c2 ∧ c2.nodes = c1.nodes ∧
      (∀ k ∈ r.chks, k.sid ≠ "" → ∃ s ∈ c2.svcs, s.peer = r.peer ∧ s.node = k.node ∧ s.sid = k.sid) := by
    cases hs : r.svc with
    | none =>
      refine ⟨c1, rfl, wf1, rfl, fun k hk hne => ?_⟩
      rcases hsvc k hk hne with h | ⟨sd, hsd, _⟩
      · rw [s1]; exact h
      · rw [hs] at hsd; cases hsd
    | some sd =>
      have hreg : ∃ c2, regSvc c1 r.peer r.node.name sd = .ok c2 := by
        unfold regSvc
        by_cases hst : svcStored c1 r.peer r.node.name sd = true
        · rw [if_pos hst]; exact ⟨_, rfl⟩
        · rw [if_neg hst, if_pos hn1]; exact ⟨_, rfl⟩
      obtain ⟨c2, h2'⟩ := hreg
      obtain ⟨a, b, d⟩ := regSvc_spec wf1 h2'
      refine ⟨c2, h2', WF.of_svcs wf1 _ (hsid sd hs) a b d, a, fun k hk hne => ?_⟩
      rcases hsvc k hk hne with ⟨s, hs1, e1, e2, e3⟩ | ⟨sd', hsd', e1, e2⟩
      · by_cases hkey : s.peer = r.peer ∧ s.node = r.node.name ∧ s.sid = sd.sid
        · exact ⟨_, (d _).mpr (Or.inl rfl), rfl, by rw [← e2, hkey.2.1], by rw [← e3, hkey.2.2]⟩
        · exact ⟨s, (d s).mpr (Or.inr ⟨by rw [s1]; exact hs1, hkey⟩), e1, e2, e3⟩
      · rw [hs] at hsd'; cases hsd'
        exact ⟨_, (d _).mpr (Or.inl rfl), rfl, e1, e2⟩
  obtain ⟨c2, h2', wf2, n2, hpres⟩ := step2
  -- the checks
  have hchks : ∀ (ks : List ChkDef) (cur : Cat), WF cur → cur.nodes = c2.nodes → cur.svcs = c2.svcs →
      (∀ k ∈ ks, k ∈ r.chks) → ∃ c3, regChks cur r.peer r.node.name ks = .ok c3 := by
    intro ks
    induction ks with
    | nil => intro cur _ _ _ _; exact ⟨cur, rfl⟩
    | cons k ks ih =>
      intro cur wfc hcn hcs hsub
      have hk := hsub k (by simp)
      have hstep : ∃ c', regChk cur r.peer r.node.name k = .ok c' := by
        unfold regChk
        rw [if_neg (fun h => h (hnode k hk))]
        have : cur.nodes.any (nodeAt r.peer k.node) = true := by rw [hnode k hk, hcn, n2]; exact hn1
        simp only [this, Bool.not_true, Bool.false_eq_true, if_false]
        split
        · exact ⟨_, rfl⟩
        · rename_i hne
          obtain ⟨s, hs1, e1, e2, e3⟩ := hpres k hk hne
          cases hf : cur.svcs.find? (svcAt r.peer k.node k.sid) with
          | some s' => exact ⟨_, rfl⟩
          | none =>
            exfalso
            rw [hcs] at hf
            exact find_svc_none hf s hs1 ⟨e1, e2, e3⟩
      obtain ⟨c', hc'⟩ := hstep
      obtain ⟨sname, _, a, b, d⟩ := regChk_spec wfc hc'
      obtain ⟨c3, hc3⟩ := ih c' (WF.of_chks wfc _ a b d) (a.trans hcn) (b.trans hcs) (fun x hx => hsub x (by simp [hx]))
      exact ⟨c3, by simp only [regChks, hc', hc3]⟩
  obtain ⟨c3, h3⟩ := hchks r.chks c2 wf2 rfl rfl (fun _ h => h)
  refine ⟨c3, ?_⟩
  simp only [register, h1]
  cases hs : r.svc with
  | none =>
    simp only [hs] at h2' ⊢
    cases h2'
    exact h3
  | some sd =>
    simp only [hs] at h2' ⊢
    rw [h2']
    exact h3

/-- service keys available to the check registrations: known so far, growing along the command list -/
def Pres : (String → String → Prop) → List Op → Prop
  | _, [] => True
  | K, .reg r :: os =>
    (∀ k ∈ r.chks, k.sid ≠ "" → K k.node k.sid ∨ ∃ sd, r.svc = some sd ∧ r.node.name = k.node ∧ sd.sid = k.sid) ∧
    Pres (fun n i => K n i ∨ ∃ sd, r.svc = some sd ∧ r.node.name = n ∧ sd.sid = i) os
  | K, _ :: os => Pres K os

theorem Pres.mono {K K' : String → String → Prop} (h : ∀ n i, K n i → K' n i) (ops : List Op) :
    Pres K ops → Pres K' ops := by
  induction ops generalizing K K' with
  | nil => exact fun _ => trivial
  | cons o os ih =>
    cases o with
    | reg r =>
      simp only [Pres]
      rintro ⟨a, b⟩
      refine ⟨fun k hk hne => ?_, ih (fun n i hni => ?_) b⟩
      · rcases a k hk hne with h1 | h1
        · exact Or.inl (h _ _ h1)
        · exact Or.inr h1
      · rcases hni with h1 | h1
        · exact Or.inl (h _ _ h1)
        · exact Or.inr h1
    | deregSvc p n i => simp only [Pres]; exact ih h
    | deregChk p n k => simp only [Pres]; exact ih h
    | deregNode p n => simp only [Pres]; exact ih h

/-- the keys a command list adds -/
def addsKey (ops : List Op) (n i : String) : Prop := ∃ r sd, Op.reg r ∈ ops ∧ r.svc = some sd ∧ r.node.name = n ∧ sd.sid = i

theorem Pres.append {K : String → String → Prop} (a b : List Op) :
    Pres K (a ++ b) ↔ Pres K a ∧ Pres (fun n i => K n i ∨ addsKey a n i) b := by
  induction a generalizing K with
  | nil =>
    simp only [List.nil_append, Pres, true_and]
    constructor
    · exact Pres.mono (fun n i h => Or.inl h) b
    · apply Pres.mono
      rintro n i (h | ⟨r, _, hr, _⟩)
      · exact h
      · cases hr
  | cons o os ih =>
    cases o with
    | reg r =>
      simp only [List.cons_append, Pres, ih, and_assoc]
      constructor
      · rintro ⟨h1, h2, h3⟩
        refine ⟨h1, h2, Pres.mono ?_ b h3⟩
        rintro n i ((h | ⟨sd, e1, e2, e3⟩) | ⟨r', sd, hr', e⟩)
        · exact Or.inl h
        · exact Or.inr ⟨r, sd, by simp, e1, e2, e3⟩
        · exact Or.inr ⟨r', sd, by simp [hr'], e⟩
      · rintro ⟨h1, h2, h3⟩
        refine ⟨h1, h2, Pres.mono ?_ b h3⟩
        rintro n i (h | ⟨r', sd, hr', e1, e2, e3⟩)
        · exact Or.inl (Or.inl h)
        · simp only [List.mem_cons, Op.reg.injEq] at hr'
          rcases hr' with rfl | hr'
          · exact Or.inl (Or.inr ⟨sd, e1, e2, e3⟩)
          · exact Or.inr ⟨r', sd, hr', e1, e2, e3⟩
    | deregSvc p n i =>
      simp only [List.cons_append, Pres, ih]
      constructor
      · rintro ⟨h1, h2⟩
        refine ⟨h1, Pres.mono ?_ b h2⟩
        rintro n' i' (h | ⟨r', sd, hr', e⟩)
        · exact Or.inl h
        · exact Or.inr ⟨r', sd, by simp [hr'], e⟩
      · rintro ⟨h1, h2⟩
        refine ⟨h1, Pres.mono ?_ b h2⟩
        rintro n' i' (h | ⟨r', sd, hr', e⟩)
        · exact Or.inl h
        · simp only [List.mem_cons] at hr'
          rcases hr' with hr' | hr'
          · cases hr'
          · exact Or.inr ⟨r', sd, hr', e⟩
    | deregChk p n k =>
      simp only [List.cons_append, Pres, ih]
      constructor
      · rintro ⟨h1, h2⟩
        refine ⟨h1, Pres.mono ?_ b h2⟩
        rintro n' i' (h | ⟨r', sd, hr', e⟩)
        · exact Or.inl h
        · exact Or.inr ⟨r', sd, by simp [hr'], e⟩
      · rintro ⟨h1, h2⟩
        refine ⟨h1, Pres.mono ?_ b h2⟩
        rintro n' i' (h | ⟨r', sd, hr', e⟩)
        · exact Or.inl h
        · simp only [List.mem_cons] at hr'
          rcases hr' with hr' | hr'
          · cases hr'
          · exact Or.inr ⟨r', sd, hr', e⟩
    | deregNode p n =>
      simp only [List.cons_append, Pres, ih]
      constructor
      · rintro ⟨h1, h2⟩
        refine ⟨h1, Pres.mono ?_ b h2⟩
        rintro n' i' (h | ⟨r', sd, hr', e⟩)
        · exact Or.inl h
        · exact Or.inr ⟨r', sd, by simp [hr'], e⟩
      · rintro ⟨h1, h2⟩
        refine ⟨h1, Pres.mono ?_ b h2⟩
        rintro n' i' (h | ⟨r', sd, hr', e⟩)
        · exact Or.inl h
        · simp only [List.mem_cons] at hr'
          rcases hr' with hr' | hr'
          · cases hr'
          · exact Or.inr ⟨r', sd, hr', e⟩

/-- a coherent list of registrations whose head conditions hold along the way is applied without failure -/
theorem runRegs_ok (ops : List Op) (c : Cat) (p : String) (wf : WF c) (ok : RegsOK c p ops)
    (h2 : ∀ r, .reg r ∈ ops → r.node.id ≠ "" → ∀ e ∈ c.nodes, e.peer = p → e.name = r.node.name → e.id = "" ∨ e.id = r.node.id)
    (hnode : ∀ r, .reg r ∈ ops → ∀ k ∈ r.chks, k.node = r.node.name)
    (hpres : Pres (fun n i => ∃ s ∈ c.svcs, s.peer = p ∧ s.node = n ∧ s.sid = i) ops) :
    (runOps c ops).2.1 = none := by
  induction ops generalizing c with
  | nil => rfl
  | cons o os ih =>
    obtain ⟨r, rfl, hp⟩ := ok.regs o (by simp)
    have hr : Op.reg r ∈ Op.reg r :: os := by simp
    have mem : ∀ r', Op.reg r' ∈ os → Op.reg r' ∈ Op.reg r :: os := fun r' h' => by simp [h']
    simp only [Pres] at hpres
    obtain ⟨c1, h1⟩ := register_succeeds wf (r := r)
      (by rw [hp]; exact ok.hid r hr) (by rw [hp]; exact h2 r hr)
      (fun sd hsd => ok.sid r sd hr hsd) (hnode r hr) (by rw [hp]; exact hpres.1)
    obtain ⟨wf1, n1, s1, k1⟩ := register_spec wf (r := r)
      (by rw [hp]; exact ok.hid r hr)
      (fun sd hsd => ok.sid r sd hr hsd)
      (ok.cchk r r hr hr)
      (fun k hk hs => ⟨by rw [hp]; exact ok.nmc r hr k hk hs, fun sd hsd => ok.nmo r r sd hr hr k hk hs hsd⟩)
      h1
    rw [hp] at n1 s1 k1
    have ok1 : RegsOK c1 p os := by
      refine ⟨fun o ho => ok.regs o (by simp [ho]), ?_, ?_, ?_, ?_, ?_, ?_, ?_, ?_⟩
      · intro r' hr' hne e he hep hei
        rcases (n1 e).mp he with rfl | ⟨he1, _⟩
        · simp only [nodeRow] at hei ⊢
          exact ok.cid r r' hr (mem r' hr') hei (by rw [hei]; exact hne)
        · exact ok.hid r' (mem r' hr') hne e he1 hep hei
      · exact fun a b ha hb => ok.cid a b (mem a ha) (mem b hb)
      · exact fun a b ha hb => ok.cnode a b (mem a ha) (mem b hb)
      · exact fun a b sd sd' ha hb => ok.csvc a b sd sd' (mem a ha) (mem b hb)
      · exact fun a sd ha => ok.sid a sd (mem a ha)
      · exact fun a b ha hb => ok.cchk a b (mem a ha) (mem b hb)
      · intro r' hr' k hk hs s hs1 e1 e2 e3
        rcases (s1 s).mp hs1 with ⟨sd, hsd, rfl⟩ | ⟨h3, _⟩
        · simp only [svcRow] at e2 e3 ⊢
          exact ok.nmo r' r sd (mem r' hr') hr k hk hs hsd e2 e3
        · exact ok.nmc r' (mem r' hr') k hk hs s h3 e1 e2 e3
      · exact fun a b sd ha hb => ok.nmo a b sd (mem a ha) (mem b hb)
    have h21 : ∀ r', .reg r' ∈ os → r'.node.id ≠ "" → ∀ e ∈ c1.nodes, e.peer = p → e.name = r'.node.name → e.id = "" ∨ e.id = r'.node.id := by
      intro r' hr' hne e he hep hen
      rcases (n1 e).mp he with rfl | ⟨he1, _⟩
      · simp only [nodeRow] at hen ⊢
        right
        rw [ok.cnode r r' hr (mem r' hr') hen]
      · exact h2 r' (mem r' hr') hne e he1 hep hen
    have hpres1 : Pres (fun n i => ∃ s ∈ c1.svcs, s.peer = p ∧ s.node = n ∧ s.sid = i) os := by
      apply Pres.mono _ os hpres.2
      rintro n i (⟨s, hs, e1, e2, e3⟩ | ⟨sd, hsd, e2, e3⟩)
      · by_cases hkey : ∃ sd, r.svc = some sd ∧ s.peer = p ∧ s.node = r.node.name ∧ s.sid = sd.sid
        · obtain ⟨sd, hsd, _, e4, e5⟩ := hkey
          exact ⟨_, (s1 _).mpr (Or.inl ⟨sd, hsd, rfl⟩), rfl, by simp [svcRow, ← e2, e4], by simp [svcRow, ← e3, e5]⟩
        · exact ⟨s, (s1 s).mpr (Or.inr ⟨hs, fun sd' hsd' hk => hkey ⟨sd', hsd', hk⟩⟩), e1, e2, e3⟩
      · exact ⟨_, (s1 _).mpr (Or.inl ⟨sd, hsd, rfl⟩), rfl, by simp [svcRow, e2], by simp [svcRow, e3]⟩
    have := ih c1 wf1 ok1 h21 (fun r' hr' => hnode r' (mem r' hr')) hpres1
    simp only [runOps, applyOp, h1]
    exact this

/-! ### the registrations of a consistent snapshot -/

theorem Pres.nochk {K : String → String → Prop} (ops : List Op) (h : ∀ r, Op.reg r ∈ ops → r.chks = []) : Pres K ops := by
  induction ops generalizing K with
  | nil => trivial
  | cons o os ih =>
    cases o with
    | reg r =>
      simp only [Pres]
      refine ⟨?_, ih (fun r' hr' => h r' (by simp [hr']))⟩
      rw [h r (by simp)]; simp
    | deregSvc p n i => simp only [Pres]; exact ih (fun r' hr' => h r' (by simp [hr']))
    | deregChk p n k => simp only [Pres]; exact ih (fun r' hr' => h r' (by simp [hr']))
    | deregNode p n => simp only [Pres]; exact ih (fun r' hr' => h r' (by simp [hr']))

theorem Pres.node {c : Cat} {p sn : String} {st : List CSN} {snap : Snap} {is : List Inst}
    (ok : SnapOK sn is) (hs : SnapIs snap is) (hst : csn c p sn = .ok st) {nd : SNode} (hnd : nd ∈ snap)
    {K : String → String → Prop} (hK : ∀ n i, (∃ s ∈ c.svcs, s.peer = p ∧ s.node = n ∧ s.sid = i) → K n i) :
    Pres K (regOpsNode p st nd) := by
  -- split the command list of the node into the registrations without checks and the final check registration
  have hsplit : ∃ a b, regOpsNode p st nd = a ++ b ∧ (∀ r, Op.reg r ∈ a → r.chks = []) ∧
      (∀ ss ∈ nd.svcs, svcUnchanged st nd.node.name ss.svc = false → addsKey a nd.node.name ss.svc.sid) ∧
      (∀ r, Op.reg r ∈ b → r.svc = none ∧ ∀ k ∈ r.chks, ∃ ss ∈ nd.svcs, k ∈ ss.chks) ∧ b.length ≤ 1 := by
    refine ⟨(if nodeUnchanged st nd.node then [] else [Op.reg ⟨p, nd.node, none, []⟩]) ++
        (nd.svcs.filter fun ss => !svcUnchanged st nd.node.name ss.svc).map fun ss => Op.reg ⟨p, nd.node, some ss.svc, []⟩,
      (if (nd.svcs.flatMap fun ss => ss.chks.filter fun k => !chkUnchanged st nd.node.name ss.svc.sid k).isEmpty then []
       else [Op.reg ⟨p, nd.node, none, nd.svcs.flatMap fun ss => ss.chks.filter fun k => !chkUnchanged st nd.node.name ss.svc.sid k⟩]),
      by simp only [regOpsNode, List.append_assoc], ?_, ?_, ?_, ?_⟩
    · intro r hr
      simp only [List.mem_append, List.mem_map, List.mem_filter] at hr
      rcases hr with hr | ⟨ss, _, hr⟩
      · split at hr
        · cases hr
        · simp only [List.mem_singleton, Op.reg.injEq] at hr; subst hr; rfl
      · simp only [Op.reg.injEq] at hr; subst hr; rfl
    · intro ss hss hu
      refine ⟨⟨p, nd.node, some ss.svc, []⟩, ss.svc, ?_, rfl, rfl, rfl⟩
      simp only [List.mem_append, List.mem_map, List.mem_filter]
      exact Or.inr ⟨ss, ⟨hss, by simp [hu]⟩, rfl⟩
    · intro r hr
      split at hr
      · cases hr
      · simp only [List.mem_singleton, Op.reg.injEq] at hr; subst hr
        refine ⟨rfl, fun k hk => ?_⟩
        simp only [List.mem_flatMap, List.mem_filter] at hk
        obtain ⟨ss, hss, hk, _⟩ := hk
        exact ⟨ss, hss, hk⟩
    · split <;> simp
  obtain ⟨a, b, e, ha, hadd, hb, hlen⟩ := hsplit
  rw [e, Pres.append]
  refine ⟨Pres.nochk a ha, ?_⟩
  match b, hb, hlen with
  | [], _, _ => trivial
  | [o], hb, _ =>
    cases o with
    | reg r =>
      simp only [Pres, and_true]
      intro k hk hne
      left
      obtain ⟨hsv, hck⟩ := hb r (by simp)
      obtain ⟨ss, hss, hks⟩ := hck k hk
      obtain ⟨i, hi, e1, e2, e3⟩ := hs.fwd nd hnd ss hss
      obtain ⟨_, hkn, _, hksid⟩ := ok.chk i hi k (by rw [← e3]; exact hks)
      have hsid : k.sid = ss.svc.sid := by
        rcases hksid with h | ⟨h, _⟩
        · exact absurd h hne
        · rw [h, e2]
      have hnn : k.node = nd.node.name := by rw [hkn, e1]
      cases hu : svcUnchanged st nd.node.name ss.svc with
      | true =>
        left
        apply hK
        exact ⟨_, svcUnchanged_stored hst hu, rfl, by simp [svcRow, hnn], by simp [svcRow, hsid]⟩
      | false =>
        right
        rw [hnn, hsid]
        exact hadd ss hss hu
    | deregSvc p n i => simp only [Pres]
    | deregChk p n k => simp only [Pres]
    | deregNode p n => simp only [Pres]
  | _ :: _ :: _, _, hlen => simp at hlen

theorem Pres.snap {c : Cat} {p sn : String} {st : List CSN} {snap : Snap} {is : List Inst}
    (ok : SnapOK sn is) (hs : SnapIs snap is) (hst : csn c p sn = .ok st) (l : List SNode) (hl : ∀ nd ∈ l, nd ∈ snap)
    {K : String → String → Prop} (hK : ∀ n i, (∃ s ∈ c.svcs, s.peer = p ∧ s.node = n ∧ s.sid = i) → K n i) :
    Pres K (l.flatMap (regOpsNode p st)) := by
  induction l generalizing K with
  | nil => trivial
  | cons nd rest ih =>
    simp only [List.flatMap_cons, Pres.append]
    exact ⟨Pres.node ok hs hst (hl nd (by simp)) hK,
      ih (fun x hx => hl x (by simp [hx])) (fun n i h => Or.inl (hK n i h))⟩

/-- A consistent snapshot that meets no UUID conflict is processed: no error, no panic. -/
theorem handleUpdate_processed {c : Cat} {p sn : String} {is : List Inst}
    (wf : WF c) (ok : SnapOK sn is) (fr : Fresh c p is) (nt : NoTheft c p sn is) (nc : NoClash c p is)
    (rd : Readable c p sn) :
    (handleUpdate c p sn is).err = none ∧ (handleUpdate c p sn is).panic = false := by
  -- the view can be read
  have hst : ∃ st, csn c p sn = .ok st := by
    unfold csn
    apply csnAll_total
    intro s hs
    simp only [List.mem_filter, decide_eq_true_eq] at hs
    obtain ⟨n, hn, e1, e2⟩ := rd s hs.1 hs.2.1 hs.2.2
    cases hf : c.nodes.find? (nodeAt p s.node) with
    | none => exact absurd ⟨e1, e2⟩ (find_node_none hf n hn)
    | some e => exact ⟨⟨e, s, c.chks.filter (chkOfNode p s.node) ++ c.chks.filter (chkOfSvc p s.node s.sid)⟩, by simp only [csnOf, hf]⟩
  obtain ⟨st, hst⟩ := hst
  obtain ⟨snap, hsnap, _, sis⟩ := mkSnap_is ok
  have rok := regsOK (st := st) ok sis fr nt
  have hgo : (runOps c (snap.flatMap (regOpsNode p st))).2.1 = none := by
    apply runRegs_ok _ c p wf rok
    · intro r hr hne e he hep hen
      obtain ⟨_, ⟨i, hi, e1⟩, _, _⟩ := op_inst sis hr
      rw [e1] at hne hen ⊢
      exact nc i hi hne e he hep hen
    · intro r hr k hk
      obtain ⟨_, _, _, h3⟩ := op_inst sis hr
      obtain ⟨i, hi, e1, hki⟩ := h3 k hk
      rw [e1]; exact (ok.chk i hi k hki).2.1
    · exact Pres.snap ok sis hst snap (fun _ h => h) (fun _ _ h => h)
  unfold handleUpdate
  simp only [hst, hsnap]
  cases hr : runOps c (snap.flatMap (regOpsNode p st)) with
  | mk c1 rest =>
    cases rest with
    | mk e l1 =>
      rw [hr] at hgo
      simp only at hgo
      subst hgo
      simp

end CV.Peer
