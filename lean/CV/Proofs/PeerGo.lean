/-
Helper lemmas for C17: the registrations of a consistent snapshot never fail — the update is processed.
-/
import CV.Proofs.PeerInv
set_option linter.unusedSectionVars false
set_option linter.unusedSimpArgs false
namespace CV.Peer

theorem regNode_succeeds {c : Cat} (_wf : WF c) {nd : Node}
    (hid : nd.id ≠ "" → ∀ e ∈ c.nodes, e.peer = nd.peer → e.id = nd.id → e.name = nd.name)
    (h2 : nd.id ≠ "" → ∀ e ∈ c.nodes, e.peer = nd.peer → e.name = nd.name →
      e.id = "" ∨ e.id = nd.id ∨ serfHealthy c nd.peer e.name = false) :
    ∃ c', regNode c nd = .ok c' := by
  have noClash : nd.id ≠ "" → nameClash c nd true = false := by
    intro hne
    cases hc : nameClash c nd true with
    | false => rfl
    | true =>
      exfalso
      simp only [nameClash, List.any_eq_true, Bool.and_eq_true, Bool.or_eq_true, decide_eq_true_eq,
        Bool.not_true, Bool.false_eq_true, or_false] at hc
      obtain ⟨e, he, ⟨⟨h1, h3, h4⟩, h5⟩, h7⟩ := hc
      rcases h2 hne e he h1 h3 with h6 | h6 | h6
      · exact h5 h6
      · exact h4 h6.symm
      · rw [h1] at h7; rw [h6] at h7; cases h7
  have ens : ∃ c', ensureNode c nd = .ok c' := by
    unfold ensureNode
    split
    · exact ⟨_, rfl⟩
    · rename_i hne
      split
      · rename_i n hfind
        have h1 := List.mem_of_find?_eq_some hfind
        have h3 := List.find?_some hfind
        simp only [decide_eq_true_eq] at h3
        have := hid hne n h1 h3.1 h3.2
        simp only [this, if_true]
        exact ⟨_, rfl⟩
      · simp only [noClash hne, Bool.false_eq_true, if_false]
        exact ⟨_, rfl⟩
  unfold regNode
  split
  · split
    · exact ens
    · exact ⟨_, rfl⟩
  · exact ens

/-- the head conditions under which one registration transaction commits -/
theorem register_succeeds {c : Cat} (wf : WF c) {r : RegReq}
    (hid : r.node.id ≠ "" → ∀ e ∈ c.nodes, e.peer = r.peer → e.id = r.node.id → e.name = r.node.name)
    (h2 : r.node.id ≠ "" → ∀ e ∈ c.nodes, e.peer = r.peer → e.name = r.node.name →
      e.id = "" ∨ e.id = r.node.id ∨ serfHealthy c r.peer e.name = false)
    (hsid : ∀ sd, r.svc = some sd → sd.sid ≠ "")
    (hnode : ∀ k ∈ r.chks, k.node = r.node.name)
    (hsvc : ∀ k ∈ r.chks, k.sid ≠ "" → (∃ s ∈ c.svcs, s.peer = r.peer ∧ s.node = k.node ∧ s.sid = k.sid) ∨
      ∃ sd, r.svc = some sd ∧ r.node.name = k.node ∧ sd.sid = k.sid) :
    ∃ c', register c r = .ok c' := by
  obtain ⟨c1, h1⟩ := regNode_succeeds wf (nd := ⟨r.peer, r.node.name, r.node.id, r.node.addr⟩) hid h2
  obtain ⟨s1, k1, n1⟩ := regNode_spec wf hid h1
  have wf1 : WF c1 := WF.of_nodes wf _ s1 k1 n1
  have hn1 : c1.nodes.any (nodeAt r.peer r.node.name) = true := by
    simp only [List.any_eq_true, nodeAt_iff]
    exact ⟨_, (n1 _).mpr (Or.inl rfl), rfl, rfl⟩
  -- the service part
  have step2 : ∃ c2, (match r.svc with
      | some s => regSvc c1 r.peer r.node.name s
      | none => Except.ok c1) = .ok c2 ∧ WF c2 ∧ c2.nodes = c1.nodes ∧
      (∀ k ∈ r.chks, k.sid ≠ "" → ∃ s ∈ c2.svcs, s.peer = r.peer ∧ s.node = k.node ∧ s.sid = k.sid) := by
    cases hs : r.svc with
    | none =>
      refine ⟨c1, rfl, wf1, rfl, fun k hk hne => ?_⟩
      rcases hsvc k hk hne with h | ⟨sd, hsd, _⟩
      · rw [s1]; exact h
      · rw [hs] at hsd; cases hsd
    | some sd =>
      have hreg : ∃ c2, regSvc c1 r.peer r.node.name sd = .ok c2 := by
        unfold regSvc
        by_cases hst : svcStored c1 r.peer r.node.name sd = true
        · rw [if_pos hst]; exact ⟨_, rfl⟩
        · rw [if_neg hst, if_pos hn1]; exact ⟨_, rfl⟩
      obtain ⟨c2, h2'⟩ := hreg
      obtain ⟨a, b, d⟩ := regSvc_spec wf1 h2'
      refine ⟨c2, h2', WF.of_svcs wf1 _ (hsid sd hs) a b d, a, fun k hk hne => ?_⟩
      rcases hsvc k hk hne with ⟨s, hs1, e1, e2, e3⟩ | ⟨sd', hsd', e1, e2⟩
      · by_cases hkey : s.peer = r.peer ∧ s.node = r.node.name ∧ s.sid = sd.sid
        · exact ⟨_, (d _).mpr (Or.inl rfl), rfl, by rw [← e2, hkey.2.1], by rw [← e3, hkey.2.2]⟩
        · exact ⟨s, (d s).mpr (Or.inr ⟨by rw [s1]; exact hs1, hkey⟩), e1, e2, e3⟩
      · rw [hs] at hsd'; cases hsd'
        exact ⟨_, (d _).mpr (Or.inl rfl), rfl, e1, e2⟩
  obtain ⟨c2, h2', wf2, n2, hpres⟩ := step2
  -- the checks
  have hchks : ∀ (ks : List ChkDef) (cur : Cat), WF cur → cur.nodes = c2.nodes → cur.svcs = c2.svcs →
      (∀ k ∈ ks, k ∈ r.chks) → ∃ c3, regChks cur r.peer r.node.name ks = .ok c3 := by
    intro ks
    induction ks with
    | nil => intro cur _ _ _ _; exact ⟨cur, rfl⟩
    | cons k ks ih =>
      intro cur wfc hcn hcs hsub
      have hk := hsub k (by simp)
      have hstep : ∃ c', regChk cur r.peer r.node.name k = .ok c' := by
        unfold regChk
        rw [if_neg (fun h => h (hnode k hk))]
        have : cur.nodes.any (nodeAt r.peer k.node) = true := by rw [hnode k hk, hcn, n2]; exact hn1
        simp only [this, Bool.not_true, Bool.false_eq_true, if_false]
        split
        · exact ⟨_, rfl⟩
        · rename_i hne
          obtain ⟨s, hs1, e1, e2, e3⟩ := hpres k hk hne
          cases hf : cur.svcs.find? (svcAt r.peer k.node k.sid) with
          | some s' => exact ⟨_, rfl⟩
          | none =>
            exfalso
            rw [hcs] at hf
            exact find_svc_none hf s hs1 ⟨e1, e2, e3⟩
      obtain ⟨c', hc'⟩ := hstep
      obtain ⟨sname, _, a, b, d⟩ := regChk_spec wfc hc'
      obtain ⟨c3, hc3⟩ := ih c' (WF.of_chks wfc _ a b d) (a.trans hcn) (b.trans hcs) (fun x hx => hsub x (by simp [hx]))
      exact ⟨c3, by simp only [regChks, hc', hc3]⟩
  obtain ⟨c3, h3⟩ := hchks r.chks c2 wf2 rfl rfl (fun _ h => h)
  refine ⟨c3, ?_⟩
  simp only [register, h1]
  cases hs : r.svc with
  | none =>
    simp only [hs] at h2' ⊢
    cases h2'
    exact h3
  | some sd =>
    simp only [hs] at h2' ⊢
    rw [h2']
    exact h3

/-- the serf check of a node is looked up in the checks table only: it stays "not healthy" when no check row at
    that key is added -/
theorem serfHealthy_false_of {c c1 : Cat} (wf : WF c) {p n : String}
    (h : ∀ x ∈ c1.chks, x.peer = p → x.node = n → x.cid = "serfHealth" → x ∈ c.chks)
    (hc : serfHealthy c p n = false) : serfHealthy c1 p n = false := by
  unfold serfHealthy at hc ⊢
  cases hf1 : c1.chks.find? (chkAt p n "serfHealth") with
  | none => rfl
  | some k1 =>
    obtain ⟨m1, a1, a2, a3⟩ := find_chk hf1
    have hk := h k1 m1 a1 a2 a3
    cases hf : c.chks.find? (chkAt p n "serfHealth") with
    | none => exact absurd ⟨a1, a2, a3⟩ (find_chk_none hf k1 hk)
    | some k0 =>
      obtain ⟨m0, b1, b2, b3⟩ := find_chk hf
      have : k0 = k1 := wf.chks k0 m0 k1 hk (by rw [b1, a1]) (by rw [b2, a2]) (by rw [b3, a3])
      subst this
      simp only [hf] at hc
      simpa using hc

/-- a coherent list of registrations whose head conditions hold along the way is applied without failure -/
theorem runRegs_ok (ops : List Op) (c : Cat) (p : String) (wf : WF c) (ok : RegsOK c p ops)
    (K : String → String → String → Prop) (kl : KL c p K) (kco : KCo K ops) (hpres : Pres K ops)
    (h2 : ∀ r, .reg r ∈ ops → r.node.id ≠ "" → ∀ e ∈ c.nodes, e.peer = p → e.name = r.node.name →
      e.id = "" ∨ e.id = r.node.id ∨ serfHealthy c p e.name = false)
    (hnode : ∀ r, .reg r ∈ ops → ∀ k ∈ r.chks, k.node = r.node.name) :
    (runOps c ops).2.1 = none := by
  induction ops generalizing c K with
  | nil => rfl
  | cons o os ih =>
    obtain ⟨r, rfl, hp⟩ := ok.regs o (by simp)
    have hr : Op.reg r ∈ Op.reg r :: os := by simp
    have mem : ∀ r', Op.reg r' ∈ os → Op.reg r' ∈ Op.reg r :: os := fun r' h' => by simp [h']
    simp only [Pres] at hpres
    obtain ⟨c1, h1⟩ := register_succeeds wf (r := r)
      (by rw [hp]; exact ok.hid r hr) (by rw [hp]; exact h2 r hr)
      (fun sd hsd => ok.sid r sd hr hsd) (hnode r hr)
      (by
        intro k hk hne
        rcases hpres.1 k hk hne with hK | hsv
        · left; rw [hp]; exact (kl _ _ _ hK).1
        · exact Or.inr hsv)
    obtain ⟨wf1, n1, s1, k1, ok1, kl1, kco1⟩ := regs_tail wf ok kl kco hpres.1 h1
    have h21 : ∀ r', .reg r' ∈ os → r'.node.id ≠ "" → ∀ e ∈ c1.nodes, e.peer = p → e.name = r'.node.name →
        e.id = "" ∨ e.id = r'.node.id ∨ serfHealthy c1 p e.name = false := by
      intro r' hr' hne e he hep hen
      rcases (n1 e).mp he with rfl | ⟨he1, hnk⟩
      · simp only [nodeRow] at hen ⊢
        right; left
        rw [ok.cnode r r' hr (mem r' hr') hen]
      · rcases h2 r' (mem r' hr') hne e he1 hep hen with h | h | h
        · exact Or.inl h
        · exact Or.inr (Or.inl h)
        · refine Or.inr (Or.inr (serfHealthy_false_of wf ?_ h))
          intro x hx xp xn xc
          rcases (k1 x).mp hx with ⟨k, hk, rfl⟩ | ⟨hx0, _⟩
          · exfalso
            simp only [chkRow] at xn
            exact hnk ⟨hep, by rw [← xn, hnode r hr k hk]⟩
          · exact hx0
    have := ih c1 wf1 ok1 (addK K r) kl1 kco1 hpres.2 h21 (fun r' hr' => hnode r' (mem r' hr'))
    simp only [runOps, applyOp, h1]
    exact this

/-! ### the registrations of a consistent snapshot -/

/-- A consistent snapshot that meets no UUID conflict is processed: no error, no panic. -/
theorem handleUpdate_processed {c : Cat} {p sn : String} {is : List Inst}
    (wf : WF c) (ok : SnapOK sn is) (fr : Fresh c p is) (nc : NoClash c p is) (rd : Readable c p sn) :
    (handleUpdate c p sn is).err = none ∧ (handleUpdate c p sn is).panic = false := by
  -- the view can be read
  have hst : ∃ st, csn c p sn = .ok st := by
    unfold csn
    apply csnAll_total
    intro s hs
    simp only [List.mem_filter, decide_eq_true_eq] at hs
    obtain ⟨n, hn, e1, e2⟩ := rd s hs.1 hs.2.1 hs.2.2
    cases hf : c.nodes.find? (nodeAt p s.node) with
    | none => exact absurd ⟨e1, e2⟩ (find_node_none hf n hn)
    | some e => exact ⟨⟨e, s, c.chks.filter (chkOfNode p s.node) ++ c.chks.filter (chkOfSvc p s.node s.sid)⟩, by simp only [csnOf, hf]⟩
  obtain ⟨st, hst⟩ := hst
  obtain ⟨snap, hsnap, _, sis⟩ := mkSnap_is ok
  have rok := regsOK (c := c) (st := st) ok sis fr
  have hgo : (runOps c (snap.flatMap (regOpsNode p st))).2.1 = none := by
    apply runRegs_ok _ c p wf rok (K0 c p sn) (K0_kl c p sn) (K0_kco ok sis)
      (Pres.snap wf ok sis hst snap (fun _ h => h) (fun _ _ _ h => h))
    · intro r hr hne e he hep hen
      obtain ⟨_, ⟨i, hi, e1⟩, _, _⟩ := op_inst sis hr
      rw [e1] at hne hen ⊢
      exact nc i hi hne e he hep hen
    · intro r hr k hk
      obtain ⟨_, _, _, h3⟩ := op_inst sis hr
      obtain ⟨i, hi, e1, hki⟩ := h3 k hk
      rw [e1]; exact (ok.chk i hi k hki).2.1
  unfold handleUpdate
  simp only [hst, hsnap]
  cases hr : runOps c (snap.flatMap (regOpsNode p st)) with
  | mk c1 rest =>
    cases rest with
    | mk e l1 =>
      rw [hr] at hgo
      simp only at hgo
      subst hgo
      simp

end CV.Peer
