/-
Helper lemmas for C15: the bound on the number of flatten passes (`#nodes + 1`) is never hit on a
graph in which every node passed the cycle detector: the largest rank of a splitter that is the child
of a splitter drops with every pass.
-/
import CV.Proofs.ChainClosed
import CV.Proofs.ChainTop
set_option linter.unusedVariables false
set_option linter.unusedSimpArgs false
namespace CV.Chain

/-! ### ranks are bounded by the number of keys -/

theorem unseen_le_length {α : Type} [DecidableEq α] (u seen : List α) : unseen u seen ≤ u.length := by
  unfold unseen; exact List.countP_le_length

theorem height_le (nodes : List (String × Node)) :
    (∀ (path : List String) (k : String), height nodes path k ≤ unseen (akeys nodes) path) ∧
    (∀ (path ks : List String), heightL nodes path ks ≤ unseen (akeys nodes) path) := by
  apply height.mutual_induct nodes
    (motive1 := fun path k => height nodes path k ≤ unseen (akeys nodes) path)
    (motive2 := fun path ks => heightL nodes path ks ≤ unseen (akeys nodes) path)
  · intro path k hk
    rw [height]; simp [hk]
  · intro path k hk hn
    rw [height]; simp only [hk, dite_false]
    split
    · exact Nat.zero_le _
    · rename_i n h; rw [hn] at h; cases h
  · intro path k hk n hn ih
    rw [height_unfold nodes path k n hk hn]
    have := unseen_lt (u := akeys nodes) (alook_key_mem hn) hk
    omega
  · intro path
    rw [heightL]; exact Nat.zero_le _
  · intro path c cs ih1 ih2
    rw [heightL]; exact Nat.max_le.mpr ⟨ih1, ih2⟩

theorem rankOf_le (nodes : List (String × Node)) (k : String) : rankOf nodes k ≤ nodes.length := by
  unfold rankOf
  have := (height_le nodes).1 [] k
  have h2 := unseen_le_length (akeys nodes) ([] : List String)
  have h3 : (akeys nodes).length = nodes.length := by simp [akeys]
  omega

/-! ### absorb, refined -/

/-- kept splits lead to non-splitters; the others are inner splits of a splitter child -/
theorem absorb_spec' (nodes : List (String × Node)) (ss ss' : List CSplit) (ch : Bool)
    (h : absorb nodes ss = some (ss', ch)) :
    ∀ s' ∈ ss', (s' ∈ ss ∧ ∀ inner lb, alook s'.next nodes ≠ some (.splitter inner lb)) ∨
      ∃ s ∈ ss, ∃ inner lb, ∃ i ∈ inner, alook s.next nodes = some (.splitter inner lb) ∧ s'.next = i.next := by
  induction ss generalizing ss' ch with
  | nil =>
    simp only [absorb, Option.some.injEq, Prod.mk.injEq] at h
    intro s' hs'; rw [← h.1] at hs'; cases hs'
  | cons s rest ih =>
    rw [absorb] at h
    split at h
    · cases h
    · rename_i rest' ch' hr
      have ih' := ih rest' ch' hr
      split at h
      · cases h
      · rename_i inner lb hn
        cases h
        intro s' hs'
        rcases List.mem_append.mp hs' with hs' | hs'
        · obtain ⟨i, hi, rfl⟩ := List.mem_map.mp hs'
          exact Or.inr ⟨s, List.mem_cons_self, inner, lb, i, hi, hn, rfl⟩
        · rcases ih' s' hs' with ⟨h1, h2⟩ | ⟨s0, hs0, rest0⟩
          · exact Or.inl ⟨List.mem_cons_of_mem _ h1, h2⟩
          · exact Or.inr ⟨s0, List.mem_cons_of_mem _ hs0, rest0⟩
      · rename_i n hns hn
        cases h
        intro s' hs'
        rcases List.mem_cons.mp hs' with rfl | hs'
        · refine Or.inl ⟨List.mem_cons_self, ?_⟩
          intro inner lb e
          rw [hn] at e
          exact hns inner lb (Option.some.inj e)
        · rcases ih' s' hs' with ⟨h1, h2⟩ | ⟨s0, hs0, rest0⟩
          · exact Or.inl ⟨List.mem_cons_of_mem _ h1, h2⟩
          · exact Or.inr ⟨s0, List.mem_cons_of_mem _ hs0, rest0⟩

/-- `absorb` only fails on a dangling `NextNode` -/
theorem absorb_total (nodes : List (String × Node)) (ss : List CSplit) (h : ∀ s ∈ ss, s.next ∈ akeys nodes) :
    ∃ r, absorb nodes ss = some r := by
  induction ss with
  | nil => exact ⟨_, rfl⟩
  | cons s rest ih =>
    obtain ⟨⟨rest', ch⟩, hr⟩ := ih (fun x hx => h x (List.mem_cons_of_mem _ hx))
    obtain ⟨n, hn⟩ := alook_some_of_mem_keys (h s List.mem_cons_self)
    rw [absorb, hr]
    simp only
    rw [hn]
    cases n <;> exact ⟨_, rfl⟩

/-- every `NextNode` of every node is a key -/
def ClosedK (nodes : List (String × Node)) : Prop := ∀ k n, alook k nodes = some n → ∀ m ∈ n.next, m ∈ akeys nodes

theorem closedK_step (nodes : List (String × Node)) (k : String) (ss ss' : List CSplit) (lb : Option String) (ch : Bool)
    (hc : ClosedK nodes) (hk : alook k nodes = some (.splitter ss lb)) (ha : absorb nodes ss = some (ss', ch)) :
    ClosedK (aset k (.splitter ss' lb) nodes) := by
  intro k' n h m hm
  rw [akeys_aset k _ _ nodes hk]
  rw [alook_aset k k' _ _ nodes hk] at h
  split at h
  · cases h
    simp only [Node.next, List.mem_map] at hm
    obtain ⟨s', hs', rfl⟩ := hm
    rcases absorb_spec nodes ss ss' ch ha s' hs' with h1 | ⟨s, hs, inner, lbi, i, hi, hn, hnext⟩
    · exact hc k _ hk s'.next (by simp only [Node.next, List.mem_map]; exact ⟨s', h1, rfl⟩)
    · rw [hnext]
      exact hc s.next _ hn i.next (by simp only [Node.next, List.mem_map]; exact ⟨i, hi, rfl⟩)
  · exact hc k' n h m hm

/-! ### the per-pass bound -/

/-- after `j` passes (`j+1` for the nodes already visited in the current pass) every splitter that is
    still the child of a splitter has rank `< N - j` -/
def Mixed (n0 : List (String × Node)) (N j : Nat) (nodes : List (String × Node)) (done : List String) : Prop :=
  ∀ k ss lb, alook k nodes = some (.splitter ss lb) → ∀ s ∈ ss, ∀ ci li,
    alook s.next nodes = some (.splitter ci li) → rankOf n0 s.next + (if k ∈ done then j + 1 else j) < N

theorem Mixed.congr {n0 : List (String × Node)} {N j : Nat} {nodes : List (String × Node)} {d d' : List String}
    (h : Mixed n0 N j nodes d) (hd : ∀ x, x ∈ d ↔ x ∈ d') : Mixed n0 N j nodes d' := by
  intro k ss lb hk s hs ci li hc
  have := h k ss lb hk s hs ci li hc
  simp only [hd k] at this; exact this

/-- visiting one splitter node -/
theorem round_step (n0 : List (String × Node)) (hgood : ∀ k ∈ akeys n0, Good n0 k) (N j : Nat)
    (nodes : List (String × Node)) (done : List String) (k : String) (ss ss' : List CSplit) (lb : Option String) (ch : Bool)
    (hI : FlatInv n0 nodes) (hC : ClosedK nodes) (hM : Mixed n0 N j nodes done)
    (hn : alook k nodes = some (.splitter ss lb)) (ha : absorb nodes ss = some (ss', ch)) :
    FlatInv n0 (if ch = true then aset k (.splitter ss' lb) nodes else nodes) ∧
    ClosedK (if ch = true then aset k (.splitter ss' lb) nodes else nodes) ∧
    Mixed n0 N j (if ch = true then aset k (.splitter ss' lb) nodes else nodes) (k :: done) ∧
    akeys (if ch = true then aset k (.splitter ss' lb) nodes else nodes) = akeys nodes := by
  have hgk : Good n0 k := hgood k (by rw [← hI.keys]; exact alook_key_mem hn)
  by_cases hch : ch = true
  · subst hch
    simp only [if_true]
    refine ⟨flatInv_step n0 nodes k ss lb ss' true hI hn ha, closedK_step nodes k ss ss' lb true hC hn ha, ?_,
      akeys_aset k _ _ nodes hn⟩
    have hlook := fun k' => alook_aset k k' (Node.splitter ss' lb) (Node.splitter ss lb) nodes hn
    intro k1 ss1 lb1 hk1 s hs ci li hci
    rw [hlook k1] at hk1
    -- a splitter child in the new table was one in the old table
    have hchild : ∃ ci' li', alook s.next nodes = some (.splitter ci' li') := by
      rw [hlook s.next] at hci
      split at hci
      · rename_i e; rw [e]; exact ⟨_, _, hn⟩
      · exact ⟨_, _, hci⟩
    obtain ⟨ci', li', hci'⟩ := hchild
    split at hk1
    · rename_i e
      cases hk1
      subst e
      simp only [List.mem_cons, true_or, if_true]
      rcases absorb_spec' nodes ss _ true ha s hs with ⟨_, hnot⟩ | ⟨s0, hs0, inner, lbi, i, hi, hc0, hnext⟩
      · exact absurd hci' (hnot ci' li')
      · have hb := hI.rank k1 _ hn hgk s0.next (by simp only [Node.next, List.mem_map]; exact ⟨s0, hs0, rfl⟩)
        have hr := hI.rank s0.next _ hc0 hb.1 i.next (by simp only [Node.next, List.mem_map]; exact ⟨i, hi, rfl⟩)
        have hbound := hM k1 ss lb hn s0 hs0 inner lbi hc0
        rw [hnext]
        have : rankOf n0 s0.next + j < N := by
          split at hbound <;> omega
        omega
    · rename_i hne
      have hbound := hM k1 ss1 lb1 hk1 s hs ci' li' hci'
      have : (k1 ∈ k :: done) ↔ (k1 ∈ done) := by
        simp only [List.mem_cons]; exact ⟨fun h => h.elim (fun e => absurd e hne) id, Or.inr⟩
      simp only [this]; exact hbound
  · have hf : ch = false := by cases ch <;> simp_all
    subst hf
    simp only [Bool.false_eq_true, if_false]
    refine ⟨hI, hC, ?_, trivial⟩
    have hnone := absorb_unchanged nodes ss ss' ha
    intro k1 ss1 lb1 hk1 s hs ci li hci
    by_cases e : k1 = k
    · subst e
      rw [hn] at hk1; cases hk1
      have := hnone s hs _ hci
      simp [Node.isSplitter] at this
    · have hbound := hM k1 ss1 lb1 hk1 s hs ci li hci
      have : (k1 ∈ k :: done) ↔ (k1 ∈ done) := by
        simp only [List.mem_cons]; exact ⟨fun h => h.elim (fun e' => absurd e' e) id, Or.inr⟩
      simp only [this]; exact hbound

theorem flattenRound_bound (n0 : List (String × Node)) (hgood : ∀ k ∈ akeys n0, Good n0 k) (N j : Nat)
    (nodes : List (String × Node)) (order done : List String)
    (hI : FlatInv n0 nodes) (hC : ClosedK nodes) (hM : Mixed n0 N j nodes done) (hord : ∀ k ∈ order, k ∈ akeys nodes) :
    ∃ n' ch, flattenRound nodes order = some (n', ch) ∧ FlatInv n0 n' ∧ ClosedK n' ∧ Mixed n0 N j n' (order ++ done) := by
  fun_induction flattenRound nodes order generalizing done with
  | case1 nodes => exact ⟨nodes, false, rfl, hI, hC, by simpa using hM⟩
  | case2 nodes k ks hn =>
    obtain ⟨v, hv⟩ := alook_some_of_mem_keys (hord k List.mem_cons_self)
    rw [hn] at hv; cases hv
  | case3 nodes k ks ss lb hn ha =>
    obtain ⟨r, hr⟩ := absorb_total nodes ss (fun s hs => hC k _ hn s.next (by simp only [Node.next, List.mem_map]; exact ⟨s, hs, rfl⟩))
    rw [ha] at hr; cases hr
  | case4 nodes k ks ss lb hn ss' ch ha hr ih =>
    obtain ⟨i1, c1, m1, k1⟩ := round_step n0 hgood N j nodes done k ss ss' lb ch hI hC hM hn ha
    obtain ⟨n', ch', h', _⟩ := ih (k :: done) i1 c1 m1 (fun x hx => by rw [k1]; exact hord x (List.mem_cons_of_mem _ hx))
    rw [hr] at h'; cases h'
  | case5 nodes k ks ss lb hn ss' ch ha n'' ch' hr ih =>
    obtain ⟨i1, c1, m1, k1⟩ := round_step n0 hgood N j nodes done k ss ss' lb ch hI hC hM hn ha
    obtain ⟨n', ch2, h', i2, c2, m2⟩ := ih (k :: done) i1 c1 m1 (fun x hx => by rw [k1]; exact hord x (List.mem_cons_of_mem _ hx))
    rw [hr] at h'
    simp only [Option.some.injEq, Prod.mk.injEq] at h'
    obtain ⟨rfl, rfl⟩ := h'
    refine ⟨_, _, rfl, i2, c2, m2.congr ?_⟩
    intro x; simp only [List.mem_append, List.mem_cons]
    constructor
    · rintro (h | h | h)
      · exact Or.inl (Or.inr h)
      · exact Or.inl (Or.inl h)
      · exact Or.inr h
    · rintro ((h | h) | h)
      · exact Or.inr (Or.inl h)
      · exact Or.inl h
      · exact Or.inr (Or.inr h)
  | case6 nodes k ks n hns hn ih =>
    have m1 : Mixed n0 N j nodes (k :: done) := by
      intro k1 ss1 lb1 hk1 s hs ci li hci
      have hbound := hM k1 ss1 lb1 hk1 s hs ci li hci
      have hne : k1 ≠ k := by
        intro e; subst e; rw [hn] at hk1; exact hns ss1 lb1 (Option.some.inj hk1)
      have : (k1 ∈ k :: done) ↔ (k1 ∈ done) := by
        simp only [List.mem_cons]; exact ⟨fun h => h.elim (fun e' => absurd e' hne) id, Or.inr⟩
      simp only [this]; exact hbound
    obtain ⟨n', ch2, h', i2, c2, m2⟩ := ih (k :: done) hI hC m1 (fun x hx => hord x (List.mem_cons_of_mem _ hx))
    refine ⟨n', ch2, h', i2, c2, m2.congr ?_⟩
    intro x; simp only [List.mem_append, List.mem_cons]
    constructor
    · rintro (h | h | h)
      · exact Or.inl (Or.inr h)
      · exact Or.inl (Or.inl h)
      · exact Or.inr h
    · rintro ((h | h) | h)
      · exact Or.inr (Or.inl h)
      · exact Or.inl h
      · exact Or.inr (Or.inr h)

/-! ### the loop -/

theorem absorb_nochange (nodes : List (String × Node)) (ss ss' : List CSplit) (ch : Bool)
    (hno : ∀ s ∈ ss, ∀ ci li, alook s.next nodes ≠ some (.splitter ci li))
    (h : absorb nodes ss = some (ss', ch)) : ch = false := by
  induction ss generalizing ss' ch with
  | nil => simp only [absorb, Option.some.injEq, Prod.mk.injEq] at h; exact h.2.symm
  | cons s rest ih =>
    rw [absorb] at h
    split at h
    · cases h
    · rename_i rest' ch' hr
      have := ih rest' ch' (fun x hx => hno x (List.mem_cons_of_mem _ hx)) hr
      split at h
      · cases h
      · rename_i inner lb hn
        exact absurd hn (hno s List.mem_cons_self inner lb)
      · simp only [Option.some.injEq, Prod.mk.injEq] at h
        rw [← h.2]; exact this

theorem flattenRound_nochange (nodes : List (String × Node)) (order : List String) (n' : List (String × Node)) (ch : Bool)
    (hno : ∀ k ss lb, alook k nodes = some (.splitter ss lb) → ∀ s ∈ ss, ∀ ci li, alook s.next nodes ≠ some (.splitter ci li))
    (h : flattenRound nodes order = some (n', ch)) : ch = false := by
  fun_induction flattenRound nodes order generalizing n' ch with
  | case1 nodes => simp only [Option.some.injEq, Prod.mk.injEq] at h; exact h.2.symm
  | case2 nodes k ks hn => cases h
  | case3 nodes k ks ss lb hn ha => cases h
  | case4 nodes k ks ss lb hn ss' ch1 ha hr ih => cases h
  | case5 nodes k ks ss lb hn ss' ch1 ha n'' ch' hr ih =>
    have h1 := absorb_nochange nodes ss ss' ch1 (hno k ss lb hn) ha
    subst h1
    simp only [Bool.false_eq_true, if_false] at hr ih
    have h2 := ih n'' ch' hno hr
    simp only [Option.some.injEq, Prod.mk.injEq] at h
    rw [← h.2, h2]; rfl
  | case6 nodes k ks n hns hn ih => exact ih n' ch hno h

theorem flattenLoop_total (n0 : List (String × Node)) (hgood : ∀ k ∈ akeys n0, Good n0 k) (order : List String)
    (hord1 : ∀ k ∈ order, k ∈ akeys n0) (hord2 : ∀ k ∈ akeys n0, k ∈ order) :
    ∀ (fuel j : Nat) (nodes : List (String × Node)), j + (fuel + 1) = n0.length + 1 →
      FlatInv n0 nodes → ClosedK nodes → Mixed n0 n0.length j nodes [] →
      ∃ n', flattenLoop (fuel + 1) order nodes = some n' := by
  intro fuel
  induction fuel with
  | zero =>
    intro j nodes hj hI hC hM
    obtain ⟨n', ch, hr, _, _, _⟩ := flattenRound_bound n0 hgood n0.length j nodes order [] hI hC hM
      (fun k hk => by rw [hI.keys]; exact hord1 k hk)
    have hno : ∀ k ss lb, alook k nodes = some (.splitter ss lb) → ∀ s ∈ ss, ∀ ci li,
        alook s.next nodes ≠ some (.splitter ci li) := by
      intro k ss lb hk s hs ci li hc
      have := hM k ss lb hk s hs ci li hc
      simp only [List.not_mem_nil, if_false] at this
      omega
    have := flattenRound_nochange nodes order n' ch hno hr
    subst this
    exact ⟨n', by rw [flattenLoop, hr]; simp⟩
  | succ f ih =>
    intro j nodes hj hI hC hM
    obtain ⟨n', ch, hr, i1, c1, m1⟩ := flattenRound_bound n0 hgood n0.length j nodes order [] hI hC hM
      (fun k hk => by rw [hI.keys]; exact hord1 k hk)
    rw [flattenLoop, hr]
    simp only
    split
    · apply ih (j + 1) n' (by omega) i1 c1
      intro k ss lb hk s hs ci li hc
      have := m1 k ss lb hk s hs ci li hc
      have hin : k ∈ order ++ [] := by
        simp only [List.append_nil]
        apply hord2; rw [← i1.keys]; exact alook_key_mem hk
      simp only [hin, if_true] at this
      simp only [List.not_mem_nil, if_false]
      exact this
    · exact ⟨n', rfl⟩

/-- the pass bound of the model is never hit after a clean detector run on an assembled graph -/
theorem flatten_bound_sufficient (es : Entries) (cx : Ctx) (st : St) (start : String)
    (ha : assemble es cx = .ok (st, start)) (hd : dfsNode st.nodes [] start = .ok ()) :
    ∃ n', flattenLoop (st.nodes.length + 1) (sortKeys (akeys st.nodes)) st.nodes = some n' := by
  have A := assemble_closed es cx st start ha
  have hgood : ∀ k ∈ akeys st.nodes, Good st.nodes k := fun k hk => (good_reach st.nodes start k hd (A.reach k hk)).1
  apply flattenLoop_total st.nodes hgood (sortKeys (akeys st.nodes))
    (fun k hk => (sortKeys_perm_self _).subset hk) (fun k hk => (sortKeys_perm_self _).symm.subset hk)
    st.nodes.length 0 st.nodes (by omega) (flatInv_refl _)
  · intro k n hk m hm
    exact A.closed k n (alook_mem hk) m hm
  · intro k ss lb hk s hs ci li hc
    simp only [List.not_mem_nil, if_false, Nat.add_zero]
    have hg := hgood k (alook_key_mem hk)
    have := (good_edge st.nodes k _ hg hk s.next (by simp only [Node.next, List.mem_map]; exact ⟨s, hs, rfl⟩)).2
    have := rankOf_le st.nodes k
    omega

end CV.Chain
