/-
A second generic ladder, for predicates over the KV table AND the sessions table: everything outside
the KV verbs and session creation changes these two tables only by removing a session together with
releasing / deleting its keys. Used for the exact effect of non-KV commands on the KV map (C03).
-/
import CV.Proofs.StoreCascade
import CV.Proofs.StoreKV
namespace CV.Store
open CV

/-- `P` looks at the KV table and the sessions table only, and is closed under the removal of one
    session together with the release / deletion of its keys at index `idx` -/
structure KsClosed (idx : Nat) (P : State → Prop) : Prop where
  view : ∀ s s' : State, s'.kvs = s.kvs → s'.sessions = s.sessions → P s → P s'
  remove : ∀ (s : State) (id : String) (sess : Sess), sessFind s id = some sess → P s →
    P (invalidateKeys { s with sessions := terase Sess.pk (lc id) s.sessions, index := idxSet s.index "sessions" idx } idx sess)

theorem sessions_of_view {s s' : State} (h : lockView s' = lockView s) : s'.sessions = s.sessions :=
  congrArg (fun v => v.2.1) h

variable {idx : Nat} {P : State → Prop}

theorem ks_view (hP : KsClosed idx P) {s s' : State} (h : lockView s' = lockView s) : P s → P s' :=
  hP.view s s' (kvs_of_view h) (sessions_of_view h)

theorem ks_removeSession (hP : KsClosed idx P) {s : State} {id : String} {sess : Sess}
    (hf : sessFind s id = some sess) (h : P s) :
    P (dropSessionRefs (invalidateKeys
      { s with sessions := terase Sess.pk (lc id) s.sessions, index := idxSet s.index "sessions" idx } idx sess) idx id) := by
  apply hP.view _ _ (dropSessionRefs_rest _ idx id).1 (dropSessionRefs_rest _ idx id).2.1
  exact hP.remove s id sess hf h

def KsDel (idx : Nat) (P : State → Prop) (n : Nat) : Prop :=
  ∀ s id s', deleteSessionF n s idx id = .ok s' → P s → P s'
def KsChk (idx : Nat) (P : State → Prop) (n : Nat) : Prop :=
  ∀ s p hc s', ensureCheckF n s idx p hc = .ok s' → P s → P s'

theorem ksDel_zero (_hP : KsClosed idx P) : KsDel idx P 0 := by
  intro s id s' hr h
  rw [deleteSessionF] at hr
  split at hr
  · simp at hr; exact hr ▸ h
  · simp at hr

theorem ksDel_succ (hP : KsClosed idx P) {n : Nat} (hq : KsChk idx P n) : KsDel idx P (n + 1) := by
  intro s id s' hr h
  rw [deleteSessionF] at hr
  split at hr
  · simp at hr; exact hr ▸ h
  · next sess hf =>
    simp only at hr
    exact foldE_ind P _ (fun st c st' hst hc => hq st _ _ st' hc hst) _ _ _
      (ks_removeSession hP hf h) hr

theorem ksChk_of (hP : KsClosed idx P) {n : Nat} (hp : ∀ m, n = m + 1 → KsDel idx P m) : KsChk idx P n := by
  intro s p hc s' hr h
  rw [ensureCheckF] at hr
  split at hr
  · simp at hr
  · next s1 hc1 md hprep =>
    have h1 : P s1 := ks_view hP (checkPrep_view hprep) h
    split at hr
    · simp at hr; rw [← hr]; exact ks_view hP (lockView_checkFinish _ _ _ _ _) h1
    · simp at hr
    · next m _ =>
      split at hr
      · simp at hr
      · next s2 hfold =>
        simp at hr; rw [← hr]
        refine ks_view hP (lockView_checkFinish _ _ _ _ _) ?_
        exact foldE_ind P _ (fun st sid st' hst hc => hp m rfl st sid st' hc hst) _ _ _ h1 hfold

theorem ks_cascade (hP : KsClosed idx P) (n : Nat) : KsDel idx P n ∧ KsChk idx P n := by
  induction n with
  | zero => exact ⟨ksDel_zero hP, ksChk_of hP (by intro m hm; omega)⟩
  | succ n ih =>
    exact ⟨ksDel_succ hP ih.2, ksChk_of hP (by intro m hm; have : m = n := by omega
                                               subst this; exact ih.1)⟩

theorem ks_deleteSession (hP : KsClosed idx P) {s s' : State} {id : String}
    (hr : deleteSession s idx id = .ok s') (h : P s) : P s' :=
  (ks_cascade hP _).1 s id s' hr h

theorem ks_ensureCheck (hP : KsClosed idx P) {s s' : State} {p : Bool} {hc : Chk}
    (hr : ensureCheck s idx p hc = .ok s') (h : P s) : P s' :=
  (ks_cascade hP _).2 s p hc s' hr h

theorem ks_updateSessionCheck (hP : KsClosed idx P) {s s' : State} {x : Sess} {st : String}
    (hr : updateSessionCheck s idx x st = .ok s') (h : P s) : P s' := by
  unfold updateSessionCheck at hr
  exact foldE_ind P _ (fun a c a' ha hc => ks_ensureCheck hP hc ha) _ _ _ h hr

theorem ks_pqSet (hP : KsClosed idx P) {s s' : State} {id sess : String}
    (hr : pqSet s idx id sess = .ok s') (h : P s) : P s' := by
  simp only [pqSet] at hr
  repeat' (split at hr)
  all_goals (try simp at hr)
  all_goals (subst hr)
  all_goals (exact hP.view s _ rfl rfl h)

theorem ks_pqDelete (hP : KsClosed idx P) {s : State} {id : String} (h : P s) : P (pqDelete s idx id) := by
  unfold pqDelete
  split
  · exact h
  · exact hP.view s _ rfl rfl h

theorem ks_deleteCheck (hP : KsClosed idx P) {s s' : State} {node id : String}
    (hr : deleteCheck s idx node id = .ok s') (h : P s) : P s' := by
  simp only [deleteCheck] at hr
  split at hr
  · simp at hr; exact hr ▸ h
  · exact foldE_ind P _ (fun a c a' ha hc => ks_deleteSession hP hc ha) _ _ _
      (ks_view hP (lockView_deleteCheckPre _ _ _ _ _) h) hr

theorem ks_deleteService (hP : KsClosed idx P) {s s' : State} {node id : String}
    (hr : deleteService s idx node id = .ok s') (h : P s) : P s' := by
  simp only [deleteService] at hr
  split at hr
  · simp at hr; exact hr ▸ h
  · split at hr
    · simp at hr
    · next s1 hfold =>
      simp at hr; rw [← hr]
      have h1 : P s1 := foldE_ind P _ (fun a c a' ha hc => ks_deleteCheck hP hc ha) _ _ _ h hfold
      exact ks_view hP (lockView_deleteServicePost _ _ _ _ _) h1

theorem ks_deleteNode (hP : KsClosed idx P) {s s' : State} {name : String}
    (hr : deleteNode s idx name = .ok s') (h : P s) : P s' := by
  simp only [deleteNode] at hr
  split at hr
  · simp at hr; exact hr ▸ h
  · split at hr
    · simp at hr
    · next s2 hf2 =>
      split at hr
      · simp at hr
      · next s3 hf3 =>
        have h1 : P (List.foldl (fun st (v : Svc) => bumpServiceIdx st idx v.name) s
            (List.filter (fun v => lc v.node == lc name) s.svcs)) :=
          ks_view hP (lockView_foldl (fun st (v : Svc) => bumpServiceIdx st idx v.name) (fun st b => rfl) _ s) h
        have h2 : P s2 := foldE_ind P _ (fun a c a' ha hc => ks_deleteService hP hc ha) _ _ _ h1 hf2
        have h3 : P s3 := foldE_ind P _ (fun a c a' ha hc => ks_deleteCheck hP hc ha) _ _ _ h2 hf3
        exact foldE_ind P _ (fun a c a' ha hc => ks_deleteSession hP hc ha) _ _ _
          (ks_view hP (lockView_deleteNodePost _ _ _) h3) hr

theorem ks_ensureNode (hP : KsClosed idx P) {s s' : State} {n : Node}
    (hr : ensureNode s idx n = .ok s') (h : P s) : P s' := by
  simp only [ensureNode] at hr
  split at hr
  · simp at hr
  · next s1 byId hr1 =>
    have h1 : P s1 := by
      repeat' (split at hr1)
      all_goals (try simp at hr1)
      all_goals (obtain ⟨rfl, -⟩ := hr1)
      all_goals (first | exact h | exact ks_deleteNode hP (by assumption) h)
    repeat' (split at hr)
    all_goals (try simp at hr)
    all_goals (subst hr)
    all_goals (first | exact h1 | exact ks_view hP (lockView_nodeInsert _ _) h1)

theorem ks_ensureService (hP : KsClosed idx P) {s s' : State} {v : Svc}
    (hr : ensureService s idx v = .ok s') (h : P s) : P s' := by
  unfold ensureService at hr
  split at hr
  · simp at hr
  · split at hr
    · simp only at hr
      split at hr
      · simp at hr; exact hr ▸ h
      · simp at hr; rw [← hr]; exact ks_view hP (lockView_svcInsert _ _) h
    · simp at hr; rw [← hr]; exact ks_view hP (lockView_svcInsert _ _) h

theorem ks_ensureRegistration (hP : KsClosed idx P) {s s' : State} {r : RegReq}
    (hr : ensureRegistration s idx r = .ok s') (h : P s) : P s' := by
  simp only [ensureRegistration] at hr
  split at hr
  · simp at hr
  · next s1 hr1 =>
    have h1 : P s1 := by
      repeat' (split at hr1)
      all_goals (try simp at hr1)
      all_goals (first | exact hr1 ▸ h | exact ks_ensureNode hP hr1 h)
    split at hr
    · simp at hr
    · next s2 hr2 =>
      have h2 : P s2 := by
        repeat' (split at hr2)
        all_goals (try simp at hr2)
        all_goals (first | exact hr2 ▸ h1 | exact ks_ensureService hP hr2 h1)
      refine foldE_ind P _ ?_ _ _ _ h2 hr
      intro a c a' ha hc
      unfold ensureCheckIfNodeMatches at hc
      split at hc
      · simp at hc
      · exact ks_ensureCheck hP hc ha

section cas
variable (hP : KsClosed idx P)
include hP

theorem ks_ensureNodeCas {s s' : State} {n : Node} {b : Bool}
    (hr : ensureNodeCas s idx n = .ok (s', b)) (h : P s) : P s' := by
  unfold ensureNodeCas at hr
  repeat' (split at hr)
  all_goals (try simp at hr)
  all_goals (obtain ⟨rfl, -⟩ := hr)
  all_goals (first | exact h | exact ks_ensureNode hP (by assumption) h)

theorem ks_deleteNodeCas {s s' : State} {c : Nat} {n : String} {b : Bool}
    (hr : deleteNodeCas s idx c n = .ok (s', b)) (h : P s) : P s' := by
  unfold deleteNodeCas at hr
  repeat' (split at hr)
  all_goals (try simp at hr)
  all_goals (obtain ⟨rfl, -⟩ := hr)
  all_goals (first | exact h | exact ks_deleteNode hP (by assumption) h)

theorem ks_ensureServiceCas {s s' : State} {v : Svc} {b : Bool}
    (hr : ensureServiceCas s idx v = .ok (s', b)) (h : P s) : P s' := by
  unfold ensureServiceCas at hr
  repeat' (split at hr)
  all_goals (try simp at hr)
  all_goals (obtain ⟨rfl, -⟩ := hr)
  all_goals (first | exact h | exact ks_ensureService hP (by assumption) h)

theorem ks_deleteServiceCas {s s' : State} {c : Nat} {n i : String} {b : Bool}
    (hr : deleteServiceCas s idx c n i = .ok (s', b)) (h : P s) : P s' := by
  unfold deleteServiceCas at hr
  repeat' (split at hr)
  all_goals (try simp at hr)
  all_goals (obtain ⟨rfl, -⟩ := hr)
  all_goals (first | exact h | exact ks_deleteService hP (by assumption) h)

theorem ks_ensureCheckCas {s s' : State} {c : Chk} {b : Bool}
    (hr : ensureCheckCas s idx c = .ok (s', b)) (h : P s) : P s' := by
  unfold ensureCheckCas at hr
  repeat' (split at hr)
  all_goals (try simp at hr)
  all_goals (obtain ⟨rfl, -⟩ := hr)
  all_goals (first | exact h | exact ks_ensureCheck hP (by assumption) h)

theorem ks_deleteCheckCas {s s' : State} {c : Nat} {n i : String} {b : Bool}
    (hr : deleteCheckCas s idx c n i = .ok (s', b)) (h : P s) : P s' := by
  unfold deleteCheckCas at hr
  repeat' (split at hr)
  all_goals (try simp at hr)
  all_goals (obtain ⟨rfl, -⟩ := hr)
  all_goals (first | exact h | exact ks_deleteCheck hP (by assumption) h)

/-- one transaction operation that is not a KV verb -/
theorem ks_txnStep {s s' : State} {op : TxnOp} {rs : List TxnRes} (hop : ∀ v e, op ≠ .kv v e)
    (hr : txnStep s idx op = .ok (s', rs)) (h : P s) : P s' := by
  cases op with
  | kv v e => exact absurd rfl (hop v e)
  | node v n =>
    simp only [txnStep, txnNode] at hr
    cases v <;> simp only [okRes] at hr <;> repeat' (split at hr)
    all_goals (try simp at hr)
    all_goals (try (obtain ⟨rfl, -⟩ := hr))
    all_goals (first
      | exact h
      | exact ks_ensureNode hP (by assumption) h
      | exact ks_ensureNodeCas hP (by assumption) h
      | exact ks_deleteNode hP (by assumption) h
      | exact ks_deleteNodeCas hP (by assumption) h)
  | service v x =>
    simp only [txnStep, txnService] at hr
    cases v <;> simp only [okRes] at hr <;> repeat' (split at hr)
    all_goals (try simp at hr)
    all_goals (try (obtain ⟨rfl, -⟩ := hr))
    all_goals (first
      | exact h
      | exact ks_ensureService hP (by assumption) h
      | exact ks_ensureServiceCas hP (by assumption) h
      | exact ks_deleteService hP (by assumption) h
      | exact ks_deleteServiceCas hP (by assumption) h)
  | check v c =>
    simp only [txnStep, txnCheck] at hr
    cases v <;> simp only [okRes] at hr <;> repeat' (split at hr)
    all_goals (try simp at hr)
    all_goals (try (obtain ⟨rfl, -⟩ := hr))
    all_goals (first
      | exact h
      | exact ks_ensureCheck hP (by assumption) h
      | exact ks_ensureCheckCas hP (by assumption) h
      | exact ks_deleteCheck hP (by assumption) h
      | exact ks_deleteCheckCas hP (by assumption) h)
  | sessionDelete id =>
    simp only [txnStep, okRes] at hr
    split at hr
    · simp at hr; exact hr.1 ▸ ks_deleteSession hP (by assumption) h
    · simp at hr

end cas

/-- the commands that can only END sessions: not KV writes, not session create, not transactions -/
def Cmd.endsSessionsOnly : Cmd → Bool
  | .sessionDestroy _ | .register _ | .deregister _ _ _ | .reap _ | .pqSet _ _ | .pqDelete _ => true
  | _ => false

theorem ks_liftS {s : State} {r : Except Err State} (h : P s) (hr : ∀ s', r = .ok s' → P s') :
    P (liftS s r).1 := by
  cases r with
  | ok s' => exact hr s' rfl
  | error e => exact h

/-- every command outside the KV verbs and transactions preserves a KV-only, invalidation-closed predicate -/
theorem ks_apply (hP : KsClosed idx P) {s : State} (c : Cmd) (hc : c.endsSessionsOnly = true) (h : P s) :
    P (apply s idx c).1 := by
  cases c <;> simp [Cmd.endsSessionsOnly] at hc
  · exact ks_liftS h (fun s' hr => ks_deleteSession hP hr h)
  · exact ks_liftS h (fun s' hr => ks_ensureRegistration hP hr h)
  · simp only [apply]
    split
    · exact ks_liftS h (fun s' hr => ks_deleteService hP hr h)
    · split
      · exact ks_liftS h (fun s' hr => ks_deleteCheck hP hr h)
      · exact ks_liftS h (fun s' hr => ks_deleteNode hP hr h)
  · exact hP.view s _ rfl rfl h
  · exact ks_liftS h (fun s' hr => ks_pqSet hP hr h)
  · exact ks_pqDelete hP h


/-! ### the exact effect of ending sessions on the KV table -/

/-- behaviour of the session registered under id `h` -/
def behOf (s0 : State) (h : String) : Behavior :=
  match sessFind s0 h with
  | some x => x.behavior
  | none => .release

/-- what becomes of a row of `s0` once the sessions whose folded id satisfies `dead` have ended -/
def endRow (s0 : State) (idx : Nat) (dead : String → Bool) (e : KV) : Option KV :=
  if e.session != "" && dead (lc e.session) then
    match behOf s0 e.session with
    | .delete => none
    | .release => some { e with session := "", modify := idx }
  else some e

/-- the per-row effect of `invalidateKeys` -/
def invRow (sess : Sess) (idx : Nat) (e : KV) : Option KV :=
  if heldBy sess.id e then
    match sess.behavior with
    | .delete => none
    | .release => some { e with session := "", modify := idx }
  else some e

theorem filterMap_self {α : Type} (f : α → Option α) (l : List α) (h : ∀ x ∈ l, f x = some x) : l.filterMap f = l := by
  induction l with
  | nil => rfl
  | cons a as ih =>
    rw [List.filterMap_cons, h a (by simp)]
    simp only
    rw [ih (fun x hx => h x (by simp [hx]))]

theorem filterMap_congr' {α β : Type} {f g : α → Option β} (l : List α) (h : ∀ x, f x = g x) :
    l.filterMap f = l.filterMap g := by
  have : f = g := funext h
  rw [this]

theorem invalidateKeys_kvs (s : State) (idx : Nat) (sess : Sess) :
    (invalidateKeys s idx sess).kvs = s.kvs.filterMap (invRow sess idx) := by
  unfold invalidateKeys
  simp only
  split
  · next hemp =>
    simp [List.isEmpty_iff] at hemp
    symm
    apply filterMap_self
    intro x hx
    simp [invRow, hemp x hx]
  · cases hb : sess.behavior with
    | release =>
      simp only
      induction s.kvs with
      | nil => rfl
      | cons a as ih =>
        simp only [List.map_cons, List.filterMap_cons, invRow, hb]
        by_cases ha : heldBy sess.id a = true <;> simp [ha, ih]
    | delete =>
      simp only
      induction s.kvs with
      | nil => rfl
      | cons a as ih =>
        simp only [List.filter_cons, List.filterMap_cons, invRow, hb]
        by_cases ha : heldBy sess.id a = true <;> simp [ha, ih]

/-- the KV and sessions tables of `s'` are those of `s0` after the sessions in some set have ended -/
def EndInv (idx : Nat) (s0 s' : State) : Prop :=
  ∃ dead : String → Bool,
    s'.sessions = s0.sessions.filter (fun x => !dead (Sess.pk x)) ∧
    s'.kvs = s0.kvs.filterMap (endRow s0 idx dead)

theorem endInv_refl (idx : Nat) (s : State) : EndInv idx s s := by
  refine ⟨fun _ => false, (List.filter_eq_self.mpr (by simp)).symm, ?_⟩
  symm
  apply filterMap_self
  intro x _
  simp [endRow]

theorem endInv_closed (idx : Nat) (s0 : State) : KsClosed idx (EndInv idx s0) where
  view := by
    intro s s' hk hs ⟨dead, h1, h2⟩
    exact ⟨dead, by rw [hs, h1], by rw [hk, h2]⟩
  remove := by
    intro s id sess hf ⟨dead, h1, h2⟩
    have hid : lc sess.id = lc id := (tfind_some hf).2
    -- the session was found in the filtered table, hence in `s0` and not dead yet
    have hf0 : tfind Sess.pk (lc id) s0.sessions = some sess ∧ dead (lc id) = false := by
      unfold sessFind at hf
      rw [h1] at hf
      have hf' : (if (!dead (lc id)) = true then tfind Sess.pk (lc id) s0.sessions else none) = some sess := by
        rw [← hf]; exact (tfind_filter_key Sess.pk (fun k => !dead k) (lc id) s0.sessions).symm
      by_cases hd : dead (lc id) = true
      · simp [hd] at hf'
      · simp [hd] at hf'; exact ⟨hf', by simpa using hd⟩
    refine ⟨fun k => dead k || k == lc id, ?_, ?_⟩
    · rw [(invalidateKeys_rest _ idx sess).1]
      show terase Sess.pk (lc id) s.sessions = _
      rw [h1]
      unfold terase
      rw [List.filter_filter]
      congr 1
      funext x
      by_cases hd : dead (Sess.pk x) = true <;> by_cases hk : Sess.pk x = lc id <;> simp [hd, hk, bne]
    · rw [invalidateKeys_kvs]
      show List.filterMap (invRow sess idx) s.kvs = _
      rw [h2, List.filterMap_filterMap]
      apply filterMap_congr'
      intro e
      by_cases hs : e.session = ""
      · simp [endRow, invRow, heldBy, hs]
      · by_cases hd : dead (lc e.session) = true
        · -- already ended: released rows are not touched again
          simp only [endRow, hs, hd, bne_iff_ne, ne_eq, not_false_eq_true, Bool.true_or, Bool.and_true, decide_true, if_true]
          cases behOf s0 e.session with
          | delete => simp
          | release => simp [invRow, heldBy]
        · have hd' : dead (lc e.session) = false := by simpa using hd
          by_cases hk : lc e.session = lc id
          · -- ends now: the behaviour found in the current table is the one registered in `s0`
            have hb : behOf s0 e.session = sess.behavior := by
              unfold behOf sessFind
              rw [hk, hf0.1]
            have hheld : heldBy sess.id e = true := by simp [heldBy, hs, hk, hid]
            have hdi := hf0.2
            simp only [endRow, hk, hdi, hb, Bool.and_false, Bool.false_eq_true, if_false, Option.bind_some,
              Bool.false_or, beq_self_eq_true, Bool.and_true]
            simp [invRow, hheld, hs]
          · have hheld : heldBy sess.id e = false := by simp [heldBy, hid, hk]
            have hk' : (lc e.session == lc id) = false := by simpa using hk
            simp [endRow, hs, hd', hk', invRow, hheld]

/-- commands that can only end sessions leave the KV and sessions tables as `EndInv` says -/
theorem endInv_apply (s : State) (idx : Nat) (c : Cmd) (hc : c.endsSessionsOnly = true) :
    EndInv idx s (apply s idx c).1 :=
  ks_apply (endInv_closed idx s) c hc (endInv_refl idx s)

theorem absKV_filterMap (f : KV → Option KV) (g : Key × Ent → Option (Key × Ent)) (l : List KV)
    (h : ∀ e ∈ l, (f e).map (fun x => (x.key, toEnt x)) = g (e.key, toEnt e)) :
    absKV (l.filterMap f) = (absKV l).filterMap g := by
  induction l with
  | nil => rfl
  | cons a as ih =>
    have ha := h a (by simp)
    have ih' := ih (fun e he => h e (by simp [he]))
    simp only [absKV, List.map_cons, List.filterMap_cons] at ih' ⊢
    rw [← ha]
    cases hf : f a with
    | none => simpa using ih'
    | some b => simp only [Option.map_some]; simp [ih']

/-- The exact effect of a command that can only end sessions (destroy, register, deregister of a node /
    service / check, reap, prepared queries) on the KV map: the keys of the sessions that are gone
    afterwards are released or deleted according to the session's behaviour, all others are untouched. -/
theorem ends_only_refines (s : State) (hinv : LockInv s) (idx : Nat) (c : Cmd) (hc : c.endsSessionsOnly = true) :
    abs (apply s idx c).1 =
      specEnd (abs s) idx (fun h => !sessionLive (apply s idx c).1 h) (behOf s) := by
  obtain ⟨dead, h1, h2⟩ := endInv_apply s idx c hc
  unfold abs specEnd
  rw [h2]
  apply absKV_filterMap
  intro e he
  by_cases hs : e.session = ""
  · simp [endRow, toEnt, hs]
  · -- the holder is live in `s`; it is gone afterwards exactly when it is in `dead`
    have hlive : sessionLive s e.session = true := sessionLive_of_live (hinv.1 e he hs)
    have hgone : sessionLive (apply s idx c).1 e.session = !dead (lc e.session) := by
      unfold sessionLive sessFind at hlive ⊢
      rw [h1]
      have := tfind_filter_key Sess.pk (fun k => !dead k) (lc e.session) s.sessions
      rw [show (List.filter (fun x => !dead x.pk) s.sessions) =
            List.filter (fun x => (fun k => !dead k) (Sess.pk x)) s.sessions from rfl, this]
      by_cases hd : dead (lc e.session) = true
      · simp [hd]
      · simp [hd, hlive]
    simp only [endRow, toEnt, hgone, Bool.not_not]
    have hs' : (e.session != "") = true := by simpa using hs
    simp only [hs', Bool.true_and]
    by_cases hd : dead (lc e.session) = true
    · simp only [hd, if_true]
      cases behOf s e.session <;> rfl
    · simp [hd]

/-! ### session create never touches the KV table -/

theorem checkPrep_status {s s1 : State} {idx : Nat} {p : Bool} {hc hc1 : Chk} {m : Bool}
    (hne : hc.status ≠ "") (hr : checkPrep s idx p hc = .ok (s1, hc1, m)) : hc1.status = hc.status := by
  have hne' : (hc.status == "") = false := by simpa using hne
  simp only [checkPrep] at hr
  repeat' (split at hr)
  all_goals (try simp at hr)
  all_goals (obtain ⟨-, rfl, -⟩ := hr)
  all_goals (simp_all)

theorem ensureCheckF_passing {n : Nat} {s s' : State} {idx : Nat} {p : Bool} {hc : Chk}
    (hs : hc.status = passing) (hr : ensureCheckF n s idx p hc = .ok s') : lockView s' = lockView s := by
  rw [ensureCheckF] at hr
  split at hr
  · simp at hr
  · next s1 hc1 md hprep =>
    have hst : hc1.status = passing := by
      rw [checkPrep_status (by rw [hs]; simp [passing]) hprep, hs]
    have hnil : sessionsToInvalidate s1 hc1 = [] := by
      simp [sessionsToInvalidate, hst, passing, critical]
    rw [hnil] at hr
    simp at hr
    rw [← hr, lockView_checkFinish, checkPrep_view hprep]

theorem sessionCreate_view {s s' : State} {idx : Nat} {r : SessReq} (hr : sessionCreate s idx r = .ok s') :
    s'.kvs = s.kvs ∧ ∀ h, sessionLive s h = true → sessionLive s' h = true := by
  simp only [sessionCreate] at hr
  repeat' (split at hr)
  all_goals (try simp at hr)
  all_goals (
    unfold updateSessionCheck at hr
    have hv := foldE_rel (fun a b => lockView b = lockView a) (fun _ => rfl) (fun a b c h1 h2 => h2.trans h1) _
      (fun st c st' hc => ensureCheckF_passing (by simp) hc) _ _ _ hr
    refine ⟨(kvs_of_view hv).trans rfl, ?_⟩
    intro h hl
    apply sessionLive_of_live
    rw [sessions_of_view hv]
    exact live_tupsert (live_of_sessionLive hl))

end CV.Store
