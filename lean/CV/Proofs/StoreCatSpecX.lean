/-
What the two service writes of the C07 wrapper do to the derived tables and the joined rows, stated as
specifications of the resulting state (used by the invariants of kind-service-names and virtual IPs).
-/
import CV.Proofs.StoreCatWalk
import CV.Proofs.StoreCatRows
namespace CV.Store
open CV

@[simp] theorem setCat_ghost (s : XState) (p : String) (c : Cat) : (s.setCat p c).ghost = s.ghost := by
  unfold XState.setCat; split <;> rfl

/-! ### keys -/

theorem NF_raw (k : Kind) : NF k.raw := by
  cases k <;> (unfold NF lc; rw [String.toList_map]; decide)

theorem ksnKey_congr {k : Kind} {n n' : String} (h : lc n = lc n') : ksnKey k n = ksnKey k n' := pk2_congr rfl h

theorem ksnKey_inj {k k' : Kind} {n n' : String} (h : ksnKey k n = ksnKey k' n') : k = k' ∧ lc n = lc n' := by
  obtain ⟨h1, h2⟩ := pk2_inj (NF_raw k) (NF_raw k') h
  rw [lc_raw, lc_raw] at h1
  exact ⟨raw_inj h1, h2⟩

theorem ksnRow_pk {x : KsnRow} {k : Kind} {n : String} (h : x.pk = ksnKey k n) : x.kind = k ∧ lc x.name = lc n := ksnKey_inj h

theorem vipKey_lc (q n : String) : vipKey (lc q) n = vipKey q n := by
  unfold vipKey
  by_cases h : q = ""
  · subst h; rw [lc_eq_empty.mpr rfl]
  · have h' : lc q ≠ "" := fun hh => h (lc_eq_empty.mp hh)
    rw [if_neg h, if_neg h']
    exact pk2_congr (by rw [lc_append, lc_append, lc_idem]) rfl

theorem vipKey_samePeer {p q : String} (h : samePeer p q) (n : String) : vipKey q n = vipKey p n := by
  rcases h with ⟨rfl, rfl⟩ | ⟨_, _, h⟩
  · rfl
  · rw [← vipKey_lc q, ← vipKey_lc p, h]

theorem vipKey_congr {p n n' : String} (h : lc n = lc n') : vipKey p n = vipKey p n' := pk2_congr rfl h

/-! ### `ksnUpsert` -/

theorem mem_ksnUpsert_of_mem {t : List KsnRow} {idx : Nat} {k : Kind} {n : String} {x : KsnRow} (h : x ∈ t) :
    x ∈ ksnUpsert t idx k n := by
  unfold ksnUpsert
  split
  · exact h
  · next hnone =>
    rcases mem_tupsert_of_mem (lt := strLt) (r := (⟨k, n, idx, idx⟩ : KsnRow)) h with h1 | h1
    · exact h1
    · exact absurd h1 (tfind_none hnone x h)

theorem ksnUpsert_has (t : List KsnRow) (idx : Nat) (k : Kind) (n : String) :
    ∃ x ∈ ksnUpsert t idx k n, x.kind = k ∧ lc x.name = lc n := by
  unfold ksnUpsert
  split
  · next y hy =>
    obtain ⟨m, hk⟩ := tfind_some hy
    exact ⟨y, m, ksnRow_pk hk⟩
  · exact ⟨⟨k, n, idx, idx⟩, self_mem_tupsert _ _, rfl, rfl⟩

theorem mem_ksnUpsert {t : List KsnRow} {idx : Nat} {k : Kind} {n : String} {x : KsnRow} (h : x ∈ ksnUpsert t idx k n) :
    x ∈ t ∨ (x.kind = k ∧ x.name = n) := by
  unfold ksnUpsert at h
  split at h
  · exact Or.inl h
  · rcases mem_tupsert h with rfl | h1
    · exact Or.inr ⟨rfl, rfl⟩
    · exact Or.inl h1

/-! ### `assignVip` / `freeVip` and the other tables -/

theorem assignVip_rest {s s' : XState} {idx ip : Nat} {p n : String} (h : assignVip s idx p n = .ok (s', ip)) :
    s'.kindNames = s.kindNames ∧ s'.ghost = s.ghost ∧ s'.cfg = s.cfg ∧ s'.sysMeta = s.sysMeta ∧ ∀ a ∈ s.vips, a ∈ s'.vips := by
  unfold assignVip at h
  split at h
  · simp at h; obtain ⟨rfl, -⟩ := h; exact ⟨rfl, rfl, rfl, rfl, fun a ha => ha⟩
  · next hnone =>
    have mono : ∀ (r : VipRow), r.pk = vipKey p n → ∀ a ∈ s.vips, a ∈ tupsert VipRow.pk strLt r s.vips := by
      intro r hr a ha
      rcases mem_tupsert_of_mem (lt := strLt) (r := r) ha with h1 | h1
      · exact h1
      · exact absurd (h1.trans hr) (tfind_none hnone a ha)
    split at h
    · simp at h; obtain ⟨rfl, -⟩ := h; exact ⟨rfl, rfl, rfl, rfl, mono _ rfl⟩
    · extract_lets cur new at h
      split at h
      · simp at h
      · simp at h; obtain ⟨rfl, -⟩ := h; exact ⟨rfl, rfl, rfl, rfl, mono _ rfl⟩

/-! ### `ensureServiceX` -/

/-- kind-service-names after `ensureServiceX` -/
def ensKsn (s : XState) (p : String) (idx : Nat) (q : SvcReq) : List KsnRow :=
  if p = "" then
    match q.connectName with
    | some sn => if sn ≠ "" then ksnUpsert (ksnUpsert s.kindNames idx q.kind q.name) idx .connectEnabled sn
                 else ksnUpsert s.kindNames idx q.kind q.name
    | none => ksnUpsert s.kindNames idx q.kind q.name
  else s.kindNames

/-- the ghost record after `ensureServiceX` -/
def ensGhost (s : XState) (p node : String) (q : SvcReq) : Ghost :=
  if p = "" then s.ghost.noteStale (svcStaleKeys (s.cat p) node q) else s.ghost

/-- after `ensureServiceX` the row at the request's key carries the request's attributes (and, when it advertises a
    virtual IP, the address just looked up or assigned for its Connect name); the other rows, the other catalogs and
    the config entries are as before; kind-service-names, the ghost record are as computed; no assignment is lost -/
structure EnsSvcSpec (s s' : XState) (p node : String) (idx : Nat) (q : SvcReq) : Prop where
  cfg : s'.cfg = s.cfg
  ksn : s'.kindNames = ensKsn s p idx q
  ghost : s'.ghost = ensGhost s p node q
  vips : ∀ a ∈ s.vips, a ∈ s'.vips
  other : ∀ q', ¬ samePeer p q' → s'.cat q' = s.cat q'
  row : ∃ v e, v.name = q.name ∧ v.pk = pk2 node q.id ∧ e.kind = q.kind ∧ connectName (v, e) = q.connectName ∧
    (∀ ip, e.vip = some ip → ∃ sn, q.connectName = some sn ∧ ∃ a ∈ s'.vips, a.pk = vipKey p sn ∧ a.ip = ip) ∧
    (v, e) ∈ (s'.cat p).rows ∧
    (∀ r ∈ (s'.cat p).rows, r = (v, e) ∨ (r ∈ (s.cat p).rows ∧ r.1.pk ≠ pk2 node q.id)) ∧
    (∀ r ∈ (s.cat p).rows, r.1.pk ≠ pk2 node q.id → r ∈ (s'.cat p).rows) ∧
    (∀ r ∈ (s.cat p).rows, r.1.pk = pk2 node q.id →
      svcFind (s.cat p).st node q.id = some r.1 ∧ extFind (s.cat p) node q.id = some r.2)
  /-- the row at the request's key carries the request's proxy attributes -/
  attrs : ∀ r ∈ (s'.cat p).rows, r.1.pk = pk2 node q.id → r.2.dest = q.dest ∧ r.2.ups = q.ups ∧ r.2.kind = q.kind

theorem connectName_mk (v : Svc) (e : SvcX) (q : SvcReq) (h1 : v.name = q.name) (h2 : e.kind = q.kind)
    (h3 : e.native = q.native) (h4 : e.dest = q.dest) : connectName (v, e) = q.connectName := by
  unfold connectName SvcReq.connectName
  simp only [h1, h2, h3, h4]

theorem ensureServiceX_spec {s s' : XState} {p node : String} {idx : Nat} {q : SvcReq}
    (h : ensureServiceX s p idx node q = .ok s') (hsrt : SortedBy Svc.pk (s.cat p).st.svcs) :
    EnsSvcSpec s s' p node idx q := by
  unfold ensureServiceX at h
  extract_lets c s1 sn s2 r2 v at h
  have hs1 : XFrame s s1 := by unfold s1; split <;> exact ⟨rfl, rfl, rfl⟩
  have hs2 : XFrame s1 s2 := by unfold s2; split <;> exact ⟨rfl, rfl, rfl⟩
  have g1 : s1.ghost = ensGhost s p node q := by unfold s1 ensGhost; split <;> rfl
  have c1 : s1.cfg = s.cfg := by unfold s1; split <;> rfl
  have v1 : s1.vips = s.vips := by unfold s1; split <;> rfl
  have k1 : s1.kindNames = if p = "" then ksnUpsert s.kindNames idx q.kind q.name else s.kindNames := by
    unfold s1; split <;> rfl
  have hr2 : ∀ s3 vip, r2 = Except.ok (s3, vip) → XFrame s s3 ∧ s3.cfg = s.cfg ∧ s3.kindNames = ensKsn s p idx q ∧
      s3.ghost = ensGhost s p node q ∧ (∀ a ∈ s.vips, a ∈ s3.vips) ∧
      (∀ ip, vip = some ip → ∃ sn, q.connectName = some sn ∧ ∃ a ∈ s3.vips, a.pk = vipKey p sn ∧ a.ip = ip) := by
    intro s3 vip hr
    unfold r2 at hr
    split at hr
    · next hconn =>
      have hcn : q.connectName = some sn := by
        unfold SvcReq.connectName sn
        split
        · rfl
        · next hk => rw [if_pos (hconn.resolve_left hk)]
      have k2 : s2.kindNames = ensKsn s p idx q := by
        unfold s2 ensKsn
        rw [hcn]
        by_cases hp : p = ""
        · by_cases hsn : sn = ""
          · rw [if_neg (fun hh => hh.2 hsn), k1, if_pos hp, if_pos hp]; simp [hsn]
          · rw [if_pos ⟨hp, hsn⟩]; simp only [k1, if_pos hp]; simp [hsn]
        · rw [if_neg (fun hh => hp hh.1), k1, if_neg hp, if_neg hp]
      have g2 : s2.ghost = s1.ghost := by unfold s2; split <;> rfl
      have c2 : s2.cfg = s1.cfg := by unfold s2; split <;> rfl
      have v2 : s2.vips = s1.vips := by unfold s2; split <;> rfl
      split at hr
      · split at hr
        · next s3' ip ha =>
          simp at hr; obtain ⟨rfl, rfl⟩ := hr
          obtain ⟨a1, a2, a3, _, a5⟩ := assignVip_rest ha
          refine ⟨hs1.trans (hs2.trans (xframe_assignVip ha)), by rw [a3, c2, c1], by rw [a1, k2], by rw [a2, g2, g1],
            fun a ha' => a5 a (by rw [v2, v1]; exact ha'), ?_⟩
          intro ip' hip
          simp at hip; subst hip
          exact ⟨sn, hcn, assignVip_spec ha⟩
        · simp at hr
      · simp at hr; obtain ⟨rfl, rfl⟩ := hr
        exact ⟨hs1.trans hs2, by rw [c2, c1], k2, by rw [g2, g1], fun a ha' => by rw [v2, v1]; exact ha', fun ip hip => by simp at hip⟩
    · next hconn =>
      simp at hr; obtain ⟨rfl, rfl⟩ := hr
      have hcn : q.connectName = none := by
        unfold SvcReq.connectName
        rw [if_neg (fun hh => hconn (Or.inl hh)), if_neg (fun hh => hconn (Or.inr hh))]
      refine ⟨hs1, c1, ?_, g1, fun a ha' => by rw [v1]; exact ha', fun ip hip => by simp at hip⟩
      rw [k1]; unfold ensKsn; rw [hcn]
  clear_value r2
  split at h
  · simp at h
  · next _ s3 vip =>
    obtain ⟨hf, hc, hk, hg, hv, hvip⟩ := hr2 s3 vip rfl
    have hc3 : s3.cat p = s.cat p := hf.cat p
    split at h
    · simp at h
    · next n hn =>
      -- the state after writing row (w, e)
      have put : ∀ (w : Svc) (e : SvcX), w.name = q.name → w.pk = pk2 node q.id → e.pk = w.pk → e.kind = q.kind →
          e.native = q.native → e.dest = q.dest → e.vip = vip → e.ups = q.ups → EnsSvcSpec s (s3.putSvc p w e) p node idx q := by
        intro w e hn1 hn2 hn3 hn4 hn5 hn6 hn7 hn8
        rw [putSvc_eq, hc3]
        have hcat : (s3.setCat p { st := svcInsert (s.cat p).st w, ext := tupsert SvcX.pk strLt e (s.cat p).ext }).cat p =
            { st := svcInsert (s.cat p).st w, ext := tupsert SvcX.pk strLt e (s.cat p).ext } := cat_setCat_self _ _ _
        have hrows := rows_put (c := s.cat p) w e hn3 hsrt
        refine ⟨?_, ?_, ?_, ?_, ?_, ?_, ?_⟩
        rotate_left 6
        · intro r hr hk'
          rw [hcat] at hr
          rcases (hrows r).mp hr with h1 | ⟨_, h2⟩
          · rw [h1]; exact ⟨hn6, hn8, hn4⟩
          · exact absurd (hk'.trans hn2.symm) h2
        · rw [setCat_cfg]; exact hc
        · rw [setCat_kindNames]; exact hk
        · rw [setCat_ghost]; exact hg
        · rw [setCat_vips]; exact hv
        · intro q' hq'; rw [cat_setCat_other _ _ hq']; exact hf.cat q'
        · refine ⟨w, e, hn1, hn2, hn4, connectName_mk w e q hn1 hn4 hn5 hn6, ?_, ?_, ?_, ?_, ?_⟩
          · intro ip hip; rw [setCat_vips]; exact hvip ip (hn7 ▸ hip)
          · rw [hcat]; exact (hrows (w, e)).mpr (Or.inl rfl)
          · intro r hr; rw [hcat] at hr
            rcases (hrows r).mp hr with h1 | ⟨h1, h2⟩
            · exact Or.inl h1
            · exact Or.inr ⟨h1, by rw [← hn2]; exact h2⟩
          · intro r hr hne; rw [hcat]; exact (hrows r).mpr (Or.inr ⟨hr, by rw [hn2]; exact hne⟩)
          · intro r hr hk'
            obtain ⟨m, hfnd⟩ := mem_rows.mp hr
            have hsf : svcFind (s.cat p).st node q.id = some r.1 := by
              unfold svcFind
              cases hq : tfind Svc.pk (pk2 node q.id) (s.cat p).st.svcs with
              | none => exact absurd hk' (tfind_none hq r.1 m)
              | some y =>
                obtain ⟨my, ky⟩ := tfind_some hq
                rw [sortedBy_unique hsrt m my (hk'.trans ky.symm)]
            exact ⟨hsf, by unfold extFind; rw [← hk']; exact hfnd⟩
      dsimp only at h
      split at h
      · next x ex hx hex =>
        split at h
        · next hsame =>
          -- the row is not rewritten
          simp at h; subst h
          simp only [Bool.and_eq_true] at hsame
          obtain ⟨hsv, hse⟩ := hsame
          unfold svcSame at hsv
          unfold extSame at hse
          simp only [Bool.and_eq_true, beq_iff_eq] at hsv hse
          obtain ⟨⟨⟨-, -⟩, hnm⟩, -⟩ := hsv
          obtain ⟨⟨⟨⟨e1, e2⟩, e3⟩, e4⟩, e5⟩ := hse
          try simp only at hnm e1 e2 e3 e4 e5
          obtain ⟨hmem, huniq⟩ := rows_find hsrt hx hex
          have kx : x.pk = pk2 node q.id := (tfind_some hx).2
          refine ⟨hc, hk, hg, hv, fun q' _ => hf.cat q', ⟨x, ex, hnm.symm, kx, e1.symm,
            connectName_mk x ex q hnm.symm e1.symm e2.symm e3.symm, ?_, by rw [hc3]; exact hmem, ?_, ?_, ?_⟩, ?_⟩
          · intro ip hip; exact hvip ip (by rw [e5]; exact hip)
          · intro r hr; rw [hc3] at hr
            by_cases hk' : r.1.pk = pk2 node q.id
            · exact Or.inl (huniq r hr hk')
            · exact Or.inr ⟨hr, hk'⟩
          · intro r hr _; rw [hc3]; exact hr
          · intro r hr hk'
            rw [huniq r hr hk']; exact ⟨hx, hex⟩
          · intro r hr hk'
            rw [hc3] at hr
            rw [huniq r hr hk']
            exact ⟨e3.symm, e4.symm, e1.symm⟩
        · simp at h; subst h
          exact put _ _ rfl rfl rfl rfl rfl rfl rfl rfl
      · simp at h
      · simp at h; subst h
        exact put _ _ rfl rfl rfl rfl rfl rfl rfl rfl

/-! ### `freeVip`, `afterServiceDelete`, `deleteServiceX` -/

theorem freeVip_spec (s : XState) (p n : String) :
    XFrame s (freeVip s p n) ∧ (freeVip s p n).cfg = s.cfg ∧ (freeVip s p n).kindNames = s.kindNames ∧
    (freeVip s p n).ghost.staleKsn = s.ghost.staleKsn ∧
    (((freeVip s p n).vips = s.vips ∧ (freeVip s p n).ghost.freedAdvertised = s.ghost.freedAdvertised) ∨
     ((freeVip s p n).vips = terase VipRow.pk (vipKey p n) s.vips ∧
      (freeVip s p n).ghost.freedAdvertised =
        if advertisedKey s (vipKey p n) = true then vipKey p n :: s.ghost.freedAdvertised else s.ghost.freedAdvertised)) := by
  refine ⟨xframe_freeVip s p n, cfg_freeVip s p n, ?_, ?_, ?_⟩
  all_goals unfold freeVip
  all_goals repeat' split
  all_goals first
    | rfl
    | exact Or.inl ⟨rfl, rfl⟩
    | (right; refine ⟨rfl, ?_⟩; simp only [Ghost.noteFree]; split <;> simp_all)

theorem advertisedKey_of_row {s : XState} {q : String} {r : Svc × SvcX} {ip : Nat} {sn : String}
    (hr : r ∈ (s.cat q).rows) (hv : r.2.vip = some ip) (hc : connectName r = some sn) :
    advertisedKey s (vipKey q sn) = true := by
  unfold advertisedKey
  rw [Bool.or_eq_true, List.any_eq_true, List.any_eq_true]
  unfold XState.cat at hr
  split at hr
  · next hq =>
    subst hq
    left
    exact ⟨r, hr, by unfold advertises; rw [hv, hc]; simp⟩
  · right
    split at hr
    · next x hx =>
      obtain ⟨mx, kx⟩ := tfind_some hx
      refine ⟨x, mx, ?_⟩
      rw [List.any_eq_true]
      refine ⟨r, hr, ?_⟩
      unfold advertises
      rw [hv, hc]
      have kx' : x.1 = lc q := kx
      simp [kx', vipKey_lc]
    · simp [Cat.rows] at hr

/-- the Connect name of a deleted row, as `deleteServiceTxn` computes it -/
def connSn (v : Svc) (e : SvcX) : String := if e.kind = .connectProxy then e.dest else v.name

/-- kind-service-names after the first cleanup of the tail of `deleteServiceTxn` -/
def afterKsn1 (s : XState) (p : String) (v : Svc) (e : SvcX) : List KsnRow :=
  if hasInstanceNamed (s.cat p) v.name then s.kindNames
  else if p = "" then ksnCleanup s.kindNames e.kind v.name else s.kindNames

/-- kind-service-names after the tail of `deleteServiceTxn` -/
def afterKsn (s : XState) (p : String) (v : Svc) (e : SvcX) : List KsnRow :=
  if p = "" ∧ (e.kind = .connectProxy ∨ e.native = true) then
    if hasConnectInstance (s.cat p) (connSn v e) then afterKsn1 s p v e
    else ksnCleanup (afterKsn1 s p v e) .connectEnabled (connSn v e)
  else afterKsn1 s p v e

structure AfterDelSpec (s s' : XState) (p : String) (v : Svc) (e : SvcX) : Prop where
  frame : XFrame s s'
  cfg : s'.cfg = s.cfg
  ksn : s'.kindNames = afterKsn s p v e
  stale : s'.ghost.staleKsn = s.ghost.staleKsn ++
    (if hasInstanceNamed (s.cat p) v.name then leftStaleKeys (s.cat p) p v e else [])
  vip : (s'.vips = s.vips ∧ s'.ghost.freedAdvertised = s.ghost.freedAdvertised) ∨
    (s'.vips = (freeVip s p v.name).vips ∧ s'.ghost.freedAdvertised = (freeVip s p v.name).ghost.freedAdvertised)

theorem afterServiceDelete_spec (s : XState) (p : String) (v : Svc) (e : SvcX) :
    AfterDelSpec s (afterServiceDelete s p v e) p v e := by
  obtain ⟨f0, f1, f2, f3, -⟩ := freeVip_spec s p v.name
  refine ⟨xframe_afterServiceDelete s p v e, ?_, ?_, ?_, ?_⟩
  all_goals unfold afterServiceDelete
  all_goals extract_lets s0 s1 sn
  · -- cfg
    have h1 : s1.cfg = s.cfg := by
      unfold s1; split
      · rfl
      · split
        · exact f1
        · exact f1
    split
    · split
      · exact h1
      · exact h1
    · exact h1
  · -- kind-service-names
    have hc1 : s1.cat p = s.cat p := by
      have : XFrame s s1 := by
        unfold s1; split
        · exact ⟨rfl, rfl, rfl⟩
        · split
          · exact ⟨f0.loc, f0.peers, f0.coords⟩
          · exact f0
      exact this.cat p
    have h1 : s1.kindNames = if hasInstanceNamed (s.cat p) v.name then s.kindNames
        else if p = "" then ksnCleanup s.kindNames e.kind v.name else s.kindNames := by
      unfold s1; split
      · rfl
      · split
        · simp only; rw [f2]
        · exact f2
    unfold afterKsn afterKsn1 connSn
    split
    · rw [hc1]
      split
      · exact h1
      · simp only; rw [h1]
    · exact h1
  · -- stale keys
    have h1 : s1.ghost.staleKsn = s.ghost.staleKsn ++
        (if hasInstanceNamed (s.cat p) v.name then leftStaleKeys (s.cat p) p v e else []) := by
      unfold s1; split
      · rfl
      · split
        · simp only [List.append_nil]; exact f3
        · simp only [List.append_nil]; exact f3
    split
    · split
      · exact h1
      · exact h1
    · exact h1
  · -- virtual IPs
    have h1 : (s1.vips = s.vips ∧ s1.ghost.freedAdvertised = s.ghost.freedAdvertised) ∨
        (s1.vips = s0.vips ∧ s1.ghost.freedAdvertised = s0.ghost.freedAdvertised) := by
      unfold s1; split
      · exact Or.inl ⟨rfl, rfl⟩
      · split
        · exact Or.inr ⟨rfl, rfl⟩
        · exact Or.inr ⟨rfl, rfl⟩
    split
    · split
      · exact h1
      · exact h1
    · exact h1

theorem deleteServiceX_spec {s s' : XState} {p node id : String} {idx : Nat} (h : deleteServiceX s p idx node id = .ok s') :
    s' = s ∨ ∃ v e st', svcFind (s.cat p).st node id = some v ∧ extFind (s.cat p) node id = some e ∧
      st'.svcs = terase Svc.pk (pk2 node id) (s.cat p).st.svcs ∧
      s' = afterServiceDelete (s.setCat p ⟨st', terase SvcX.pk (pk2 node id) (s.cat p).ext⟩) p v e := by
  unfold deleteServiceX at h
  extract_lets c at h
  split at h
  · simp at h; exact Or.inl h.symm
  · simp at h
  · next v e hv he =>
    split at h
    · simp at h
    · next st' hd =>
      simp at h
      exact Or.inr ⟨v, e, st', hv, he, (deleteService_spec hd).2.1, h.symm⟩

/-! ### config entries -/

/-- the stale destination key `configUpsert` records -/
def cfgOver (s : XState) (kind name : String) (dest : Bool) : List String :=
  match cfgFind s kind name with
  | some x => if kind = "service-defaults" ∧ x.dest = true ∧ dest = false then [ksnKey .destination name] else []
  | none => []

theorem configUpsert_spec {s s' : XState} {idx : Nat} {kind name tok : String} {dest : Bool}
    (h : configUpsert s idx kind name dest tok = .ok s') :
    XFrame s s' ∧ (∃ create, s'.cfg = tupsert CfgRow.pk strLt ⟨kind, name, dest, tok, create, idx⟩ s.cfg) ∧
    s'.kindNames = (if kind = "service-defaults" ∧ dest = true then ksnUpsert s.kindNames idx .destination name else s.kindNames) ∧
    (∀ a ∈ s.vips, a ∈ s'.vips) ∧ s'.ghost.freedAdvertised = s.ghost.freedAdvertised ∧
    s'.ghost.staleKsn = s.ghost.staleKsn ++ cfgOver s kind name dest := by
  refine ⟨xframe_configUpsert h, cfg_configUpsert h, ?_⟩
  unfold configUpsert at h
  extract_lets s1 r2 at h
  have k1 : s1.kindNames = (if kind = "service-defaults" ∧ dest = true then ksnUpsert s.kindNames idx .destination name else s.kindNames) := by
    unfold s1; split <;> rfl
  have v1 : s1.vips = s.vips := by unfold s1; split <;> rfl
  have g1 : s1.ghost = s.ghost := by unfold s1; split <;> rfl
  have h2 : ∀ s2, r2 = Except.ok s2 → s2.kindNames = s1.kindNames ∧ (∀ a ∈ s.vips, a ∈ s2.vips) ∧ s2.ghost = s.ghost := by
    intro s2 hr
    unfold r2 at hr
    split at hr
    · split at hr
      · next s2' ip ha =>
        simp at hr; subst hr
        obtain ⟨a1, a2, -, -, a5⟩ := assignVip_rest ha
        exact ⟨a1, fun a ha' => a5 a (by rw [v1]; exact ha'), by rw [a2, g1]⟩
      · simp at hr
    · simp at hr; subst hr; exact ⟨rfl, fun a ha' => by rw [v1]; exact ha', g1⟩
  clear_value r2
  split at h
  · simp at h
  · next _ s2 =>
    simp at h; subst h
    obtain ⟨b1, b2, b3⟩ := h2 s2 rfl
    refine ⟨by simp only; rw [b1, k1], b2, by simp only [Ghost.noteStale]; rw [b3], ?_⟩
    simp only [Ghost.noteStale]
    rw [b3]
    rfl

theorem configDelete_spec (s : XState) (kind name : String) :
    configDelete s kind name = s ∨ ∃ x, cfgFind s kind name = some x ∧
      (configDelete s kind name).cfg = terase CfgRow.pk (pk2 kind name) s.cfg ∧
      (configDelete s kind name).kindNames =
        (if x.kind = "service-defaults" ∧ x.dest = true then ksnCleanup s.kindNames .destination name else s.kindNames) ∧
      (configDelete s kind name).ghost.staleKsn = s.ghost.staleKsn ∧
      (((configDelete s kind name).vips = s.vips ∧ (configDelete s kind name).ghost.freedAdvertised = s.ghost.freedAdvertised) ∨
       ((configDelete s kind name).vips = terase VipRow.pk (vipKey "" name) s.vips ∧
        (configDelete s kind name).ghost.freedAdvertised =
          if advertisedKey s (vipKey "" name) = true then vipKey "" name :: s.ghost.freedAdvertised else s.ghost.freedAdvertised)) := by
  unfold configDelete
  split
  · exact Or.inl rfl
  · next x hx =>
    right
    refine ⟨x, hx, ?_⟩
    extract_lets s1 s2
    have e1 : s1.cfg = s.cfg := by unfold s1; split <;> rfl
    have k1 : s1.kindNames = (if x.kind = "service-defaults" ∧ x.dest = true then ksnCleanup s.kindNames .destination name else s.kindNames) := by
      unfold s1; split <;> rfl
    have g1 : s1.ghost = s.ghost := by unfold s1; split <;> rfl
    have v1 : s1.vips = s.vips := by unfold s1; split <;> rfl
    have l1 : s1.loc = s.loc ∧ s1.peers = s.peers := by unfold s1; split <;> exact ⟨rfl, rfl⟩
    have e2 : s2.cfg = terase CfgRow.pk (pk2 kind name) s.cfg := by unfold s2; simp only; rw [e1]
    have adv : advertisedKey s2 (vipKey "" name) = advertisedKey s (vipKey "" name) := by
      unfold advertisedKey
      show (s1.loc.rows.any _ || s1.peers.any _) = _
      rw [l1.1, l1.2]
    split
    · obtain ⟨-, f1, f2, f3, f4⟩ := freeVip_spec s2 "" name
      refine ⟨by rw [f1, e2], by rw [f2]; exact k1, by rw [f3]; show s1.ghost.staleKsn = _; rw [g1], ?_⟩
      rcases f4 with ⟨f5, f6⟩ | ⟨f5, f6⟩
      · exact Or.inl ⟨by rw [f5]; exact v1, by rw [f6]; show s1.ghost.freedAdvertised = _; rw [g1]⟩
      · right
        refine ⟨by rw [f5]; show terase _ _ s1.vips = _; rw [v1], ?_⟩
        rw [f6, adv]
        show (if _ then _ :: s1.ghost.freedAdvertised else s1.ghost.freedAdvertised) = _
        rw [g1]
    · exact ⟨e2, k1, by show s1.ghost.staleKsn = _; rw [g1], Or.inl ⟨v1, by show s1.ghost.freedAdvertised = _; rw [g1]⟩⟩

end CV.Store
