/- Helper lemmas for the service-layer part of C18 (model: CV.ResSvc). -/
import CV.ResSvc
namespace CV.Res.Svc
open CV CV.Res

/-- what `Backend.Read` found (either as a hit or inside a GroupVersion mismatch) -/
def SRead.stored? : SRead → Option SRes
  | .found r => some r
  | .gvMismatch r => some r
  | .notFound => none

theorem dbRead_hit (db : DB) (id : RID) (r : Res) (h : db.read id = .found r ∨ db.read id = .gvMismatch r) :
    lookup (idKey id) db.rows = some r ∧ (id.uid = [] ∨ r.id.uid = id.uid) := by
  unfold DB.read at h
  cases hl : lookup (idKey id) db.rows with
  | none => simp [hl] at h
  | some x =>
    simp only [hl] at h
    by_cases hu : id.uid ≠ [] ∧ x.id.uid ≠ id.uid
    · simp [hu] at h
    · rw [if_neg hu] at h
      have hx : x = r := by
        by_cases hg : id.typ.gv ≠ x.id.typ.gv
        · rw [if_pos hg] at h; simpa using h
        · rw [if_neg hg] at h; simpa using h
      subst hx
      refine ⟨rfl, ?_⟩
      by_cases hid : id.uid = []
      · exact Or.inl hid
      · right
        by_cases he : x.id.uid = id.uid
        · exact he
        · exact absurd ⟨hid, he⟩ hu

theorem beRead_stored_lookup (w : SW) (id : RID) (ex : SRes) (h : (w.beRead id).stored? = some ex) :
    lookup (idKey id) w.db.rows = some ex.r ∧ (id.uid = [] ∨ ex.r.id.uid = id.uid) ∧ ex = w.full ex.r := by
  unfold SW.beRead at h
  cases hr : w.db.read id with
  | notFound => simp [hr, SRead.stored?] at h
  | found r =>
    simp only [hr, SRead.stored?, Option.some.injEq] at h
    subst h
    have := dbRead_hit w.db id r (Or.inl hr)
    exact ⟨this.1, this.2, rfl⟩
  | gvMismatch r =>
    simp only [hr, SRead.stored?, Option.some.injEq] at h
    subst h
    have := dbRead_hit w.db id r (Or.inr hr)
    exact ⟨this.1, this.2, rfl⟩

theorem beRead_notFound_iff (w : SW) (id : RID) :
    w.beRead id = .notFound ↔ (w.beRead id).stored? = none := by
  cases h : w.beRead id <;> simp [SRead.stored?]

/-- stale uid: the backend read says not found -/
theorem beRead_stale (w : SW) (id : RID) (cur : Res) (hl : lookup (idKey id) w.db.rows = some cur)
    (hne : id.uid ≠ []) (hu : cur.id.uid ≠ id.uid) : w.beRead id = .notFound := by
  simp [SW.beRead, DB.read, hl, hne, hu]

@[simp] theorem preserveDeferred_other (a b : SExt) : (preserveDeferred a b).other = a.other := by
  simp only [preserveDeferred]; split <;> split <;> rfl
@[simp] theorem preserveDeferred_status (a b : SExt) : (preserveDeferred a b).status = a.status := by
  simp only [preserveDeferred]; split <;> split <;> rfl
@[simp] theorem preserveDeferred_gen (a b : SExt) : (preserveDeferred a b).gen = a.gen := by
  simp only [preserveDeferred]; split <;> split <;> rfl
@[simp] theorem preserveDeferred_tomb (a b : SExt) : (preserveDeferred a b).tomb = a.tomb := by
  simp only [preserveDeferred]; split <;> split <;> rfl

/-- `retryCAS` only ever retries `ErrCASFailure` -/
theorem retry_stops {α : Type} (attempt : SW → Sched → Att α) (n : Nat) (w : SW) (s : Sched)
    (h : (attempt w s).2.2 ≠ .error .aborted) : retry attempt n w s = attempt w s := by
  cases n with
  | zero => rfl
  | succ n =>
    simp only [retry]
    split
    · next w' s' heq => rw [heq] at h; exact absurd rfl h
    · rfl

/-- `defaultId` does not touch anything but the tenancy -/
@[simp] theorem defaultId_uid (id : RID) : (defaultId id).uid = id.uid := rfl
@[simp] theorem defaultId_typ (id : RID) : (defaultId id).typ = id.typ := rfl
@[simp] theorem defaultId_name (id : RID) : (defaultId id).name = id.name := rfl

/-- a backend write against a stored resource with another uid changes nothing but the version counter -/
theorem beWrite_wrongUid (w : SW) (sr : SRes) (cur : Res) (hl : lookup (idKey sr.r.id) w.db.rows = some cur)
    (hu : cur.id.uid ≠ sr.r.id.uid) :
    (w.beWrite sr).2.1 = .wrongUid ∧ (w.beWrite sr).1.db = w.db ∧ (w.beWrite sr).1.ext = w.ext := by
  simp [SW.beWrite, DB.writeCAS, hl, hu]


theorem updatePlan_laws (w : SW) (req : SRes) (h : Hints) (tmfd : Bool) (ex input : SRes)
    (hex : (w.beRead req.r.id).stored? = some ex) (hp : writePlan w req h tmfd = .ok input) :
    input.r.id = ex.r.id ∧ input.r.version = ex.r.version ∧ (req.r.version = "" ∨ req.r.version = ex.r.version) ∧
    input.r.owner = ex.r.owner ∧ input.x.status = ex.x.status ∧ input.x.gen = h.gen ∧
    (req.r.version ≠ "" → input.x.delTs = req.x.delTs ∧ input.x.fins = req.x.fins) ∧
    input.r.data = req.r.data ∧ input.x.other = req.x.other := by
  unfold writePlan at hp
  cases hr : w.beRead req.r.id with
  | notFound => simp [hr, SRead.stored?] at hex
  | found e =>
    simp only [hr, SRead.stored?, Option.some.injEq] at hex
    subst hex
    simp only [hr] at hp
    repeat' split at hp
    all_goals (try (simp at hp))
    all_goals (subst hp)
    all_goals simp_all
  | gvMismatch e =>
    simp only [hr, SRead.stored?, Option.some.injEq] at hex
    subst hex
    simp only [hr] at hp
    repeat' split at hp
    all_goals (try (simp at hp))
    all_goals (subst hp)
    all_goals simp_all

theorem createPlan_laws (w : SW) (req : SRes) (h : Hints) (tmfd : Bool) (input : SRes)
    (hnf : w.beRead req.r.id = .notFound) (hp : writePlan w req h tmfd = .ok input) :
    input.r.id = { req.r.id with uid := h.uid } ∧ input.r.version = req.r.version ∧ input.x.status = [] ∧
    input.x.gen = h.gen ∧ input.x.delTs = none ∧ tmfd = false ∧ input.r.data = req.r.data := by
  unfold writePlan at hp
  simp only [hnf] at hp
  repeat' split at hp
  all_goals (try (simp at hp))
  all_goals (subst hp)
  all_goals simp_all [marked]

theorem createPlan_err (w : SW) (req : SRes) (h : Hints) (tmfd : Bool) (e : SErr)
    (hnf : w.beRead req.r.id = .notFound) (hp : writePlan w req h tmfd = .error e) : e ≠ .aborted := by
  unfold writePlan at hp
  simp only [hnf] at hp
  repeat' split at hp
  all_goals (try (simp at hp))
  all_goals (subst hp)
  all_goals simp

theorem beWrite_stored_eq (w : SW) (sr : SRes) :
    (w.beWrite sr).2.2 = { sr with r := { sr.r with version := toString (w.ctr + 1) } } := by
  unfold SW.beWrite; simp only []; split <;> rfl

theorem idKey_uid (id : RID) (u : Bytes) : idKey { id with uid := u } = idKey id := rfl

theorem stale_write_untouched (w : SW) (req : SRes) (h : Hints) (tmfd : Bool) (cur : Res)
    (hl : lookup (idKey (defaultId req.r.id)) w.db.rows = some cur)
    (hne : req.r.id.uid ≠ []) (hu : cur.id.uid ≠ req.r.id.uid) (hfresh : cur.id.uid ≠ h.uid) :
    (w.svcWrite [] req h tmfd).1.db = w.db ∧ (w.svcWrite [] req h tmfd).1.ext = w.ext ∧
    ∃ e, (w.svcWrite [] req h tmfd).2.2 = .error e ∧ e ≠ .aborted := by
  unfold SW.svcWrite
  split
  · exact ⟨rfl, rfl, _, rfl, by simp⟩
  · generalize hq : ({ req with r := { req.r with id := defaultId req.r.id } } : SRes) = req'
    have hid : req'.r.id = defaultId req.r.id := by subst hq; rfl
    have hnf : w.beRead req'.r.id = .notFound := by
      rw [hid]; exact beRead_stale w _ cur hl (by simpa using hne) (by simpa using hu)
    have hatt : (writeAttempt w [] req' h tmfd).1.db = w.db ∧ (writeAttempt w [] req' h tmfd).1.ext = w.ext ∧
        ∃ e, (writeAttempt w [] req' h tmfd).2.2 = .error e ∧ e ≠ .aborted := by
      unfold writeAttempt
      cases hp : writePlan w req' h tmfd with
      | error e => exact ⟨rfl, rfl, e, rfl, createPlan_err w req' h tmfd e hnf hp⟩
      | ok input =>
        have hl' := createPlan_laws w req' h tmfd input hnf hp
        have hk : lookup (idKey input.r.id) w.db.rows = some cur := by
          rw [hl'.1, idKey_uid, hid]; exact hl
        have hw := beWrite_wrongUid w input cur hk (by rw [hl'.1]; exact hfresh)
        simp only [commitWrite, SW.interfere]
        rcases hb : w.beWrite input with ⟨w2, res, stored⟩
        rw [hb] at hw
        simp only at hw
        obtain ⟨h1, h2, h3⟩ := hw
        subst h1
        exact ⟨h2, h3, _, rfl, by simp [wresErr]⟩
    obtain ⟨a, b, e, he, hne'⟩ := hatt
    rw [retry_stops _ _ _ _ (by rw [he]; simpa using hne')]
    exact ⟨a, b, e, he, hne'⟩

theorem stale_delete_noop (w : SW) (id : RID) (vsn : String) (h : Hints) (tmfd : Bool) (cur : Res)
    (hl : lookup (idKey (defaultId id)) w.db.rows = some cur) (hne : id.uid ≠ []) (hu : cur.id.uid ≠ id.uid) :
    w.svcDelete [] id vsn h tmfd = (w, [], .ok ()) := by
  have hnf : w.beRead (defaultId id) = .notFound := beRead_stale w _ cur hl (by simpa using hne) (by simpa using hu)
  have ha : deleteAttempt w [] (defaultId id) vsn h tmfd = (w, [], .ok ()) := by
    simp [deleteAttempt, hnf]
  unfold SW.svcDelete
  rw [retry_stops _ _ _ _ (by rw [ha]; simp), ha]

theorem stale_status_rejected (w : SW) (id : RID) (key : String) (st : SStat) (vsn : String) (h : Hints) (cur : Res)
    (hl : lookup (idKey (defaultId id)) w.db.rows = some cur) (hne : id.uid ≠ []) (hu : cur.id.uid ≠ id.uid) :
    w.svcWriteStatus [] id key st vsn h = (w, [], .error .notFound) := by
  have hnf : w.beRead (defaultId id) = .notFound := beRead_stale w _ cur hl (by simpa using hne) (by simpa using hu)
  simp [SW.svcWriteStatus, hne, hnf]

theorem status_write_laws (w : SW) (id : RID) (key : String) (st : SStat) (vsn : String) (h : Hints)
    (w' : SW) (s' : Sched) (stored : SRes) (hr : statusAttempt w [] id key st vsn h = (w', s', .ok stored)) :
    ∃ r, w.beRead id = .found r ∧ (vsn = "" ∨ vsn = r.r.version) ∧ stored.r.id = r.r.id ∧ stored.r.owner = r.r.owner ∧
      stored.r.data = r.r.data ∧ stored.x.gen = r.x.gen ∧ stored.x.delTs = r.x.delTs ∧ stored.x.fins = r.x.fins ∧
      stored.x.other = r.x.other ∧ stored.x.tomb = r.x.tomb ∧
      stored.x.status = setStatus key { st with upd := h.upd } r.x.status := by
  unfold statusAttempt at hr
  cases hb : w.beRead id with
  | notFound => simp [hb] at hr
  | gvMismatch _ => simp [hb] at hr
  | found r =>
    simp only [hb] at hr
    split at hr
    · simp at hr
    · next hv =>
      refine ⟨r, rfl, ?_⟩
      simp only [SW.interfere] at hr
      have hst := beWrite_stored_eq w { r with x := { r.x with status := setStatus key { st with upd := h.upd } r.x.status } }
      rcases hbw : w.beWrite { r with x := { r.x with status := setStatus key { st with upd := h.upd } r.x.status } } with ⟨w2, res, st2⟩
      rw [hbw] at hr hst
      simp only at hst
      cases res <;> simp at hr
      obtain ⟨_, _, rfl⟩ := hr
      subst hst
      refine ⟨?_, rfl, rfl, rfl, rfl, rfl, rfl, rfl, rfl, rfl⟩
      by_cases hv0 : vsn = ""
      · exact Or.inl hv0
      · right
        by_cases hv1 : vsn = r.r.version
        · exact hv1
        · exact absurd ⟨hv0, hv1⟩ hv
end CV.Res.Svc
