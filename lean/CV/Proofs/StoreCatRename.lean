/-
Rename of a node by node ID (`ensureNodeTxn` finds the ID under another name, deletes that node with everything
on it and registers the new name): after the registration nothing references the old name.
-/
import CV.Proofs.StoreCatX
namespace CV.Store
open CV

/-- nothing in the catalog tables of `st` names node `name` -/
structure NoRef (name : String) (st : State) : Prop where
  svcs : ∀ v ∈ st.svcs, lc v.node ≠ lc name
  chks : ∀ c ∈ st.chks, lc c.node ≠ lc name
  sess : ∀ x ∈ st.sessions, lc x.node ≠ lc name

theorem NoRef.of_delNodeSpec {s s' : State} {name : String} (h : DelNodeSpec s name s') : NoRef name s' :=
  ⟨fun v hv => (h.svcs v hv).2,
   fun c hc => by obtain ⟨c0, _, hsame, hne⟩ := h.chks c hc; rw [hsame.1]; exact hne,
   fun x hx => (h.sess x hx).2⟩

theorem NoRef.nodeInsert {name : String} {st : State} (n : Node) (h : NoRef name st) : NoRef name (nodeInsert st n) := by
  have hv := catView_nodeInsert st n
  generalize CV.Store.nodeInsert st n = st' at hv
  simp only [catView, Prod.mk.injEq] at hv
  obtain ⟨_, e2, e3, e4⟩ := hv
  exact ⟨e2 ▸ h.svcs, e3 ▸ h.chks, e4 ▸ h.sess⟩

theorem NoRef.svcInsert {name : String} {st : State} (v : Svc) (hv : lc v.node ≠ lc name) (h : NoRef name st) :
    NoRef name (svcInsert st v) := by
  have hw := catView_svcInsert st v
  generalize CV.Store.svcInsert st v = st' at hw
  simp only [catView, Prod.mk.injEq] at hw
  obtain ⟨_, e2, e3, e4⟩ := hw
  refine ⟨?_, e3 ▸ h.chks, e4 ▸ h.sess⟩
  intro w hw'
  rw [e2] at hw'
  rcases mem_tupsert hw' with rfl | hw'
  · exact hv
  · exact h.svcs w hw'

theorem NoRef.of_ensSpec {name : String} {s s' : State} {hc : Chk} (hsp : EnsSpec s hc s') (hne : lc hc.node ≠ lc name)
    (h : NoRef name s) : NoRef name s' := by
  refine ⟨hsp.svcs ▸ h.svcs, ?_, fun x hx => h.sess x (hsp.sess x hx)⟩
  intro c hcm
  rcases hsp.chks c hcm with ⟨c0, h0, hsame⟩ | hsame
  · rw [hsame.1]; exact h.chks c0 h0
  · rw [hsame.1]; exact hne

theorem noRef_foldE_checks {idx : Nat} {node name : String} (hne : lc node ≠ lc name) : ∀ (l : List Chk) (st st' : State),
    foldE (fun st c => ensureCheckIfNodeMatches st idx node c) l st = .ok st' →
    NoRef name st → NoRef name st' ∧ st'.nodes = st.nodes := by
  intro l
  induction l with
  | nil => intro st st' h hs; simp [foldE] at h; subst h; exact ⟨hs, rfl⟩
  | cons b bs ih =>
    intro st st' h hs
    simp only [foldE] at h
    split at h
    · next st1 h1 =>
      unfold ensureCheckIfNodeMatches at h1
      split at h1
      · simp at h1
      · next hm =>
        have hb : lc b.node = lc node := by simpa using hm
        have hsp := ensSpec_ensureCheck h1
        obtain ⟨a1, a2⟩ := ih st1 st' h (NoRef.of_ensSpec hsp (by rw [hb]; exact hne) hs)
        exact ⟨a1, a2.trans hsp.nodes⟩
    · simp at h

/-- **Rename by node ID leaves nothing stale.** A successful registration whose node ID belongs to a node
    registered under ANOTHER name (and whose new name is free) removes the old node: afterwards the old name has
    no node row, no service, no check, no session in that catalog, and (local catalog) no coordinate. -/
theorem rename_by_id_clean {s s' : XState} {idx : Nat} {r : XRegReq} {n0 : Node}
    (h : registerX s idx r = .ok s')
    (hid : r.node.id ≠ "")
    (hby : nodeFindByID (s.cat r.peer).st r.node.id = some n0)
    (hne : lc n0.name ≠ lc r.node.name)
    (hfree : nodeFind (s.cat r.peer).st r.node.name = none) :
    nodeFind (s'.cat r.peer).st n0.name = none ∧ NoRef n0.name (s'.cat r.peer).st ∧
    (r.peer = "" → ∀ co ∈ s'.coords, lc co.node ≠ lc n0.name) := by
  have hne' : lc r.node.name ≠ lc n0.name := fun hh => hne hh.symm
  unfold registerX at h
  extract_lets p r1 at h
  -- the node part: `ensureNodeX` with the rename
  have h1 : ∀ s1, r1 = Except.ok s1 →
      nodeFind (s1.cat p).st n0.name = none ∧ NoRef n0.name (s1.cat p).st ∧ (p = "" → ∀ co ∈ s1.coords, lc co.node ≠ lc n0.name) := by
    intro s1 hr
    unfold r1 at hr
    have hfree' : nodeFind (s.cat p).st r.node.name = none := hfree
    rw [hfree'] at hr
    simp only at hr
    rw [ensureNodeX_eq] at hr
    split at hr
    · simp at hr
    · next sd byId hb =>
      simp at hr; subst hr
      -- the by-ID part deleted n0
      have hb' := hb
      unfold ensureNodeByIdX at hb'
      simp only at hb'
      rw [if_pos hid] at hb'
      have hby' : nodeFindByID (s.cat p).st r.node.id = some n0 := hby
      rw [hby'] at hb'
      simp only at hb'
      rw [if_pos hne] at hb'
      split at hb'
      · simp at hb'
      · split at hb'
        · next sd' hd =>
          simp at hb'; obtain ⟨rfl, rfl⟩ := hb'
          obtain ⟨std, dd, kd, cd⟩ := deleteNodeX_step hd
          have hn0mem : n0 ∈ (s.cat p).st.nodes := by
            unfold nodeFindByID at hby'
            exact List.mem_of_find?_eq_some hby'
          have hfound : (nodeFind (s.cat p).st n0.name).isSome = true := nodeFind_isSome_of_mem hn0mem rfl
          have hspec : DelNodeSpec (s.cat p).st n0.name std := by
            rcases deleteNode_spec dd with ⟨hnone, _⟩ | hspec
            · rw [hnone] at hfound; simp at hfound
            · exact hspec
          obtain ⟨kf, cf⟩ := ensureNodeFinishX_step sd' p (some n0) idx r.node
          -- the finish inserts the new name (the ID was found under another name, so the rows differ)
          have hfin : ensureNodeFinish (sd'.cat p).st (some n0) idx r.node =
              nodeInsert (sd'.cat p).st { r.node with create := n0.create, modify := idx } := by
            unfold ensureNodeFinish
            simp only
            have : nodeSame { r.node with create := n0.create, modify := n0.modify } n0 = false := by
              unfold nodeSame
              have : (lc r.node.name == lc n0.name) = false := by simpa using hne'
              simp [this]
            rw [this]; simp
          rw [kf.st, hfin, kd.st]
          refine ⟨?_, NoRef.nodeInsert _ (NoRef.of_delNodeSpec hspec), ?_⟩
          · have hv := catView_nodeInsert std { r.node with create := n0.create, modify := idx }
            generalize nodeInsert std { r.node with create := n0.create, modify := idx } = st' at hv
            simp only [catView, Prod.mk.injEq] at hv
            unfold nodeFind
            rw [hv.1, tfind_tupsert_ne (key := Node.pk) _ _ (by unfold Node.pk; exact hne), hspec.nodes]
            exact tfind_terase_self _ _
          · intro hp co hco
            rw [cf, cd, if_pos ⟨hp, hfound⟩] at hco
            simpa using (List.mem_filter.mp hco).2
        · simp at hb'
  clear_value r1
  split at h
  · simp at h
  · next _ s1 =>
    obtain ⟨a1, a2, a3⟩ := h1 s1 rfl
    extract_lets c1 r2 at h
    have h2 : ∀ s2, r2 = Except.ok s2 →
        nodeFind (s2.cat p).st n0.name = none ∧ NoRef n0.name (s2.cat p).st ∧ (p = "" → ∀ co ∈ s2.coords, lc co.node ≠ lc n0.name) := by
      intro s2 hr
      have svc : ∀ q, ensureServiceX s1 p idx r.node.name q = .ok s2 →
          nodeFind (s2.cat p).st n0.name = none ∧ NoRef n0.name (s2.cat p).st ∧ (p = "" → ∀ co ∈ s2.coords, lc co.node ≠ lc n0.name) := by
        intro q hq
        obtain ⟨st', k, c, hst, _⟩ := ensureServiceX_step hq
        rw [k.st]
        rcases hst with rfl | ⟨v, rfl, hv⟩
        · exact ⟨a1, a2, fun hp co hco => a3 hp co (c ▸ hco)⟩
        · exact ⟨by rw [nodeFind_svcInsert]; exact a1, NoRef.svcInsert v (by rw [hv]; exact hne') a2,
            fun hp co hco => a3 hp co (c ▸ hco)⟩
      unfold r2 at hr
      split at hr
      · simp at hr; subst hr; exact ⟨a1, a2, a3⟩
      · split at hr
        · split at hr
          · simp at hr; subst hr; exact ⟨a1, a2, a3⟩
          · exact svc _ hr
        · simp at hr
        · exact svc _ hr
    clear_value r2
    split at h
    · simp at h
    · next _ s2 =>
      obtain ⟨b1, b2, b3⟩ := h2 s2 rfl
      unfold XState.onSt at h
      simp only at h
      split at h
      · next st3 hst =>
        simp at h; subst h
        obtain ⟨d1, d2⟩ := noRef_foldE_checks hne' _ _ _ hst b2
        rw [cat_setCat_self]
        exact ⟨by rw [nodeFind_congr d2]; exact b1, d1, fun hp co hco => b3 hp co (by rw [setCat_coords] at hco; exact hco)⟩
      · simp at h

end CV.Store
