/-
Stage 2 of C07 (CV.Store.GwX) is a conservative extension of CV.Store.CatX: the `XState` component of every G-level
function is the X-level function on the `XState` component, errors and answers included. Hence every theorem of
CV.Props.C07 about `replayX` holds of the `x` component of `replayG`.
-/
import CV.Store.GwX
namespace CV.Store
open CV

def projE : Except XErr GState → Except XErr XState
  | .ok g => .ok g.x
  | .error e => .error e

def projB : Except XErr (GState × Bool) → Except XErr (XState × Bool)
  | .ok (g, b) => .ok (g.x, b)
  | .error e => .error e

def projR : Except XErr (GState × List TxnRes) → Except XErr (XState × List TxnRes)
  | .ok (g, r) => .ok (g.x, r)
  | .error e => .error e

theorem proj_ensureServiceG (g : GState) (p : String) (idx : Nat) (node : String) (q : SvcReq) :
    projE (ensureServiceG g p idx node q) = ensureServiceX g.x p idx node q := by
  unfold ensureServiceG
  cases ensureServiceX g.x p idx node q <;> rfl

theorem proj_ensureServiceCasG (g : GState) (p : String) (idx : Nat) (node : String) (q : SvcReq) :
    projB (ensureServiceCasG g p idx node q) = ensureServiceCasX g.x p idx node q := by
  unfold ensureServiceCasG ensureServiceCasX
  by_cases hc : casRefused q.modify ((svcFind (g.x.cat p).st node q.id).map (·.modify)) = true
  · rw [if_pos hc, if_pos hc]; rfl
  · rw [if_neg hc, if_neg hc]
    have := proj_ensureServiceG g p idx node q
    cases h : ensureServiceG g p idx node q <;> rw [h] at this <;> simp only [projE] at this <;> rw [← this] <;> rfl

theorem proj_deleteServiceG (g : GState) (p : String) (idx : Nat) (node id : String) :
    projE (deleteServiceG g p idx node id) = deleteServiceX g.x p idx node id := by
  unfold deleteServiceG
  cases deleteServiceX g.x p idx node id with
  | error e => rfl
  | ok x' =>
    simp only
    split <;> rfl

theorem proj_deleteServiceCasG (g : GState) (p : String) (idx cidx : Nat) (node id : String) :
    projB (deleteServiceCasG g p idx cidx node id) = deleteServiceCasX g.x p idx cidx node id := by
  unfold deleteServiceCasG deleteServiceCasX
  cases svcFind (g.x.cat p).st node id with
  | none => rfl
  | some v =>
    simp only
    by_cases hm : v.modify ≠ cidx
    · rw [if_pos hm, if_pos hm]; rfl
    · rw [if_neg hm, if_neg hm]
      have := proj_deleteServiceG g p idx node id
      cases h : deleteServiceG g p idx node id <;> rw [h] at this <;> simp only [projE] at this <;> rw [← this] <;> rfl

theorem proj_foldG {β : Type} (f : GState → β → Except XErr GState) (fx : XState → β → Except XErr XState)
    (h : ∀ y b, projE (f y b) = fx y.x b) : ∀ (l : List β) (g : GState), projE (foldG f l g) = foldX fx l g.x := by
  intro l
  induction l with
  | nil => intro g; rfl
  | cons b bs ih =>
    intro g
    simp only [foldG, foldX]
    have := h g b
    cases hf : f g b with
    | error e => rw [hf] at this; simp only [projE] at this; rw [← this]; rfl
    | ok g' => rw [hf] at this; simp only [projE] at this; rw [← this]; exact ih g'

theorem proj_deleteNodeG (g : GState) (p : String) (idx : Nat) (name : String) :
    projE (deleteNodeG g p idx name) = deleteNodeX g.x p idx name := by
  unfold deleteNodeG deleteNodeX
  simp only
  cases nodeFind (g.x.cat p).st name with
  | none => rfl
  | some n =>
    simp only
    have hf := proj_foldG (fun y (v : Svc) => deleteServiceG y p idx name v.id) (fun x (v : Svc) => deleteServiceX x p idx name v.id)
      (fun y b => proj_deleteServiceG y p idx name b.id)
      ((g.x.cat p).st.svcs.filter (fun v => lc v.node == lc name))
      { g with x := g.x.setCat p { g.x.cat p with st := ((g.x.cat p).st.svcs.filter (fun v => lc v.node == lc name)).foldl (fun st v => bumpServiceIdx st idx v.name) (g.x.cat p).st } }
    simp only at hf
    rw [← hf]
    generalize foldG (fun y (v : Svc) => deleteServiceG y p idx name v.id) _ _ = r
    cases r with
    | error e => rfl
    | ok g2 =>
      simp only [projE]
      generalize foldE (fun st (ch : Chk) => deleteCheck st idx name ch.id) _ _ = r3
      cases r3 with
      | error e => rfl
      | ok st3 =>
        simp only
        generalize foldE (fun st sid => deleteSession st idx sid) _ _ = r6
        cases r6 with
        | error e => rfl
        | ok st6 => rfl

theorem proj_deleteNodeCasG (g : GState) (p : String) (idx cidx : Nat) (name : String) :
    projB (deleteNodeCasG g p idx cidx name) = deleteNodeCasX g.x p idx cidx name := by
  unfold deleteNodeCasG deleteNodeCasX
  cases nodeFind (g.x.cat p).st name with
  | none => rfl
  | some n =>
    simp only
    by_cases hm : n.modify ≠ cidx
    · rw [if_pos hm, if_pos hm]; rfl
    · rw [if_neg hm, if_neg hm]
      have := proj_deleteNodeG g p idx name
      cases h : deleteNodeG g p idx name <;> rw [h] at this <;> simp only [projE] at this <;> rw [← this] <;> rfl

/-- rewriting a G-level call whose projection is known -/
theorem projE_cases {r : Except XErr GState} {rx : Except XErr XState} (h : projE r = rx) :
    (∃ e, r = .error e ∧ rx = .error e) ∨ (∃ g', r = .ok g' ∧ rx = .ok g'.x) := by
  cases r with
  | error e => exact Or.inl ⟨e, rfl, h.symm⟩
  | ok g' => exact Or.inr ⟨g', rfl, h.symm⟩

theorem proj_ensureNodeG (g : GState) (p : String) (idx : Nat) (node : Node) :
    projE (ensureNodeG g p idx node) = ensureNodeX g.x p idx node := by
  unfold ensureNodeG ensureNodeX
  simp only
  by_cases hid : node.id ≠ ""
  · simp only [if_pos hid]
    cases nodeFindByID (g.x.cat p).st node.id with
    | none =>
      simp only
      by_cases hc : nameClash (g.x.cat p).st node true = true
      · simp only [if_pos hc]; rfl
      · simp only [if_neg hc]
        cases nodeFind (g.x.cat p).st node.name with
        | none => rfl
        | some n =>
          simp only
          split <;> rfl
    | some n =>
      simp only
      by_cases hn : lc n.name ≠ lc node.name
      · simp only [if_pos hn]
        by_cases hc : nameClash (g.x.cat p).st node false = true
        · simp only [if_pos hc]; rfl
        · simp only [if_neg hc]
          rcases projE_cases (proj_deleteNodeG g p idx n.name) with ⟨e, h1, h2⟩ | ⟨g', h1, h2⟩
          · rw [h1, h2]; rfl
          · rw [h1, h2]
            simp only
            split <;> rfl
      · simp only [if_neg hn]
        split <;> rfl
  · simp only [if_neg hid]
    cases nodeFind (g.x.cat p).st node.name with
    | none => rfl
    | some n =>
      simp only
      split <;> rfl

theorem proj_ensureNodeCasG (g : GState) (p : String) (idx : Nat) (node : Node) :
    projB (ensureNodeCasG g p idx node) = ensureNodeCasX g.x p idx node := by
  unfold ensureNodeCasG ensureNodeCasX
  by_cases hc : casRefused node.modify ((nodeFind (g.x.cat p).st node.name).map (·.modify)) = true
  · rw [if_pos hc, if_pos hc]; rfl
  · rw [if_neg hc, if_neg hc]
    rcases projE_cases (proj_ensureNodeG g p idx node) with ⟨e, h1, h2⟩ | ⟨g', h1, h2⟩ <;> rw [h1, h2] <;> rfl

theorem proj_onX (g : GState) (f : XState → Except XErr XState) : projE (g.onX f) = f g.x := by
  unfold GState.onX
  cases f g.x <;> rfl

theorem proj_registerG (g : GState) (idx : Nat) (r : XRegReq) : projE (registerG g idx r) = registerX g.x idx r := by
  unfold registerG registerX
  extract_lets pG r1G r1X
  have h1 : projE r1G = r1X := by
    unfold r1G r1X pG
    cases nodeFind (g.x.cat r.peer).st r.node.name with
    | none => exact proj_ensureNodeG g r.peer idx r.node
    | some x =>
      simp only
      split
      · rfl
      · exact proj_ensureNodeG g r.peer idx r.node
  clear_value r1G r1X
  cases r1G with
  | error e => simp only [projE] at h1; subst h1; rfl
  | ok g1 =>
    simp only [projE] at h1; subst h1
    simp only
    have ens : ∀ q, projE (match ensureServiceG g1 pG idx r.node.name q with
        | Except.error e => Except.error e
        | Except.ok g2 => g2.onX fun s => s.onSt pG fun st => foldE (fun st c => ensureCheckIfNodeMatches st idx r.node.name c) r.checks st) =
        (match ensureServiceX g1.x pG idx r.node.name q with
        | Except.error e => Except.error e
        | Except.ok s => s.onSt pG fun st => foldE (fun st c => ensureCheckIfNodeMatches st idx r.node.name c) r.checks st) := by
      intro q
      rcases projE_cases (proj_ensureServiceG g1 pG idx r.node.name q) with ⟨e, b1, b2⟩ | ⟨g2, b1, b2⟩
      · rw [b1, b2]; rfl
      · rw [b1, b2]; exact proj_onX g2 _
    cases r.svc with
    | none => exact proj_onX g1 _
    | some q =>
      simp only
      cases svcFind (g1.x.cat pG).st r.node.name q.id with
      | none => exact ens q
      | some x =>
        cases extFind (g1.x.cat pG) r.node.name q.id with
        | none => rfl
        | some e =>
          simp only
          by_cases hs : reqSame x e q = true
          · simp only [if_pos hs]; exact proj_onX g1 _
          · simp only [if_neg hs]; exact ens q

theorem proj_deregisterG (g : GState) (idx : Nat) (p node svcId chkId : String) :
    projE (deregisterG g idx p node svcId chkId) = deregisterX g.x idx p node svcId chkId := by
  unfold deregisterG deregisterX
  split
  · exact proj_deleteServiceG g p idx node svcId
  · split
    · exact proj_onX g _
    · exact proj_deleteNodeG g p idx node

theorem projB_cases {r : Except XErr (GState × Bool)} {rx : Except XErr (XState × Bool)} (h : projB r = rx) :
    (∃ e, r = .error e ∧ rx = .error e) ∨ (∃ g' b, r = .ok (g', b) ∧ rx = .ok (g'.x, b)) := by
  cases r with
  | error e => exact Or.inl ⟨e, rfl, h.symm⟩
  | ok gb => obtain ⟨g', b⟩ := gb; exact Or.inr ⟨g', b, rfl, h.symm⟩

theorem proj_txnNodeG (g : GState) (idx : Nat) (v : CatVerb) (n : Node) :
    projR (txnNodeG g idx v n) = txnNodeX g.x idx v n := by
  unfold txnNodeG txnNodeX
  cases v <;> simp only
  · cases txnGetNode g.x.loc.st n <;> rfl
  · rcases projE_cases (proj_ensureNodeG g "" idx n) with ⟨e, h1, h2⟩ | ⟨g', h1, h2⟩ <;> rw [h1, h2] <;> rfl
  · rcases projB_cases (proj_ensureNodeCasG g "" idx n) with ⟨e, h1, h2⟩ | ⟨g', b, h1, h2⟩
    · rw [h1, h2]; rfl
    · rw [h1, h2]; cases b <;> rfl
  · rcases projE_cases (proj_deleteNodeG g "" idx n.name) with ⟨e, h1, h2⟩ | ⟨g', h1, h2⟩ <;> rw [h1, h2] <;> rfl
  · rcases projB_cases (proj_deleteNodeCasG g "" idx n.modify n.name) with ⟨e, h1, h2⟩ | ⟨g', b, h1, h2⟩
    · rw [h1, h2]; rfl
    · rw [h1, h2]; cases b <;> rfl

theorem proj_txnServiceG (g : GState) (idx : Nat) (v : CatVerb) (node : String) (q : SvcReq) :
    projR (txnServiceG g idx v node q) = txnServiceX g.x idx v node q := by
  unfold txnServiceG txnServiceX
  cases v <;> simp only
  · cases svcFind g.x.loc.st node q.id <;> rfl
  · rcases projE_cases (proj_ensureServiceG g "" idx node q) with ⟨e, h1, h2⟩ | ⟨g', h1, h2⟩ <;> rw [h1, h2] <;> rfl
  · rcases projB_cases (proj_ensureServiceCasG g "" idx node q) with ⟨e, h1, h2⟩ | ⟨g', b, h1, h2⟩
    · rw [h1, h2]; rfl
    · rw [h1, h2]; cases b <;> rfl
  · rcases projE_cases (proj_deleteServiceG g "" idx node q.id) with ⟨e, h1, h2⟩ | ⟨g', h1, h2⟩ <;> rw [h1, h2] <;> rfl
  · rcases projB_cases (proj_deleteServiceCasG g "" idx q.modify node q.id) with ⟨e, h1, h2⟩ | ⟨g', b, h1, h2⟩
    · rw [h1, h2]; rfl
    · rw [h1, h2]; cases b <;> rfl

theorem proj_txnStepG (g : GState) (idx : Nat) (op : XTxnOp) : projR (txnStepG g idx op) = txnStepX g.x idx op := by
  cases op with
  | service v node q => exact proj_txnServiceG g idx v node q
  | base bop =>
    cases bop with
    | node v n => exact proj_txnNodeG g idx v n
    | service v x => exact proj_txnServiceG g idx v x.node (typicalReq x)
    | kv v e => simp only [txnStepG, txnStepX]; cases txnStep g.x.loc.st idx (.kv v e) <;> rfl
    | check v c => simp only [txnStepG, txnStepX]; cases txnStep g.x.loc.st idx (.check v c) <;> rfl
    | sessionDelete id => simp only [txnStepG, txnStepX]; cases txnStep g.x.loc.st idx (.sessionDelete id) <;> rfl

theorem proj_txnLoopG (idx : Nat) : ∀ (ops : List XTxnOp) (i : Nat) (g : GState) (rs : List TxnRes) (es : List (Nat × XErr)),
    ((txnLoopG idx ops i g rs es).1.x, (txnLoopG idx ops i g rs es).2) = txnLoopX idx ops i g.x rs es := by
  intro ops
  induction ops with
  | nil => intro i g rs es; rfl
  | cons op rest ih =>
    intro i g rs es
    simp only [txnLoopG, txnLoopX]
    have h := proj_txnStepG g idx op
    cases hs : txnStepG g idx op with
    | error e => rw [hs] at h; simp only [projR] at h; rw [← h]; exact ih _ _ _ _
    | ok gr => obtain ⟨g', r⟩ := gr; rw [hs] at h; simp only [projR] at h; rw [← h]; exact ih _ _ _ _

theorem proj_txnRWG (g : GState) (idx : Nat) (ops : List XTxnOp) :
    ((txnRWG g idx ops).1.x, (txnRWG g idx ops).2) = txnRWX g.x idx ops := by
  unfold txnRWG txnRWX
  have h := proj_txnLoopG idx ops 0 g [] []
  generalize txnLoopG idx ops 0 g [] [] = rg at h
  generalize txnLoopX idx ops 0 g.x [] [] = rx at h
  obtain ⟨g', rs, es⟩ := rg
  obtain ⟨x', rs', es'⟩ := rx
  simp only [Prod.mk.injEq] at h
  obtain ⟨rfl, rfl, rfl⟩ := h
  simp only
  split <;> rfl

theorem proj_liftSG (g : GState) (r : Except XErr GState) (rx : Except XErr XState) (h : projE r = rx) :
    ((liftSG g r).1.x, (liftSG g r).2) = liftSX g.x rx := by
  cases r with
  | error e => simp only [projE] at h; subst h; rfl
  | ok g' => simp only [projE] at h; subst h; rfl

theorem proj_configUpsertG (g : GState) (idx : Nat) (kind name : String) (dest : Bool) (tok : String) :
    projE (configUpsertG g idx kind name dest tok) = configUpsert g.x idx kind name dest tok := by
  unfold configUpsertG
  cases configUpsert g.x idx kind name dest tok <;> rfl

/-- **stage 2 is a conservative extension**: the `XState` component and the answer of a G-level step are the X-level step's -/
theorem proj_stepG (g : GState) (idx : Nat) (c : XCmd) : ((stepG g idx c).1.x, (stepG g idx c).2) = stepX g.x idx c := by
  cases c with
  | register r => exact proj_liftSG g _ _ (proj_registerG g idx r)
  | deregister p node svcId chkId => exact proj_liftSG g _ _ (proj_deregisterG g idx p node svcId chkId)
  | coords us => rfl
  | sysmeta k v => rfl
  | configSet kind name dest tok => exact proj_liftSG g _ _ (proj_configUpsertG g idx kind name dest tok)
  | configDelete kind name => rfl
  | txn ops =>
    simp only [stepG, stepX]
    have h := proj_txnRWG g idx ops
    generalize txnRWG g idx ops = rg at h
    generalize txnRWX g.x idx ops = rx at h
    obtain ⟨g', rs, es⟩ := rg
    obtain ⟨x', rs', es'⟩ := rx
    simp only [Prod.mk.injEq] at h
    obtain ⟨rfl, rfl, rfl⟩ := h
    rfl
  | store c =>
    cases c with
    | register r => exact proj_liftSG g _ _ (proj_registerG g idx _)
    | deregister node svcId chkId => exact proj_liftSG g _ _ (proj_deregisterG g idx "" node svcId chkId)
    | txn ops =>
      simp only [stepG, stepX]
      have h := proj_txnRWG g idx (ops.map .base)
      generalize txnRWG g idx (ops.map .base) = rg at h
      generalize txnRWX g.x idx (ops.map .base) = rx at h
      obtain ⟨g', rs, es⟩ := rg
      obtain ⟨x', rs', es'⟩ := rx
      simp only [Prod.mk.injEq] at h
      obtain ⟨rfl, rfl, rfl⟩ := h
      rfl
    | _ => rfl

theorem proj_applyG (g : GState) (idx : Nat) (c : XCmd) : ((applyG g idx c).1.x, (applyG g idx c).2) = applyX g.x idx c := by
  unfold applyG applyX
  have h := proj_stepG g idx c
  generalize stepG g idx c = rg at h
  generalize stepX g.x idx c = rx at h
  obtain ⟨g', r⟩ := rg
  obtain ⟨x', r'⟩ := rx
  simp only [Prod.mk.injEq] at h
  obtain ⟨rfl, rfl⟩ := h
  rfl

theorem proj_replayG : ∀ (log : XLog) (g : GState), (replayG g log).x = replayX g.x log := by
  intro log
  induction log with
  | nil => intro g; rfl
  | cons ic rest ih =>
    intro g
    unfold replayG replayX
    simp only [List.foldl_cons]
    have h := proj_applyG g ic.1 ic.2
    have h1 : (applyG g ic.1 ic.2).1.x = (applyX g.x ic.1 ic.2).1 := congrArg Prod.fst h
    rw [← h1]
    exact ih _

end CV.Store
