/-
A generic walk over the commands of the C07 wrapper for predicates about the derived tables that depend on the
joined service rows: `SvcClosed W Q` asks for closure under the two functions that write service rows
(`ensureServiceX` for requests satisfying `W`, `deleteServiceX`), the two config-entry functions, a write of a
catalog's base state that keeps its service table, and changes of the tables `Q` does not look at; every command
whose requests satisfy `W` and whose config kinds are well-formed then preserves `Q`.
-/
import CV.Proofs.StoreCatUsageC
namespace CV.Store
open CV

/-- everything but coordinates, system metadata, the free-address slot, the counter and the usage table -/
def auxView (s : XState) : Cat × List (String × Cat) × List KsnRow × List VipRow × List CfgRow × Ghost :=
  (s.loc, s.peers, s.kindNames, s.vips, s.cfg, s.ghost)

structure SvcClosed (W : SvcReq → Prop) (Q : XState → Prop) : Prop where
  aux : ∀ s s' : XState, auxView s' = auxView s → Q s → Q s'
  setSt : ∀ (s : XState) (p : String) (st' : State), st'.svcs = (s.cat p).st.svcs → Q s →
    Q (s.setCat p { s.cat p with st := st' })
  ensureService : ∀ {s s' : XState} {p node : String} {idx : Nat} {q : SvcReq}, W q →
    ensureServiceX s p idx node q = .ok s' → Q s → Q s'
  deleteService : ∀ {s s' : XState} {p node id : String} {idx : Nat}, deleteServiceX s p idx node id = .ok s' → Q s → Q s'
  configUpsert : ∀ {s s' : XState} {idx : Nat} {kind name tok : String} {dest : Bool}, lc kind = kind ∧ NF kind →
    configUpsert s idx kind name dest tok = .ok s' → Q s → Q s'
  configDelete : ∀ (s : XState) (kind name : String), NF kind → Q s → Q (configDelete s kind name)
  typical : ∀ x : Svc, W (typicalReq x)

/-- the requests of a command satisfy `W`, the kinds of the config entries it names are lower-case and NUL-free -/
def XTxnOp.reqOk (W : SvcReq → Prop) : XTxnOp → Prop
  | .service _ _ q => W q
  | .base _ => True

def XCmd.reqOk (W : SvcReq → Prop) : XCmd → Prop
  | .register r => ∀ q, r.svc = some q → W q
  | .txn ops => ∀ op ∈ ops, op.reqOk W
  | .configSet kind _ _ _ => lc kind = kind ∧ NF kind
  | .configDelete kind _ => NF kind
  | _ => True

def XLog.reqOk (W : SvcReq → Prop) (log : XLog) : Prop := ∀ ic ∈ log, ic.2.reqOk W

variable {W : SvcReq → Prop} {Q : XState → Prop}

theorem sc_onSt (hQ : SvcClosed W Q) {s s' : XState} {p : String} {f : State → Except Err State}
    (h : s.onSt p f = .ok s') (hf : ∀ st st', f st = .ok st' → st'.svcs = st.svcs) (hs : Q s) : Q s' := by
  unfold XState.onSt at h
  simp only at h
  split at h
  · next st' hst => simp at h; subst h; exact hQ.setSt s p st' (hf _ _ hst) hs
  · simp at h

theorem sc_deleteNodeX (hQ : SvcClosed W Q) {s s' : XState} {p name : String} {idx : Nat}
    (h : deleteNodeX s p idx name = .ok s') (hs : Q s) : Q s' := by
  unfold deleteNodeX at h
  extract_lets c svcs st1 at h
  split at h
  · simp at h; exact h ▸ hs
  · split at h
    · simp at h
    · next s2 hf2 =>
      have hst1 : st1.svcs = (s.cat p).st.svcs := catView_svcs (foldl_bump_view idx _ _)
      have h1 : Q (s.setCat p { c with st := st1 }) := hQ.setSt s p st1 hst1 hs
      have h2 : Q s2 := foldX_ind Q _ (fun st b st' hst hb => hQ.deleteService hb hst) _ _ _ h1 hf2
      extract_lets c2 cs s3 at h
      have h3 : Q s3 := by
        unfold s3; split
        · exact hQ.aux s2 _ rfl h2
        · exact h2
      split at h
      · simp at h
      · next st3 hf3 =>
        extract_lets st5 ids at h
        split at h
        · simp at h
        · next st6 hf6 =>
          simp at h; subst h
          have e3 : st3.svcs = c2.st.svcs := svcs_foldE_deleteCheck _ _ _ hf3
          have e5 : st5.svcs = st3.svcs := by
            have := catView_deleteNodePost st3 idx name
            simp only [catView, Prod.mk.injEq] at this
            exact this.2.1
          have e6 : st6.svcs = st5.svcs := svcs_foldE_deleteSession _ _ _ hf6
          have hc2 : s3.cat p = c2 := by
            unfold s3; split <;> rfl
          have : Q (s3.setCat p { s3.cat p with st := st6 }) :=
            hQ.setSt s3 p st6 (by rw [hc2, e6, e5, e3]) h3
          rw [hc2] at this
          exact this

theorem sc_ensureNodeX (hQ : SvcClosed W Q) {s s' : XState} {p : String} {idx : Nat} {node : Node}
    (h : ensureNodeX s p idx node = .ok s') (hs : Q s) : Q s' := by
  rw [ensureNodeX_eq] at h
  split at h
  · simp at h
  · next s1 byId hb =>
    simp at h; subst h
    have h1 : Q s1 := by
      unfold ensureNodeByIdX at hb
      simp only at hb
      repeat' (split at hb)
      all_goals (try simp at hb)
      all_goals (obtain ⟨rfl, -⟩ := hb)
      all_goals (first | exact hs | (next hd => exact sc_deleteNodeX hQ hd hs))
    have ins : ∀ n, Q (s1.setCat p { s1.cat p with st := nodeInsert (s1.cat p).st n }) := by
      intro n
      refine hQ.setSt s1 p _ ?_ h1
      have := catView_nodeInsert (s1.cat p).st n
      simp only [catView, Prod.mk.injEq] at this
      exact this.2.1
    unfold ensureNodeFinishX
    simp only
    split
    · split
      · exact h1
      · exact ins _
    · exact ins _

theorem sc_registerX (hQ : SvcClosed W Q) {s s' : XState} {idx : Nat} {r : XRegReq}
    (h : registerX s idx r = .ok s') (hw : ∀ q, r.svc = some q → W q) (hs : Q s) : Q s' := by
  unfold registerX at h
  extract_lets p r1 at h
  have h1 : ∀ s1, r1 = Except.ok s1 → Q s1 := by
    intro s1 hr
    unfold r1 at hr
    split at hr
    · split at hr
      · simp at hr; exact hr ▸ hs
      · exact sc_ensureNodeX hQ hr hs
    · exact sc_ensureNodeX hQ hr hs
  clear_value r1
  split at h
  · simp at h
  · next _ s1 =>
    have hs1 := h1 s1 rfl
    extract_lets c1 r2 at h
    have h2 : ∀ s2, r2 = Except.ok s2 → Q s2 := by
      intro s2 hr
      unfold r2 at hr
      split at hr
      · simp at hr; exact hr ▸ hs1
      · next q hq =>
        split at hr
        · split at hr
          · simp at hr; exact hr ▸ hs1
          · exact hQ.ensureService (hw q hq) hr hs1
        · simp at hr
        · exact hQ.ensureService (hw q hq) hr hs1
    clear_value r2
    split at h
    · simp at h
    · next _ s2 => exact sc_onSt hQ h (fun st st' hst => svcs_foldE_checks _ _ _ hst) (h2 s2 rfl)

theorem sc_deregisterX (hQ : SvcClosed W Q) {s s' : XState} {idx : Nat} {p node svcId chkId : String}
    (h : deregisterX s idx p node svcId chkId = .ok s') (hs : Q s) : Q s' := by
  unfold deregisterX at h
  split at h
  · exact hQ.deleteService h hs
  · split at h
    · exact sc_onSt hQ h (fun st st' hst => (deleteCheck_spec hst).2.1) hs
    · exact sc_deleteNodeX hQ h hs

theorem sc_coordUpdate (hQ : SvcClosed W Q) (s : XState) (us : List CoordRow) (hs : Q s) : Q (coordUpdate s us) := by
  unfold coordUpdate
  induction us generalizing s with
  | nil => exact hs
  | cons u rest ih =>
    simp only [List.foldl_cons]
    apply ih
    split
    · exact hQ.aux s _ rfl hs
    · exact hs

theorem sc_txnNodeX (hQ : SvcClosed W Q) {s s' : XState} {idx : Nat} {v : CatVerb} {n : Node} {rs : List TxnRes}
    (h : txnNodeX s idx v n = .ok (s', rs)) (hs : Q s) : Q s' := by
  unfold txnNodeX at h
  cases v <;> simp only at h
  · split at h
    · simp [okResX] at h; exact h.1 ▸ hs
    · simp at h
  · split at h
    · next s1 h1 => simp [okResX] at h; exact h.1 ▸ sc_ensureNodeX hQ h1 hs
    · simp at h
  · split at h
    · next s1 h1 =>
      simp [okResX] at h
      unfold ensureNodeCasX at h1
      split at h1
      · simp at h1
      · split at h1
        · next s2 h2 => simp at h1; exact h.1 ▸ h1 ▸ sc_ensureNodeX hQ h2 hs
        · simp at h1
    · simp at h
    · simp at h
  · split at h
    · next s1 h1 => simp [okResX] at h; exact h.1 ▸ sc_deleteNodeX hQ h1 hs
    · simp at h
  · split at h
    · next s1 h1 =>
      simp [okResX] at h
      unfold deleteNodeCasX at h1
      split at h1
      · simp at h1
      · split at h1
        · simp at h1
        · split at h1
          · next s2 h2 => simp at h1; exact h.1 ▸ h1 ▸ sc_deleteNodeX hQ h2 hs
          · simp at h1
    · simp at h
    · simp at h

theorem sc_txnServiceX (hQ : SvcClosed W Q) {s s' : XState} {idx : Nat} {v : CatVerb} {node : String} {q : SvcReq} {rs : List TxnRes}
    (h : txnServiceX s idx v node q = .ok (s', rs)) (hw : W q) (hs : Q s) : Q s' := by
  unfold txnServiceX at h
  cases v <;> simp only at h
  · split at h
    · simp [okResX] at h; exact h.1 ▸ hs
    · simp at h
  · split at h
    · next s1 h1 => simp [okResX] at h; exact h.1 ▸ hQ.ensureService hw h1 hs
    · simp at h
  · split at h
    · next s1 h1 =>
      simp [okResX] at h
      unfold ensureServiceCasX at h1
      split at h1
      · simp at h1
      · split at h1
        · next s2 h2 => simp at h1; exact h.1 ▸ h1 ▸ hQ.ensureService hw h2 hs
        · simp at h1
    · simp at h
    · simp at h
  · split at h
    · next s1 h1 => simp [okResX] at h; exact h.1 ▸ hQ.deleteService h1 hs
    · simp at h
  · split at h
    · next s1 h1 =>
      simp [okResX] at h
      unfold deleteServiceCasX at h1
      split at h1
      · simp at h1
      · split at h1
        · simp at h1
        · split at h1
          · next s2 h2 => simp at h1; exact h.1 ▸ h1 ▸ hQ.deleteService h2 hs
          · simp at h1
    · simp at h
    · simp at h

theorem sc_setLocSt (hQ : SvcClosed W Q) {s : XState} {st' : State} (h : st'.svcs = s.loc.st.svcs) (hs : Q s) :
    Q { s with loc := { s.loc with st := st' } } := by
  have heq : ({ s with loc := { s.loc with st := st' } } : XState) = s.setCat "" { s.cat "" with st := st' } := by
    unfold XState.setCat XState.cat; simp
  rw [heq]
  exact hQ.setSt s "" st' (by rw [← loc_eq_cat]; exact h) hs

theorem sc_txnStepX (hQ : SvcClosed W Q) {s s' : XState} {idx : Nat} {op : XTxnOp} {rs : List TxnRes}
    (h : txnStepX s idx op = .ok (s', rs)) (hw : op.reqOk W) (hs : Q s) : Q s' := by
  cases op with
  | service v node q => exact sc_txnServiceX hQ h hw hs
  | base bop =>
    cases bop with
    | node v n => exact sc_txnNodeX hQ h hs
    | service v x => exact sc_txnServiceX hQ h (hQ.typical x) hs
    | kv v e =>
      simp only [txnStepX] at h
      split at h
      · next st' rs' hst =>
        simp [okResX] at h; obtain ⟨rfl, -⟩ := h
        exact sc_setLocSt hQ (catView_svcs (catView_txnKV hst)) hs
      · simp at h
    | check v c =>
      simp only [txnStepX] at h
      split at h
      · next st' rs' hst =>
        simp [okResX] at h; obtain ⟨rfl, -⟩ := h
        exact sc_setLocSt hQ (svcs_txnCheck hst) hs
      · simp at h
    | sessionDelete id =>
      simp only [txnStepX] at h
      split at h
      · next st' rs' hst =>
        simp [okResX] at h; obtain ⟨rfl, -⟩ := h
        refine sc_setLocSt hQ ?_ hs
        simp only [txnStep] at hst
        split at hst
        · next s1 h1 => simp [okRes] at hst; rw [← hst.1]; exact (casRel_deleteSession h1).svcs
        · simp at hst
      · simp at h

theorem sc_txnLoopX (hQ : SvcClosed W Q) (idx : Nat) : ∀ (ops : List XTxnOp) (i : Nat) (s : XState) (rs : List TxnRes)
    (es : List (Nat × XErr)), (∀ op ∈ ops, op.reqOk W) → Q s → Q (txnLoopX idx ops i s rs es).1 := by
  intro ops
  induction ops with
  | nil => intro i s rs es _ hs; exact hs
  | cons op rest ih =>
    intro i s rs es hw hs
    have hw' : ∀ op ∈ rest, op.reqOk W := fun o ho => hw o (List.mem_cons_of_mem _ ho)
    simp only [txnLoopX]
    split
    · next s' r hstep => exact ih _ _ _ _ hw' (sc_txnStepX hQ hstep (hw op List.mem_cons_self) hs)
    · exact ih _ _ _ _ hw' hs

theorem sc_txnRWX (hQ : SvcClosed W Q) {s : XState} (idx : Nat) (ops : List XTxnOp) (hw : ∀ op ∈ ops, op.reqOk W) (hs : Q s) :
    Q (txnRWX s idx ops).1 := by
  unfold txnRWX
  have := sc_txnLoopX hQ idx ops 0 s [] [] hw hs
  generalize txnLoopX idx ops 0 s [] [] = r at this
  obtain ⟨s', rs, es⟩ := r
  simp only
  split
  · exact this
  · exact hs

theorem sc_store_plain (hQ : SvcClosed W Q) {s : XState} (idx : Nat) (c : Cmd) (hc : c.isPlain = true) (hs : Q s) :
    Q (stepX s idx (.store c)).1 := by
  have hstep : (stepX s idx (.store c)).1 = { s with loc := { s.loc with st := (apply s.loc.st idx c).1 } } := by
    cases c <;> first | (simp [Cmd.isPlain] at hc; done) | rfl
  rw [hstep]
  exact sc_setLocSt hQ (svcs_apply_plain idx c hc) hs

theorem sc_sysMetaSet (hQ : SvcClosed W Q) (s : XState) (k : String) (v : Option String) (hs : Q s) : Q (sysMetaSet s k v) := by
  unfold sysMetaSet
  cases v <;> exact hQ.aux s _ rfl hs

theorem sc_stepX (hQ : SvcClosed W Q) {s : XState} (idx : Nat) (c : XCmd) (hw : c.reqOk W) (hs : Q s) : Q (stepX s idx c).1 := by
  cases c with
  | register r => exact vc_liftSX (P := Q) hs (fun s' h => sc_registerX hQ h hw hs)
  | deregister p node svcId chkId => exact vc_liftSX (P := Q) hs (fun s' h => sc_deregisterX hQ h hs)
  | coords us => exact sc_coordUpdate hQ s us hs
  | sysmeta k v => exact sc_sysMetaSet hQ s k v hs
  | configSet kind name dest tok => exact vc_liftSX (P := Q) hs (fun s' h => hQ.configUpsert hw h hs)
  | configDelete kind name => exact hQ.configDelete s kind name hw hs
  | txn ops => simp only [stepX]; exact sc_txnRWX hQ idx ops hw hs
  | store c =>
    cases c with
    | register r =>
      refine vc_liftSX (P := Q) hs (fun s' h => sc_registerX hQ h ?_ hs)
      intro q hq
      simp only [Option.map_eq_some_iff] at hq
      obtain ⟨x, -, rfl⟩ := hq
      exact hQ.typical x
    | deregister node svcId chkId => exact vc_liftSX (P := Q) hs (fun s' h => sc_deregisterX hQ h hs)
    | txn ops =>
      simp only [stepX]
      refine sc_txnRWX hQ idx _ ?_ hs
      intro op hop
      obtain ⟨b, -, rfl⟩ := List.mem_map.mp hop
      trivial
    | kvSet e => exact sc_store_plain hQ idx _ rfl hs
    | kvCas e => exact sc_store_plain hQ idx _ rfl hs
    | kvDelete k => exact sc_store_plain hQ idx _ rfl hs
    | kvDeleteCas k ci => exact sc_store_plain hQ idx _ rfl hs
    | kvDeleteTree p => exact sc_store_plain hQ idx _ rfl hs
    | kvLock e => exact sc_store_plain hQ idx _ rfl hs
    | kvUnlock e => exact sc_store_plain hQ idx _ rfl hs
    | sessionCreate r => exact sc_store_plain hQ idx _ rfl hs
    | sessionDestroy id => exact sc_store_plain hQ idx _ rfl hs
    | reap u => exact sc_store_plain hQ idx _ rfl hs
    | pqSet id sess => exact sc_store_plain hQ idx _ rfl hs
    | pqDelete id => exact sc_store_plain hQ idx _ rfl hs

theorem sc_applyX (hQ : SvcClosed W Q) {s : XState} (idx : Nat) (c : XCmd) (hw : c.reqOk W) (hs : Q s) : Q (applyX s idx c).1 :=
  hQ.aux (stepX s idx c).1 _ rfl (sc_stepX hQ idx c hw hs)

theorem sc_replayX (hQ : SvcClosed W Q) : ∀ (log : XLog) (s : XState), XLog.reqOk W log → Q s → Q (replayX s log) := by
  intro log
  induction log with
  | nil => intro s _ hs; exact hs
  | cons ic rest ih =>
    intro s hw hs
    unfold replayX
    simp only [List.foldl_cons]
    exact ih _ (fun x hx => hw x (List.mem_cons_of_mem _ hx)) (sc_applyX hQ ic.1 ic.2 (hw ic List.mem_cons_self) hs)

end CV.Store
