/-
Usage counters of the C07 wrapper, part 4: `config-entries-<kind>`. The config-entry table is written by the
two config commands only (`cfg_stepX`), it keeps one row per (kind, name) and lower-case NUL-free kinds (`CfgOk`),
so an updated row keeps its class and the change-set argument gives the exact counter.
-/
import CV.Proofs.StoreCatUsageT
namespace CV.Store
open CV

/-- hypothesis on a command: the kind of a config entry it writes is spelled in lower case and NUL-free
    (every kind consul knows is) -/
def XCmd.cfgWf : XCmd → Prop
  | .configSet kind _ _ _ => lc kind = kind ∧ NF kind
  | _ => True

def XLog.cfgWf (log : XLog) : Prop := ∀ ic ∈ log, ic.2.cfgWf

structure CfgOk (s : XState) : Prop where
  srt : SortedBy CfgRow.pk s.cfg
  kinds : ∀ r ∈ s.cfg, lc r.kind = r.kind ∧ NF r.kind

theorem CfgOk.empty : CfgOk XState.empty := ⟨by simp [XState.empty, SortedBy], by simp [XState.empty]⟩

theorem cfgOk_of_eq {s s' : XState} (e : s'.cfg = s.cfg) (h : CfgOk s) : CfgOk s' := ⟨e ▸ h.srt, e ▸ h.kinds⟩

theorem cfg_configUpsert {s s' : XState} {idx : Nat} {kind name tok : String} {dest : Bool}
    (h : configUpsert s idx kind name dest tok = .ok s') :
    ∃ create, s'.cfg = tupsert CfgRow.pk strLt ⟨kind, name, dest, tok, create, idx⟩ s.cfg := by
  unfold configUpsert at h
  extract_lets s1 r2 at h
  have e1 : s1.cfg = s.cfg := by unfold s1; split <;> rfl
  have h2 : ∀ s2, r2 = Except.ok s2 → s2.cfg = s.cfg := by
    intro s2 hr
    unfold r2 at hr
    split at hr
    · split at hr
      · next s2' ip ha => simp at hr; subst hr; rw [cfg_assignVip ha, e1]
      · simp at hr
    · simp at hr; subst hr; exact e1
  clear_value r2
  split at h
  · simp at h
  · next _ s2 =>
    simp at h; subst h
    exact ⟨_, by simp only; rw [h2 s2 rfl]⟩

theorem cfg_configDelete (s : XState) (kind name : String) :
    (configDelete s kind name).cfg = s.cfg ∨ (configDelete s kind name).cfg = terase CfgRow.pk (pk2 kind name) s.cfg := by
  unfold configDelete
  split
  · exact Or.inl rfl
  · extract_lets s1 s2
    have e1 : s1.cfg = s.cfg := by unfold s1; split <;> rfl
    have e2 : s2.cfg = terase CfgRow.pk (pk2 kind name) s.cfg := by unfold s2; simp only; rw [e1]
    right
    split
    · rw [cfg_freeVip, e2]
    · exact e2

theorem cfgOk_tupsert {s : XState} (r : CfgRow) (hr : lc r.kind = r.kind ∧ NF r.kind) (h : CfgOk s) {s' : XState}
    (e : s'.cfg = tupsert CfgRow.pk strLt r s.cfg) : CfgOk s' := by
  refine ⟨e ▸ sortedBy_tupsert r _ h.srt, ?_⟩
  intro x hx
  rw [e] at hx
  rcases mem_tupsert hx with rfl | hx
  · exact hr
  · exact h.kinds x hx

theorem cfgOk_stepX {s : XState} (idx : Nat) (c : XCmd) (hc : c.cfgWf) (h : CfgOk s) : CfgOk (stepX s idx c).1 := by
  by_cases hcfg : c.isConfig = false
  · exact cfgOk_of_eq (cfg_stepX s idx c hcfg) h
  · cases c with
    | configSet kind name dest tok =>
      show CfgOk (liftSX s (configUpsert s idx kind name dest tok)).1
      cases hr : configUpsert s idx kind name dest tok with
      | error e => exact h
      | ok s' =>
        obtain ⟨create, e⟩ := cfg_configUpsert hr
        exact cfgOk_tupsert ⟨kind, name, dest, tok, create, idx⟩ hc h e
    | configDelete kind name =>
      show CfgOk (configDelete s kind name)
      rcases cfg_configDelete s kind name with e | e
      · exact cfgOk_of_eq e h
      · exact ⟨e ▸ sortedBy_terase _ _ h.srt, fun x hx => by rw [e] at hx; exact h.kinds x (mem_terase.mp hx).1⟩
    | _ => simp [XCmd.isConfig] at hcfg

theorem cfgOk_applyX {s : XState} (idx : Nat) (c : XCmd) (hc : c.cfgWf) (h : CfgOk s) : CfgOk (applyX s idx c).1 :=
  cfgOk_of_eq (s := (stepX s idx c).1) rfl (cfgOk_stepX idx c hc h)

theorem cfgOk_replayX : ∀ (log : XLog) (s : XState), XLog.cfgWf log → CfgOk s → CfgOk (replayX s log) := by
  intro log
  induction log with
  | nil => intro s _ h; exact h
  | cons ic rest ih =>
    intro s hw h
    unfold replayX
    simp only [List.foldl_cons]
    exact ih _ (fun x hx => hw x (List.mem_cons_of_mem _ hx)) (cfgOk_applyX ic.1 ic.2 (hw ic List.mem_cons_self) h)

/-! ### the counter -/

theorem changesOf_key {α κ : Type} [DecidableEq α] [DecidableEq κ] {key : α → κ} {pre post : List α} {b a : α}
    (h : (some b, some a) ∈ changesOf key pre post) : key b = key a := by
  rw [changesOf_eqG] at h
  rcases List.mem_append.mp h with h | h
  · obtain ⟨x, _, hd⟩ := List.mem_filterMap.mp h
    unfold delG at hd
    cases hq : tfind key (key x) post with
    | none => rw [hq] at hd; simp at hd
    | some y =>
      rw [hq] at hd
      simp only at hd
      split at hd
      · simp at hd
      · simp at hd
        obtain ⟨rfl, rfl⟩ := hd
        exact (tfind_some hq).2.symm
  · obtain ⟨x, _, hd⟩ := List.mem_filterMap.mp h
    unfold creG at hd
    cases hq : tfind key (key x) pre with
    | none => rw [hq] at hd; simp at hd
    | some y => rw [hq] at hd; simp at hd

def cfgId (k : String) : String := "config-entries-" ++ k

theorem cfgId_inj {a b : String} (h : cfgId a = cfgId b) : a = b := append_cancel_left h

theorem lc_cfgId (k : String) : lc (cfgId k) = cfgId (lc k) := by unfold cfgId; rw [lc_append, lc_ce']

theorem cfgId_ne_lit (x : String) {l : String} {y : Char} {ys : List Char} (hl : l.toList = y :: ys) (hy : y ≠ 'c') :
    l ≠ cfgId x := fun h => str_ne_of_head hl (cfgid_head x) hy h

theorem idsOk_cfgId {k : String} (hk : lc k = k) : IdsOk (cfgId k) where
  nodes := Or.inr (by rw [lc_of_toList "nodes" "nodes" (by decide), lc_cfgId, hk]
                      exact cfgId_ne_lit k (by decide : "nodes".toList = 'n' :: "odes".toList) (by decide))
  services := Or.inr (by rw [lc_lit_services, lc_cfgId, hk]
                         exact cfgId_ne_lit k (by decide : "services".toList = 's' :: "ervices".toList) (by decide))
  kvs := Or.inr (by rw [lc_of_toList "kvs" "kvs" (by decide), lc_cfgId, hk]
                    exact cfgId_ne_lit k (by decide : "kvs".toList = 'k' :: "vs".toList) (by decide))
  names := Or.inr (by rw [lc_of_toList "service-names" "service-names" (by decide), lc_cfgId, hk]
                      exact cfgId_ne_lit k (by decide : "service-names".toList = 's' :: "ervice-names".toList) (by decide))
  billable := Or.inr (by rw [lc_of_toList billableName billableName (by decide), lc_cfgId, hk]
                         exact cfgId_ne_lit k (by decide : billableName.toList = 'b' :: "illable-services".toList) (by decide))
  conn := fun x => Or.inr (by rw [lc_cun, lc_cfgId]; exact cun_ne_cfgid _ _)
  native := Or.inr (by rw [lc_cun, lc_cfgId]; exact cun_ne_cfgid _ _)

/-- the delta of a transaction at `config-entries-<k>`: the growth of the number of entries of kind `k` -/
theorem usageDeltas_cfg (pre post : XState) (k : String) (h1 : CfgOk pre) (h2 : CfgOk post) :
    dval (usageDeltas pre post) (cfgId k) =
      ((post.cfg.filter fun r => r.kind == k).length : Int) - ((pre.cfg.filter fun r => r.kind == k).length : Int) := by
  rw [usageDeltas_dval]
  rw [countDeltas_const_dval "nodes" (cfgId k), if_neg (cfgId_ne_lit k (by decide : "nodes".toList = 'n' :: "odes".toList) (by decide)),
    countDeltas_const_dval "kvs" (cfgId k), if_neg (cfgId_ne_lit k (by decide : "kvs".toList = 'k' :: "vs".toList) (by decide)),
    serviceNameDeltas_other_dval _ (cfgId_ne_lit k (by decide : "service-names".toList = 's' :: "ervice-names".toList) (by decide))]
  rw [sum_map_wSum (fun _ => 0) _ (fun ch => by
    rw [svcStep_dval, if_neg (cfgId_ne_lit k (by decide : "services".toList = 's' :: "ervices".toList) (by decide)),
      connect_other ch (c := cfgId k) (fun x => cun_ne_cfgid x k),
      billable_other ch (cfgId_ne_lit k (by decide : billableName.toList = 'b' :: "illable-services".toList) (by decide))]
    obtain ⟨b, a⟩ := ch
    cases b <;> cases a <;> simp [optW])]
  have hz : ∀ (l : List (Option (Svc × SvcX) × Option (Svc × SvcX))), wSum (fun _ => (0 : Int)) l = 0 := by
    intro l; induction l with
    | nil => rfl
    | cons ch rest ih => obtain ⟨b, a⟩ := ch; cases b <;> cases a <;> simp [wSum, optW, ih]
  rw [hz]
  have hclass : ∀ b a, (some b, some a) ∈ changesOf CfgRow.pk pre.cfg post.cfg →
      (fun (r : CfgRow) => "config-entries-" ++ r.kind) b = (fun (r : CfgRow) => "config-entries-" ++ r.kind) a := by
    intro b a hm
    have hk := changesOf_key hm
    obtain ⟨m1, m2⟩ := changesOf_mem hm
    have kb := h1.kinds b (m1 b rfl)
    have ka := h2.kinds a (m2 a rfl)
    have := (pk2_inj kb.2 ka.2 hk).1
    rw [kb.1, ka.1] at this
    simp only [this]
  rw [countDeltas_class_dval _ (cfgId k) _ hclass,
    wSum_changesOf _ _ _ _ (sortedBy_keys_nodup h1.srt) (sortedBy_keys_nodup h2.srt)]
  have hw : ∀ l : List CfgRow, listSum (fun r => if "config-entries-" ++ r.kind = cfgId k then (1 : Int) else 0) l =
      ((l.filter fun r => r.kind == k).length : Int) := by
    intro l
    rw [← listSum_ind]
    congr 1
    funext r
    by_cases hrk : r.kind = k
    · simp [hrk, cfgId]
    · have : "config-entries-" ++ r.kind ≠ cfgId k := fun hh => hrk (cfgId_inj hh)
      simp [hrk, this]
  rw [hw, hw]
  omega

theorem usage_cfg_applyX {s : XState} (idx : Nat) (c : XCmd) (hc : c.cfgWf) (hs : CfgOk s) (k : String) (hk : lc k = k)
    (h : usageGet s (cfgId k) = (s.cfg.filter fun r => r.kind == k).length) :
    usageGet (applyX s idx c).1 (cfgId k) = ((applyX s idx c).1.cfg.filter fun r => r.kind == k).length := by
  have hpost : CfgOk (stepX s idx c).1 := cfgOk_stepX idx c hc hs
  show usageGet (applyX s idx c).1 (cfgId k) = ((stepX s idx c).1.cfg.filter fun r => r.kind == k).length
  refine usage_step_generic idx c (cfgId k) _ _ (goodFor_usageDeltas (idsOk_cfgId hk) _ _ ?_) (usageDeltas_cfg s _ k hs hpost) h
  intro r hr
  have hkr : lc r.kind = r.kind := by
    rcases hr with hr | hr
    · exact (hs.kinds r hr).1
    · exact (hpost.kinds r hr).1
  by_cases e : r.kind = k
  · exact Or.inl (by rw [e]; rfl)
  · refine Or.inr ?_
    show lc (cfgId r.kind) ≠ lc (cfgId k)
    rw [lc_cfgId, lc_cfgId, hkr, hk]
    exact fun hh => e (cfgId_inj hh)

theorem usage_cfg_replayX (k : String) (hk : lc k = k) : ∀ (log : XLog) (s : XState), XLog.cfgWf log → CfgOk s →
    usageGet s (cfgId k) = (s.cfg.filter fun r => r.kind == k).length →
    usageGet (replayX s log) (cfgId k) = ((replayX s log).cfg.filter fun r => r.kind == k).length := by
  intro log
  induction log with
  | nil => intro s _ _ h; exact h
  | cons ic rest ih =>
    intro s hw hs h
    unfold replayX
    simp only [List.foldl_cons]
    have hic := hw ic List.mem_cons_self
    exact ih _ (fun x hx => hw x (List.mem_cons_of_mem _ hx)) (cfgOk_applyX ic.1 ic.2 hic hs)
      (usage_cfg_applyX ic.1 ic.2 hic hs k hk h)

end CV.Store
