/-
C02 round 4, part A: table algebra used by the reachability proof of `SnapWF`.

* which index rows exist after `idxSet` / `idxMax` / `idxDel` (`Rows`), and that the three keep the index table
  sorted with lower-cased keys (`IdxNF`);
* key order survives deletes, filters and key-preserving rewrites;
* `session_checks`: the links of one session (`linkS`), injectivity of the link key in its session component for
  NUL-free session IDs, and the two equations that make `sessChecks = deriveSC [] sessions` an invariant:
  inserting a session with a fresh ID (`deriveSC_tupsert`) and deleting one (`deriveSC_terase`).
-/
import CV.Proofs.StoreSnapMain
import CV.Proofs.StoreLadderK
import CV.Proofs.StoreCatStr
set_option linter.unusedSectionVars false
set_option linter.unusedSimpArgs false
set_option linter.unusedVariables false
namespace CV.Store
open CV

/-! ### rows of the index table -/

/-- the index table has a row with (stored) key `k` -/
def Rows (ix : List (String × Nat)) (k : String) : Prop := ∃ x ∈ ix, k = x.1

theorem rows_set (ix : List (String × Nat)) (k : String) (v : Nat) (j : String) :
    Rows (idxSet ix k v) j ↔ j = lc k ∨ Rows ix j := by
  unfold idxSet Rows
  constructor
  · rintro ⟨x, hx, rfl⟩
    rcases mem_tupsert hx with rfl | h
    · exact Or.inl rfl
    · exact Or.inr ⟨x, h, rfl⟩
  · rintro (rfl | ⟨x, hx, rfl⟩)
    · exact ⟨(lc k, v), self_mem_tupsert _ _, rfl⟩
    · rcases mem_tupsert_of_mem (key := fun (r : String × Nat) => r.1) (lt := strLt) (r := (lc k, v)) hx with h | h
      · exact ⟨x, h, rfl⟩
      · exact ⟨(lc k, v), self_mem_tupsert _ _, h⟩

theorem rows_of_idxGet {ix : List (String × Nat)} {k : String} {c : Nat} (h : idxGet ix k = some c) : Rows ix (lc k) := by
  unfold idxGet at h
  cases hf : tfind (fun (r : String × Nat) => r.1) (lc k) ix with
  | none => rw [hf] at h; simp at h
  | some x =>
    obtain ⟨hm, hk⟩ := tfind_some hf
    exact ⟨x, hm, hk.symm⟩

theorem rows_max (ix : List (String × Nat)) (k : String) (v : Nat) (j : String) :
    Rows (idxMax ix k v) j ↔ j = lc k ∨ Rows ix j := by
  unfold idxMax
  split
  · next cur hc =>
    split
    · constructor
      · exact Or.inr
      · rintro (rfl | h)
        · exact rows_of_idxGet hc
        · exact h
    · exact rows_set ix k v j
  · exact rows_set ix k v j

theorem rows_del (ix : List (String × Nat)) (k : String) (j : String) :
    Rows (idxDel ix k) j ↔ j ≠ lc k ∧ Rows ix j := by
  unfold idxDel Rows
  constructor
  · rintro ⟨x, hx, rfl⟩
    obtain ⟨h1, h2⟩ := mem_terase.mp hx
    exact ⟨h2, x, h1, rfl⟩
  · rintro ⟨hne, x, hx, rfl⟩
    exact ⟨x, mem_terase.mpr ⟨hx, hne⟩, rfl⟩

theorem rows_maxIdx (s : State) (k : String) (v : Nat) (j : String) :
    Rows (s.maxIdx k v).index j ↔ j = lc k ∨ Rows s.index j := rows_max _ _ _ _

theorem rows_maxIdx2 (s : State) (k : String) (v : Nat) (j : String) :
    Rows (s.maxIdx2 k v).index j ↔ j = lc ("peer.~:" ++ k) ∨ j = lc k ∨ Rows s.index j := by
  unfold State.maxIdx2
  rw [rows_maxIdx, rows_maxIdx]

theorem rows_setIdx (s : State) (k : String) (v : Nat) (j : String) :
    Rows (s.setIdx k v).index j ↔ j = lc k ∨ Rows s.index j := rows_set _ _ _ _

theorem rows_delIdx (s : State) (k : String) (j : String) :
    Rows (s.delIdx k).index j ↔ j ≠ lc k ∧ Rows s.index j := rows_del _ _ _

theorem rows_bump (s : State) (i : Nat) (n : String) (j : String) :
    Rows (bumpServiceIdx s i n).index j ↔
      j = lc ("peer.~:" ++ "service_kind.typical") ∨ j = lc "service_kind.typical" ∨ j = lc ("peer.~:service." ++ n) ∨
        Rows s.index j := by
  unfold bumpServiceIdx
  rw [rows_maxIdx2, rows_maxIdx]

theorem rows_foldl_mono {β : Type} (f : State → β → State) (hf : ∀ st b j, Rows st.index j → Rows (f st b).index j)
    (l : List β) (s : State) (j : String) (h : Rows s.index j) : Rows (l.foldl f s).index j := by
  induction l generalizing s with
  | nil => exact h
  | cons b bs ih => exact ih _ (hf s b j h)

theorem rows_updateAll_mono (s : State) (i : Nat) (n : String) (j : String) (h : Rows s.index j) :
    Rows (updateAllServiceIndexesOfNode s i n).index j := by
  unfold updateAllServiceIndexesOfNode
  exact rows_foldl_mono _ (fun st b j h => (rows_bump st i b.name j).mpr (Or.inr (Or.inr (Or.inr h)))) _ s j h

/-! ### the index table stays sorted, with lower-cased keys -/

def IdxNF (ix : List (String × Nat)) : Prop := IdxSorted ix ∧ ∀ r ∈ ix, lc r.1 = r.1

theorem idxNF_nil : IdxNF [] := ⟨idxSorted_nil, fun _ h => by cases h⟩

theorem idxNF_set {ix : List (String × Nat)} (h : IdxNF ix) (k : String) (v : Nat) : IdxNF (idxSet ix k v) := by
  refine ⟨idxSorted_set h.1 k v, ?_⟩
  intro r hr
  unfold idxSet at hr
  rcases mem_tupsert hr with rfl | h1
  · exact lc_idem k
  · exact h.2 r h1

theorem idxNF_max {ix : List (String × Nat)} (h : IdxNF ix) (k : String) (v : Nat) : IdxNF (idxMax ix k v) := by
  unfold idxMax
  split
  · split
    · exact h
    · exact idxNF_set h k v
  · exact idxNF_set h k v

theorem tsorted_filter {α κ : Type} {key : α → κ} {lt : κ → κ → Bool} {l : List α} (h : TSorted key lt l) (p : α → Bool) :
    TSorted key lt (l.filter p) := List.Pairwise.filter p h

theorem tsorted_terase {α κ : Type} [DecidableEq κ] {key : α → κ} {lt : κ → κ → Bool} {l : List α} (h : TSorted key lt l) (k : κ) :
    TSorted key lt (terase key k l) := tsorted_filter h _

theorem tsorted_map {α κ : Type} {key : α → κ} {lt : κ → κ → Bool} {l : List α} (h : TSorted key lt l) (f : α → α)
    (hf : ∀ x, key (f x) = key x) : TSorted key lt (l.map f) := by
  unfold TSorted at h ⊢
  rw [List.pairwise_map]
  exact List.Pairwise.imp (fun {a b} hab => by rw [hf, hf]; exact hab) h

theorem idxNF_del {ix : List (String × Nat)} (h : IdxNF ix) (k : String) : IdxNF (idxDel ix k) := by
  refine ⟨tsorted_terase h.1 _, ?_⟩
  intro r hr
  exact h.2 r (mem_terase.mp hr).1

theorem idxNF_maxIdx {s : State} (h : IdxNF s.index) (k : String) (v : Nat) : IdxNF (s.maxIdx k v).index := idxNF_max h k v
theorem idxNF_maxIdx2 {s : State} (h : IdxNF s.index) (k : String) (v : Nat) : IdxNF (s.maxIdx2 k v).index :=
  idxNF_max (idxNF_max h k v) _ v
theorem idxNF_setIdx {s : State} (h : IdxNF s.index) (k : String) (v : Nat) : IdxNF (s.setIdx k v).index := idxNF_set h k v
theorem idxNF_delIdx {s : State} (h : IdxNF s.index) (k : String) : IdxNF (s.delIdx k).index := idxNF_del h k
theorem idxNF_bump {s : State} (h : IdxNF s.index) (i : Nat) (n : String) : IdxNF (bumpServiceIdx s i n).index :=
  idxNF_maxIdx2 (idxNF_maxIdx h _ i) _ i

theorem idxNF_foldl {β : Type} (f : State → β → State) (hf : ∀ st b, IdxNF st.index → IdxNF (f st b).index)
    (l : List β) (s : State) (h : IdxNF s.index) : IdxNF (l.foldl f s).index := by
  induction l generalizing s with
  | nil => exact h
  | cons b bs ih => exact ih _ (hf s b h)

theorem idxNF_updateAll {s : State} (h : IdxNF s.index) (i : Nat) (n : String) :
    IdxNF (updateAllServiceIndexesOfNode s i n).index := by
  unfold updateAllServiceIndexesOfNode
  exact idxNF_foldl _ (fun st b hst => idxNF_bump hst i b.name) _ s h

/-! ### filters and upserts -/

section Tbl
variable {α κ : Type} [DecidableEq κ]

theorem tupsert_of_lt_all {key : α → κ} {lt : κ → κ → Bool} (o : StrictTotal lt) (r : α) (l : List α)
    (h : ∀ y ∈ l, lt (key r) (key y) = true) : tupsert key lt r l = r :: l := by
  cases l with
  | nil => rfl
  | cons x xs =>
    have hx := h x List.mem_cons_self
    have hne : key x ≠ key r := fun e => lt_ne o hx e.symm
    simp [tupsert, hne, hx]

/-- rows that fail the filter, replaced or inserted, leave the filtered table alone -/
theorem filter_tupsert_neg {key : α → κ} {lt : κ → κ → Bool} (p : α → Bool) (r : α) (l : List α)
    (hr : p r = false) (hl : ∀ y ∈ l, key y = key r → p y = false) :
    (tupsert key lt r l).filter p = l.filter p := by
  induction l with
  | nil => simp [tupsert, hr]
  | cons x xs ih =>
    have ih' := ih (fun y hy => hl y (List.mem_cons_of_mem _ hy))
    unfold tupsert
    split
    · next hk =>
      have hx := hl x List.mem_cons_self hk
      simp [List.filter_cons, hr, hx]
    · split
      · simp [List.filter_cons, hr]
      · simp only [List.filter_cons]
        rw [ih']

/-- rows that pass the filter commute with it (in a sorted table) -/
theorem filter_tupsert_pos {key : α → κ} {lt : κ → κ → Bool} (o : StrictTotal lt) (p : α → Bool) (r : α) (l : List α)
    (hs : TSorted key lt l) (hr : p r = true) :
    (tupsert key lt r l).filter p = tupsert key lt r (l.filter p) := by
  induction l with
  | nil => simp [tupsert, hr]
  | cons x xs ih =>
    unfold TSorted at hs
    rw [List.pairwise_cons] at hs
    obtain ⟨hx, hxs⟩ := hs
    have ih' := ih hxs
    rw [tupsert]
    split
    · next hk =>
      -- same key: `r` replaces `x`
      have hlt : ∀ y ∈ xs.filter p, lt (key r) (key y) = true := by
        intro y hy; rw [← hk]; exact hx y (List.mem_filter.mp hy).1
      simp only [List.filter_cons, hr, if_true]
      by_cases hpx : p x = true
      · simp [hpx, tupsert, hk]
      · have hpx' : p x = false := by simpa using hpx
        simp only [hpx', Bool.false_eq_true, if_false]
        exact (tupsert_of_lt_all o r _ hlt).symm
    · next hk =>
      split
      · next hlt =>
        -- `r` goes in front
        have hall : ∀ y ∈ (x :: xs).filter p, lt (key r) (key y) = true := by
          intro y hy
          rcases List.mem_cons.mp (List.mem_filter.mp hy).1 with rfl | hy'
          · exact hlt
          · exact o.trans _ _ _ hlt (hx y hy')
        rw [List.filter_cons, if_pos hr]
        exact (tupsert_of_lt_all o r _ hall).symm
      · next hlt =>
        simp only [List.filter_cons]
        by_cases hpx : p x = true
        · simp only [hpx, if_true]
          rw [ih', tupsert, if_neg hk, if_neg hlt]
        · have hpx' : p x = false := by simpa using hpx
          simp only [hpx', Bool.false_eq_true, if_false]
          exact ih'

theorem tupsert_comm {key : α → κ} {lt : κ → κ → Bool} (o : StrictTotal lt) {a b : α} {t : List α}
    (ht : TSorted key lt t) (hab : key a ≠ key b) :
    tupsert key lt a (tupsert key lt b t) = tupsert key lt b (tupsert key lt a t) := by
  have sa := tsorted_tupsert o a t ht
  have sb := tsorted_tupsert o b t ht
  refine tsorted_ext o (tsorted_tupsert o a _ sb) (tsorted_tupsert o b _ sa) (fun y => ?_)
  rw [mem_tupsert_iff o sb, mem_tupsert_iff o sa, mem_tupsert_iff o ht, mem_tupsert_iff o ht]
  constructor
  · rintro (rfl | ⟨rfl | ⟨h1, h2⟩, h3⟩)
    · exact Or.inr ⟨Or.inl rfl, hab⟩
    · exact Or.inl rfl
    · exact Or.inr ⟨Or.inr ⟨h1, h3⟩, h2⟩
  · rintro (rfl | ⟨rfl | ⟨h1, h2⟩, h3⟩)
    · exact Or.inr ⟨Or.inl rfl, fun e => hab e.symm⟩
    · exact Or.inl rfl
    · exact Or.inr ⟨Or.inr ⟨h1, h3⟩, h2⟩

end Tbl

/-! ### the session component of a `session_checks` key -/

theorem list_suffix_inj {α : Type} (z : α) (p p' s s' : List α) (hs : z ∉ s) (hs' : z ∉ s')
    (h : p ++ z :: s = p' ++ z :: s') : s = s' := by
  have h2 := congrArg List.reverse h
  simp only [List.reverse_append, List.reverse_cons, List.append_assoc, List.singleton_append] at h2
  have := (list_split_inj z s.reverse s'.reverse _ _ (by simpa using hs) (by simpa using hs') h2).1
  exact List.reverse_inj.mp this

theorem scpk_session {a b : SessCheck} (ha : NF a.session) (hb : NF b.session) (h : SessCheck.pk a = SessCheck.pk b) :
    lc a.session = lc b.session := by
  unfold SessCheck.pk at h
  have h2 := congrArg String.toList h
  simp only [String.toList_append, nul_toList] at h2
  have h3 : ((lc a.node).toList ++ [nulC] ++ (lc a.check).toList) ++ nulC :: (lc a.session).toList =
      ((lc b.node).toList ++ [nulC] ++ (lc b.check).toList) ++ nulC :: (lc b.session).toList := by
    simpa [List.append_assoc] using h2
  exact String.ext (list_suffix_inj nulC _ _ _ _ ha hb h3)

/-! ### `session_checks` is a function of the sessions table -/

/-- the links `insertSessionTxn` / `Restore.Session` write for one session -/
def linkS (x : Sess) (t : List SessCheck) : List SessCheck :=
  x.checks.foldl (fun t c => tupsert SessCheck.pk strLt ⟨x.node, c, x.id⟩ t) t

theorem deriveSC_cons (acc : List SessCheck) (x : Sess) (l : List Sess) :
    deriveSC acc (x :: l) = deriveSC (linkS x acc) l := rfl

theorem insertSession_sessChecks (s : State) (x : Sess) (i : Nat) :
    (insertSession s x i).sessChecks = linkS x s.sessChecks := rfl

/-- all links carry NUL-free session IDs -/
def ScNF (t : List SessCheck) : Prop := ∀ m ∈ t, NF m.session

/-- links of one (node, session) pair, for a list of check IDs -/
def linkL (node id : String) (cs : List String) (t : List SessCheck) : List SessCheck :=
  cs.foldl (fun t c => tupsert SessCheck.pk strLt ⟨node, c, id⟩ t) t

theorem linkS_eq (x : Sess) (t : List SessCheck) : linkS x t = linkL x.node x.id x.checks t := rfl

theorem linkL_sorted (node id : String) (cs : List String) {t : List SessCheck} (h : TSorted SessCheck.pk strLt t) :
    TSorted SessCheck.pk strLt (linkL node id cs t) := by
  induction cs generalizing t with
  | nil => exact h
  | cons c cs ih => exact ih (tsorted_tupsert strLt_ord _ _ h)

theorem linkL_nf (node id : String) (hid : NF id) (cs : List String) {t : List SessCheck} (h : ScNF t) :
    ScNF (linkL node id cs t) := by
  induction cs generalizing t with
  | nil => exact h
  | cons c cs ih =>
    refine ih ?_
    intro m hm
    rcases mem_tupsert hm with rfl | h1
    · exact hid
    · exact h m h1

/-- the links of two sessions with different IDs commute -/
theorem linkL_comm1 (n1 i1 : String) (c1 : String) (n2 i2 : String) (cs : List String) (h1 : NF i1) (h2 : NF i2)
    (hne : lc i1 ≠ lc i2) {t : List SessCheck} (ht : TSorted SessCheck.pk strLt t) :
    tupsert SessCheck.pk strLt ⟨n1, c1, i1⟩ (linkL n2 i2 cs t) = linkL n2 i2 cs (tupsert SessCheck.pk strLt ⟨n1, c1, i1⟩ t) := by
  induction cs generalizing t with
  | nil => rfl
  | cons c cs ih =>
    show tupsert SessCheck.pk strLt ⟨n1, c1, i1⟩ (linkL n2 i2 cs (tupsert SessCheck.pk strLt ⟨n2, c, i2⟩ t)) =
      linkL n2 i2 cs (tupsert SessCheck.pk strLt ⟨n2, c, i2⟩ (tupsert SessCheck.pk strLt ⟨n1, c1, i1⟩ t))
    rw [ih (tsorted_tupsert strLt_ord _ _ ht)]
    congr 1
    refine tupsert_comm strLt_ord ht ?_
    intro e
    exact hne (scpk_session (a := ⟨n1, c1, i1⟩) (b := ⟨n2, c, i2⟩) h1 h2 e)

theorem linkL_comm (n1 i1 : String) (cs1 : List String) (n2 i2 : String) (cs2 : List String) (h1 : NF i1) (h2 : NF i2)
    (hne : lc i1 ≠ lc i2) {t : List SessCheck} (ht : TSorted SessCheck.pk strLt t) :
    linkL n1 i1 cs1 (linkL n2 i2 cs2 t) = linkL n2 i2 cs2 (linkL n1 i1 cs1 t) := by
  induction cs1 generalizing t with
  | nil => rfl
  | cons c cs ih =>
    show linkL n1 i1 cs (tupsert SessCheck.pk strLt ⟨n1, c, i1⟩ (linkL n2 i2 cs2 t)) =
      linkL n2 i2 cs2 (linkL n1 i1 cs (tupsert SessCheck.pk strLt ⟨n1, c, i1⟩ t))
    rw [linkL_comm1 n1 i1 c n2 i2 cs2 h1 h2 hne ht, ih (tsorted_tupsert strLt_ord _ _ ht)]

theorem deriveSC_sorted (l : List Sess) {acc : List SessCheck} (h : TSorted SessCheck.pk strLt acc) :
    TSorted SessCheck.pk strLt (deriveSC acc l) := by
  induction l generalizing acc with
  | nil => exact h
  | cons x xs ih => rw [deriveSC_cons]; exact ih (linkL_sorted _ _ _ h)

/-- the links of a session whose ID is not in `l` can be written before or after those of `l` -/
theorem deriveSC_linkS (x : Sess) (hx : NF x.id) (l : List Sess) (hl : ∀ y ∈ l, NF y.id ∧ lc y.id ≠ lc x.id)
    {acc : List SessCheck} (ha : TSorted SessCheck.pk strLt acc) :
    deriveSC (linkS x acc) l = linkS x (deriveSC acc l) := by
  induction l generalizing acc with
  | nil => rfl
  | cons y ys ih =>
    obtain ⟨hy1, hy2⟩ := hl y List.mem_cons_self
    rw [deriveSC_cons, deriveSC_cons]
    rw [linkS_eq y, linkS_eq x, linkL_comm y.node y.id y.checks x.node x.id x.checks hy1 hx hy2 ha]
    exact ih (fun z hz => hl z (List.mem_cons_of_mem _ hz)) (linkL_sorted _ _ _ ha)

/-- inserting a session with a fresh ID adds exactly its links -/
theorem deriveSC_tupsert (x : Sess) (hx : NF x.id) (l : List Sess) (hl : ∀ y ∈ l, NF y.id ∧ lc y.id ≠ lc x.id)
    {acc : List SessCheck} (ha : TSorted SessCheck.pk strLt acc) :
    deriveSC acc (tupsert Sess.pk strLt x l) = linkS x (deriveSC acc l) := by
  induction l generalizing acc with
  | nil => rfl
  | cons y ys ih =>
    obtain ⟨hy1, hy2⟩ := hl y List.mem_cons_self
    have hne : Sess.pk y ≠ Sess.pk x := hy2
    rw [tupsert, if_neg hne]
    split
    · rw [deriveSC_cons]
      exact deriveSC_linkS x hx (y :: ys) hl ha
    · rw [deriveSC_cons, deriveSC_cons]
      exact ih (fun z hz => hl z (List.mem_cons_of_mem _ hz)) (linkL_sorted _ _ _ ha)

/-- the filter `dropSessionRefs` applies -/
def scKeep (id : String) (m : SessCheck) : Bool := lc m.session != lc id

theorem linkL_filter_neg (id node i : String) (hi : NF i) (he : lc i = lc id) (cs : List String) {t : List SessCheck} (hn : ScNF t) :
    (linkL node i cs t).filter (scKeep id) = t.filter (scKeep id) := by
  induction cs generalizing t with
  | nil => rfl
  | cons c cs ih =>
    show (linkL node i cs (tupsert SessCheck.pk strLt ⟨node, c, i⟩ t)).filter (scKeep id) = _
    have hn' : ScNF (tupsert SessCheck.pk strLt ⟨node, c, i⟩ t) := by
      intro m hm
      rcases mem_tupsert hm with rfl | h1
      · exact hi
      · exact hn m h1
    rw [ih hn']
    refine filter_tupsert_neg _ _ _ (by simp [scKeep, he]) ?_
    intro y hy hk
    have := scpk_session (hn y hy) (b := ⟨node, c, i⟩) hi hk
    simp [scKeep, this, he]

theorem linkL_filter_pos (id node i : String) (he : lc i ≠ lc id) (cs : List String) {t : List SessCheck}
    (hs : TSorted SessCheck.pk strLt t) :
    (linkL node i cs t).filter (scKeep id) = linkL node i cs (t.filter (scKeep id)) := by
  induction cs generalizing t with
  | nil => rfl
  | cons c cs ih =>
    show (linkL node i cs (tupsert SessCheck.pk strLt ⟨node, c, i⟩ t)).filter (scKeep id) =
      linkL node i cs (tupsert SessCheck.pk strLt ⟨node, c, i⟩ (t.filter (scKeep id)))
    rw [ih (tsorted_tupsert strLt_ord _ _ hs), filter_tupsert_pos strLt_ord _ _ _ hs (by simp [scKeep, he])]

/-- deleting a session removes exactly its links -/
theorem deriveSC_terase (id : String) (l : List Sess) (hl : ∀ y ∈ l, NF y.id) {acc : List SessCheck}
    (ha : TSorted SessCheck.pk strLt acc) (hn : ScNF acc) :
    (deriveSC acc l).filter (scKeep id) = deriveSC (acc.filter (scKeep id)) (terase Sess.pk (lc id) l) := by
  induction l generalizing acc with
  | nil => rfl
  | cons y ys ih =>
    have hy := hl y List.mem_cons_self
    have hys : ∀ z ∈ ys, NF z.id := fun z hz => hl z (List.mem_cons_of_mem _ hz)
    rw [deriveSC_cons, ih hys (acc := linkS y acc) (linkL_sorted _ _ _ ha) (linkL_nf _ _ hy _ hn)]
    unfold terase
    rw [List.filter_cons]
    by_cases he : lc y.id = lc id
    · have : (Sess.pk y != lc id) = false := by simp [Sess.pk, he]
      rw [this]
      simp only [Bool.false_eq_true, if_false]
      rw [linkS_eq, linkL_filter_neg id y.node y.id hy he _ hn]
    · have : (Sess.pk y != lc id) = true := by simp [Sess.pk, he]
      rw [this]
      simp only [if_true]
      rw [deriveSC_cons, linkS_eq, linkL_filter_pos id y.node y.id he _ ha]
      rfl

theorem scNF_deriveSC (l : List Sess) (hl : ∀ y ∈ l, NF y.id) {acc : List SessCheck} (hn : ScNF acc) :
    ScNF (deriveSC acc l) := by
  induction l generalizing acc with
  | nil => exact hn
  | cons y ys ih =>
    rw [deriveSC_cons]
    exact ih (fun z hz => hl z (List.mem_cons_of_mem _ hz)) (linkL_nf _ _ (hl y List.mem_cons_self) _ hn)

end CV.Store
