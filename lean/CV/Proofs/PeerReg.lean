/-
Helper lemmas for C17: where rows can come from (origin lemmas for the registration transactions and the
command runner) and which registrations the importer sends.
-/
import CV.Proofs.PeerSnap
set_option linter.unusedSectionVars false
set_option linter.unusedSimpArgs false
namespace CV.Peer

@[simp] theorem finishNode_svcs (c : Cat) (nd : Node) (f : Option Node) : (finishNode c nd f).svcs = c.svcs := by
  unfold finishNode; split
  · split <;> rfl
  · rfl
@[simp] theorem finishNode_chks (c : Cat) (nd : Node) (f : Option Node) : (finishNode c nd f).chks = c.chks := by
  unfold finishNode; split
  · split <;> rfl
  · rfl

theorem finishNode_origin (c : Cat) (nd : Node) (f : Option Node) :
    ∀ x ∈ (finishNode c nd f).nodes, x ∈ c.nodes ∨ x = nd := by
  intro x hx
  unfold finishNode at hx
  split at hx
  · split at hx
    · exact Or.inl hx
    · rcases mem_putNode.mp hx with h | h
      · exact Or.inr h
      · exact Or.inl h.1
  · rcases mem_putNode.mp hx with h | h
    · exact Or.inr h
    · exact Or.inl h.1

theorem ensureNode_origin {c c' : Cat} {nd : Node} (h : ensureNode c nd = .ok c') :
    (∀ x ∈ c'.nodes, x ∈ c.nodes ∨ x = nd) ∧ (∀ x ∈ c'.svcs, x ∈ c.svcs) ∧ (∀ x ∈ c'.chks, x ∈ c.chks) := by
  unfold ensureNode at h
  split at h
  · cases h; exact ⟨finishNode_origin _ _ _, by simp, by simp⟩
  · split at h
    · split at h
      · cases h; exact ⟨finishNode_origin _ _ _, by simp, by simp⟩
      · split at h
        · cases h
        · cases h
          rename_i n _ _ _
          have s := sub_delNode c n.peer n.name
          refine ⟨fun x hx => ?_, fun x hx => ?_, fun x hx => ?_⟩
          · rcases finishNode_origin _ _ _ x hx with h1 | h1
            · exact Or.inl (s.nodes x h1)
            · exact Or.inr h1
          · simp at hx; exact s.svcs x hx
          · simp at hx; exact s.chks x hx
    · split at h
      · cases h
      · cases h; exact ⟨finishNode_origin _ _ _, by simp, by simp⟩

theorem regNode_origin {c c' : Cat} {nd : Node} (h : regNode c nd = .ok c') :
    (∀ x ∈ c'.nodes, x ∈ c.nodes ∨ x = nd) ∧ (∀ x ∈ c'.svcs, x ∈ c.svcs) ∧ (∀ x ∈ c'.chks, x ∈ c.chks) := by
  unfold regNode at h
  split at h
  · split at h
    · exact ensureNode_origin h
    · cases h; exact ⟨fun x hx => Or.inl hx, fun x hx => hx, fun x hx => hx⟩
  · exact ensureNode_origin h

theorem regSvc_origin {c c' : Cat} {p n : String} {s : SvcDef} (h : regSvc c p n s = .ok c') :
    c'.nodes = c.nodes ∧ c'.chks = c.chks ∧ (∀ x ∈ c'.svcs, x ∈ c.svcs ∨ x = ⟨p, n, s.sid, s.name, s.port⟩) := by
  unfold regSvc at h
  split at h
  · cases h; exact ⟨rfl, rfl, fun x hx => Or.inl hx⟩
  · split at h
    · cases h
      refine ⟨rfl, rfl, fun x hx => ?_⟩
      rcases mem_putSvc.mp hx with h1 | h1
      · exact Or.inr h1
      · exact Or.inl h1.1
    · cases h

theorem upsertChk_origin (c : Cat) (row : Chk) :
    (upsertChk c row).nodes = c.nodes ∧ (upsertChk c row).svcs = c.svcs ∧
    (∀ x ∈ (upsertChk c row).chks, x ∈ c.chks ∨ x = row) := by
  unfold upsertChk
  split
  · split
    · exact ⟨rfl, rfl, fun x hx => Or.inl hx⟩
    · refine ⟨rfl, rfl, fun x hx => ?_⟩
      rcases mem_putChk.mp hx with h1 | h1
      · exact Or.inr h1
      · exact Or.inl h1.1
  · refine ⟨rfl, rfl, fun x hx => ?_⟩
    rcases mem_putChk.mp hx with h1 | h1
    · exact Or.inr h1
    · exact Or.inl h1.1

/-- the row a check definition turns into, up to the service name copied from the service row -/
def chkFrom (p : String) (k : ChkDef) (x : Chk) : Prop :=
  x.peer = p ∧ x.node = k.node ∧ x.cid = k.cid ∧ x.sid = k.sid ∧ x.status = normStatus k.status

theorem regChk_origin {c c' : Cat} {p rn : String} {k : ChkDef} (h : regChk c p rn k = .ok c') :
    c'.nodes = c.nodes ∧ c'.svcs = c.svcs ∧ (∀ x ∈ c'.chks, x ∈ c.chks ∨ chkFrom p k x) := by
  unfold regChk at h
  split at h
  · cases h
  · split at h
    · cases h
    · split at h
      · cases h
        obtain ⟨a, b, d⟩ := upsertChk_origin c ⟨p, k.node, k.cid, k.sid, k.sname, normStatus k.status⟩
        refine ⟨a, b, fun x hx => ?_⟩
        rcases d x hx with h1 | h1
        · exact Or.inl h1
        · subst h1; exact Or.inr ⟨rfl, rfl, rfl, rfl, rfl⟩
      · split at h
        · rename_i s _
          cases h
          obtain ⟨a, b, d⟩ := upsertChk_origin c ⟨p, k.node, k.cid, k.sid, s.name, normStatus k.status⟩
          refine ⟨a, b, fun x hx => ?_⟩
          rcases d x hx with h1 | h1
          · exact Or.inl h1
          · subst h1; exact Or.inr ⟨rfl, rfl, rfl, rfl, rfl⟩
        · cases h

theorem regChks_origin (ks : List ChkDef) {c c' : Cat} {p rn : String} (h : regChks c p rn ks = .ok c') :
    c'.nodes = c.nodes ∧ c'.svcs = c.svcs ∧ (∀ x ∈ c'.chks, x ∈ c.chks ∨ ∃ k ∈ ks, chkFrom p k x) := by
  induction ks generalizing c with
  | nil => simp [regChks] at h; subst h; exact ⟨rfl, rfl, fun x hx => Or.inl hx⟩
  | cons k ks ih =>
    simp only [regChks] at h
    split at h
    · rename_i c1 h1
      obtain ⟨a1, b1, d1⟩ := regChk_origin h1
      obtain ⟨a, b, d⟩ := ih h
      refine ⟨a.trans a1, b.trans b1, fun x hx => ?_⟩
      rcases d x hx with h2 | ⟨k', hk', h2⟩
      · rcases d1 x h2 with h3 | h3
        · exact Or.inl h3
        · exact Or.inr ⟨k, by simp, h3⟩
      · exact Or.inr ⟨k', by simp [hk'], h2⟩
    · cases h

/-- rows after one registration transaction are old rows or rows of the request -/
theorem register_origin {c c' : Cat} {r : RegReq} (h : register c r = .ok c') :
    (∀ x ∈ c'.nodes, x ∈ c.nodes ∨ x = ⟨r.peer, r.node.name, r.node.id, r.node.addr⟩) ∧
    (∀ x ∈ c'.svcs, x ∈ c.svcs ∨ ∃ sd, r.svc = some sd ∧ x = ⟨r.peer, r.node.name, sd.sid, sd.name, sd.port⟩) ∧
    (∀ x ∈ c'.chks, x ∈ c.chks ∨ ∃ k ∈ r.chks, chkFrom r.peer k x) := by
  unfold register at h
  split at h
  · cases h
  · rename_i c1 h1
    obtain ⟨n1, s1, k1⟩ := regNode_origin h1
    split at h
    · cases h
    · rename_i c2 h2
      obtain ⟨n3, s3, k3⟩ := regChks_origin _ h
      have h2' : c2.nodes = c1.nodes ∧ c2.chks = c1.chks ∧
          (∀ x ∈ c2.svcs, x ∈ c1.svcs ∨ ∃ sd, r.svc = some sd ∧ x = ⟨r.peer, r.node.name, sd.sid, sd.name, sd.port⟩) := by
        split at h2
        · rename_i sd hsd
          obtain ⟨a, b, d⟩ := regSvc_origin h2
          refine ⟨a, b, fun x hx => ?_⟩
          rcases d x hx with h4 | h4
          · exact Or.inl h4
          · exact Or.inr ⟨sd, hsd, h4⟩
        · cases h2; exact ⟨rfl, rfl, fun x hx => Or.inl hx⟩
      obtain ⟨n2, k2, s2⟩ := h2'
      refine ⟨fun x hx => ?_, fun x hx => ?_, fun x hx => ?_⟩
      · rw [n3, n2] at hx; exact n1 x hx
      · rw [s3] at hx
        rcases s2 x hx with h4 | h4
        · exact Or.inl (s1 x h4)
        · exact Or.inr h4
      · rcases k3 x hx with h4 | h4
        · rw [k2] at h4; exact Or.inl (k1 x h4)
        · exact Or.inr h4

theorem applyOp_origin {c c' : Cat} {o : Op} (h : applyOp c o = .ok c') :
    (∀ x ∈ c'.nodes, x ∈ c.nodes ∨ ∃ r, o = .reg r ∧ x = ⟨r.peer, r.node.name, r.node.id, r.node.addr⟩) ∧
    (∀ x ∈ c'.svcs, x ∈ c.svcs ∨ ∃ r sd, o = .reg r ∧ r.svc = some sd ∧ x = ⟨r.peer, r.node.name, sd.sid, sd.name, sd.port⟩) ∧
    (∀ x ∈ c'.chks, x ∈ c.chks ∨ ∃ r, o = .reg r ∧ ∃ k ∈ r.chks, chkFrom r.peer k x) := by
  cases o with
  | reg r =>
    obtain ⟨a, b, d⟩ := register_origin h
    refine ⟨fun x hx => ?_, fun x hx => ?_, fun x hx => ?_⟩
    · rcases a x hx with h1 | h1
      · exact Or.inl h1
      · exact Or.inr ⟨r, rfl, h1⟩
    · rcases b x hx with h1 | ⟨sd, h1, h2⟩
      · exact Or.inl h1
      · exact Or.inr ⟨r, sd, rfl, h1, h2⟩
    · rcases d x hx with h1 | h1
      · exact Or.inl h1
      · exact Or.inr ⟨r, rfl, h1⟩
  | deregSvc p n i =>
    simp only [applyOp, Except.ok.injEq] at h; subst h
    have s := sub_delSvc c p n i
    exact ⟨fun x hx => Or.inl (s.nodes x hx), fun x hx => Or.inl (s.svcs x hx), fun x hx => Or.inl (s.chks x hx)⟩
  | deregChk p n k =>
    simp only [applyOp, Except.ok.injEq] at h; subst h
    have s := sub_delChk c p n k
    exact ⟨fun x hx => Or.inl (s.nodes x hx), fun x hx => Or.inl (s.svcs x hx), fun x hx => Or.inl (s.chks x hx)⟩
  | deregNode p n =>
    simp only [applyOp, Except.ok.injEq] at h; subst h
    have s := sub_delNode c p n
    exact ⟨fun x hx => Or.inl (s.nodes x hx), fun x hx => Or.inl (s.svcs x hx), fun x hx => Or.inl (s.chks x hx)⟩

/-- every row after a command list is an old row or a row of one of the registrations sent -/
theorem runOps_origin (ops : List Op) (c : Cat) :
    (∀ x ∈ (runOps c ops).1.nodes, x ∈ c.nodes ∨ ∃ r, .reg r ∈ ops ∧ x = ⟨r.peer, r.node.name, r.node.id, r.node.addr⟩) ∧
    (∀ x ∈ (runOps c ops).1.svcs, x ∈ c.svcs ∨
        ∃ r sd, .reg r ∈ ops ∧ r.svc = some sd ∧ x = ⟨r.peer, r.node.name, sd.sid, sd.name, sd.port⟩) ∧
    (∀ x ∈ (runOps c ops).1.chks, x ∈ c.chks ∨ ∃ r, .reg r ∈ ops ∧ ∃ k ∈ r.chks, chkFrom r.peer k x) := by
  induction ops generalizing c with
  | nil => exact ⟨fun x hx => Or.inl hx, fun x hx => Or.inl hx, fun x hx => Or.inl hx⟩
  | cons o os ih =>
    simp only [runOps]
    split
    · exact ⟨fun x hx => Or.inl hx, fun x hx => Or.inl hx, fun x hx => Or.inl hx⟩
    · rename_i c1 h1
      obtain ⟨a1, b1, d1⟩ := applyOp_origin h1
      obtain ⟨a, b, d⟩ := ih c1
      refine ⟨fun x hx => ?_, fun x hx => ?_, fun x hx => ?_⟩
      · rcases a x hx with h2 | ⟨r, hr, h2⟩
        · rcases a1 x h2 with h3 | ⟨r, hr, h3⟩
          · exact Or.inl h3
          · exact Or.inr ⟨r, by simp [hr], h3⟩
        · exact Or.inr ⟨r, by simp [hr], h2⟩
      · rcases b x hx with h2 | ⟨r, sd, hr, h2⟩
        · rcases b1 x h2 with h3 | ⟨r, sd, hr, h3⟩
          · exact Or.inl h3
          · exact Or.inr ⟨r, sd, by simp [hr], h3⟩
        · exact Or.inr ⟨r, sd, by simp [hr], h2⟩
      · rcases d x hx with h2 | ⟨r, hr, h2⟩
        · rcases d1 x h2 with h3 | ⟨r, hr, h3⟩
          · exact Or.inl h3
          · exact Or.inr ⟨r, by simp [hr], h3⟩
        · exact Or.inr ⟨r, by simp [hr], h2⟩

/-- the registrations sent for one snapshot node carry that node, one of its services, or some of its checks -/
theorem regOpsNode_shape (p : String) (st : List CSN) (nd : SNode) (r : RegReq)
    (h : Op.reg r ∈ regOpsNode p st nd) :
    r.peer = p ∧ r.node = nd.node ∧ (∀ sd, r.svc = some sd → ∃ ss ∈ nd.svcs, ss.svc = sd ∧ r.chks = []) ∧
    (∀ k ∈ r.chks, ∃ ss ∈ nd.svcs, k ∈ ss.chks ∧ r.svc = none) := by
  simp only [regOpsNode, List.mem_append, List.mem_map, List.mem_filter] at h
  rcases h with (h | h) | h
  · split at h
    · cases h
    · simp only [List.mem_singleton, Op.reg.injEq] at h; subst h
      exact ⟨rfl, rfl, by simp, by simp⟩
  · obtain ⟨ss, ⟨hss, _⟩, h⟩ := h
    simp only [Op.reg.injEq] at h; subst h
    exact ⟨rfl, rfl, fun sd hsd => ⟨ss, hss, by simpa using hsd, rfl⟩, by simp⟩
  · split at h
    · cases h
    · simp only [List.mem_singleton, Op.reg.injEq] at h; subst h
      refine ⟨rfl, rfl, by simp, fun k hk => ?_⟩
      simp only [List.mem_flatMap, List.mem_filter] at hk
      obtain ⟨ss, hss, hk, _⟩ := hk
      exact ⟨ss, hss, hk, rfl⟩

theorem regOps_shape (p : String) (st : List CSN) (snap : Snap) (r : RegReq)
    (h : Op.reg r ∈ snap.flatMap (regOpsNode p st)) :
    ∃ nd ∈ snap, r.peer = p ∧ r.node = nd.node ∧ (∀ sd, r.svc = some sd → ∃ ss ∈ nd.svcs, ss.svc = sd ∧ r.chks = []) ∧
    (∀ k ∈ r.chks, ∃ ss ∈ nd.svcs, k ∈ ss.chks ∧ r.svc = none) := by
  simp only [List.mem_flatMap] at h
  obtain ⟨nd, hnd, h⟩ := h
  exact ⟨nd, hnd, regOpsNode_shape p st nd r h⟩

end CV.Peer
