/-
Usage counters, the targets (round 2): `services`, `connect-mesh-<kind>`, `connect-mesh-connect-native`,
`config-entries-<kind>` are exact in every reachable state.
-/
import CV.Proofs.StoreCatUsageG
import CV.Proofs.StoreCatStr
import CV.Proofs.StoreCatSync
namespace CV.Store
open CV

/-! ### ids -/

def OkFor (c id : String) : Prop := id = c ∨ lc id ≠ lc c

theorem raw_inj {k k' : Kind} (h : k.raw = k'.raw) : k = k' := by
  cases k <;> cases k' <;> first | rfl | (exact absurd h (by decide))

theorem raw_ne_native (k : Kind) : k.raw ≠ "connect-native" := by cases k <;> decide

theorem lc_raw (k : Kind) : lc k.raw = k.raw := by
  cases k <;> exact lc_of_toList _ _ (by decide)

theorem lc_native : lc "connect-native" = "connect-native" := lc_of_toList _ _ (by decide)
theorem lc_cm : lc "connect-mesh-" = "connect-mesh-" := lc_of_toList _ _ (by decide)
theorem lc_ce' : lc "config-entries-" = "config-entries-" := lc_of_toList _ _ (by decide)

theorem cun_inj {a b : String} (h : connectUsageName a = connectUsageName b) : a = b := append_cancel_left h

@[simp] theorem cun_raw_eq (k k' : Kind) : connectUsageName k.raw = connectUsageName k'.raw ↔ k = k' :=
  ⟨fun h => raw_inj (cun_inj h), fun h => by rw [h]⟩
@[simp] theorem cun_native_raw (k : Kind) : connectUsageName "connect-native" = connectUsageName k.raw ↔ False :=
  ⟨fun h => raw_ne_native k (cun_inj h).symm, False.elim⟩
@[simp] theorem cun_raw_native (k : Kind) : connectUsageName k.raw = connectUsageName "connect-native" ↔ False :=
  ⟨fun h => raw_ne_native k (cun_inj h), False.elim⟩

theorem lc_cun (x : String) : lc (connectUsageName x) = connectUsageName (lc x) := by
  unfold connectUsageName; rw [lc_append, lc_cm]

theorem cun_head (x : String) : (connectUsageName x).toList = 'c' :: ("onnect-mesh-".toList ++ x.toList) := by
  unfold connectUsageName; rw [String.toList_append]; rfl

theorem cfgid_head (x : String) : ("config-entries-" ++ x).toList = 'c' :: 'o' :: 'n' :: 'f' :: ("ig-entries-".toList ++ x.toList) := by
  rw [String.toList_append]; rfl

theorem cun_ne_cfgid (a b : String) : connectUsageName a ≠ "config-entries-" ++ b := by
  apply str_ne_of_toList_ne
  rw [cfgid_head]
  unfold connectUsageName
  rw [String.toList_append]
  show 'c' :: 'o' :: 'n' :: 'n' :: _ ≠ _
  intro h; injection h with _ h; injection h with _ h; injection h with _ h; injection h with h _
  exact absurd h (by decide)


/-! ### the ids of a transaction's delta map do not collide with the target -/

structure IdsOk (c : String) : Prop where
  nodes : OkFor c "nodes"
  services : OkFor c "services"
  kvs : OkFor c "kvs"
  names : OkFor c "service-names"
  billable : OkFor c billableName
  conn : ∀ k : Kind, OkFor c (connectUsageName k.raw)
  native : OkFor c (connectUsageName "connect-native")

theorem changesOf_mem {α κ : Type} [DecidableEq α] [DecidableEq κ] {key : α → κ} {pre post : List α} {ch : Option α × Option α}
    (h : ch ∈ changesOf key pre post) : (∀ r, ch.1 = some r → r ∈ pre) ∧ (∀ r, ch.2 = some r → r ∈ post) := by
  rw [changesOf_eqG] at h
  rcases List.mem_append.mp h with h | h
  · obtain ⟨a, ha, hd⟩ := List.mem_filterMap.mp h
    unfold delG at hd
    cases hq : tfind key (key a) post with
    | none =>
      rw [hq] at hd; simp at hd; subst hd
      exact ⟨fun r hr => by simp at hr; exact hr ▸ ha, fun r hr => by simp at hr⟩
    | some b =>
      rw [hq] at hd
      simp only at hd
      split at hd
      · simp at hd
      · simp at hd; subst hd
        exact ⟨fun r hr => by simp at hr; exact hr ▸ ha, fun r hr => by simp at hr; exact hr ▸ (tfind_some hq).1⟩
  · obtain ⟨b, hb, hd⟩ := List.mem_filterMap.mp h
    unfold creG at hd
    cases hq : tfind key (key b) pre with
    | none =>
      rw [hq] at hd; simp at hd; subst hd
      exact ⟨fun r hr => by simp at hr, fun r hr => by simp at hr; exact hr ▸ hb⟩
    | some a => rw [hq] at hd; simp at hd

theorem goodFor_countDeltas {α : Type} (c : String) (idf : α → String) : ∀ (chs : List (Option α × Option α)) (d : Deltas),
    (∀ ch ∈ chs, ∀ r, (ch.1 = some r ∨ ch.2 = some r) → OkFor c (idf r)) → GoodFor c d → GoodFor c (countDeltas idf d chs) := by
  intro chs
  induction chs with
  | nil => intro d _ h; exact h
  | cons ch rest ih =>
    intro d hid h
    have hrest := fun x hx => hid x (List.mem_cons_of_mem _ hx)
    obtain ⟨b, a⟩ := ch
    cases a with
    | some a' => simp only [countDeltas]; exact ih _ hrest (h.add (hid _ List.mem_cons_self a' (Or.inr rfl)) _)
    | none =>
      cases b with
      | some b' => simp only [countDeltas]; exact ih _ hrest (h.add (hid _ List.mem_cons_self b' (Or.inl rfl)) _)
      | none => simp only [countDeltas]; exact ih _ hrest h

theorem goodFor_connectDeltas {c : String} (hc : IdsOk c) (d : Deltas) (ch : Option (Svc × SvcX) × Option (Svc × SvcX))
    (h : GoodFor c d) : GoodFor c (connectDeltas d ch) := by
  obtain ⟨b, a⟩ := ch
  cases b <;> cases a <;> simp only [connectDeltas]
  all_goals (repeat' split)
  all_goals (repeat (first | exact h | refine GoodFor.add ?_ (hc.conn _) _ | refine GoodFor.add ?_ hc.native _))

theorem goodFor_billableDeltas {c : String} (hc : IdsOk c) (d : Deltas) (ch : Option (Svc × SvcX) × Option (Svc × SvcX))
    (h : GoodFor c d) : GoodFor c (billableDeltas d ch) := by
  obtain ⟨b, a⟩ := ch
  cases b <;> cases a <;> simp only [billableDeltas]
  all_goals (repeat' split)
  all_goals (repeat (first | exact h | refine GoodFor.add ?_ hc.billable _))

theorem goodFor_serviceDeltas {c : String} (hc : IdsOk c) : ∀ (chs : List (Option (Svc × SvcX) × Option (Svc × SvcX))) (d m : Deltas),
    GoodFor c d → GoodFor c (serviceDeltas (d, m) chs).1 := by
  intro chs
  induction chs with
  | nil => intro d m h; exact h
  | cons ch rest ih =>
    intro d m h
    simp only [serviceDeltas]
    exact ih _ _ (goodFor_billableDeltas hc _ _ (goodFor_connectDeltas hc _ _ (h.add hc.services _)))

theorem goodFor_serviceNameDeltas {c : String} (hc : IdsOk c) (post : Cat) : ∀ (m d : Deltas), GoodFor c d →
    GoodFor c (serviceNameDeltas post d m) := by
  intro m
  induction m with
  | nil => intro d h; exact h
  | cons e rest ih =>
    intro d h
    obtain ⟨name, delta⟩ := e
    simp only [serviceNameDeltas]
    apply ih
    repeat' split
    all_goals (first | exact h | exact h.add hc.names _)

theorem goodFor_usageDeltas {c : String} (hc : IdsOk c) (pre post : XState)
    (hcfg : ∀ r, (r ∈ pre.cfg ∨ r ∈ post.cfg) → OkFor c ("config-entries-" ++ r.kind)) : GoodFor c (usageDeltas pre post) := by
  unfold usageDeltas
  simp only
  apply goodFor_serviceNameDeltas hc
  refine goodFor_countDeltas c (fun (r : CfgRow) => "config-entries-" ++ r.kind) _ _ ?_ ?_
  · intro ch hch r hr
    obtain ⟨m1, m2⟩ := changesOf_mem hch
    rcases hr with hr | hr
    · exact hcfg r (Or.inl (m1 r hr))
    · exact hcfg r (Or.inr (m2 r hr))
  refine goodFor_countDeltas c (fun (_ : KV) => "kvs") _ _ (fun _ _ _ _ => hc.kvs) ?_
  generalize hsd : serviceDeltas (countDeltas (fun (_ : Node) => "nodes") [] (changesOf Node.pk pre.loc.st.nodes post.loc.st.nodes), [])
    (changesOf (fun r => Svc.pk r.1) pre.loc.rows post.loc.rows) = sd
  have := goodFor_serviceDeltas hc (changesOf (fun r => Svc.pk r.1) pre.loc.rows post.loc.rows)
    (countDeltas (fun (_ : Node) => "nodes") [] (changesOf Node.pk pre.loc.st.nodes post.loc.st.nodes)) []
    (goodFor_countDeltas c _ _ _ (fun _ _ _ _ => hc.nodes) (GoodFor.nil c))
  rw [hsd] at this
  obtain ⟨d1, m⟩ := sd
  exact this

/-! ### the generic step: a counter that tracks the total weight of a table -/

/-- if the delta map is good for `c` and its value at `c` is the growth `g`, the counter moves by `g` -/
theorem usage_step_generic {s : XState} (idx : Nat) (cmd : XCmd) (c : String) (oldW newW : Nat)
    (hgood : GoodFor c (usageDeltas s (stepX s idx cmd).1))
    (hd : dval (usageDeltas s (stepX s idx cmd).1) c = (newW : Int) - (oldW : Int))
    (h : usageGet s c = oldW) : usageGet (applyX s idx cmd).1 c = newW := by
  have e : (applyX s idx cmd).1 = commitUsage s (stepX s idx cmd).1 idx := rfl
  rw [e]
  have hu : (stepX s idx cmd).1.usage = s.usage := usage_stepX s idx cmd
  show usageCount (writeUsage idx (stepX s idx cmd).1.usage (usageDeltas s (stepX s idx cmd).1)) c = newW
  rw [writeUsage_getG idx c _ _ hgood, hd, hu]
  rw [usageGet_eq] at h
  rw [h]
  have : ((oldW : Nat) : Int) + ((newW : Int) - (oldW : Int)) = ((newW : Nat) : Int) := by omega
  rw [this, Int.toNat_natCast]


/-! ### what one service change adds at a target id -/

theorem svcStep_dval (ch : Option (Svc × SvcX) × Option (Svc × SvcX)) (c : String) :
    dval (svcStep ch []) c = (if "services" = c then changeDelta ch else 0) + dval (connectDeltas [] ch) c + dval (billableDeltas [] ch) c := by
  unfold svcStep
  have h1 := additive_billableDeltas ch (connectDeltas (addDelta [] "services" (changeDelta ch)) ch) c
  have h2 := additive_connectDeltas ch (addDelta [] "services" (changeDelta ch)) c
  simp only at h1 h2
  rw [h1, h2, dval_addDelta, dval_nil]
  omega

theorem billable_other (ch : Option (Svc × SvcX) × Option (Svc × SvcX)) {c : String} (hc : billableName ≠ c) :
    dval (billableDeltas [] ch) c = 0 := by
  obtain ⟨b, a⟩ := ch
  cases b <;> cases a <;> simp only [billableDeltas]
  all_goals (repeat' split)
  all_goals (simp only [dval_addDelta, dval_nil, if_neg hc]; try omega)

theorem connect_other (ch : Option (Svc × SvcX) × Option (Svc × SvcX)) {c : String} (hc : ∀ x, connectUsageName x ≠ c) :
    dval (connectDeltas [] ch) c = 0 := by
  obtain ⟨b, a⟩ := ch
  cases b <;> cases a <;> simp only [connectDeltas]
  all_goals (repeat' split)
  all_goals (simp only [dval_addDelta, dval_nil, if_neg (hc _)]; try omega)

def kindW (k : Kind) (r : Svc × SvcX) : Int := if r.2.kind = k then 1 else 0
def nativeW (r : Svc × SvcX) : Int := if r.2.native = true then 1 else 0

theorem connect_kind (ch : Option (Svc × SvcX) × Option (Svc × SvcX)) (k : Kind) (hk : k ≠ .typical) :
    dval (connectDeltas [] ch) (connectUsageName k.raw) = optW (kindW k) ch.2 - optW (kindW k) ch.1 := by
  obtain ⟨b, a⟩ := ch
  cases b <;> cases a <;> simp only [connectDeltas, optW, kindW]
  all_goals (repeat' split)
  all_goals (simp only [dval_addDelta, dval_nil, cun_raw_eq, cun_native_raw, if_false])
  all_goals (repeat' split)
  all_goals (first | omega | grind)

theorem connect_native (ch : Option (Svc × SvcX) × Option (Svc × SvcX)) :
    dval (connectDeltas [] ch) (connectUsageName "connect-native") = optW nativeW ch.2 - optW nativeW ch.1 := by
  obtain ⟨b, a⟩ := ch
  cases b <;> cases a <;> simp only [connectDeltas, optW, nativeW]
  all_goals (repeat' split)
  all_goals (simp only [dval_addDelta, dval_nil, cun_raw_native, if_false, if_true])
  all_goals (first | omega | grind)


/-! ### assembling the delta at a target -/

theorem sum_map_wSum {α : Type} (w : α → Int) (f : Option α × Option α → Int) (hf : ∀ ch, f ch = optW w ch.2 - optW w ch.1) :
    ∀ (chs : List (Option α × Option α)), (chs.map f).sum = wSum w chs := by
  intro chs
  induction chs with
  | nil => rfl
  | cons ch rest ih => simp only [List.map_cons, List.sum_cons, wSum, ih, hf]

theorem countDeltas_other_dval {α : Type} (idf : α → String) (c : String) (hc : ∀ a, idf a ≠ c) (chs : List (Option α × Option α)) :
    dval (countDeltas idf [] chs) c = 0 := by
  unfold dval; rw [countDeltas_other_get idf c hc]; rfl

theorem serviceNameDeltas_other_dval (post : Cat) {c : String} (hc : "service-names" ≠ c) : ∀ (m : Deltas),
    dval (serviceNameDeltas post [] m) c = 0 := by
  intro m
  induction m with
  | nil => rfl
  | cons e rest ih =>
    obtain ⟨name, delta⟩ := e
    simp only [serviceNameDeltas]
    rw [additive_serviceNameDeltas post rest _ c, ih]
    repeat' split
    all_goals (simp only [dval_addDelta, dval_nil, if_neg hc]; try omega)

theorem rows_sublist_keys (c : Cat) : (c.rows.map fun r => Svc.pk r.1).Sublist (c.st.svcs.map Svc.pk) := by
  unfold Cat.rows
  generalize c.st.svcs = l
  induction l with
  | nil => exact List.Sublist.refl _
  | cons v rest ih =>
    simp only [List.filterMap_cons, List.map_cons]
    cases tfind SvcX.pk v.pk c.ext with
    | none => exact List.Sublist.cons _ ih
    | some e => simp only [Option.map_some, List.map_cons]; exact List.Sublist.cons₂ _ ih

theorem rows_keys_nodup {c : Cat} (h : SortedBy Svc.pk c.st.svcs) : (c.rows.map fun r => Svc.pk r.1).Nodup :=
  List.Nodup.sublist (rows_sublist_keys c) (sortedBy_keys_nodup h)

theorem listSum_one {α : Type} (l : List α) : listSum (fun _ => (1 : Int)) l = (l.length : Int) := by
  induction l with
  | nil => rfl
  | cons x xs ih => simp only [listSum, ih, List.length_cons]; omega

theorem listSum_ind {α : Type} (p : α → Bool) (l : List α) :
    listSum (fun r => if p r = true then (1 : Int) else 0) l = ((l.filter p).length : Int) := by
  induction l with
  | nil => rfl
  | cons x xs ih =>
    simp only [listSum, ih, List.filter_cons]
    split <;> simp <;> omega

theorem lc_lit_services : lc "services" = "services" := lc_of_toList _ _ (by decide)

theorem okFor_of_lc_ne {c id : String} (h : lc id ≠ lc c) : OkFor c id := Or.inr h

theorem idsOk_services : IdsOk "services" where
  nodes := Or.inr (by rw [lc_of_toList "nodes" "nodes" (by decide), lc_lit_services]; decide)
  services := Or.inl rfl
  kvs := Or.inr (by rw [lc_of_toList "kvs" "kvs" (by decide), lc_lit_services]; decide)
  names := Or.inr (by rw [lc_of_toList "service-names" "service-names" (by decide), lc_lit_services]; decide)
  billable := Or.inr (by rw [lc_of_toList billableName billableName (by decide), lc_lit_services]; decide)
  conn := fun k => Or.inr (by
    rw [lc_cun, lc_raw, lc_lit_services]
    exact str_ne_of_head (cun_head _) (by decide : "services".toList = 's' :: "ervices".toList) (by decide))
  native := Or.inr (by
    rw [lc_cun, lc_native, lc_lit_services]
    exact str_ne_of_head (cun_head _) (by decide : "services".toList = 's' :: "ervices".toList) (by decide))

theorem cfgid_ne_of_head (k : String) {c : String} {y : Char} {ys : List Char} (hc : (lc c).toList = y :: ys) (hy : y ≠ 'c') :
    lc ("config-entries-" ++ k) ≠ lc c := by
  rw [lc_append, lc_ce']
  exact str_ne_of_head (cfgid_head _) hc (fun h => hy h.symm)

/-- the delta of a transaction at `services`: the growth of the joined service table -/
theorem usageDeltas_services (pre post : XState) (h1 : SortedBy Svc.pk pre.loc.st.svcs) (h2 : SortedBy Svc.pk post.loc.st.svcs) :
    dval (usageDeltas pre post) "services" = (post.loc.rows.length : Int) - (pre.loc.rows.length : Int) := by
  rw [usageDeltas_dval]
  rw [countDeltas_const_dval "nodes" "services", if_neg (by decide),
    countDeltas_const_dval "kvs" "services", if_neg (by decide),
    countDeltas_other_dval (fun (r : CfgRow) => "config-entries-" ++ r.kind) "services"
      (fun r => str_ne_of_head (cfgid_head _) (by decide : "services".toList = 's' :: "ervices".toList) (by decide)),
    serviceNameDeltas_other_dval _ (by decide)]
  rw [sum_map_wSum (fun _ => 1) _ (fun ch => by
    rw [svcStep_dval, connect_other ch (fun x => str_ne_of_head (cun_head x) (by decide : "services".toList = 's' :: "ervices".toList) (by decide)),
      billable_other ch (by decide)]
    obtain ⟨b, a⟩ := ch
    cases b <;> cases a <;> simp [changeDelta, optW])]
  rw [wSum_changesOf _ _ _ _ (rows_keys_nodup h1) (rows_keys_nodup h2), listSum_one, listSum_one]
  omega

theorem usage_services_applyX {s : XState} (idx : Nat) (c : XCmd) (hwf : c.wf) (hs : CatOK s) (hy : SyncAll s)
    (h : usageGet s "services" = s.loc.st.svcs.length) :
    usageGet (applyX s idx c).1 "services" = (applyX s idx c).1.loc.st.svcs.length := by
  have hpost : CatOK (stepX s idx c).1 := catOK_stepX idx c hwf hs
  have hypost : SyncAll (stepX s idx c).1 := syncAll_stepX idx c hy
  have s1 : SortedBy Svc.pk s.loc.st.svcs := by have := (hs.orphan "").srt_svcs; rw [← loc_eq_cat] at this; exact this
  have s2 : SortedBy Svc.pk (stepX s idx c).1.loc.st.svcs := by
    have := (hpost.orphan "").srt_svcs; rw [← loc_eq_cat] at this; exact this
  have r1 : s.loc.rows.length = s.loc.st.svcs.length := by have := hy ""; rw [← loc_eq_cat] at this; exact rows_length_of_sync this
  have r2 : (stepX s idx c).1.loc.rows.length = (stepX s idx c).1.loc.st.svcs.length := by
    have := hypost ""; rw [← loc_eq_cat] at this; exact rows_length_of_sync this
  have hcfg : ∀ r, (r ∈ s.cfg ∨ r ∈ (stepX s idx c).1.cfg) → OkFor "services" ("config-entries-" ++ r.kind) := fun r _ =>
    Or.inr (cfgid_ne_of_head r.kind (by rw [lc_lit_services]; decide : (lc "services").toList = 's' :: "ervices".toList) (by decide))
  show usageGet (applyX s idx c).1 "services" = (stepX s idx c).1.loc.st.svcs.length
  exact usage_step_generic idx c "services" _ _ (goodFor_usageDeltas idsOk_services _ _ hcfg)
    (by rw [usageDeltas_services s _ s1 s2, r1, r2]) h


/-! ### the connect counters -/

/-- the delta at a target that only the service changes feed, with weight `w` per joined row -/
theorem usageDeltas_svcTarget (pre post : XState) (c : String) (w : Svc × SvcX → Int)
    (h1 : SortedBy Svc.pk pre.loc.st.svcs) (h2 : SortedBy Svc.pk post.loc.st.svcs)
    (hn : "nodes" ≠ c) (hk : "kvs" ≠ c) (hcf : ∀ k, "config-entries-" ++ k ≠ c) (hsn : "service-names" ≠ c)
    (hstep : ∀ ch, dval (svcStep ch []) c = optW w ch.2 - optW w ch.1) :
    dval (usageDeltas pre post) c = listSum w post.loc.rows - listSum w pre.loc.rows := by
  rw [usageDeltas_dval]
  rw [countDeltas_const_dval "nodes" c, if_neg hn, countDeltas_const_dval "kvs" c, if_neg hk,
    countDeltas_other_dval (fun (r : CfgRow) => "config-entries-" ++ r.kind) c (fun r => hcf r.kind),
    serviceNameDeltas_other_dval _ hsn, sum_map_wSum w _ hstep,
    wSum_changesOf _ _ _ _ (rows_keys_nodup h1) (rows_keys_nodup h2)]
  omega

theorem cun_ne_lit (x : String) {l : String} {y : Char} {ys : List Char} (hl : l.toList = y :: ys) (hy : y ≠ 'c') :
    l ≠ connectUsageName x := fun h => str_ne_of_head hl (cun_head x) hy h

theorem idsOk_cun {x : String} (hx : lc x = x) (hconn : ∀ k : Kind, OkFor (connectUsageName x) (connectUsageName k.raw))
    (hnat : OkFor (connectUsageName x) (connectUsageName "connect-native")) : IdsOk (connectUsageName x) where
  nodes := Or.inr (by rw [lc_of_toList "nodes" "nodes" (by decide), lc_cun, hx]
                      exact cun_ne_lit x (by decide : "nodes".toList = 'n' :: "odes".toList) (by decide))
  services := Or.inr (by rw [lc_lit_services, lc_cun, hx]
                         exact cun_ne_lit x (by decide : "services".toList = 's' :: "ervices".toList) (by decide))
  kvs := Or.inr (by rw [lc_of_toList "kvs" "kvs" (by decide), lc_cun, hx]
                    exact cun_ne_lit x (by decide : "kvs".toList = 'k' :: "vs".toList) (by decide))
  names := Or.inr (by rw [lc_of_toList "service-names" "service-names" (by decide), lc_cun, hx]
                      exact cun_ne_lit x (by decide : "service-names".toList = 's' :: "ervice-names".toList) (by decide))
  billable := Or.inr (by rw [lc_of_toList billableName billableName (by decide), lc_cun, hx]
                         exact cun_ne_lit x (by decide : billableName.toList = 'b' :: "illable-services".toList) (by decide))
  conn := hconn
  native := hnat

theorem idsOk_cun_kind (k0 : Kind) : IdsOk (connectUsageName k0.raw) :=
  idsOk_cun (lc_raw k0)
    (fun k => by
      by_cases h : k = k0
      · exact Or.inl (by rw [h])
      · exact Or.inr (by rw [lc_cun, lc_cun, lc_raw, lc_raw]; exact fun hh => h ((cun_raw_eq _ _).mp hh)))
    (Or.inr (by rw [lc_cun, lc_cun, lc_raw, lc_native]; exact fun hh => (cun_native_raw k0).mp hh))

theorem idsOk_cun_native : IdsOk (connectUsageName "connect-native") :=
  idsOk_cun lc_native
    (fun k => Or.inr (by rw [lc_cun, lc_cun, lc_raw, lc_native]; exact fun hh => (cun_raw_native k).mp hh))
    (Or.inl rfl)

theorem cfg_okFor_cun (x : String) (hx : lc x = x) (k : String) : OkFor (connectUsageName x) ("config-entries-" ++ k) :=
  Or.inr (by rw [lc_append, lc_ce', lc_cun, hx]; exact fun h => cun_ne_cfgid x (lc k) h.symm)

/-- generic step for a counter of joined rows with a 0/1 weight -/
theorem usage_svcTarget_applyX {s : XState} (idx : Nat) (cmd : XCmd) (hwf : cmd.wf) (hs : CatOK s)
    (c : String) (p : Svc × SvcX → Bool) (hids : IdsOk c) (hcfgok : ∀ k, OkFor c ("config-entries-" ++ k))
    (hn : "nodes" ≠ c) (hk : "kvs" ≠ c) (hcf : ∀ k, "config-entries-" ++ k ≠ c) (hsn : "service-names" ≠ c)
    (hstep : ∀ ch, dval (svcStep ch []) c =
      optW (fun r => if p r = true then (1 : Int) else 0) ch.2 - optW (fun r => if p r = true then (1 : Int) else 0) ch.1)
    (h : usageGet s c = (s.loc.rows.filter p).length) :
    usageGet (applyX s idx cmd).1 c = ((applyX s idx cmd).1.loc.rows.filter p).length := by
  have hpost : CatOK (stepX s idx cmd).1 := catOK_stepX idx cmd hwf hs
  have s1 : SortedBy Svc.pk s.loc.st.svcs := by have := (hs.orphan "").srt_svcs; rw [← loc_eq_cat] at this; exact this
  have s2 : SortedBy Svc.pk (stepX s idx cmd).1.loc.st.svcs := by
    have := (hpost.orphan "").srt_svcs; rw [← loc_eq_cat] at this; exact this
  show usageGet (applyX s idx cmd).1 c = ((stepX s idx cmd).1.loc.rows.filter p).length
  refine usage_step_generic idx cmd c _ _ (goodFor_usageDeltas hids _ _ (fun r _ => hcfgok r.kind)) ?_ h
  rw [usageDeltas_svcTarget s _ c _ s1 s2 hn hk hcf hsn hstep, listSum_ind, listSum_ind]

theorem usage_connectKind_applyX {s : XState} (idx : Nat) (cmd : XCmd) (hwf : cmd.wf) (hs : CatOK s) (k : Kind) (hk : k ≠ .typical)
    (h : usageGet s (connectUsageName k.raw) = (s.loc.rows.filter fun r => r.2.kind == k).length) :
    usageGet (applyX s idx cmd).1 (connectUsageName k.raw) = ((applyX s idx cmd).1.loc.rows.filter fun r => r.2.kind == k).length := by
  refine usage_svcTarget_applyX idx cmd hwf hs _ _ (idsOk_cun_kind k) (cfg_okFor_cun _ (lc_raw k))
    (cun_ne_lit _ (by decide : "nodes".toList = 'n' :: "odes".toList) (by decide))
    (cun_ne_lit _ (by decide : "kvs".toList = 'k' :: "vs".toList) (by decide))
    (fun x hh => cun_ne_cfgid _ _ hh.symm)
    (cun_ne_lit _ (by decide : "service-names".toList = 's' :: "ervice-names".toList) (by decide)) ?_ h
  intro ch
  rw [svcStep_dval, if_neg (cun_ne_lit _ (by decide : "services".toList = 's' :: "ervices".toList) (by decide)),
    connect_kind ch k hk, billable_other ch (cun_ne_lit _ (by decide : billableName.toList = 'b' :: "illable-services".toList) (by decide))]
  obtain ⟨b, a⟩ := ch
  cases b <;> cases a <;> simp [optW, kindW]

theorem usage_connectNative_applyX {s : XState} (idx : Nat) (cmd : XCmd) (hwf : cmd.wf) (hs : CatOK s)
    (h : usageGet s (connectUsageName "connect-native") = (s.loc.rows.filter fun r => r.2.native).length) :
    usageGet (applyX s idx cmd).1 (connectUsageName "connect-native") = ((applyX s idx cmd).1.loc.rows.filter fun r => r.2.native).length := by
  refine usage_svcTarget_applyX idx cmd hwf hs _ _ idsOk_cun_native (cfg_okFor_cun _ lc_native)
    (cun_ne_lit _ (by decide : "nodes".toList = 'n' :: "odes".toList) (by decide))
    (cun_ne_lit _ (by decide : "kvs".toList = 'k' :: "vs".toList) (by decide))
    (fun x hh => cun_ne_cfgid _ _ hh.symm)
    (cun_ne_lit _ (by decide : "service-names".toList = 's' :: "ervice-names".toList) (by decide)) ?_ h
  intro ch
  rw [svcStep_dval, if_neg (cun_ne_lit _ (by decide : "services".toList = 's' :: "ervices".toList) (by decide)),
    connect_native ch, billable_other ch (cun_ne_lit _ (by decide : billableName.toList = 'b' :: "illable-services".toList) (by decide))]
  obtain ⟨b, a⟩ := ch
  cases b <;> cases a <;> simp [optW, nativeW]


/-! ### all of them together, along a replay -/

structure UsageInv (s : XState) : Prop where
  nodes : usageGet s "nodes" = s.loc.st.nodes.length
  services : usageGet s "services" = s.loc.st.svcs.length
  kind : ∀ k : Kind, k ≠ .typical → usageGet s (connectUsageName k.raw) = (s.loc.rows.filter fun r => r.2.kind == k).length
  native : usageGet s (connectUsageName "connect-native") = (s.loc.rows.filter fun r => r.2.native).length

theorem UsageInv.empty : UsageInv XState.empty :=
  ⟨by simp [usageGet, XState.empty, tfind], by simp [usageGet, XState.empty, tfind],
   fun k _ => by simp [usageGet, XState.empty, tfind, Cat.rows], by simp [usageGet, XState.empty, tfind, Cat.rows]⟩

theorem usageInv_applyX {s : XState} (idx : Nat) (c : XCmd) (hwf : c.wf) (hs : CatOK s) (hy : SyncAll s) (h : UsageInv s) :
    UsageInv (applyX s idx c).1 :=
  ⟨usage_nodes_applyX idx c hwf hs h.nodes, usage_services_applyX idx c hwf hs hy h.services,
   fun k hk => usage_connectKind_applyX idx c hwf hs k hk (h.kind k hk), usage_connectNative_applyX idx c hwf hs h.native⟩

theorem usageInv_replayX : ∀ (log : XLog) (s : XState), XLog.wf log → CatOK s → SyncAll s → UsageInv s → UsageInv (replayX s log) := by
  intro log
  induction log with
  | nil => intro s _ _ _ h; exact h
  | cons ic rest ih =>
    intro s hwf hs hy h
    unfold replayX
    simp only [List.foldl_cons]
    have hw := hwf ic List.mem_cons_self
    exact ih _ (fun x hx => hwf x (List.mem_cons_of_mem _ hx)) (catOK_applyX ic.1 ic.2 hw hs) (syncAll_applyX ic.1 ic.2 hy)
      (usageInv_applyX ic.1 ic.2 hw hs hy h)

end CV.Store
