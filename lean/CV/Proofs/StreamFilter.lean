/-
Helper lemmas for C11: ACL-filtered subscribers. A filtered materializer is related to an
unfiltered "twin" that consumes the same shared items: the filtered view is, id by id, the
ACL-filter of the twin's view (`IsFilterOf`), and one handler step preserves that relation.
-/
import CV.Proofs.StreamSim
namespace CV.Stream

/-- payloads under key `k` carry the name the key (or the id) determines: a ServiceHealth event of
    subject `n` describes an instance named `n`; a config entry event describes the entry named
    like its id. (Connect events carry the sidecar's own name: nothing to say.) -/
def nameOk (k : Key) (id : Id) (v : Val) : Prop :=
  match k.topic, k.subj with
  | .health, .named n => v.name = n
  | .health, .wild => False          -- nothing is ever published or queried under this key
  | .cfg, _ => v.name = id.1
  | .connect, _ => True

/-- on the Connect topic visibility must not depend on the sidecar's own name -/
def authzOkB (a : Authz) (k : Key) : Bool :=
  match k.topic, a with
  | .connect, .svcs _ => false
  | _, _ => true

def AuthzOk (a : Authz) (k : Key) : Prop := authzOkB a k = true

instance (a : Authz) (k : Key) : Decidable (AuthzOk a k) := by unfold AuthzOk; exact inferInstance

/-- visibility of an entry of key `k` as a function of its id -/
def visF (a : Authz) (k : Key) (id : Id) : Bool :=
  match k.topic, k.subj with
  | .health, .named n => a.nodeOk id.1 && a.svcOk n
  | .health, .wild => a.nodeOk id.1 && a.svcOk ""
  | .cfg, _ => a.svcOk id.1
  | .connect, _ => a.nodeOk id.1 && a.svcOk ""

theorem entryOk_eq_visF {a : Authz} {k : Key} {id : Id} {v : Val} (hn : nameOk k id v) (ha : AuthzOk a k) :
    a.entryOk k.topic id v = visF a k id := by
  obtain ⟨t, sj⟩ := k
  cases t with
  | health =>
    cases sj with
    | wild => exact hn.elim
    | named n =>
      simp only [nameOk] at hn
      simp [Authz.entryOk, visF, hn]
  | cfg =>
    simp only [nameOk] at hn
    cases sj <;> simp [Authz.entryOk, visF, hn]
  | connect =>
    cases a with
    | svcs l => simp [AuthzOk, authzOkB] at ha
    | all => cases sj <;> rfl
    | none => cases sj <;> rfl
    | nodes l => cases sj <;> simp [Authz.entryOk, visF, Authz.svcOk]

/-- `vf` is, id by id, the ACL-filter of `vu` -/
def IsFilterOf (a : Authz) (k : Key) (vf vu : View) : Prop :=
  ∀ i, lookup? i vf = if visF a k i then lookup? i vu else none

theorem IsFilterOf.congr {a : Authz} {k : Key} {vf vu vu' : View} (h : IsFilterOf a k vf vu) (e : ViewEq vu vu') :
    IsFilterOf a k vf vu' := fun i => by rw [h i, e i]

theorem IsFilterOf.nil (a : Authz) (k : Key) : IsFilterOf a k [] [] := fun i => by simp

theorem isFilterOf_all {k : Key} {v w : View} : IsFilterOf .all k v w ↔ ViewEq v w := by
  have : ∀ i, visF .all k i = true := by
    intro i
    obtain ⟨t, sj⟩ := k
    cases t <;> cases sj <;> simp [visF, Authz.nodeOk, Authz.svcOk]
  constructor
  · intro h i; rw [h i, this i]; rfl
  · intro h i; rw [this i]; exact h i

/-- an event list whose events' visibility is a function of the id -/
def EvsUniform (a : Authz) (k : Key) (evs : List Ev) : Prop := ∀ e ∈ evs, a.allowed e = visF a k e.id

/-- the filter commutes with the view update -/
theorem filter_applyEvs {a : Authz} {k : Key} {vf vu : View} (evs : List Ev) (hu : EvsUniform a k evs)
    (h : IsFilterOf a k vf vu) : IsFilterOf a k (applyEvs vf (evs.filter a.allowed)) (applyEvs vu evs) := by
  induction evs generalizing vf vu with
  | nil => exact h
  | cons e r ih =>
    have hr : EvsUniform a k r := fun x hx => hu x (List.mem_cons_of_mem _ hx)
    have he := hu e List.mem_cons_self
    by_cases hv : a.allowed e = true
    · simp only [List.filter_cons, hv, ↓reduceIte, applyEvs_cons]
      apply ih hr
      intro i
      rw [lookup?_applyEv, lookup?_applyEv, h i]
      by_cases hi : i = e.id
      · subst hi
        rw [← he, hv]; simp
      · simp [hi]
    · have hvf : a.allowed e = false := by simpa using hv
      simp only [List.filter_cons, hvf, Bool.false_eq_true, ↓reduceIte, applyEvs_cons]
      apply ih hr
      intro i
      rw [lookup?_applyEv, h i]
      by_cases hi : i = e.id
      · subst hi
        rw [← he, hvf]; simp
      · simp [hi]

/-- a pending step whose events are uniform for `(a, k)` -/
def StepUniform (a : Authz) (k : Key) : Step → Prop
  | .item it => EvsUniform a k it.evs
  | _ => True

def Live (m : Mat) : Prop := m.h = .stream ∨ m.h = .resume

theorem handle_item_live {m : Mat} (h : Live m) (it : Item) :
    handle m (.item it) = { updateView m it.evs it.idx it.post with h := .stream } := by
  rcases h with h | h <;> simp [handle, h]

/-- the relation between a filtered materializer and its unfiltered twin (the twin may already
    have left the `resume` state while the filtered one, having skipped everything so far, has not) -/
structure Rel (a : Authz) (k : Key) (mf mu : Mat) : Prop where
  shape : (Live mf ∧ Live mu ∧ (mu.h = .resume → mf.h = .resume)) ∨
          (∃ acc, mu.h = .snap acc ∧ mf.h = .snap (acc.filter a.allowed) ∧ EvsUniform a k acc)
  view  : IsFilterOf a k mf.view mu.view
  idx0  : mf.index = 0 ↔ mu.index = 0

theorem Rel.refl_all {k : Key} {m : Mat} (hm : m.h ≠ .bad) : Rel .all k m m := by
  have hall : ∀ e : Ev, Authz.all.allowed e = true := fun e => entryOk_all _ _ _
  have hvis : ∀ i, visF .all k i = true := by
    intro i
    obtain ⟨t, sj⟩ := k
    cases t <;> cases sj <;> simp [visF, Authz.nodeOk, Authz.svcOk]
  refine ⟨?_, isFilterOf_all.mpr (ViewEq.refl _), Iff.rfl⟩
  by_cases h1 : m.h = .stream
  · exact Or.inl ⟨Or.inl h1, Or.inl h1, fun e => by rw [h1] at e; cases e⟩
  by_cases h2 : m.h = .resume
  · exact Or.inl ⟨Or.inr h2, Or.inr h2, fun _ => h2⟩
  cases hh : m.h with
  | stream => exact absurd hh h1
  | resume => exact absurd hh h2
  | bad => exact absurd hh hm
  | snap acc =>
    refine Or.inr ⟨acc, rfl, ?_, ?_⟩
    · rw [List.filter_eq_self.mpr (fun e _ => hall e)]
    · intro e _; rw [hall e, hvis e.id]

/-- one handler step on the shared item: the twin consumes the item itself, the filtered
    materializer what `visible` hands it (or nothing). The relation, the handler invariant and
    exactness carry over. -/
theorem Rel.step {a : Authz} {k : Key} {mf mu : Mat} (st : Step) (hr : Rel a k mf mu) (hkf : HOk mf)
    (hku : HOk mu) (hku' : HOk (handle mu st)) (hexu : Exact (handle mu st)) (hst : StepUniform a k st) :
    match visible a k.topic st with
    | none => Rel a k mf (handle mu st)
    | some st' => Rel a k (handle mf st') (handle mu st) ∧ HOk (handle mf st') ∧
        ((handle mf st').index ≠ 0 → IsFilterOf a k (handle mf st').view (handle mf st').expect) := by
  cases st with
  | nstf =>
    simp only [visible]
    rcases hr.shape with ⟨lf, lu, hres⟩ | ⟨acc, h2, h1, -⟩
    · rcases lu with h2 | h2
      · exfalso; have := hku'.notBad; simp [handle, h2] at this
      · have h1 := hres h2
        refine ⟨⟨Or.inr ⟨[], by simp [handle, h2, Mat.reset], by simp [handle, h1, Mat.reset], fun e he => by cases he⟩,
          by simp only [handle, h1, h2, Mat.reset]; exact IsFilterOf.nil a k, by simp [handle, h1, h2, Mat.reset]⟩, ?_, ?_⟩
        · simp only [handle, h1]; exact HOk.reset mf
        · intro hi; simp [handle, h1, Mat.reset] at hi
    · exfalso; have := hku'.notBad; simp [handle, h2] at this
  | eos i post =>
    simp only [visible]
    rcases hr.shape with ⟨lf, lu, -⟩ | ⟨acc, h2, h1, hacc⟩
    · exfalso
      have := hku'.notBad
      rcases lu with h2 | h2 <;> simp [handle, h2] at this
    · have hi0 : i ≠ 0 := by
        have := hku'.live (Or.inl (by simp [handle, h2]))
        simpa [handle, h2, updateView] using this
      have hvu : mu.view = [] := hku.empty (hku.snap acc h2)
      have hvf : mf.view = [] := hkf.empty (hkf.snap _ h1)
      have hview : IsFilterOf a k (applyEvs mf.view (acc.filter a.allowed)) (applyEvs mu.view acc) := by
        rw [hvu, hvf]; exact filter_applyEvs acc hacc (IsFilterOf.nil a k)
      refine ⟨⟨Or.inl ⟨Or.inl (by simp [handle, h1]), Or.inl (by simp [handle, h2]), fun e => by simp [handle, h2] at e⟩,
        by simpa [handle, h1, h2, updateView] using hview, by simp [handle, h1, h2, updateView]⟩, ?_, ?_⟩
      · exact ⟨by simp [handle, h1], by intro hx; simp [handle, h1, updateView] at hx; exact absurd hx hi0,
          by intro _; simpa [handle, h1, updateView] using hi0, by intro acc' hx; simp [handle, h1] at hx⟩
      · intro _
        have hu := hexu (by simpa [handle, h2, updateView] using hi0)
        simp only [handle, h2, updateView] at hu
        simp only [handle, h1, updateView]
        exact hview.congr hu
  | item it =>
    have hun : EvsUniform a k it.evs := hst
    simp only [visible]
    rcases hr.shape with ⟨lf, lu, hres⟩ | ⟨acc, h2, h1, hacc⟩
    · -- both live: the twin applies the item
      have hi0 : it.idx ≠ 0 := by
        have := hku'.live (Or.inl (by rw [handle_item_live lu]))
        simpa [handle_item_live lu, updateView] using this
      have hfi : mf.index ≠ 0 := hkf.live lf
      have hview := filter_applyEvs it.evs hun hr.view
      by_cases hskip : (it.evs.filter a.allowed).isEmpty ∧ ¬ it.evs.isEmpty
      · simp only [hskip, and_self, ↓reduceIte]
        have hnil : it.evs.filter a.allowed = [] := by simpa using hskip.1
        rw [hnil] at hview
        refine ⟨Or.inl ⟨lf, Or.inl (by rw [handle_item_live lu]), fun e => by rw [handle_item_live lu] at e; cases e⟩, ?_, ?_⟩
        · rw [handle_item_live lu]; simpa [updateView] using hview
        · rw [handle_item_live lu]; simp [updateView, hfi, hi0]
      · simp only [hskip, ↓reduceIte]
        rw [handle_item_live lf, handle_item_live lu]
        refine ⟨⟨Or.inl ⟨Or.inl rfl, Or.inl rfl, fun e => by cases e⟩, by simpa [updateView] using hview,
          by simp [updateView]⟩, ?_, ?_⟩
        · exact ⟨by simp, by intro hx; simp [updateView] at hx; exact absurd hx hi0,
            by intro _; simpa [updateView] using hi0, by intro acc' hx; simp at hx⟩
        · intro _
          have hu := hexu (by rw [handle_item_live lu]; simpa [updateView] using hi0)
          rw [handle_item_live lu] at hu
          simp only [updateView] at hu ⊢
          exact hview.congr hu
    · -- both accumulate the snapshot
      have hf0 := hkf.snap _ h1
      have hrel : Rel a k { mf with h := .snap ((acc ++ it.evs).filter a.allowed) } (handle mu (.item it)) := by
        refine ⟨Or.inr ⟨acc ++ it.evs, by simp [handle, h2], rfl, ?_⟩, by simpa [handle, h2] using hr.view,
          by simpa [handle, h2] using hr.idx0⟩
        intro e he
        rcases List.mem_append.mp he with he | he
        · exact hacc e he
        · exact hun e he
      by_cases hskip : (it.evs.filter a.allowed).isEmpty ∧ ¬ it.evs.isEmpty
      · simp only [hskip, and_self, ↓reduceIte]
        have hnil : it.evs.filter a.allowed = [] := by simpa using hskip.1
        have : ({ mf with h := .snap ((acc ++ it.evs).filter a.allowed) } : Mat) = mf := by
          rw [List.filter_append, hnil, List.append_nil, ← h1]
        rw [this] at hrel
        exact hrel
      · simp only [hskip, ↓reduceIte]
        have hm : handle mf (.item ⟨it.idx, it.evs.filter a.allowed, it.post⟩) =
            { mf with h := .snap ((acc ++ it.evs).filter a.allowed) } := by
          simp [handle, h1, List.filter_append]
        rw [hm]
        refine ⟨hrel, ⟨by simp, fun _ => hkf.empty hf0, by intro hx; rcases hx with hx | hx <;> simp at hx, fun _ _ => hf0⟩, ?_⟩
        intro hi; exact absurd hf0 hi

/-! ### from key-level naming to authorizer-level uniformity -/

def EvsNamed (k : Key) (evs : List Ev) : Prop := ∀ e ∈ evs, nameOk k e.id e.val

/-- the events of the items a subscriber of `k` can receive are named for `k` -/
def StepNamed (k : Key) : Step → Prop
  | .item it => EvsNamed k it.evs ∧ ∀ e ∈ it.evs, e.key.topic = k.topic
  | _ => True

theorem stepUniform_of_named {a : Authz} {k : Key} {st : Step} (ha : AuthzOk a k) (h : StepNamed k st) :
    StepUniform a k st := by
  cases st with
  | item it =>
    intro e he
    unfold Authz.allowed
    rw [h.2 e he]
    exact entryOk_eq_visF (h.1 e he) ha
  | nstf => trivial
  | eos i p => trivial

/-- the filtered materializer is exact: its view is the ACL-filter of the direct-query result that
    belongs to its last update -/
def FExact (a : Authz) (k : Key) (m : Mat) : Prop := m.index ≠ 0 → IsFilterOf a k m.view m.expect

end CV.Stream
