/-
A general ladder over the store model (used by C06): every command of `apply` is a composition of
eighteen primitive state transformers (the places where the model builds a new `State`). A predicate
that is closed under each of them — at the Raft index `idx` of the running command — is preserved by
every function of the model and hence by `apply`.

The predicate may mention a fixed start state, so the ladder also lifts two-state relations
("what changed since the command started"). Several primitives are only ever applied in a context
(`deleteServicePost` after the instance's checks are gone, `deleteNodePost` after the node's services and
checks are gone, `checkFinish` after `checkPrep` and the session cascade, `svcInsert` when the node
exists); the ladder proves those context facts once (from the table specifications of
CV.Proofs.StoreCatInv) and hands them to the closure fields. A `Guard` restricts the payloads of the
command (tree-delete prefixes, service payloads, node names, check payloads).
-/
import CV.Store.Query
import CV.Proofs.StoreBasic
import CV.Proofs.StoreQueryIdx
import CV.Proofs.StoreCatInv
namespace CV.Store
open CV

/-- restrictions on what a command may name -/
structure Guard where
  /-- prefixes of delete-tree verbs -/
  T : Key → Prop := fun _ => True
  /-- service payloads (node, id, name) -/
  Sp : String → String → String → Prop := fun _ _ _ => True
  /-- node names -/
  Np : String → Prop := fun _ => True
  /-- check payloads (node, id, service id) -/
  Cp : String → String → String → Prop := fun _ _ _ => True

/-- per-service index rows that hold the command's index keep it (the session cascade never deletes one) -/
def SvcKeep (idx : Nat) (s s' : State) : Prop :=
  ∀ name, idxGet s.index (svcKey name) = some idx → idxGet s'.index (svcKey name) = some idx

/-- `P` is closed under every primitive write of a command running at index `idx` -/
structure PrimClosed (idx : Nat) (G : Guard) (P : State → Prop) : Prop where
  kvInsert : ∀ (s : State) (e : KV), e.modify = idx → P s → P (kvInsert s e)
  kvDelete : ∀ (s s' : State) (k : Key), kvDeleteTxn s idx k = .ok s' → P s → P s'
  kvDeleteTree : ∀ (s : State) (p : Key), G.T p → P s → P (kvDeleteTreeTxn s idx p)
  removeSessionRow : ∀ (s : State) (id : String), P s →
    P { s with sessions := terase Sess.pk (lc id) s.sessions, index := idxSet s.index "sessions" idx }
  invalidateKeys : ∀ (s : State) (sess : Sess), P s → P (invalidateKeys s idx sess)
  dropSessionRefs : ∀ (s : State) (id : String), P s → P (dropSessionRefs s idx id)
  checkPrep : ∀ (s s1 : State) (p : Bool) (hc hc1 : Chk) (md : Bool),
    checkPrep s idx p hc = .ok (s1, hc1, md) → G.Cp hc.node hc.id hc.svcId → P s → P s1
  /-- `checkFinish` runs in state `s`, reached from the state `s1` that `checkPrep sA …` produced by the session
      cascade (nodes and services untouched, per-service index rows kept) -/
  checkFinish : ∀ (sA s1 s : State) (p : Bool) (hc hc1 : Chk) (md : Bool),
    Store.checkPrep sA idx p hc = .ok (s1, hc1, md) → G.Cp hc.node hc.id hc.svcId → CasRel s1 s → SvcKeep idx s1 s →
    P sA → P s → P (checkFinish s idx p hc1 md)
  /-- the check rows of a state the predicate holds in satisfy the check guard (the cascade rewrites stored rows) -/
  chkRows : ∀ (s : State), P s → ∀ c ∈ s.chks, G.Cp c.node c.id c.svcId
  insertSession : ∀ (s : State) (x : Sess), P s → P (insertSession s x idx)
  pqSet : ∀ (s s' : State) (id sess : String), pqSet s idx id sess = .ok s' → P s → P s'
  pqDelete : ∀ (s : State) (id : String), P s → P (pqDelete s idx id)
  nodeInsert : ∀ (s : State) (n : Node), n.modify = idx → G.Np n.name → P s → P (nodeInsert s n)
  /-- the node rows of a state the predicate holds in satisfy the node guard (rename by node ID deletes a stored node) -/
  nodeNames : ∀ (s : State), P s → ∀ nd ∈ s.nodes, G.Np nd.name
  deleteCheckPre : ∀ (s : State) (node id : String) (x : Chk), chkFind s node id = some x →
    P s → P (deleteCheckPre s idx node id x)
  /-- the instance is still there and no check is bound to it any more -/
  deleteServicePost : ∀ (s : State) (node id : String) (v : Svc), G.Np node → svcFind s node id = some v →
    (∀ c ∈ s.chks, ¬ (lc c.node = lc node ∧ lc c.svcId = lc id)) → P s → P (deleteServicePost s idx node id v)
  /-- no service and no check names the node any more -/
  deleteNodePost : ∀ (s : State) (name : String), G.Np name → (∀ v ∈ s.svcs, lc v.node ≠ lc name) →
    (∀ c ∈ s.chks, lc c.node ≠ lc name) → P s → P (deleteNodePost s idx name)
  /-- only the names of stored instances are bumped on their own -/
  bumpServiceIdx : ∀ (s : State) (name : String), (∃ v ∈ s.svcs, lc v.name = lc name) → P s →
    P (bumpServiceIdx s idx name)
  /-- the node of the instance exists -/
  svcInsert : ∀ (s : State) (v : Svc), v.modify = idx → G.Sp v.node v.id v.name → G.Np v.node →
    (nodeFind s v.node).isSome = true → P s → P (svcInsert s v)

variable {idx : Nat} {G : Guard} {P : State → Prop}

/-! ### KV verbs -/

theorem pc_kvSet (hP : PrimClosed idx G P) {s s' : State} {e w : KV} {upd : Bool}
    (hr : kvSetTxn s idx e upd = .ok (s', w)) (h : P s) : P s' := by
  simp only [kvSetTxn] at hr
  repeat' (split at hr)
  all_goals (try simp at hr)
  all_goals (obtain ⟨rfl, -⟩ := hr)
  all_goals (first | exact h | exact hP.kvInsert _ _ rfl h)

theorem pc_kvDeleteCas (hP : PrimClosed idx G P) {s s' : State} {c : Nat} {k : Key} {b : Bool}
    (hr : kvDeleteCasTxn s idx c k = .ok (s', b)) (h : P s) : P s' := by
  simp only [kvDeleteCasTxn] at hr
  repeat' (split at hr)
  all_goals (try simp at hr)
  all_goals (obtain ⟨rfl, -⟩ := hr)
  all_goals (first | exact h | exact hP.kvDelete _ _ _ (by assumption) h)

theorem pc_kvSetCas (hP : PrimClosed idx G P) {s s' : State} {e w : KV} {b : Bool}
    (hr : kvSetCasTxn s idx e = .ok (s', b, w)) (h : P s) : P s' := by
  simp only [kvSetCasTxn] at hr
  repeat' (split at hr)
  all_goals (try simp at hr)
  all_goals (obtain ⟨rfl, -, -⟩ := hr)
  all_goals (first | exact h | exact pc_kvSet hP (by assumption) h)

theorem pc_kvLock (hP : PrimClosed idx G P) {s s' : State} {e w : KV} {b : Bool}
    (hr : kvLockTxn s idx e = .ok (s', b, w)) (h : P s) : P s' := by
  simp only [kvLockTxn] at hr
  repeat' (split at hr)
  all_goals (try simp at hr)
  all_goals (obtain ⟨rfl, -, -⟩ := hr)
  all_goals (first | exact h | exact pc_kvSet hP (by assumption) h)

theorem pc_kvUnlock (hP : PrimClosed idx G P) {s s' : State} {e w : KV} {b : Bool}
    (hr : kvUnlockTxn s idx e = .ok (s', b, w)) (h : P s) : P s' := by
  simp only [kvUnlockTxn] at hr
  repeat' (split at hr)
  all_goals (try simp at hr)
  all_goals (obtain ⟨rfl, -, -⟩ := hr)
  all_goals (first | exact h | exact pc_kvSet hP (by assumption) h)

/-! ### the session cascade keeps per-service index rows -/

theorem svcKeep_refl (s : State) : SvcKeep idx s s := fun _ h => h

theorem svcKeep_trans {a b c : State} (h1 : SvcKeep idx a b) (h2 : SvcKeep idx b c) : SvcKeep idx a c :=
  fun n h => h2 n (h1 n h)

theorem svcKeep_of_index {s s' : State} (h : s'.index = s.index) : SvcKeep idx s s' := by
  intro n hn; rw [h]; exact hn

theorem svcKeep_setLit (s : State) (k : String) (hk : ∀ n, lc (svcKey n) ≠ lc k) {s' : State}
    (h : s'.index = idxSet s.index k idx) : SvcKeep idx s s' := by
  intro n hn; rw [h, idxGet_idxSet, if_neg (hk n)]; exact hn

theorem svcKeep_max (s : State) (k : String) : SvcKeep idx s (s.maxIdx k idx) := by
  intro n hn
  show idxGet (idxMax s.index k idx) (svcKey n) = some idx
  rw [idxGet_idxMax]
  split
  · next he =>
    have : idxVal s.index k = idx := by rw [← idxVal_congr s.index he]; simp [idxVal, hn]
    simp [this]
  · exact hn

theorem svcKeep_max2 (s : State) (k : String) : SvcKeep idx s (s.maxIdx2 k idx) :=
  svcKeep_trans (svcKeep_max s k) (svcKeep_max _ _)

theorem svcKeep_bump (s : State) (n : String) : SvcKeep idx s (bumpServiceIdx s idx n) :=
  svcKeep_trans (svcKeep_max s _) (svcKeep_max2 _ _)

theorem svcKeep_foldl_bump (l : List Svc) (s : State) :
    SvcKeep idx s (l.foldl (fun st (v : Svc) => bumpServiceIdx st idx v.name) s) := by
  induction l generalizing s with
  | nil => exact svcKeep_refl s
  | cons v vs ih => exact svcKeep_trans (svcKeep_bump s v.name) (ih _)

theorem svcKeep_checkPrep {s s1 : State} {p : Bool} {hc hc1 : Chk} {md : Bool}
    (hr : checkPrep s idx p hc = .ok (s1, hc1, md)) : SvcKeep idx s s1 := by
  simp only [checkPrep] at hr
  repeat' (split at hr)
  all_goals (try simp at hr)
  all_goals (obtain ⟨rfl, -⟩ := hr)
  all_goals (first | exact svcKeep_refl _ | exact svcKeep_bump _ _ | exact svcKeep_foldl_bump _ _)

theorem svcKeep_checkFinish (s : State) (p : Bool) (hc : Chk) (md : Bool) : SvcKeep idx s (checkFinish s idx p hc md) := by
  unfold checkFinish
  split
  · exact svcKeep_refl s
  · unfold chkInsert
    exact svcKeep_trans (svcKeep_of_index (s' := { s with chks := _ }) rfl) (svcKeep_max2 _ _)

theorem svcKey_ne_lit (k : String) (h : (ikey k).take 15 ≠ ikey "peer.~:service.") (n : String) : lc (svcKey n) ≠ lc k := by
  unfold svcKey
  exact lc_prefix_ne _ _ _ (by simpa [ikey] using h)

theorem svcKeep_invalidateKeys (s : State) (sess : Sess) : SvcKeep idx s (invalidateKeys s idx sess) := by
  unfold invalidateKeys
  simp only
  split
  · exact svcKeep_refl s
  · split
    · exact svcKeep_setLit s "kvs" (svcKey_ne_lit _ (by decide)) rfl
    · refine svcKeep_trans (svcKeep_setLit s "tombstones" (svcKey_ne_lit _ (by decide)) (s' := s.setIdx "tombstones" idx) rfl) ?_
      exact svcKeep_setLit _ "kvs" (svcKey_ne_lit _ (by decide)) rfl

theorem svcKeep_dropSessionRefs (s : State) (id : String) : SvcKeep idx s (dropSessionRefs s idx id) := by
  unfold dropSessionRefs
  simp only
  split
  · exact svcKeep_setLit _ "prepared-queries" (svcKey_ne_lit _ (by decide)) rfl
  · exact svcKeep_of_index rfl

def KeepDel (idx n : Nat) : Prop := ∀ s id s', deleteSessionF n s idx id = .ok s' → SvcKeep idx s s'
def KeepChk (idx n : Nat) : Prop := ∀ s p hc s', ensureCheckF n s idx p hc = .ok s' → SvcKeep idx s s'

theorem foldE_keep {β : Type} (f : State → β → Except Err State) (hf : ∀ st b st', f st b = .ok st' → SvcKeep idx st st')
    (l : List β) (s s' : State) (h : foldE f l s = .ok s') : SvcKeep idx s s' :=
  foldE_rel (SvcKeep idx) svcKeep_refl (fun _ _ _ => svcKeep_trans) f hf l s s' h

theorem keep_cascade (n : Nat) : KeepDel idx n ∧ KeepChk idx n := by
  induction n with
  | zero =>
    refine ⟨?_, ?_⟩
    · intro s id s' hr
      rw [deleteSessionF] at hr
      split at hr
      · simp at hr; exact hr ▸ svcKeep_refl s
      · simp at hr
    · intro s p hc s' hr
      rw [ensureCheckF] at hr
      split at hr
      · simp at hr
      · next s1 hc1 md hprep =>
        split at hr
        · simp at hr; rw [← hr]; exact svcKeep_trans (svcKeep_checkPrep hprep) (svcKeep_checkFinish _ _ _ _)
        · simp at hr
        · exfalso; omega
  | succ n ih =>
    have hdel : KeepDel idx (n + 1) := by
      intro s id s' hr
      rw [deleteSessionF] at hr
      split at hr
      · simp at hr; exact hr ▸ svcKeep_refl s
      · next sess hf =>
        simp only at hr
        refine svcKeep_trans ?_ (foldE_keep _ (fun st c st' h => ih.2 st false _ st' h) _ _ _ hr)
        refine svcKeep_trans (svcKeep_setLit s "sessions" (svcKey_ne_lit _ (by decide))
          (s' := { s with sessions := terase Sess.pk (lc id) s.sessions, index := idxSet s.index "sessions" idx }) rfl) ?_
        exact svcKeep_trans (svcKeep_invalidateKeys _ _) (svcKeep_dropSessionRefs _ _)
    refine ⟨hdel, ?_⟩
    intro s p hc s' hr
    rw [ensureCheckF] at hr
    split at hr
    · simp at hr
    · next s1 hc1 md hprep =>
      split at hr
      · simp at hr; rw [← hr]; exact svcKeep_trans (svcKeep_checkPrep hprep) (svcKeep_checkFinish _ _ _ _)
      · simp at hr
      · next m _ hm =>
        have hm' : m = n := by omega
        subst hm'
        split at hr
        · simp at hr
        · next s2 hfold =>
          simp at hr; rw [← hr]
          refine svcKeep_trans (svcKeep_checkPrep hprep) (svcKeep_trans ?_ (svcKeep_checkFinish _ _ _ _))
          exact foldE_keep _ (fun st sid st' h => ih.1 st sid st' h) _ _ _ hfold

/-! ### the session / check cascade -/

def PcDel (idx : Nat) (P : State → Prop) (n : Nat) : Prop :=
  ∀ s id s', deleteSessionF n s idx id = .ok s' → P s → P s'
def PcChk (idx : Nat) (G : Guard) (P : State → Prop) (n : Nat) : Prop :=
  ∀ s p hc s', ensureCheckF n s idx p hc = .ok s' → G.Cp hc.node hc.id hc.svcId → P s → P s'

theorem pcDel_zero : PcDel idx P 0 := by
  intro s id s' hr h
  rw [deleteSessionF] at hr
  split at hr
  · simp at hr; exact hr ▸ h
  · simp at hr

theorem pcDel_succ (hP : PrimClosed idx G P) {n : Nat} (hq : PcChk idx G P n) : PcDel idx P (n + 1) := by
  intro s id s' hr h
  rw [deleteSessionF] at hr
  split at hr
  · simp at hr; exact hr ▸ h
  · next sess hf =>
    simp only at hr
    have h3 := hP.dropSessionRefs _ id (hP.invalidateKeys _ sess (hP.removeSessionRow s id h))
    refine foldE_ind_mem P _ _ _ _ (fun st c st' hc hst hcc => ?_) h3 hr
    have hrow : G.Cp c.node c.id c.svcId := hP.chkRows _ h3 c (mem_sessionTypedChecks hc)
    exact hq st false { c with status := critical, output := sessionCheckOutput sess critical } st' hcc hrow hst

theorem pcChk_of (hP : PrimClosed idx G P) {n : Nat} (hp : ∀ m, n = m + 1 → PcDel idx P m) : PcChk idx G P n := by
  intro s p hc s' hr hC h
  rw [ensureCheckF] at hr
  split at hr
  · simp at hr
  · next s1 hc1 md hprep =>
    have h1 : P s1 := hP.checkPrep _ _ _ _ _ _ hprep hC h
    split at hr
    · simp at hr; rw [← hr]
      exact hP.checkFinish s s1 s1 p hc hc1 md hprep hC (CasRel.refl _) (svcKeep_refl _) h h1
    · simp at hr
    · next m _ =>
      split at hr
      · simp at hr
      · next s2 hfold =>
        simp at hr; rw [← hr]
        have hrel : CasRel s1 s2 :=
          foldE_rel CasRel CasRel.refl (fun a b c => CasRel.trans) _ (fun st sid st' h => (fr_cascade m).1 st idx sid st' h) _ _ _ hfold
        have hkeep : SvcKeep idx s1 s2 := foldE_keep _ (fun st sid st' h => (keep_cascade m).1 st sid st' h) _ _ _ hfold
        refine hP.checkFinish s s1 s2 p hc hc1 md hprep hC hrel hkeep h ?_
        exact foldE_ind P _ (fun st sid st' hst hc => hp m rfl st sid st' hc hst) _ _ _ h1 hfold

theorem pc_cascade (hP : PrimClosed idx G P) (n : Nat) : PcDel idx P n ∧ PcChk idx G P n := by
  induction n with
  | zero => exact ⟨pcDel_zero, pcChk_of hP (by intro m hm; omega)⟩
  | succ n ih =>
    exact ⟨pcDel_succ hP ih.2, pcChk_of hP (by intro m hm; have : m = n := by omega
                                               subst this; exact ih.1)⟩

theorem pc_deleteSession (hP : PrimClosed idx G P) {s s' : State} {id : String}
    (hr : deleteSession s idx id = .ok s') (h : P s) : P s' :=
  (pc_cascade hP _).1 s id s' hr h

theorem pc_ensureCheck (hP : PrimClosed idx G P) {s s' : State} {p : Bool} {hc : Chk} (hC : G.Cp hc.node hc.id hc.svcId)
    (hr : ensureCheck s idx p hc = .ok s') (h : P s) : P s' :=
  (pc_cascade hP _).2 s p hc s' hr hC h

theorem pc_updateSessionCheck (hP : PrimClosed idx G P) {s s' : State} {x : Sess} {st : String}
    (hr : updateSessionCheck s idx x st = .ok s') (h : P s) : P s' := by
  unfold updateSessionCheck at hr
  refine foldE_ind_mem P _ _ _ _ (fun a c a' hc ha hcc => ?_) h hr
  have hrow : G.Cp c.node c.id c.svcId := hP.chkRows s h c (mem_sessionTypedChecks hc)
  exact pc_ensureCheck hP (hc := { c with status := st, output := sessionCheckOutput x st }) hrow hcc ha

theorem pc_sessionCreate (hP : PrimClosed idx G P) {s s' : State} {r : SessReq}
    (hr : sessionCreate s idx r = .ok s') (h : P s) : P s' := by
  simp only [sessionCreate] at hr
  repeat' (split at hr)
  all_goals (try simp at hr)
  all_goals (exact pc_updateSessionCheck hP hr (hP.insertSession _ _ h))

/-! ### the catalog -/

theorem pc_deleteCheck (hP : PrimClosed idx G P) {s s' : State} {node id : String}
    (hr : deleteCheck s idx node id = .ok s') (h : P s) : P s' := by
  simp only [deleteCheck] at hr
  split at hr
  · simp at hr; exact hr ▸ h
  · next x hx =>
    exact foldE_ind P _ (fun a c a' ha hc => pc_deleteSession hP hc ha) _ _ _
      (hP.deleteCheckPre _ _ _ _ hx h) hr

theorem pc_deleteService (hP : PrimClosed idx G P) {s s' : State} {node id : String} (hN : G.Np node)
    (hr : deleteService s idx node id = .ok s') (h : P s) : P s' := by
  simp only [deleteService] at hr
  split at hr
  · simp at hr; exact hr ▸ h
  · next v hv =>
    split at hr
    · simp at hr
    · next s1 hfold =>
      simp at hr; rw [← hr]
      have h1 : P s1 := foldE_ind P _ (fun a c a' ha hc => pc_deleteCheck hP hc ha) _ _ _ h hfold
      obtain ⟨-, a2, -, a4⟩ := foldE_deleteCheck_spec _ _ _ hfold
      have hv1 : svcFind s1 node id = some v := by rw [svcFind_congr a2]; exact hv
      have hno : ∀ c ∈ s1.chks, ¬ (lc c.node = lc node ∧ lc c.svcId = lc id) := by
        intro c' hc' hb
        obtain ⟨c, hc, hsame, hne⟩ := a4 c' hc'
        have hb' : lc c.node = lc node ∧ lc c.svcId = lc id := by rw [← hsame.1, ← hsame.2.2]; exact hb
        have hmem : c ∈ s.chks.filter (fun c => lc c.node == lc node && lc c.svcId == lc id) := by
          simp [List.mem_filter, hc, hb'.1, hb'.2]
        exact hne c hmem (pk2_congr hb'.1 rfl)
      exact hP.deleteServicePost _ _ _ _ hN hv1 hno h1

theorem pc_foldl_bump (hP : PrimClosed idx G P) (l : List Svc) (s : State) (hl : ∀ v ∈ l, v ∈ s.svcs) (h : P s) :
    P (l.foldl (fun st (v : Svc) => bumpServiceIdx st idx v.name) s) := by
  induction l generalizing s with
  | nil => exact h
  | cons v vs ih =>
    exact ih _ (fun w hw => hl w (List.mem_cons_of_mem _ hw))
      (hP.bumpServiceIdx _ _ ⟨v, hl v List.mem_cons_self, rfl⟩ h)

theorem pc_deleteNode (hP : PrimClosed idx G P) {s s' : State} {name : String} (hN : G.Np name)
    (hr : deleteNode s idx name = .ok s') (h : P s) : P s' := by
  simp only [deleteNode] at hr
  split at hr
  · simp at hr; exact hr ▸ h
  · split at hr
    · simp at hr
    · next s2 hf2 =>
      split at hr
      · simp at hr
      · next s3 hf3 =>
        have h1 := pc_foldl_bump hP (List.filter (fun v => lc v.node == lc name) s.svcs) s
          (fun v hv => (List.mem_filter.mp hv).1) h
        have hv1 := foldl_bump_view idx (List.filter (fun v => lc v.node == lc name) s.svcs) s
        generalize List.foldl (fun st (v : Svc) => bumpServiceIdx st idx v.name) s
            (List.filter (fun v => lc v.node == lc name) s.svcs) = s1 at hf2 hv1 h1
        have v2 := catView_svcs hv1
        have h2 : P s2 := foldE_ind P _ (fun a c a' ha hc => pc_deleteService hP hN hc ha) _ _ _ h1 hf2
        have h3 : P s3 := foldE_ind P _ (fun a c a' ha hc => pc_deleteCheck hP hc ha) _ _ _ h2 hf3
        obtain ⟨-, -, a3, -, -, -⟩ := foldE_deleteService_spec _ _ _ hf2
        obtain ⟨-, b2, -, b4⟩ := foldE_deleteCheck_spec _ _ _ hf3
        have nosvc : ∀ v ∈ s3.svcs, lc v.node ≠ lc name := by
          intro v' hv' hnode
          rw [b2] at hv'
          obtain ⟨m1, m2⟩ := a3 v' hv'
          rw [v2] at m1
          have hmem : v' ∈ List.filter (fun v => lc v.node == lc name) s.svcs := by
            simp [List.mem_filter, m1, hnode]
          exact m2 v' hmem (pk2_congr hnode rfl)
        have nochk : ∀ c ∈ s3.chks, lc c.node ≠ lc name := by
          intro c' hc' hnode
          obtain ⟨c2, h2', hs2, hn2⟩ := b4 c' hc'
          have hnode2 : lc c2.node = lc name := by rw [← hs2.1]; exact hnode
          have hmem : c2 ∈ List.filter (fun ch => lc ch.node == lc name) s2.chks := by
            simp [List.mem_filter, h2', hnode2]
          exact hn2 c2 hmem (pk2_congr hnode2 rfl)
        exact foldE_ind P _ (fun a c a' ha hc => pc_deleteSession hP hc ha) _ _ _
          (hP.deleteNodePost _ _ hN nosvc nochk h3) hr

theorem nodeFindByID_mem {s : State} {id : String} {n : Node} (h : nodeFindByID s id = some n) : n ∈ s.nodes := by
  unfold nodeFindByID at h
  exact List.mem_of_find?_eq_some h

theorem pc_ensureNode (hP : PrimClosed idx G P) {s s' : State} {n : Node} (hN : G.Np n.name)
    (hr : ensureNode s idx n = .ok s') (h : P s) : P s' := by
  simp only [ensureNode] at hr
  split at hr
  · simp at hr
  · next s1 byId hr1 =>
    have h1 : P s1 := by
      repeat' (split at hr1)
      all_goals (try simp at hr1)
      all_goals (obtain ⟨rfl, -⟩ := hr1)
      all_goals (first | exact h | exact pc_deleteNode hP (hP.nodeNames s h _ (nodeFindByID_mem (by assumption))) (by assumption) h)
    repeat' (split at hr)
    all_goals (try simp at hr)
    all_goals (subst hr)
    all_goals (first | exact h1 | exact hP.nodeInsert _ _ rfl hN h1)

theorem pc_ensureService (hP : PrimClosed idx G P) {s s' : State} {v : Svc} (hS : G.Sp v.node v.id v.name) (hN : G.Np v.node)
    (hr : ensureService s idx v = .ok s') (h : P s) : P s' := by
  unfold ensureService at hr
  split at hr
  · simp at hr
  · next nd hnd =>
    have hsome : (nodeFind s v.node).isSome = true := by rw [hnd]; rfl
    split at hr
    · simp only at hr
      split at hr
      · simp at hr; exact hr ▸ h
      · simp at hr; rw [← hr]; exact hP.svcInsert _ _ rfl hS hN hsome h
    · simp at hr; rw [← hr]; exact hP.svcInsert _ _ rfl hS hN hsome h

theorem pc_ensureRegistration (hP : PrimClosed idx G P) {s s' : State} {r : RegReq}
    (hS : ∀ v, r.svc = some v → G.Sp r.node.name v.id v.name) (hN : G.Np r.node.name)
    (hC : ∀ c ∈ r.checks, G.Cp c.node c.id c.svcId)
    (hr : ensureRegistration s idx r = .ok s') (h : P s) : P s' := by
  simp only [ensureRegistration] at hr
  split at hr
  · simp at hr
  · next s1 hr1 =>
    have h1 : P s1 := by
      repeat' (split at hr1)
      all_goals (try simp at hr1)
      all_goals (first | exact hr1 ▸ h | exact pc_ensureNode hP hN hr1 h)
    split at hr
    · simp at hr
    · next s2 hr2 =>
      have h2 : P s2 := by
        repeat' (split at hr2)
        all_goals (try simp at hr2)
        all_goals (first | exact hr2 ▸ h1 | (have hsp := hS _ ‹r.svc = some _›; exact pc_ensureService hP hsp hN hr2 h1))
      refine foldE_ind_mem P _ _ _ _ ?_ h2 hr
      intro a c a' hcm ha hc
      unfold ensureCheckIfNodeMatches at hc
      split at hc
      · simp at hc
      · exact pc_ensureCheck hP (hC c hcm) hc ha

section cas
variable (hP : PrimClosed idx G P)
include hP

theorem pc_ensureNodeCas {s s' : State} {n : Node} {b : Bool} (hN : G.Np n.name)
    (hr : ensureNodeCas s idx n = .ok (s', b)) (h : P s) : P s' := by
  unfold ensureNodeCas at hr
  repeat' (split at hr)
  all_goals (try simp at hr)
  all_goals (obtain ⟨rfl, -⟩ := hr)
  all_goals (first | exact h | exact pc_ensureNode hP hN (by assumption) h)

theorem pc_deleteNodeCas {s s' : State} {c : Nat} {n : String} {b : Bool} (hN : G.Np n)
    (hr : deleteNodeCas s idx c n = .ok (s', b)) (h : P s) : P s' := by
  unfold deleteNodeCas at hr
  repeat' (split at hr)
  all_goals (try simp at hr)
  all_goals (obtain ⟨rfl, -⟩ := hr)
  all_goals (first | exact h | exact pc_deleteNode hP hN (by assumption) h)

theorem pc_ensureServiceCas {s s' : State} {v : Svc} {b : Bool} (hS : G.Sp v.node v.id v.name) (hN : G.Np v.node)
    (hr : ensureServiceCas s idx v = .ok (s', b)) (h : P s) : P s' := by
  unfold ensureServiceCas at hr
  repeat' (split at hr)
  all_goals (try simp at hr)
  all_goals (obtain ⟨rfl, -⟩ := hr)
  all_goals (first | exact h | exact pc_ensureService hP hS hN (by assumption) h)

theorem pc_deleteServiceCas {s s' : State} {c : Nat} {n i : String} {b : Bool} (hN : G.Np n)
    (hr : deleteServiceCas s idx c n i = .ok (s', b)) (h : P s) : P s' := by
  unfold deleteServiceCas at hr
  repeat' (split at hr)
  all_goals (try simp at hr)
  all_goals (obtain ⟨rfl, -⟩ := hr)
  all_goals (first | exact h | exact pc_deleteService hP hN (by assumption) h)

theorem pc_ensureCheckCas {s s' : State} {c : Chk} {b : Bool} (hC : G.Cp c.node c.id c.svcId)
    (hr : ensureCheckCas s idx c = .ok (s', b)) (h : P s) : P s' := by
  unfold ensureCheckCas at hr
  repeat' (split at hr)
  all_goals (try simp at hr)
  all_goals (obtain ⟨rfl, -⟩ := hr)
  all_goals (first | exact h | exact pc_ensureCheck hP hC (by assumption) h)

theorem pc_deleteCheckCas {s s' : State} {c : Nat} {n i : String} {b : Bool}
    (hr : deleteCheckCas s idx c n i = .ok (s', b)) (h : P s) : P s' := by
  unfold deleteCheckCas at hr
  repeat' (split at hr)
  all_goals (try simp at hr)
  all_goals (obtain ⟨rfl, -⟩ := hr)
  all_goals (first | exact h | exact pc_deleteCheck hP (by assumption) h)

end cas

/-! ### what a command names -/

/-- the prefixes of the delete-tree verbs of a transaction operation / a command -/
def TxnOp.trees : TxnOp → List Key
  | .kv .deleteTree e => [e.key]
  | _ => []

def Cmd.trees : Cmd → List Key
  | .kvDeleteTree p => [p]
  | .txn ops => ops.flatMap TxnOp.trees
  | _ => []

/-- the service payloads (node, id, name) a transaction operation / a command may write -/
def TxnOp.svcs : TxnOp → List (String × String × String)
  | .service .set x => [(x.node, x.id, x.name)]
  | .service .cas x => [(x.node, x.id, x.name)]
  | _ => []

def Cmd.svcs : Cmd → List (String × String × String)
  | .register r => match r.svc with
    | some v => [(r.node.name, v.id, v.name)]
    | none => []
  | .txn ops => ops.flatMap TxnOp.svcs
  | _ => []

/-- the node names a transaction operation / a command names -/
def TxnOp.nodes : TxnOp → List String
  | .node _ n => [n.name]
  | .service _ x => [x.node]
  | .check _ c => [c.node]
  | _ => []

def Cmd.nodes : Cmd → List String
  | .register r => [r.node.name]
  | .deregister node _ _ => [node]
  | .txn ops => ops.flatMap TxnOp.nodes
  | _ => []

/-- the check payloads (node, id, service id) a transaction operation / a command may write -/
def TxnOp.chks : TxnOp → List (String × String × String)
  | .check .set c => [(c.node, c.id, c.svcId)]
  | .check .cas c => [(c.node, c.id, c.svcId)]
  | _ => []

def Cmd.chks : Cmd → List (String × String × String)
  | .register r => r.checks.map (fun c => (c.node, c.id, c.svcId))
  | .txn ops => ops.flatMap TxnOp.chks
  | _ => []

/-- the command respects the guard -/
structure Cmd.ok (G : Guard) (c : Cmd) : Prop where
  trees : ∀ d ∈ c.trees, G.T d
  svcs : ∀ t ∈ c.svcs, G.Sp t.1 t.2.1 t.2.2
  nodes : ∀ a ∈ c.nodes, G.Np a
  chks : ∀ t ∈ c.chks, G.Cp t.1 t.2.1 t.2.2

structure TxnOp.ok (G : Guard) (op : TxnOp) : Prop where
  trees : ∀ d ∈ op.trees, G.T d
  svcs : ∀ t ∈ op.svcs, G.Sp t.1 t.2.1 t.2.2
  nodes : ∀ a ∈ op.nodes, G.Np a
  chks : ∀ t ∈ op.chks, G.Cp t.1 t.2.1 t.2.2

/-! ### transactions -/

section txn
variable (hP : PrimClosed idx G P)
include hP

theorem pc_txnKV {s s' : State} {v : KvVerb} {e : KV} {rs : List TxnRes}
    (hT : v = .deleteTree → G.T e.key)
    (hr : txnKV s idx v e = .ok (s', rs)) (h : P s) : P s' := by
  cases v <;> simp only [txnKV, okRes] at hr <;> repeat' (split at hr)
  all_goals (try simp at hr)
  all_goals (try (obtain ⟨rfl, -⟩ := hr))
  all_goals (first
    | exact h
    | exact pc_kvSet hP (by assumption) h
    | exact hP.kvDelete _ _ _ (by assumption) h
    | exact pc_kvDeleteCas hP (by assumption) h
    | exact hP.kvDeleteTree _ _ (hT rfl) h
    | exact pc_kvSetCas hP (by assumption) h
    | exact pc_kvLock hP (by assumption) h
    | exact pc_kvUnlock hP (by assumption) h)

theorem pc_txnStep {s s' : State} {op : TxnOp} {rs : List TxnRes} (hG : op.ok G)
    (hr : txnStep s idx op = .ok (s', rs)) (h : P s) : P s' := by
  cases op with
  | kv v e => exact pc_txnKV hP (fun hv => hG.trees _ (by subst hv; simp [TxnOp.trees])) hr h
  | node v n =>
    have hN : G.Np n.name := hG.nodes _ (by simp [TxnOp.nodes])
    simp only [txnStep, txnNode] at hr
    cases v <;> simp only [okRes] at hr <;> repeat' (split at hr)
    all_goals (try simp at hr)
    all_goals (try (obtain ⟨rfl, -⟩ := hr))
    all_goals (first
      | exact h
      | exact pc_ensureNode hP hN (by assumption) h
      | exact pc_ensureNodeCas hP hN (by assumption) h
      | exact pc_deleteNode hP hN (by assumption) h
      | exact pc_deleteNodeCas hP hN (by assumption) h)
  | service v x =>
    have hN : G.Np x.node := hG.nodes _ (by simp [TxnOp.nodes])
    simp only [txnStep, txnService] at hr
    cases v <;> simp only [okRes] at hr <;> repeat' (split at hr)
    all_goals (try simp at hr)
    all_goals (try (obtain ⟨rfl, -⟩ := hr))
    all_goals (first
      | exact h
      | exact pc_ensureService hP (hG.svcs (x.node, x.id, x.name) (by simp [TxnOp.svcs])) hN (by assumption) h
      | exact pc_ensureServiceCas hP (hG.svcs (x.node, x.id, x.name) (by simp [TxnOp.svcs])) hN (by assumption) h
      | exact pc_deleteService hP hN (by assumption) h
      | exact pc_deleteServiceCas hP hN (by assumption) h)
  | check v c =>
    simp only [txnStep, txnCheck] at hr
    cases v <;> simp only [okRes] at hr <;> repeat' (split at hr)
    all_goals (try simp at hr)
    all_goals (try (obtain ⟨rfl, -⟩ := hr))
    all_goals (first
      | exact h
      | exact pc_ensureCheck hP (hG.chks (c.node, c.id, c.svcId) (by simp [TxnOp.chks])) (by assumption) h
      | exact pc_ensureCheckCas hP (hG.chks (c.node, c.id, c.svcId) (by simp [TxnOp.chks])) (by assumption) h
      | exact pc_deleteCheck hP (by assumption) h
      | exact pc_deleteCheckCas hP (by assumption) h)
  | sessionDelete id =>
    simp only [txnStep, okRes] at hr
    split at hr
    · simp at hr; exact hr.1 ▸ pc_deleteSession hP (by assumption) h
    · simp at hr

theorem pc_txnLoop (ops : List TxnOp) (hG : ∀ op ∈ ops, op.ok G) (i : Nat) (s : State)
    (rs : List TxnRes) (es : List (Nat × Err)) (h : P s) : P (txnLoop idx ops i s rs es).1 := by
  induction ops generalizing i s rs es with
  | nil => exact h
  | cons op ops ih =>
    have hG2 : ∀ o ∈ ops, o.ok G := fun o ho => hG o (List.mem_cons_of_mem _ ho)
    simp only [txnLoop]
    split
    · next s' r hstep => exact ih hG2 _ _ _ _ (pc_txnStep hP (hG op List.mem_cons_self) hstep h)
    · exact ih hG2 _ _ _ _ h

end txn

theorem cmd_ok_txn {ops : List TxnOp} (h : (Cmd.txn ops).ok G) : ∀ op ∈ ops, op.ok G := by
  intro op hop
  refine ⟨fun d hd => h.trees d ?_, fun t ht => h.svcs t ?_, fun a ha => h.nodes a ?_, fun t ht => h.chks t ?_⟩
  · simp only [Cmd.trees, List.mem_flatMap]; exact ⟨op, hop, hd⟩
  · simp only [Cmd.svcs, List.mem_flatMap]; exact ⟨op, hop, ht⟩
  · simp only [Cmd.nodes, List.mem_flatMap]; exact ⟨op, hop, ha⟩
  · simp only [Cmd.chks, List.mem_flatMap]; exact ⟨op, hop, ht⟩

theorem pc_liftS {s : State} {r : Except Err State} (h : P s) (hr : ∀ s', r = .ok s' → P s') :
    P (liftS s r).1 := by
  cases r with
  | ok s' => exact hr s' rfl
  | error e => exact h

theorem pc_liftB {s : State} {r : Except Err (State × Bool)} (h : P s) (hr : ∀ s' b, r = .ok (s', b) → P s') :
    P (liftB s r).1 := by
  cases r with
  | ok sb =>
    obtain ⟨s', b⟩ := sb
    simp only [liftB]
    split
    · exact hr s' b rfl
    · exact h
  | error e => exact h

/-- every command except tombstone reaping preserves a predicate closed under the primitives -/
theorem pc_apply (hP : PrimClosed idx G P) {s : State} (c : Cmd) (hc : ∀ u, c ≠ .reap u)
    (hG : c.ok G) (h : P s) : P (apply s idx c).1 := by
  cases c with
  | kvSet e =>
    refine pc_liftS h (fun s' hr => ?_)
    cases hk : kvSetTxn s idx e false with
    | error er => simp [hk, Except.map] at hr
    | ok sw => obtain ⟨s1, w⟩ := sw; simp [hk, Except.map] at hr; exact hr ▸ pc_kvSet hP hk h
  | kvCas e =>
    refine pc_liftB h (fun s' b hr => ?_)
    cases hk : kvSetCasTxn s idx e with
    | error er => simp [hk, Except.map] at hr
    | ok sw => obtain ⟨s1, b1, w⟩ := sw; simp [hk, Except.map] at hr; exact hr.1 ▸ pc_kvSetCas hP hk h
  | kvDelete k => exact pc_liftS h (fun s' hr => hP.kvDelete _ _ _ hr h)
  | kvDeleteCas k c => exact pc_liftB h (fun s' b hr => pc_kvDeleteCas hP hr h)
  | kvDeleteTree p => exact hP.kvDeleteTree _ _ (hG.trees p (by simp [Cmd.trees])) h
  | kvLock e =>
    refine pc_liftB h (fun s' b hr => ?_)
    cases hk : kvLockTxn s idx e with
    | error er => simp [hk, Except.map] at hr
    | ok sw => obtain ⟨s1, b1, w⟩ := sw; simp [hk, Except.map] at hr; exact hr.1 ▸ pc_kvLock hP hk h
  | kvUnlock e =>
    refine pc_liftB h (fun s' b hr => ?_)
    cases hk : kvUnlockTxn s idx e with
    | error er => simp [hk, Except.map] at hr
    | ok sw => obtain ⟨s1, b1, w⟩ := sw; simp [hk, Except.map] at hr; exact hr.1 ▸ pc_kvUnlock hP hk h
  | sessionCreate r => exact pc_liftS h (fun s' hr => pc_sessionCreate hP hr h)
  | sessionDestroy id => exact pc_liftS h (fun s' hr => pc_deleteSession hP hr h)
  | register r =>
    refine pc_liftS h (fun s' hr => pc_ensureRegistration hP (fun v hv => hG.svcs (r.node.name, v.id, v.name) (by simp [Cmd.svcs, hv]))
      (hG.nodes r.node.name (by simp [Cmd.nodes])) (fun c hc => hG.chks (c.node, c.id, c.svcId) ?_) hr h)
    simp only [Cmd.chks, List.mem_map]; exact ⟨c, hc, rfl⟩
  | deregister node svcId chkId =>
    have hN : G.Np node := hG.nodes node (by simp [Cmd.nodes])
    simp only [apply]
    split
    · exact pc_liftS h (fun s' hr => pc_deleteService hP hN hr h)
    · split
      · exact pc_liftS h (fun s' hr => pc_deleteCheck hP hr h)
      · exact pc_liftS h (fun s' hr => pc_deleteNode hP hN hr h)
  | reap u => exact absurd rfl (hc u)
  | pqSet id session => exact pc_liftS h (fun s' hr => hP.pqSet _ _ _ _ hr h)
  | pqDelete id => exact hP.pqDelete _ _ h
  | txn ops =>
    simp only [apply, txnRW]
    have := pc_txnLoop hP ops (cmd_ok_txn hG) 0 s [] [] h
    generalize txnLoop idx ops 0 s [] [] = r at this
    obtain ⟨s', rs, es⟩ := r
    simp only
    split
    · exact this
    · exact h

/-- the guard that allows everything -/
def Guard.any : Guard := {}

theorem Cmd.ok_any (c : Cmd) : c.ok Guard.any :=
  ⟨fun _ _ => trivial, fun _ _ => trivial, fun _ _ => trivial, fun _ _ => trivial⟩

end CV.Store
