/-
A general ladder over the store model (used by C06): every command of `apply` is a composition of
eighteen primitive state transformers (the places where the model builds a new `State`). A predicate
that is closed under each of them — at the Raft index `idx` of the running command — is preserved by
every function of the model and hence by `apply`.

The predicate may mention a fixed start state, so the ladder also lifts two-state relations
("what changed since the command started").
-/
import CV.Store.Query
import CV.Proofs.StoreBasic
namespace CV.Store
open CV

/-- `P` is closed under every primitive write of a command running at index `idx` -/
structure PrimClosed (idx : Nat) (T : Key → Prop) (Sp : String → String → String → Prop) (Np : String → Prop)
    (P : State → Prop) : Prop where
  kvInsert : ∀ (s : State) (e : KV), e.modify = idx → P s → P (kvInsert s e)
  kvDelete : ∀ (s s' : State) (k : Key), kvDeleteTxn s idx k = .ok s' → P s → P s'
  /-- `T` restricts the prefixes of the delete-tree verbs the command may contain -/
  kvDeleteTree : ∀ (s : State) (p : Key), T p → P s → P (kvDeleteTreeTxn s idx p)
  removeSessionRow : ∀ (s : State) (id : String), P s →
    P { s with sessions := terase Sess.pk (lc id) s.sessions, index := idxSet s.index "sessions" idx }
  invalidateKeys : ∀ (s : State) (sess : Sess), P s → P (invalidateKeys s idx sess)
  dropSessionRefs : ∀ (s : State) (id : String), P s → P (dropSessionRefs s idx id)
  checkPrep : ∀ (s s1 : State) (p : Bool) (hc hc1 : Chk) (md : Bool),
    checkPrep s idx p hc = .ok (s1, hc1, md) → P s → P s1
  checkFinish : ∀ (s : State) (p : Bool) (hc : Chk) (md : Bool), P s → P (checkFinish s idx p hc md)
  insertSession : ∀ (s : State) (x : Sess), P s → P (insertSession s x idx)
  pqSet : ∀ (s s' : State) (id sess : String), pqSet s idx id sess = .ok s' → P s → P s'
  pqDelete : ∀ (s : State) (id : String), P s → P (pqDelete s idx id)
  /-- `Np` restricts the node names the command may contain -/
  nodeInsert : ∀ (s : State) (n : Node), n.modify = idx → Np n.name → P s → P (nodeInsert s n)
  /-- … and the node rows of every state the predicate holds in satisfy it too (rename by node ID deletes a stored node) -/
  nodeNames : ∀ (s : State), P s → ∀ nd ∈ s.nodes, Np nd.name
  deleteCheckPre : ∀ (s : State) (node id : String) (x : Chk), chkFind s node id = some x →
    P s → P (deleteCheckPre s idx node id x)
  deleteServicePost : ∀ (s : State) (node id : String) (v : Svc), Np node → P s → P (deleteServicePost s idx node id v)
  deleteNodePost : ∀ (s : State) (name : String), P s → P (deleteNodePost s idx name)
  bumpServiceIdx : ∀ (s : State) (name : String), P s → P (bumpServiceIdx s idx name)
  /-- `Sp node id name` restricts the service payloads the command may contain -/
  svcInsert : ∀ (s : State) (v : Svc), v.modify = idx → Sp v.node v.id v.name → Np v.node → P s → P (svcInsert s v)

variable {idx : Nat} {T : Key → Prop} {Sp : String → String → String → Prop} {Np : String → Prop} {P : State → Prop}

/-! ### KV verbs -/

theorem pc_kvSet (hP : PrimClosed idx T Sp Np P) {s s' : State} {e w : KV} {upd : Bool}
    (hr : kvSetTxn s idx e upd = .ok (s', w)) (h : P s) : P s' := by
  simp only [kvSetTxn] at hr
  repeat' (split at hr)
  all_goals (try simp at hr)
  all_goals (obtain ⟨rfl, -⟩ := hr)
  all_goals (first | exact h | exact hP.kvInsert _ _ rfl h)

theorem pc_kvDeleteCas (hP : PrimClosed idx T Sp Np P) {s s' : State} {c : Nat} {k : Key} {b : Bool}
    (hr : kvDeleteCasTxn s idx c k = .ok (s', b)) (h : P s) : P s' := by
  simp only [kvDeleteCasTxn] at hr
  repeat' (split at hr)
  all_goals (try simp at hr)
  all_goals (obtain ⟨rfl, -⟩ := hr)
  all_goals (first | exact h | exact hP.kvDelete _ _ _ (by assumption) h)

theorem pc_kvSetCas (hP : PrimClosed idx T Sp Np P) {s s' : State} {e w : KV} {b : Bool}
    (hr : kvSetCasTxn s idx e = .ok (s', b, w)) (h : P s) : P s' := by
  simp only [kvSetCasTxn] at hr
  repeat' (split at hr)
  all_goals (try simp at hr)
  all_goals (obtain ⟨rfl, -, -⟩ := hr)
  all_goals (first | exact h | exact pc_kvSet hP (by assumption) h)

theorem pc_kvLock (hP : PrimClosed idx T Sp Np P) {s s' : State} {e w : KV} {b : Bool}
    (hr : kvLockTxn s idx e = .ok (s', b, w)) (h : P s) : P s' := by
  simp only [kvLockTxn] at hr
  repeat' (split at hr)
  all_goals (try simp at hr)
  all_goals (obtain ⟨rfl, -, -⟩ := hr)
  all_goals (first | exact h | exact pc_kvSet hP (by assumption) h)

theorem pc_kvUnlock (hP : PrimClosed idx T Sp Np P) {s s' : State} {e w : KV} {b : Bool}
    (hr : kvUnlockTxn s idx e = .ok (s', b, w)) (h : P s) : P s' := by
  simp only [kvUnlockTxn] at hr
  repeat' (split at hr)
  all_goals (try simp at hr)
  all_goals (obtain ⟨rfl, -, -⟩ := hr)
  all_goals (first | exact h | exact pc_kvSet hP (by assumption) h)

/-! ### the session / check cascade -/

def PcDel (idx : Nat) (P : State → Prop) (n : Nat) : Prop :=
  ∀ s id s', deleteSessionF n s idx id = .ok s' → P s → P s'
def PcChk (idx : Nat) (P : State → Prop) (n : Nat) : Prop :=
  ∀ s p hc s', ensureCheckF n s idx p hc = .ok s' → P s → P s'

theorem pcDel_zero : PcDel idx P 0 := by
  intro s id s' hr h
  rw [deleteSessionF] at hr
  split at hr
  · simp at hr; exact hr ▸ h
  · simp at hr

theorem pcDel_succ (hP : PrimClosed idx T Sp Np P) {n : Nat} (hq : PcChk idx P n) : PcDel idx P (n + 1) := by
  intro s id s' hr h
  rw [deleteSessionF] at hr
  split at hr
  · simp at hr; exact hr ▸ h
  · next sess hf =>
    simp only at hr
    refine foldE_ind P _ (fun st c st' hst hc => hq st false _ st' hc hst) _ _ _ ?_ hr
    exact hP.dropSessionRefs _ _ (hP.invalidateKeys _ _ (hP.removeSessionRow s id h))

theorem pcChk_of (hP : PrimClosed idx T Sp Np P) {n : Nat} (hp : ∀ m, n = m + 1 → PcDel idx P m) : PcChk idx P n := by
  intro s p hc s' hr h
  rw [ensureCheckF] at hr
  split at hr
  · simp at hr
  · next s1 hc1 md hprep =>
    have h1 : P s1 := hP.checkPrep _ _ _ _ _ _ hprep h
    split at hr
    · simp at hr; rw [← hr]; exact hP.checkFinish _ _ _ _ h1
    · simp at hr
    · next m _ =>
      split at hr
      · simp at hr
      · next s2 hfold =>
        simp at hr; rw [← hr]
        refine hP.checkFinish _ _ _ _ ?_
        exact foldE_ind P _ (fun st sid st' hst hc => hp m rfl st sid st' hc hst) _ _ _ h1 hfold

theorem pc_cascade (hP : PrimClosed idx T Sp Np P) (n : Nat) : PcDel idx P n ∧ PcChk idx P n := by
  induction n with
  | zero => exact ⟨pcDel_zero, pcChk_of hP (by intro m hm; omega)⟩
  | succ n ih =>
    exact ⟨pcDel_succ hP ih.2, pcChk_of hP (by intro m hm; have : m = n := by omega
                                               subst this; exact ih.1)⟩

theorem pc_deleteSession (hP : PrimClosed idx T Sp Np P) {s s' : State} {id : String}
    (hr : deleteSession s idx id = .ok s') (h : P s) : P s' :=
  (pc_cascade hP _).1 s id s' hr h

theorem pc_ensureCheck (hP : PrimClosed idx T Sp Np P) {s s' : State} {p : Bool} {hc : Chk}
    (hr : ensureCheck s idx p hc = .ok s') (h : P s) : P s' :=
  (pc_cascade hP _).2 s p hc s' hr h

theorem pc_updateSessionCheck (hP : PrimClosed idx T Sp Np P) {s s' : State} {x : Sess} {st : String}
    (hr : updateSessionCheck s idx x st = .ok s') (h : P s) : P s' := by
  unfold updateSessionCheck at hr
  exact foldE_ind P _ (fun a c a' ha hc => pc_ensureCheck hP hc ha) _ _ _ h hr

theorem pc_sessionCreate (hP : PrimClosed idx T Sp Np P) {s s' : State} {r : SessReq}
    (hr : sessionCreate s idx r = .ok s') (h : P s) : P s' := by
  simp only [sessionCreate] at hr
  repeat' (split at hr)
  all_goals (try simp at hr)
  all_goals (exact pc_updateSessionCheck hP hr (hP.insertSession _ _ h))

/-! ### the catalog -/

theorem pc_deleteCheck (hP : PrimClosed idx T Sp Np P) {s s' : State} {node id : String}
    (hr : deleteCheck s idx node id = .ok s') (h : P s) : P s' := by
  simp only [deleteCheck] at hr
  split at hr
  · simp at hr; exact hr ▸ h
  · next x hx =>
    exact foldE_ind P _ (fun a c a' ha hc => pc_deleteSession hP hc ha) _ _ _
      (hP.deleteCheckPre _ _ _ _ hx h) hr

theorem pc_deleteService (hP : PrimClosed idx T Sp Np P) {s s' : State} {node id : String} (hN : Np node)
    (hr : deleteService s idx node id = .ok s') (h : P s) : P s' := by
  simp only [deleteService] at hr
  split at hr
  · simp at hr; exact hr ▸ h
  · split at hr
    · simp at hr
    · next s1 hfold =>
      simp at hr; rw [← hr]
      have h1 : P s1 := foldE_ind P _ (fun a c a' ha hc => pc_deleteCheck hP hc ha) _ _ _ h hfold
      exact hP.deleteServicePost _ _ _ _ hN h1

theorem pc_foldl_bump (hP : PrimClosed idx T Sp Np P) (l : List Svc) (s : State) (h : P s) :
    P (l.foldl (fun st (v : Svc) => bumpServiceIdx st idx v.name) s) := by
  induction l generalizing s with
  | nil => exact h
  | cons v vs ih => exact ih _ (hP.bumpServiceIdx _ _ h)

theorem pc_deleteNode (hP : PrimClosed idx T Sp Np P) {s s' : State} {name : String} (hN : Np name)
    (hr : deleteNode s idx name = .ok s') (h : P s) : P s' := by
  simp only [deleteNode] at hr
  split at hr
  · simp at hr; exact hr ▸ h
  · split at hr
    · simp at hr
    · next s2 hf2 =>
      split at hr
      · simp at hr
      · next s3 hf3 =>
        have h1 := pc_foldl_bump hP (List.filter (fun v => lc v.node == lc name) s.svcs) s h
        have h2 : P s2 := foldE_ind P _ (fun a c a' ha hc => pc_deleteService hP hN hc ha) _ _ _ h1 hf2
        have h3 : P s3 := foldE_ind P _ (fun a c a' ha hc => pc_deleteCheck hP hc ha) _ _ _ h2 hf3
        exact foldE_ind P _ (fun a c a' ha hc => pc_deleteSession hP hc ha) _ _ _
          (hP.deleteNodePost _ _ h3) hr

theorem nodeFindByID_mem {s : State} {id : String} {n : Node} (h : nodeFindByID s id = some n) : n ∈ s.nodes := by
  unfold nodeFindByID at h
  exact List.mem_of_find?_eq_some h

theorem pc_ensureNode (hP : PrimClosed idx T Sp Np P) {s s' : State} {n : Node} (hN : Np n.name)
    (hr : ensureNode s idx n = .ok s') (h : P s) : P s' := by
  simp only [ensureNode] at hr
  split at hr
  · simp at hr
  · next s1 byId hr1 =>
    have h1 : P s1 := by
      repeat' (split at hr1)
      all_goals (try simp at hr1)
      all_goals (obtain ⟨rfl, -⟩ := hr1)
      all_goals (first | exact h | exact pc_deleteNode hP (hP.nodeNames s h _ (nodeFindByID_mem (by assumption))) (by assumption) h)
    repeat' (split at hr)
    all_goals (try simp at hr)
    all_goals (subst hr)
    all_goals (first | exact h1 | exact hP.nodeInsert _ _ rfl hN h1)

theorem pc_ensureService (hP : PrimClosed idx T Sp Np P) {s s' : State} {v : Svc} (hS : Sp v.node v.id v.name) (hN : Np v.node)
    (hr : ensureService s idx v = .ok s') (h : P s) : P s' := by
  unfold ensureService at hr
  split at hr
  · simp at hr
  · split at hr
    · simp only at hr
      split at hr
      · simp at hr; exact hr ▸ h
      · simp at hr; rw [← hr]; exact hP.svcInsert _ _ rfl hS hN h
    · simp at hr; rw [← hr]; exact hP.svcInsert _ _ rfl hS hN h

theorem pc_ensureRegistration (hP : PrimClosed idx T Sp Np P) {s s' : State} {r : RegReq}
    (hS : ∀ v, r.svc = some v → Sp r.node.name v.id v.name) (hN : Np r.node.name)
    (hr : ensureRegistration s idx r = .ok s') (h : P s) : P s' := by
  simp only [ensureRegistration] at hr
  split at hr
  · simp at hr
  · next s1 hr1 =>
    have h1 : P s1 := by
      repeat' (split at hr1)
      all_goals (try simp at hr1)
      all_goals (first | exact hr1 ▸ h | exact pc_ensureNode hP hN hr1 h)
    split at hr
    · simp at hr
    · next s2 hr2 =>
      have h2 : P s2 := by
        repeat' (split at hr2)
        all_goals (try simp at hr2)
        all_goals (first | exact hr2 ▸ h1 | (have hsp := hS _ ‹r.svc = some _›; exact pc_ensureService hP hsp hN hr2 h1))
      refine foldE_ind P _ ?_ _ _ _ h2 hr
      intro a c a' ha hc
      unfold ensureCheckIfNodeMatches at hc
      split at hc
      · simp at hc
      · exact pc_ensureCheck hP hc ha

section cas
variable (hP : PrimClosed idx T Sp Np P)
include hP

theorem pc_ensureNodeCas {s s' : State} {n : Node} {b : Bool} (hN : Np n.name)
    (hr : ensureNodeCas s idx n = .ok (s', b)) (h : P s) : P s' := by
  unfold ensureNodeCas at hr
  repeat' (split at hr)
  all_goals (try simp at hr)
  all_goals (obtain ⟨rfl, -⟩ := hr)
  all_goals (first | exact h | exact pc_ensureNode hP hN (by assumption) h)

theorem pc_deleteNodeCas {s s' : State} {c : Nat} {n : String} {b : Bool} (hN : Np n)
    (hr : deleteNodeCas s idx c n = .ok (s', b)) (h : P s) : P s' := by
  unfold deleteNodeCas at hr
  repeat' (split at hr)
  all_goals (try simp at hr)
  all_goals (obtain ⟨rfl, -⟩ := hr)
  all_goals (first | exact h | exact pc_deleteNode hP hN (by assumption) h)

theorem pc_ensureServiceCas {s s' : State} {v : Svc} {b : Bool} (hS : Sp v.node v.id v.name) (hN : Np v.node)
    (hr : ensureServiceCas s idx v = .ok (s', b)) (h : P s) : P s' := by
  unfold ensureServiceCas at hr
  repeat' (split at hr)
  all_goals (try simp at hr)
  all_goals (obtain ⟨rfl, -⟩ := hr)
  all_goals (first | exact h | exact pc_ensureService hP hS hN (by assumption) h)

theorem pc_deleteServiceCas {s s' : State} {c : Nat} {n i : String} {b : Bool} (hN : Np n)
    (hr : deleteServiceCas s idx c n i = .ok (s', b)) (h : P s) : P s' := by
  unfold deleteServiceCas at hr
  repeat' (split at hr)
  all_goals (try simp at hr)
  all_goals (obtain ⟨rfl, -⟩ := hr)
  all_goals (first | exact h | exact pc_deleteService hP hN (by assumption) h)

theorem pc_ensureCheckCas {s s' : State} {c : Chk} {b : Bool}
    (hr : ensureCheckCas s idx c = .ok (s', b)) (h : P s) : P s' := by
  unfold ensureCheckCas at hr
  repeat' (split at hr)
  all_goals (try simp at hr)
  all_goals (obtain ⟨rfl, -⟩ := hr)
  all_goals (first | exact h | exact pc_ensureCheck hP (by assumption) h)

theorem pc_deleteCheckCas {s s' : State} {c : Nat} {n i : String} {b : Bool}
    (hr : deleteCheckCas s idx c n i = .ok (s', b)) (h : P s) : P s' := by
  unfold deleteCheckCas at hr
  repeat' (split at hr)
  all_goals (try simp at hr)
  all_goals (obtain ⟨rfl, -⟩ := hr)
  all_goals (first | exact h | exact pc_deleteCheck hP (by assumption) h)

/-! ### transactions -/

/-- the prefixes of the delete-tree verbs of a transaction operation / a command -/
def TxnOp.trees : TxnOp → List Key
  | .kv .deleteTree e => [e.key]
  | _ => []

def Cmd.trees : Cmd → List Key
  | .kvDeleteTree p => [p]
  | .txn ops => ops.flatMap TxnOp.trees
  | _ => []

/-- the service payloads (node, id, name) a transaction operation / a command may write -/
def TxnOp.svcs : TxnOp → List (String × String × String)
  | .service .set x => [(x.node, x.id, x.name)]
  | .service .cas x => [(x.node, x.id, x.name)]
  | _ => []

/-- the node names a transaction operation / a command names -/
def TxnOp.nodes : TxnOp → List String
  | .node _ n => [n.name]
  | .service _ x => [x.node]
  | _ => []

def Cmd.nodes : Cmd → List String
  | .register r => [r.node.name]
  | .deregister node _ _ => [node]
  | .txn ops => ops.flatMap TxnOp.nodes
  | _ => []

def Cmd.svcs : Cmd → List (String × String × String)
  | .register r => match r.svc with
    | some v => [(r.node.name, v.id, v.name)]
    | none => []
  | .txn ops => ops.flatMap TxnOp.svcs
  | _ => []

theorem pc_txnKV {s s' : State} {v : KvVerb} {e : KV} {rs : List TxnRes}
    (hT : v = .deleteTree → T e.key)
    (hr : txnKV s idx v e = .ok (s', rs)) (h : P s) : P s' := by
  cases v <;> simp only [txnKV, okRes] at hr <;> repeat' (split at hr)
  all_goals (try simp at hr)
  all_goals (try (obtain ⟨rfl, -⟩ := hr))
  all_goals (first
    | exact h
    | exact pc_kvSet hP (by assumption) h
    | exact hP.kvDelete _ _ _ (by assumption) h
    | exact pc_kvDeleteCas hP (by assumption) h
    | exact hP.kvDeleteTree _ _ (hT rfl) h
    | exact pc_kvSetCas hP (by assumption) h
    | exact pc_kvLock hP (by assumption) h
    | exact pc_kvUnlock hP (by assumption) h)

theorem pc_txnStep {s s' : State} {op : TxnOp} {rs : List TxnRes} (hT : ∀ d ∈ op.trees, T d)
    (hS : ∀ t ∈ op.svcs, Sp t.1 t.2.1 t.2.2) (hN : ∀ a ∈ op.nodes, Np a)
    (hr : txnStep s idx op = .ok (s', rs)) (h : P s) : P s' := by
  cases op with
  | kv v e => exact pc_txnKV hP (fun hv => hT _ (by subst hv; simp [TxnOp.trees])) hr h
  | node v n =>
    simp only [txnStep, txnNode] at hr
    cases v <;> simp only [okRes] at hr <;> repeat' (split at hr)
    all_goals (try simp at hr)
    all_goals (try (obtain ⟨rfl, -⟩ := hr))
    all_goals (first
      | exact h
      | exact pc_ensureNode hP (hN n.name (by simp [TxnOp.nodes])) (by assumption) h
      | exact pc_ensureNodeCas hP (hN n.name (by simp [TxnOp.nodes])) (by assumption) h
      | exact pc_deleteNode hP (hN n.name (by simp [TxnOp.nodes])) (by assumption) h
      | exact pc_deleteNodeCas hP (hN n.name (by simp [TxnOp.nodes])) (by assumption) h)
  | service v x =>
    simp only [txnStep, txnService] at hr
    cases v <;> simp only [okRes] at hr <;> repeat' (split at hr)
    all_goals (try simp at hr)
    all_goals (try (obtain ⟨rfl, -⟩ := hr))
    all_goals (first
      | exact h
      | exact pc_ensureService hP (hS (x.node, x.id, x.name) (by simp [TxnOp.svcs])) (hN x.node (by simp [TxnOp.nodes])) (by assumption) h
      | exact pc_ensureServiceCas hP (hS (x.node, x.id, x.name) (by simp [TxnOp.svcs])) (hN x.node (by simp [TxnOp.nodes])) (by assumption) h
      | exact pc_deleteService hP (hN x.node (by simp [TxnOp.nodes])) (by assumption) h
      | exact pc_deleteServiceCas hP (hN x.node (by simp [TxnOp.nodes])) (by assumption) h)
  | check v c =>
    simp only [txnStep, txnCheck] at hr
    cases v <;> simp only [okRes] at hr <;> repeat' (split at hr)
    all_goals (try simp at hr)
    all_goals (try (obtain ⟨rfl, -⟩ := hr))
    all_goals (first
      | exact h
      | exact pc_ensureCheck hP (by assumption) h
      | exact pc_ensureCheckCas hP (by assumption) h
      | exact pc_deleteCheck hP (by assumption) h
      | exact pc_deleteCheckCas hP (by assumption) h)
  | sessionDelete id =>
    simp only [txnStep, okRes] at hr
    split at hr
    · simp at hr; exact hr.1 ▸ pc_deleteSession hP (by assumption) h
    · simp at hr

theorem pc_txnLoop (ops : List TxnOp) (hT : ∀ d ∈ ops.flatMap TxnOp.trees, T d)
    (hS : ∀ t ∈ ops.flatMap TxnOp.svcs, Sp t.1 t.2.1 t.2.2) (hN : ∀ a ∈ ops.flatMap TxnOp.nodes, Np a) (i : Nat) (s : State)
    (rs : List TxnRes) (es : List (Nat × Err)) (h : P s) : P (txnLoop idx ops i s rs es).1 := by
  induction ops generalizing i s rs es with
  | nil => exact h
  | cons op ops ih =>
    have hT1 : ∀ d ∈ op.trees, T d := fun d hd => hT d (by simp [hd])
    have hT2 : ∀ d ∈ ops.flatMap TxnOp.trees, T d := fun d hd => hT d (by
      simp only [List.flatMap_cons, List.mem_append]; exact Or.inr hd)
    have hS1 : ∀ t ∈ op.svcs, Sp t.1 t.2.1 t.2.2 := fun t ht => hS t (by simp [ht])
    have hS2 : ∀ t ∈ ops.flatMap TxnOp.svcs, Sp t.1 t.2.1 t.2.2 := fun t ht => hS t (by
      simp only [List.flatMap_cons, List.mem_append]; exact Or.inr ht)
    have hN1 : ∀ a ∈ op.nodes, Np a := fun a ha => hN a (by simp [ha])
    have hN2 : ∀ a ∈ ops.flatMap TxnOp.nodes, Np a := fun a ha => hN a (by
      simp only [List.flatMap_cons, List.mem_append]; exact Or.inr ha)
    simp only [txnLoop]
    split
    · next s' r hstep => exact ih hT2 hS2 hN2 _ _ _ _ (pc_txnStep hP hT1 hS1 hN1 hstep h)
    · exact ih hT2 hS2 hN2 _ _ _ _ h

end cas

theorem pc_liftS {s : State} {r : Except Err State} (h : P s) (hr : ∀ s', r = .ok s' → P s') :
    P (liftS s r).1 := by
  cases r with
  | ok s' => exact hr s' rfl
  | error e => exact h

theorem pc_liftB {s : State} {r : Except Err (State × Bool)} (h : P s) (hr : ∀ s' b, r = .ok (s', b) → P s') :
    P (liftB s r).1 := by
  cases r with
  | ok sb =>
    obtain ⟨s', b⟩ := sb
    simp only [liftB]
    split
    · exact hr s' b rfl
    · exact h
  | error e => exact h

/-- every command except tombstone reaping preserves a predicate closed under the primitives -/
theorem pc_apply (hP : PrimClosed idx T Sp Np P) {s : State} (c : Cmd) (hc : ∀ u, c ≠ .reap u)
    (hT : ∀ d ∈ c.trees, T d) (hS : ∀ t ∈ c.svcs, Sp t.1 t.2.1 t.2.2) (hN : ∀ a ∈ c.nodes, Np a) (h : P s) :
    P (apply s idx c).1 := by
  cases c with
  | kvSet e =>
    refine pc_liftS h (fun s' hr => ?_)
    cases hk : kvSetTxn s idx e false with
    | error er => simp [hk, Except.map] at hr
    | ok sw => obtain ⟨s1, w⟩ := sw; simp [hk, Except.map] at hr; exact hr ▸ pc_kvSet hP hk h
  | kvCas e =>
    refine pc_liftB h (fun s' b hr => ?_)
    cases hk : kvSetCasTxn s idx e with
    | error er => simp [hk, Except.map] at hr
    | ok sw => obtain ⟨s1, b1, w⟩ := sw; simp [hk, Except.map] at hr; exact hr.1 ▸ pc_kvSetCas hP hk h
  | kvDelete k => exact pc_liftS h (fun s' hr => hP.kvDelete _ _ _ hr h)
  | kvDeleteCas k c => exact pc_liftB h (fun s' b hr => pc_kvDeleteCas hP hr h)
  | kvDeleteTree p => exact hP.kvDeleteTree _ _ (hT p (by simp [Cmd.trees])) h
  | kvLock e =>
    refine pc_liftB h (fun s' b hr => ?_)
    cases hk : kvLockTxn s idx e with
    | error er => simp [hk, Except.map] at hr
    | ok sw => obtain ⟨s1, b1, w⟩ := sw; simp [hk, Except.map] at hr; exact hr.1 ▸ pc_kvLock hP hk h
  | kvUnlock e =>
    refine pc_liftB h (fun s' b hr => ?_)
    cases hk : kvUnlockTxn s idx e with
    | error er => simp [hk, Except.map] at hr
    | ok sw => obtain ⟨s1, b1, w⟩ := sw; simp [hk, Except.map] at hr; exact hr.1 ▸ pc_kvUnlock hP hk h
  | sessionCreate r => exact pc_liftS h (fun s' hr => pc_sessionCreate hP hr h)
  | sessionDestroy id => exact pc_liftS h (fun s' hr => pc_deleteSession hP hr h)
  | register r =>
    exact pc_liftS h (fun s' hr => pc_ensureRegistration hP (fun v hv => hS (r.node.name, v.id, v.name) (by simp [Cmd.svcs, hv]))
      (hN r.node.name (by simp [Cmd.nodes])) hr h)
  | deregister node svcId chkId =>
    simp only [apply]
    split
    · exact pc_liftS h (fun s' hr => pc_deleteService hP (hN node (by simp [Cmd.nodes])) hr h)
    · split
      · exact pc_liftS h (fun s' hr => pc_deleteCheck hP hr h)
      · exact pc_liftS h (fun s' hr => pc_deleteNode hP (hN node (by simp [Cmd.nodes])) hr h)
  | reap u => exact absurd rfl (hc u)
  | pqSet id session => exact pc_liftS h (fun s' hr => hP.pqSet _ _ _ _ hr h)
  | pqDelete id => exact hP.pqDelete _ _ h
  | txn ops =>
    simp only [apply, txnRW]
    have := pc_txnLoop hP ops (by simpa [Cmd.trees] using hT) (by simpa [Cmd.svcs] using hS)
      (by simpa [Cmd.nodes] using hN) 0 s [] [] h
    generalize txnLoop idx ops 0 s [] [] = r at this
    obtain ⟨s', rs, es⟩ := r
    simp only
    split
    · exact this
    · exact h

end CV.Store
