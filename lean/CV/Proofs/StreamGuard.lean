/-
Helper lemmas for C11, index-guard variant: the invariant of schedules in which subscriptions
may start at ANY moment (also between a commit and its publication), for the system whose
materializers apply the `Index ≤ last ⇒ skip` guard.
-/
import CV.Proofs.StreamGuardSim
import CV.Proofs.StreamMono
namespace CV.Stream

/-- the index a query reports follows the commits that touch it: a commit with events for `k`
    moves `queryIdx k` to at least its own index, and no commit moves a query index backwards -/
def IndexSound (c : Cat) (idx : Nat) (w : Write) : Prop :=
  ∀ k, (evsFor k (applyWrite idx c w).2.1 ≠ [] → idx ≤ queryIdx k (applyWrite idx c w).1) ∧
       queryIdx k c ≤ queryIdx k (applyWrite idx c w).1

def staleItems (k : Key) (q : List Batch) : List Item :=
  q.filterMap fun b => if evsFor k b.evs = [] then none else some (mkItem k b)

theorem queueItems_eq (k : Key) (q : List Batch) : queueItems k q = (staleItems k q).map .item := by
  unfold queueItems staleItems
  rw [List.map_filterMap]
  congr 1
  funext b
  unfold kItem
  split <;> rfl

theorem mem_staleItems {k : Key} {q : List Batch} {it : Item} (h : it ∈ staleItems k q) :
    ∃ b ∈ q, evsFor k b.evs ≠ [] ∧ it = mkItem k b := by
  unfold staleItems at h
  obtain ⟨b, hb, he⟩ := List.mem_filterMap.mp h
  by_cases h0 : evsFor k b.evs = []
  · simp [h0] at he
  · simp only [h0, ↓reduceIte, Option.some.injEq] at he
    exact ⟨b, hb, h0, he.symm⟩

structure InvG (y : Sys) : Prop where
  wf    : WF y.cat
  one   : 1 ≤ y.lastIdx
  ib    : IdxBound y.cat y.lastIdx
  hok   : ∀ c ∈ y.clients, HOk c.m
  exact : ∀ c ∈ y.clients, Exact c.m
  sim   : ∀ c ∈ y.clients, c.sub = .opened →
            SimG y.lastIdx c.m (c.inbox ++ queueItems c.key y.queue) (query c.key y.cat)
  cache : ∀ e ∈ y.cache, ∀ e0,
            SimG y.lastIdx ⟨.snap [], [], 0, e0⟩ (e.steps ++ queueItems e.key y.queue) (query e.key y.cat)
  cbuf  : ∀ e ∈ y.cache, hasBuf y e.key = true
  ids   : (y.clients.map (·.id)).Nodup
  qb    : ∀ b ∈ y.queue, ∀ k, evsFor k b.evs ≠ [] → b.idx ≤ queryIdx k y.cat
  lb    : ∀ k it, lookup? k y.lasts = some it → it.idx ≤ queryIdx k y.cat

theorem InvG.init (ttl : Bool) : InvG (Sys.init ttl) := by
  refine ⟨WF.empty, Nat.le_refl _, IdxBound.empty _, ?_, ?_, ?_, ?_, ?_, ?_, ?_, ?_⟩ <;> simp [Sys.init]

/-! ### commit -/

theorem simG_commit {B : Nat} {m : Mat} {l : List Step} {k : Key} {c : Cat} {q : List Batch} (idx : Nat) (w : Write)
    (hidx : B < idx) (hf : Faithful c idx w)
    (h : SimG B m (l ++ queueItems k q) (query k c)) :
    SimG idx m (l ++ queueItems k (q ++ [⟨idx, (applyWrite idx c w).2.1, (applyWrite idx c w).2.2, (applyWrite idx c w).1⟩]))
      (query k (applyWrite idx c w).1) := by
  unfold queueItems
  rw [List.filterMap_append, ← List.append_assoc]
  simp only [List.filterMap_cons, List.filterMap_nil]
  unfold kItem
  by_cases he : evsFor k (applyWrite idx c w).2.1 = []
  · simp only [he, ↓reduceIte, List.append_nil]
    apply SimG.mono_B (Nat.le_of_lt hidx)
    apply SimG.congr_fin _ h
    have := hf k
    rw [he] at this
    exact this.symm
  · simp only [he, ↓reduceIte]
    have := SimG.append_item (mkItem k ⟨idx, (applyWrite idx c w).2.1, (applyWrite idx c w).2.2, (applyWrite idx c w).1⟩) h hidx
    apply this
    intro v hv
    exact (applyEvs_congr hv _).trans (hf k).symm

theorem InvG.commit {y : Sys} (h : InvG y) (idx : Nat) (w : Write) (hidx : y.lastIdx < idx)
    (hf : Faithful y.cat idx w) (hs : IndexSound y.cat idx w) : InvG (commit y idx w) := by
  unfold CV.Stream.commit
  have hle := Nat.le_of_lt hidx
  refine ⟨applyWrite_wf idx w h.wf, Nat.le_trans h.one hle, applyWrite_idxBound idx w h.ib hle,
    h.hok, h.exact, ?_, ?_, h.cbuf, h.ids, ?_, ?_⟩
  · intro c hc ho
    exact simG_commit idx w hidx hf (h.sim c hc ho)
  · intro e he e0
    exact simG_commit idx w hidx hf (h.cache e he e0)
  · intro b hb k hk
    rcases List.mem_append.mp hb with hb | hb
    · exact Nat.le_trans (h.qb b hb k hk) (hs k).2
    · simp only [List.mem_singleton] at hb
      subst hb
      exact (hs k).1 hk
  · intro k it hl
    exact Nat.le_trans (h.lb k it hl) (hs k).2

/-! ### publishOne -/

theorem publishKey_lasts (b : Batch) (y : Sys) (k : Key) :
    (publishKey b y k).lasts = if hasBuf y k then upsert k (mkItem k b) y.lasts else y.lasts := by
  unfold publishKey
  split <;> rfl

theorem foldl_publishKey_lasts (b : Batch) (keys : List Key) (y : Sys) (k : Key) (it : Item)
    (h : lookup? k (keys.foldl (publishKey b) y).lasts = some it) :
    (k ∈ keys ∧ it = mkItem k b) ∨ lookup? k y.lasts = some it := by
  induction keys generalizing y with
  | nil => exact Or.inr h
  | cons a r ih =>
    rw [List.foldl_cons] at h
    rcases ih _ h with ⟨hk, hi⟩ | hl
    · exact Or.inl ⟨List.mem_cons_of_mem _ hk, hi⟩
    · rw [publishKey_lasts] at hl
      by_cases hb : hasBuf y a
      · simp only [hb, ↓reduceIte, lookup?_upsert] at hl
        by_cases hka : k = a
        · subst hka
          simp only [↓reduceIte, Option.some.injEq] at hl
          exact Or.inl ⟨List.mem_cons_self, hl.symm⟩
        · simp only [hka, ↓reduceIte] at hl
          exact Or.inr hl
      · simp only [hb, Bool.false_eq_true, ↓reduceIte] at hl
        exact Or.inr hl

theorem InvG.publishOne {y : Sys} (h : InvG y) : InvG (CV.Stream.publishOne y) := by
  cases hq : y.queue with
  | nil => unfold CV.Stream.publishOne; rw [hq]; exact h
  | cons b rest =>
    obtain ⟨hcat, hqu, hli⟩ := publishOne_cat_queue hq
    have hn : (keysOf b.evs).Nodup := nodup_dedupKeys _
    have hsh : (CV.Stream.publishOne y).clients.map (fun c => (c.key, attached c)) = y.clients.map (fun c => (c.key, attached c)) := by
      rw [publishOne_eq y b rest hq, foldl_publishKey_clients b (keysOf b.evs) hn]
      simp only [List.map_map]
      apply List.map_congr_left
      intro c _
      simp only [Function.comp_def]
      have f2 := (closeAcl_fields b c).2.1
      have fa := closeAcl_attached b c
      split
      · exact Prod.ext f2 fa
      · exact Prod.ext f2 fa
    have hbuf : ∀ k, hasBuf (CV.Stream.publishOne y) k = hasBuf y k := by
      intro k
      unfold hasBuf
      have e : ∀ l : List Client, (l.any fun c => decide (c.key = k ∧ attached c)) =
          ((l.map fun c => (c.key, attached c)).any fun p => decide (p.1 = k ∧ p.2 = true)) := by
        intro l; simp [List.any_map, Function.comp_def]
      rw [e, e, hsh]
    refine ⟨by rw [hcat]; exact h.wf, by rw [hli]; exact h.one, by rw [hcat, hli]; exact h.ib, ?_, ?_, ?_, ?_, ?_, ?_, ?_, ?_⟩
    · intro c' hc'
      obtain ⟨c, hc, hm, -⟩ := publishOne_mem hq c' hc'
      rw [hm]; exact h.hok c hc
    · intro c' hc'
      obtain ⟨c, hc, hm, -⟩ := publishOne_mem hq c' hc'
      rw [hm]; exact h.exact c hc
    · intro c' hc' ho
      obtain ⟨c, hc, hm, hk, -, -, -, hs, hi, -⟩ := publishOne_mem hq c' hc'
      have hop := hs ho
      have hat : attached c = true := by simp [attached, hop]
      have := h.sim c hc hop
      rw [hq] at this
      rw [hm, hk, hi, hqu, hcat, hli]
      simp only [hat, and_true]
      rw [pending_publish]
      exact this
    · intro e' he' e0
      rw [publishOne_eq y b rest hq, foldl_publishKey_cache b (keysOf b.evs) hn] at he'
      obtain ⟨e, he, rfl⟩ := List.mem_map.mp he'
      have hb : hasBuf { y with queue := rest, clients := y.clients.map (closeAcl b) } e.key = true := by
        rw [hasBuf_closeAcl]; exact h.cbuf e he
      have := h.cache e he e0
      rw [hq] at this
      rw [hqu, hcat, hli]
      simp only [hb, and_true]
      have hp := pending_publish e.key b rest e.steps
      by_cases hk : e.key ∈ keysOf b.evs
      · simp only [hk, ↓reduceIte] at hp ⊢
        rw [steps_append_tail, hp]; exact this
      · simp only [hk, ↓reduceIte] at hp ⊢
        rw [hp]; exact this
    · intro e' he'
      rw [publishOne_eq y b rest hq, foldl_publishKey_cache b (keysOf b.evs) hn] at he'
      obtain ⟨e, he, rfl⟩ := List.mem_map.mp he'
      have hkey : (if e.key ∈ keysOf b.evs ∧ hasBuf { y with queue := rest, clients := y.clients.map (closeAcl b) } e.key = true
          then ({ e with tail := e.tail ++ [mkItem e.key b] } : CacheEnt) else e).key = e.key := by
        split <;> rfl
      rw [hkey, hbuf]
      exact h.cbuf e he
    · have : (CV.Stream.publishOne y).clients.map (·.id) = y.clients.map (·.id) := by
        rw [publishOne_eq y b rest hq, foldl_publishKey_clients b (keysOf b.evs) hn]
        simp only [List.map_map]
        apply List.map_congr_left
        intro c _
        simp only [Function.comp_def]
        have f3 := (closeAcl_fields b c).2.2.1
        split <;> simp [f3]
      rw [this]; exact h.ids
    · intro b' hb' k hk
      rw [hqu] at hb'
      rw [hcat]
      exact h.qb b' (by rw [hq]; exact List.mem_cons_of_mem _ hb') k hk
    · intro k it hl
      rw [hcat]
      rw [publishOne_eq y b rest hq] at hl
      rcases foldl_publishKey_lasts b _ _ k it hl with ⟨hk, rfl⟩ | hl'
      · have := (mem_keysOf k b.evs).mp hk
        exact h.qb b (by rw [hq]; exact List.mem_cons_self) k this
      · exact h.lb k it hl'

/-! ### nextG, unsub, expire, addClient -/

/-- generic step: one client replaced (same id); cache may be replaced by a list whose entries are
    old ones or satisfy the cache invariant for a key with a buffer; catalog/queue unchanged -/
theorem InvG.replace {y : Sys} (h : InvG y) {c : Client} (c' : Client) (ca : List CacheEnt) (la : List (Key × Item))
    (hc : c ∈ y.clients) (e : c'.id = c.id)
    (hok : HOk c'.m) (hex : Exact c'.m)
    (hsim : c'.sub = .opened → SimG y.lastIdx c'.m (c'.inbox ++ queueItems c'.key y.queue) (query c'.key y.cat))
    (hca : ∀ en ∈ ca, (∀ e0, SimG y.lastIdx ⟨.snap [], [], 0, e0⟩ (en.steps ++ queueItems en.key y.queue) (query en.key y.cat)) ∧
        hasBuf (setClient y c') en.key = true)
    (hla : ∀ k it, lookup? k la = some it → it.idx ≤ queryIdx k y.cat) :
    InvG { setClient { y with cache := ca } c' with lasts := la } := by
  refine ⟨h.wf, h.one, h.ib, ?_, ?_, ?_, ?_, ?_, by
    show ((setClient { y with cache := ca } c').clients.map (·.id)).Nodup
    rw [setClient_ids]; exact h.ids, h.qb, hla⟩
  · intro d hd
    rcases mem_setClient (y := { y with cache := ca }) hd with rfl | ⟨hd', -⟩
    · exact hok
    · exact h.hok d hd'
  · intro d hd
    rcases mem_setClient (y := { y with cache := ca }) hd with rfl | ⟨hd', -⟩
    · exact hex
    · exact h.exact d hd'
  · intro d hd ho
    rcases mem_setClient (y := { y with cache := ca }) hd with rfl | ⟨hd', -⟩
    · exact hsim ho
    · exact h.sim d hd' ho
  · intro en hen e0
    exact (hca en hen).1 e0
  · intro en hen
    exact (hca en hen).2

theorem InvG.nextG {y : Sys} (h : InvG y) (id : Nat) (hz : ∀ c, getClient y id = some c → c.authz = .all) :
    InvG (nextG y id).1 := by
  unfold CV.Stream.nextG CV.Stream.nextWith
  cases hg : getClient y id with
  | none => exact h
  | some c =>
    obtain ⟨hc, -⟩ := getClient_mem hg
    simp only
    have hcache : ∀ (c' : Client), c'.id = c.id → c'.key = c.key → c'.sub = c.sub → ∀ en ∈ y.cache,
        (∀ e0, SimG y.lastIdx ⟨.snap [], [], 0, e0⟩ (en.steps ++ queueItems en.key y.queue) (query en.key y.cat)) ∧
        hasBuf (setClient y c') en.key = true := by
      intro c' e hk hs en hen
      refine ⟨h.cache en hen, ?_⟩
      rw [hasBuf_congr (setClient_shape h.ids hc e hk hs)]
      exact h.cbuf en hen
    cases hsub : c.sub with
    | none => exact h
    | force =>
      simp only
      by_cases hr : c.rpc
      · simp only [hr, ↓reduceIte]
        exact h.replace _ y.cache y.lasts hc rfl (HOk.reset _) (by intro hi; simp [Mat.reset] at hi)
          (by intro ho; simp at ho) (hcache _ rfl rfl hsub.symm) h.lb
      · simp only [hr]
        exact h.replace _ y.cache y.lasts hc rfl (h.hok c hc) (h.exact c hc) (fun ho => h.sim c hc ho)
          (hcache _ rfl rfl rfl) h.lb
    | acl =>
      simp only
      by_cases hr : c.rpc
      · simp only [hr, ↓reduceIte]
        exact h.replace _ y.cache y.lasts hc rfl (HOk.reset _) (by intro hi; simp [Mat.reset] at hi)
          (by intro ho; simp at ho) (hcache _ rfl rfl hsub.symm) h.lb
      · simp only [hr]
        exact h.replace _ y.cache y.lasts hc rfl (h.hok c hc) (h.exact c hc) (fun ho => h.sim c hc ho)
          (hcache _ rfl rfl rfl) h.lb
    | opened =>
      simp only
      cases hin : c.inbox with
      | nil => exact h
      | cons st rest =>
        simp only [hz c hg, visible_all]
        have hs := h.sim c hc hsub
        rw [hin] at hs
        obtain ⟨-, -, hrest⟩ := hs
        cases hidx : stepIdx st with
        | none =>
          simp only
          exact h.replace _ y.cache y.lasts hc rfl hrest.hok hrest.exact (fun _ => hrest) (hcache _ rfl rfl hsub.symm) h.lb
        | some i =>
          simp only
          exact h.replace _ y.cache y.lasts hc rfl hrest.hok hrest.exact (fun _ => hrest) (hcache _ rfl rfl hsub.symm) h.lb

theorem InvG.expire {y : Sys} (h : InvG y) : InvG (expire y) := by
  unfold CV.Stream.expire
  exact ⟨h.wf, h.one, h.ib, h.hok, h.exact, h.sim, (by intro e he; cases he), (by intro e he; cases he), h.ids, h.qb, h.lb⟩

theorem InvG.addClient {y : Sys} (h : InvG y) (id : Nat) (k : Key) (t : String) (r : Bool) (a : Authz) :
    InvG (addClient y id k t r a) := by
  unfold CV.Stream.addClient
  cases hg : getClient y id with
  | some c => simpa using h
  | none =>
    simp only [Option.isSome_none, Bool.false_eq_true, ↓reduceIte]
    have hnew : HOk (⟨.snap [], [], 0, []⟩ : Mat) :=
      ⟨by simp, fun _ => rfl, by intro hh; simp at hh, fun _ _ => rfl⟩
    refine ⟨h.wf, h.one, h.ib, ?_, ?_, ?_, h.cache, ?_, ?_, h.qb, h.lb⟩
    · intro c hc
      rcases List.mem_append.mp hc with hc | hc
      · exact h.hok c hc
      · simp only [List.mem_singleton] at hc; subst hc; exact hnew
    · intro c hc
      rcases List.mem_append.mp hc with hc | hc
      · exact h.exact c hc
      · simp only [List.mem_singleton] at hc; subst hc; intro hi; simp at hi
    · intro c hc ho
      rcases List.mem_append.mp hc with hc | hc
      · exact h.sim c hc ho
      · simp only [List.mem_singleton] at hc; subst hc; simp at ho
    · intro e he
      have := (hasBuf_iff y e.key).mp (h.cbuf e he)
      obtain ⟨c, hc, hk, ha⟩ := this
      exact (hasBuf_iff _ e.key).mpr ⟨c, List.mem_append_left _ hc, hk, ha⟩
    · rw [List.map_append, List.nodup_append]
      refine ⟨h.ids, by simp, ?_⟩
      intro a ha b hb
      simp only [List.map_cons, List.map_nil, List.mem_singleton] at hb
      subst hb
      intro hab
      obtain ⟨c, hc, hci⟩ := List.mem_map.mp ha
      unfold getClient at hg
      have := List.find?_eq_none.mp hg c hc
      simp [hci, hab] at this

theorem InvG.unsub {y : Sys} (h : InvG y) (id : Nat) : InvG (unsub y id) := by
  unfold CV.Stream.unsub
  cases hg : getClient y id with
  | none => exact h
  | some c =>
    obtain ⟨hc, -⟩ := getClient_mem hg
    simp only
    by_cases ha : attached c
    · simp only [ha, not_true_eq_false, ↓reduceIte]
      by_cases hb : hasBuf (setClient y { c with sub := .none, inbox := [] }) c.key
      · simp only [hb, ↓reduceIte]
        refine h.replace { c with sub := .none, inbox := [] } y.cache y.lasts hc rfl (h.hok c hc) (h.exact c hc)
          (by intro ho; simp at ho) ?_ h.lb
        intro en hen
        refine ⟨h.cache en hen, ?_⟩
        by_cases hk : en.key = c.key
        · rw [hk]; exact hb
        · rw [hasBuf_setClient_other (c := c) (c' := { c with sub := .none, inbox := [] }) h.ids hc rfl rfl hk]
          exact h.cbuf en hen
      · simp only [hb, Bool.false_eq_true, ↓reduceIte]
        refine h.replace { c with sub := .none, inbox := [] } (y.cache.filter fun e => e.key ≠ c.key) (erase c.key y.lasts)
          hc rfl (h.hok c hc) (h.exact c hc) (by intro ho; simp at ho) ?_ ?_
        · intro en hen
          have he' := List.mem_filter.mp hen
          have hk : en.key ≠ c.key := by simpa using he'.2
          refine ⟨h.cache en he'.1, ?_⟩
          rw [hasBuf_setClient_other (c := c) (c' := { c with sub := .none, inbox := [] }) h.ids hc rfl rfl hk]
          exact h.cbuf en he'.1
        · intro k it hl
          rw [lookup?_erase] at hl
          by_cases hk : k = c.key
          · simp [hk] at hl
          · simp only [hk, ↓reduceIte] at hl
            exact h.lb k it hl
    · simp only [ha, not_false_eq_true, ↓reduceIte]
      exact h

/-! ### subscribe at any moment -/

/-- the only restriction left on a subscription: it does not take the resume path -/
def NoResume (y : Sys) (id : Nat) : Prop :=
  match getClient y id with
  | none => True
  | some c => attached c = true ∨ resumes c (lookup? c.key y.lasts) = false

theorem simG_snapshot_path {B : Nat} {c : Client} {q : List Batch} {cat : Cat} (hkc : HOk c.m) (hex : Exact c.m)
    (en : CacheEnt) (hek : en.key = c.key)
    (hsim : ∀ e0, SimG B ⟨.snap [], [], 0, e0⟩ (en.steps ++ queueItems en.key q) (query en.key cat)) :
    SimG B c.m.start ((preamble c ++ en.steps) ++ queueItems c.key q) (query c.key cat) := by
  rw [← hek]
  unfold preamble
  by_cases hi : c.m.index = 0
  · simp only [hi, ne_eq, not_true_eq_false, ↓reduceIte, List.nil_append]
    have hm : c.m.start = ⟨.snap [], [], 0, c.m.expect⟩ := by
      unfold Mat.start
      have hv := hkc.empty hi
      cases hcm : c.m
      simp_all
    rw [hm]; exact hsim _
  · simp only [ne_eq, hi, not_false_eq_true, ↓reduceIte, List.cons_append, List.nil_append]
    have hr : c.m.start.h = .resume := by simp [Mat.start, hi]
    have he : c.m.start.expect = c.m.expect := rfl
    refine SimG.nstf hkc.start hex hr ?_
    rw [he]; exact hsim _

theorem InvG.subscribe {y : Sys} (h : InvG y) (id : Nat) (hcl : NoResume y id) : InvG (subscribe y id) := by
  unfold CV.Stream.subscribe
  unfold NoResume at hcl
  cases hg : getClient y id with
  | none => exact h
  | some c =>
    obtain ⟨hc, -⟩ := getClient_mem hg
    rw [hg] at hcl
    simp only at hcl ⊢
    by_cases ha : attached c = true
    · simp [ha]; exact h
    · have ha' : attached c = false := by simpa using ha
      rcases hcl with hcl | hnr
      · exact absurd hcl ha
      simp only [ha, Bool.false_eq_true, ↓reduceIte, hnr]
      have hkc := h.hok c hc
      have hex : Exact c.m := h.exact c hc
      have hex' : Exact c.m.start := hex
      have hself : ∀ inbox, openSub c inbox ∈ (setClient y (openSub c inbox)).clients := fun inbox =>
        mem_setClient_self hc rfl
      have hbufNew : ∀ inbox, hasBuf (setClient y (openSub c inbox)) c.key = true := by
        intro inbox
        rw [hasBuf_iff]
        exact ⟨_, hself inbox, rfl, by simp [attached, openSub]⟩
      have hold : ∀ inbox, ∀ en ∈ y.cache,
          (∀ e0, SimG y.lastIdx ⟨.snap [], [], 0, e0⟩ (en.steps ++ queueItems en.key y.queue) (query en.key y.cat)) ∧
          hasBuf (setClient y (openSub c inbox)) en.key = true := by
        intro inbox en hen
        exact ⟨h.cache en hen, hasBuf_setClient_mono (c' := openSub c inbox) h.ids hc rfl ha' (h.cbuf en hen)⟩
      cases hf : y.cache.find? (fun e => e.key = c.key) with
      | some en =>
        simp only
        have hen : en ∈ y.cache := List.mem_of_find?_eq_some hf
        have hek : en.key = c.key := by simpa using List.find?_some hf
        exact h.replace (openSub c (preamble c ++ en.steps)) y.cache y.lasts hc rfl hkc.start hex'
          (fun _ => simG_snapshot_path hkc hex en hek (h.cache en hen)) (hold _) h.lb
      | none =>
        simp only
        -- the spliced tail is empty: the most recent buffered item is not newer than the snapshot
        have htl : (freshEnt c.key y.cat (lookup? c.key y.lasts)).tail = [] := by
          simp only [freshEnt]
          cases hl : lookup? c.key y.lasts with
          | none => rfl
          | some it =>
            have h1 := h.lb c.key it hl
            have h2 := queryIdx_le_snapIdx c.key y.cat
            simp only
            rw [if_neg (by omega)]
        have hnew : ∀ e0, SimG y.lastIdx ⟨.snap [], [], 0, e0⟩
            ((freshEnt c.key y.cat (lookup? c.key y.lasts)).steps ++ queueItems (freshEnt c.key y.cat (lookup? c.key y.lasts)).key y.queue)
            (query (freshEnt c.key y.cat (lookup? c.key y.lasts)).key y.cat) := by
          intro e0
          unfold CacheEnt.steps
          rw [htl]
          simp only [freshEnt, List.map_nil, List.append_nil]
          rw [queueItems_eq]
          apply SimG.snapshot [] _ _ _ _ e0 (snapIdx_ne_zero _ _) (snapIdx_le h.ib h.one _)
          · simp only [List.nil_append, List.flatMap_map]
            have := snapshot_exact c.key h.wf
            simpa [List.flatMap_id'] using this
          · intro it hit
            obtain ⟨b, hb, hne, rfl⟩ := mem_staleItems hit
            have h1 := h.qb b hb c.key hne
            have h2 := queryIdx_le_snapIdx c.key y.cat
            show b.idx ≤ snapIdx c.key y.cat
            omega
        refine h.replace (openSub c (preamble c ++ (freshEnt c.key y.cat (lookup? c.key y.lasts)).steps))
          (if y.ttl then y.cache ++ [freshEnt c.key y.cat (lookup? c.key y.lasts)] else y.cache) y.lasts hc rfl
          hkc.start hex' (fun _ => simG_snapshot_path hkc hex _ rfl hnew) ?_ h.lb
        intro en hen
        by_cases ht : y.ttl
        · simp only [ht, ↓reduceIte] at hen
          rcases List.mem_append.mp hen with hen | hen
          · exact hold _ en hen
          · simp only [List.mem_singleton] at hen
            subst hen
            exact ⟨hnew, hbufNew _⟩
        · simp only [ht, Bool.false_eq_true, ↓reduceIte] at hen
          exact hold _ en hen

end CV.Stream
