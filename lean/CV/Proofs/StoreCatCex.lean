/-
Concrete reachable states of the C07 model on which the full-strength "derived views agree" statements fail
(the model mirrors the code; the same histories are replayed against the real store by the harness corpus).

Kernel evaluation of the model on string literals is not available (`String.map`, used by `lc`, is defined by
well-founded recursion), so each state is computed by `simp` one command at a time: `…_facts` lemmas give the
tables of the state after a command from the tables of the state before it.
-/
import CV.Proofs.StoreCatVip
import CV.Store.CatXSpec
set_option linter.unusedSimpArgs false
namespace CV.Store.Cex
open CV CV.Store

theorem lc_lit (s t : String) (h : s.toList.map Char.toLower = t.toList) : lc s = t := by
  apply String.ext; rw [lc, String.toList_map]; exact h

theorem lc_n1 : lc "n1" = "n1" := lc_lit _ _ (by decide)
theorem lc_id1 : lc "id1" = "id1" := lc_lit _ _ (by decide)
theorem lc_empty : lc "" = "" := lc_lit _ _ (by decide)
theorem lc_web1 : lc "web1" = "web1" := lc_lit _ _ (by decide)
theorem lc_web : lc "web" = "web" := lc_lit _ _ (by decide)
theorem lc_db1 : lc "db1" = "db1" := lc_lit _ _ (by decide)
theorem lc_db : lc "db" = "db" := lc_lit _ _ (by decide)
theorem lc_Db : lc "Db" = "db" := lc_lit _ _ (by decide)
theorem lc_ce : lc "connect-enabled" = "connect-enabled" := lc_lit _ _ (by decide)
theorem lc_cp : lc "connect-proxy" = "connect-proxy" := lc_lit _ _ (by decide)
theorem lc_wsp : lc "web-sidecar-proxy" = "web-sidecar-proxy" := lc_lit _ _ (by decide)
theorem lc_vips : lc "virtual-ips" = "virtual-ips" := lc_lit _ _ (by decide)
theorem lc_sd : lc "service-defaults" = "service-defaults" := lc_lit _ _ (by decide)
theorem lc_tilde : lc "~" = "~" := lc_lit _ _ (by decide)
theorem lc_nodes : lc "nodes" = "nodes" := lc_lit _ _ (by decide)
theorem lc_services : lc "services" = "services" := lc_lit _ _ (by decide)
theorem lc_sn : lc "service-names" = "service-names" := lc_lit _ _ (by decide)
theorem lc_bill : lc "billable-services" = "billable-services" := lc_lit _ _ (by decide)

attribute [local simp] lc_n1 lc_id1 lc_empty lc_web1 lc_web lc_db1 lc_db lc_Db lc_ce lc_cp lc_wsp lc_vips lc_sd lc_tilde lc_nodes
  lc_services lc_sn lc_bill

theorem NF_lit {s : String} (h : nulC ∉ s.toList.map Char.toLower) : NF s := by
  unfold NF lc; rw [String.toList_map]; exact h

def n1 : Node := ⟨"n1", "id1", "10.0.0.1", 0, 0⟩

/-! ### kind-service-names: a connect-enabled row outlives the last Connect instance -/

def webNative : SvcReq := ⟨"web1", "web", 80, .typical, true, "", [], false, 0⟩
def webPlain : SvcReq := ⟨"web1", "web", 80, .typical, false, "", [], false, 0⟩
def cmd1 : XCmd := .register ⟨"", n1, some webNative, []⟩
def cmd2 : XCmd := .register ⟨"", n1, some webPlain, []⟩
def s1 : XState := (applyX XState.empty 1 cmd1).1

set_option maxRecDepth 8000 in
theorem s1_facts :
    s1.loc.st.nodes = [⟨"n1", "id1", "10.0.0.1", 1, 1⟩] ∧
    s1.loc.st.svcs = [⟨"n1", "web1", "web", 80, 1, 1⟩] ∧
    s1.loc.ext = [⟨"n1", "web1", .typical, true, "", [], none⟩] ∧
    s1.kindNames = [⟨.typical, "web", 1, 1⟩, ⟨.connectEnabled, "web", 1, 1⟩] ∧
    s1.sysMeta = [] ∧ s1.peers = [] ∧ s1.cfg = [] := by
  simp [s1, cmd1, applyX, stepX, liftSX, registerX, XState.cat, XState.empty, nodeFind, tfind, ensureNodeX, n1, webNative, nodeFindByID, nameClash,
    XState.setCat, nodeInsert, tupsert, State.maxIdx2, State.maxIdx, idxMax, idxGet, idxSet, Node.pk, updateAllServiceIndexesOfNode,
    ensureServiceX, ksnUpsert, ksnKey, pk2, Kind.raw, XState.vipsSupported, svcFind, extFind, XState.putSvc, svcInsert, XState.onSt, foldE,
    commitUsage, KsnRow.pk, strLt, nul, Svc.pk, SvcX.pk]

def s2 : XState := (applyX s1 2 cmd2).1

set_option maxRecDepth 8000 in
theorem s2_facts :
    s2.loc.ext = [⟨"n1", "web1", .typical, false, "", [], none⟩] ∧
    s2.loc.st.svcs = [⟨"n1", "web1", "web", 80, 1, 2⟩] ∧
    s2.kindNames = [⟨.typical, "web", 1, 1⟩, ⟨.connectEnabled, "web", 1, 1⟩] ∧ s2.cfg = [] := by
  obtain ⟨f1, f2, f3, f4, f5, f6, f7⟩ := s1_facts
  simp [s2, cmd2, applyX, stepX, liftSX, registerX, XState.cat, nodeFind, tfind, n1, webPlain, nodeSame,
    XState.setCat, tupsert, ensureServiceX, ksnUpsert, ksnKey, pk2, Kind.raw, XState.vipsSupported, svcFind, extFind, XState.putSvc, svcInsert,
    XState.onSt, foldE, commitUsage, KsnRow.pk, strLt, nul, Svc.pk, SvcX.pk, reqSame, svcSame, extSame, Node.pk,
    f1, f2, f3, f4, f5, f6, f7, State.maxIdx2, State.maxIdx]

def logKsn : XLog := [(1, cmd1), (2, cmd2)]

theorem logKsn_wf : XLog.wf logKsn := by
  intro ic hic
  simp only [logKsn, List.mem_cons, List.mem_nil_iff, or_false] at hic
  rcases hic with rfl | rfl <;> exact NF_lit (by decide)

theorem replay_logKsn : replayX XState.empty logKsn = s2 := rfl

/-- after `register web1/web connect-native; register web1/web (not native)` the table still lists
    (connect-enabled, web) although no local instance serves web through Connect -/
theorem s2_not_exact : ¬ KindNamesExact s2 := by
  obtain ⟨f1, f2, f3, f4⟩ := s2_facts
  intro h
  have hrow : ∃ r ∈ s2.kindNames, r.kind = Kind.connectEnabled ∧ lc r.name = "web" := by
    rw [f3]; exact ⟨⟨.connectEnabled, "web", 1, 1⟩, by simp, rfl, lc_web⟩
  have := (h Kind.connectEnabled "web").mp hrow
  simp [kindNamesOf, Cat.rows, f1, f2, f4, tfind, Svc.pk, SvcX.pk, pk2, connectName] at this

/-! ### virtual IPs: an address is freed while a sidecar still advertises it -/

def sidecar : SvcReq := ⟨"web-sidecar-proxy", "web-sidecar-proxy", 80, .connectProxy, false, "web", [], false, 0⟩
def v1 : XCmd := .sysmeta "virtual-ips" (some "true")
def v2 : XCmd := .register ⟨"", n1, some sidecar, []⟩
def v3 : XCmd := .configSet "service-defaults" "web" false "tcp"
def v4 : XCmd := .configDelete "service-defaults" "web"
def t1 : XState := (applyX XState.empty 1 v1).1
def t2 : XState := (applyX t1 2 v2).1
def t3 : XState := (applyX t2 3 v3).1
def t4 : XState := (applyX t3 4 v4).1

set_option maxRecDepth 8000 in
theorem t1_facts : t1.sysMeta = [("virtual-ips", "true")] ∧ t1.loc = {} ∧ t1.peers = [] ∧ t1.vips = [] ∧ t1.freeIP = none ∧
    t1.counter = none ∧ t1.cfg = [] ∧ t1.kindNames = [] := by
  simp [t1, v1, applyX, stepX, sysMetaSet, commitUsage, XState.empty, tupsert]

set_option maxRecDepth 8000 in
theorem t2_facts : t2.sysMeta = [("virtual-ips", "true")] ∧ t2.peers = [] ∧
    t2.loc.st.svcs = [⟨"n1", "web-sidecar-proxy", "web-sidecar-proxy", 80, 2, 2⟩] ∧
    t2.loc.ext = [⟨"n1", "web-sidecar-proxy", .connectProxy, false, "web", [], some 1⟩] ∧
    t2.vips = [⟨"", "web", 1, 2, 2⟩] ∧ t2.freeIP = none ∧ t2.counter = some 1 ∧ t2.cfg = [] := by
  obtain ⟨f1, f2, f3, f4, f5, f6, f7, f8⟩ := t1_facts
  simp [t2, v2, applyX, stepX, liftSX, registerX, XState.cat, nodeFind, tfind, ensureNodeX, n1, sidecar, nodeFindByID, nameClash,
    XState.setCat, nodeInsert, tupsert, State.maxIdx2, State.maxIdx, idxMax, idxGet, idxSet, Node.pk, updateAllServiceIndexesOfNode,
    ensureServiceX, ksnUpsert, ksnKey, pk2, Kind.raw, XState.vipsSupported, svcFind, extFind, XState.putSvc, svcInsert, XState.onSt, foldE,
    commitUsage, KsnRow.pk, strLt, nul, Svc.pk, SvcX.pk, assignVip, vipKey, VipRow.pk, maxVipOffset, f1, f2, f3, f4, f5, f6, f7, f8]

set_option maxRecDepth 8000 in
theorem t3_facts : t3.sysMeta = [("virtual-ips", "true")] ∧ t3.peers = [] ∧
    t3.loc.st.svcs = [⟨"n1", "web-sidecar-proxy", "web-sidecar-proxy", 80, 2, 2⟩] ∧
    t3.loc.ext = [⟨"n1", "web-sidecar-proxy", .connectProxy, false, "web", [], some 1⟩] ∧
    t3.vips = [⟨"", "web", 1, 2, 2⟩] ∧ t3.freeIP = none ∧ t3.counter = some 1 ∧
    t3.cfg = [⟨"service-defaults", "web", false, "tcp", 3, 3⟩] := by
  obtain ⟨f1, f2, f3, f4, f5, f6, f7, f8⟩ := t2_facts
  simp [t3, v3, applyX, stepX, liftSX, configUpsert, XState.vipsSupported, tfind, cfgHasVip, cfgVipKinds, assignVip, vipKey, VipRow.pk, pk2, nul,
    cfgFind, CfgRow.pk, tupsert, commitUsage, f1, f2, f3, f4, f5, f6, f7, f8]

set_option maxRecDepth 8000 in
theorem t4_facts :
    t4.loc.st.svcs = [⟨"n1", "web-sidecar-proxy", "web-sidecar-proxy", 80, 2, 2⟩] ∧
    t4.loc.ext = [⟨"n1", "web-sidecar-proxy", .connectProxy, false, "web", [], some 1⟩] ∧
    t4.vips = [] ∧ t4.freeIP = some 1 := by
  obtain ⟨f1, f2, f3, f4, f5, f6, f7, f8⟩ := t3_facts
  simp [t4, v4, applyX, stepX, configDelete, cfgFind, CfgRow.pk, pk2, nul, tfind, terase, cfgHasVip, cfgVipKinds, freeVip, XState.vipsSupported,
    hasInstanceNamed, XState.cat, vipKey, VipRow.pk, commitUsage, f1, f2, f3, f4, f5, f6, f7, f8]

def logVip : XLog := [(1, v1), (2, v2), (3, v3), (4, v4)]

theorem logVip_wf : XLog.wf logVip := by
  intro ic hic
  simp only [logVip, List.mem_cons, List.mem_nil_iff, or_false] at hic
  rcases hic with rfl | rfl | rfl | rfl
  · trivial
  · exact NF_lit (by decide)
  · trivial
  · trivial

theorem replay_logVip : replayX XState.empty logVip = t4 := rfl

/-- after `virtual-ips on; register web-sidecar-proxy (destination web); upsert service-defaults/web; delete
    service-defaults/web` the sidecar still advertises offset 1 for web, which has no assignment any more
    (and offset 1 is on the free list, ready to be handed to another service) -/
theorem t4_not_agree : ¬ VipAgrees t4 ∧ t4.freeIP = some 1 := by
  obtain ⟨f1, f2, f3, f4⟩ := t4_facts
  refine ⟨?_, f4⟩
  intro h
  have hrow : ((⟨"n1", "web-sidecar-proxy", "web-sidecar-proxy", 80, 2, 2⟩ : Svc),
      (⟨"n1", "web-sidecar-proxy", .connectProxy, false, "web", [], some 1⟩ : SvcX)) ∈ (t4.cat "").rows := by
    simp [XState.cat, Cat.rows, f1, f2, tfind, Svc.pk, SvcX.pk, pk2]
  obtain ⟨a, ha, _⟩ := h "" _ hrow 1 rfl "web" (by simp [connectName])
  rw [f3] at ha
  simp at ha

/-! ### usage: two spellings of one service name are counted twice -/

def db : SvcReq := ⟨"db1", "db", 80, .typical, false, "", [], false, 0⟩
def dbCap : SvcReq := ⟨"db1", "Db", 80, .typical, false, "", [], false, 0⟩
def u1c : XCmd := .register ⟨"", n1, some db, []⟩
def u2c : XCmd := .register ⟨"", n1, some dbCap, []⟩
def u1 : XState := (applyX XState.empty 1 u1c).1
def u2 : XState := (applyX u1 2 u2c).1

set_option maxRecDepth 8000 in
theorem u1_facts : u1.peers = [] ∧ u1.sysMeta = [] ∧ u1.cfg = [] ∧
    u1.loc.st.nodes = [⟨"n1", "id1", "10.0.0.1", 1, 1⟩] ∧
    u1.loc.st.svcs = [⟨"n1", "db1", "db", 80, 1, 1⟩] ∧
    u1.loc.ext = [⟨"n1", "db1", .typical, false, "", [], none⟩] ∧
    u1.loc.st.kvs = [] ∧
    u1.usage = [⟨"billable-services", 1, 1⟩, ⟨"nodes", 1, 1⟩, ⟨"service-names", 1, 1⟩, ⟨"services", 1, 1⟩] := by
  simp [u1, u1c, applyX, stepX, liftSX, registerX, XState.cat, XState.empty, nodeFind, tfind, ensureNodeX, n1, db, nodeFindByID, nameClash,
    XState.setCat, nodeInsert, tupsert, State.maxIdx2, State.maxIdx, idxMax, idxGet, idxSet, Node.pk, updateAllServiceIndexesOfNode,
    ensureServiceX, ksnUpsert, ksnKey, pk2, Kind.raw, XState.vipsSupported, svcFind, extFind, XState.putSvc, svcInsert, XState.onSt, foldE,
    commitUsage, KsnRow.pk, strLt, nul, Svc.pk, SvcX.pk, usageDeltas, changesOf, countDeltas, serviceDeltas, addDelta, changeDelta, Cat.rows,
    connectDeltas, billableDeltas, nameChanges, serviceNameDeltas, writeUsage, UsageRow.pk, billableName, consulServiceName]

set_option maxRecDepth 8000 in
theorem u2_facts :
    u2.loc.st.svcs = [⟨"n1", "db1", "Db", 80, 1, 2⟩] ∧
    u2.usage = [⟨"billable-services", 1, 1⟩, ⟨"nodes", 1, 1⟩, ⟨"service-names", 2, 2⟩, ⟨"services", 1, 2⟩] := by
  obtain ⟨f1, f2, f3, f4, f5, f6, f7, f8⟩ := u1_facts
  simp [u2, u2c, applyX, stepX, liftSX, registerX, XState.cat, nodeFind, tfind, n1, dbCap, nodeSame,
    XState.setCat, tupsert, State.maxIdx2, State.maxIdx, Node.pk,
    ensureServiceX, ksnUpsert, ksnKey, pk2, Kind.raw, svcFind, extFind, XState.putSvc, svcInsert, XState.onSt, foldE,
    commitUsage, KsnRow.pk, nul, Svc.pk, SvcX.pk, usageDeltas, changesOf, countDeltas, serviceDeltas, addDelta, changeDelta, Cat.rows,
    connectDeltas, billableDeltas, nameChanges, serviceNameDeltas, writeUsage, UsageRow.pk, billableName, consulServiceName,
    reqSame, svcSame, extSame, strLt, f1, f2, f3, f4, f5, f6, f7, f8]

def logUsage : XLog := [(1, u1c), (2, u2c)]

theorem logUsage_wf : XLog.wf logUsage := by
  intro ic hic
  simp only [logUsage, List.mem_cons, List.mem_nil_iff, or_false] at hic
  rcases hic with rfl | rfl <;> exact NF_lit (by decide)

theorem replay_logUsage : replayX XState.empty logUsage = u2 := rfl

/-- after `register db1/db; register db1/Db` (one instance, re-registered under another spelling) the
    service-names counter says 2 for a catalog with one service instance -/
theorem u2_not_exact : ¬ UsageExact u2 ∧ usageGet u2 "service-names" = 2 ∧ u2.loc.st.svcs.length = 1 := by
  obtain ⟨f1, f2⟩ := u2_facts
  have hget : usageGet u2 "service-names" = 2 := by
    simp [usageGet, f2, tfind, UsageRow.pk]
  refine ⟨?_, hget, by rw [f1]; rfl⟩
  intro h
  have := h "service-names"
  rw [hget] at this
  simp [usageOf, localServiceNames, f1, List.eraseDups] at this
  exact absurd this (by decide)

end CV.Store.Cex
