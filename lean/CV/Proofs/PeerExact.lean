/-
Helper lemmas for C17: the registration phase of a processed update under the hypotheses of
`import_exact_partial` — every received row is in the catalog afterwards, exactly as received.
-/
import CV.Proofs.PeerPhase1
import CV.Proofs.PeerHandle
set_option linter.unusedSectionVars false
set_option linter.unusedSimpArgs false
namespace CV.Peer

/-! ### the registrations sent, instance by instance -/

theorem regOps_regs (p : String) (st : List CSN) (snap : Snap) :
    ∀ o ∈ snap.flatMap (regOpsNode p st), ∃ r, o = .reg r ∧ r.peer = p := by
  intro o ho
  simp only [List.mem_flatMap] at ho
  obtain ⟨nd, _, ho⟩ := ho
  have hp := regOpsNode_peer p st nd o ho
  simp only [regOpsNode, List.mem_append, List.mem_map, List.mem_filter] at ho
  rcases ho with (ho | ho) | ho
  · split at ho
    · cases ho
    · simp only [List.mem_singleton] at ho; subst ho; exact ⟨_, rfl, rfl⟩
  · obtain ⟨ss, _, rfl⟩ := ho; exact ⟨_, rfl, rfl⟩
  · split at ho
    · cases ho
    · simp only [List.mem_singleton] at ho; subst ho; exact ⟨_, rfl, rfl⟩

theorem op_inst {p : String} {st : List CSN} {snap : Snap} {is : List Inst} (hs : SnapIs snap is) {r : RegReq}
    (h : Op.reg r ∈ snap.flatMap (regOpsNode p st)) :
    r.peer = p ∧ (∃ i ∈ is, r.node = i.node) ∧ (∀ sd, r.svc = some sd → ∃ i ∈ is, r.node = i.node ∧ sd = i.svc) ∧
    (∀ k ∈ r.chks, ∃ i ∈ is, r.node = i.node ∧ k ∈ i.chks) := by
  obtain ⟨nd, hnd, hp, hn, hsv, hck⟩ := regOps_shape p st snap r h
  refine ⟨hp, ?_, ?_, ?_⟩
  · obtain ⟨ss, hss⟩ := hs.nonempty nd hnd
    obtain ⟨i, hi, e1, _, _⟩ := hs.fwd nd hnd ss hss
    exact ⟨i, hi, by rw [hn, e1]⟩
  · intro sd hsd
    obtain ⟨ss, hss, e, _⟩ := hsv sd hsd
    obtain ⟨i, hi, e1, e2, _⟩ := hs.fwd nd hnd ss hss
    exact ⟨i, hi, by rw [hn, e1], by rw [← e, e2]⟩
  · intro k hk
    obtain ⟨ss, hss, hks, _⟩ := hck k hk
    obtain ⟨i, hi, e1, _, e3⟩ := hs.fwd nd hnd ss hss
    exact ⟨i, hi, by rw [hn, e1], by rw [← e3]; exact hks⟩

theorem inst_unique {sn : String} {is : List Inst} (ok : SnapOK sn is) {i j : Inst} (hi : i ∈ is) (hj : j ∈ is)
    (h1 : i.node.name = j.node.name) (h2 : i.svc.sid = j.svc.sid) : i = j := by
  have := ok.keys
  induction is with
  | nil => cases hi
  | cons a t ih =>
    rw [List.pairwise_cons] at this
    simp only [List.mem_cons] at hi hj
    rcases hi with rfl | hi <;> rcases hj with rfl | hj
    · rfl
    · exact absurd ⟨h1, h2⟩ (this.1 j hj)
    · exact absurd ⟨h1.symm, h2.symm⟩ (this.1 i hi)
    · exact ih ⟨fun x hx => ok.inst x (by simp [hx]), fun x hx => ok.chk x (by simp [hx]),
        fun x hx => ok.cids x (by simp [hx]), fun x hx y hy => ok.node x (by simp [hx]) y (by simp [hy]),
        fun x hx y hy => ok.ids x (by simp [hx]) y (by simp [hy]), this.2,
        fun x hx y hy => ok.cross x (by simp [hx]) y (by simp [hy]),
        fun x hx y hy => ok.nodeChks x (by simp [hx]) y (by simp [hy])⟩ hi hj this.2

theorem regsOK {c : Cat} {p sn : String} {st : List CSN} {snap : Snap} {is : List Inst}
    (ok : SnapOK sn is) (hs : SnapIs snap is) (fr : Fresh c p is) :
    RegsOK c p (snap.flatMap (regOpsNode p st)) := by
  refine ⟨regOps_regs p st snap, ?_, ?_, ?_, ?_, ?_, ?_, ?_⟩
  · intro r hr hne e he hep hei
    obtain ⟨_, ⟨i, hi, e1⟩, _, _⟩ := op_inst hs hr
    rw [e1] at hne hei ⊢
    exact fr i hi hne e he hep hei
  · intro r r' hr hr' heq hne
    obtain ⟨_, ⟨i, hi, e1⟩, _, _⟩ := op_inst hs hr
    obtain ⟨_, ⟨j, hj, e2⟩, _, _⟩ := op_inst hs hr'
    rw [e1, e2] at heq ⊢; rw [e1] at hne
    exact ok.ids i hi j hj heq hne
  · intro r r' hr hr' heq
    obtain ⟨_, ⟨i, hi, e1⟩, _, _⟩ := op_inst hs hr
    obtain ⟨_, ⟨j, hj, e2⟩, _, _⟩ := op_inst hs hr'
    rw [e1, e2] at heq ⊢
    exact ok.node i hi j hj heq
  · intro r r' sd sd' hr hr' hsd hsd' hn hsid
    obtain ⟨_, _, h1, _⟩ := op_inst hs hr
    obtain ⟨_, _, h2, _⟩ := op_inst hs hr'
    obtain ⟨i, hi, e1, e2⟩ := h1 sd hsd
    obtain ⟨j, hj, e3, e4⟩ := h2 sd' hsd'
    rw [e1, e3] at hn; rw [e2, e4] at hsid ⊢
    rw [inst_unique ok hi hj hn hsid]
  · intro r sd hr hsd
    obtain ⟨_, _, h1, _⟩ := op_inst hs hr
    obtain ⟨i, hi, _, e2⟩ := h1 sd hsd
    rw [e2]; exact (ok.inst i hi).2.1
  · intro r r' hr hr' k hk k' hk' hn hc
    obtain ⟨_, _, _, h1⟩ := op_inst hs hr
    obtain ⟨_, _, _, h2⟩ := op_inst hs hr'
    obtain ⟨i, hi, _, hki⟩ := h1 k hk
    obtain ⟨j, hj, _, hkj⟩ := h2 k' hk'
    have e1 := (ok.chk i hi k hki).2.1
    have e2 := (ok.chk j hj k' hkj).2.1
    exact ok.cross i hi j hj (by rw [← e1, ← e2]; exact hn) k hki k' hkj hc
  · intro r r' sd hr hr' k hk hne hsd hn hsi
    obtain ⟨_, _, _, h1⟩ := op_inst hs hr
    obtain ⟨_, _, h2, _⟩ := op_inst hs hr'
    obtain ⟨i, hi, _, hki⟩ := h1 k hk
    obtain ⟨j, hj, _, e4⟩ := h2 sd hsd
    obtain ⟨_, _, _, e2⟩ := ok.chk i hi k hki
    rcases e2 with e2 | ⟨_, e3⟩
    · exact absurd e2 hne
    · rw [e3, e4, (ok.inst i hi).2.2, (ok.inst j hj).2.2]

/-! ### what was not sent is already stored -/

theorem mem_regOpsNode_node {p : String} {st : List CSN} {nd : SNode} (h : nodeUnchanged st nd.node = false) :
    Op.reg ⟨p, nd.node, none, []⟩ ∈ regOpsNode p st nd := by
  simp [regOpsNode, h]

theorem mem_regOpsNode_svc {p : String} {st : List CSN} {nd : SNode} {ss : SSvc} (hss : ss ∈ nd.svcs)
    (h : svcUnchanged st nd.node.name ss.svc = false) :
    Op.reg ⟨p, nd.node, some ss.svc, []⟩ ∈ regOpsNode p st nd := by
  simp only [regOpsNode, List.mem_append, List.mem_map, List.mem_filter]
  exact Or.inl (Or.inr ⟨ss, ⟨hss, by simp [h]⟩, rfl⟩)

theorem mem_regOpsNode_chk {p : String} {st : List CSN} {nd : SNode} {ss : SSvc} {k : ChkDef} (hss : ss ∈ nd.svcs)
    (hk : k ∈ ss.chks) (h : chkUnchanged st nd.node.name ss.svc.sid k = false) :
    ∃ r, Op.reg r ∈ regOpsNode p st nd ∧ k ∈ r.chks ∧ r.node = nd.node := by
  have hmem : k ∈ nd.svcs.flatMap (fun ss => ss.chks.filter fun k => !chkUnchanged st nd.node.name ss.svc.sid k) := by
    simp only [List.mem_flatMap, List.mem_filter]
    exact ⟨ss, hss, hk, by simp [h]⟩
  refine ⟨⟨p, nd.node, none, nd.svcs.flatMap (fun ss => ss.chks.filter fun k => !chkUnchanged st nd.node.name ss.svc.sid k)⟩, ?_, hmem, rfl⟩
  simp only [regOpsNode, List.mem_append]
  right
  split
  · rename_i he
    simp only [List.isEmpty_iff] at he
    rw [he] at hmem; cases hmem
  · simp

theorem nodeUnchanged_stored {c : Cat} {p sn : String} {st : List CSN} (hst : csn c p sn = .ok st) {d : NodeDef}
    (h : nodeUnchanged st d = true) : nodeRow p d ∈ c.nodes := by
  unfold nodeUnchanged storedNode at h
  cases hf : st.find? (fun x => decide (x.node.name = d.name)) with
  | none => simp [hf] at h
  | some x =>
    simp only [hf, Option.map_some, sameNodeDef, decide_eq_true_eq] at h
    have hx := List.mem_of_find?_eq_some hf
    obtain ⟨_, _, _, hn, hp, _, _⟩ := (csn_ok hst).1 x hx
    have : x.node = nodeRow p d := by
      cases hxn : x.node; simp [nodeRow, hxn] at h hp ⊢; simp_all
    rw [← this]; exact hn

theorem svcUnchanged_stored {c : Cat} {p sn : String} {st : List CSN} (hst : csn c p sn = .ok st) {n : String} {s : SvcDef}
    (h : svcUnchanged st n s = true) : svcRow p n s ∈ c.svcs := by
  unfold svcUnchanged storedInst at h
  split at h
  · rename_i x hf
    simp only [sameSvcDef, decide_eq_true_eq] at h
    have hx := List.mem_of_find?_eq_some hf
    have hk := List.find?_some hf
    simp only [decide_eq_true_eq] at hk
    obtain ⟨hs, hp, _, _, _, hnn, _⟩ := (csn_ok hst).1 x hx
    have : x.svc = svcRow p n s := by
      cases hxs : x.svc; simp [svcRow, hxs] at h hp hnn hk ⊢; simp_all
    rw [← this]; exact hs
  · cases h

theorem chkUnchanged_stored {c : Cat} {p sn : String} {st : List CSN} (hst : csn c p sn = .ok st) {n i : String} {k : ChkDef}
    (hstat : k.status ≠ "") (h : chkUnchanged st n i k = true) : chkRow p k ∈ c.chks := by
  unfold chkUnchanged storedInst at h
  split at h
  · rename_i x hf
    have hx := List.mem_of_find?_eq_some hf
    obtain ⟨_, _, _, _, _, _, hchks⟩ := (csn_ok hst).1 x hx
    split at h
    · rename_i e hg
      simp only [sameChkDef, decide_eq_true_eq] at h
      have he := List.mem_of_find?_eq_some hg
      rw [hchks] at he
      simp only [List.mem_append, List.mem_filter, chkOfNode_iff, chkOfSvc_iff] at he
      have hmem : e ∈ c.chks ∧ e.peer = p := by
        rcases he with he | he
        · exact ⟨he.1, he.2.1⟩
        · exact ⟨he.1, he.2.1⟩
      have : e = chkRow p k := by
        cases hee : e
        simp [chkRow, normStatus, hstat, hee] at h hmem ⊢
        simp_all
      rw [← this]; exact hmem.1
    · cases h
  · cases h

/-! ### every service check of the snapshot finds its service row -/

/-- what the prior catalog tells about a (node, id): an instance of `sn` is stored there -/
def K0 (c : Cat) (p sn : String) : String → String → String → Prop :=
  fun n i nm => nm = sn ∧ (∃ s ∈ c.svcs, s.peer = p ∧ s.node = n ∧ s.sid = i) ∧
    ∀ s ∈ c.svcs, s.peer = p → s.node = n → s.sid = i → s.name = sn

theorem K0_kl (c : Cat) (p sn : String) : KL c p (K0 c p sn) := by
  rintro n i nm ⟨rfl, h1, h2⟩; exact ⟨h1, h2⟩

theorem Pres.node {c : Cat} {p sn : String} {st : List CSN} {snap : Snap} {is : List Inst} (wf : WF c)
    (ok : SnapOK sn is) (hs : SnapIs snap is) (hst : csn c p sn = .ok st) {nd : SNode} (hnd : nd ∈ snap)
    {K : String → String → String → Prop} (hK : ∀ n i nm, K0 c p sn n i nm → K n i nm) :
    Pres K (regOpsNode p st nd) := by
  -- split the command list of the node into the registrations without checks and the final check registration
  have hsplit : ∃ a b, regOpsNode p st nd = a ++ b ∧ (∀ r, Op.reg r ∈ a → r.chks = []) ∧
      (∀ ss ∈ nd.svcs, svcUnchanged st nd.node.name ss.svc = false → addsKey a nd.node.name ss.svc.sid ss.svc.name) ∧
      (∀ r, Op.reg r ∈ b → r.svc = none ∧ ∀ k ∈ r.chks, ∃ ss ∈ nd.svcs, k ∈ ss.chks) ∧ b.length ≤ 1 := by
    refine ⟨(if nodeUnchanged st nd.node then [] else [Op.reg ⟨p, nd.node, none, []⟩]) ++
        (nd.svcs.filter fun ss => !svcUnchanged st nd.node.name ss.svc).map fun ss => Op.reg ⟨p, nd.node, some ss.svc, []⟩,
      (if (nd.svcs.flatMap fun ss => ss.chks.filter fun k => !chkUnchanged st nd.node.name ss.svc.sid k).isEmpty then []
       else [Op.reg ⟨p, nd.node, none, nd.svcs.flatMap fun ss => ss.chks.filter fun k => !chkUnchanged st nd.node.name ss.svc.sid k⟩]),
      by simp only [regOpsNode, List.append_assoc], ?_, ?_, ?_, ?_⟩
    · intro r hr
      simp only [List.mem_append, List.mem_map, List.mem_filter] at hr
      rcases hr with hr | ⟨ss, _, hr⟩
      · split at hr
        · cases hr
        · simp only [List.mem_singleton, Op.reg.injEq] at hr; subst hr; rfl
      · simp only [Op.reg.injEq] at hr; subst hr; rfl
    · intro ss hss hu
      refine ⟨⟨p, nd.node, some ss.svc, []⟩, ss.svc, ?_, rfl, rfl, rfl, rfl⟩
      simp only [List.mem_append, List.mem_map, List.mem_filter]
      exact Or.inr ⟨ss, ⟨hss, by simp [hu]⟩, rfl⟩
    · intro r hr
      split at hr
      · cases hr
      · simp only [List.mem_singleton, Op.reg.injEq] at hr; subst hr
        refine ⟨rfl, fun k hk => ?_⟩
        simp only [List.mem_flatMap, List.mem_filter] at hk
        obtain ⟨ss, hss, hk, _⟩ := hk
        exact ⟨ss, hss, hk⟩
    · split <;> simp
  obtain ⟨a, b, e, ha, hadd, hb, hlen⟩ := hsplit
  rw [e, Pres.append]
  refine ⟨Pres.nochk a ha, ?_⟩
  match b, hb, hlen with
  | [], _, _ => trivial
  | [o], hb, _ =>
    cases o with
    | reg r =>
      simp only [Pres, and_true]
      intro k hk hne
      left
      obtain ⟨hsv, hck⟩ := hb r (by simp)
      obtain ⟨ss, hss, hks⟩ := hck k hk
      obtain ⟨i, hi, e1, e2, e3⟩ := hs.fwd nd hnd ss hss
      obtain ⟨_, hkn, _, hksid⟩ := ok.chk i hi k (by rw [← e3]; exact hks)
      have hsid : k.sid = ss.svc.sid ∧ k.sname = ss.svc.name := by
        rcases hksid with h | ⟨h1, h2⟩
        · exact absurd h hne
        · exact ⟨by rw [h1, e2], by rw [h2, e2]⟩
      have hnn : k.node = nd.node.name := by rw [hkn, e1]
      have hname : ss.svc.name = sn := by rw [e2]; exact (ok.inst i hi).2.2
      cases hu : svcUnchanged st nd.node.name ss.svc with
      | true =>
        left
        apply hK
        have hrow := svcUnchanged_stored hst hu
        refine ⟨by rw [hsid.2, hname], ⟨_, hrow, rfl, by simp [svcRow, hnn], by simp [svcRow, hsid.1]⟩, ?_⟩
        intro s hs1 b1 b2 b3
        rw [wf.svcs s hs1 _ hrow (by simp [svcRow, b1]) (by simp [svcRow, b2, hnn]) (by simp [svcRow, b3, hsid.1])]
        exact hname
      | false =>
        right
        rw [hnn, hsid.1, hsid.2]
        exact hadd ss hss hu
    | deregSvc p n i => simp only [Pres]
    | deregChk p n k => simp only [Pres]
    | deregNode p n => simp only [Pres]
  | _ :: _ :: _, _, hlen => simp at hlen

theorem Pres.snap {c : Cat} {p sn : String} {st : List CSN} {snap : Snap} {is : List Inst} (wf : WF c)
    (ok : SnapOK sn is) (hs : SnapIs snap is) (hst : csn c p sn = .ok st) (l : List SNode) (hl : ∀ nd ∈ l, nd ∈ snap)
    {K : String → String → String → Prop} (hK : ∀ n i nm, K0 c p sn n i nm → K n i nm) :
    Pres K (l.flatMap (regOpsNode p st)) := by
  induction l generalizing K with
  | nil => trivial
  | cons nd rest ih =>
    simp only [List.flatMap_cons, Pres.append]
    exact ⟨Pres.node wf ok hs hst (hl nd (by simp)) hK,
      ih (fun x hx => hl x (by simp [hx])) (fun n i nm h => Or.inl (hK n i nm h))⟩

theorem K0_kco {c : Cat} {p sn : String} {st : List CSN} {snap : Snap} {is : List Inst}
    (ok : SnapOK sn is) (hs : SnapIs snap is) : KCo (K0 c p sn) (snap.flatMap (regOpsNode p st)) := by
  rintro r sd n i nm hr ⟨rfl, _, _⟩ hsd _ _
  obtain ⟨_, _, h2, _⟩ := op_inst hs hr
  obtain ⟨j, hj, _, e⟩ := h2 sd hsd
  rw [e]; exact (ok.inst j hj).2.2

/-! ### the catalog after the registration phase -/

/-- what the registration phase guarantees: every received row is stored as received, every other row is an
    old one, and old rows whose key the snapshot does not claim are still there -/
structure Phase1 (c c1 : Cat) (p : String) (is : List Inst) : Prop where
  wf : WF c1
  nodeIn : ∀ i ∈ is, nodeRow p i.node ∈ c1.nodes
  svcIn : ∀ i ∈ is, svcRow p i.node.name i.svc ∈ c1.svcs
  chkIn : ∀ i ∈ is, ∀ k ∈ i.chks, chkRow p k ∈ c1.chks
  nodeFrom : ∀ x ∈ c1.nodes, x ∈ c.nodes ∨ ∃ i ∈ is, x = nodeRow p i.node
  svcFrom : ∀ x ∈ c1.svcs, x ∈ c.svcs ∨ ∃ i ∈ is, x = svcRow p i.node.name i.svc
  chkFrom : ∀ x ∈ c1.chks, x ∈ c.chks ∨ ∃ i ∈ is, ∃ k ∈ i.chks, x = chkRow p k
  nodeKeep : ∀ x ∈ c.nodes, (∀ i ∈ is, ¬(x.peer = p ∧ x.name = i.node.name)) → x ∈ c1.nodes
  svcKeep : ∀ x ∈ c.svcs, (∀ i ∈ is, ¬(x.peer = p ∧ x.node = i.node.name ∧ x.sid = i.svc.sid)) → x ∈ c1.svcs
  chkKeep : ∀ x ∈ c.chks, (∀ i ∈ is, ∀ k ∈ i.chks, ¬(x.peer = p ∧ x.node = k.node ∧ x.cid = k.cid)) → x ∈ c1.chks

theorem phase1 {c c1 : Cat} {p sn : String} {st : List CSN} {snap : Snap} {is : List Inst} {l1 : List Op}
    (wf : WF c) (ok : SnapOK sn is) (hs : SnapIs snap is) (fr : Fresh c p is)
    (hst : csn c p sn = .ok st) (hr : runOps c (snap.flatMap (regOpsNode p st)) = (c1, none, l1)) :
    Phase1 c c1 p is := by
  have rok := regsOK (c := c) (st := st) ok hs fr
  have hnone : (runOps c (snap.flatMap (regOpsNode p st))).2.1 = none := by rw [hr]
  obtain ⟨wf1, n1, s1, k1⟩ := runRegs_spec _ c p wf rok (K0 c p sn) (K0_kl c p sn) (K0_kco ok hs)
    (Pres.snap wf ok hs hst snap (fun _ h => h) (fun _ _ _ h => h)) hnone
  rw [runOps_fst hr] at wf1 n1 s1 k1
  -- every instance sits in the normalised snapshot
  have loc : ∀ i ∈ is, ∃ nd ∈ snap, nd.node = i.node ∧ ∃ ss ∈ nd.svcs, ss.svc = i.svc ∧ ss.chks = i.chks := hs.bwd
  have opmem : ∀ nd ∈ snap, ∀ o ∈ regOpsNode p st nd, o ∈ snap.flatMap (regOpsNode p st) :=
    fun nd hnd o ho => List.mem_flatMap.mpr ⟨nd, hnd, ho⟩
  refine ⟨wf1, ?_, ?_, ?_, ?_, ?_, ?_, ?_, ?_, ?_⟩
  · -- nodes present
    intro i hi
    obtain ⟨nd, hnd, e1, _⟩ := loc i hi
    rw [n1]
    by_cases hex : ∃ r, Op.reg r ∈ snap.flatMap (regOpsNode p st) ∧ r.node.name = i.node.name
    · obtain ⟨r, hr1, hn⟩ := hex
      obtain ⟨_, ⟨j, hj, e2⟩, _, _⟩ := op_inst hs hr1
      refine Or.inl ⟨r, hr1, ?_⟩
      rw [e2]; rw [e2] at hn
      rw [ok.node j hj i hi hn]
    · right
      have hun : nodeUnchanged st nd.node = true := by
        cases hu : nodeUnchanged st nd.node with
        | true => rfl
        | false =>
          exfalso
          exact hex ⟨_, opmem nd hnd _ (mem_regOpsNode_node hu), by simp [e1]⟩
      rw [e1] at hun
      refine ⟨nodeUnchanged_stored hst hun, ?_⟩
      intro r hr1 hk
      exact hex ⟨r, hr1, by simpa [nodeRow] using hk.2.symm⟩
  · -- services present
    intro i hi
    obtain ⟨nd, hnd, e1, ss, hss, e2, _⟩ := loc i hi
    rw [s1]
    by_cases hex : ∃ r sd, Op.reg r ∈ snap.flatMap (regOpsNode p st) ∧ r.svc = some sd ∧
        r.node.name = i.node.name ∧ sd.sid = i.svc.sid
    · obtain ⟨r, sd, hr1, hsd, hn, hsi⟩ := hex
      obtain ⟨_, _, h2, _⟩ := op_inst hs hr1
      obtain ⟨j, hj, e3, e4⟩ := h2 sd hsd
      refine Or.inl ⟨r, sd, hr1, hsd, ?_⟩
      rw [e3] at hn; rw [e4] at hsi
      have := inst_unique ok hj hi hn hsi
      subst this
      rw [e3, e4]
    · right
      have hun : svcUnchanged st nd.node.name ss.svc = true := by
        cases hu : svcUnchanged st nd.node.name ss.svc with
        | true => rfl
        | false =>
          exfalso
          exact hex ⟨_, ss.svc, opmem nd hnd _ (mem_regOpsNode_svc hss hu), rfl, by simp [e1], by rw [e2]⟩
      rw [e1, e2] at hun
      refine ⟨svcUnchanged_stored hst hun, ?_⟩
      intro r sd hr1 hsd hk
      simp only [svcRow] at hk
      exact hex ⟨r, sd, hr1, hsd, hk.2.1.symm, hk.2.2.symm⟩
  · -- checks present
    intro i hi k hk
    obtain ⟨nd, hnd, e1, ss, hss, e2, e3⟩ := loc i hi
    rw [k1]
    by_cases hex : ∃ r k', Op.reg r ∈ snap.flatMap (regOpsNode p st) ∧ k' ∈ r.chks ∧ k'.node = k.node ∧ k'.cid = k.cid
    · obtain ⟨r, k', hr1, hk', hn, hc⟩ := hex
      obtain ⟨_, _, _, h3⟩ := op_inst hs hr1
      obtain ⟨j, hj, _, hkj⟩ := h3 k' hk'
      have en : j.node.name = i.node.name := by
        rw [← (ok.chk j hj k' hkj).2.1, ← (ok.chk i hi k hk).2.1]; exact hn
      have := ok.cross j hj i hi en k' hkj k hk hc
      subst this
      exact Or.inl ⟨r, hr1, k', hk', rfl⟩
    · right
      have hun : chkUnchanged st nd.node.name ss.svc.sid k = true := by
        cases hu : chkUnchanged st nd.node.name ss.svc.sid k with
        | true => rfl
        | false =>
          exfalso
          obtain ⟨r, hr1, hkr, _⟩ := mem_regOpsNode_chk (p := p) hss (by rw [e3]; exact hk) hu
          exact hex ⟨r, k, opmem nd hnd _ hr1, hkr, rfl, rfl⟩
      refine ⟨chkUnchanged_stored hst (ok.chk i hi k hk).2.2.1 hun, ?_⟩
      intro r hr1 k' hk' hkk
      simp only [chkRow] at hkk
      exact hex ⟨r, k', hr1, hk', hkk.2.1.symm, hkk.2.2.symm⟩
  · -- origin of nodes
    intro x hx
    rcases (n1 x).mp hx with ⟨r, hr1, rfl⟩ | ⟨h, _⟩
    · obtain ⟨_, ⟨i, hi, e⟩, _, _⟩ := op_inst hs hr1
      exact Or.inr ⟨i, hi, by rw [e]⟩
    · exact Or.inl h
  · intro x hx
    rcases (s1 x).mp hx with ⟨r, sd, hr1, hsd, rfl⟩ | ⟨h, _⟩
    · obtain ⟨_, _, h2, _⟩ := op_inst hs hr1
      obtain ⟨i, hi, e1, e2⟩ := h2 sd hsd
      exact Or.inr ⟨i, hi, by rw [e1, e2]⟩
    · exact Or.inl h
  · intro x hx
    rcases (k1 x).mp hx with ⟨r, hr1, k, hk, rfl⟩ | ⟨h, _⟩
    · obtain ⟨_, _, _, h3⟩ := op_inst hs hr1
      obtain ⟨i, hi, _, hki⟩ := h3 k hk
      exact Or.inr ⟨i, hi, k, hki, rfl⟩
    · exact Or.inl h
  · -- frame
    intro x hx hno
    rw [n1]
    refine Or.inr ⟨hx, fun r hr1 hk => ?_⟩
    obtain ⟨_, ⟨i, hi, e⟩, _, _⟩ := op_inst hs hr1
    exact hno i hi (by rw [← e]; exact hk)
  · intro x hx hno
    rw [s1]
    refine Or.inr ⟨hx, fun r sd hr1 hsd hk => ?_⟩
    obtain ⟨_, _, h2, _⟩ := op_inst hs hr1
    obtain ⟨i, hi, e1, e2⟩ := h2 sd hsd
    exact hno i hi (by rw [← e1, ← e2]; exact hk)
  · intro x hx hno
    rw [k1]
    refine Or.inr ⟨hx, fun r hr1 k hk hkk => ?_⟩
    obtain ⟨_, _, _, h3⟩ := op_inst hs hr1
    obtain ⟨i, hi, _, hki⟩ := h3 k hk
    exact hno i hi k hki hkk

end CV.Peer
