/-
Stage 2 of C07, mesh-topology on the sidecar side: for pairs whose downstream is not a gateway name (`Gn`), in every
reachable state
  * every row of the table is declared by a sidecar of some catalog, or its key is listed in the ghost record
    (`staleTopo`, written at the recorded mechanisms only);
  * every pair a LOCAL sidecar declares has its row, or its key is listed (`lostTopo`).
-/
import CV.Proofs.StoreGwFrame
namespace CV.Store
open CV

/-! ### presence of a key, declaredness -/

theorem hasTopo_iff {t : List TopoRow} {k : String} : hasTopo t k = true ↔ ∃ r ∈ t, r.pk = k := by
  unfold hasTopo
  constructor
  · intro h
    cases hq : tfind TopoRow.pk k t with
    | none => rw [hq] at h; simp at h
    | some r => exact ⟨r, (tfind_some hq).1, (tfind_some hq).2⟩
  · rintro ⟨r, hr, hk⟩
    exact tfind_isSome_of_mem hr hk

theorem declares_iff {k : String} {r : Svc × SvcX} :
    declares k r = true ↔ r.2.kind = .connectProxy ∧ ∃ u ∈ r.2.ups, pk2 u r.2.dest = k := by
  unfold declares
  simp [List.any_eq_true]

theorem mem_pairsOf {k : String} {r : Svc × SvcX} : k ∈ pairsOf r ↔ declares k r = true := by
  rw [declares_iff]
  unfold pairsOf
  split
  · next h => simp [h]
  · next h => simp [h]

/-- a sidecar of some catalog declares the pair with key `k` -/
def Decl (x : XState) (k : String) : Prop := ∃ q, ∃ r ∈ (x.cat q).rows, declares k r = true

theorem cat_lc (x : XState) {q : String} (hq : q ≠ "") : x.cat (lc q) = x.cat q := by
  unfold XState.cat
  have : lc q ≠ "" := fun h => hq (lc_eq_empty.mp h)
  rw [if_neg hq, if_neg this, lc_idem]

theorem sidecarDeclared_iff {x : XState} {k : String} : sidecarDeclared x k = true ↔ Decl x k := by
  unfold sidecarDeclared Decl
  rw [Bool.or_eq_true, List.any_eq_true, List.any_eq_true]
  constructor
  · rintro (⟨r, hr, hd⟩ | ⟨pc, _, hd⟩)
    · exact ⟨"", r, by rw [← loc_eq_cat]; exact hr, hd⟩
    · rw [List.any_eq_true] at hd
      obtain ⟨r, hr, hd⟩ := hd
      exact ⟨pc.1, r, hr, hd⟩
  · rintro ⟨q, r, hr, hd⟩
    by_cases hq : q = ""
    · subst hq
      exact Or.inl ⟨r, by rw [loc_eq_cat]; exact hr, hd⟩
    · right
      have hr0 := hr
      unfold XState.cat at hr
      rw [if_neg hq] at hr
      split at hr
      · next pc hpc =>
        obtain ⟨m, hk⟩ := tfind_some hpc
        refine ⟨pc, m, ?_⟩
        rw [List.any_eq_true]
        have e : pc.1 = lc q := hk
        refine ⟨r, ?_, hd⟩
        rw [e, cat_lc x hq]; exact hr0
      · simp [Cat.rows] at hr

theorem localDeclared_iff {x : XState} {k : String} : localDeclared x k = true ↔ ∃ r ∈ x.loc.rows, declares k r = true := by
  unfold localDeclared
  rw [List.any_eq_true]

/-! ### the two loops of `updateMeshTopology`, `cleanupMeshTopology` -/

theorem mem_topoAddRef {t : List TopoRow} {idx : Nat} {up dn uid : String} {r : TopoRow} (h : r ∈ topoAddRef t idx up dn uid) :
    r ∈ t ∨ r.pk = pk2 up dn := by
  unfold topoAddRef at h
  split at h
  · next r0 h0 =>
    rcases mem_tupsert h with rfl | h
    · exact Or.inr (tfind_some h0).2
    · exact Or.inl h
  · rcases mem_tupsert h with rfl | h
    · exact Or.inr rfl
    · exact Or.inl h

theorem nf_topoAddRef {t : List TopoRow} {idx : Nat} {up dn uid : String} (ht : ∀ r ∈ t, NF r.dn) (hdn : NF dn) :
    ∀ r ∈ topoAddRef t idx up dn uid, NF r.dn := by
  intro r h
  unfold topoAddRef at h
  split at h
  · next r0 h0 =>
    rcases mem_tupsert h with rfl | h
    · exact ht r0 (tfind_some h0).1
    · exact ht r h
  · rcases mem_tupsert h with rfl | h
    · exact hdn
    · exact ht r h

theorem key_topoAddRef_self (t : List TopoRow) (idx : Nat) (up dn uid : String) :
    ∃ r ∈ topoAddRef t idx up dn uid, r.pk = pk2 up dn := by
  unfold topoAddRef
  split
  · next r0 h0 => exact ⟨_, self_mem_tupsert _ _, (tfind_some h0).2⟩
  · exact ⟨_, self_mem_tupsert _ _, rfl⟩

theorem key_topoAddRef_mono {t : List TopoRow} {idx : Nat} {up dn uid k : String} (h : ∃ r ∈ t, r.pk = k) :
    ∃ r ∈ topoAddRef t idx up dn uid, r.pk = k := by
  obtain ⟨r, hr, hk⟩ := h
  unfold topoAddRef
  split
  · next r0 h0 =>
    rcases mem_tupsert_of_mem (lt := strLt) (r := (⟨r0.up, r0.dn, insertRef uid r0.refs, r0.create, idx⟩ : TopoRow)) hr with h1 | h1
    · exact ⟨r, h1, hk⟩
    · exact ⟨_, self_mem_tupsert _ _, h1.symm.trans hk⟩
  · rcases mem_tupsert_of_mem (lt := strLt) (r := (⟨up, dn, [uid], idx, idx⟩ : TopoRow)) hr with h1 | h1
    · exact ⟨r, h1, hk⟩
    · exact ⟨_, self_mem_tupsert _ _, h1.symm.trans hk⟩

/-- the rows after the first loop: old rows, or rows of the added keys; every old key and every added key is present -/
theorem addLoop (idx : Nat) (dn uid : String) : ∀ (A : List String) (t : List TopoRow),
    (∀ r ∈ A.foldl (fun t u => topoAddRef t idx u dn uid) t, r ∈ t ∨ ∃ u ∈ A, r.pk = pk2 u dn) ∧
    (∀ k, (∃ r ∈ t, r.pk = k) → ∃ r ∈ A.foldl (fun t u => topoAddRef t idx u dn uid) t, r.pk = k) ∧
    (∀ u ∈ A, ∃ r ∈ A.foldl (fun t u => topoAddRef t idx u dn uid) t, r.pk = pk2 u dn) := by
  intro A
  induction A with
  | nil => intro t; exact ⟨fun r h => Or.inl h, fun k h => h, fun u hu => by simp at hu⟩
  | cons a rest ih =>
    intro t
    simp only [List.foldl_cons]
    obtain ⟨i1, i2, i3⟩ := ih (topoAddRef t idx a dn uid)
    refine ⟨?_, ?_, ?_⟩
    · intro r hr
      rcases i1 r hr with h | ⟨u, hu, hk⟩
      · rcases mem_topoAddRef h with h | h
        · exact Or.inl h
        · exact Or.inr ⟨a, List.mem_cons_self, h⟩
      · exact Or.inr ⟨u, List.mem_cons_of_mem _ hu, hk⟩
    · intro k hk
      exact i2 k (key_topoAddRef_mono hk)
    · intro u hu
      rcases List.mem_cons.mp hu with rfl | hu
      · exact i2 _ (key_topoAddRef_self t idx u dn uid)
      · exact i3 u hu

theorem nf_addLoop (idx : Nat) (dn uid : String) (hdn : NF dn) : ∀ (A : List String) (t : List TopoRow),
    (∀ r ∈ t, NF r.dn) → ∀ r ∈ A.foldl (fun t u => topoAddRef t idx u dn uid) t, NF r.dn := by
  intro A
  induction A with
  | nil => intro t h; exact h
  | cons a rest ih => intro t h; simp only [List.foldl_cons]; exact ih _ (nf_topoAddRef h hdn)

/-- the rows after the second loop: the rows whose key is not one of the dropped pairs -/
theorem dropLoop (A : List String) (dn : String) : ∀ (O : List String) (t : List TopoRow) (r : TopoRow),
    r ∈ O.foldl (fun t u => if A.contains u then t else terase TopoRow.pk (pk2 u dn) t) t ↔
      r ∈ t ∧ r.pk ∉ (O.filter fun u => !A.contains u).map fun u => pk2 u dn := by
  intro O
  induction O with
  | nil => intro t r; simp
  | cons a rest ih =>
    intro t r
    simp only [List.foldl_cons]
    rw [ih]
    by_cases ha : A.contains a = true
    · simp only [ha, if_true, List.filter_cons, Bool.not_true, Bool.false_eq_true, if_false]
    · have ha' : A.contains a = false := by simpa using ha
      simp only [ha', Bool.false_eq_true, if_false, List.filter_cons, Bool.not_false, if_true, List.map_cons, List.mem_cons,
        not_or, mem_terase]
      constructor
      · rintro ⟨⟨h1, h2⟩, h3⟩; exact ⟨h1, h2, h3⟩
      · rintro ⟨h1, h2, h3⟩; exact ⟨⟨h1, h2⟩, h3⟩

theorem mem_topoCleanup {t : List TopoRow} {p : String} {v : Svc} {e : SvcX} {r' : TopoRow} (h : r' ∈ topoCleanup t p v e) :
    ∃ r ∈ t, r.pk = r'.pk ∧ r.dn = r'.dn := by
  unfold topoCleanup at h
  split at h
  · exact ⟨r', h, rfl, rfl⟩
  · split at h
    · exact ⟨r', h, rfl, rfl⟩
    · simp only [List.mem_filterMap] at h
      obtain ⟨r, hr, hf⟩ := h
      split at hf
      · split at hf
        · simp at hf
        · simp at hf; subst hf; exact ⟨r, hr, rfl, rfl⟩
      · simp at hf; subst hf; exact ⟨r, hr, rfl, rfl⟩

theorem topoEnsure_spec (t : List TopoRow) (idx : Nat) (node : String) (q : SvcReq) (ex : Option (Svc × SvcX))
    (hc : q.kind = .connectProxy ∨ q.native = true) :
    (∀ r ∈ topoEnsure t idx node q ex, r ∈ t ∨ ∃ u ∈ q.ups, r.pk = pk2 u q.dest) ∧
    ((∀ r ∈ t, NF r.dn) → NF q.dest → ∀ r ∈ topoEnsure t idx node q ex, NF r.dn) ∧
    (∀ u ∈ q.ups, pk2 u q.dest ∉ droppedKeys q ex → ∃ r ∈ topoEnsure t idx node q ex, r.pk = pk2 u q.dest) := by
  unfold topoEnsure
  rw [if_pos hc]
  simp only
  obtain ⟨a1, a2, a3⟩ := addLoop idx q.dest (uidOf node q.id) q.ups t
  have hd := dropLoop q.ups q.dest (match ex with | some r => r.2.ups | none => [])
    (q.ups.foldl (fun t u => topoAddRef t idx u q.dest (uidOf node q.id)) t)
  have hdk : droppedKeys q ex = ((match ex with | some r => r.2.ups | none => []).filter fun u => !q.ups.contains u).map fun u => pk2 u q.dest := by
    unfold droppedKeys; rw [if_pos hc]; cases ex <;> rfl
  refine ⟨?_, ?_, ?_⟩
  · intro r hr
    exact a1 r ((hd r).mp hr).1
  · intro ht hdn r hr
    exact nf_addLoop idx q.dest (uidOf node q.id) hdn q.ups t ht r ((hd r).mp hr).1
  · intro u hu hnd
    obtain ⟨r, hr, hk⟩ := a3 u hu
    exact ⟨r, (hd r).mpr ⟨hr, by rw [hk, ← hdk]; exact hnd⟩, hk⟩

theorem topoEnsure_off (t : List TopoRow) (idx : Nat) (node : String) (q : SvcReq) (ex : Option (Svc × SvcX))
    (hc : ¬ (q.kind = .connectProxy ∨ q.native = true)) : topoEnsure t idx node q ex = t := by
  unfold topoEnsure; rw [if_neg hc]

/-! ### the invariant -/

section Inv
variable (Gn : List String)

/-- requests: a real instance kind, a NUL-free proxy destination that is not a gateway name -/
def WG (q : SvcReq) : Prop := q.real ∧ NF q.dest ∧ lc q.dest ∉ Gn

/-- config entries: lower-case NUL-free kinds; gateway entries are named in `Gn` -/
def WcG (kind name : String) : Prop :=
  (lc kind = kind ∧ NF kind) ∧ (kind = "ingress-gateway" ∨ kind = "terminating-gateway" → lc name ∈ Gn)

structure GI (g : GState) : Prop where
  dinv : DInv g.x
  tok : TOk Gn g.t
  sound : ∀ r ∈ g.t.topo, lc r.dn ∉ Gn → Decl g.x r.pk ∨ r.pk ∈ g.gh.staleTopo
  complete : ∀ rr ∈ g.x.loc.rows, rr.2.kind = .connectProxy → lc rr.2.dest ∉ Gn → NF rr.2.dest → ∀ u ∈ rr.2.ups,
    hasTopo g.t.topo (pk2 u rr.2.dest) = true ∨ pk2 u rr.2.dest ∈ g.gh.lostTopo

variable {Gn}

theorem hasTopo_tstep {T T' : GTabs} (h : TStep Gn T T') (hT : TOk Gn T) {u d : String} (hd : lc d ∉ Gn) (hnf : NF d) :
    hasTopo T'.topo (pk2 u d) = true ↔ hasTopo T.topo (pk2 u d) = true := by
  rw [hasTopo_iff, hasTopo_iff]
  constructor
  · rintro ⟨r, hr, hk⟩
    have : lc r.dn ∉ Gn := by rw [(pk2_inj_right (h.ok.nf r hr) hnf hk).2]; exact hd
    exact ⟨r, (h.out r this).mp hr, hk⟩
  · rintro ⟨r, hr, hk⟩
    have : lc r.dn ∉ Gn := by rw [(pk2_inj_right (hT.nf r hr) hnf hk).2]; exact hd
    exact ⟨r, (h.out r this).mpr hr, hk⟩

/-- a step that changes the tables by gateway functions only, keeps every declaration and adds no local row -/
theorem gi_frame {g g' : GState} (hd : DInv g'.x) (hstep : TStep Gn g.t g'.t) (hdecl : ∀ k, Decl g.x k → Decl g'.x k)
    (hloc : ∀ r ∈ g'.x.loc.rows, r ∈ g.x.loc.rows) (hst : ∀ k ∈ g.gh.staleTopo, k ∈ g'.gh.staleTopo)
    (hlo : ∀ k ∈ g.gh.lostTopo, k ∈ g'.gh.lostTopo) (h : GI Gn g) : GI Gn g' := by
  refine ⟨hd, hstep.ok, ?_, ?_⟩
  · intro r hr hout
    rcases h.sound r ((hstep.out r hout).mp hr) hout with h1 | h1
    · exact Or.inl (hdecl _ h1)
    · exact Or.inr (hst _ h1)
  · intro rr hrr hk hout hnf u hu
    rcases h.complete rr (hloc rr hrr) hk hout hnf u hu with h1 | h1
    · exact Or.inl ((hasTopo_tstep hstep h.tok hout hnf).mpr h1)
    · exact Or.inr (hlo _ h1)

theorem decl_of_rows {x x' : XState} (h : ∀ q, (x'.cat q).rows = (x.cat q).rows) (k : String) (hd : Decl x k) : Decl x' k := by
  obtain ⟨q, r, hr, hk⟩ := hd
  exact ⟨q, r, by rw [h q]; exact hr, hk⟩

theorem gi_aux (g : GState) (x' : XState) (hv : auxView x' = auxView g.x) (h : GI Gn g) : GI Gn { g with x := x' } := by
  have sr := SameRows.of_aux hv
  exact gi_frame (g := g) (g' := { g with x := x' }) (dinv_same sr h.dinv) (TStep.refl h.tok) (decl_of_rows sr.rows)
    (fun r hr => by rw [← sr.loc_rows]; exact hr) (fun _ hk => hk) (fun _ hk => hk) h

theorem gi_setSt (g : GState) (p : String) (st' : State) (hs : st'.svcs = (g.x.cat p).st.svcs) (h : GI Gn g) :
    GI Gn { g with x := g.x.setCat p { g.x.cat p with st := st' } } := by
  have sr := SameRows.of_setSt g.x p st' hs
  exact gi_frame (g := g) (g' := { g with x := g.x.setCat p { g.x.cat p with st := st' } }) (dinv_same sr h.dinv)
    (TStep.refl h.tok) (decl_of_rows sr.rows) (fun r hr => by rw [← sr.loc_rows]; exact hr) (fun _ hk => hk) (fun _ hk => hk) h

theorem tstep_configSetHooks (hGn : ∀ n ∈ Gn, NF n) {T : GTabs} (h : TOk Gn T) (x : XState) (idx : Nat) (kind name : String) (dest : Bool)
    (tok : String) (hn : kind = "ingress-gateway" ∨ kind = "terminating-gateway" → lc name ∈ Gn) :
    TStep Gn T (configSetHooks T x idx kind name dest tok) := by
  unfold configSetHooks
  have h1 := tstep_gwConfigSet hGn h x idx kind name tok hn
  simp only
  split
  · exact h1.trans ((tstep_gwCheckWildcards hGn h1.ok x idx name none _).trans (tstep_gwCheck hGn (tstep_gwCheckWildcards hGn h1.ok x idx name none _).ok idx name _))
  · exact h1

theorem tstep_configDeleteHooks (hGn : ∀ n ∈ Gn, NF n) {T : GTabs} (h : TOk Gn T) (x : XState) (idx : Nat) (kind name : String)
    (hn : kind = "ingress-gateway" ∨ kind = "terminating-gateway" → lc name ∈ Gn) :
    TStep Gn T (configDeleteHooks T x idx kind name) := by
  unfold configDeleteHooks
  split
  · exact TStep.refl h
  · next c hc =>
    extract_lets T1 k0 k T2
    have h1 : TStep Gn T T1 := by
      unfold T1
      split
      · exact tstep_gw_only h _ (fun m hm => h.names m (List.mem_filter.mp hm).1)
      · exact TStep.refl h
    have h2 : TStep Gn T1 T2 := by
      unfold T2
      split
      · have a := tstep_gwCheckWildcards hGn h1.ok x idx c.name none k
        have b := tstep_gwCleanup hGn a.ok x idx c.name true
        exact a.trans (b.trans (tstep_gwCheck hGn b.ok idx c.name k))
      · exact TStep.refl h1.ok
    have h12 := h1.trans h2
    split
    · next hk =>
      have hname : lc name ∈ Gn := hn (Or.inl hk)
      refine h12.trans ⟨⟨h2.ok.names, fun r hr => h2.ok.nf r (List.mem_filter.mp hr).1⟩, ?_⟩
      intro r hr
      simp only
      rw [List.mem_filter]
      refine ⟨fun hm => hm.1, fun hm => ⟨hm, ?_⟩⟩
      simp only [bne_iff_ne, ne_eq]
      exact fun he => hr (he ▸ hname)
    · exact h12

theorem gi_configUpsert (hGn : ∀ n ∈ Gn, NF n) {g g' : GState} {idx : Nat} {kind name tok : String} {dest : Bool}
    (hw : WcG Gn kind name) (hc : configUpsertG g idx kind name dest tok = .ok g') (h : GI Gn g) : GI Gn g' := by
  unfold configUpsertG at hc
  cases hx : configUpsert g.x idx kind name dest tok with
  | error e => rw [hx] at hc; simp at hc
  | ok x' =>
    rw [hx] at hc; simp at hc; subst hc
    have f := xframe_configUpsert hx
    refine gi_frame (g := g) (dinv_configUpsert hw.1 hx h.dinv) (tstep_configSetHooks hGn h.tok g.x idx kind name dest tok hw.2)
      (decl_of_rows (fun q => by rw [f.cat q])) (fun r hr => ?_) (fun _ hk => hk) (fun _ hk => hk) h
    have : x'.loc = g.x.loc := f.loc
    rw [← this]; exact hr

theorem gi_configDelete (hGn : ∀ n ∈ Gn, NF n) (g : GState) (idx : Nat) (kind name : String) (hw : WcG Gn kind name) (h : GI Gn g) :
    GI Gn (configDeleteG g idx kind name) := by
  unfold configDeleteG
  have f := xframe_configDelete g.x kind name
  refine gi_frame (g := g) (dinv_configDelete g.x kind name hw.1.2 h.dinv) (tstep_configDeleteHooks hGn h.tok g.x idx kind name hw.2)
    (decl_of_rows (fun q => by rw [f.cat q])) (fun r hr => ?_) (fun _ hk => hk) (fun _ hk => hk) h
  have : (configDelete g.x kind name).loc = g.x.loc := f.loc
  rw [← this]; exact hr

theorem existingRow_of_mem {x : XState} {p node id : String} {r : Svc × SvcX}
    (h : svcFind (x.cat p).st node id = some r.1 ∧ extFind (x.cat p) node id = some r.2) : existingRow x p node id = some r := by
  unfold existingRow
  rw [h.1, h.2]

theorem gi_ensureService (hGn : ∀ n ∈ Gn, NF n) {g g' : GState} {p node : String} {idx : Nat} {q : SvcReq} (hw : WG Gn q)
    (he : ensureServiceG g p idx node q = .ok g') (h : GI Gn g) : GI Gn g' := by
  unfold ensureServiceG at he
  cases hx : ensureServiceX g.x p idx node q with
  | error e => rw [hx] at he; simp at he
  | ok x' =>
    rw [hx] at he
    simp only at he
    injection he with he
    subst he
    have spec := ensureServiceX_spec hx (h.dinv.side.srt p)
    obtain ⟨v, e, hn, hk, hkind, hcn, hvip, hmem, hrows, hkeep, hfind⟩ := spec.row
    have hattr := spec.attrs (v, e) hmem hk
    -- the tables
    generalize hex : existingRow g.x p node q.id = ex
    have s1 : TStep Gn g.t (if p = "" ∧ q.kind = .typical ∧ q.name ≠ "consul" then
        gwCheck (gwCheckWildcards g.t g.x idx q.name (some (decide (q.kind = .connectProxy ∨ q.native = true))) .service) idx q.name .service
      else g.t) := by
      split
      · have a := tstep_gwCheckWildcards hGn h.tok g.x idx q.name (some (decide (q.kind = .connectProxy ∨ q.native = true))) .service
        exact a.trans (tstep_gwCheck hGn a.ok idx q.name .service)
      · exact TStep.refl h.tok
    generalize hT1 : (if p = "" ∧ q.kind = .typical ∧ q.name ≠ "consul" then
        gwCheck (gwCheckWildcards g.t g.x idx q.name (some (decide (q.kind = .connectProxy ∨ q.native = true))) .service) idx q.name .service
      else g.t) = T1 at s1
    -- membership of the final topology: a row of T1, or an added key (connect registrations only)
    have hT' : TOk Gn (ensureHooks g.t g.x p idx node q) ∧
        (∀ r ∈ (ensureHooks g.t g.x p idx node q).topo, lc r.dn ∉ Gn →
          r ∈ g.t.topo ∨ ((q.kind = .connectProxy ∨ q.native = true) ∧ ∃ u ∈ q.ups, r.pk = pk2 u q.dest)) ∧
        (∀ u ∈ q.ups, (q.kind = .connectProxy ∨ q.native = true) → pk2 u q.dest ∉ droppedKeys q ex →
          hasTopo (ensureHooks g.t g.x p idx node q).topo (pk2 u q.dest) = true) := by
      unfold ensureHooks
      simp only
      rw [hT1, hex]
      by_cases hc : q.kind = .connectProxy ∨ q.native = true
      · rw [if_pos hc]
        obtain ⟨b1, b2, b3⟩ := topoEnsure_spec T1.topo idx node q ex hc
        have ok2 : TOk Gn { T1 with topo := topoEnsure T1.topo idx node q ex } := ⟨s1.ok.names, b2 s1.ok.nf hw.2.1⟩
        have s3 := tstep_gwCheckWildcards hGn ok2 g.x idx (if q.kind = .connectProxy then q.dest else q.name) (some true) .service
        refine ⟨s3.ok, ?_, ?_⟩
        · intro r hr hout
          rcases b1 r ((s3.out r hout).mp hr) with h1 | h1
          · exact Or.inl ((s1.out r hout).mp h1)
          · exact Or.inr ⟨hc, h1⟩
        · intro u hu _ hnd
          obtain ⟨r, hr, hkr⟩ := b3 u hu hnd
          rw [hasTopo_iff]
          have : lc r.dn ∉ Gn := by rw [(pk2_inj_right (ok2.nf r hr) hw.2.1 hkr).2]; exact hw.2.2
          exact ⟨r, (s3.out r this).mpr hr, hkr⟩
      · rw [if_neg hc]
        exact ⟨s1.ok, fun r hr hout => Or.inl ((s1.out r hout).mp hr), fun u _ hc' _ => absurd hc' hc⟩
    obtain ⟨tok', tmem, tadd⟩ := hT'
    -- the rows
    have hexr : ∀ r ∈ (g.x.cat p).rows, r.1.pk = pk2 node q.id → ex = some r := by
      intro r hr hkr
      rw [← hex]; exact existingRow_of_mem (hfind r hr hkr)
    have decl_keep : ∀ k, Decl g.x k → Decl x' k ∨ ∃ r, ex = some r ∧ declares k r = true := by
      rintro k ⟨q0, r0, hr0, hd0⟩
      by_cases hsp : samePeer p q0
      · rw [cat_of_samePeer g.x hsp] at hr0
        by_cases hkey : r0.1.pk = pk2 node q.id
        · exact Or.inr ⟨r0, hexr r0 hr0 hkey, hd0⟩
        · exact Or.inl ⟨p, r0, hkeep r0 hr0 hkey, hd0⟩
      · exact Or.inl ⟨q0, r0, by rw [spec.other q0 hsp]; exact hr0, hd0⟩
    have newdecl : q.kind = .connectProxy → ∀ u ∈ q.ups, Decl x' (pk2 u q.dest) := by
      intro hkp u hu
      refine ⟨p, (v, e), hmem, ?_⟩
      rw [declares_iff]
      exact ⟨by rw [hattr.2.2]; exact hkp, u, by rw [hattr.2.1]; exact hu, by rw [hattr.1]⟩
    have locrows : ∀ rr ∈ x'.loc.rows, (p = "" ∧ rr = (v, e)) ∨ rr ∈ g.x.loc.rows := by
      intro rr hrr
      rw [loc_eq_cat] at hrr
      by_cases hp : p = ""
      · subst hp
        rcases hrows rr hrr with h1 | ⟨h1, -⟩
        · exact Or.inl ⟨rfl, h1⟩
        · exact Or.inr (by rw [loc_eq_cat]; exact h1)
      · rw [spec.other "" (not_samePeer_empty hp)] at hrr
        exact Or.inr (by rw [loc_eq_cat]; exact hrr)
    refine ⟨dinv_ensureService hw.1 hx h.dinv, tok', ?_, ?_⟩
    · -- soundness or known
      intro r hr hout
      have hstale : ∀ k, k ∈ g.gh.staleTopo → k ∈ (ghostEnsure g.gh x' g.t.topo (ensureHooks g.t g.x p idx node q).topo q ex).staleTopo :=
        fun k hk' => List.mem_append_left _ hk'
      -- a candidate key: declared in the new state, or listed
      have cand : r.pk ∈ staleCands q ex →
          Decl x' r.pk ∨ r.pk ∈ (ghostEnsure g.gh x' g.t.topo (ensureHooks g.t g.x p idx node q).topo q ex).staleTopo := by
        intro hc
        cases hsd : sidecarDeclared x' r.pk with
        | true => exact Or.inl (sidecarDeclared_iff.mp hsd)
        | false =>
          right
          unfold ghostEnsure
          simp only
          apply List.mem_append_right
          rw [List.mem_filter]
          refine ⟨hc, ?_⟩
          rw [hsd, hasTopo_iff.mpr ⟨r, hr, rfl⟩]; rfl
      rcases tmem r hr hout with hold | ⟨hc, u, hu, hkr⟩
      · rcases h.sound r hold hout with hd | hs
        · rcases decl_keep r.pk hd with h1 | ⟨r0, hr0, hd0⟩
          · exact Or.inl h1
          · apply cand
            unfold staleCands
            apply List.mem_append_right
            rw [hr0]
            exact mem_pairsOf.mpr hd0
        · exact Or.inr (hstale _ hs)
      · by_cases hkp : q.kind = .connectProxy
        · rw [hkr]; exact Or.inl (newdecl hkp u hu)
        · apply cand
          unfold staleCands
          apply List.mem_append_left
          rw [if_pos ⟨hc, hkp⟩, hkr]
          exact List.mem_map.mpr ⟨u, hu, rfl⟩
    · -- completeness or known
      intro rr hrr hkp hout hnf u hu
      generalize hkk : pk2 u rr.2.dest = k
      cases hT : hasTopo (ensureHooks g.t g.x p idx node q).topo k with
      | true => exact Or.inl rfl
      | false =>
        right
        have hloc : localDeclared x' k = true :=
          localDeclared_iff.mpr ⟨rr, hrr, declares_iff.mpr ⟨hkp, u, hu, hkk⟩⟩
        have fin : k ∈ droppedKeys q ex ++ goneKeys g.t.topo (ensureHooks g.t g.x p idx node q).topo →
            k ∈ (ghostEnsure g.gh x' g.t.topo (ensureHooks g.t g.x p idx node q).topo q ex).lostTopo := by
          intro hc
          unfold ghostEnsure
          simp only
          apply List.mem_append_right
          rw [List.mem_filter]
          exact ⟨hc, by rw [hT, hloc]; rfl⟩
        rcases locrows rr hrr with ⟨hp, hnew⟩ | hold
        · subst hnew
          have hconn : q.kind = .connectProxy ∨ q.native = true := Or.inl (by rw [← hattr.2.2]; exact hkp)
          have hu' : u ∈ q.ups := by rw [← hattr.2.1]; exact hu
          have hkk' : pk2 u q.dest = k := by rw [← hattr.1]; exact hkk
          apply fin
          apply List.mem_append_left
          apply Classical.byContradiction
          intro hnd
          have := tadd u hu' hconn (by rw [hkk']; exact hnd)
          rw [hkk', hT] at this
          cases this
        · rcases h.complete rr hold hkp hout hnf u hu with h1 | h1
          · apply fin
            apply List.mem_append_right
            rw [hkk] at h1
            obtain ⟨r0, hr0, hk0⟩ := hasTopo_iff.mp h1
            unfold goneKeys
            refine List.mem_map.mpr ⟨r0, List.mem_filter.mpr ⟨hr0, ?_⟩, hk0⟩
            rw [hk0, hT]; rfl
          · rw [hkk] at h1; exact List.mem_append_left _ h1

/-- the rows after `deleteServiceX` -/
theorem deleteServiceX_rows {s s' : XState} {p node id : String} {idx : Nat} (h : deleteServiceX s p idx node id = .ok s')
    (hsrt : SortedBy Svc.pk (s.cat p).st.svcs) :
    (s' = s ∧ svcFind (s.cat p).st node id = none) ∨ ∃ v e, svcFind (s.cat p).st node id = some v ∧ extFind (s.cat p) node id = some e ∧
      (∀ r ∈ (s.cat p).rows, r.1.pk = pk2 node id → r = (v, e)) ∧
      (∀ r, r ∈ (s'.cat p).rows ↔ r ∈ (s.cat p).rows ∧ r.1.pk ≠ pk2 node id) ∧
      (∀ q', ¬ samePeer p q' → s'.cat q' = s.cat q') := by
  have h0 := h
  unfold deleteServiceX at h0
  simp only at h0
  cases hv : svcFind (s.cat p).st node id with
  | none => rw [hv] at h0; simp at h0; exact Or.inl ⟨h0.symm, rfl⟩
  | some v =>
    right
    rcases deleteServiceX_spec h with hs | ⟨v', e, st', hv', he, hsv, rfl⟩
    · -- the state did not change although the row exists: impossible (the row is gone from the result)
      rw [hv] at h0
      cases he : extFind (s.cat p) node id with
      | none => rw [he] at h0; simp at h0
      | some e =>
        rw [he] at h0
        simp only at h0
        cases hd : deleteService (s.cat p).st idx node id with
        | error er => rw [hd] at h0; simp at h0
        | ok st' =>
          rw [hd] at h0
          simp only at h0
          injection h0 with h0
          have hrow := (rows_find hsrt hv he).1
          have hsv := (deleteService_spec hd).2.1
          have hcat : ((s.setCat p ⟨st', terase SvcX.pk (pk2 node id) (s.cat p).ext⟩).cat p) = ⟨st', terase SvcX.pk (pk2 node id) (s.cat p).ext⟩ :=
            cat_setCat_self _ _ _
          have hfr := (xframe_afterServiceDelete (s.setCat p ⟨st', terase SvcX.pk (pk2 node id) (s.cat p).ext⟩) p v e).cat p
          rw [h0, hs, hcat] at hfr
          have : (v, e) ∈ (s.cat p).rows ∧ (v, e).1.pk ≠ pk2 node id := by
            rw [← rows_del st' _ hsv (v, e), ← hfr]; exact hrow
          exact absurd (tfind_some hv).2 this.2
    · rw [hv] at hv'
      injection hv' with hv'
      subst hv'
      obtain ⟨_, huniq⟩ := rows_find hsrt hv he
      have hfr := xframe_afterServiceDelete (s.setCat p ⟨st', terase SvcX.pk (pk2 node id) (s.cat p).ext⟩) p v e
      refine ⟨v, e, rfl, he, huniq, ?_, ?_⟩
      · intro r
        rw [hfr.cat p, cat_setCat_self]
        exact rows_del st' _ hsv r
      · intro q' hq'
        rw [hfr.cat q', cat_setCat_other _ _ hq']

theorem gi_deleteService (hGn : ∀ n ∈ Gn, NF n) {g g' : GState} {p node id : String} {idx : Nat}
    (he : deleteServiceG g p idx node id = .ok g') (h : GI Gn g) : GI Gn g' := by
  unfold deleteServiceG at he
  cases hx : deleteServiceX g.x p idx node id with
  | error e => rw [hx] at he; simp at he
  | ok x' =>
    rw [hx] at he
    simp only at he
    have hd' := dinv_deleteService hx h.dinv
    rcases deleteServiceX_rows hx (h.dinv.side.srt p) with ⟨rfl, hnone⟩ | ⟨v, e, hv, hex, huniq, hrows, hother⟩
    · rw [hnone] at he
      simp only at he
      injection he with he
      subst he
      exact h
    · rw [hv, hex] at he
      simp only at he
      injection he with he
      subst he
      -- the tables
      have ok1 : TOk Gn (GTabs.mk g.t.gw (topoCleanup g.t.topo p v e)) :=
        ⟨h.tok.names, fun r hr => by
          obtain ⟨r0, hr0, _, hdn⟩ := mem_topoCleanup hr
          rw [← hdn]; exact h.tok.nf r0 hr0⟩
      have s2 : TStep Gn (GTabs.mk g.t.gw (topoCleanup g.t.topo p v e)) (deleteHooks g.t x' p idx v e) := by
        unfold deleteHooks
        simp only
        have a : TStep Gn (GTabs.mk g.t.gw (topoCleanup g.t.topo p v e))
            (if p = "" ∧ (e.kind = .connectProxy ∨ e.native = true) then
              (if hasConnectInstance x'.loc (if e.kind = .connectProxy then e.dest else v.name) = true then
                (GTabs.mk g.t.gw (topoCleanup g.t.topo p v e))
               else gwCleanup (GTabs.mk g.t.gw (topoCleanup g.t.topo p v e)) x' idx (if e.kind = .connectProxy then e.dest else v.name) false)
             else (GTabs.mk g.t.gw (topoCleanup g.t.topo p v e))) := by
          repeat' split
          all_goals first | exact TStep.refl ok1 | exact tstep_gwCleanup hGn ok1 x' idx _ false
        split
        · exact a.trans (tstep_gwCleanup hGn a.ok x' idx v.name false)
        · exact a
      have tmem : ∀ r ∈ (deleteHooks g.t x' p idx v e).topo, lc r.dn ∉ Gn → ∃ r0 ∈ g.t.topo, r0.pk = r.pk ∧ r0.dn = r.dn := by
        intro r hr hout
        exact mem_topoCleanup ((s2.out r hout).mp hr)
      have decl_keep : ∀ k, Decl g.x k → Decl x' k ∨ declares k (v, e) = true := by
        rintro k ⟨q0, r0, hr0, hd0⟩
        by_cases hsp : samePeer p q0
        · rw [cat_of_samePeer g.x hsp] at hr0
          by_cases hkey : r0.1.pk = pk2 node id
          · rw [huniq r0 hr0 hkey] at hd0; exact Or.inr hd0
          · exact Or.inl ⟨p, r0, (hrows r0).mpr ⟨hr0, hkey⟩, hd0⟩
        · exact Or.inl ⟨q0, r0, by rw [hother q0 hsp]; exact hr0, hd0⟩
      have locrows : ∀ rr ∈ x'.loc.rows, rr ∈ g.x.loc.rows := by
        intro rr hrr
        rw [loc_eq_cat] at hrr ⊢
        by_cases hp : p = ""
        · subst hp; exact ((hrows rr).mp hrr).1
        · rw [hother "" (not_samePeer_empty hp)] at hrr; exact hrr
      refine ⟨hd', s2.ok, ?_, ?_⟩
      · intro r hr hout
        obtain ⟨r0, hr0, hk0, hdn0⟩ := tmem r hr hout
        rcases h.sound r0 hr0 (by rw [hdn0]; exact hout) with hd | hs
        · rcases decl_keep r0.pk hd with h1 | h1
          · rw [← hk0]; exact Or.inl h1
          · cases hsd : sidecarDeclared x' r.pk with
            | true => exact Or.inl (sidecarDeclared_iff.mp hsd)
            | false =>
              right
              unfold ghostDelete
              simp only
              apply List.mem_append_right
              rw [List.mem_filter]
              refine ⟨by rw [← hk0]; exact mem_pairsOf.mpr h1, ?_⟩
              rw [hsd, hasTopo_iff.mpr ⟨r, hr, rfl⟩]; rfl
        · right
          unfold ghostDelete
          rw [← hk0]
          exact List.mem_append_left _ hs
      · intro rr hrr hkp hout hnf u hu
        generalize hkk : pk2 u rr.2.dest = k
        cases hT : hasTopo (deleteHooks g.t x' p idx v e).topo k with
        | true => exact Or.inl rfl
        | false =>
          right
          have hloc : localDeclared x' k = true :=
            localDeclared_iff.mpr ⟨rr, hrr, declares_iff.mpr ⟨hkp, u, hu, hkk⟩⟩
          rcases h.complete rr (locrows rr hrr) hkp hout hnf u hu with h1 | h1
          · rw [hkk] at h1
            obtain ⟨r0, hr0, hk0⟩ := hasTopo_iff.mp h1
            unfold ghostDelete
            simp only
            apply List.mem_append_right
            rw [List.mem_filter]
            refine ⟨?_, by rw [hT, hloc]; rfl⟩
            unfold goneKeys
            refine List.mem_map.mpr ⟨r0, List.mem_filter.mpr ⟨hr0, ?_⟩, hk0⟩
            rw [hk0, hT]; rfl
          · rw [hkk] at h1
            unfold ghostDelete
            exact List.mem_append_left _ h1

/-- the invariant is closed under every G-level function -/
theorem gi_closed (hGn : ∀ n ∈ Gn, NF n) (hnil : "" ∉ Gn) : GClosed (WG Gn) (WcG Gn) (GI Gn) where
  aux := fun g x' hv h => gi_aux g x' hv h
  setSt := fun g p st' hs h => gi_setSt g p st' hs h
  ensureService := fun hw he h => gi_ensureService hGn hw he h
  deleteService := fun he h => gi_deleteService hGn he h
  configUpsert := fun hw hc h => gi_configUpsert hGn hw hc h
  configDelete := fun g idx kind name hw h => gi_configDelete hGn g idx kind name hw h
  typical := fun x => ⟨⟨by simp [typicalReq], by simp [typicalReq]⟩, by
    show NF (typicalReq x).dest
    unfold typicalReq NF lc; simp, by
    show lc (typicalReq x).dest ∉ Gn
    have : (typicalReq x).dest = "" := rfl
    rw [this, lc_eq_empty.mpr rfl]; exact hnil⟩

theorem GI.empty : GI Gn GState.empty := by
  refine ⟨DInv.empty, ⟨by simp [GState.empty], by simp [GState.empty]⟩, by simp [GState.empty], ?_⟩
  intro rr hrr
  simp [GState.empty, Cat.rows] at hrr

theorem gi_replayG (hGn : ∀ n ∈ Gn, NF n) (hnil : "" ∉ Gn) (log : XLog) (hw : XLog.gOk (WG Gn) (WcG Gn) log) :
    GI Gn (replayG GState.empty log) :=
  gc_replayG (gi_closed hGn hnil) log _ hw GI.empty

end Inv

end CV.Store
