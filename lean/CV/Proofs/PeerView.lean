/-
Helper lemmas for C17: what `CheckServiceNodes` returns (the stored view used by the importer) and what
the clean-up pass of `handleUpdateService` computes from it.
-/
import CV.Proofs.PeerDel
set_option linter.unusedSectionVars false
namespace CV.Peer

/-! ### the stored view -/

theorem csnOf_ok {c : Cat} {p : String} {s : Svc} {x : CSN} (h : csnOf c p s = .ok x) :
    x.svc = s ∧ x.node ∈ c.nodes ∧ x.node.peer = p ∧ x.node.name = s.node ∧
    x.chks = c.chks.filter (chkOfNode p s.node) ++ c.chks.filter (chkOfSvc p s.node s.sid) := by
  unfold csnOf at h
  split at h
  · cases h
  · rename_i n hn
    cases h
    have h1 := List.mem_of_find?_eq_some hn
    have h2 := List.find?_some hn
    simp only [nodeAt_iff] at h2
    exact ⟨rfl, h1, h2.1, h2.2, rfl⟩

theorem csnAll_ok {c : Cat} {p : String} (l : List Svc) {st : List CSN} (h : csnAll c p l = .ok st) :
    (∀ x ∈ st, x.svc ∈ l ∧ csnOf c p x.svc = .ok x) ∧ (∀ s ∈ l, ∃ x ∈ st, x.svc = s) := by
  induction l generalizing st with
  | nil => simp [csnAll] at h; subst h; simp
  | cons s ss ih =>
    simp only [csnAll] at h
    split at h
    · cases h
    · rename_i x hx
      split at h
      · cases h
      · rename_i xs hxs
        cases h
        obtain ⟨a, b⟩ := ih hxs
        have hs := (csnOf_ok hx).1
        constructor
        · intro y hy
          simp only [List.mem_cons] at hy
          rcases hy with hy | hy
          · subst hy; rw [hs]; exact ⟨by simp, hx⟩
          · exact ⟨by simp [(a y hy).1], (a y hy).2⟩
        · intro t ht
          simp only [List.mem_cons] at ht
          rcases ht with ht | ht
          · subst ht; exact ⟨x, by simp, hs⟩
          · obtain ⟨y, hy, e⟩ := b t ht; exact ⟨y, by simp [hy], e⟩

/-- everything the importer knows about the stored instances of `(p, sn)` -/
theorem csn_ok {c : Cat} {p sn : String} {st : List CSN} (h : csn c p sn = .ok st) :
    (∀ x ∈ st, x.svc ∈ c.svcs ∧ x.svc.peer = p ∧ x.svc.name = sn ∧ x.node ∈ c.nodes ∧ x.node.peer = p ∧
        x.node.name = x.svc.node ∧
        x.chks = c.chks.filter (chkOfNode p x.svc.node) ++ c.chks.filter (chkOfSvc p x.svc.node x.svc.sid)) ∧
    (∀ s ∈ c.svcs, s.peer = p → s.name = sn → ∃ x ∈ st, x.svc = s) := by
  unfold csn at h
  obtain ⟨a, b⟩ := csnAll_ok _ h
  constructor
  · intro x hx
    obtain ⟨h1, h2⟩ := a x hx
    simp only [List.mem_filter, decide_eq_true_eq] at h1
    obtain ⟨_, e2, e3, e4, e5⟩ := csnOf_ok h2
    exact ⟨h1.1, h1.2.1, h1.2.2, e2, e3, e4, e5⟩
  · intro s hs hp hn
    exact b s (by simp [List.mem_filter, hs, hp, hn])

/-! ### the clean-up pass -/

theorem mem_insertNew {α : Type} [DecidableEq α] (l : List α) (a b : α) : b ∈ insertNew l a ↔ b ∈ l ∨ b = a := by
  unfold insertNew
  split
  · constructor
    · exact fun h => Or.inl h
    · rintro (h | h)
      · exact h
      · subst h; assumption
  · simp

/-- a stored check is missing from the received instance -/
def chkGone (ss : SSvc) (k : Chk) : Prop := ¬ ∃ e ∈ ss.chks, e.cid = k.cid

theorem cleanupChecks_spec (p : String) (ss : SSvc) (ks : List Chk) (acc : Cleanup) :
    (∀ o, o ∈ (cleanupChecks p ss ks acc).ops ↔
        o ∈ acc.ops ∨ ∃ k ∈ ks, chkGone ss k ∧ k.sid ≠ "" ∧ o = .deregChk p k.node k.cid) ∧
    (∀ nk, nk ∈ (cleanupChecks p ss ks acc).nchks ↔
        nk ∈ acc.nchks ∨ ∃ k ∈ ks, chkGone ss k ∧ k.sid = "" ∧ nk = (k.node, k.cid)) ∧
    (cleanupChecks p ss ks acc).unused = acc.unused := by
  induction ks generalizing acc with
  | nil => simp [cleanupChecks]
  | cons k ks ih =>
    simp only [cleanupChecks]
    split
    · rename_i h
      simp only [List.any_eq_true, decide_eq_true_eq] at h
      obtain ⟨a, b, d⟩ := ih acc
      refine ⟨fun o => ?_, fun nk => ?_, d⟩
      · rw [a]; simp only [List.mem_cons, chkGone]; grind
      · rw [b]; simp only [List.mem_cons, chkGone]; grind
    · rename_i h
      simp only [List.any_eq_true, decide_eq_true_eq] at h
      split
      · rename_i hs
        obtain ⟨a, b, d⟩ := ih { acc with nchks := insertNew acc.nchks (k.node, k.cid) }
        refine ⟨fun o => ?_, fun nk => ?_, d⟩
        · rw [a]; simp only [List.mem_cons, chkGone]; grind
        · rw [b]; simp only [List.mem_cons, chkGone, mem_insertNew]; grind
      · rename_i hs
        obtain ⟨a, b, d⟩ := ih { acc with ops := acc.ops ++ [.deregChk p k.node k.cid] }
        refine ⟨fun o => ?_, fun nk => ?_, d⟩
        · rw [a]; simp only [List.mem_cons, chkGone, List.mem_append]; grind
        · rw [b]; simp only [List.mem_cons, chkGone]; grind

/-- the received snapshot has this (node, service id) -/
def snapInst (snap : Snap) (n i : String) : Option SSvc :=
  match snapNode snap n with
  | none => none
  | some nd => nd.svcs.find? (fun e => decide (e.svc.sid = i))

theorem cleanupOne_spec (p : String) (snap : Snap) (x : CSN) (acc : Cleanup) :
    (∀ o, o ∈ (cleanupOne p snap x acc).ops ↔
        o ∈ acc.ops ∨ (snapInst snap x.node.name x.svc.sid = none ∧ o = .deregSvc p x.node.name x.svc.sid) ∨
        ∃ ss, snapInst snap x.node.name x.svc.sid = some ss ∧
          ∃ k ∈ x.chks, chkGone ss k ∧ k.sid ≠ "" ∧ o = .deregChk p k.node k.cid) ∧
    (∀ nk, nk ∈ (cleanupOne p snap x acc).nchks ↔
        nk ∈ acc.nchks ∨ ∃ ss, snapInst snap x.node.name x.svc.sid = some ss ∧
          ∃ k ∈ x.chks, chkGone ss k ∧ k.sid = "" ∧ nk = (k.node, k.cid)) ∧
    (∀ n, n ∈ (cleanupOne p snap x acc).unused ↔
        n ∈ acc.unused ∨ (snapNode snap x.node.name = none ∧ n = x.node.name)) := by
  unfold cleanupOne snapInst
  split
  · rename_i h
    refine ⟨fun o => ?_, fun nk => ?_, fun n => ?_⟩
    · simp only [List.mem_append, List.mem_singleton, h]; grind
    · simp only [h]; grind
    · simp only [mem_insertNew, h]; grind
  · rename_i nd h
    split
    · rename_i h2
      refine ⟨fun o => ?_, fun nk => ?_, fun n => ?_⟩
      · simp only [List.mem_append, List.mem_singleton, h, h2]; grind
      · simp only [h, h2]; grind
      · simp only [h]; grind
    · rename_i ss h2
      obtain ⟨a, b, d⟩ := cleanupChecks_spec p ss x.chks acc
      refine ⟨fun o => ?_, fun nk => ?_, fun n => ?_⟩
      · rw [a]; simp only [h, h2]; grind
      · rw [b]; simp only [h, h2]; grind
      · rw [d]; simp only [h]; grind

theorem cleanup_fold_spec (p : String) (snap : Snap) (st : List CSN) (acc : Cleanup) :
    let r := st.foldl (fun acc x => cleanupOne p snap x acc) acc
    (∀ o, o ∈ r.ops ↔
        o ∈ acc.ops ∨ ∃ x ∈ st, (snapInst snap x.node.name x.svc.sid = none ∧ o = .deregSvc p x.node.name x.svc.sid) ∨
        ∃ ss, snapInst snap x.node.name x.svc.sid = some ss ∧
          ∃ k ∈ x.chks, chkGone ss k ∧ k.sid ≠ "" ∧ o = .deregChk p k.node k.cid) ∧
    (∀ nk, nk ∈ r.nchks ↔
        nk ∈ acc.nchks ∨ ∃ x ∈ st, ∃ ss, snapInst snap x.node.name x.svc.sid = some ss ∧
          ∃ k ∈ x.chks, chkGone ss k ∧ k.sid = "" ∧ nk = (k.node, k.cid)) ∧
    (∀ n, n ∈ r.unused ↔
        n ∈ acc.unused ∨ ∃ x ∈ st, snapNode snap x.node.name = none ∧ n = x.node.name) := by
  induction st generalizing acc with
  | nil => simp
  | cons x xs ih =>
    simp only [List.foldl_cons]
    obtain ⟨a, b, d⟩ := ih (cleanupOne p snap x acc)
    obtain ⟨a1, b1, d1⟩ := cleanupOne_spec p snap x acc
    refine ⟨fun o => ?_, fun nk => ?_, fun n => ?_⟩
    · rw [a, a1]; simp only [List.mem_cons]; grind
    · rw [b, b1]; simp only [List.mem_cons]; grind
    · rw [d, d1]; simp only [List.mem_cons]; grind

theorem cleanup_spec (p : String) (snap : Snap) (st : List CSN) :
    (∀ o, o ∈ (cleanup p snap st).ops ↔
        ∃ x ∈ st, (snapInst snap x.node.name x.svc.sid = none ∧ o = .deregSvc p x.node.name x.svc.sid) ∨
        ∃ ss, snapInst snap x.node.name x.svc.sid = some ss ∧
          ∃ k ∈ x.chks, chkGone ss k ∧ k.sid ≠ "" ∧ o = .deregChk p k.node k.cid) ∧
    (∀ nk, nk ∈ (cleanup p snap st).nchks ↔
        ∃ x ∈ st, ∃ ss, snapInst snap x.node.name x.svc.sid = some ss ∧
          ∃ k ∈ x.chks, chkGone ss k ∧ k.sid = "" ∧ nk = (k.node, k.cid)) ∧
    (∀ n, n ∈ (cleanup p snap st).unused ↔ ∃ x ∈ st, snapNode snap x.node.name = none ∧ n = x.node.name) := by
  have := cleanup_fold_spec p snap st {}
  simp only [List.not_mem_nil, false_or] at this
  exact this

end CV.Peer
