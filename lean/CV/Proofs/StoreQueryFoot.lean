/-
C06, watch footprints: for every query whose WatchSet is NOT reduced by the watch-set optimisation the
footprint is sound between ANY two states — if nothing in `q.watch s` changed between `s` and `s'`
then the result in `s'` is the result in `s` (no assumption on how `s'` was reached).
The optimised case (`csn` with an existing service index row: only that row is watched) needs the
write paths and lives in CV.Proofs.StoreQuerySvc.
-/
import CV.Store.Query
namespace CV.Store
open CV

theorem not_fired_iff {q : Query} {s s' : State} :
    q.fired s s' = false ↔ ∀ w ∈ q.watch s, w.changed s s' = false := by
  unfold Query.fired
  simp [List.any_eq_false]

theorem joinNode_congr {s s' : State} {l : List Svc} (h : ∀ v ∈ l, nodeFind s v.node = nodeFind s' v.node) :
    l.map (joinNode s) = l.map (joinNode s') := by
  apply List.map_congr_left
  intro v hv
  simp [joinNode, h v hv]

theorem nodeWatches_unchanged {s s' : State} {l : List Svc}
    (h : ∀ w ∈ nodeWatches l, w.changed s s' = false) : ∀ v ∈ l, nodeFind s v.node = nodeFind s' v.node := by
  intro v hv
  have := h (.nodeRow v.node) (by simp [nodeWatches]; exact ⟨v, hv, rfl⟩)
  simpa [WatchItem.changed] using this

theorem csnRows_congr {s s' : State} {l : List Svc}
    (hn : ∀ v ∈ l, nodeFind s v.node = nodeFind s' v.node)
    (hc : ∀ v ∈ l, chksNodeSvc s v.node "" = chksNodeSvc s' v.node "" ∧ chksNodeSvc s v.node v.id = chksNodeSvc s' v.node v.id) :
    csnRows s l = csnRows s' l := by
  induction l with
  | nil => rfl
  | cons v vs ih =>
    have h1 := hn v (by simp)
    have h2 := hc v (by simp)
    have ih' := ih (fun w hw => hn w (by simp [hw])) (fun w hw => hc w (by simp [hw]))
    simp only [csnRows, csnRow, h1, h2.1, h2.2, ih']

/-- the query is not answered through the watch-set optimisation in `s` -/
def Query.plainWatch (q : Query) (s : State) : Prop :=
  match q with
  | .csn name => (svcsNamed s name).isEmpty = true ∨ idxGet s.index (svcKey name) = none
  | .nodeServiceList _ => False
  | _ => True

/-- FOOTPRINT SOUNDNESS: unchanged footprint ⇒ unchanged result, between any two states -/
theorem watch_sound (q : Query) (s s' : State) (hq : q.plainWatch s) (h : q.fired s s' = false) :
    (q.run s').2 = (q.run s).2 := by
  rw [not_fired_iff] at h
  cases q with
  | kvGet k =>
    simp only [Query.run, Store.kvGet]
    by_cases hk : k = []
    · simp [hk]
    · have := h (.kvRow k) (by simp [Query.watch, hk])
      simp [WatchItem.changed] at this
      simp [hk, this]
  | kvList p =>
    have := h (.kvPrefix p) (by simp [Query.watch])
    simp [WatchItem.changed] at this
    simp [Query.run, Store.kvList, this]
  | kvKeys p sep =>
    have := h (.kvPrefix p) (by simp [Query.watch])
    simp [WatchItem.changed] at this
    simp [Query.run, Store.kvList, this]
  | sessGet id =>
    have := h (.sessRow id) (by simp [Query.watch])
    simp [WatchItem.changed] at this
    simp [Query.run, this]
  | sessList =>
    have := h .sessAll (by simp [Query.watch])
    simp [WatchItem.changed] at this
    simp [Query.run, this]
  | nodeSessions n =>
    have := h (.sessNode n) (by simp [Query.watch])
    simp [WatchItem.changed] at this
    simp [Query.run, this]
  | nodes =>
    have := h .nodesAll (by simp [Query.watch])
    simp [WatchItem.changed] at this
    simp [Query.run, this]
  | services =>
    have := h .svcAll (by simp [Query.watch])
    simp [WatchItem.changed] at this
    simp [Query.run, this]
  | servicesJoin =>
    have h1 := h .svcAll (by simp [Query.watch])
    simp [WatchItem.changed] at h1
    have h2 := nodeWatches_unchanged (l := s.svcs) (fun w hw => h w (by simp [Query.watch, hw]))
    simp only [Query.run, ← h1]
    rw [joinNode_congr h2]
  | serviceNodes name =>
    have h1 := h (.svcNamed name) (by simp [Query.watch])
    simp [WatchItem.changed] at h1
    have h2 := nodeWatches_unchanged (l := svcsNamed s name) (fun w hw => h w (by simp [Query.watch, hw]))
    simp only [Query.run, ← h1]
    rw [joinNode_congr h2]
  | connectNodes name => rfl
  | tagNodes name tag => rfl
  | nodeServices n =>
    simp only [Query.run, nodeServicesHead]
    cases hn : nodeFind s n with
    | some nd =>
      have h1 := h (.nodeRow n) (by simp [Query.watch, hn])
      have h2 := h (.svcOnNode nd.name) (by simp [Query.watch, hn])
      simp [WatchItem.changed, hn] at h1 h2
      simp [← h1, h2]
    | none =>
      have h1 := h (.nodeRow n) (by simp [Query.watch, hn])
      simp [WatchItem.changed, hn] at h1
      simp only [← h1]
  | nodeServiceList n => exact absurd hq (by simp [Query.plainWatch])
  | nodeChecks n =>
    have := h (.chkNode n) (by simp [Query.watch])
    simp [WatchItem.changed] at this
    simp [Query.run, this]
  | serviceChecks n =>
    have := h (.chkService n) (by simp [Query.watch])
    simp [WatchItem.changed] at this
    simp [Query.run, this]
  | checksInState st =>
    simp only [Query.run]
    by_cases hst : st = "any"
    · have := h .chkAll (by simp [Query.watch, hst])
      simp [WatchItem.changed] at this
      simp [hst, this]
    · have := h (.chkStatus st) (by simp [Query.watch, hst])
      simp [WatchItem.changed] at this
      simp [hst, this]
  | csn name =>
    simp only [Query.run]
    by_cases he : (svcsNamed s name).isEmpty = true
    · have h1 := h (.svcNamed name) (by simp [Query.watch, he])
      simp [WatchItem.changed] at h1
      rw [← h1]
      have : svcsNamed s name = [] := by simpa using he
      simp [this, csnResult, csnRows]
    · have hi : idxGet s.index (svcKey name) = none := by
        rcases hq with hq | hq
        · exact absurd hq he
        · exact hq
      have hw : s.chks = s.chks := rfl
      have h1 := h (.svcNamed name) (by simp [Query.watch, he, hi])
      simp [WatchItem.changed] at h1
      have h2 := nodeWatches_unchanged (l := svcsNamed s name) (fun w hw => h w (by simp [Query.watch, he, hi, hw]))
      have h3 : ∀ v ∈ svcsNamed s name, chksNodeSvc s v.node "" = chksNodeSvc s' v.node "" ∧
          chksNodeSvc s v.node v.id = chksNodeSvc s' v.node v.id := by
        intro v hv
        have a := h (.chkNodeSvc v.node "") (by
          simp only [Query.watch, he, hi]; simp; exact Or.inr ⟨v, hv, Or.inl rfl⟩)
        have b := h (.chkNodeSvc v.node v.id) (by
          simp only [Query.watch, he, hi]; simp; exact Or.inr ⟨v, hv, Or.inr ⟨rfl, rfl⟩⟩)
        simp [WatchItem.changed] at a b
        exact ⟨a, b⟩
      rw [← h1]
      simp only [csnResult, csnRows_congr h2 h3]
  | csnConnect name => rfl
  | csnTag name tag => rfl
  | pqGet id =>
    have := h (.pqRow id) (by simp [Query.watch])
    simp [WatchItem.changed] at this
    simp [Query.run, this]
  | pqList =>
    have := h .pqAll (by simp [Query.watch])
    simp [WatchItem.changed] at this
    simp [Query.run, this]

end CV.Store
