/-
C02 round 4: a concrete log that follows `SnapDisc` (non-vacuity of the reachability theorems).
-/
import CV.Proofs.StoreSnapReach
import CV.Proofs.StoreSnapCex
set_option linter.unusedSimpArgs false
namespace CV.Store.SnapCex
open CV CV.Store

def sampleLog : Log :=
  [ (1, .register ⟨⟨"n1", "", "10.0.0.1", 0, 0⟩, some ⟨"n1", "s0", "web", 80, 0, 0⟩,
        [⟨"n1", "c1", "passing", "s0", "", "", "", "", 0, 0⟩]⟩),
    (2, .sessionCreate ⟨"5e55", "n1", "", "release", [], 0⟩),
    (3, .kvSet ⟨[97], "=v", 0, "", 0, 0, 0⟩),
    (4, .pqSet "q1" "5e55"),
    (5, .kvDelete [97]),
    (6, .deregister "n1" "s0" "") ]

theorem nf_n1 : NF "n1" := by unfold NF lc; rw [String.toList_map]; decide
theorem nf_5e55 : NF "5e55" := by unfold NF lc; rw [String.toList_map]; decide

theorem sampleLog_names : NameDisc sampleLog where
  idxPos := by simp [sampleLog]
  nodes := by
    have h : ∀ ic ∈ sampleLog, ∀ a ∈ ic.2.nodes, a = "n1" := by
      simp [sampleLog, Cmd.nodes]
    intro ic hic a ha
    have e := h ic hic a ha
    subst e
    exact ⟨nf_n1, fun ic' hic' b hb _ => (h ic' hic' b hb).symm⟩
  svcs := by
    have h : ∀ ic ∈ sampleLog, ∀ t ∈ ic.2.svcs, t = ("n1", "s0", "web") := by
      simp [sampleLog, Cmd.svcs]
    intro ic hic t ht ic' hic' u hu _
    rw [h ic hic t ht, h ic' hic' u hu]
  chks := by
    have h : ∀ ic ∈ sampleLog, ∀ t ∈ ic.2.chks, t.1 = "n1" := by
      simp [sampleLog, Cmd.chks]
      intro a _ _ h _ _; exact h
    intro ic hic t ht
    rw [h ic hic t ht]; exact nf_n1

theorem sampleLog_disc : SnapDisc sampleLog := by
  have h : sessIds sampleLog = ["5e55"] := by simp [sessIds, sampleLog, Cmd.sessId]
  refine SnapDisc.ofDistinct sampleLog_names ?_ ?_
  · rw [h]; intro a ha; simp at ha; subst ha; exact nf_5e55
  · rw [h]; simp

/-- the history behind `SnapCex.stale`: instance `s0` registered as "api" with a bound check, then as "web" -/
def renameLog : Log :=
  [ (1, .register ⟨⟨"n1", "", "10.0.0.1", 0, 0⟩, some ⟨"n1", "s0", "api", 80, 0, 0⟩,
        [⟨"n1", "c1", "passing", "s0", "", "", "", "", 0, 0⟩]⟩),
    (2, .register ⟨⟨"n1", "", "10.0.0.1", 0, 0⟩, some ⟨"n1", "s0", "web", 80, 0, 0⟩, []⟩) ]

/-- … is what the service clause of the discipline excludes -/
theorem renameLog_undisciplined : ¬ SnapDisc renameLog := by
  intro h
  have := h.svcs (renameLog[0]) (by simp [renameLog]) ("n1", "s0", "api") (by simp [renameLog, Cmd.svcs])
    (renameLog[1]) (by simp [renameLog]) ("n1", "s0", "web") (by simp [renameLog, Cmd.svcs]) rfl
  simp at this

end CV.Store.SnapCex
