/-
Stage 2 of C07, gateway-services: every link belongs to a CONFIGURED gateway — in every reachable state, for every row
there is an ingress-gateway / terminating-gateway config entry (of the row's gateway kind) named like the row's gateway.
-/
import CV.Proofs.StoreGwIngress
namespace CV.Store
open CV

/-- the config-entry kind of a gateway kind -/
def cfgKindOf : Kind → String
  | .ingressGateway => "ingress-gateway"
  | .terminatingGateway => "terminating-gateway"
  | _ => ""

/-- every gateway-services row satisfies `P` (a property of its gateway kind and gateway name) -/
def RowsP (P : Kind → String → Prop) (T : GTabs) : Prop := ∀ m ∈ T.gw, P m.kind m.gateway

section
variable {P : Kind → String → Prop}

theorem rp_gwUpdate {T : GTabs} (h : RowsP P T) (idx : Nat) (m : GwRow) (hm : P m.kind m.gateway) : RowsP P (gwUpdate T idx m) := by
  unfold gwUpdate
  extract_lets m1
  cases hm1 : m1 with
  | none => exact h
  | some m' =>
    simp only
    have hsame : m'.kind = m.kind ∧ m'.gateway = m.gateway := by
      unfold m1 at hm1
      split at hm1
      · split at hm1
        · simp at hm1
        · simp at hm1; rw [← hm1]; exact ⟨rfl, rfl⟩
      · simp at hm1; rw [← hm1]; exact ⟨rfl, rfl⟩
    intro y hy
    simp only at hy
    rcases mem_tupsert hy with rfl | hy
    · rw [hsame.1, hsame.2]; exact hm
    · exact h y hy

theorem rp_foldl {β : Type} (f : GTabs → β → GTabs) (l : List β) (hf : ∀ T b, b ∈ l → RowsP P T → RowsP P (f T b)) :
    ∀ (T : GTabs), RowsP P T → RowsP P (l.foldl f T) := by
  induction l with
  | nil => intro T h; exact h
  | cons b bs ih =>
    intro T h
    simp only [List.foldl_cons]
    exact ih (fun T' b' hb' => hf T' b' (List.mem_cons_of_mem _ hb')) _ (hf T b List.mem_cons_self h)

theorem rp_gwNamespace {T : GTabs} (h : RowsP P T) (x : XState) (idx : Nat) (w : GwRow) (hw : P w.kind w.gateway) :
    RowsP P (gwNamespace T x idx w) := by
  unfold gwNamespace
  extract_lets T1 T2
  have h1 : RowsP P T1 := by
    unfold T1
    refine rp_foldl _ _ ?_ T h
    intro T' r _ hT'
    simp only
    repeat' split
    all_goals first | exact hT' | exact rp_gwUpdate hT' idx _ hw
  have h2 : RowsP P T2 := by
    unfold T2
    refine rp_foldl _ _ ?_ T1 h1
    intro T' c _ hT'
    repeat' split
    all_goals first | exact hT' | exact rp_gwUpdate hT' idx _ hw
  exact rp_gwUpdate h2 idx w hw

theorem rp_gwCheckWildcards {T : GTabs} (h : RowsP P T) (x : XState) (idx : Nat) (name : String) (ns : Option Bool) (kind : GsKind) :
    RowsP P (gwCheckWildcards T x idx name ns kind) := by
  unfold gwCheckWildcards
  refine rp_foldl _ _ ?_ T h
  intro T' w hwm hT'
  have hw : P w.kind w.gateway := h w (List.mem_filter.mp hwm).1
  repeat' split
  all_goals first | exact hT' | exact rp_gwUpdate hT' idx _ hw

theorem rp_gwCheck {T : GTabs} (h : RowsP P T) (idx : Nat) (name : String) (kind : GsKind) : RowsP P (gwCheck T idx name kind) := by
  unfold gwCheck
  split
  · next g hg => exact rp_gwUpdate h idx _ (h g (List.mem_of_find?_eq_some hg))
  · exact h

theorem rp_gwCleanup {T : GTabs} (h : RowsP P T) (x : XState) (idx : Nat) (name : String) (c : Bool) :
    RowsP P (gwCleanup T x idx name c) := by
  unfold gwCleanup
  simp only
  refine rp_foldl _ _ ?_ T h
  intro T' m _ hT'
  repeat' split
  all_goals first
    | exact hT'
    | exact rp_gwCheck hT' idx _ _
    | exact fun y hy => hT' y (mem_terase.mp hy).1

theorem rp_ensureHooks {T : GTabs} (h : RowsP P T) (x : XState) (p : String) (idx : Nat) (node : String) (q : SvcReq) :
    RowsP P (ensureHooks T x p idx node q) := by
  unfold ensureHooks
  simp only
  have h1 : RowsP P (if p = "" ∧ q.kind = .typical ∧ q.name ≠ "consul" then
        gwCheck (gwCheckWildcards T x idx q.name (some (decide (q.kind = .connectProxy ∨ q.native = true))) .service) idx q.name .service
      else T) := by
    split
    · exact rp_gwCheck (rp_gwCheckWildcards h x idx _ _ _) idx _ _
    · exact h
  generalize (if p = "" ∧ q.kind = .typical ∧ q.name ≠ "consul" then
        gwCheck (gwCheckWildcards T x idx q.name (some (decide (q.kind = .connectProxy ∨ q.native = true))) .service) idx q.name .service
      else T) = T1 at h1
  split
  · exact rp_gwCheckWildcards (T := ⟨T1.gw, topoEnsure T1.topo idx node q (existingRow x p node q.id)⟩) (fun m hm => h1 m hm) x idx _ _ _
  · exact h1

theorem rp_deleteHooks {T : GTabs} (h : RowsP P T) (x' : XState) (p : String) (idx : Nat) (v : Svc) (e : SvcX) :
    RowsP P (deleteHooks T x' p idx v e) := by
  unfold deleteHooks
  simp only
  have a : RowsP P (if p = "" ∧ (e.kind = .connectProxy ∨ e.native = true) then
      (if hasConnectInstance x'.loc (if e.kind = .connectProxy then e.dest else v.name) = true then
        (GTabs.mk T.gw (topoCleanup T.topo p v e))
       else gwCleanup (GTabs.mk T.gw (topoCleanup T.topo p v e)) x' idx (if e.kind = .connectProxy then e.dest else v.name) false)
     else (GTabs.mk T.gw (topoCleanup T.topo p v e))) := by
    have h0 : RowsP P (GTabs.mk T.gw (topoCleanup T.topo p v e)) := h
    repeat' split
    all_goals first | exact h0 | exact rp_gwCleanup h0 x' idx _ false
  split
  · exact rp_gwCleanup a x' idx v.name false
  · exact a

end

/-- the row's gateway is configured in `cfg` -/
def Configured (cfg : List CfgRow) (k : Kind) (gateway : String) : Prop :=
  ∃ c ∈ cfg, (c.kind = "ingress-gateway" ∨ c.kind = "terminating-gateway") ∧ c.kind = cfgKindOf k ∧ lc c.name = lc gateway

theorem cfg_configDelete_some {s : XState} {kind name : String} {c : CfgRow} (h : cfgFind s kind name = some c) :
    (configDelete s kind name).cfg = terase CfgRow.pk (pk2 kind name) s.cfg := by
  unfold configDelete
  rw [h]
  simp only
  have e1 : (if c.kind = "service-defaults" ∧ c.dest = true
      then { s with kindNames := ksnCleanup s.kindNames .destination name } else s).cfg = s.cfg := by split <;> rfl
  split
  · rw [cfg_freeVip]; simp only; rw [e1]
  · simp only; rw [e1]

/-- the invariant: every link belongs to a configured gateway -/
def GCf (g : GState) : Prop := RowsP (Configured g.x.cfg) g.t

section
variable {Gn : List String}

theorem gcf_closed (hGn : ∀ n ∈ Gn, NF n) (hnil : "" ∉ Gn) :
    GClosed (WG Gn) (WcG Gn) (fun g => (GI Gn g ∧ GIC g) ∧ GCf g) where
  aux := by
    intro g x' hv h
    refine ⟨(gic_closed hGn hnil).aux g x' hv h.1, ?_⟩
    have : x'.cfg = g.x.cfg := by
      simp only [auxView, Prod.mk.injEq] at hv
      exact hv.2.2.2.2.1
    show RowsP (Configured x'.cfg) g.t
    rw [this]; exact h.2
  setSt := by
    intro g p st' hs h
    refine ⟨(gic_closed hGn hnil).setSt g p st' hs h.1, ?_⟩
    show RowsP (Configured (g.x.setCat p _).cfg) g.t
    rw [setCat_cfg]; exact h.2
  ensureService := by
    intro g g' p node idx q hw he h
    refine ⟨(gic_closed hGn hnil).ensureService hw he h.1, ?_⟩
    unfold ensureServiceG at he
    cases hx : ensureServiceX g.x p idx node q with
    | error e => rw [hx] at he; simp at he
    | ok x' =>
      rw [hx] at he; simp only at he; injection he with he; subst he
      have spec := ensureServiceX_spec hx (h.1.1.dinv.side.srt p)
      show RowsP (Configured x'.cfg) (ensureHooks g.t g.x p idx node q)
      rw [spec.cfg]
      exact rp_ensureHooks h.2 g.x p idx node q
  deleteService := by
    intro g g' p node id idx he h
    refine ⟨(gic_closed hGn hnil).deleteService he h.1, ?_⟩
    unfold deleteServiceG at he
    cases hx : deleteServiceX g.x p idx node id with
    | error e => rw [hx] at he; simp at he
    | ok x' =>
      rw [hx] at he
      simp only at he
      have hcfg : x'.cfg = g.x.cfg := by
        rcases deleteServiceX_spec hx with rfl | ⟨v, e, st', _, _, _, rfl⟩
        · rfl
        · rw [(afterServiceDelete_spec _ p v e).cfg, setCat_cfg]
      split at he
      · injection he with he; subst he
        show RowsP (Configured x'.cfg) (deleteHooks g.t x' p idx _ _)
        rw [hcfg]; exact rp_deleteHooks h.2 x' p idx _ _
      · injection he with he; subst he
        show RowsP (Configured x'.cfg) g.t
        rw [hcfg]; exact h.2
  configUpsert := by
    intro g g' idx kind name tok dest hw hc h
    refine ⟨(gic_closed hGn hnil).configUpsert hw hc h.1, ?_⟩
    unfold configUpsertG at hc
    cases hx : configUpsert g.x idx kind name dest tok with
    | error e => rw [hx] at hc; simp at hc
    | ok x' =>
      rw [hx] at hc; simp only at hc; injection hc with hc; subst hc
      obtain ⟨create, hcfg⟩ := cfg_configUpsert hx
      have hok := h.1.1.dinv.side.cfg
      -- the old rows stay configured: their entry is kept, or replaced by one of the same kind and name
      have keep : ∀ k gw, Configured g.x.cfg k gw → Configured x'.cfg k gw := by
        rintro k gw ⟨c, hcm, hgk, hck, hcn⟩
        rw [hcfg]
        rcases mem_tupsert_of_mem (lt := strLt) (r := (⟨kind, name, dest, tok, create, idx⟩ : CfgRow)) hcm with h1 | h1
        · exact ⟨c, h1, hgk, hck, hcn⟩
        · obtain ⟨e1, e2⟩ := pk2_inj (hok.kinds c hcm).2 hw.1.2 h1
          have hkk : kind = c.kind := by rw [← (hok.kinds c hcm).1, e1, hw.1.1]
          refine ⟨_, self_mem_tupsert _ _, ?_, ?_, ?_⟩
          · show kind = "ingress-gateway" ∨ kind = "terminating-gateway"
            rw [hkk]; exact hgk
          · show kind = cfgKindOf k
            rw [hkk]; exact hck
          · show lc name = lc gw
            rw [← e2]; exact hcn
      show RowsP (Configured x'.cfg) (configSetHooks g.t g.x idx kind name dest tok)
      have h0 : RowsP (Configured x'.cfg) g.t := fun m hm => keep _ _ (h.2 m hm)
      unfold configSetHooks
      simp only
      have a : RowsP (Configured x'.cfg) (gwConfigSet g.t g.x idx kind name tok) := by
        unfold gwConfigSet
        split
        · exact h0
        · next hk =>
          extract_lets noChange T0
          split
          · exact h0
          · have hT0 : RowsP (Configured x'.cfg) T0 := fun m hm => h0 m (List.mem_filter.mp hm).1
            refine rp_foldl _ _ ?_ T0 hT0
            intro T' m hmm hT'
            have hm : Configured x'.cfg m.kind m.gateway := by
              rw [hcfg]
              have hgk : kind = "ingress-gateway" ∨ kind = "terminating-gateway" := by
                by_cases h1 : kind = "ingress-gateway"
                · exact Or.inl h1
                · exact Or.inr (Classical.byContradiction fun h2 => hk ⟨h1, h2⟩)
              have hmk : kind = cfgKindOf m.kind ∧ name = m.gateway := by
                unfold cfgGwRows at hmm
                repeat' split at hmm
                all_goals (try simp at hmm)
                · next hki =>
                  obtain ⟨l, _, hl⟩ := hmm
                  split at hl
                  · simp at hl
                    obtain ⟨n, _, rfl⟩ := hl
                    exact ⟨hki, rfl⟩
                  · simp at hl
                · next hkt =>
                  obtain ⟨n, _, rfl⟩ := hmm
                  exact ⟨hkt, rfl⟩
              exact ⟨_, self_mem_tupsert _ _, hgk, hmk.1, by show lc name = lc m.gateway; rw [hmk.2]⟩
            split
            · exact rp_gwNamespace hT' g.x idx m hm
            · exact rp_gwUpdate hT' idx m hm
      split
      · exact rp_gwCheck (rp_gwCheckWildcards a g.x idx _ _ _) idx _ _
      · exact a
  configDelete := by
    intro g idx kind name hw h
    refine ⟨(gic_closed hGn hnil).configDelete g idx kind name hw h.1, ?_⟩
    have hok := h.1.1.dinv.side.cfg
    show RowsP (Configured (configDelete g.x kind name).cfg) (configDeleteHooks g.t g.x idx kind name)
    unfold configDeleteHooks
    cases hf : cfgFind g.x kind name with
    | none =>
      have : configDelete g.x kind name = g.x := by unfold configDelete; rw [hf]
      rw [this]; exact h.2
    | some c =>
      simp only
      have hcfg := cfg_configDelete_some hf
      -- rows of other gateways keep their entry
      have keep : ∀ m ∈ g.t.gw, (kind = "terminating-gateway" ∨ kind = "ingress-gateway" → lc m.gateway ≠ lc name) →
          Configured (configDelete g.x kind name).cfg m.kind m.gateway := by
        intro m hm hne
        obtain ⟨c0, hc0, hg0, hk0, hn0⟩ := h.2 m hm
        rw [hcfg]
        refine ⟨c0, mem_terase.mpr ⟨hc0, ?_⟩, hg0, hk0, hn0⟩
        intro hpk
        obtain ⟨e1, e2⟩ := pk2_inj (hok.kinds c0 hc0).2 hw.1.2 hpk
        have hkk : kind = c0.kind := by rw [← (hok.kinds c0 hc0).1, e1, hw.1.1]
        have hgk : kind = "terminating-gateway" ∨ kind = "ingress-gateway" := by
          rw [hkk]; exact hg0.symm
        exact hne hgk (hn0.symm.trans e2)
      have h1 : RowsP (Configured (configDelete g.x kind name).cfg)
          (if kind = "terminating-gateway" ∨ kind = "ingress-gateway" then
            (GTabs.mk (g.t.gw.filter fun y => lc y.gateway != lc name) g.t.topo) else g.t) := by
        split
        · next hk =>
          intro m hm
          obtain ⟨m1, m2⟩ := List.mem_filter.mp hm
          exact keep m m1 (fun _ => by simpa using m2)
        · next hk => exact fun m hm => keep m hm (fun hh => absurd hh hk)
      generalize (if kind = "terminating-gateway" ∨ kind = "ingress-gateway" then
            (GTabs.mk (g.t.gw.filter fun y => lc y.gateway != lc name) g.t.topo) else g.t) = T1 at h1
      have h2 : RowsP (Configured (configDelete g.x kind name).cfg)
          (if c.kind = "service-defaults" ∧ c.dest = true then
            gwCheck (gwCleanup (gwCheckWildcards T1 g.x idx c.name none
              (if gatewayServiceKind g.x name = GsKind.destination then GsKind.unknown else gatewayServiceKind g.x name)) g.x idx c.name true) idx c.name
              (if gatewayServiceKind g.x name = GsKind.destination then GsKind.unknown else gatewayServiceKind g.x name)
           else T1) := by
        split
        · exact rp_gwCheck (rp_gwCleanup (rp_gwCheckWildcards h1 g.x idx _ _ _) g.x idx _ true) idx _ _
        · exact h1
      split
      · exact fun m hm => h2 m hm
      · exact h2
  typical := (gi_closed hGn hnil).typical

theorem gcf_replayG (hGn : ∀ n ∈ Gn, NF n) (hnil : "" ∉ Gn) (log : XLog) (hw : XLog.gOk (WG Gn) (WcG Gn) log) :
    GCf (replayG GState.empty log) :=
  (gc_replayG (gcf_closed hGn hnil) log _ hw
    ⟨⟨GI.empty, by intro m hm; simp [GState.empty] at hm⟩, by intro m hm; simp [GState.empty] at hm⟩).2

end

end CV.Store
