/-
C02 round 4, part C: the session writes keep `W` — in particular `sessChecks = deriveSC [] sessions`.
-/
import CV.Proofs.StoreSnapReachB
set_option linter.unusedSectionVars false
set_option linter.unusedSimpArgs false
set_option linter.unusedVariables false
namespace CV.Store
open CV

/-- session_checks is what `Restore.Session` rebuilds from the sessions table -/
def LSc : List SessCheck → List Sess → Prop := fun t l => t = deriveSC [] l
/-- no claim (between the writes of `sessionDeleteWithSession`) -/
def LTrue : List SessCheck → List Sess → Prop := fun _ _ => True

variable {N : Names} {C : List String} {L : List SessCheck → List Sess → Prop}

theorem W.weaken {s : State} (h : W N C L s) : W N C LTrue s :=
  ⟨h.kv, ⟨h.sess.sessS, h.sess.sessNF, h.sess.sessIn, trivial⟩, h.cat, h.pqS, h.idx, h.cov⟩

theorem W.strengthen {s : State} (h : W N C LTrue s) (hl : L s.sessChecks s.sessions) : W N C L s :=
  ⟨h.kv, ⟨h.sess.sessS, h.sess.sessNF, h.sess.sessIn, hl⟩, h.cat, h.pqS, h.idx, h.cov⟩

theorem W.setLoc {s : State} (h : W N C L s) (l : Local) : W N C L { s with loc := l } :=
  ⟨h.kv.congr rfl rfl, h.sess.congr rfl rfl, h.cat.congr rfl rfl rfl, h.pqS, h.idx,
   h.cov.grow (fun j hj => hj) (fun n hn => Or.inl hn) (fun n hn => Or.inl hn) (fun n hn => Or.inl ⟨n, hn⟩)
    (fun n hn => Or.inl ⟨n, hn⟩) (fun n hn => Or.inl ⟨n, hn⟩) (fun n hn => Or.inl ⟨n, hn⟩) (fun n hn => Or.inl ⟨n, hn⟩)⟩

/-! ### deleting a session -/

theorem W.removeRow {s : State} (h : W N C LTrue s) (id : String) (i : Nat) :
    W N C LTrue { s with sessions := terase Sess.pk (lc id) s.sessions, index := idxSet s.index "sessions" i } := by
  refine ⟨h.kv.congr rfl rfl, ⟨tsorted_terase h.sess.sessS _, fun x hx => h.sess.sessNF x (mem_terase.mp hx).1,
    fun x hx => h.sess.sessIn x (mem_terase.mp hx).1, trivial⟩, h.cat.congr rfl rfl rfl, h.pqS, idxNF_set h.idx _ _, ?_⟩
  have hm : ∀ j, Rows s.index j → Rows (idxSet s.index "sessions" i) j := fun j hj => (rows_set _ _ _ _).mpr (Or.inr hj)
  exact h.cov.grow hm (fun n hn => Or.inl hn) (fun n hn => Or.inl hn) (fun n hn => Or.inl ⟨n, hn⟩)
    (fun n hn => Or.inl ⟨n, (mem_terase.mp hn).1⟩) (fun n hn => Or.inl ⟨n, hn⟩) (fun n hn => Or.inl ⟨n, hn⟩)
    (fun n hn => Or.inl ⟨n, hn⟩)

/-- tombstones for a list of entries, and the `tombstones` row -/
theorem W.tombFold {s : State} (h : W N C L s) (l : List KV) (hl : ∀ e ∈ l, e.key ≠ []) (i : Nat) :
    W N C L { s with tombs := l.foldl (fun t e => tupsert Tomb.pk keyLt ⟨e.key, i⟩ t) s.tombs,
                     index := idxSet s.index "tombstones" i } := by
  have key : ∀ (l : List KV) (t : List Tomb), (∀ e ∈ l, e.key ≠ []) → TSorted Tomb.pk keyLt t → (∀ x ∈ t, x.key ≠ []) →
      TSorted Tomb.pk keyLt (l.foldl (fun t e => tupsert Tomb.pk keyLt ⟨e.key, i⟩ t) t) ∧
      ∀ x ∈ l.foldl (fun t e => tupsert Tomb.pk keyLt ⟨e.key, i⟩ t) t, x.key ≠ [] := by
    intro l
    induction l with
    | nil => intro t _ h1 h2; exact ⟨h1, h2⟩
    | cons e es ih =>
      intro t hl h1 h2
      refine ih _ (fun x hx => hl x (List.mem_cons_of_mem _ hx)) (tsorted_tupsert keyLt_ord _ _ h1) ?_
      intro x hx
      rcases mem_tupsert hx with rfl | h3
      · exact hl e List.mem_cons_self
      · exact h2 x h3
  obtain ⟨k1, k2⟩ := key l s.tombs hl h.kv.tombS h.kv.tombKey
  refine ⟨⟨h.kv.kvKey, k1, k2⟩, h.sess.congr rfl rfl, h.cat.congr rfl rfl rfl, h.pqS, idxNF_set h.idx _ _, ?_⟩
  have hm : ∀ j, Rows s.index j → Rows (idxSet s.index "tombstones" i) j := fun j hj => (rows_set _ _ _ _).mpr (Or.inr hj)
  exact h.cov.grow hm (fun n hn => Or.inl hn) (fun n hn => Or.inl hn) (fun n hn => Or.inl ⟨n, hn⟩)
    (fun n hn => Or.inl ⟨n, hn⟩) (fun n hn => Or.inl ⟨n, hn⟩) (fun n hn => Or.inr ((rows_set _ _ _ _).mpr (Or.inl rfl)))
    (fun n hn => Or.inl ⟨n, hn⟩)

theorem W.invalidateKeys {s : State} (h : W N C L s) (i : Nat) (sess : Sess) : W N C L (invalidateKeys s i sess) := by
  unfold Store.invalidateKeys
  simp only
  split
  · exact h
  · split
    · refine (h.kvShrink _ ?_ i).setLoc _
      intro e he
      obtain ⟨e0, h0, rfl⟩ := List.mem_map.mp he
      split
      · exact h.kv.kvKey e0 h0
      · exact h.kv.kvKey e0 h0
    · have hheld : ∀ e ∈ s.kvs.filter (heldBy sess.id), e.key ≠ [] := fun e he => h.kv.kvKey e (List.mem_filter.mp he).1
      have h1 := h.tombFold (s.kvs.filter (heldBy sess.id)) hheld i
      refine (h1.kvShrink (s.kvs.filter (fun e => !heldBy sess.id e)) ?_ i).setLoc _
      intro e he
      exact h.kv.kvKey e (List.mem_filter.mp he).1

theorem invalidateKeys_sessChecks (s : State) (i : Nat) (sess : Sess) :
    (invalidateKeys s i sess).sessChecks = s.sessChecks := by
  unfold invalidateKeys
  simp only
  split
  · rfl
  · split <;> rfl

theorem W.dropRefs {s : State} (h : W N C LTrue s) (i : Nat) (id : String) : W N C LTrue (dropSessionRefs s i id) := by
  unfold dropSessionRefs
  simp only
  have h1 : W N C LTrue { s with sessChecks := s.sessChecks.filter (fun m => lc m.session != lc id) } :=
    ⟨h.kv.congr rfl rfl, ⟨h.sess.sessS, h.sess.sessNF, h.sess.sessIn, trivial⟩, h.cat.congr rfl rfl rfl, h.pqS, h.idx,
     h.cov.grow (fun j hj => hj) (fun n hn => Or.inl hn) (fun n hn => Or.inl hn) (fun n hn => Or.inl ⟨n, hn⟩)
      (fun n hn => Or.inl ⟨n, hn⟩) (fun n hn => Or.inl ⟨n, hn⟩) (fun n hn => Or.inl ⟨n, hn⟩) (fun n hn => Or.inl ⟨n, hn⟩)⟩
  split
  · exact h1.pqWrite _ (tsorted_filter h.pqS _) i
  · exact h1

theorem dropSessionRefs_sessChecks (s : State) (i : Nat) (id : String) :
    (dropSessionRefs s i id).sessChecks = s.sessChecks.filter (scKeep id) := by
  unfold dropSessionRefs
  simp only
  split <;> rfl

theorem W.sessionDrop {s : State} (h : W N C LSc s) (i : Nat) (id : String) (sess : Sess) :
    W N C LSc (Store.dropSessionRefs (Store.invalidateKeys { s with sessions := terase Sess.pk (lc id) s.sessions, index := idxSet s.index "sessions" i } i sess) i id) := by
  have h3 := ((h.weaken.removeRow id i).invalidateKeys i sess).dropRefs i id
  refine h3.strengthen ?_
  show _ = deriveSC [] _
  rw [dropSessionRefs_sessChecks, invalidateKeys_sessChecks, catView_sessions (catView_dropSessionRefs _ _ _),
    catView_sessions (catView_invalidateKeys _ _ _)]
  show s.sessChecks.filter (scKeep id) = deriveSC [] (terase Sess.pk (lc id) s.sessions)
  rw [h.sess.sc]
  exact deriveSC_terase id s.sessions h.sess.sessNF (tsorted_nil _ _) (fun _ hm => by cases hm)

/-! ### creating a session -/

/-- what `sessionCreate` knows about the ID it inserts: NUL-free, recorded in `C`, not live -/
def FreshId (C : List String) (s : State) (id : String) : Prop :=
  NF id ∧ lc id ∈ C ∧ ∀ y ∈ s.sessions, lc y.id ≠ lc id

theorem W.insertSession {s : State} (h : W N C LSc s) (x : Sess) (i : Nat) (hF : FreshId C s x.id) :
    W N C LSc (insertSession s x i) := by
  obtain ⟨f1, f2, f3⟩ := hF
  refine ⟨h.kv.congr rfl rfl, ⟨tsorted_tupsert strLt_ord _ _ h.sess.sessS, ?_, ?_, ?_⟩, h.cat.congr rfl rfl rfl, h.pqS,
    idxNF_set h.idx _ _, ?_⟩
  · intro y hy
    rcases mem_tupsert (show y ∈ tupsert Sess.pk strLt x s.sessions from hy) with rfl | h1
    · exact f1
    · exact h.sess.sessNF y h1
  · intro y hy
    rcases mem_tupsert (show y ∈ tupsert Sess.pk strLt x s.sessions from hy) with rfl | h1
    · exact f2
    · exact h.sess.sessIn y h1
  · show linkS x s.sessChecks = deriveSC [] (tupsert Sess.pk strLt x s.sessions)
    rw [h.sess.sc]
    exact (deriveSC_tupsert x f1 s.sessions (fun y hy => ⟨h.sess.sessNF y hy, f3 y hy⟩) (tsorted_nil _ _)).symm
  · have hm : ∀ j, Rows s.index j → Rows (idxSet s.index "sessions" i) j := fun j hj => (rows_set _ _ _ _).mpr (Or.inr hj)
    exact h.cov.grow hm (fun n hn => Or.inl hn) (fun n hn => Or.inl hn) (fun n hn => Or.inl ⟨n, hn⟩)
      (fun n hn => Or.inr ((rows_set _ _ _ _).mpr (Or.inl rfl))) (fun n hn => Or.inl ⟨n, hn⟩) (fun n hn => Or.inl ⟨n, hn⟩)
      (fun n hn => Or.inl ⟨n, hn⟩)

end CV.Store
