/-
Helper lemmas about the RPC trace of a sync (CV.AETok): the tokens the calls carry, what rides on
a service registration, and silence of a sync that has nothing to do.
-/
import CV.Proofs.AELocal
import CV.AETok
set_option linter.unusedVariables false
namespace CV.AE
open AMap

/-! ### effective token -/

theorem effTok_own (cfg : Cfg) (tok : String) (loc : Bool) (h : tok ≠ "") : effTok cfg tok loc = tok := by
  simp [effTok, h]

theorem effTok_cfgfile (cfg : Cfg) (loc : Bool) (hl : loc = true) (hc : cfg.cfgTok ≠ "") :
    effTok cfg "" loc = cfg.cfgTok := by
  simp [effTok, hl, hc]

theorem effTok_user (cfg : Cfg) (loc : Bool) (h : loc = false ∨ cfg.cfgTok = "") :
    effTok cfg "" loc = cfg.userTok := by
  rcases h with h | h <;> simp [effTok, h]

/-! ### the shape of one call -/

/-- what `svcCall` returns: a deregistration with the agent token for a record pending removal
    (placeholder or locally removed, whatever its in-sync flag), a registration with the record's
    effective token for a live out-of-sync record, nothing otherwise -/
theorem svcCall_spec (cfg : Cfg) (s : St) (id : Id) (call : Call) (h : svcCall cfg s id = some call) :
    (call.kind = "sdel" ∧ call.id = id ∧ call.tok = cfg.agentTok ∧ call.piggy = [] ∧
      ∃ e, s.l.svcs.get? id = some e ∧ e.deleted = true) ∨
    (call.kind = "sreg" ∧ call.id = id ∧ call.skip = s.l.nodeInSync ∧
      ∃ d tok loc, s.l.svcs.get? id = some (.ent d tok loc false false) ∧ call.tok = effTok cfg tok loc ∧
        call.piggy = (piggy cfg s.l id (effTok cfg tok loc)).map (·.1)) := by
  unfold svcCall at h
  cases he : s.l.svcs.get? id with
  | none => rw [he] at h; cases h
  | some e =>
    rw [he] at h
    cases e with
    | ghost b =>
      simp only at h
      split at h
      · cases h
      · cases h; exact Or.inl ⟨rfl, rfl, rfl, rfl, _, rfl, rfl⟩
    | ent d tok loc b del =>
      cases del with
      | true =>
        simp only at h
        split at h
        · cases h
        · cases h; exact Or.inl ⟨rfl, rfl, rfl, rfl, _, rfl, rfl⟩
      | false =>
        cases b with
        | true => simp at h
        | false =>
          simp only at h
          cases h
          exact Or.inr ⟨rfl, rfl, rfl, d, tok, loc, rfl, rfl, rfl⟩

theorem chkCall_spec (cfg : Cfg) (s : St) (k : Id) (call : Call) (h : chkCall cfg s k = some call) :
    (call.kind = "cdel" ∧ call.id = k ∧ call.tok = cfg.agentTok ∧
      ∃ e, s.l.chks.get? k = some e ∧ e.deleted = true) ∨
    (call.kind = "creg" ∧ call.id = k ∧ call.skip = s.l.nodeInSync ∧
      ∃ d tok loc, s.l.chks.get? k = some (.ent d tok loc false false) ∧ call.tok = effTok cfg tok loc) := by
  unfold chkCall at h
  cases he : s.l.chks.get? k with
  | none => rw [he] at h; cases h
  | some e =>
    rw [he] at h
    cases e with
    | ghost b =>
      simp only at h
      split at h
      · cases h
      · cases h; exact Or.inl ⟨rfl, rfl, rfl, _, rfl, rfl⟩
    | ent d tok loc b del =>
      cases del with
      | true =>
        simp only at h
        split at h
        · cases h
        · cases h; exact Or.inl ⟨rfl, rfl, rfl, _, rfl, rfl⟩
      | false =>
        cases b with
        | true => simp at h
        | false =>
          simp only at h
          cases h
          exact Or.inr ⟨rfl, rfl, rfl, d, tok, loc, rfl, rfl⟩

/-! ### every call of a trace -/

/-- `P` holds of every call any service step issues, in whatever state the loop has reached -/
theorem svcTrace_all (cfg : Cfg) (f : Faults) (P : Call → Prop)
    (hP : ∀ s id call, svcCall cfg s id = some call → P call) :
    ∀ (ids : List Id) (s : St), ∀ call ∈ svcTrace cfg f s ids, P call := by
  intro ids
  induction ids with
  | nil => intro s call h; simp [svcTrace] at h
  | cons id rest ih =>
    intro s call h
    simp only [svcTrace, List.mem_append] at h
    rcases h with h | h
    · cases hc : svcCall cfg s id with
      | none => rw [hc] at h; simp at h
      | some c0 => rw [hc] at h; simp at h; subst h; exact hP s id _ hc
    · exact ih _ call h

theorem chkTrace_all (cfg : Cfg) (f : Faults) (P : Call → Prop)
    (hP : ∀ s k call, chkCall cfg s k = some call → P call) :
    ∀ (ks : List Id) (s : St), ∀ call ∈ chkTrace cfg f s ks, P call := by
  intro ks
  induction ks with
  | nil => intro s call h; simp [chkTrace] at h
  | cons k rest ih =>
    intro s call h
    simp only [chkTrace, List.mem_append] at h
    rcases h with h | h
    · cases hc : chkCall cfg s k with
      | none => rw [hc] at h; simp at h
      | some c0 => rw [hc] at h; simp at h; subst h; exact hP s k _ hc
    · exact ih _ call h

theorem syncChangesTrace_all (cfg : Cfg) (ord : Order) (f : Faults) (l : Local) (c : Cat) (P : Call → Prop)
    (hn : P (nodeCall cfg))
    (hs : ∀ s id call, svcCall cfg s id = some call → P call)
    (hc : ∀ s k call, chkCall cfg s k = some call → P call) :
    ∀ call ∈ syncChangesTrace cfg ord f l c, P call := by
  have rest : ∀ s, ∀ call ∈ restTrace cfg ord f s, P call := by
    intro s call h
    simp only [restTrace, List.mem_append] at h
    rcases h with h | h
    · exact svcTrace_all cfg f P hs _ _ call h
    · exact chkTrace_all cfg f P hc _ _ call h
  intro call h
  unfold syncChangesTrace at h
  split at h
  · exact rest _ call h
  · simp only [List.mem_cons] at h
    rcases h with h | h
    · subst h; exact hn
    · split at h
      · exact rest _ call h
      · simp at h

/-! ### a sync with nothing to do -/

theorem svcStep_done (cfg : Cfg) (f : Faults) (s : St) (id : Id) (h : Done (s.l.svcs.get? id)) :
    svcStep cfg f s id = s ∧ svcCall cfg s id = none := by
  unfold svcStep svcCall
  cases he : s.l.svcs.get? id with
  | none => exact ⟨rfl, rfl⟩
  | some e =>
    obtain ⟨h1, h2⟩ := h e he
    cases e with
    | ghost b => simp [Ent.deleted] at h1
    | ent d tok loc b del =>
      simp only [Ent.deleted, Ent.inSync] at h1 h2
      subst h1; subst h2
      exact ⟨rfl, rfl⟩

theorem chkStep_done (cfg : Cfg) (f : Faults) (s : St) (k : Id) (h : Done (s.l.chks.get? k)) :
    chkStep cfg f s k = s ∧ chkCall cfg s k = none := by
  unfold chkStep chkCall
  cases he : s.l.chks.get? k with
  | none => exact ⟨rfl, rfl⟩
  | some e =>
    obtain ⟨h1, h2⟩ := h e he
    cases e with
    | ghost b => simp [Ent.deleted] at h1
    | ent d tok loc b del =>
      simp only [Ent.deleted, Ent.inSync] at h1 h2
      subst h1; subst h2
      exact ⟨rfl, rfl⟩

theorem svcLoop_done (cfg : Cfg) (f : Faults) (s : St) (h : ∀ id, Done (s.l.svcs.get? id)) :
    ∀ ids : List Id, ids.foldl (svcStep cfg f) s = s ∧ svcTrace cfg f s ids = [] := by
  intro ids
  induction ids with
  | nil => exact ⟨rfl, rfl⟩
  | cons id rest ih =>
    obtain ⟨a, b⟩ := svcStep_done cfg f s id (h id)
    simp only [List.foldl, svcTrace, a, b]
    exact ⟨ih.1, by simpa using ih.2⟩

theorem chkLoop_done (cfg : Cfg) (f : Faults) (s : St) (h : ∀ k, Done (s.l.chks.get? k)) :
    ∀ ks : List Id, ks.foldl (chkStep cfg f) s = s ∧ chkTrace cfg f s ks = [] := by
  intro ks
  induction ks with
  | nil => exact ⟨rfl, rfl⟩
  | cons k rest ih =>
    obtain ⟨a, b⟩ := chkStep_done cfg f s k (h k)
    simp only [List.foldl, chkTrace, a, b]
    exact ⟨ih.1, by simpa using ih.2⟩

end CV.AE
