/-
Helper lemmas for C15: compilation depends on the entry tables only through lookups, hence not on the
order in which entries with distinct names are listed.
-/
import CV.Chain
set_option linter.unusedVariables false
set_option linter.unusedSimpArgs false
namespace CV.Chain

/-- two resolver entries that answer every question the compiler asks alike (their `Subsets` and
    `Failover` Go maps may be listed in different orders) -/
structure REqv (r r' : Resolver) : Prop where
  ds    : r'.defaultSubset = r.defaultSubset
  subs  : ∀ k, alook k r'.subsets = alook k r.subsets
  subsE : r'.subsets.isEmpty = r.subsets.isEmpty
  rd    : r'.redirect = r.redirect
  fo    : ∀ k, alook k r'.failover = alook k r.failover
  foE   : r'.failover.isEmpty = r.failover.isEmpty
  ct    : r'.ct = r.ct
  rt    : r'.rt = r.rt
  lb    : r'.lb = r.lb

theorem REqv.refl (r : Resolver) : REqv r r := ⟨rfl, fun _ => rfl, rfl, rfl, fun _ => rfl, rfl, rfl, rfl, rfl⟩

/-- the two entry sets answer every lookup alike (resolvers up to `REqv`) -/
structure LookEq (es es' : Entries) : Prop where
  routers   : ∀ k, alook k es.routers = alook k es'.routers
  splitters : ∀ k, alook k es.splitters = alook k es'.splitters
  resolvers : ∀ k, REqv (getResolver es k) (getResolver es' k)
  services  : ∀ k, alook k es.services = alook k es'.services
  proxy     : es.proxy = es'.proxy

variable {es es' : Entries}

theorem recordServiceProtocol_congr (h : LookEq es es') (cur svc : String) :
    recordServiceProtocol es' cur svc = recordServiceProtocol es cur svc := by
  unfold recordServiceProtocol; rw [h.services, h.proxy]

theorem decorate_congr (h : LookEq es es') (cx : Ctx) (st : St) (t : Target) {r r' : Resolver} (hr : REqv r r') :
    decorate es' cx st t r' = decorate es cx st t r := by
  unfold decorate; rw [h.services, h.proxy, hr.ct, hr.subs]

theorem finishResolve_congr (h : LookEq es es') (cx : Ctx) (st : St) (t : Target) {r r' : Resolver} (hr : REqv r r') :
    finishResolve es' cx st t r' = finishResolve es cx st t r := by
  unfold finishResolve Resolver.subsetExists Resolver.isDefault
  rw [decorate_congr h cx st t hr, hr.subs, hr.rd, hr.subsE, hr.foE, hr.rt, hr.lb, hr.ds, hr.ct]

theorem redirectStep_congr (cx : Ctx) (st : St) (t : Target) {r r' : Resolver} (hr : REqv r r') :
    redirectStep cx st t r' = redirectStep cx st t r := by
  unfold redirectStep; rw [hr.rd]

theorem subsetStep_congr (cx : Ctx) (st : St) (t : Target) {r r' : Resolver} (hr : REqv r r') :
    subsetStep cx st t r' = subsetStep cx st t r := by
  unfold subsetStep; rw [hr.ds]

theorem failoverOpts_congr (t : Target) {r r' : Resolver} (hr : REqv r r') : failoverOpts r' t = failoverOpts r t := by
  unfold failoverOpts; rw [hr.fo, hr.fo]

/-- forget which resolver entry a fresh outcome carries -/
def LoopOut.erase : LoopOut → LoopOut
  | .memo i l => .memo i l
  | .fresh t _ => .fresh t {}

def eraseR (x : Except Err (St × LoopOut)) : Except Err (St × LoopOut) :=
  match x with
  | .error e => .error e
  | .ok (st, o) => .ok (st, o.erase)

/-- a fresh outcome carries the resolver of the final target's service -/
theorem resolveLoop_fresh_is (es : Entries) (cx : Ctx) (st0 : St) (t0 : Target) (st : St) (hist : List Target) (t : Target)
    (hst : LoadedIn (mkVals es cx st0 t0) st) (ht : InU (mkVals es cx st0 t0) t) (st' : St) (t' : Target) (r : Resolver)
    (h : resolveLoop es cx st0 t0 st hist t hst ht = .ok (st', .fresh t' r)) : r = getResolver es t'.svc := by
  fun_induction resolveLoop es cx st0 t0 st hist t hst ht generalizing st' with
  | case1 st hist t hst ht lb hm => cases h
  | case2 st hist t hst ht hm e he => cases h
  | case3 st hist t hst ht hm p hp hh => cases h
  | case4 st hist t hst ht hm p hp hh st2 t2 h1 hi ih => exact ih st' h
  | case5 st hist t hst ht hm p hp hh st2 h1 hi st3 t3 h2 hj ih => exact ih st' h
  | case6 st hist t hst ht hm p hp hh st2 h1 hi h2 =>
    simp only [Except.ok.injEq, Prod.mk.injEq, LoopOut.fresh.injEq] at h
    obtain ⟨_, rfl, rfl⟩ := h
    rfl

theorem resolveLoop_congr (h : LookEq es es') (cx : Ctx) (st0 : St) (t0 : Target) (st : St) (hist : List Target) (t : Target)
    (hst : LoadedIn (mkVals es cx st0 t0) st) (ht : InU (mkVals es cx st0 t0) t) :
    ∀ (st0' : St) (t0' : Target) (hst' : LoadedIn (mkVals es' cx st0' t0') st) (ht' : InU (mkVals es' cx st0' t0') t),
      eraseR (resolveLoop es' cx st0' t0' st hist t hst' ht') = eraseR (resolveLoop es cx st0 t0 st hist t hst ht) := by
  fun_induction resolveLoop es cx st0 t0 st hist t hst ht with
  | case1 st hist t hst ht lb hm =>
    intro st0' t0' hst' ht'
    rw [resolveLoop]; simp only [hm]
  | case2 st hist t hst ht hm e he =>
    intro st0' t0' hst' ht'
    rw [resolveLoop]
    simp only [dite_eq_ite] at he
    simp only [hm, recordServiceProtocol_congr h, he]
  | case3 st hist t hst ht hm p hp hh =>
    intro st0' t0' hst' ht'
    rw [resolveLoop]
    simp only [dite_eq_ite] at hp
    simp only [hm, recordServiceProtocol_congr h, hp, hh, dite_true]
  | case4 st hist t hst ht hm p hp hh st2 t2 h1 hi ih =>
    intro st0' t0' hst' ht'
    rw [resolveLoop]
    simp only [dite_eq_ite] at hp
    simp only [hm, recordServiceProtocol_congr h, hp]
    rw [dif_neg hh]
    split
    · rename_i st2' t2' h1'
      rw [redirectStep_congr cx _ t (h.resolvers t.svc), h1] at h1'
      simp only [Prod.mk.injEq, Option.some.injEq] at h1'
      obtain ⟨rfl, rfl⟩ := h1'
      exact ih _ _ _ _
    · rename_i st2' h1'
      rw [redirectStep_congr cx _ t (h.resolvers t.svc), h1] at h1'
      simp at h1'
  | case5 st hist t hst ht hm p hp hh st2 h1 hi st3 t3 h2 hj ih =>
    intro st0' t0' hst' ht'
    rw [resolveLoop]
    simp only [dite_eq_ite] at hp
    simp only [hm, recordServiceProtocol_congr h, hp]
    rw [dif_neg hh]
    split
    · rename_i st2' t2' h1'
      rw [redirectStep_congr cx _ t (h.resolvers t.svc), h1] at h1'
      simp at h1'
    · rename_i st2' h1'
      rw [redirectStep_congr cx _ t (h.resolvers t.svc), h1] at h1'
      simp only [Prod.mk.injEq, and_true] at h1'
      subst h1'
      split
      · rename_i st3' t3' h2'
        rw [subsetStep_congr cx _ t (h.resolvers t.svc), h2] at h2'
        simp only [Option.some.injEq, Prod.mk.injEq] at h2'
        obtain ⟨rfl, rfl⟩ := h2'
        exact ih _ _ _ _
      · rename_i h2'
        rw [subsetStep_congr cx _ t (h.resolvers t.svc), h2] at h2'; cases h2'
  | case6 st hist t hst ht hm p hp hh st2 h1 hi h2 =>
    intro st0' t0' hst' ht'
    rw [resolveLoop]
    simp only [dite_eq_ite] at hp
    simp only [hm, recordServiceProtocol_congr h, hp]
    rw [dif_neg hh]
    split
    · rename_i st2' t2' h1'
      rw [redirectStep_congr cx _ t (h.resolvers t.svc), h1] at h1'
      simp at h1'
    · rename_i st2' h1'
      rw [redirectStep_congr cx _ t (h.resolvers t.svc), h1] at h1'
      simp only [Prod.mk.injEq, and_true] at h1'
      subst h1'
      split
      · rename_i st3' t3' h2'
        rw [subsetStep_congr cx _ t (h.resolvers t.svc), h2] at h2'; cases h2'
      · rfl

/-- forget the resolver entry in `resolveCore`'s answer -/
def eraseC (x : Except Err (St × RNode × Option (Target × Resolver × Node))) :
    Except Err (St × RNode × Option (Target × Node)) :=
  match x with
  | .error e => .error e
  | .ok (st, rn, none) => .ok (st, rn, none)
  | .ok (st, rn, some (t, _, n)) => .ok (st, rn, some (t, n))

theorem resolveCore_congr (h : LookEq es es') (cx : Ctx) (st : St) (t : Target) :
    eraseC (resolveCore es' cx st t) = eraseC (resolveCore es cx st t) ∧
    (∀ st1 rn t1 r1 n1 st2 rn2 t2 r2 n2, resolveCore es cx st t = .ok (st1, rn, some (t1, r1, n1)) →
       resolveCore es' cx st t = .ok (st2, rn2, some (t2, r2, n2)) → REqv r1 r2) := by
  have E := resolveLoop_congr h cx st t st [] t (vals_loaded es cx st t) (vals_t es cx st t) st t
    (vals_loaded es' cx st t) (vals_t es' cx st t)
  unfold resolveCore
  cases hL : resolveLoop es cx st t st [] t (vals_loaded es cx st t) (vals_t es cx st t) with
  | error e =>
    cases hL' : resolveLoop es' cx st t st [] t (vals_loaded es' cx st t) (vals_t es' cx st t) with
    | error e' =>
      rw [hL, hL'] at E; simp only [eraseR, Except.error.injEq] at E; subst E
      exact ⟨rfl, fun _ _ _ _ _ _ _ _ _ _ h1 => by cases h1⟩
    | ok v => obtain ⟨s, o⟩ := v; rw [hL, hL'] at E; simp [eraseR] at E
  | ok v =>
    obtain ⟨s1, o1⟩ := v
    cases hL' : resolveLoop es' cx st t st [] t (vals_loaded es' cx st t) (vals_t es' cx st t) with
    | error e' => rw [hL, hL'] at E; simp [eraseR] at E
    | ok v' =>
      obtain ⟨s2, o2⟩ := v'
      rw [hL, hL'] at E
      simp only [eraseR, Except.ok.injEq, Prod.mk.injEq] at E
      obtain ⟨rfl, ho⟩ := E
      cases o1 with
      | memo i l =>
        cases o2 with
        | memo i2 l2 =>
          simp only [LoopOut.erase, LoopOut.memo.injEq] at ho
          obtain ⟨rfl, rfl⟩ := ho
          exact ⟨rfl, fun _ _ _ _ _ _ _ _ _ _ h1 => by cases h1⟩
        | fresh t2 r2 => simp [LoopOut.erase] at ho
      | fresh t1 r1 =>
        cases o2 with
        | memo i2 l2 => simp [LoopOut.erase] at ho
        | fresh t2 r2 =>
          simp only [LoopOut.erase, LoopOut.fresh.injEq, and_true] at ho
          subst ho
          have e1 := resolveLoop_fresh_is es cx st t st [] t _ _ _ _ _ hL
          have e2 := resolveLoop_fresh_is es' cx st t st [] t _ _ _ _ _ hL'
          have hr : REqv r1 r2 := by rw [e1, e2]; exact h.resolvers _
          simp only
          rw [finishResolve_congr h cx s2 t2 hr]
          cases hf : finishResolve es cx s2 t2 r1 with
          | error e => exact ⟨rfl, fun _ _ _ _ _ _ _ _ _ _ h1 => by cases h1⟩
          | ok w =>
            obtain ⟨s3, n3⟩ := w
            simp only [eraseC, hr.lb]
            refine ⟨trivial, ?_⟩
            intro _ _ _ _ _ _ _ _ _ _ h1 h2
            simp only [Except.ok.injEq, Prod.mk.injEq, Option.some.injEq] at h1 h2
            obtain ⟨_, _, _, rfl, _⟩ := h1
            obtain ⟨_, _, _, rfl, _⟩ := h2
            exact hr

theorem failoverResolve_congr (h : LookEq es es') (cx : Ctx) (st : St) (fts : List Target) :
    failoverResolve es' cx st fts = failoverResolve es cx st fts := by
  induction fts generalizing st with
  | nil => simp [failoverResolve]
  | cons ft rest ih =>
    rw [failoverResolve, failoverResolve]
    have E := (resolveCore_congr h cx st ft).1
    cases h1 : resolveCore es cx st ft with
    | error e =>
      cases h2 : resolveCore es' cx st ft with
      | error e' => rw [h1, h2] at E; simp only [eraseC, Except.error.injEq] at E; rw [E]
      | ok v => obtain ⟨a, b, c⟩ := v; rw [h1, h2] at E; cases c <;> simp [eraseC] at E
    | ok v =>
      obtain ⟨a1, b1, c1⟩ := v
      cases h2 : resolveCore es' cx st ft with
      | error e' => rw [h1, h2] at E; cases c1 <;> simp [eraseC] at E
      | ok v' =>
        obtain ⟨a2, b2, c2⟩ := v'
        rw [h1, h2] at E
        have : a2 = a1 ∧ b2 = b1 := by
          cases c1 <;> cases c2 <;> simp [eraseC] at E <;> first | exact ⟨E.1, E.2.1⟩ | exact ⟨E.1, E.2⟩
        obtain ⟨rfl, rfl⟩ := this
        simp only [ih]

theorem resolverNode_congr (h : LookEq es es') (cx : Ctx) (st : St) (t : Target) :
    resolverNode es' cx st t = resolverNode es cx st t := by
  unfold resolverNode
  obtain ⟨E, hR⟩ := resolveCore_congr h cx st t
  cases h1 : resolveCore es cx st t with
  | error e =>
    cases h2 : resolveCore es' cx st t with
    | error e' => rw [h1, h2] at E; simp only [eraseC, Except.error.injEq] at E; rw [E]
    | ok v => obtain ⟨a, b, c⟩ := v; rw [h1, h2] at E; cases c <;> simp [eraseC] at E
  | ok v =>
    obtain ⟨a1, b1, c1⟩ := v
    cases h2 : resolveCore es' cx st t with
    | error e' => rw [h1, h2] at E; cases c1 <;> simp [eraseC] at E
    | ok v' =>
      obtain ⟨a2, b2, c2⟩ := v'
      rw [h1, h2] at E
      cases c1 with
      | none =>
        cases c2 with
        | none => simp only [eraseC, Except.ok.injEq, Prod.mk.injEq, and_true] at E; obtain ⟨rfl, rfl⟩ := E; rfl
        | some x => obtain ⟨x1, x2, x3⟩ := x; simp [eraseC] at E
      | some x =>
        obtain ⟨t1, r1, n1⟩ := x
        cases c2 with
        | none => simp [eraseC] at E
        | some y =>
          obtain ⟨t2, r2, n2⟩ := y
          have hr := hR _ _ _ _ _ _ _ _ _ _ h1 h2
          simp only [eraseC, Except.ok.injEq, Prod.mk.injEq, Option.some.injEq] at E
          obtain ⟨rfl, rfl, rfl, rfl⟩ := E
          simp only [hr.lb, failoverOpts_congr _ hr, failoverResolve_congr h]

/-- `splitterNode` unfolded once, with a plain (non-dependent) match on the lookup -/
theorem splitterNode_eq (es : Entries) (cx : Ctx) (marks : List String) (st : St) (name : String) :
    splitterNode es cx marks st name =
      if name ∈ marks then .ok ([], st, some (skey name))
      else
        match alook name es.splitters with
        | none => .ok ([], st, none)
        | some splits =>
          if disableAdv cx then .ok ([], { st with custProto := true }, none)
          else
            match splitLoop es cx (name :: marks) st name splits none with
            | .error e => .error e
            | .ok (dm, st1, cs, lb) =>
              .ok (dm ++ [name],
                   { st1 with nodes := st1.nodes ++ [(skey name, .splitter cs lb)], adv := true },
                   some (skey name)) := by
  rw [splitterNode]
  split
  · rename_i hm; simp [hm]
  · rename_i hm
    split
    · rename_i hs; simp [hs]
    · rename_i splits hs; simp only [hs]; split <;> rfl

theorem splitter_congr (h : LookEq es es') (cx : Ctx) :
    (∀ (marks : List String) (st : St) (name : String),
        splitterNode es' cx marks st name = splitterNode es cx marks st name) ∧
    (∀ (marks : List String) (st : St) (name : String) (splits : List Split) (lb : Option String),
        splitLoop es' cx marks st name splits lb = splitLoop es cx marks st name splits lb) := by
  apply splitterNode.mutual_induct es cx
    (motive1 := fun marks st name => splitterNode es' cx marks st name = splitterNode es cx marks st name)
    (motive2 := fun marks st name splits lb =>
        splitLoop es' cx marks st name splits lb = splitLoop es cx marks st name splits lb)
  · intro marks st name hm
    rw [splitterNode_eq, splitterNode_eq]; simp only [hm, if_true]
  · intro marks st name hm hs
    rw [splitterNode_eq, splitterNode_eq]; simp only [hm, if_false, ← h.splitters, hs]
  · intro marks st name hm splits hs hd
    rw [splitterNode_eq, splitterNode_eq]; simp only [hm, if_false, ← h.splitters, hs, hd, if_true]
  · intro marks st name hm splits hs hd e he ih
    rw [splitterNode_eq, splitterNode_eq]; simp only [hm, if_false, ← h.splitters, hs, hd, ih]
  · intro marks st name hm splits hs hd dm st1 cs lb he ih
    rw [splitterNode_eq, splitterNode_eq]; simp only [hm, if_false, ← h.splitters, hs, hd, ih]
  · intro marks st name lb
    rw [splitLoop, splitLoop]
  all_goals
    intro marks st name lb s rest svc
  · intro e hc ih1
    rw [splitLoop.eq_def, splitLoop.eq_def es]
    simp only [dite_eq_ite, svc] at hc
    simp only [svc] at ih1
    simp only [ih1, hc]
  · intro dm1 st1 key hc e hr ih1 ih2
    rw [splitLoop.eq_def, splitLoop.eq_def es]
    simp only [dite_eq_ite, svc] at hc
    simp only [svc] at ih1
    simp only [ih1, hc, ih2]
  · intro dm1 st1 key hc dm2 st2 cs2 lb2 hr ih1 ih2
    rw [splitLoop.eq_def, splitLoop.eq_def es]
    simp only [dite_eq_ite, svc] at hc
    simp only [svc] at ih1
    simp only [ih1, hc, ih2]
  · intro dm1 st1 hc nt e hr ih1
    rw [splitLoop.eq_def, splitLoop.eq_def es]
    simp only [dite_eq_ite, svc] at hc
    simp only [svc] at ih1
    simp only [nt, svc] at hr
    simp only [ih1, hc, resolverNode_congr h, hr]
  · intro dm1 st1 hc nt st2 rn hr lb1 e hr2 ih1 ih2
    rw [splitLoop.eq_def, splitLoop.eq_def es]
    simp only [dite_eq_ite, svc] at hc
    simp only [svc] at ih1
    simp only [nt, svc] at hr
    simp only [lb1, dite_eq_ite] at ih2
    simp only [ih1, hc, resolverNode_congr h, hr, ih2]
  · intro dm1 st1 hc nt st2 rn hr lb1 dm2 st3 cs2 lb2 hr2 ih1 ih2
    rw [splitLoop.eq_def, splitLoop.eq_def es]
    simp only [dite_eq_ite, svc] at hc
    simp only [svc] at ih1
    simp only [nt, svc] at hr
    simp only [lb1, dite_eq_ite] at ih2
    simp only [ih1, hc, resolverNode_congr h, hr, ih2]

theorem splitterOrResolver_congr (h : LookEq es es') (cx : Ctx) (marks : List String) (st : St) (t : Target) :
    splitterOrResolver es' cx marks st t = splitterOrResolver es cx marks st t := by
  unfold splitterOrResolver
  rw [(splitter_congr h cx).1]
  simp only [resolverNode_congr h]

theorem routeLoop_congr (h : LookEq es es') (cx : Ctx) (marks : List String) (st : St) (routes : List Route) :
    routeLoop es' cx marks st routes = routeLoop es cx marks st routes := by
  induction routes generalizing marks st with
  | nil => simp [routeLoop]
  | cons rt rest ih =>
    rw [routeLoop, routeLoop]
    simp only [splitterOrResolver_congr h, resolverNode_congr h, ih]

theorem assemble_congr (h : LookEq es es') (cx : Ctx) : assemble es' cx = assemble es cx := by
  unfold assemble
  rw [← h.routers]
  simp only [splitterOrResolver_congr h, routeLoop_congr h, recordServiceProtocol_congr h]

theorem compileWith_congr (h : LookEq es es') (order : List (String × Node) → List String) (cx : Ctx) :
    compileWith order es' cx = compileWith order es cx := by
  unfold compileWith
  rw [assemble_congr h]

/-! ### permutations of tables with distinct names answer lookups alike -/

theorem alook_perm {α : Type} {l l' : List (String × α)} (hp : l.Perm l') (hn : (akeys l).Nodup) (k : String) :
    alook k l = alook k l' := by
  induction hp with
  | nil => rfl
  | cons x _ ih =>
    obtain ⟨a, v⟩ := x
    simp only [akeys, List.map_cons, List.nodup_cons] at hn
    simp only [alook]
    split
    · rfl
    · exact ih hn.2
  | swap x y l =>
    obtain ⟨a, v⟩ := x
    obtain ⟨b, w⟩ := y
    simp only [akeys, List.map_cons, List.nodup_cons, List.mem_cons, not_or] at hn
    simp only [alook]
    by_cases ha : a = k
    · by_cases hb : b = k
      · exact absurd (hb.trans ha.symm) hn.1.1
      · simp [ha, hb]
    · simp [ha]
  | trans h1 h2 ih1 ih2 =>
    have hn' : (akeys _).Nodup := (List.Perm.nodup_iff (List.Perm.map _ h1)).mp hn
    exact (ih1 hn).trans (ih2 hn')

/-! ### the Go maps inside a resolver entry -/

/-- `r'` is `r` with its `Subsets` and `Failover` maps listed in another order -/
structure SamePerm (r r' : Resolver) : Prop where
  ds   : r'.defaultSubset = r.defaultSubset
  subs : r.subsets.Perm r'.subsets
  subN : (akeys r.subsets).Nodup
  rd   : r'.redirect = r.redirect
  fo   : r.failover.Perm r'.failover
  foN  : (akeys r.failover).Nodup
  ct   : r'.ct = r.ct
  rt   : r'.rt = r.rt
  lb   : r'.lb = r.lb

theorem isEmpty_perm {α : Type} {l l' : List α} (h : l.Perm l') : l'.isEmpty = l.isEmpty := by
  have := h.length_eq
  cases l <;> cases l' <;> simp_all

theorem SamePerm.reqv {r r' : Resolver} (h : SamePerm r r') : REqv r r' :=
  ⟨h.ds, fun k => (alook_perm h.subs h.subN k).symm, isEmpty_perm h.subs, h.rd,
   fun k => (alook_perm h.fo h.foN k).symm, isEmpty_perm h.fo, h.ct, h.rt, h.lb⟩

theorem alook_map_val {α β : Type} (f : String → α → β) (k : String) (l : List (String × α)) :
    alook k (l.map fun kv => (kv.1, f kv.1 kv.2)) = (alook k l).map (f k) := by
  induction l with
  | nil => rfl
  | cons x xs ih =>
    obtain ⟨a, v⟩ := x
    simp only [List.map_cons, alook]
    split
    · rename_i e; subst e; rfl
    · exact ih

/-- re-listing the inner maps of every resolver entry is invisible to every lookup -/
theorem lookEq_inner (es : Entries) (f : String → Resolver → Resolver) (hf : ∀ k r, SamePerm r (f k r)) :
    LookEq es { es with resolvers := es.resolvers.map fun kv => (kv.1, f kv.1 kv.2) } := by
  refine ⟨fun _ => rfl, fun _ => rfl, ?_, fun _ => rfl, rfl⟩
  intro k
  unfold getResolver
  simp only [alook_map_val]
  cases alook k es.resolvers with
  | none => exact REqv.refl _
  | some r => exact (hf k r).reqv

theorem lookEq_outer {es es' : Entries}
    (hr : ∀ k, alook k es.routers = alook k es'.routers) (hs : ∀ k, alook k es.splitters = alook k es'.splitters)
    (hv : ∀ k, alook k es.resolvers = alook k es'.resolvers) (hd : ∀ k, alook k es.services = alook k es'.services)
    (hp : es.proxy = es'.proxy) : LookEq es es' :=
  ⟨hr, hs, fun k => by unfold getResolver; rw [hv k]; exact REqv.refl _, hd, hp⟩

end CV.Chain
