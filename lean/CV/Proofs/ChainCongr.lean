/-
Helper lemmas for C15: compilation depends on the entry tables only through lookups, hence not on the
order in which entries with distinct names are listed.
-/
import CV.Chain
set_option linter.unusedVariables false
set_option linter.unusedSimpArgs false
namespace CV.Chain

/-- the two entry sets answer every lookup alike -/
structure LookEq (es es' : Entries) : Prop where
  routers   : ∀ k, alook k es.routers = alook k es'.routers
  splitters : ∀ k, alook k es.splitters = alook k es'.splitters
  resolvers : ∀ k, alook k es.resolvers = alook k es'.resolvers
  services  : ∀ k, alook k es.services = alook k es'.services
  proxy     : es.proxy = es'.proxy

variable {es es' : Entries}

theorem recordServiceProtocol_congr (h : LookEq es es') (cur svc : String) :
    recordServiceProtocol es' cur svc = recordServiceProtocol es cur svc := by
  unfold recordServiceProtocol; rw [h.services, h.proxy]

theorem getResolver_congr (h : LookEq es es') (svc : String) : getResolver es' svc = getResolver es svc := by
  unfold getResolver; rw [h.resolvers]

theorem decorate_congr (h : LookEq es es') (cx : Ctx) (st : St) (t : Target) (r : Resolver) :
    decorate es' cx st t r = decorate es cx st t r := by
  unfold decorate; rw [h.services, h.proxy]

theorem finishResolve_congr (h : LookEq es es') (cx : Ctx) (st : St) (t : Target) (r : Resolver) :
    finishResolve es' cx st t r = finishResolve es cx st t r := by
  unfold finishResolve; rw [decorate_congr h]

theorem resolveLoop_congr (h : LookEq es es') (cx : Ctx) (st0 : St) (t0 : Target) (st : St) (hist : List Target) (t : Target)
    (hst : LoadedIn (mkVals es cx st0 t0) st) (ht : InU (mkVals es cx st0 t0) t) :
    ∀ (st0' : St) (t0' : Target) (hst' : LoadedIn (mkVals es' cx st0' t0') st) (ht' : InU (mkVals es' cx st0' t0') t),
      resolveLoop es' cx st0' t0' st hist t hst' ht' = resolveLoop es cx st0 t0 st hist t hst ht := by
  fun_induction resolveLoop es cx st0 t0 st hist t hst ht with
  | case1 st hist t hst ht lb hm =>
    intro st0' t0' hst' ht'
    rw [resolveLoop]; simp only [hm]
  | case2 st hist t hst ht hm e he =>
    intro st0' t0' hst' ht'
    rw [resolveLoop]
    simp only [dite_eq_ite] at he
    simp only [hm, recordServiceProtocol_congr h, he]
  | case3 st hist t hst ht hm p hp hh =>
    intro st0' t0' hst' ht'
    rw [resolveLoop]
    simp only [dite_eq_ite] at hp
    simp only [hm, recordServiceProtocol_congr h, hp, hh, dite_true]
  | case4 st hist t hst ht hm p hp hh st2 t2 h1 hi ih =>
    intro st0' t0' hst' ht'
    rw [resolveLoop]
    simp only [dite_eq_ite] at hp
    simp only [hm, recordServiceProtocol_congr h, hp, getResolver_congr h]
    rw [dif_neg hh]
    split
    · rename_i st2' t2' h1'
      rw [getResolver_congr h, h1] at h1'
      simp only [Prod.mk.injEq, Option.some.injEq] at h1'
      obtain ⟨rfl, rfl⟩ := h1'
      exact ih _ _ _ _
    · rename_i st2' h1'
      rw [getResolver_congr h, h1] at h1'
      simp at h1'
  | case5 st hist t hst ht hm p hp hh st2 h1 hi st3 t3 h2 hj ih =>
    intro st0' t0' hst' ht'
    rw [resolveLoop]
    simp only [dite_eq_ite] at hp
    simp only [hm, recordServiceProtocol_congr h, hp, getResolver_congr h]
    rw [dif_neg hh]
    split
    · rename_i st2' t2' h1'
      rw [getResolver_congr h, h1] at h1'
      simp at h1'
    · rename_i st2' h1'
      rw [getResolver_congr h, h1] at h1'
      simp only [Prod.mk.injEq, and_true] at h1'
      subst h1'
      split
      · rename_i st3' t3' h2'
        rw [getResolver_congr h, h2] at h2'
        simp only [Option.some.injEq, Prod.mk.injEq] at h2'
        obtain ⟨rfl, rfl⟩ := h2'
        exact ih _ _ _ _
      · rename_i h2'
        rw [getResolver_congr h, h2] at h2'; cases h2'
  | case6 st hist t hst ht hm p hp hh st2 h1 hi h2 =>
    intro st0' t0' hst' ht'
    rw [resolveLoop]
    simp only [dite_eq_ite] at hp
    simp only [hm, recordServiceProtocol_congr h, hp, getResolver_congr h]
    rw [dif_neg hh]
    split
    · rename_i st2' t2' h1'
      rw [getResolver_congr h, h1] at h1'
      simp at h1'
    · rename_i st2' h1'
      rw [getResolver_congr h, h1] at h1'
      simp only [Prod.mk.injEq, and_true] at h1'
      subst h1'
      split
      · rename_i st3' t3' h2'
        rw [getResolver_congr h, h2] at h2'; cases h2'
      · rfl

theorem resolveCore_congr (h : LookEq es es') (cx : Ctx) (st : St) (t : Target) :
    resolveCore es' cx st t = resolveCore es cx st t := by
  unfold resolveCore
  rw [resolveLoop_congr h cx st t st [] t (vals_loaded es cx st t) (vals_t es cx st t) st t]
  simp only [finishResolve_congr h]

theorem failoverResolve_congr (h : LookEq es es') (cx : Ctx) (st : St) (fts : List Target) :
    failoverResolve es' cx st fts = failoverResolve es cx st fts := by
  induction fts generalizing st with
  | nil => simp [failoverResolve]
  | cons ft rest ih =>
    rw [failoverResolve, failoverResolve, resolveCore_congr h]
    split
    · rfl
    · simp only [ih]

theorem resolverNode_congr (h : LookEq es es') (cx : Ctx) (st : St) (t : Target) :
    resolverNode es' cx st t = resolverNode es cx st t := by
  unfold resolverNode
  rw [resolveCore_congr h]
  split
  · rfl
  · rfl
  · simp only [failoverResolve_congr h]

/-- `splitterNode` unfolded once, with a plain (non-dependent) match on the lookup -/
theorem splitterNode_eq (es : Entries) (cx : Ctx) (marks : List String) (st : St) (name : String) :
    splitterNode es cx marks st name =
      if name ∈ marks then .ok ([], st, some (skey name))
      else
        match alook name es.splitters with
        | none => .ok ([], st, none)
        | some splits =>
          if disableAdv cx then .ok ([], { st with custProto := true }, none)
          else
            match splitLoop es cx (name :: marks) st name splits none with
            | .error e => .error e
            | .ok (dm, st1, cs, lb) =>
              .ok (dm ++ [name],
                   { st1 with nodes := st1.nodes ++ [(skey name, .splitter cs lb)], adv := true },
                   some (skey name)) := by
  rw [splitterNode]
  split
  · rename_i hm; simp [hm]
  · rename_i hm
    split
    · rename_i hs; simp [hs]
    · rename_i splits hs; simp only [hs]; split <;> rfl

theorem splitter_congr (h : LookEq es es') (cx : Ctx) :
    (∀ (marks : List String) (st : St) (name : String),
        splitterNode es' cx marks st name = splitterNode es cx marks st name) ∧
    (∀ (marks : List String) (st : St) (name : String) (splits : List Split) (lb : Option String),
        splitLoop es' cx marks st name splits lb = splitLoop es cx marks st name splits lb) := by
  apply splitterNode.mutual_induct es cx
    (motive1 := fun marks st name => splitterNode es' cx marks st name = splitterNode es cx marks st name)
    (motive2 := fun marks st name splits lb =>
        splitLoop es' cx marks st name splits lb = splitLoop es cx marks st name splits lb)
  · intro marks st name hm
    rw [splitterNode_eq, splitterNode_eq]; simp only [hm, if_true]
  · intro marks st name hm hs
    rw [splitterNode_eq, splitterNode_eq]; simp only [hm, if_false, ← h.splitters, hs]
  · intro marks st name hm splits hs hd
    rw [splitterNode_eq, splitterNode_eq]; simp only [hm, if_false, ← h.splitters, hs, hd, if_true]
  · intro marks st name hm splits hs hd e he ih
    rw [splitterNode_eq, splitterNode_eq]; simp only [hm, if_false, ← h.splitters, hs, hd, ih]
  · intro marks st name hm splits hs hd dm st1 cs lb he ih
    rw [splitterNode_eq, splitterNode_eq]; simp only [hm, if_false, ← h.splitters, hs, hd, ih]
  · intro marks st name lb
    rw [splitLoop, splitLoop]
  all_goals
    intro marks st name lb s rest svc
  · intro e hc ih1
    rw [splitLoop.eq_def, splitLoop.eq_def es]
    simp only [dite_eq_ite, svc] at hc
    simp only [svc] at ih1
    simp only [ih1, hc]
  · intro dm1 st1 key hc e hr ih1 ih2
    rw [splitLoop.eq_def, splitLoop.eq_def es]
    simp only [dite_eq_ite, svc] at hc
    simp only [svc] at ih1
    simp only [ih1, hc, ih2]
  · intro dm1 st1 key hc dm2 st2 cs2 lb2 hr ih1 ih2
    rw [splitLoop.eq_def, splitLoop.eq_def es]
    simp only [dite_eq_ite, svc] at hc
    simp only [svc] at ih1
    simp only [ih1, hc, ih2]
  · intro dm1 st1 hc nt e hr ih1
    rw [splitLoop.eq_def, splitLoop.eq_def es]
    simp only [dite_eq_ite, svc] at hc
    simp only [svc] at ih1
    simp only [nt, svc] at hr
    simp only [ih1, hc, resolverNode_congr h, hr]
  · intro dm1 st1 hc nt st2 rn hr lb1 e hr2 ih1 ih2
    rw [splitLoop.eq_def, splitLoop.eq_def es]
    simp only [dite_eq_ite, svc] at hc
    simp only [svc] at ih1
    simp only [nt, svc] at hr
    simp only [lb1, dite_eq_ite] at ih2
    simp only [ih1, hc, resolverNode_congr h, hr, ih2]
  · intro dm1 st1 hc nt st2 rn hr lb1 dm2 st3 cs2 lb2 hr2 ih1 ih2
    rw [splitLoop.eq_def, splitLoop.eq_def es]
    simp only [dite_eq_ite, svc] at hc
    simp only [svc] at ih1
    simp only [nt, svc] at hr
    simp only [lb1, dite_eq_ite] at ih2
    simp only [ih1, hc, resolverNode_congr h, hr, ih2]

theorem splitterOrResolver_congr (h : LookEq es es') (cx : Ctx) (marks : List String) (st : St) (t : Target) :
    splitterOrResolver es' cx marks st t = splitterOrResolver es cx marks st t := by
  unfold splitterOrResolver
  rw [(splitter_congr h cx).1]
  simp only [resolverNode_congr h]

theorem routeLoop_congr (h : LookEq es es') (cx : Ctx) (marks : List String) (st : St) (routes : List Route) :
    routeLoop es' cx marks st routes = routeLoop es cx marks st routes := by
  induction routes generalizing marks st with
  | nil => simp [routeLoop]
  | cons rt rest ih =>
    rw [routeLoop, routeLoop]
    simp only [splitterOrResolver_congr h, resolverNode_congr h, ih]

theorem assemble_congr (h : LookEq es es') (cx : Ctx) : assemble es' cx = assemble es cx := by
  unfold assemble
  rw [← h.routers]
  simp only [splitterOrResolver_congr h, routeLoop_congr h, recordServiceProtocol_congr h]

theorem compileWith_congr (h : LookEq es es') (order : List (String × Node) → List String) (cx : Ctx) :
    compileWith order es' cx = compileWith order es cx := by
  unfold compileWith
  rw [assemble_congr h]

/-! ### permutations of tables with distinct names answer lookups alike -/

theorem alook_perm {α : Type} {l l' : List (String × α)} (hp : l.Perm l') (hn : (akeys l).Nodup) (k : String) :
    alook k l = alook k l' := by
  induction hp with
  | nil => rfl
  | cons x _ ih =>
    obtain ⟨a, v⟩ := x
    simp only [akeys, List.map_cons, List.nodup_cons] at hn
    simp only [alook]
    split
    · rfl
    · exact ih hn.2
  | swap x y l =>
    obtain ⟨a, v⟩ := x
    obtain ⟨b, w⟩ := y
    simp only [akeys, List.map_cons, List.nodup_cons, List.mem_cons, not_or] at hn
    simp only [alook]
    by_cases ha : a = k
    · by_cases hb : b = k
      · exact absurd (hb.trans ha.symm) hn.1.1
      · simp [ha, hb]
    · simp [ha]
  | trans h1 h2 ih1 ih2 =>
    have hn' : (akeys _).Nodup := (List.Perm.nodup_iff (List.Perm.map _ h1)).mp hn
    exact (ih1 hn).trans (ih2 hn')

end CV.Chain
