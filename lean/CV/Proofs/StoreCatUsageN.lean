/-
Usage counters of the C07 wrapper, part 6: `service-names`. `updateServiceNameUsage` keys its map of per-name
instance changes by the exact spelling and counts through the lower-cased index; when the catalog before and after
a transaction together never hold two names that differ only by case, the two agree and the counter moves by the
growth of the number of distinct names.
-/
import CV.Proofs.StoreCatUsageK
import CV.Proofs.StoreCatRows
namespace CV.Store
open CV

/-! ### counting distinct elements -/

theorem nodup_eraseDups : ∀ (l : List String), l.eraseDups.Nodup
  | [] => by simp
  | a :: as => by
    rw [List.eraseDups_cons, List.nodup_cons]
    have : (as.filter fun b => !b == a).length < (a :: as).length :=
      Nat.lt_succ_of_le (List.length_filter_le _ _)
    refine ⟨?_, nodup_eraseDups _⟩
    rw [List.mem_eraseDups, List.mem_filter]
    simp
termination_by l => l.length

def ind (L : List String) (k : String) : Int := if k ∈ L then 1 else 0

theorem listSum_append {α : Type} (w : α → Int) (a b : List α) : listSum w (a ++ b) = listSum w a + listSum w b := by
  induction a with
  | nil => simp [listSum]
  | cons x xs ih => simp only [List.cons_append, listSum, ih]; omega

theorem listSum_congr {α : Type} {w w' : α → Int} {l : List α} (h : ∀ x ∈ l, w x = w' x) : listSum w l = listSum w' l := by
  induction l with
  | nil => rfl
  | cons x xs ih =>
    simp only [listSum]
    rw [h x List.mem_cons_self, ih (fun y hy => h y (List.mem_cons_of_mem _ hy))]

theorem listSum_sub {α : Type} (f g : α → Int) (l : List α) : listSum (fun x => f x - g x) l = listSum f l - listSum g l := by
  induction l with
  | nil => rfl
  | cons x xs ih => simp only [listSum, ih]; omega

/-- the number of distinct elements of `L`, counted along any duplicate-free list containing them -/
theorem eraseDups_length_eq (U L : List String) (hU : U.Nodup) (hsub : ∀ x ∈ L, x ∈ U) :
    (L.eraseDups.length : Int) = listSum (ind L) U := by
  have h1 : listSum (ind L) U = ((U.filter fun k => decide (k ∈ L)).length : Int) := by
    rw [← listSum_ind]
    apply listSum_congr
    intro x _
    unfold ind
    by_cases hx : x ∈ L <;> simp [hx]
  rw [h1]
  congr 1
  apply List.Perm.length_eq
  rw [List.perm_ext_iff_of_nodup (nodup_eraseDups L) (List.Nodup.sublist List.filter_sublist hU)]
  intro a
  rw [List.mem_eraseDups, List.mem_filter]
  simp only [decide_eq_true_eq]
  exact ⟨fun h => ⟨hsub a h, h⟩, fun h => h.2⟩

/-- the growth of the number of distinct elements, summed over a duplicate-free list of the elements whose presence
    may have changed -/
theorem distinct_diff (LP LQ K : List String) (hK : K.Nodup) (hout : ∀ k, k ∉ K → (k ∈ LQ ↔ k ∈ LP)) :
    (LQ.eraseDups.length : Int) - (LP.eraseDups.length : Int) = listSum (fun k => ind LQ k - ind LP k) K := by
  let R := ((LP ++ LQ).eraseDups).filter (fun k => !K.contains k)
  have hR : R.Nodup := List.Nodup.sublist List.filter_sublist (nodup_eraseDups _)
  have hRK : ∀ k ∈ R, k ∉ K := by
    intro k hk
    have := (List.mem_filter.mp hk).2
    simpa using this
  have hU : (K ++ R).Nodup := by
    rw [List.nodup_append]
    exact ⟨hK, hR, fun a ha b hb hab => hRK b hb (hab ▸ ha)⟩
  have hsub : ∀ L : List String, (∀ x ∈ L, x ∈ LP ++ LQ) → ∀ x ∈ L, x ∈ K ++ R := by
    intro L hL x hx
    by_cases hk : x ∈ K
    · exact List.mem_append_left _ hk
    · refine List.mem_append_right _ (List.mem_filter.mpr ⟨List.mem_eraseDups.mpr (hL x hx), by simpa using hk⟩)
  rw [eraseDups_length_eq (K ++ R) LQ hU (hsub LQ (fun x hx => List.mem_append_right _ hx)),
    eraseDups_length_eq (K ++ R) LP hU (hsub LP (fun x hx => List.mem_append_left _ hx)),
    listSum_append, listSum_append, listSum_sub]
  have : listSum (ind LQ) R = listSum (ind LP) R := by
    apply listSum_congr
    intro k hk
    unfold ind
    have := hout k (hRK k hk)
    by_cases h1 : k ∈ LQ
    · rw [if_pos h1, if_pos (this.mp h1)]
    · rw [if_neg h1, if_neg (fun hh => h1 (this.mpr hh))]
  omega

/-! ### the map of per-name instance changes -/

/-- weight 1 on the rows named exactly `n` -/
def wn (n : String) (r : Svc × SvcX) : Int := if r.1.name = n then 1 else 0

theorem serviceDeltas_snd : ∀ (chs : List (Option (Svc × SvcX) × Option (Svc × SvcX))) (d m : Deltas),
    (serviceDeltas (d, m) chs).2 = chs.foldl nameChanges m := by
  intro chs
  induction chs with
  | nil => intro d m; rfl
  | cons ch rest ih => intro d m; simp only [serviceDeltas, List.foldl_cons]; exact ih _ _

theorem dval_nameChanges (m : Deltas) (ch : Option (Svc × SvcX) × Option (Svc × SvcX)) (n : String) :
    dval (nameChanges m ch) n = dval m n + (optW (wn n) ch.2 - optW (wn n) ch.1) := by
  obtain ⟨b, a⟩ := ch
  cases b <;> cases a <;> simp only [nameChanges, optW, wn]
  · omega
  · rw [dval_addDelta]; split <;> omega
  · rw [dval_addDelta]; split <;> omega
  · next b a =>
    by_cases hne : b.1.name ≠ a.1.name
    · rw [if_pos hne, dval_addDelta, dval_addDelta]
      by_cases h1 : a.1.name = n <;> by_cases h2 : b.1.name = n <;> simp only [h1, h2, if_true, if_false] <;> omega
    · rw [if_neg hne, dval_addDelta]
      have he : b.1.name = a.1.name := Classical.byContradiction hne
      rw [he]
      by_cases h1 : a.1.name = n <;> simp only [h1, if_true, if_false] <;> omega

theorem dval_foldl_nameChanges : ∀ (chs : List (Option (Svc × SvcX) × Option (Svc × SvcX))) (m : Deltas) (n : String),
    dval (chs.foldl nameChanges m) n = dval m n + wSum (wn n) chs := by
  intro chs
  induction chs with
  | nil => intro m n; simp [wSum]
  | cons ch rest ih =>
    intro m n
    rw [List.foldl_cons, ih, dval_nameChanges]
    simp only [wSum]; omega

theorem nodup_addDelta {m : Deltas} {id : String} {n : Int} (h : (m.map (·.1)).Nodup) : ((addDelta m id n).map (·.1)).Nodup := by
  rw [addDelta_ids]
  split
  · exact h
  · next hn =>
    rw [List.nodup_append]
    exact ⟨h, by simp, by intro a ha b hb; simp at hb; subst hb; exact fun hh => hn (hh ▸ ha)⟩

theorem mem_ids_addDelta {m : Deltas} {id : String} {n : Int} {k : String} (h : k ∈ (addDelta m id n).map (·.1)) :
    k ∈ m.map (·.1) ∨ k = id := by
  rw [addDelta_ids] at h
  split at h
  · exact Or.inl h
  · rcases List.mem_append.mp h with h | h
    · exact Or.inl h
    · simp at h; exact Or.inr h

theorem nodup_nameChanges (m : Deltas) (ch : Option (Svc × SvcX) × Option (Svc × SvcX)) (h : (m.map (·.1)).Nodup) :
    ((nameChanges m ch).map (·.1)).Nodup := by
  obtain ⟨b, a⟩ := ch
  cases b <;> cases a <;> simp only [nameChanges]
  · exact h
  · exact nodup_addDelta h
  · exact nodup_addDelta h
  · split
    · exact nodup_addDelta (nodup_addDelta h)
    · exact nodup_addDelta h

/-- a change names `k` (before or after) -/
def chNames (k : String) (ch : Option (Svc × SvcX) × Option (Svc × SvcX)) : Prop :=
  (∃ b, ch.1 = some b ∧ b.1.name = k) ∨ (∃ a, ch.2 = some a ∧ a.1.name = k)

theorem mem_ids_nameChanges {m : Deltas} {ch : Option (Svc × SvcX) × Option (Svc × SvcX)} {k : String}
    (h : k ∈ (nameChanges m ch).map (·.1)) : k ∈ m.map (·.1) ∨ chNames k ch := by
  obtain ⟨b, a⟩ := ch
  cases b <;> cases a <;> simp only [nameChanges] at h
  · exact Or.inl h
  · next a => rcases mem_ids_addDelta h with h | h
              · exact Or.inl h
              · exact Or.inr (Or.inr ⟨a, rfl, h.symm⟩)
  · next b => rcases mem_ids_addDelta h with h | h
              · exact Or.inl h
              · exact Or.inr (Or.inl ⟨b, rfl, h.symm⟩)
  · next b a =>
    split at h
    · rcases mem_ids_addDelta h with h | h
      · rcases mem_ids_addDelta h with h | h
        · exact Or.inl h
        · exact Or.inr (Or.inr ⟨a, rfl, h.symm⟩)
      · exact Or.inr (Or.inl ⟨b, rfl, h.symm⟩)
    · rcases mem_ids_addDelta h with h | h
      · exact Or.inl h
      · exact Or.inr (Or.inr ⟨a, rfl, h.symm⟩)

theorem nodup_foldl_nameChanges : ∀ (chs : List (Option (Svc × SvcX) × Option (Svc × SvcX))) (m : Deltas),
    (m.map (·.1)).Nodup → ((chs.foldl nameChanges m).map (·.1)).Nodup := by
  intro chs
  induction chs with
  | nil => intro m h; exact h
  | cons ch rest ih => intro m h; rw [List.foldl_cons]; exact ih _ (nodup_nameChanges m ch h)

theorem mem_ids_foldl_nameChanges : ∀ (chs : List (Option (Svc × SvcX) × Option (Svc × SvcX))) (m : Deltas) (k : String),
    k ∈ (chs.foldl nameChanges m).map (·.1) → k ∈ m.map (·.1) ∨ ∃ ch ∈ chs, chNames k ch := by
  intro chs
  induction chs with
  | nil => intro m k h; exact Or.inl h
  | cons ch rest ih =>
    intro m k h
    rw [List.foldl_cons] at h
    rcases ih _ k h with h1 | ⟨c, hc, hk⟩
    · rcases mem_ids_nameChanges h1 with h2 | h2
      · exact Or.inl h2
      · exact Or.inr ⟨ch, List.mem_cons_self, h2⟩
    · exact Or.inr ⟨c, List.mem_cons_of_mem _ hc, hk⟩

theorem dval_of_mem : ∀ {m : Deltas}, (m.map (·.1)).Nodup → ∀ {n : String} {δ : Int}, (n, δ) ∈ m → dval m n = δ := by
  intro m
  induction m with
  | nil => intro _ n δ h; simp at h
  | cons e rest ih =>
    intro hnd n δ h
    obtain ⟨k, v⟩ := e
    simp only [List.map_cons, List.nodup_cons] at hnd
    rcases List.mem_cons.mp h with h | h
    · simp only [Prod.mk.injEq] at h
      obtain ⟨rfl, rfl⟩ := h
      simp [dval, deltaGet]
    · have hne : k ≠ n := by
        intro hh; subst hh
        exact hnd.1 (List.mem_map.mpr ⟨(k, δ), h, rfl⟩)
      have : dval ((k, v) :: rest) n = dval rest n := by
        have hb : (k == n) = false := by simpa using hne
        simp [dval, deltaGet, List.find?_cons, hb]
      rw [this]; exact ih hnd.2 h

/-! ### `updateServiceNameUsage` -/

/-- the contribution of one entry of the map -/
def sgn (post : Cat) (e : String × Int) : Int :=
  let count : Int := ((post.st.svcs.filter fun v => lc v.name == lc e.1).length : Nat)
  if count = 0 then -1 else if count = e.2 then 1 else 0

theorem serviceNameDeltas_sum (post : Cat) : ∀ (m : Deltas),
    dval (serviceNameDeltas post [] m) "service-names" = listSum (sgn post) m := by
  intro m
  induction m with
  | nil => rfl
  | cons e rest ih =>
    obtain ⟨name, delta⟩ := e
    simp only [serviceNameDeltas, listSum]
    rw [additive_serviceNameDeltas post rest _ "service-names", ih]
    unfold sgn
    simp only
    repeat' split
    all_goals (simp only [dval_addDelta, dval_nil, if_true]; try omega)

/-! ### assembling -/

theorem rows_fst_of_sync {c : Cat} (h : Sync c) : c.rows.map (·.1) = c.st.svcs := by
  unfold Cat.rows
  have key : ∀ (svcs : List Svc), (∀ v ∈ svcs, v.pk ∈ c.ext.map SvcX.pk) →
      (svcs.filterMap fun v => (tfind SvcX.pk v.pk c.ext).map fun e => (v, e)).map (·.1) = svcs := by
    intro svcs
    induction svcs with
    | nil => intro _; rfl
    | cons v rest ih =>
      intro hall
      have hv := hall v List.mem_cons_self
      obtain ⟨e, he, hk⟩ := List.mem_map.mp hv
      have hsome : (tfind SvcX.pk v.pk c.ext).isSome = true := tfind_isSome_of_mem he hk
      cases hf : tfind SvcX.pk v.pk c.ext with
      | none => rw [hf] at hsome; simp at hsome
      | some e' =>
        simp only [List.filterMap_cons, hf, Option.map_some, List.map_cons]
        rw [ih (fun w hw => hall w (List.mem_cons_of_mem _ hw))]
  apply key
  intro v hv
  rw [h]
  exact List.mem_map.mpr ⟨v, hv, rfl⟩

theorem listSum_map {α β : Type} (f : α → β) (w : β → Int) (l : List α) : listSum w (l.map f) = listSum (fun x => w (f x)) l := by
  induction l with
  | nil => rfl
  | cons x xs ih => simp only [List.map_cons, listSum, ih]

/-- the number of instances named exactly `n` -/
def cntE (c : Cat) (n : String) : Nat := (c.st.svcs.filter fun v => decide (v.name = n)).length

theorem listSum_wn {c : Cat} (h : Sync c) (n : String) : listSum (wn n) c.rows = (cntE c n : Int) := by
  have : listSum (wn n) c.rows = listSum (fun v : Svc => if decide (v.name = n) = true then (1 : Int) else 0) (c.rows.map (·.1)) := by
    rw [listSum_map]
    apply listSum_congr
    intro r _
    unfold wn
    by_cases hr : r.1.name = n <;> simp [hr]
  rw [this, rows_fst_of_sync h, listSum_ind]
  rfl

theorem cntE_pos {c : Cat} {n : String} : 0 < cntE c n ↔ ∃ v ∈ c.st.svcs, v.name = n := by
  unfold cntE
  rw [List.length_pos_iff_exists_mem]
  constructor
  · rintro ⟨v, hv⟩
    obtain ⟨m1, m2⟩ := List.mem_filter.mp hv
    exact ⟨v, m1, by simpa using m2⟩
  · rintro ⟨v, m1, m2⟩
    exact ⟨v, List.mem_filter.mpr ⟨m1, by simpa using m2⟩⟩

/-- the service names of the two catalogs together never differ only by case -/
def CaseOk2 (pre post : Cat) : Prop :=
  ∀ a ∈ pre.st.svcs ++ post.st.svcs, ∀ b ∈ pre.st.svcs ++ post.st.svcs, lc a.name = lc b.name → a.name = b.name

/-- the lower-cased names of a catalog's instances -/
def lcNames (c : Cat) : List String := c.st.svcs.map fun v => lc v.name

theorem nodup_map_on {α β : Type} (f : α → β) : ∀ {l : List α}, l.Nodup → (∀ a ∈ l, ∀ b ∈ l, f a = f b → a = b) → (l.map f).Nodup := by
  intro l
  induction l with
  | nil => intro _ _; simp
  | cons x xs ih =>
    intro h hinj
    rw [List.nodup_cons] at h
    rw [List.map_cons, List.nodup_cons]
    refine ⟨?_, ih h.2 (fun a ha b hb => hinj a (List.mem_cons_of_mem _ ha) b (List.mem_cons_of_mem _ hb))⟩
    intro hm
    obtain ⟨y, hy, he⟩ := List.mem_map.mp hm
    have := hinj y (List.mem_cons_of_mem _ hy) x List.mem_cons_self he
    exact h.1 (this ▸ hy)

theorem dval_of_not_mem {m : Deltas} {n : String} (h : n ∉ m.map (·.1)) : dval m n = 0 := by
  unfold dval deltaGet
  have : m.find? (fun e => e.1 == n) = none := by
    rw [List.find?_eq_none]
    intro e he hb
    exact h (List.mem_map.mpr ⟨e, he, by simpa using hb⟩)
  rw [this]; rfl

/-- the delta of a transaction at `service-names`: the growth of the number of distinct (lower-cased) names -/
theorem usageDeltas_names (pre post : XState) (y1 : Sync pre.loc) (y2 : Sync post.loc)
    (s1 : SortedBy Svc.pk pre.loc.st.svcs) (s2 : SortedBy Svc.pk post.loc.st.svcs) (hcase : CaseOk2 pre.loc post.loc) :
    dval (usageDeltas pre post) "service-names" =
      ((lcNames post.loc).eraseDups.length : Int) - ((lcNames pre.loc).eraseDups.length : Int) := by
  rw [usageDeltas_dval]
  rw [countDeltas_const_dval "nodes" "service-names", if_neg (by decide),
    countDeltas_const_dval "kvs" "service-names", if_neg (by decide),
    countDeltas_other_dval (fun (r : CfgRow) => "config-entries-" ++ r.kind) "service-names"
      (fun r => str_ne_of_head (cfgid_head _) (by decide : "service-names".toList = 's' :: "ervice-names".toList) (by decide))]
  rw [sum_map_wSum (fun _ => 0) _ (fun ch => by
    rw [svcStep_dval, if_neg (by decide),
      connect_other ch (c := "service-names") (fun x => str_ne_of_head (cun_head x) (by decide : "service-names".toList = 's' :: "ervice-names".toList) (by decide)),
      billable_other ch (by decide)]
    obtain ⟨b, a⟩ := ch
    cases b <;> cases a <;> simp [optW])]
  have hz : ∀ (l : List (Option (Svc × SvcX) × Option (Svc × SvcX))), wSum (fun _ => (0 : Int)) l = 0 := by
    intro l; induction l with
    | nil => rfl
    | cons ch rest ih => obtain ⟨b, a⟩ := ch; cases b <;> cases a <;> simp [wSum, optW, ih]
  rw [hz, serviceDeltas_snd, serviceNameDeltas_sum]
  generalize hchs : changesOf (fun r => Svc.pk r.1) pre.loc.rows post.loc.rows = chs
  generalize hm : chs.foldl nameChanges [] = m
  have hnd : (m.map (·.1)).Nodup := by rw [← hm]; exact nodup_foldl_nameChanges chs [] (by simp)
  -- the value of the map at a name: exact count after minus exact count before
  have hval : ∀ n, dval m n = (cntE post.loc n : Int) - (cntE pre.loc n : Int) := by
    intro n
    rw [← hm, dval_foldl_nameChanges, dval_nil, ← hchs,
      wSum_changesOf _ _ _ _ (rows_keys_nodup s1) (rows_keys_nodup s2), listSum_wn y1, listSum_wn y2]
    omega
  -- every id of the map is a name of the catalog before or after
  have hin : ∀ n ∈ m.map (·.1), 0 < cntE pre.loc n ∨ 0 < cntE post.loc n := by
    intro n hn
    rw [← hm] at hn
    rcases mem_ids_foldl_nameChanges chs [] n hn with h | ⟨ch, hch, hk⟩
    · simp at h
    · rw [← hchs] at hch
      obtain ⟨m1, m2⟩ := changesOf_mem hch
      rcases hk with ⟨b, hb, hbn⟩ | ⟨a, ha, han⟩
      · left
        have := m1 b hb
        exact cntE_pos.mpr ⟨b.1, by rw [← rows_fst_of_sync y1]; exact List.mem_map.mpr ⟨b, this, rfl⟩, hbn⟩
      · right
        have := m2 a ha
        exact cntE_pos.mpr ⟨a.1, by rw [← rows_fst_of_sync y2]; exact List.mem_map.mpr ⟨a, this, rfl⟩, han⟩
  -- a name of the two catalogs: lower-cased presence is exact presence
  have hname : ∀ n, (0 < cntE pre.loc n ∨ 0 < cntE post.loc n) →
      ∀ v ∈ pre.loc.st.svcs ++ post.loc.st.svcs, (lc v.name = lc n ↔ v.name = n) := by
    intro n hn v hv
    constructor
    · intro hl
      rcases hn with h | h
      · obtain ⟨w, hw, hwn⟩ := cntE_pos.mp h
        rw [← hwn]; exact hcase v hv w (List.mem_append_left _ hw) (by rw [hwn]; exact hl)
      · obtain ⟨w, hw, hwn⟩ := cntE_pos.mp h
        rw [← hwn]; exact hcase v hv w (List.mem_append_right _ hw) (by rw [hwn]; exact hl)
    · intro he; rw [he]
  have hindQ : ∀ n, (0 < cntE pre.loc n ∨ 0 < cntE post.loc n) →
      ind (lcNames post.loc) (lc n) = if 0 < cntE post.loc n then 1 else 0 := by
    intro n hn
    unfold ind lcNames
    have : lc n ∈ post.loc.st.svcs.map (fun v => lc v.name) ↔ 0 < cntE post.loc n := by
      rw [List.mem_map, cntE_pos]
      constructor
      · rintro ⟨v, hv, hl⟩; exact ⟨v, hv, (hname n hn v (List.mem_append_right _ hv)).mp hl⟩
      · rintro ⟨v, hv, hl⟩; exact ⟨v, hv, by rw [hl]⟩
    by_cases hp : 0 < cntE post.loc n
    · rw [if_pos (this.mpr hp), if_pos hp]
    · rw [if_neg (fun hh => hp (this.mp hh)), if_neg hp]
  have hindP : ∀ n, (0 < cntE pre.loc n ∨ 0 < cntE post.loc n) →
      ind (lcNames pre.loc) (lc n) = if 0 < cntE pre.loc n then 1 else 0 := by
    intro n hn
    unfold ind lcNames
    have : lc n ∈ pre.loc.st.svcs.map (fun v => lc v.name) ↔ 0 < cntE pre.loc n := by
      rw [List.mem_map, cntE_pos]
      constructor
      · rintro ⟨v, hv, hl⟩; exact ⟨v, hv, (hname n hn v (List.mem_append_left _ hv)).mp hl⟩
      · rintro ⟨v, hv, hl⟩; exact ⟨v, hv, by rw [hl]⟩
    by_cases hp : 0 < cntE pre.loc n
    · rw [if_pos (this.mpr hp), if_pos hp]
    · rw [if_neg (fun hh => hp (this.mp hh)), if_neg hp]
  -- the lower-cased count the code reads is the exact count
  have hcount : ∀ n, (0 < cntE pre.loc n ∨ 0 < cntE post.loc n) →
      (post.loc.st.svcs.filter fun v => lc v.name == lc n).length = cntE post.loc n := by
    intro n hn
    unfold cntE
    congr 1
    apply List.filter_congr
    intro v hv
    have := hname n hn v (List.mem_append_right _ hv)
    by_cases he : v.name = n
    · simp [he]
    · have : lc v.name ≠ lc n := fun hh => he (this.mp hh)
      simp [he, this]
  -- each entry contributes the change of presence of its name
  have hsgn : ∀ e ∈ m, sgn post.loc e = ind (lcNames post.loc) (lc e.1) - ind (lcNames pre.loc) (lc e.1) := by
    intro e he
    obtain ⟨n, δ⟩ := e
    have hn := hin n (List.mem_map.mpr ⟨(n, δ), he, rfl⟩)
    have hδ : δ = (cntE post.loc n : Int) - (cntE pre.loc n : Int) := by rw [← hval n]; exact (dval_of_mem hnd he).symm
    unfold sgn
    simp only
    rw [hcount n hn, hindQ n hn, hindP n hn, hδ]
    by_cases h1 : 0 < cntE post.loc n <;> by_cases h2 : 0 < cntE pre.loc n
    · rw [if_neg (by omega), if_neg (by omega), if_pos h1, if_pos h2]; omega
    · rw [if_neg (by omega), if_pos (by omega), if_pos h1, if_neg h2]; omega
    · rw [if_pos (by omega), if_neg h1, if_pos h2]; omega
    · rcases hn with h | h
      · exact absurd h h2
      · exact absurd h h1
  rw [listSum_congr hsgn]
  have hmap : listSum (fun e : String × Int => ind (lcNames post.loc) (lc e.1) - ind (lcNames pre.loc) (lc e.1)) m =
      listSum (fun k => ind (lcNames post.loc) k - ind (lcNames pre.loc) k) (m.map fun e => lc e.1) := by
    rw [listSum_map]
  rw [hmap]
  simp only [Int.zero_add]
  symm
  apply distinct_diff
  · -- lower-casing is injective on the ids of the map
    have : (m.map fun e => lc e.1) = (m.map (·.1)).map lc := by rw [List.map_map]; rfl
    rw [this]
    apply nodup_map_on lc hnd
    intro a ha b hb hab
    have hna := hin a ha
    have hnb := hin b hb
    -- a is the name of some instance
    have ha' : ∃ v ∈ pre.loc.st.svcs ++ post.loc.st.svcs, v.name = a := by
      rcases hna with h | h
      · obtain ⟨w, hw, hwn⟩ := cntE_pos.mp h; exact ⟨w, List.mem_append_left _ hw, hwn⟩
      · obtain ⟨w, hw, hwn⟩ := cntE_pos.mp h; exact ⟨w, List.mem_append_right _ hw, hwn⟩
    obtain ⟨v, hv, hvn⟩ := ha'
    rw [← hvn]
    exact (hname b hnb v hv).mp (by rw [hvn]; exact hab)
  · -- a lower-cased name outside the map: as present after as before
    intro k hk
    have hnot : ∀ v ∈ pre.loc.st.svcs ++ post.loc.st.svcs, lc v.name = k → cntE post.loc v.name = cntE pre.loc v.name := by
      intro v hv hvk
      have : v.name ∉ m.map (·.1) := by
        intro hh
        apply hk
        rw [← hvk]
        obtain ⟨e, he, hen⟩ := List.mem_map.mp hh
        exact List.mem_map.mpr ⟨e, he, by rw [hen]⟩
      have h0 := dval_of_not_mem this
      rw [hval] at h0
      omega
    unfold lcNames
    rw [List.mem_map, List.mem_map]
    constructor
    · rintro ⟨v, hv, hvk⟩
      have he := hnot v (List.mem_append_right _ hv) hvk
      have : 0 < cntE post.loc v.name := cntE_pos.mpr ⟨v, hv, rfl⟩
      obtain ⟨w, hw, hwn⟩ := cntE_pos.mp (by rw [← he]; exact this : 0 < cntE pre.loc v.name)
      exact ⟨w, hw, by rw [hwn]; exact hvk⟩
    · rintro ⟨v, hv, hvk⟩
      have he := hnot v (List.mem_append_left _ hv) hvk
      have : 0 < cntE pre.loc v.name := cntE_pos.mpr ⟨v, hv, rfl⟩
      obtain ⟨w, hw, hwn⟩ := cntE_pos.mp (by rw [he]; exact this : 0 < cntE post.loc v.name)
      exact ⟨w, hw, by rw [hwn]; exact hvk⟩

theorem lc_lit_names : lc "service-names" = "service-names" := lc_of_toList _ _ (by decide)

theorem names_ne_of_head {c : String} {y : Char} {ys : List Char} (hc : c.toList = y :: ys) (hy : y ≠ 's') : c ≠ "service-names" :=
  str_ne_of_head hc (by decide : "service-names".toList = 's' :: "ervice-names".toList) hy

theorem idsOk_names : IdsOk "service-names" where
  nodes := Or.inr (by rw [lc_of_toList "nodes" "nodes" (by decide), lc_lit_names]; decide)
  services := Or.inr (by rw [lc_lit_services, lc_lit_names]; decide)
  kvs := Or.inr (by rw [lc_kvs, lc_lit_names]; decide)
  names := Or.inl rfl
  billable := Or.inr (by rw [lc_of_toList billableName billableName (by decide), lc_lit_names]; decide)
  conn := fun k => Or.inr (by rw [lc_cun, lc_raw, lc_lit_names]; exact names_ne_of_head (cun_head _) (by decide))
  native := Or.inr (by rw [lc_cun, lc_native, lc_lit_names]; exact names_ne_of_head (cun_head _) (by decide))

theorem usage_names_applyX {s : XState} (idx : Nat) (c : XCmd) (hwf : c.wf) (hs : CatOK s) (hy : SyncAll s)
    (hcase : CaseOk2 s.loc (applyX s idx c).1.loc)
    (h : usageGet s "service-names" = (lcNames s.loc).eraseDups.length) :
    usageGet (applyX s idx c).1 "service-names" = (lcNames (applyX s idx c).1.loc).eraseDups.length := by
  have hpost : CatOK (stepX s idx c).1 := catOK_stepX idx c hwf hs
  have hypost : SyncAll (stepX s idx c).1 := syncAll_stepX idx c hy
  have s1 : SortedBy Svc.pk s.loc.st.svcs := by have := (hs.orphan "").srt_svcs; rw [← loc_eq_cat] at this; exact this
  have s2 : SortedBy Svc.pk (stepX s idx c).1.loc.st.svcs := by
    have := (hpost.orphan "").srt_svcs; rw [← loc_eq_cat] at this; exact this
  have y1 : Sync s.loc := by have := hy ""; rw [← loc_eq_cat] at this; exact this
  have y2 : Sync (stepX s idx c).1.loc := by have := hypost ""; rw [← loc_eq_cat] at this; exact this
  have hcfg : ∀ r, (r ∈ s.cfg ∨ r ∈ (stepX s idx c).1.cfg) → OkFor "service-names" ("config-entries-" ++ r.kind) := fun r _ =>
    Or.inr (cfgid_ne_of_head r.kind (by rw [lc_lit_names]; decide : (lc "service-names").toList = 's' :: "ervice-names".toList) (by decide))
  show usageGet (applyX s idx c).1 "service-names" = (lcNames (stepX s idx c).1.loc).eraseDups.length
  exact usage_step_generic idx c "service-names" _ _ (goodFor_usageDeltas idsOk_names _ _ hcfg)
    (usageDeltas_names s _ y1 y2 s1 s2 hcase) h

/-- log hypothesis: in no transaction of the run do the local catalog before and after together hold two service
    names that differ only by case -/
def CaseOkAlong : XState → XLog → Prop
  | _, [] => True
  | s, ic :: rest => CaseOk2 s.loc (applyX s ic.1 ic.2).1.loc ∧ CaseOkAlong (applyX s ic.1 ic.2).1 rest

theorem usage_names_replayX : ∀ (log : XLog) (s : XState), XLog.wf log → CatOK s → SyncAll s → CaseOkAlong s log →
    usageGet s "service-names" = (lcNames s.loc).eraseDups.length →
    usageGet (replayX s log) "service-names" = (lcNames (replayX s log).loc).eraseDups.length := by
  intro log
  induction log with
  | nil => intro s _ _ _ _ h; exact h
  | cons ic rest ih =>
    intro s hwf hs hy hc h
    unfold replayX
    simp only [List.foldl_cons]
    have hw := hwf ic List.mem_cons_self
    exact ih _ (fun x hx => hwf x (List.mem_cons_of_mem _ hx)) (catOK_applyX ic.1 ic.2 hw hs) (syncAll_applyX ic.1 ic.2 hy)
      hc.2 (usage_names_applyX ic.1 ic.2 hw hs hy hc.1 h)

end CV.Store
