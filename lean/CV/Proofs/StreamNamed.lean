/-
Helper lemmas for C11: every event the catalog publishes and every entry a query returns is
"named" for its key (`nameOk`), which is what makes ACL visibility a function of the entry id.
-/
import CV.Proofs.StreamFilter
import CV.Proofs.StreamCat
namespace CV.Stream

theorem named_regEv (c : Cat) (s : Svc) : nameOk (regEv c s).key (regEv c s).id (regEv c s).val := by
  simp [regEv, hkey, nameOk, render]

theorem named_deregEv (c : Cat) (s : Svc) : nameOk (deregEv c s).key (deregEv c s).id (deregEv c s).val := by
  simp [deregEv, hkey, nameOk, render]

theorem named_of_connect {e : Ev} (h : e.key.topic = .connect) : nameOk e.key e.id e.val := by
  unfold nameOk
  rw [h]
  cases e.key.subj <;> trivial

theorem connectCopy_connect {e x : Ev} (h : x ∈ connectCopy e) : x.key.topic = .connect := by
  unfold connectCopy at h
  split at h <;> simp_all [ckey]

theorem named_copies {l : List Ev} {x : Ev} (h : x ∈ l.flatMap connectCopy) : nameOk x.key x.id x.val := by
  obtain ⟨e, -, hx⟩ := List.mem_flatMap.mp h
  exact named_of_connect (connectCopy_connect hx)

theorem named_with_copies {E : List Ev} (h : ∀ e ∈ E, nameOk e.key e.id e.val) :
    ∀ e ∈ E ++ E.flatMap connectCopy, nameOk e.key e.id e.val := by
  intro e he
  rcases List.mem_append.mp he with he | he
  · exact h e he
  · exact named_copies he

theorem applyWrite_named (idx : Nat) (c : Cat) (w : Write) :
    ∀ e ∈ (applyWrite idx c w).2.1, nameOk e.key e.id e.val := by
  cases w with
  | kv => intro e he; cases he
  | tok t => intro e he; cases he
  | cfgSet n v =>
    intro e he
    simp only [applyWrite, List.mem_singleton] at he
    subst he
    simp [nameOk]
  | cfgDel n =>
    intro e he
    simp only [applyWrite] at he
    cases hl : lookup? n c.cfgs with
    | none => rw [hl] at he; cases he
    | some v =>
      rw [hl] at he
      simp only [List.mem_singleton] at he
      subst he
      simp [nameOk]
  | dereg node sid =>
    cases sid with
    | some sid =>
      simp only [applyWrite]
      cases findSvc c node sid with
      | none => intro e he; cases he
      | some s =>
        apply named_with_copies
        intro e he
        simp only [List.mem_singleton] at he
        subst he
        exact named_deregEv c s
    | none =>
      simp only [applyWrite]
      cases lookup? node c.nodes with
      | none => intro e he; cases he
      | some a =>
        apply named_with_copies
        intro e he
        obtain ⟨s, -, rfl⟩ := List.mem_map.mp he
        exact named_deregEv c s
  | reg node addr svc =>
    simp only [applyWrite]
    apply named_with_copies
    intro e he
    rcases List.mem_append.mp he with he | he
    · split at he
      · obtain ⟨s, -, rfl⟩ := List.mem_map.mp he
        exact named_regEv _ s
      · cases he
    · cases svc with
      | none => cases he
      | some s =>
        simp only at he
        split at he
        · rcases List.mem_append.mp he with he | he
          · cases hb : findSvc c node s.sid with
            | none => simp [hb] at he
            | some b =>
              simp only [Option.bind_some, hb] at he
              rcases List.mem_append.mp he with he | he
              · split at he
                · simp only [List.mem_singleton] at he; subst he; exact named_deregEv c b
                · cases he
              · cases hk : b.kind with
                | proxy d =>
                  rw [hk] at he
                  simp only at he
                  split at he
                  · simp only [List.mem_singleton] at he; subst he
                    exact named_of_connect (by simp [ckey])
                  · cases he
                | typical => rw [hk] at he; cases he
                | native => rw [hk] at he; cases he
          · split at he
            · cases he
            · simp only [List.mem_singleton] at he; subst he; exact named_regEv _ s
        · cases he

/-- events routed to buffer key `k` are named for `k` and carry `k`'s topic -/
theorem evsFor_named {k : Key} {evs : List Ev} (h : ∀ e ∈ evs, nameOk e.key e.id e.val) :
    EvsNamed k (evsFor k evs) ∧ ∀ e ∈ evsFor k evs, e.key.topic = k.topic := by
  have key : ∀ e ∈ evsFor k evs, nameOk k e.id e.val ∧ e.key.topic = k.topic := by
    intro e he
    have hm := List.mem_filter.mp he
    have hn := h e hm.1
    have hor : e.key = k ∨ wildOf e.key = some k := by simpa using hm.2
    rcases hor with rfl | hw
    · exact ⟨hn, rfl⟩
    · unfold wildOf at hw
      cases ht : e.key.topic with
      | cfg =>
        rw [ht] at hw
        simp only [Option.some.injEq] at hw
        subst hw
        refine ⟨?_, rfl⟩
        unfold nameOk at hn ⊢
        rw [ht] at hn
        simpa using hn
      | health => rw [ht] at hw; cases hw
      | connect => rw [ht] at hw; cases hw
  exact ⟨fun e he => (key e he).1, fun e he => (key e he).2⟩

theorem query_named (k : Key) (c : Cat) : ∀ p ∈ query k c, nameOk k p.1 p.2 := by
  obtain ⟨t, sj⟩ := k
  intro p hp
  cases t with
  | cfg =>
    cases sj with
    | wild =>
      simp only [query, List.mem_map] at hp
      obtain ⟨q, -, rfl⟩ := hp
      simp [nameOk]
    | named n =>
      simp only [query, List.mem_map] at hp
      obtain ⟨q, -, rfl⟩ := hp
      simp [nameOk]
  | health =>
    cases sj with
    | wild => simp [query, belongs] at hp
    | named n =>
      simp only [query, List.mem_map, List.mem_filter, belongs, decide_eq_true_eq] at hp
      obtain ⟨s, ⟨-, hs⟩, rfl⟩ := hp
      simp [nameOk, render, hs]
  | connect => cases sj <;> simp [nameOk]

theorem snapshotItems_named (k : Key) (c : Cat) :
    ∀ evs ∈ snapshotItems k c, EvsNamed k evs ∧ ∀ e ∈ evs, e.key.topic = k.topic := by
  intro evs hevs
  have hq := query_named k c
  unfold snapshotItems at hevs
  split at hevs
  · simp only at hevs
    split at hevs
    · cases hevs
    · simp only [List.mem_singleton] at hevs
      subst hevs
      refine ⟨?_, ?_⟩
      · intro e he
        obtain ⟨p, hp, rfl⟩ := List.mem_map.mp he
        exact hq p hp
      · intro e he
        obtain ⟨p, hp, rfl⟩ := List.mem_map.mp he
        rfl
  · obtain ⟨p, hp, rfl⟩ := List.mem_map.mp hevs
    refine ⟨?_, ?_⟩
    · intro e he
      simp only [List.mem_singleton] at he; subst he
      exact hq p hp
    · intro e he
      simp only [List.mem_singleton] at he; subst he
      rfl

end CV.Stream
