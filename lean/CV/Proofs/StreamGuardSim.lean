/-
Helper lemmas for C11, index-guard variant: the simulation predicate for `handleG`.
`SimG B m l fin`: feeding `l` to materializer `m` (with the guard) keeps it exact after every
step, ends in `fin`, and ends with an index ≤ `B`.
-/
import CV.Proofs.StreamSim
namespace CV.Stream

def SimG (B : Nat) (m : Mat) : List Step → View → Prop
  | [], fin => HOk m ∧ Exact m ∧ (m.index ≠ 0 → ViewEq m.view fin) ∧ m.index ≤ B
  | st :: r, fin => HOk m ∧ Exact m ∧ SimG B (handleG m st) r fin

theorem SimG.hok {B : Nat} {m : Mat} {l : List Step} {fin : View} (h : SimG B m l fin) : HOk m := by
  cases l <;> exact h.1

theorem SimG.exact {B : Nat} {m : Mat} {l : List Step} {fin : View} (h : SimG B m l fin) : Exact m := by
  cases l <;> exact h.2.1

theorem SimG.congr_fin {B : Nat} {m : Mat} {l : List Step} {fin fin' : View} (e : ViewEq fin fin')
    (h : SimG B m l fin) : SimG B m l fin' := by
  induction l generalizing m with
  | nil => exact ⟨h.1, h.2.1, fun hi => (h.2.2.1 hi).trans e, h.2.2.2⟩
  | cons st r ih => exact ⟨h.1, h.2.1, ih h.2.2⟩

theorem SimG.mono_B {B B' : Nat} {m : Mat} {l : List Step} {fin : View} (hb : B ≤ B')
    (h : SimG B m l fin) : SimG B' m l fin := by
  induction l generalizing m with
  | nil => exact ⟨h.1, h.2.1, h.2.2.1, Nat.le_trans h.2.2.2 hb⟩
  | cons st r ih => exact ⟨h.1, h.2.1, ih h.2.2⟩

theorem handleG_nstf (m : Mat) : handleG m .nstf = handle m .nstf := rfl
theorem handleG_eos (m : Mat) (i : Nat) (p : View) : handleG m (.eos i p) = handle m (.eos i p) := rfl

theorem handleG_item_new {m : Mat} (it : Item) (h : m.index < it.idx) : handleG m (.item it) = handle m (.item it) := by
  unfold handleG
  have : ¬ it.idx ≤ m.index := by omega
  cases m.h <;> simp [this]

theorem SimG.append_item {B : Nat} {m : Mat} {l : List Step} {fin : View} (it : Item)
    (h : SimG B m l fin) (hidx : B < it.idx)
    (hf : ∀ v, ViewEq v fin → ViewEq (applyEvs v it.evs) it.post) :
    SimG it.idx m (l ++ [.item it]) it.post := by
  induction l generalizing m with
  | nil =>
    obtain ⟨hk, hex, hv, hb⟩ := h
    have hne : it.idx ≠ 0 := by omega
    refine ⟨hk, hex, ?_⟩
    rw [handleG_item_new it (by omega)]
    unfold handle
    cases hh : m.h with
    | snap acc =>
      have h0 := hk.snap acc hh
      refine ⟨⟨by simp, fun _ => hk.empty h0, ?_, ?_⟩, ?_, ?_, ?_⟩
      · intro hx; simp at hx
      · intro _ _; exact h0
      · intro hi; exact absurd h0 hi
      · intro hi; exact absurd h0 hi
      · simp only; omega
    | bad => exact absurd hh hk.notBad
    | stream =>
      have hvv := hf _ (hv (hk.live (Or.inl hh)))
      refine ⟨⟨by simp, ?_, fun _ => hne, ?_⟩, fun _ => ?_, fun _ => ?_, ?_⟩
      · intro hx; exact absurd hx hne
      · intro acc hx; simp at hx
      · simpa [updateView] using hvv
      · simpa [updateView] using hvv
      · simp [updateView]
    | resume =>
      have hvv := hf _ (hv (hk.live (Or.inr hh)))
      refine ⟨⟨by simp, ?_, fun _ => hne, ?_⟩, fun _ => ?_, fun _ => ?_, ?_⟩
      · intro hx; exact absurd hx hne
      · intro acc hx; simp at hx
      · simpa [updateView] using hvv
      · simpa [updateView] using hvv
      · simp [updateView]
  | cons st r ih => exact ⟨h.1, h.2.1, ih h.2.2⟩

/-- stale items (index not above the materializer's) are skipped by the guard -/
theorem SimG.skip {B : Nat} {m : Mat} {fin : View} (l : List Item) (hs : m.h = .stream) (hk : HOk m) (hex : Exact m)
    (hv : ViewEq m.view fin) (hb : m.index ≤ B) (hl : ∀ it ∈ l, it.idx ≤ m.index) :
    SimG B m (l.map .item) fin := by
  induction l with
  | nil => exact ⟨hk, hex, fun _ => hv, hb⟩
  | cons it r ih =>
    have hi : it.idx ≤ m.index := hl it List.mem_cons_self
    have : handleG m (.item it) = m := by simp [handleG, hs, hi]
    refine ⟨hk, hex, ?_⟩
    rw [this]
    exact ih (fun x hx => hl x (List.mem_cons_of_mem _ hx))

theorem SimG.snapshot {B : Nat} (acc : List Ev) (items stale : List Item) (si : Nat) (q e0 : View) (hsi : si ≠ 0)
    (hB : si ≤ B) (hq : ViewEq (applyEvs [] (acc ++ items.flatMap (·.evs))) q)
    (hst : ∀ it ∈ stale, it.idx ≤ si) :
    SimG B ⟨.snap acc, [], 0, e0⟩ (items.map .item ++ [.eos si q] ++ stale.map .item) q := by
  induction items generalizing acc with
  | nil =>
    simp only [List.map_nil, List.nil_append, List.cons_append]
    have hk0 : HOk ⟨.snap acc, [], 0, e0⟩ :=
      ⟨by simp, fun _ => rfl, by intro h; simp at h, fun _ _ => rfl⟩
    refine ⟨hk0, by intro h; simp at h, ?_⟩
    rw [handleG_eos]
    have hq' : ViewEq (applyEvs [] acc) q := by simpa using hq
    apply SimG.skip stale
    · rfl
    · exact ⟨by simp [handle, updateView], by intro h; simp [handle, updateView] at h; exact absurd h hsi,
        by intro _; simpa [handle, updateView] using hsi, by intro a h; simp [handle, updateView] at h⟩
    · intro _; simpa [handle, updateView] using hq'
    · simpa [handle, updateView] using hq'
    · simpa [handle, updateView] using hB
    · simpa [handle, updateView] using hst
  | cons it r ih =>
    have hk0 : HOk ⟨.snap acc, [], 0, e0⟩ :=
      ⟨by simp, fun _ => rfl, by intro h; simp at h, fun _ _ => rfl⟩
    refine ⟨hk0, by intro h; simp at h, ?_⟩
    have : handleG ⟨.snap acc, [], 0, e0⟩ (.item it) = ⟨.snap (acc ++ it.evs), [], 0, e0⟩ := by
      simp [handleG, handle]
    rw [this]
    apply ih
    simpa [List.append_assoc] using hq

theorem SimG.nstf {B : Nat} {m : Mat} {l : List Step} {fin : View} (hk : HOk m) (hex : Exact m) (hr : m.h = .resume)
    (h : SimG B ⟨.snap [], [], 0, m.expect⟩ l fin) : SimG B m (.nstf :: l) fin := by
  refine ⟨hk, hex, ?_⟩
  rw [handleG_nstf]
  simpa [handle, hr, Mat.reset] using h

end CV.Stream
