/-
C06, the per-service read paths ServiceNodes(N) / CheckServiceNodes(N) under the naming discipline of
CV.Proofs.StoreQueryDisc. What the two queries show is a function of `csnView s N`: the instances named N,
each with its node row, the node-level checks of its node and its own checks. For every primitive write of a
command running at index `i`: either the view and the `service.<N>` row are untouched, or the state is
`SvcFresh`: the index the query reports is exactly `i` (the `service.<N>` row holds `i` while an instance exists,
the service extinction row holds `i` once the last one is gone).
-/
import CV.Proofs.StoreQueryDisc
namespace CV.Store
open CV

/-! ### the view -/

abbrev CsnElt := Svc × Option Node × List Chk × List Chk

def csnElt (s : State) (v : Svc) : CsnElt :=
  (v, nodeFind s v.node, chksNodeSvc s v.node "", chksNodeSvc s v.node v.id)

def csnView (s : State) (N : String) : List CsnElt := (svcsNamed s N).map (csnElt s)

def csnOfElt (t : CsnElt) : Option CSN :=
  match t.2.1 with
  | none => none
  | some n => some ⟨n, t.1, t.2.2.1 ++ t.2.2.2⟩

def csnOf : List CsnElt → Option (List CSN)
  | [] => some []
  | t :: ts =>
    match csnOfElt t, csnOf ts with
    | some r, some rs => some (r :: rs)
    | _, _ => none

theorem csnRow_eq (s : State) (v : Svc) : csnRow s v = csnOfElt (csnElt s v) := by
  unfold csnRow csnOfElt csnElt
  cases nodeFind s v.node <;> rfl

theorem csnRows_eq (s : State) (l : List Svc) : csnRows s l = csnOf (l.map (csnElt s)) := by
  induction l with
  | nil => rfl
  | cons v vs ih =>
    simp only [csnRows, List.map_cons, csnOf, csnRow_eq, ih]
    cases csnOfElt (csnElt s v) <;> cases csnOf (List.map (csnElt s) vs) <;> rfl

theorem view_empty {s s' : State} {N : String} (h : csnView s' N = csnView s N) :
    svcsNamed s' N = [] ↔ svcsNamed s N = [] := by
  unfold csnView at h
  have := congrArg List.length h
  simp only [List.length_map] at this
  rw [← List.length_eq_zero_iff, ← List.length_eq_zero_iff, this]

theorem view_isEmpty {s s' : State} {N : String} (h : csnView s' N = csnView s N) :
    (svcsNamed s' N).isEmpty = (svcsNamed s N).isEmpty := by
  have := view_empty h
  cases h1 : svcsNamed s' N <;> cases h2 : svcsNamed s N <;> simp_all

theorem serviceNodes_res_of_view {s s' : State} {N : String} (h : csnView s' N = csnView s N) :
    ((Query.serviceNodes N).run s').2 = ((Query.serviceNodes N).run s).2 := by
  have e : ∀ st : State, (svcsNamed st N).map (joinNode st) = (csnView st N).map (fun t => ⟨t.1, t.2.1⟩) := by
    intro st; unfold csnView; rw [List.map_map]; rfl
  simp only [Query.run, e, h]

theorem csn_res_of_view {s s' : State} {N : String} (h : csnView s' N = csnView s N) :
    ((Query.csn N).run s').2 = ((Query.csn N).run s).2 := by
  have e : ∀ st : State, csnResult st (svcsNamed st N) = match csnOf (csnView st N) with
      | some l => .csns l | none => .err .missingNode := by
    intro st; unfold csnResult csnView; rw [csnRows_eq]
    cases csnOf (List.map (csnElt st) (svcsNamed st N)) <;> rfl
  simp only [Query.run, e, h]

theorem csnView_congr {s s' : State} (N : String) (h1 : s'.nodes = s.nodes) (h2 : s'.svcs = s.svcs)
    (h3 : s'.chks = s.chks) : csnView s' N = csnView s N := by
  unfold csnView svcsNamed csnElt chksNodeSvc nodeFind
  rw [h1, h2, h3]

/-! ### the reported index -/

/-- the index ServiceNodes (`chk = false`) / CheckServiceNodes (`chk = true`) report -/
def svcIdx (s : State) (N : String) (chk : Bool) : Nat :=
  maxIndexForService s N (!(svcsNamed s N).isEmpty) chk

/-- the query's index is the command's index -/
def SvcFresh (i : Nat) (s : State) (N : String) : Prop :=
  (svcsNamed s N ≠ [] ∧ idxGet s.index (svcKey N) = some i) ∨
  (svcsNamed s N = [] ∧ idxGet s.index kSvcExt = some i ∧ idxGet s.index (svcKey N) = none)

/-- the fall-back of `maxIndexAndWatchChForService`: the `service.<N>` row, else the catalog index -/
def svcFall (s : State) (N : String) (chk : Bool) : Nat :=
  match idxGet s.index (svcKey N) with
  | some v => v
  | none => catalogMaxIndex s chk

theorem svcIdx_eq (s : State) (N : String) (chk : Bool) :
    svcIdx s N chk = if (svcsNamed s N).isEmpty = false then svcFall s N chk
      else match idxGet s.index kSvcExt with
        | some v => v
        | none => svcFall s N chk := by
  unfold svcIdx maxIndexForService svcFall
  cases (svcsNamed s N).isEmpty <;> simp <;>
    (cases idxGet s.index kSvcExt <;> cases idxGet s.index (svcKey N) <;> rfl)

theorem svcFresh_idx {i : Nat} {s : State} {N : String} (h : SvcFresh i s N) (chk : Bool) : svcIdx s N chk = i := by
  rw [svcIdx_eq]
  rcases h with ⟨h1, h2⟩ | ⟨h1, h2, -⟩
  · have : (svcsNamed s N).isEmpty = false := by cases h : svcsNamed s N <;> simp_all
    rw [if_pos this]; unfold svcFall; rw [h2]
  · have : ¬ (svcsNamed s N).isEmpty = false := by rw [h1]; simp
    rw [if_neg this, h2]

theorem catalogMax_le {m : Nat} {s : State} (h : IdxLe m s.index) (chk : Bool) : catalogMaxIndex s chk ≤ m := by
  unfold catalogMaxIndex
  have := h.val kServices; have := h.val kNodes; have := h.val kChecks
  cases chk <;> simp <;> omega

theorem svcFall_le {m : Nat} {s : State} (h : IdxLe m s.index) (N : String) (chk : Bool) : svcFall s N chk ≤ m := by
  unfold svcFall
  split
  · next v hv => exact h _ _ hv
  · exact catalogMax_le h chk

theorem svcIdx_le {m : Nat} {s : State} (h : IdxLe m s.index) (N : String) (chk : Bool) : svcIdx s N chk ≤ m := by
  rw [svcIdx_eq]
  split
  · exact svcFall_le h N chk
  · split
    · next v hv => exact h _ _ hv
    · exact svcFall_le h N chk

variable {i : Nat}

/-- a stable row holding the command's index keeps it -/
theorem IxOps.keep_some {a b : Ix} (h : IxOps i a b) (h0 : IdxLe i a) {k : String} (hk : Stable k)
    (hv : idxGet a k = some i) : idxGet b k = some i := by
  induction h with
  | refl => exact hv
  | set k' hh ih =>
    rw [idxGet_idxSet]; split
    · rfl
    · exact ih
  | max k' hh ih =>
    rename_i ix2
    rw [idxGet_idxMax]; split
    · have := (hh.le h0).val k'
      rw [Nat.max_eq_right this]
    · exact ih
  | delSvc n _ ih => rw [idxGet_idxDel, if_neg (hk.1 n)]; exact ih
  | delNode n _ ih => rw [idxGet_idxDel, if_neg (hk.2 n)]; exact ih

/-- a stable row that is present stays present and does not go down -/
theorem IxOps.some_mono {a b : Ix} (h : IxOps i a b) (h0 : IdxLe i a) {k : String} (hk : Stable k) {v : Nat}
    (hv : idxGet a k = some v) : ∃ v', idxGet b k = some v' ∧ v ≤ v' := by
  induction h with
  | refl => exact ⟨v, hv, Nat.le_refl _⟩
  | set k' hh ih =>
    rw [idxGet_idxSet]; split
    · exact ⟨i, rfl, h0 _ _ hv⟩
    · exact ih
  | max k' hh ih =>
    rename_i ix2
    rw [idxGet_idxMax]; split
    · exact ⟨_, rfl, Nat.le_trans (h0 _ _ hv) (Nat.le_max_right _ _)⟩
    · exact ih
  | delSvc n _ ih => rw [idxGet_idxDel, if_neg (hk.1 n)]; exact ih
  | delNode n _ ih => rw [idxGet_idxDel, if_neg (hk.2 n)]; exact ih

/-- a row that appears during the command holds at least the command's index -/
theorem IxOps.written_ge {a b : Ix} (h : IxOps i a b) {k : String} {v : Nat}
    (h1 : idxGet a k = none) (h2 : idxGet b k = some v) : i ≤ v := by
  induction h generalizing v with
  | refl => rw [h1] at h2; simp at h2
  | set k' hh ih =>
    rw [idxGet_idxSet] at h2; split at h2
    · simp at h2; omega
    · exact ih h2
  | max k' hh ih =>
    rw [idxGet_idxMax] at h2; split at h2
    · simp at h2; omega
    · exact ih h2
  | delSvc n _ ih =>
    rw [idxGet_idxDel] at h2; split at h2
    · simp at h2
    · exact ih h2
  | delNode n _ ih =>
    rw [idxGet_idxDel] at h2; split at h2
    · simp at h2
    · exact ih h2

theorem catalogMax_mono {s s' : State} (t : IxOps i s.index s'.index) (h0 : IdxLe i s.index) (chk : Bool) :
    catalogMaxIndex s chk ≤ catalogMaxIndex s' chk := by
  unfold catalogMaxIndex
  have := t.mono h0 stable_services; have := t.mono h0 stable_nodes; have := t.mono h0 stable_checks
  cases chk <;> simp <;> omega

/-- same instances-exist flag, same `service.<N>` row: the index does not go down across the writes of a command -/
theorem svcIdx_mono {s s' : State} {N : String} (t : IxOps i s.index s'.index) (h0 : IdxLe i s.index)
    (he : (svcsNamed s' N).isEmpty = (svcsNamed s N).isEmpty)
    (hrow : idxGet s'.index (svcKey N) = idxGet s.index (svcKey N)) (chk : Bool) :
    svcIdx s N chk ≤ svcIdx s' N chk := by
  rw [svcIdx_eq, svcIdx_eq, he]
  have hfall : svcFall s N chk ≤ svcFall s' N chk := by
    unfold svcFall; rw [hrow]
    split
    · exact Nat.le_refl _
    · exact catalogMax_mono t h0 chk
  have hfle : svcFall s N chk ≤ i := svcFall_le h0 N chk
  split
  · exact hfall
  · cases hx : idxGet s.index kSvcExt with
    | some v =>
      obtain ⟨v', hv', hle⟩ := t.some_mono h0 stable_svcExt hx
      rw [hv']; exact hle
    | none =>
      cases hx' : idxGet s'.index kSvcExt with
      | some v' =>
        have hge := t.written_ge hx hx'
        simp only
        omega
      | none => exact hfall

/-! ### the `service.<N>` row under the index writes -/

theorem lc_svcKey_iff (a b : String) : lc (svcKey a) = lc (svcKey b) ↔ lc a = lc b := by
  unfold svcKey; exact lc_prefix_cancel _ _ _

theorem svcKey_ne_nodeKey (a b : String) : lc (svcKey a) ≠ lc ("peer.~:node." ++ b) :=
  fun e => (offCat_nodeKey b).svc a e.symm

theorem le_maxIdx {s : State} (hle : IdxLe i s.index) (k : String) : IdxLe i (s.maxIdx k i).index :=
  idxLe_max hle k (Nat.le_refl _)

theorem le_maxIdx2 {s : State} (hle : IdxLe i s.index) (k : String) : IdxLe i (s.maxIdx2 k i).index :=
  le_maxIdx (le_maxIdx hle _) _

theorem row_maxSvc (s : State) (nm N : String) (hle : IdxLe i s.index) :
    idxGet (s.maxIdx ("peer.~:service." ++ nm) i).index (svcKey N) =
      if lc nm = lc N then some i else idxGet s.index (svcKey N) := by
  show idxGet (idxMax s.index _ i) _ = _
  rw [idxGet_idxMax]
  by_cases h : lc nm = lc N
  · rw [if_pos (show lc (svcKey N) = lc ("peer.~:service." ++ nm) from (lc_svcKey_iff N nm).mpr h.symm), if_pos h,
      Nat.max_eq_right (hle.val _)]
  · rw [if_neg (show ¬ lc (svcKey N) = lc ("peer.~:service." ++ nm) from fun e => h ((lc_svcKey_iff N nm).mp e).symm),
      if_neg h]

theorem row_delSvc (s : State) (nm N : String) :
    idxGet (s.delIdx ("peer.~:service." ++ nm)).index (svcKey N) =
      if lc nm = lc N then none else idxGet s.index (svcKey N) := by
  show idxGet (idxDel s.index _) _ = _
  rw [idxGet_idxDel]
  by_cases h : lc nm = lc N
  · rw [if_pos (show lc (svcKey N) = lc ("peer.~:service." ++ nm) from (lc_svcKey_iff N nm).mpr h.symm), if_pos h]
  · rw [if_neg (show ¬ lc (svcKey N) = lc ("peer.~:service." ++ nm) from fun e => h ((lc_svcKey_iff N nm).mp e).symm),
      if_neg h]

theorem row_max2 (s : State) (l : String) (N : String) (h1 : l ∈ litRows) (h2 : "peer.~:" ++ l ∈ litRows) :
    idxGet (s.maxIdx2 l i).index (svcKey N) = idxGet s.index (svcKey N) :=
  getl_maxIdx2_lit (offLit_svcKey N) s l i h1 h2

theorem srow_maxNode (s : State) (x N : String) :
    idxGet (s.maxIdx ("peer.~:node." ++ x) i).index (svcKey N) = idxGet s.index (svcKey N) :=
  get_maxIdx_ne s _ i (svcKey_ne_nodeKey N x)

theorem row_bump (s : State) (nm N : String) (hle : IdxLe i s.index) :
    idxGet (bumpServiceIdx s i nm).index (svcKey N) = if lc nm = lc N then some i else idxGet s.index (svcKey N) := by
  unfold bumpServiceIdx
  rw [row_max2 _ _ _ (by decide) (by decide)]
  exact row_maxSvc s nm N hle

theorem row_foldl_bump (l : List Svc) (s : State) (N : String) (hle : IdxLe i s.index) :
    idxGet (l.foldl (fun st (v : Svc) => bumpServiceIdx st i v.name) s).index (svcKey N) =
      if l.any (fun v => lc v.name == lc N) = true then some i else idxGet s.index (svcKey N) := by
  induction l generalizing s with
  | nil => simp
  | cons v vs ih =>
    rw [List.foldl_cons, ih _ ((ops_bump s v.name).le hle), row_bump _ _ _ hle]
    by_cases h : lc v.name = lc N <;> cases hv : vs.any (fun v => lc v.name == lc N) <;> simp [h, hv]

theorem row_updateAll (s : State) (node N : String) (hle : IdxLe i s.index) :
    idxGet (updateAllServiceIndexesOfNode s i node).index (svcKey N) =
      if (s.svcs.filter (fun v => lc v.node == lc node)).any (fun v => lc v.name == lc N) = true then some i
      else idxGet s.index (svcKey N) := by
  unfold updateAllServiceIndexesOfNode
  exact row_foldl_bump _ s N hle

/-! ### membership -/

theorem mem_svcsNamed {s : State} {N : String} {w : Svc} : w ∈ svcsNamed s N ↔ w ∈ s.svcs ∧ lc w.name = lc N := by
  unfold svcsNamed; simp [List.mem_filter]

theorem svcsNamed_ne_nil {s : State} {N : String} {w : Svc} (hw : w ∈ s.svcs) (hn : lc w.name = lc N) :
    svcsNamed s N ≠ [] := by
  intro e
  have : w ∈ svcsNamed s N := mem_svcsNamed.mpr ⟨hw, hn⟩
  rw [e] at this; simp at this

theorem svcsNamed_congr {s s' : State} (h : s'.svcs = s.svcs) (N : String) : svcsNamed s' N = svcsNamed s N := by
  unfold svcsNamed; rw [h]

theorem csnView_of {s s' : State} {N : String} (h1 : svcsNamed s' N = svcsNamed s N)
    (h2 : ∀ w ∈ svcsNamed s N, csnElt s' w = csnElt s w) : csnView s' N = csnView s N := by
  unfold csnView; rw [h1]; exact List.map_congr_left h2

theorem csnElt_eq {s s' : State} {w : Svc} (h1 : nodeFind s' w.node = nodeFind s w.node)
    (h2 : chksNodeSvc s' w.node "" = chksNodeSvc s w.node "")
    (h3 : chksNodeSvc s' w.node w.id = chksNodeSvc s w.node w.id) : csnElt s' w = csnElt s w := by
  unfold csnElt; rw [h1, h2, h3]

theorem lc_eq_empty {a : String} (h : lc a = lc "") : a = "" := by
  have := (lc_eq_iff a "").mp h
  simp [ikey] at this
  exact String.ext (by simpa using this)

/-! ### the step relation -/

structure SvcStep (D : Disc) (N : String) (i : Nat) (s0 s : State) : Prop where
  le : IdxLe i s.index
  disc : CatDisc D s
  view : (csnView s N = csnView s0 N ∧ idxGet s.index (svcKey N) = idxGet s0.index (svcKey N)) ∨ SvcFresh i s N

variable {D : Disc} {N : String} {s0 : State}

theorem SvcStep.next {s s' : State} (h : SvcStep D N i s0 s) (t : Tbl1 i s s') (hd : CatDisc D s')
    (hstep : (csnView s' N = csnView s N ∧ idxGet s'.index (svcKey N) = idxGet s.index (svcKey N)) ∨ SvcFresh i s' N) :
    SvcStep D N i s0 s' := by
  refine ⟨t.ops.le h.le, hd, ?_⟩
  rcases hstep with ⟨hv, hr⟩ | hf
  · rcases h.view with ⟨hv0, hr0⟩ | hf0
    · exact Or.inl ⟨hv.trans hv0, hr.trans hr0⟩
    · right
      rcases hf0 with ⟨a, b⟩ | ⟨a, b, c⟩
      · exact Or.inl ⟨fun e => a ((view_empty hv).mp e), hr.trans b⟩
      · exact Or.inr ⟨(view_empty hv).mpr a, t.ops.keep_some h.le stable_svcExt b, hr.trans c⟩
  · exact Or.inr hf

/-- only index rows are written: the `service.<N>` row is set to the command's index (only possible while an
    instance named N exists) or left alone -/
theorem SvcStep.rowstep {s s' : State} (h : SvcStep D N i s0 s) (t : Tbl1 i s s') (hv : catView s' = catView s)
    (b : Prop) [Decidable b]
    (hrow : idxGet s'.index (svcKey N) = if b then some i else idxGet s.index (svcKey N))
    (hb : b → svcsNamed s N ≠ []) : SvcStep D N i s0 s' := by
  refine h.next t (h.disc.ofView hv) ?_
  by_cases hbb : b
  · right; left
    rw [if_pos hbb] at hrow
    exact ⟨by rw [svcsNamed_congr (catView_svcs hv)]; exact hb hbb, hrow⟩
  · left
    rw [if_neg hbb] at hrow
    exact ⟨csnView_congr N (catView_nodes hv) (catView_svcs hv) (catView_chks hv), hrow⟩

theorem SvcStep.frame {s s' : State} (h : SvcStep D N i s0 s) (t : Tbl1 i s s') (hv : catView s' = catView s)
    (hrow : idxGet s'.index (svcKey N) = idxGet s.index (svcKey N)) : SvcStep D N i s0 s' :=
  h.rowstep t hv False (by rw [if_neg (fun h => h)]; exact hrow) (fun h => h.elim)

theorem svc_bump {s : State} (name : String) (hctx : ∃ v ∈ s.svcs, lc v.name = lc name) (h : SvcStep D N i s0 s) :
    SvcStep D N i s0 (bumpServiceIdx s i name) := by
  refine h.rowstep (tbl_bump s name) rfl (lc name = lc N) (row_bump s name N h.le) (fun hb => ?_)
  obtain ⟨v, hv, hn⟩ := hctx
  exact svcsNamed_ne_nil hv (hn.trans hb)

theorem svc_updateAll {s : State} (node : String) (h : SvcStep D N i s0 s) :
    SvcStep D N i s0 (updateAllServiceIndexesOfNode s i node) := by
  refine h.rowstep (tbl_updateAll s node) (catView_updateAll s i node) _ (row_updateAll s node N h.le) (fun hb => ?_)
  rw [List.any_eq_true] at hb
  obtain ⟨v, hv, hn⟩ := hb
  exact svcsNamed_ne_nil (List.mem_filter.mp hv).1 (by simpa using hn)

theorem svc_checkPrep {s s1 : State} {p : Bool} {hc hc1 : Chk} {md : Bool}
    (hr : checkPrep s i p hc = .ok (s1, hc1, md)) (h : SvcStep D N i s0 s) : SvcStep D N i s0 s1 := by
  obtain ⟨-, -, -, h0, h1, h2⟩ := checkPrep_spec hr
  cases md with
  | false => rw [h0 rfl]; exact h
  | true =>
    by_cases he : hc.svcId = ""
    · rw [h2 he rfl]; exact svc_updateAll hc.node h
    · obtain ⟨v, hv, -, hs⟩ := h1 he
      rw [hs rfl]
      exact svc_bump v.name ⟨v, (tfind_some hv).1, rfl⟩ h

/-! ### checks: insert and delete -/

/-- the `node_service` scan for (node, sid) -/
def chkSel (node sid : String) (c : Chk) : Bool := lc c.node == lc node && lc c.svcId == lc sid

theorem chksNodeSvc_eq (s : State) (node sid : String) : chksNodeSvc s node sid = s.chks.filter (chkSel node sid) := rfl

theorem chkSel_false {node sid : String} {c : Chk} (h : ¬ (lc c.node = lc node ∧ lc c.svcId = lc sid)) :
    chkSel node sid c = false := by
  unfold chkSel
  by_cases h1 : lc c.node = lc node <;> by_cases h2 : lc c.svcId = lc sid <;> simp_all

theorem chkSel_congr {node sid : String} {c c' : Chk} (h1 : lc c'.node = lc c.node) (h2 : lc c'.svcId = lc c.svcId) :
    chkSel node sid c' = chkSel node sid c := by
  unfold chkSel; rw [h1, h2]

/-- rows of the checks table with the key of `r` select like `r` (no check is rebound) -/
theorem chk_same_key {s : State} (h : CatDisc D s) {x : Chk} (hx : x ∈ s.chks) {n id sv : String} (hn : NF n)
    (hd : lc sv = D.svf (pk2 n id)) (hk : Chk.pk x = pk2 n id) : lc x.node = lc n ∧ lc x.svcId = lc sv := by
  refine ⟨(pk2_inj (h.nf_chk x hx) hn hk).1, ?_⟩
  rw [h.dchk x hx, hd, hk]

theorem chks_tupsert_same {s : State} (h : CatDisc D s) (r : Chk) (hn : NF r.node) (hd : lc r.svcId = D.svf (Chk.pk r))
    (node sid : String) (hno : ¬ (lc r.node = lc node ∧ lc r.svcId = lc sid)) :
    (tupsert Chk.pk strLt r s.chks).filter (chkSel node sid) = s.chks.filter (chkSel node sid) := by
  apply filter_tupsert_of_not_mem
  · exact chkSel_false hno
  · intro x hx hk
    obtain ⟨e1, e2⟩ := chk_same_key h hx hn hd hk
    rw [chkSel_congr e1 e2]; exact chkSel_false hno

theorem chks_terase_same {s : State} (h : CatDisc D s) {x : Chk} (hx : x ∈ s.chks) (node sid : String)
    (hno : ¬ (lc x.node = lc node ∧ lc x.svcId = lc sid)) :
    (terase Chk.pk (Chk.pk x) s.chks).filter (chkSel node sid) = s.chks.filter (chkSel node sid) := by
  apply filter_terase_of_not_mem
  intro y hy hk
  obtain ⟨e1, e2⟩ := chk_same_key h hy (h.nf_chk x hx) (h.dchk x hx) hk
  rw [chkSel_congr e1 e2]; exact chkSel_false hno

/-- a check on (node, sv) is shown by CheckServiceNodes(N) -/
def Touches (s : State) (N node sv : String) : Prop :=
  ∃ w ∈ svcsNamed s N, lc node = lc w.node ∧ (lc sv = lc "" ∨ lc sv = lc w.id)

/-- a check that touches no instance of N is in none of the scans of the view -/
theorem view_chks_of_not_touch {s s' : State} {node sv : String}
    (hn : s'.nodes = s.nodes) (hs : s'.svcs = s.svcs) (hno : ¬ Touches s N node sv)
    (hsame : ∀ n sid, ¬ (lc node = lc n ∧ lc sv = lc sid) →
      s'.chks.filter (chkSel n sid) = s.chks.filter (chkSel n sid)) : csnView s' N = csnView s N := by
  refine csnView_of (svcsNamed_congr hs N) (fun w hw => csnElt_eq (nodeFind_congr hn _) ?_ ?_)
  · rw [chksNodeSvc_eq, chksNodeSvc_eq]
    exact hsame _ _ (fun e => hno ⟨w, hw, e.1, Or.inl e.2⟩)
  · rw [chksNodeSvc_eq, chksNodeSvc_eq]
    exact hsame _ _ (fun e => hno ⟨w, hw, e.1, Or.inr e.2⟩)

theorem checkFinish_false (s : State) (p : Bool) (hc : Chk) : checkFinish s i p hc false = s := by
  unfold checkFinish; simp

theorem checkFinish_true (s : State) (p : Bool) (hc : Chk) :
    ∃ r : Chk, r.node = hc.node ∧ r.id = hc.id ∧ r.svcId = hc.svcId ∧
      (checkFinish s i p hc true).chks = tupsert Chk.pk strLt r s.chks := by
  refine ⟨if p then hc else { hc with modify := i }, ?_, ?_, ?_, ?_⟩
  · cases p <;> rfl
  · cases p <;> rfl
  · cases p <;> rfl
  · unfold checkFinish chkInsert; simp

theorem svc_checkFinish {sA s1 s : State} {p : Bool} {hc hc1 : Chk} {md : Bool}
    (hr : checkPrep sA i p hc = .ok (s1, hc1, md)) (hC : D.guard.Cp hc.node hc.id hc.svcId)
    (hcas : CasRel s1 s) (hkeep : SvcKeep i s1 s) (hA : SvcStep D N i s0 sA) (h : SvcStep D N i s0 s) :
    SvcStep D N i s0 (checkFinish s i p hc1 md) := by
  cases md with
  | false => rw [checkFinish_false]; exact h
  | true =>
    obtain ⟨e1, e2, e3, -, hsv, hnv⟩ := checkPrep_spec hr
    obtain ⟨r, r1, r2, r3, hchks⟩ := checkFinish_true (i := i) s p hc1
    obtain ⟨hn, hs⟩ := checkFinish_tables s i p hc1 true
    have hsA : s.svcs = sA.svcs := hcas.svcs.trans (catView_svcs (checkPrep_cat hr).1)
    have hrow : idxGet (checkFinish s i p hc1 true).index (svcKey N) = idxGet s.index (svcKey N) :=
      getl_checkFinish (offLit_svcKey N) s p hc1 true
    refine h.next (tbl_checkFinish s p hc1 true) (disc_checkFinish hr hC hcas h.disc) ?_
    by_cases ht : Touches s N hc.node hc.svcId
    · right; left
      obtain ⟨w, hw, hwn, hws⟩ := ht
      obtain ⟨hwm, hwN⟩ := mem_svcsNamed.mp hw
      refine ⟨by rw [svcsNamed_congr hs]; intro e; rw [e] at hw; simp at hw, ?_⟩
      rw [hrow]
      apply hkeep
      by_cases he : hc.svcId = ""
      · rw [hnv he rfl, row_updateAll _ _ _ hA.le, if_pos]
        rw [List.any_eq_true]
        refine ⟨w, List.mem_filter.mpr ⟨hsA ▸ hwm, by simpa using hwn.symm⟩, by simpa using hwN⟩
      · obtain ⟨v, hv, -, hs1⟩ := hsv he
        rw [hs1 rfl, row_bump _ _ _ hA.le, if_pos]
        have hws' : lc hc.svcId = lc w.id := by
          rcases hws with e | e
          · exact absurd (lc_eq_empty e) he
          · exact e
        obtain ⟨hvm, hvk⟩ := tfind_some hv
        have : lc v.name = lc w.name :=
          h.disc.name_eq (hsA ▸ hvm) hwm (hvk.trans (pk2_congr hwn hws'))
        exact this.trans hwN
    · left
      refine ⟨view_chks_of_not_touch hn hs ht (fun n sid hno => ?_), hrow⟩
      rw [hchks]
      have hrn : NF r.node := by rw [r1, e1]; exact hC.1
      have hrd : lc r.svcId = D.svf (Chk.pk r) := by
        have : Chk.pk r = pk2 hc.node hc.id := by unfold Chk.pk; rw [r1, r2, e1, e2]
        rw [this, r3, e3]; exact hC.2
      exact chks_tupsert_same h.disc r hrn hrd n sid (by rw [r1, r3, e1, e3]; exact hno)

theorem row_deleteCheckPre (s : State) (node id : String) (x : Chk) (hle : IdxLe i s.index) :
    idxGet (deleteCheckPre s i node id x).index (svcKey N) =
      if x.svcId ≠ "" then (if lc x.svcName = lc N then some i else idxGet s.index (svcKey N))
      else if (s.svcs.filter (fun v => lc v.node == lc x.node)).any (fun v => lc v.name == lc N) = true then some i
      else idxGet s.index (svcKey N) := by
  unfold deleteCheckPre
  simp only
  rw [row_max2 _ _ _ (by decide) (by decide)]
  show idxGet (if x.svcId ≠ "" then _ else _ : State).index (svcKey N) = _
  split
  · rw [row_max2 _ _ _ (by decide) (by decide)]; exact row_maxSvc s _ N hle
  · rw [row_max2 _ _ _ (by decide) (by decide)]; exact row_updateAll s _ N hle

theorem svc_deleteCheckPre {s : State} (node id : String) (x : Chk) (hx : chkFind s node id = some x)
    (h : SvcStep D N i s0 s) : SvcStep D N i s0 (deleteCheckPre s i node id x) := by
  obtain ⟨hxm, hxk⟩ := tfind_some hx
  obtain ⟨hn, hs, hc⟩ := cat3 (catView_deleteCheckPre s i node id x)
  have hd : CatDisc D (deleteCheckPre s i node id x) := (disc_closed D i).deleteCheckPre s node id x hx h.disc
  have hrow := row_deleteCheckPre (N := N) s node id x h.le
  refine h.next (tbl_deleteCheckPre s node id x) hd ?_
  have hview : ¬ Touches s N x.node x.svcId → csnView (deleteCheckPre s i node id x) N = csnView s N := by
    intro ht
    refine view_chks_of_not_touch hn hs ht (fun n sid hno => ?_)
    rw [hc, ← hxk]
    exact chks_terase_same h.disc hxm n sid hno
  by_cases he : x.svcId = ""
  · rw [if_neg (fun hne => hne he)] at hrow
    by_cases hany : (s.svcs.filter (fun v => lc v.node == lc x.node)).any (fun v => lc v.name == lc N) = true
    · right; left
      rw [if_pos hany] at hrow
      rw [List.any_eq_true] at hany
      obtain ⟨w, hw, hwN⟩ := hany
      refine ⟨?_, hrow⟩
      rw [svcsNamed_congr hs]
      exact svcsNamed_ne_nil (List.mem_filter.mp hw).1 (by simpa using hwN)
    · left
      rw [if_neg hany] at hrow
      refine ⟨hview (fun ht => hany ?_), hrow⟩
      obtain ⟨w, hw, hwn, -⟩ := ht
      obtain ⟨hwm, hwN⟩ := mem_svcsNamed.mp hw
      rw [List.any_eq_true]
      exact ⟨w, List.mem_filter.mpr ⟨hwm, by simpa using hwn.symm⟩, by simpa using hwN⟩
  · rw [if_pos he] at hrow
    obtain ⟨v, hv, hvn⟩ := h.disc.cname x hxm he
    obtain ⟨hvm, hvk⟩ := tfind_some hv
    by_cases hnm : lc x.svcName = lc N
    · right; left
      rw [if_pos hnm] at hrow
      refine ⟨?_, hrow⟩
      rw [svcsNamed_congr hs]
      exact svcsNamed_ne_nil hvm (hvn.symm.trans hnm)
    · left
      rw [if_neg hnm] at hrow
      refine ⟨hview (fun ht => hnm ?_), hrow⟩
      obtain ⟨w, hw, hwn, hws⟩ := ht
      obtain ⟨hwm, hwN⟩ := mem_svcsNamed.mp hw
      have hws' : lc x.svcId = lc w.id := by
        rcases hws with e | e
        · exact absurd (lc_eq_empty e) he
        · exact e
      have : lc v.name = lc w.name := h.disc.name_eq hvm hwm (hvk.trans (pk2_congr hwn hws'))
      exact hvn.trans (this.trans hwN)

/-! ### nodes -/

theorem row_nodeInsert (s : State) (nd : Node) (hm : nd.modify = i) (hle : IdxLe i s.index) :
    idxGet (nodeInsert s nd).index (svcKey N) =
      if (s.svcs.filter (fun v => lc v.node == lc nd.name)).any (fun v => lc v.name == lc N) = true then some i
      else idxGet s.index (svcKey N) := by
  subst hm
  unfold nodeInsert
  simp only
  have hle2 : IdxLe nd.modify ((({ s with nodes := tupsert Node.pk strLt nd s.nodes } : State).maxIdx2 "nodes" nd.modify).maxIdx
      ("peer.~:node." ++ nd.name) nd.modify).index := le_maxIdx (le_maxIdx2 hle _) _
  rw [row_updateAll _ _ _ hle2, srow_maxNode, row_max2 _ _ _ (by decide) (by decide)]
  rfl

theorem svc_nodeInsert {s : State} (nd : Node) (hm : nd.modify = i) (hN : NF nd.name) (h : SvcStep D N i s0 s) :
    SvcStep D N i s0 (nodeInsert s nd) := by
  obtain ⟨hn, hs, hc⟩ := cat3 (catView_nodeInsert s nd)
  have hd : CatDisc D (nodeInsert s nd) := (disc_closed D i).nodeInsert s nd hm hN h.disc
  have hrow := row_nodeInsert (N := N) s nd hm h.le
  refine h.next (tbl_nodeInsert s nd hm) hd ?_
  by_cases hany : (s.svcs.filter (fun v => lc v.node == lc nd.name)).any (fun v => lc v.name == lc N) = true
  · right; left
    rw [if_pos hany] at hrow
    rw [List.any_eq_true] at hany
    obtain ⟨w, hw, hwN⟩ := hany
    refine ⟨?_, hrow⟩
    rw [svcsNamed_congr hs]
    exact svcsNamed_ne_nil (List.mem_filter.mp hw).1 (by simpa using hwN)
  · left
    rw [if_neg hany] at hrow
    refine ⟨csnView_of (svcsNamed_congr hs N) (fun w hw => ?_), hrow⟩
    obtain ⟨hwm, hwN⟩ := mem_svcsNamed.mp hw
    have hne : lc w.node ≠ lc nd.name := by
      intro e; apply hany
      rw [List.any_eq_true]
      exact ⟨w, List.mem_filter.mpr ⟨hwm, by simpa using e⟩, by simpa using hwN⟩
    refine csnElt_eq ?_ (by unfold chksNodeSvc; rw [hc]) (by unfold chksNodeSvc; rw [hc])
    unfold nodeFind; rw [hn]
    exact tfind_tupsert_ne nd s.nodes hne

theorem svc_deleteNodePost {s : State} (name : String) (hN : NF name) (hnosvc : ∀ v ∈ s.svcs, lc v.node ≠ lc name)
    (hnochk : ∀ c ∈ s.chks, lc c.node ≠ lc name)
    (h : SvcStep D N i s0 s) : SvcStep D N i s0 (deleteNodePost s i name) := by
  obtain ⟨hn, hs, hc⟩ := cat3 (catView_deleteNodePost s i name)
  have hd : CatDisc D (deleteNodePost s i name) := (disc_closed D i).deleteNodePost s name hN hnosvc hnochk h.disc
  refine h.next (tbl_deleteNodePost s name) hd (Or.inl ⟨?_, ?_⟩)
  · refine csnView_of (svcsNamed_congr hs N) (fun w hw => ?_)
    obtain ⟨hwm, -⟩ := mem_svcsNamed.mp hw
    refine csnElt_eq ?_ (by unfold chksNodeSvc; rw [hc]) (by unfold chksNodeSvc; rw [hc])
    unfold nodeFind; rw [hn]
    exact tfind_terase_ne _ _ _ (hnosvc w hwm)
  · unfold deleteNodePost
    simp only
    rw [get_maxIdx_ne _ _ _ ((offLit_svcKey N).lit _ (by decide)),
      get_delIdx_ne _ ("peer.~:node." ++ name) (svcKey_ne_nodeKey N name)]
    exact row_max2 _ _ _ (by decide) (by decide)

/-! ### service instances -/

theorem row_svcInsert (s : State) (v : Svc) (hm : v.modify = i) (hle : IdxLe i s.index) :
    idxGet (svcInsert s v).index (svcKey N) = if lc v.name = lc N then some i else idxGet s.index (svcKey N) := by
  subst hm
  unfold svcInsert
  simp only
  rw [srow_maxNode, row_max2 _ _ _ (by decide) (by decide), row_max2 _ _ _ (by decide) (by decide),
    row_maxSvc _ _ _ (le_maxIdx2 (s := ({ s with svcs := tupsert Svc.pk strLt v s.svcs } : State)) hle _),
    row_max2 _ _ _ (by decide) (by decide)]

theorem svc_svcInsert {s : State} (v : Svc) (hm : v.modify = i) (hS : D.guard.Sp v.node v.id v.name) (hN : NF v.node)
    (h : SvcStep D N i s0 s) : SvcStep D N i s0 (svcInsert s v) := by
  obtain ⟨hn, hs, hc⟩ := cat3 (catView_svcInsert s v)
  have hd : CatDisc D (svcInsert s v) := disc_svcInsert v hS hN h.disc
  have hrow := row_svcInsert (N := N) s v hm h.le
  refine h.next (tbl_svcInsert s v hm) hd ?_
  by_cases hnm : lc v.name = lc N
  · right; left
    rw [if_pos hnm] at hrow
    refine ⟨svcsNamed_ne_nil (w := v) (by rw [hs]; exact self_mem_tupsert v s.svcs) hnm, hrow⟩
  · left
    rw [if_neg hnm] at hrow
    refine ⟨csnView_of ?_ (fun w _ => csnElt_eq (nodeFind_congr hn _) (by unfold chksNodeSvc; rw [hc])
      (by unfold chksNodeSvc; rw [hc])), hrow⟩
    unfold svcsNamed; rw [hs]
    apply filter_tupsert_of_not_mem
    · simpa using hnm
    · intro x hx hk
      have : lc x.name = lc v.name := by rw [h.disc.dsvc x hx, hk]; exact hS.symm
      simpa [this] using hnm

theorem dspMid_svcs (s : State) (node id : String) : (dspMid s i node id).svcs = terase Svc.pk (pk2 node id) s.svcs := by
  unfold dspMid; simp

theorem row_dspMid (s : State) (node id : String) : idxGet (dspMid s i node id).index (svcKey N) = idxGet s.index (svcKey N) := by
  unfold dspMid
  simp only
  rw [srow_maxNode, row_max2 _ _ _ (by decide) (by decide), row_max2 _ _ _ (by decide) (by decide),
    row_max2 _ _ _ (by decide) (by decide)]
  show idxGet (s.maxIdx2 "checks" i).index (svcKey N) = _
  exact row_max2 _ _ _ (by decide) (by decide)

theorem svc_deleteServicePost {s : State} (node id : String) (v : Svc) (hN : NF node) (hv : svcFind s node id = some v)
    (hno : ∀ c ∈ s.chks, ¬ (lc c.node = lc node ∧ lc c.svcId = lc id))
    (h : SvcStep D N i s0 s) : SvcStep D N i s0 (deleteServicePost s i node id v) := by
  obtain ⟨hvm, hvk⟩ := tfind_some hv
  obtain ⟨hn, hs, hc⟩ := cat3 (catView_deleteServicePost s i node id v)
  have hd : CatDisc D (deleteServicePost s i node id v) := disc_deleteServicePost node id v hN hno h.disc
  have T := tbl_deleteServicePost (i := i) s node id v
  have hmle : IdxLe i (dspMid s i node id).index := (tbl_dspMid s node id).ops.le h.le
  refine h.next T hd ?_
  by_cases hnm : lc v.name = lc N
  · right
    by_cases hany : (dspMid s i node id).svcs.any (fun w => lc w.name == lc v.name) = true
    · left
      constructor
      · rw [dspMid_svcs, List.any_eq_true] at hany
        obtain ⟨w, hw, hwn⟩ := hany
        exact svcsNamed_ne_nil (w := w) (by rw [hs]; exact hw) ((by simpa using hwn : lc w.name = lc v.name).trans hnm)
      · rw [deleteServicePost_eq, if_pos hany, row_maxSvc _ _ _ hmle, if_pos hnm]
    · right
      refine ⟨?_, ?_, ?_⟩
      · unfold svcsNamed
        rw [List.filter_eq_nil_iff, hs]
        intro w hw hwn
        apply hany
        rw [dspMid_svcs, List.any_eq_true]
        exact ⟨w, hw, by simpa using (by simpa using hwn : lc w.name = lc N).trans hnm.symm⟩
      · rw [deleteServicePost_eq, if_neg hany]
        show idxGet (idxMax ((dspMid s i node id).delIdx ("peer.~:service." ++ v.name)).index
          "peer.~:service_last_extinction" i) kSvcExt = some i
        rw [idxGet_idxMax, if_pos (show lc kSvcExt = lc "peer.~:service_last_extinction" from rfl)]
        have : IdxLe i ((dspMid s i node id).delIdx ("peer.~:service." ++ v.name)).index := idxLe_del hmle _
        rw [Nat.max_eq_right (this.val _)]
      · rw [deleteServicePost_eq, if_neg hany, get_maxIdx_ne _ _ _ ((offLit_svcKey N).lit _ (by decide)), row_delSvc,
          if_pos hnm]
  · left
    constructor
    · refine csnView_of ?_ (fun w _ => csnElt_eq (nodeFind_congr hn _) (by unfold chksNodeSvc; rw [hc])
        (by unfold chksNodeSvc; rw [hc]))
      unfold svcsNamed; rw [hs]
      apply filter_terase_of_not_mem
      intro x hx hk
      have : lc x.name = lc v.name := h.disc.name_eq hx hvm (hk.trans hvk.symm)
      simpa [this] using hnm
    · rw [deleteServicePost_eq]
      split
      · rw [row_maxSvc _ _ _ hmle, if_neg hnm, row_dspMid]
      · rw [get_maxIdx_ne _ _ _ ((offLit_svcKey N).lit _ (by decide)), row_delSvc, if_neg hnm, row_dspMid]

/-! ### the ladder instance -/

theorem svc_closed (D : Disc) (N : String) (i : Nat) (s0 : State) : PrimClosed i D.guard (SvcStep D N i s0) where
  kvInsert s e he h := h.frame (tbl_kvInsert s e he) rfl (getl_kvInsert (offLit_svcKey N) s e)
  kvDelete s s' k hr h := h.frame (tbl_kvDelete hr) (catView_kvDeleteTxn hr) (getl_kvDelete (offLit_svcKey N) hr)
  kvDeleteTree s p _ h := h.frame (tbl_kvDeleteTree s p) (catView_kvDeleteTreeTxn s i p) (getl_kvDeleteTree (offLit_svcKey N) s p)
  removeSessionRow s id h := by
    refine h.next (tbl_removeSessionRow s id) (h.disc.congr rfl rfl rfl) (Or.inl ⟨csnView_congr N rfl rfl rfl, ?_⟩)
    exact getl_removeSessionRow (offLit_svcKey N) s id
  invalidateKeys s sess h := h.frame (tbl_invalidateKeys s sess) (catView_invalidateKeys s i sess)
    (getl_invalidateKeys (offLit_svcKey N) s sess)
  dropSessionRefs s id h := h.frame (tbl_dropSessionRefs s id) (catView_dropSessionRefs s i id)
    (getl_dropSessionRefs (offLit_svcKey N) s id)
  checkPrep s s1 p hc hc1 md hr _ h := svc_checkPrep hr h
  checkFinish sA s1 s p hc hc1 md hr hC hcas hkeep hA h := svc_checkFinish hr hC hcas hkeep hA h
  chkRows s h c hc := ⟨h.disc.nf_chk c hc, h.disc.dchk c hc⟩
  insertSession s x h := by
    refine h.next (tbl_insertSession s x) (h.disc.congr rfl rfl rfl) (Or.inl ⟨csnView_congr N rfl rfl rfl, ?_⟩)
    exact getl_insertSession (offLit_svcKey N) s x
  pqSet s s' id sess hr h := h.frame (tbl_pqSet hr) (catView_pqSet hr) (getl_pqSet (offLit_svcKey N) hr)
  pqDelete s id h := h.frame (tbl_pqDelete s id) (catView_pqDelete s i id) (getl_pqDelete (offLit_svcKey N) s id)
  nodeInsert s nd hm hN h := svc_nodeInsert nd hm hN h
  nodeNames s h := h.disc.nf_node
  deleteCheckPre s node id x hx h := svc_deleteCheckPre node id x hx h
  deleteServicePost s node id v hN hv hno h := svc_deleteServicePost node id v hN hv hno h
  deleteNodePost s name hN h1 h2 h := svc_deleteNodePost name hN h1 h2 h
  bumpServiceIdx s name hctx h := svc_bump name hctx h
  svcInsert s v hm hS hN _ h := svc_svcInsert v hm hS hN h

/-- every command that follows the discipline -/
theorem svc_apply {s : State} (c : Cmd) (hG : c.ok D.guard) (h : SvcStep D N i s0 s) : SvcStep D N i s0 (apply s i c).1 := by
  by_cases hc : ∀ u, c ≠ .reap u
  · exact pc_apply (svc_closed D N i s0) c hc hG h
  · have : ∃ u, c = .reap u := by
      cases c <;> simp at hc ⊢
    obtain ⟨u, rfl⟩ := this
    exact h.next (tbl_apply s i (.reap u)) (h.disc.congr rfl rfl rfl) (Or.inl ⟨csnView_congr N rfl rfl rfl, rfl⟩)

theorem SvcStep.start {s : State} (hle : IdxLe i s.index) (hd : CatDisc D s) : SvcStep D N i s s :=
  ⟨hle, hd, Or.inl ⟨rfl, rfl⟩⟩

end CV.Store
