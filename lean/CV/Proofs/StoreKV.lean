/-
Helper lemmas for C03: the abstraction of the KV table to the sequential map of CV.Store.KvSpec
commutes with every table operation, and `kvsSetTxn` is `mput`.
-/
import CV.Proofs.StoreBasic
import CV.Store.KvSpec
namespace CV.Store
open CV

def toEnt (e : KV) : Ent := ⟨e.val, e.flags, e.lockIdx, e.create, e.modify, e.session⟩
def absKV (l : List KV) : KMap := l.map (fun e => (e.key, toEnt e))
/-- the abstraction function: the KV table read as a sequential map -/
def abs (s : State) : KMap := absKV s.kvs

theorem tfind_absKV (k : Key) (l : List KV) :
    tfind Prod.fst k (absKV l) = (tfind KV.pk k l).map (fun e => (e.key, toEnt e)) := by
  unfold tfind absKV
  induction l with
  | nil => rfl
  | cons x xs ih =>
    simp only [List.map_cons, List.find?_cons, KV.pk]
    split
    · simp
    · exact ih

theorem mget_abs (k : Key) (l : List KV) : mget (absKV l) k = (tfind KV.pk k l).map toEnt := by
  unfold mget; rw [tfind_absKV]; cases tfind KV.pk k l <;> rfl

theorem absKV_tupsert (e : KV) (l : List KV) :
    absKV (tupsert KV.pk keyLt e l) = tupsert Prod.fst keyLt (e.key, toEnt e) (absKV l) := by
  induction l with
  | nil => rfl
  | cons x xs ih =>
    simp only [absKV] at ih
    by_cases h1 : x.key = e.key
    · simp [tupsert, absKV, KV.pk, h1]
    · by_cases h2 : keyLt e.key x.key = true
      · simp [tupsert, absKV, KV.pk, h1, h2]
      · simp [tupsert, absKV, KV.pk, h1, h2, ih]

theorem absKV_terase (k : Key) (l : List KV) : absKV (terase KV.pk k l) = terase Prod.fst k (absKV l) := by
  unfold terase absKV
  induction l with
  | nil => rfl
  | cons x xs ih =>
    simp only [KV.pk] at ih ⊢
    by_cases h : x.key = k
    · simp [List.filter_cons, h, ih]
    · simp [List.filter_cons, h, ih]

theorem absKV_filter (p : Key → Bool) (l : List KV) :
    absKV (l.filter (fun e => p e.key)) = (absKV l).filter (fun x => p x.1) := by
  unfold absKV
  induction l with
  | nil => rfl
  | cons x xs ih =>
    simp only [List.filter_cons, List.map_cons]
    split <;> simp [ih]

theorem holderOf_abs (s : State) (k : Key) :
    holderOf (abs s) k = (match kvFind s k with | some x => x.session | none => "") := by
  unfold holderOf abs kvFind
  rw [mget_abs]
  cases tfind KV.pk k s.kvs <;> rfl

theorem abs_kvInsert (s : State) (e : KV) :
    abs (kvInsert s e) = tupsert Prod.fst keyLt (e.key, toEnt e) (abs s) := by
  unfold abs kvInsert; exact absKV_tupsert e s.kvs

/-- `kvsSetTxn` is the spec's `mput` -/
theorem kvSetTxn_abs {s s' : State} {idx : Nat} {e w : KV} {upd : Bool}
    (hr : kvSetTxn s idx e upd = .ok (s', w)) :
    abs s' = mput (abs s) e.key e.val e.flags e.lockIdx (if upd then e.session else holderOf (abs s) e.key) idx := by
  rw [holderOf_abs]
  unfold mput
  rw [show mget (abs s) e.key = (kvFind s e.key).map toEnt from mget_abs _ _]
  unfold kvSetTxn at hr
  split at hr
  · simp at hr
  · cases hf : kvFind s e.key with
    | none =>
      simp only [hf] at hr ⊢
      cases upd <;> simp at hr <;> obtain ⟨rfl, -⟩ := hr <;> simp [abs_kvInsert, toEnt]
    | some x =>
      have hk : x.key = e.key := (tfind_some hf).2
      simp only [hf, Option.map_some] at hr ⊢
      cases upd <;> simp only [Bool.false_eq_true, if_false, if_true] at hr ⊢
      all_goals (
        split at hr
        · next heq =>
          simp at hr; obtain ⟨rfl, -⟩ := hr
          simp [kvEqual] at heq
          simp [toEnt, heq])
      all_goals (
        next hne =>
          simp at hr; obtain ⟨rfl, -⟩ := hr
          simp [kvEqual, hk] at hne
          rw [abs_kvInsert]
          simp only [toEnt]
          refine (if_neg ?_).symm
          intro hc
          first | exact hne hc.2.2.1 hc.2.1 hc.1 | exact hne hc.2.2.1 hc.2.1 hc.1 hc.2.2.2)

/-! ### prefixes -/

/-- the prefix does not end in a NUL byte -/
def noNulEnd (p : Key) : Bool := p.getLast? != some 0

/-- for a prefix that does not end in NUL the index-key scan is the plain prefix test -/
theorem prefixMatch_eq (p k : Key) (h : noNulEnd p = true) : prefixMatch p k = p.isPrefixOf k := by
  unfold prefixMatch
  rw [Bool.eq_iff_iff, List.isPrefixOf_iff_prefix, List.isPrefixOf_iff_prefix, List.prefix_concat_iff]
  constructor
  · rintro (h1 | h1)
    · exfalso
      have : p.getLast? = some 0 := by rw [h1]; exact List.getLast?_concat
      simp [noNulEnd, this] at h
    · exact h1
  · exact Or.inr

theorem filter_eq_self_of_all {α : Type} (p : α → Bool) (l : List α) (h : l.any (fun x => !p x) = false) :
    l.filter p = l := by
  rw [List.filter_eq_self]
  intro a ha
  have := List.any_eq_false.mp h a ha
  simpa using this

theorem terase_absent {α κ : Type} [DecidableEq κ] {key : α → κ} {k : κ} {l : List α} (h : tfind key k l = none) :
    terase key k l = l := by
  unfold terase
  rw [List.filter_eq_self]
  intro a ha
  unfold tfind at h
  rw [List.find?_eq_none] at h
  simpa using h a ha

/-! ### every KV command refines the sequential map -/

def kvOpOf : Cmd → Option KvOp
  | .kvSet e => some (.set e.key e.val e.flags e.lockIdx)
  | .kvCas e => some (.cas e.key e.val e.flags e.lockIdx e.modify)
  | .kvDelete k => some (.delete k)
  | .kvDeleteCas k c => some (.deleteCas k c)
  | .kvDeleteTree p => some (.deleteTree p)
  | .kvLock e => some (.lock e.key e.val e.flags e.session)
  | .kvUnlock e => some (.unlock e.key e.val e.flags e.session)
  | _ => none

def resOf : Result → KvRes
  | .ok => .ok
  | .bool b => .bool b
  | _ => .err

theorem mget_abs' (s : State) (k : Key) : mget (abs s) k = (kvFind s k).map toEnt := mget_abs k s.kvs

theorem refines_set (s : State) (idx : Nat) (e : KV) :
    abs (apply s idx (.kvSet e)).1 = (specStep (abs s) (sessionLive s) idx (.set e.key e.val e.flags e.lockIdx)).1 ∧
    resOf (apply s idx (.kvSet e)).2 = (specStep (abs s) (sessionLive s) idx (.set e.key e.val e.flags e.lockIdx)).2 := by
  simp only [apply, specStep]
  by_cases hk : e.key = []
  · simp [kvSetTxn, hk, liftS, Except.map, resOf]
  · obtain ⟨s', w, hr⟩ := kvSetTxn_ok (s := s) (idx := idx) (e := e) (upd := false) hk
    have := kvSetTxn_abs hr
    simp only [hr, hk, if_false, liftS, Except.map, resOf]
    simpa using this

theorem refines_cas (s : State) (idx : Nat) (e : KV) :
    abs (apply s idx (.kvCas e)).1 = (specStep (abs s) (sessionLive s) idx (.cas e.key e.val e.flags e.lockIdx e.modify)).1 ∧
    resOf (apply s idx (.kvCas e)).2 = (specStep (abs s) (sessionLive s) idx (.cas e.key e.val e.flags e.lockIdx e.modify)).2 := by
  simp only [apply, specStep, kvSetCasTxn]
  by_cases hk : e.key = []
  · simp [hk, liftB, Except.map, resOf]
  · obtain ⟨s', w, hr⟩ := kvSetTxn_ok (s := s) (idx := idx) (e := e) (upd := false) hk
    have habs := kvSetTxn_abs hr
    rw [holderOf_abs] at habs
    simp only [hk, if_false, mget_abs']
    cases hf : kvFind s e.key with
    | none =>
      simp only [hf] at habs
      by_cases h0 : e.modify = 0
      · simp [h0, hr, liftB, Except.map, resOf]
        simpa using habs
      · simp [h0, liftB, Except.map, resOf]
    | some x =>
      simp only [hf] at habs
      by_cases h0 : e.modify = 0
      · simp [h0, liftB, Except.map, resOf]
      · by_cases h1 : e.modify = x.modify
        · simp [h0, h1, hr, liftB, Except.map, resOf, toEnt]
          have h0' : ¬ x.modify = 0 := h1 ▸ h0
          simp [h0']
          simpa [toEnt] using habs
        · simp [h0, h1, liftB, Except.map, resOf, toEnt]

theorem refines_delete (s : State) (idx : Nat) (k : Key) :
    abs (apply s idx (.kvDelete k)).1 = (specStep (abs s) (sessionLive s) idx (.delete k)).1 ∧
    resOf (apply s idx (.kvDelete k)).2 = (specStep (abs s) (sessionLive s) idx (.delete k)).2 := by
  simp only [apply, specStep, kvDeleteTxn]
  by_cases hk : k = []
  · simp [hk, liftS, resOf]
  · simp only [hk, if_false]
    cases hf : kvFind s k with
    | none =>
      simp only [liftS, resOf, and_true]
      have : tfind Prod.fst k (abs s) = none := by
        unfold abs; rw [tfind_absKV]; unfold kvFind at hf; rw [hf]; rfl
      rw [terase_absent this]
    | some x =>
      simp only [liftS, resOf, and_true]
      exact absKV_terase k s.kvs

theorem refines_deleteCas (s : State) (idx : Nat) (k : Key) (c : Nat) :
    abs (apply s idx (.kvDeleteCas k c)).1 = (specStep (abs s) (sessionLive s) idx (.deleteCas k c)).1 ∧
    resOf (apply s idx (.kvDeleteCas k c)).2 = (specStep (abs s) (sessionLive s) idx (.deleteCas k c)).2 := by
  simp only [apply, specStep, kvDeleteCasTxn, kvDeleteTxn]
  by_cases hk : k = []
  · simp [hk, liftB, resOf]
  · simp only [hk, if_false, mget_abs']
    cases hf : kvFind s k with
    | none => simp [liftB, resOf]
    | some x =>
      by_cases h1 : x.modify = c
      · simp only [h1, Option.map_some, toEnt, ne_eq, not_true_eq_false, if_false, liftB, resOf, if_true, and_true]
        exact absKV_terase k s.kvs
      · simp [h1, liftB, resOf, toEnt]

theorem refines_deleteTree (s : State) (idx : Nat) (p : Key) (hp : noNulEnd p = true) :
    abs (apply s idx (.kvDeleteTree p)).1 = (specStep (abs s) (sessionLive s) idx (.deleteTree p)).1 ∧
    resOf (apply s idx (.kvDeleteTree p)).2 = (specStep (abs s) (sessionLive s) idx (.deleteTree p)).2 := by
  simp only [apply, specStep, resOf, and_true]
  have hpm : (fun (e : KV) => !prefixMatch p e.key) = (fun e => !p.isPrefixOf e.key) := by
    funext e; rw [prefixMatch_eq p e.key hp]
  unfold kvDeleteTreeTxn
  split
  · have : abs { s with kvs := s.kvs.filter (fun e => !prefixMatch p e.key) } =
        (abs s).filter (fun x => !p.isPrefixOf x.1) := by
      rw [hpm]; exact absKV_filter (fun k => !p.isPrefixOf k) s.kvs
    split <;> exact this
  · next hany =>
    have hany' : s.kvs.any (fun e => prefixMatch p e.key) = false := by simpa using hany
    have : (abs s).filter (fun x => !p.isPrefixOf x.1) = abs s := by
      unfold abs
      rw [← absKV_filter (fun k => !p.isPrefixOf k) s.kvs, ← hpm]
      rw [filter_eq_self_of_all]
      simpa using hany'
    exact this.symm

theorem refines_lock (s : State) (idx : Nat) (e : KV) :
    abs (apply s idx (.kvLock e)).1 = (specStep (abs s) (sessionLive s) idx (.lock e.key e.val e.flags e.session)).1 ∧
    resOf (apply s idx (.kvLock e)).2 = (specStep (abs s) (sessionLive s) idx (.lock e.key e.val e.flags e.session)).2 := by
  simp only [apply, specStep, kvLockTxn, lockDecision]
  by_cases h1 : e.session = ""
  · simp [h1, liftB, Except.map, resOf]
  by_cases h2 : sessionLive s e.session = true
  · by_cases h3 : e.key = []
    · simp [h1, h2, h3, liftB, Except.map, resOf]
    · simp only [h1, h2, h3, if_false, mget_abs', Bool.not_true, Bool.false_eq_true, or_self]
      cases hf : kvFind s e.key with
      | none =>
        obtain ⟨s', w, hr⟩ := kvSetTxn_ok (s := s) (idx := idx) (e := { e with create := idx, lockIdx := 1, modify := idx }) (upd := true) h3
        have habs := kvSetTxn_abs hr
        simp only [hr, liftB, Except.map, resOf, Option.map_none]
        simpa using habs
      | some x =>
        by_cases h4 : x.session = e.session
        · obtain ⟨s', w, hr⟩ := kvSetTxn_ok (s := s) (idx := idx)
            (e := { e with create := x.create, lockIdx := x.lockIdx, modify := idx }) (upd := true) h3
          have habs := kvSetTxn_abs hr
          simp only [h4, if_true, hr, liftB, Except.map, resOf, Option.map_some, toEnt]
          simpa using habs
        · by_cases h5 : x.session = ""
          · obtain ⟨s', w, hr⟩ := kvSetTxn_ok (s := s) (idx := idx)
              (e := { e with create := x.create, lockIdx := x.lockIdx + 1, modify := idx }) (upd := true) h3
            have habs := kvSetTxn_abs hr
            have h5' : ¬ (x.session ≠ "") := by simp [h5]
            simp only [h4, h5', if_false, hr, liftB, Except.map, resOf, Option.map_some, toEnt]
            simpa using habs
          · simp [h4, h5, liftB, Except.map, resOf, toEnt]
  · simp [h1, h2, liftB, Except.map, resOf]

theorem refines_unlock (s : State) (idx : Nat) (e : KV) :
    abs (apply s idx (.kvUnlock e)).1 = (specStep (abs s) (sessionLive s) idx (.unlock e.key e.val e.flags e.session)).1 ∧
    resOf (apply s idx (.kvUnlock e)).2 = (specStep (abs s) (sessionLive s) idx (.unlock e.key e.val e.flags e.session)).2 := by
  simp only [apply, specStep, kvUnlockTxn, unlockDecision]
  by_cases h1 : e.session = ""
  · simp [h1, liftB, Except.map, resOf]
  by_cases h3 : e.key = []
  · simp [h1, h3, liftB, Except.map, resOf]
  simp only [h1, h3, if_false, mget_abs', or_self]
  cases hf : kvFind s e.key with
  | none => simp [liftB, Except.map, resOf]
  | some x =>
    by_cases h4 : x.session = e.session
    · obtain ⟨s', w, hr⟩ := kvSetTxn_ok (s := s) (idx := idx)
        (e := { e with session := "", lockIdx := x.lockIdx, create := x.create, modify := idx }) (upd := true) h3
      have habs := kvSetTxn_abs hr
      simp only [h4, ne_eq, not_true_eq_false, if_false, hr, liftB, Except.map, resOf, Option.map_some, toEnt]
      simpa using habs
    · simp [h4, liftB, Except.map, resOf, toEnt]

/-! ### KV commands do not touch the sessions table -/

theorem kvSetTxn_sessions {s s' : State} {idx : Nat} {e w : KV} {upd : Bool}
    (hr : kvSetTxn s idx e upd = .ok (s', w)) : s'.sessions = s.sessions := by
  cases upd <;> simp only [kvSetTxn] at hr <;> repeat' (split at hr)
  all_goals (try simp at hr)
  all_goals (obtain ⟨rfl, -⟩ := hr)
  all_goals rfl

theorem kvDeleteTxn_sessions {s s' : State} {idx : Nat} {k : Key}
    (hr : kvDeleteTxn s idx k = .ok s') : s'.sessions = s.sessions := by
  simp only [kvDeleteTxn] at hr
  repeat' (split at hr)
  all_goals (try simp at hr)
  all_goals (subst hr)
  all_goals rfl

theorem kvDeleteCasTxn_sessions {s s' : State} {idx c : Nat} {k : Key} {b : Bool}
    (hr : kvDeleteCasTxn s idx c k = .ok (s', b)) : s'.sessions = s.sessions := by
  simp only [kvDeleteCasTxn] at hr
  repeat' (split at hr)
  all_goals (try simp at hr)
  all_goals (obtain ⟨rfl, -⟩ := hr)
  all_goals (first | rfl | exact kvDeleteTxn_sessions (by assumption))

theorem kv_cmd_sessions (s : State) (idx : Nat) (c : Cmd) (op : KvOp) (h : kvOpOf c = some op) :
    (apply s idx c).1.sessions = s.sessions := by
  cases c <;> simp only [kvOpOf] at h <;> try (cases h)
  · -- set
    rename_i e
    simp only [apply]
    cases hq : kvSetTxn s idx e false with
    | error x => simp [liftS, Except.map]
    | ok p => obtain ⟨s1, w⟩ := p; simp [liftS, Except.map]; exact kvSetTxn_sessions hq
  · -- cas
    rename_i e
    simp only [apply, kvSetCasTxn]
    repeat' split
    all_goals (simp [liftB, Except.map])
    all_goals (first | rfl | exact kvSetTxn_sessions (by assumption) | (subst_vars; rfl) | (split <;> first | rfl | exact kvSetTxn_sessions (by assumption)))
  · -- delete
    rename_i k
    simp only [apply, kvDeleteTxn]
    repeat' split
    all_goals (simp [liftS, tombInsert])
  · -- delete-cas
    rename_i k c
    simp only [apply]
    cases hq : kvDeleteCasTxn s idx c k with
    | error x => simp [liftB]
    | ok p =>
      obtain ⟨s1, b⟩ := p
      simp only [liftB]
      split
      · exact kvDeleteCasTxn_sessions hq
      · rfl
  · -- delete-tree
    rename_i p
    simp only [apply, kvDeleteTreeTxn]
    repeat' split
    all_goals (simp [tombInsert])
  · -- lock
    rename_i e
    simp only [apply, kvLockTxn]
    repeat' split
    all_goals (simp [liftB, Except.map])
    all_goals (first | rfl | exact kvSetTxn_sessions (by assumption) | (subst_vars; rfl) | (split <;> first | rfl | exact kvSetTxn_sessions (by assumption)))
  · -- unlock
    rename_i e
    simp only [apply, kvUnlockTxn]
    repeat' split
    all_goals (simp [liftB, Except.map])
    all_goals (first | rfl | exact kvSetTxn_sessions (by assumption) | (subst_vars; rfl) | (split <;> first | rfl | exact kvSetTxn_sessions (by assumption)))

theorem sessionLive_congr {s s' : State} (h : s'.sessions = s.sessions) : sessionLive s' = sessionLive s := by
  funext id; simp [sessionLive, sessFind, h]

/-! ### shape of a `kvsSetTxn` write, lookups after KV writes -/

theorem kvFind_kvInsert_self (s : State) (w : KV) : kvFind (kvInsert s w) w.key = some w := by
  unfold kvFind kvInsert; exact tfind_tupsert_self (key := KV.pk) w s.kvs

theorem kvFind_kvInsert_ne (s : State) (w : KV) (k : Key) (h : k ≠ w.key) : kvFind (kvInsert s w) k = kvFind s k := by
  unfold kvFind kvInsert; exact tfind_tupsert_ne (key := KV.pk) w s.kvs h

/-- what `kvsSetTxn` leaves under the key it wrote, and that it touches no other key -/
theorem kvSetTxn_find {s s' : State} {idx : Nat} {e w : KV} {upd : Bool}
    (hr : kvSetTxn s idx e upd = .ok (s', w)) :
    (∃ y, kvFind s' e.key = some y ∧ y.val = e.val ∧ y.flags = e.flags ∧ y.lockIdx = e.lockIdx ∧
        (upd = true → y.session = e.session) ∧
        (∀ x, kvFind s e.key = some x → y.create = x.create ∧ (upd = false → y.session = x.session) ∧
              ((x.val = e.val ∧ x.flags = e.flags ∧ x.lockIdx = e.lockIdx ∧ y.session = x.session) → y.modify = x.modify)) ∧
        (kvFind s e.key = none → y.create = idx ∧ y.modify = idx ∧ (upd = false → y.session = ""))) ∧
    (∀ k, k ≠ e.key → kvFind s' k = kvFind s k) := by
  by_cases hkey : e.key = []
  · simp [kvSetTxn, hkey] at hr
  cases hf : kvFind s e.key with
  | none =>
    cases upd <;> simp [kvSetTxn, hf, hkey] at hr <;> obtain ⟨rfl, -⟩ := hr
    all_goals (
      refine ⟨⟨_, kvFind_kvInsert_self s _, ?_⟩, fun k hk => kvFind_kvInsert_ne s _ k hk⟩
      simp)
  | some x =>
    have hk : x.key = e.key := (tfind_some hf).2
    cases upd
    · -- keep the stored session
      simp only [kvSetTxn, hf, hkey, Bool.false_eq_true, if_false] at hr
      split at hr
      · next heq =>
        simp at hr; obtain ⟨rfl, -⟩ := hr
        simp [kvEqual] at heq
        exact ⟨⟨x, hf, by simp [heq]⟩, fun k _ => rfl⟩
      · next hne =>
        simp at hr; obtain ⟨rfl, -⟩ := hr
        simp [kvEqual, hk] at hne
        refine ⟨⟨_, kvFind_kvInsert_self s _, ?_⟩, fun k hk => kvFind_kvInsert_ne s _ k hk⟩
        simp
        intro h1 h2 h3
        exact (hne h3 h2 h1).elim
    · -- take the session of the request
      simp only [kvSetTxn, hf, hkey, if_false, if_true] at hr
      split at hr
      · next heq =>
        simp at hr; obtain ⟨rfl, -⟩ := hr
        simp [kvEqual] at heq
        exact ⟨⟨x, hf, by simp [heq]⟩, fun k _ => rfl⟩
      · next hne =>
        simp at hr; obtain ⟨rfl, -⟩ := hr
        simp [kvEqual, hk] at hne
        refine ⟨⟨_, kvFind_kvInsert_self s _, ?_⟩, fun k hk => kvFind_kvInsert_ne s _ k hk⟩
        simp
        intro h1 h2 h3 h4
        exact absurd h4.symm (hne h3 h2 h1)

/-! ### a relation kept by the three KV write primitives is kept by every KV command -/

theorem kvDeleteCasTxn_rel (R : State → State → Prop) (hrefl : ∀ s, R s s)
    (hdel : ∀ s s' idx k, kvDeleteTxn s idx k = .ok s' → R s s')
    {s s' : State} {idx c : Nat} {k : Key} {b : Bool}
    (hr : kvDeleteCasTxn s idx c k = .ok (s', b)) : R s s' := by
  simp only [kvDeleteCasTxn] at hr
  repeat' (split at hr)
  all_goals (try simp at hr)
  all_goals (obtain ⟨rfl, -⟩ := hr)
  all_goals (first | exact hrefl _ | exact hdel _ _ _ _ (by assumption))

theorem kvSetCasTxn_rel (R : State → State → Prop) (hrefl : ∀ s, R s s)
    (hset : ∀ s s' idx e w upd, kvSetTxn s idx e upd = .ok (s', w) → R s s')
    {s s' : State} {idx : Nat} {e w : KV} {b : Bool}
    (hr : kvSetCasTxn s idx e = .ok (s', b, w)) : R s s' := by
  simp only [kvSetCasTxn] at hr
  repeat' (split at hr)
  all_goals (try simp at hr)
  all_goals (obtain ⟨rfl, -⟩ := hr)
  all_goals (first | exact hrefl _ | exact hset _ _ _ _ _ _ (by assumption))

theorem kvLockTxn_rel (R : State → State → Prop) (hrefl : ∀ s, R s s)
    (hset : ∀ s s' idx e w upd, kvSetTxn s idx e upd = .ok (s', w) → R s s')
    {s s' : State} {idx : Nat} {e w : KV} {b : Bool}
    (hr : kvLockTxn s idx e = .ok (s', b, w)) : R s s' := by
  simp only [kvLockTxn] at hr
  repeat' (split at hr)
  all_goals (try simp at hr)
  all_goals (obtain ⟨rfl, -⟩ := hr)
  all_goals (first | exact hrefl _ | exact hset _ _ _ _ _ _ (by assumption))

theorem kvUnlockTxn_rel (R : State → State → Prop) (hrefl : ∀ s, R s s)
    (hset : ∀ s s' idx e w upd, kvSetTxn s idx e upd = .ok (s', w) → R s s')
    {s s' : State} {idx : Nat} {e w : KV} {b : Bool}
    (hr : kvUnlockTxn s idx e = .ok (s', b, w)) : R s s' := by
  simp only [kvUnlockTxn] at hr
  repeat' (split at hr)
  all_goals (try simp at hr)
  all_goals (obtain ⟨rfl, -⟩ := hr)
  all_goals (first | exact hrefl _ | exact hset _ _ _ _ _ _ (by assumption))

theorem rel_liftS {R : State → State → Prop} (hrefl : ∀ s, R s s) {s : State} {r : Except Err State}
    (hr : ∀ s', r = .ok s' → R s s') : R s (liftS s r).1 := by
  cases r with
  | ok s' => exact hr s' rfl
  | error e => exact hrefl s

theorem rel_liftB {R : State → State → Prop} (hrefl : ∀ s, R s s) {s : State} {r : Except Err (State × Bool)}
    (hr : ∀ s' b, r = .ok (s', b) → R s s') : R s (liftB s r).1 := by
  cases r with
  | ok p => obtain ⟨s', b⟩ := p
            simp only [liftB]
            split
            · exact hr s' b rfl
            · exact hrefl s
  | error e => exact hrefl s

theorem kv_cmd_rel (R : State → State → Prop) (hrefl : ∀ s, R s s)
    (hset : ∀ s s' idx e w upd, kvSetTxn s idx e upd = .ok (s', w) → R s s')
    (hdel : ∀ s s' idx k, kvDeleteTxn s idx k = .ok s' → R s s')
    (htree : ∀ s idx p, R s (kvDeleteTreeTxn s idx p))
    (s : State) (idx : Nat) (c : Cmd) (op : KvOp) (h : kvOpOf c = some op) : R s (apply s idx c).1 := by
  cases c <;> simp only [kvOpOf] at h <;> try (cases h)
  · rename_i e
    apply rel_liftS hrefl
    intro s' hr
    cases hq : kvSetTxn s idx e false with
    | error x => simp [hq, Except.map] at hr
    | ok p => obtain ⟨s1, w⟩ := p
              simp [hq, Except.map] at hr
              exact hr ▸ hset _ _ _ _ _ _ hq
  · rename_i e
    apply rel_liftB hrefl
    intro s' b hr
    cases hq : kvSetCasTxn s idx e with
    | error x => simp [hq, Except.map] at hr
    | ok p => obtain ⟨s1, b1, w⟩ := p
              simp [hq, Except.map] at hr
              exact hr.1 ▸ kvSetCasTxn_rel R hrefl hset hq
  · exact rel_liftS hrefl (fun s' hr => hdel _ _ _ _ hr)
  · exact rel_liftB hrefl (fun s' b hr => kvDeleteCasTxn_rel R hrefl hdel hr)
  · exact htree _ _ _
  · rename_i e
    apply rel_liftB hrefl
    intro s' b hr
    cases hq : kvLockTxn s idx e with
    | error x => simp [hq, Except.map] at hr
    | ok p => obtain ⟨s1, b1, w⟩ := p
              simp [hq, Except.map] at hr
              exact hr.1 ▸ kvLockTxn_rel R hrefl hset hq
  · rename_i e
    apply rel_liftB hrefl
    intro s' b hr
    cases hq : kvUnlockTxn s idx e with
    | error x => simp [hq, Except.map] at hr
    | ok p => obtain ⟨s1, b1, w⟩ := p
              simp [hq, Except.map] at hr
              exact hr.1 ▸ kvUnlockTxn_rel R hrefl hset hq

/-! ### the same, for relations that mention the command's index -/

theorem kvDeleteCasTxn_relI (R : Nat → State → State → Prop) (hrefl : ∀ i s, R i s s)
    (hdel : ∀ s s' idx k, kvDeleteTxn s idx k = .ok s' → R idx s s')
    {s s' : State} {idx c : Nat} {k : Key} {b : Bool}
    (hr : kvDeleteCasTxn s idx c k = .ok (s', b)) : R idx s s' := by
  simp only [kvDeleteCasTxn] at hr
  repeat' (split at hr)
  all_goals (try simp at hr)
  all_goals (obtain ⟨rfl, -⟩ := hr)
  all_goals (first | exact hrefl _ _ | exact hdel _ _ _ _ (by assumption))

theorem kvSetCasTxn_relI (R : Nat → State → State → Prop) (hrefl : ∀ i s, R i s s)
    (hset : ∀ s s' idx e w upd, kvSetTxn s idx e upd = .ok (s', w) → R idx s s')
    {s s' : State} {idx : Nat} {e w : KV} {b : Bool}
    (hr : kvSetCasTxn s idx e = .ok (s', b, w)) : R idx s s' := by
  simp only [kvSetCasTxn] at hr
  repeat' (split at hr)
  all_goals (try simp at hr)
  all_goals (obtain ⟨rfl, -⟩ := hr)
  all_goals (first | exact hrefl _ _ | exact hset _ _ _ _ _ _ (by assumption))

theorem kvLockTxn_relI (R : Nat → State → State → Prop) (hrefl : ∀ i s, R i s s)
    (hset : ∀ s s' idx e w upd, kvSetTxn s idx e upd = .ok (s', w) → R idx s s')
    {s s' : State} {idx : Nat} {e w : KV} {b : Bool}
    (hr : kvLockTxn s idx e = .ok (s', b, w)) : R idx s s' := by
  simp only [kvLockTxn] at hr
  repeat' (split at hr)
  all_goals (try simp at hr)
  all_goals (obtain ⟨rfl, -⟩ := hr)
  all_goals (first | exact hrefl _ _ | exact hset _ _ _ _ _ _ (by assumption))

theorem kvUnlockTxn_relI (R : Nat → State → State → Prop) (hrefl : ∀ i s, R i s s)
    (hset : ∀ s s' idx e w upd, kvSetTxn s idx e upd = .ok (s', w) → R idx s s')
    {s s' : State} {idx : Nat} {e w : KV} {b : Bool}
    (hr : kvUnlockTxn s idx e = .ok (s', b, w)) : R idx s s' := by
  simp only [kvUnlockTxn] at hr
  repeat' (split at hr)
  all_goals (try simp at hr)
  all_goals (obtain ⟨rfl, -⟩ := hr)
  all_goals (first | exact hrefl _ _ | exact hset _ _ _ _ _ _ (by assumption))

theorem kv_cmd_relI (R : Nat → State → State → Prop) (hrefl : ∀ i s, R i s s)
    (hset : ∀ s s' idx e w upd, kvSetTxn s idx e upd = .ok (s', w) → R idx s s')
    (hdel : ∀ s s' idx k, kvDeleteTxn s idx k = .ok s' → R idx s s')
    (htree : ∀ s idx p, R idx s (kvDeleteTreeTxn s idx p))
    (s : State) (idx : Nat) (c : Cmd) (op : KvOp) (h : kvOpOf c = some op) : R idx s (apply s idx c).1 := by
  cases c <;> simp only [kvOpOf] at h <;> try (cases h)
  · rename_i e
    apply rel_liftS (hrefl idx)
    intro s' hr
    cases hq : kvSetTxn s idx e false with
    | error x => simp [hq, Except.map] at hr
    | ok p => obtain ⟨s1, w⟩ := p
              simp [hq, Except.map] at hr
              exact hr ▸ hset _ _ _ _ _ _ hq
  · rename_i e
    apply rel_liftB (hrefl idx)
    intro s' b hr
    cases hq : kvSetCasTxn s idx e with
    | error x => simp [hq, Except.map] at hr
    | ok p => obtain ⟨s1, b1, w⟩ := p
              simp [hq, Except.map] at hr
              exact hr.1 ▸ kvSetCasTxn_relI R hrefl hset hq
  · exact rel_liftS (hrefl idx) (fun s' hr => hdel _ _ _ _ hr)
  · exact rel_liftB (hrefl idx) (fun s' b hr => kvDeleteCasTxn_relI R hrefl hdel hr)
  · exact htree _ _ _
  · rename_i e
    apply rel_liftB (hrefl idx)
    intro s' b hr
    cases hq : kvLockTxn s idx e with
    | error x => simp [hq, Except.map] at hr
    | ok p => obtain ⟨s1, b1, w⟩ := p
              simp [hq, Except.map] at hr
              exact hr.1 ▸ kvLockTxn_relI R hrefl hset hq
  · rename_i e
    apply rel_liftB (hrefl idx)
    intro s' b hr
    cases hq : kvUnlockTxn s idx e with
    | error x => simp [hq, Except.map] at hr
    | ok p => obtain ⟨s1, b1, w⟩ := p
              simp [hq, Except.map] at hr
              exact hr.1 ▸ kvUnlockTxn_relI R hrefl hset hq


/-! ### create index -/

/-- a key present before and after carries the same create index -/
def CreateKeep (s s' : State) : Prop :=
  ∀ k x y, kvFind s k = some x → kvFind s' k = some y → y.create = x.create

theorem tfind_filter_key {α κ : Type} [DecidableEq κ] (key : α → κ) (q : κ → Bool) (k : κ) (l : List α) :
    tfind key k (l.filter (fun x => q (key x))) = if q k then tfind key k l else none := by
  unfold tfind
  induction l with
  | nil => simp
  | cons a as ih =>
    by_cases ha : key a = k
    · by_cases hq : q k = true
      · simp [List.filter_cons, ha, hq]
      · have hq' : q k = false := by simpa using hq
        simp only [List.filter_cons, ha, hq', Bool.false_eq_true, if_false]
        rw [ih]; simp [hq']
    · have hne : (key a == k) = false := by simpa using ha
      by_cases hqa : q (key a) = true
      · simp only [List.filter_cons, hqa, if_true, List.find?_cons, hne]
        exact ih
      · have hqa' : q (key a) = false := by simpa using hqa
        simp only [List.filter_cons, hqa', Bool.false_eq_true, if_false, List.find?_cons, hne]
        exact ih

theorem createKeep_set {s s' : State} {idx : Nat} {e w : KV} {upd : Bool}
    (hr : kvSetTxn s idx e upd = .ok (s', w)) : CreateKeep s s' := by
  obtain ⟨⟨y0, hy0, -, -, -, -, hsome, -⟩, hother⟩ := kvSetTxn_find hr
  intro k x y hx hy
  by_cases hk : k = e.key
  · subst hk
    rw [hy0] at hy; cases hy
    exact (hsome x hx).1
  · rw [hother k hk, hx] at hy; cases hy; rfl

theorem createKeep_del {s s' : State} {idx : Nat} {k0 : Key}
    (hr : kvDeleteTxn s idx k0 = .ok s') : CreateKeep s s' := by
  simp only [kvDeleteTxn] at hr
  repeat' (split at hr)
  all_goals (try simp at hr)
  all_goals (subst hr)
  · intro k x y hx hy; rw [hx] at hy; cases hy; rfl
  · intro k x y hx hy
    by_cases hk : k = k0
    · subst hk
      simp only [kvFind, tombInsert] at hy
      rw [tfind_terase_self] at hy; cases hy
    · simp only [kvFind, tombInsert] at hy hx
      rw [tfind_terase_ne _ _ _ hk, hx] at hy; cases hy; rfl

theorem createKeep_tree (s : State) (idx : Nat) (p : Key) : CreateKeep s (kvDeleteTreeTxn s idx p) := by
  intro k x y hx hy
  unfold kvDeleteTreeTxn at hy
  split at hy
  · have : kvFind { s with kvs := s.kvs.filter (fun e => !prefixMatch p e.key) } k = some y := by
      split at hy <;> exact hy
    simp only [kvFind] at this hx
    have this := (tfind_filter_key KV.pk (fun k => !prefixMatch p k) k s.kvs).symm.trans this
    split at this
    · rw [hx] at this; cases this; rfl
    · cases this
  · rw [hx] at hy; cases hy; rfl

/-! ### KV verbs inside a transaction are the direct commands -/

/-- the direct command that a transaction's KV write verb stands for -/
def cmdOfVerb : KvVerb → KV → Option Cmd
  | .set, e => some (.kvSet e)
  | .delete, e => some (.kvDelete e.key)
  | .deleteCas, e => some (.kvDeleteCas e.key e.modify)
  | .deleteTree, e => some (.kvDeleteTree e.key)
  | .cas, e => some (.kvCas e)
  | .lock, e => some (.kvLock e)
  | .unlock, e => some (.kvUnlock e)
  | _, _ => none

/-- A KV write verb inside a transaction succeeds exactly when the direct command reports `ok` / `true`,
    and then leaves the working copy in exactly the state the direct command produces; when it fails
    the direct command changes nothing either. -/
theorem txnKV_same_as_direct (s : State) (idx : Nat) (v : KvVerb) (e : KV) (c : Cmd) (h : cmdOfVerb v e = some c) :
    (∀ s' rs, txnKV s idx v e = .ok (s', rs) →
        s' = (apply s idx c).1 ∧ ((apply s idx c).2 = .ok ∨ (apply s idx c).2 = .bool true)) ∧
    (∀ er, txnKV s idx v e = .error er →
        (apply s idx c).1 = s ∧ ((apply s idx c).2 = .err er ∨ (apply s idx c).2 = .bool false)) := by
  cases v <;> simp only [cmdOfVerb] at h <;> try (cases h)
  · -- set
    simp only [txnKV, apply, okRes]
    cases hq : kvSetTxn s idx e false with
    | error x => simp [liftS, Except.map]
    | ok p => obtain ⟨s1, w⟩ := p; simp [liftS, Except.map]
  · -- delete
    simp only [txnKV, apply, okRes]
    cases hq : kvDeleteTxn s idx e.key with
    | error x => simp [liftS]
    | ok s1 => simp [liftS]
  · -- delete-cas
    simp only [txnKV, apply, okRes]
    cases hq : kvDeleteCasTxn s idx e.modify e.key with
    | error x => simp [liftB]
    | ok p => obtain ⟨s1, b⟩ := p; cases b <;> simp [liftB]
  · -- delete-tree
    simp [txnKV, apply, okRes]
  · -- cas
    simp only [txnKV, apply, okRes]
    cases hq : kvSetCasTxn s idx e with
    | error x => simp [liftB, Except.map]
    | ok p => obtain ⟨s1, b, w⟩ := p; cases b <;> simp [liftB, Except.map]
  · -- lock
    simp only [txnKV, apply, okRes]
    cases hq : kvLockTxn s idx e with
    | error x => simp [liftB, Except.map]
    | ok p => obtain ⟨s1, b, w⟩ := p; cases b <;> simp [liftB, Except.map]
  · -- unlock
    simp only [txnKV, apply, okRes]
    cases hq : kvUnlockTxn s idx e with
    | error x => simp [liftB, Except.map]
    | ok p => obtain ⟨s1, b, w⟩ := p; cases b <;> simp [liftB, Except.map]

/-- read / check verbs of a transaction never change the working copy -/
theorem txnKV_reads_pure (s s' : State) (idx : Nat) (v : KvVerb) (e : KV) (rs : List TxnRes)
    (h : cmdOfVerb v e = none) (hr : txnKV s idx v e = .ok (s', rs)) : s' = s := by
  cases v <;> simp only [cmdOfVerb] at h <;> try (cases h)
  all_goals (
    simp only [txnKV, okRes] at hr
    repeat' (split at hr)
    all_goals (try simp at hr)
    all_goals (try (obtain ⟨rfl, -⟩ := hr))
    all_goals rfl)

end CV.Store
