/-
Helper lemmas for C09: every loop shape of the filter model equals `List.filter` (plus a
"something was removed" bit), and the compaction loop of `FilterEntries` terminates and
computes the filter. Property theorems are in CV/Props/C09.lean.
-/
import CV.Filter
namespace CV.Filter

theorem loopRemove_eq {α : Type} (keep : α → Bool) (xs : List α) (i : Nat) (r : Bool) :
    loopRemove keep xs i r =
      (xs.take i ++ (xs.drop i).filter keep, r || (xs.drop i).any (fun x => !keep x)) := by
  fun_induction loopRemove keep xs i r with
  | case1 xs i r h hk ih =>
    have hd : xs.drop i = xs[i] :: xs.drop (i+1) := List.drop_eq_getElem_cons h
    have ht : xs.take (i+1) = xs.take i ++ [xs[i]] := by rw [List.take_add_one]; simp [h]
    rw [ih, hd, ht]
    simp only [List.filter_cons, hk, List.any_cons, if_true, List.append_assoc, List.singleton_append,
      Bool.not_true, Bool.false_or]
  | case2 xs i r h hk ih =>
    have hd : xs.drop i = xs[i] :: xs.drop (i+1) := List.drop_eq_getElem_cons h
    have he : xs.eraseIdx i = xs.take i ++ xs.drop (i+1) := List.eraseIdx_eq_take_drop_succ xs i
    have hl : (xs.take i).length = i := by simp; omega
    have h1 : (xs.eraseIdx i).take i = xs.take i := by
      rw [he, List.take_append_of_le_length (by omega)]; simp [List.take_take]
    have h2 : (xs.eraseIdx i).drop i = xs.drop (i+1) := by
      rw [he, List.drop_append_of_le_length (by omega)]
      simp
    have hk' : keep xs[i] = false := by simpa using hk
    rw [ih, h1, h2, hd]
    simp only [List.filter_cons, hk', List.any_cons, Bool.not_false, Bool.true_or, Bool.or_true]
    simp
  | case3 xs i r h =>
    have : xs.length ≤ i := by omega
    simp [List.drop_eq_nil_of_le this, List.take_of_length_le this]


theorem appendLoop_eq {α : Type} (keep : α → Bool) (xs ret : List α) (r : Bool) :
    appendLoop keep xs ret r = (ret ++ xs.filter keep, r || xs.any (fun x => !keep x)) := by
  induction xs generalizing ret r with
  | nil => simp [appendLoop]
  | cons x xs ih =>
    by_cases hk : keep x = true
    · simp [appendLoop, hk, ih]
    · have hk' : keep x = false := by simpa using hk
      simp [appendLoop, hk', ih]

theorem rangeDelete_eq {κ β : Type} [DecidableEq κ] (keep : κ × β → Bool) (todo done : List (κ × β)) (r : Bool)
    (hn : (todo.map (·.1)).Nodup) (hd : ∀ e ∈ done, ∀ t ∈ todo, e.1 ≠ t.1) :
    rangeDelete keep todo (done ++ todo) r = (done ++ todo.filter keep, r || todo.any (fun x => !keep x)) := by
  induction todo generalizing done r with
  | nil => simp [rangeDelete]
  | cons kv todo ih =>
    simp only [List.map_cons, List.nodup_cons] at hn
    by_cases hk : keep kv = true
    · have := ih (done ++ [kv]) r hn.2 (by
        intro e he t ht
        simp only [List.mem_append, List.mem_singleton] at he
        rcases he with he | he
        · exact hd e he t (List.mem_cons_of_mem _ ht)
        · subst he; intro h; exact hn.1 (List.mem_map.mpr ⟨t, ht, h.symm⟩))
      simp only [List.append_assoc, List.singleton_append] at this
      simp [rangeDelete, hk, this]
    · have hk' : keep kv = false := by simpa using hk
      have hf : (done ++ kv :: todo).filter (fun e => decide (e.1 ≠ kv.1)) = done ++ todo := by
        have h1 : done.filter (fun e => decide (e.1 ≠ kv.1)) = done := by
          apply List.filter_eq_self.mpr; intro e he
          exact decide_eq_true (hd e he kv (List.mem_cons_self ..))
        have h2 : todo.filter (fun e => decide (e.1 ≠ kv.1)) = todo := by
          apply List.filter_eq_self.mpr; intro t ht
          exact decide_eq_true (fun h => hn.1 (List.mem_map.mpr ⟨t, ht, h⟩))
        have h3 : decide (kv.1 ≠ kv.1) = false := by simp
        rw [List.filter_append, List.filter_cons, h1, h2, h3]; rfl
      have := ih done true hn.2 (fun e he t ht => hd e he t (List.mem_cons_of_mem _ ht))
      simp only [rangeDelete, hk', Bool.false_eq_true, if_false]
      rw [hf, this]
      simp [hk']

theorem filterAclList_eq (a : Authz) (k : AclKind) (xs ret : List (Option AclObj)) :
    filterAclList a k xs ret = ret ++ (xs.filterMap (filterAclObj a k)).map some := by
  induction xs generalizing ret with
  | nil => simp [filterAclList]
  | cons x xs ih =>
    cases h : filterAclObj a k x <;> simp [filterAclList, h, ih]

theorem pqLoop_eq (a : Authz) (qs ret : List PQ) (r : Bool) :
    pqLoop a qs ret r =
      (ret ++ (qs.filter fun q => q.hasName && a.queryRead q.name).map (redactPQ a),
       r || qs.any fun q => q.hasName && !a.queryRead q.name) := by
  induction qs generalizing ret r with
  | nil => simp [pqLoop]
  | cons q qs ih =>
    cases h1 : q.hasName <;> cases h2 : a.queryRead q.name <;> simp [pqLoop, h1, h2, ih]

theorem ixnMatchLoop_eq (a : Authz) (all rest : List String) :
    ixnMatchLoop a all rest = if rest.any (fun n => n ≠ "" && !a.intentionRead n) then [] else all := by
  induction rest with
  | nil => simp [ixnMatchLoop]
  | cons n rest ih =>
    by_cases h : n ≠ "" ∧ (!a.intentionRead n) = true
    · simp [ixnMatchLoop, h]
    · simp only [ixnMatchLoop, h, if_false, ih]
      have : (decide (n ≠ "") && !a.intentionRead n) = false := by
        simp only [not_and, Bool.not_eq_true] at h
        by_cases hn : n = "" <;> simp_all
      rw [List.any_cons, this, Bool.false_or]


theorem take_set_self {α} (l : List α) (i : Nat) (x : α) : (l.set i x).take i = l.take i := by
  induction l generalizing i with
  | nil => simp
  | cons y l ih => cases i <;> simp [ih]

theorem drop_set_succ {α} (l : List α) (i : Nat) (x : α) : (l.set i x).drop (i+1) = l.drop (i+1) := by
  induction l generalizing i with
  | nil => simp
  | cons y l ih => cases i <;> simp [ih]

theorem filterCSNs_eq (a : Authz) (xs : List CSN) :
    filterCSNs a xs = (xs.filter (csnCanRead a), xs.any fun c => !csnCanRead a c) := by
  simp [filterCSNs, loopRemove_eq]

theorem dcLoop_eq (a : Authz) (m out : List (String × List CSN)) (r : Bool) :
    dcLoop a m out r =
      (out ++ (m.map fun e => (e.1, e.2.filter (csnCanRead a))).filter (fun e => e.2 ≠ []),
       r || m.any fun e => e.2.any fun c => !csnCanRead a c) := by
  induction m generalizing out r with
  | nil => simp [dcLoop]
  | cons e m ih =>
    obtain ⟨dc, nodes⟩ := e
    simp only [dcLoop, filterCSNs_eq]
    by_cases hl : nodes.filter (csnCanRead a) = []
    · have hlen : ¬ (nodes.filter (csnCanRead a)).length > 0 := by simp [hl]
      cases hr : (nodes.any fun c => !csnCanRead a c) <;> simp only [hlen, if_false, ih] <;> simp [hl, hr]
    · have hlen : (nodes.filter (csnCanRead a)).length > 0 := List.length_pos_iff.mpr hl
      cases hr : (nodes.any fun c => !csnCanRead a c) <;> simp only [hlen, if_true, ih] <;> simp [hl, hr]

theorem exportedLoop_eq (a : Authz) (m out : List (String × List String)) (f : Bool) :
    exportedLoop a m out f =
      (out ++ (m.map fun e => (e.1, e.2.filter fun s => a.serviceRead s)).filter (fun e => e.2 ≠ []),
       f || m.any fun e => e.2.any fun s => !a.serviceRead s) := by
  induction m generalizing out f with
  | nil => simp [exportedLoop]
  | cons e m ih =>
    obtain ⟨peer, svcs⟩ := e
    simp only [exportedLoop, appendLoop_eq]
    by_cases hl : (svcs.filter fun s => a.serviceRead s) = [] <;>
      cases hr : (svcs.any fun s => !a.serviceRead s) <;> simp [hl, hr, ih]

/-- what `filterNodeDump` does to a node it keeps -/
def pruneInfo (a : Authz) (info : NodeInfo) : NodeInfo :=
  { info with
    svcs := info.svcs.filter fun s => allowNode a info.node && allowService a s.1
    chks := info.chks.filter fun s => allowNode a info.node && allowService a s.1 }

def infoRemoves (a : Authz) (info : NodeInfo) : Bool :=
  !allowNode a info.node ||
  (info.svcs.any fun s => !(allowNode a info.node && allowService a s.1)) ||
  (info.chks.any fun s => !(allowNode a info.node && allowService a s.1))

theorem nodeDumpLoop_eq (a : Authz) (nd : List NodeInfo) (i : Nat) (r : Bool) :
    nodeDumpLoop a nd i r =
      (nd.take i ++ ((nd.drop i).filter fun x => allowNode a x.node).map (pruneInfo a),
       r || (nd.drop i).any (infoRemoves a)) := by
  fun_induction nodeDumpLoop a nd i r with
  | case1 nd i r h info hk ih =>
    have hd : nd.drop i = nd[i] :: nd.drop (i+1) := List.drop_eq_getElem_cons h
    have he : nd.eraseIdx i = nd.take i ++ nd.drop (i+1) := List.eraseIdx_eq_take_drop_succ nd i
    have hl : (nd.take i).length = i := by simp; omega
    have h1 : (nd.eraseIdx i).take i = nd.take i := by
      rw [he, List.take_append_of_le_length (by omega)]; simp [List.take_take]
    have h2 : (nd.eraseIdx i).drop i = nd.drop (i+1) := by
      rw [he, List.drop_append_of_le_length (by omega)]
      simp
    have hk' : allowNode a nd[i].node = false := by simpa [info] using hk
    rw [ih, h1, h2, hd]
    simp only [List.filter_cons, hk', List.any_cons, infoRemoves]
    simp
  | case2 nd i r h info hk svcs r1 hs chks r2 hc ih =>
    have hd : nd.drop i = nd[i] :: nd.drop (i+1) := List.drop_eq_getElem_cons h
    have hk' : allowNode a nd[i].node = true := by simpa [info] using hk
    rw [loopRemove_eq] at hs hc
    simp only [List.take_zero, List.drop_zero, List.nil_append, Prod.mk.injEq] at hs hc
    have ht : (nd.set i { info with svcs := svcs, chks := chks }).take (i+1) = nd.take i ++ [pruneInfo a nd[i]] := by
      rw [List.take_add_one, take_set_self]
      simp [h, pruneInfo, info, ← hs.1, ← hc.1]
    have hdr : (nd.set i { info with svcs := svcs, chks := chks }).drop (i+1) = nd.drop (i+1) :=
      drop_set_succ ..
    rw [ih, ht, hdr, hd]
    simp only [List.filter_cons, hk', List.any_cons, if_true, List.map_cons, List.append_assoc,
      List.singleton_append, infoRemoves, ← hs.2, ← hc.2, info]
    simp [Bool.or_assoc]
  | case3 nd i r h =>
    have : nd.length ≤ i := by omega
    simp [List.drop_eq_nil_of_le this, List.take_of_length_le this]


section Compaction
variable {α : Type}

theorem skipDropped_le (drop : α → Bool) (a : List α) (src : Nat) (h : src ≤ a.length) :
    skipDropped drop a src ≤ a.length := by
  fun_induction skipDropped drop a src <;> omega

theorem spanEnd_le (drop : α → Bool) (a : List α) (e : Nat) (h : e ≤ a.length) :
    spanEnd drop a e ≤ a.length := by
  fun_induction spanEnd drop a e <;> omega

theorem skipDropped_filter (drop : α → Bool) (a : List α) (src : Nat) :
    (a.drop (skipDropped drop a src)).filter (fun x => !drop x) = (a.drop src).filter (fun x => !drop x) := by
  fun_induction skipDropped drop a src with
  | case1 src h hd ih =>
    rw [ih, List.drop_eq_getElem_cons h]
    simp only [List.filter_cons, hd, Bool.not_true, Bool.false_eq_true, if_false]
  | case2 src h hd => rfl
  | case3 src h => rfl

theorem skipDropped_stop (drop : α → Bool) (a : List α) (src : Nat)
    (h : skipDropped drop a src < a.length) : drop a[skipDropped drop a src] = false := by
  fun_induction skipDropped drop a src with
  | case1 src h' hd ih => exact ih h
  | case2 src h' hd => simpa using hd
  | case3 src h' => omega

theorem spanEnd_kept (drop : α → Bool) (a : List α) (e : Nat) :
    ∀ x ∈ (a.drop e).take (spanEnd drop a e - e), drop x = false := by
  fun_induction spanEnd drop a e with
  | case1 e h hk ih =>
    have hge := spanEnd_ge drop a (e+1)
    have : spanEnd drop a (e+1) - e = (spanEnd drop a (e+1) - (e+1)) + 1 := by omega
    rw [List.drop_eq_getElem_cons h, this, List.take_succ_cons]
    intro x hx
    rcases List.mem_cons.mp hx with hx | hx
    · subst hx; simpa using hk
    · exact ih x hx
  | case2 e h hk => simp
  | case3 e h => simp

theorem move_length (a : List α) (dst src span : Nat) (h1 : dst + span ≤ a.length) (h2 : src + span ≤ a.length) :
    (move a dst src span).length = a.length := by
  simp [move]; omega

theorem move_take (a : List α) (dst src span : Nat) (h1 : dst + span ≤ a.length) (h2 : src + span ≤ a.length) :
    (move a dst src span).take (dst + span) = a.take dst ++ (a.drop src).take span := by
  have hl : (a.take dst ++ (a.drop src).take span).length = dst + span := by simp; omega
  unfold move
  rw [List.take_append_of_le_length (by omega), List.take_of_length_le (by omega)]

theorem move_drop (a : List α) (dst src span e : Nat) (h1 : dst + span ≤ e) (h2 : src + span ≤ a.length)
    (h3 : e ≤ a.length) : (move a dst src span).drop e = a.drop e := by
  have hl : (a.take dst ++ (a.drop src).take span).length = dst + span := by simp; omega
  unfold move
  rw [List.drop_append, List.drop_eq_nil_of_le (by omega), hl, List.drop_drop, List.nil_append]
  congr 1; omega


theorem compactLoop_spec (drop : α → Bool) (fuel : Nat) (a : List α) (dst src : Nat)
    (h1 : dst ≤ src) (h2 : src ≤ a.length) (h3 : a.length - src < fuel) :
    ∃ a' d, compactLoop drop fuel a dst src = some (a', d) ∧
      a'.take d = a.take dst ++ (a.drop src).filter (fun x => !drop x) := by
  induction fuel generalizing a dst src with
  | zero => omega
  | succ fuel ih =>
    unfold compactLoop
    by_cases hd : dst < a.length
    · simp only [hd, if_true]
      have hs1 := skipDropped_ge drop a src
      have hs2 := skipDropped_le drop a src h2
      have hs3 := skipDropped_filter drop a src
      generalize hs : skipDropped drop a src = s at *
      by_cases hse : s = a.length
      · refine ⟨a, dst, by simp [hse], ?_⟩
        rw [← hs3, hse]; simp
      · have hlt : s < a.length := by omega
        have hkeep : drop a[s] = false := by
          have := skipDropped_stop drop a src (by rw [hs]; exact hlt)
          simpa [hs] using this
        have he1 := spanEnd_ge drop a (s + 1)
        have he2 := spanEnd_le drop a (s + 1) (by omega)
        have he3 := spanEnd_kept drop a (s + 1)
        generalize hee : spanEnd drop a (s + 1) = e at *
        have hspan : e - s > 0 := by omega
        have hbeq : (s == a.length) = false := by simpa using hse
        simp only [hbeq, Bool.false_eq_true, if_false, hspan, if_true]
        have hse' : s + (e - s) = e := by omega
        rw [hse']
        obtain ⟨a', d, hc, ht⟩ := ih (move a dst s (e - s)) (dst + (e - s)) e (by omega)
          (by rw [move_length a dst s (e - s) (by omega) (by omega)]; exact he2)
          (by rw [move_length a dst s (e - s) (by omega) (by omega)]; omega)
        refine ⟨a', d, hc, ?_⟩
        rw [ht, move_take a dst s (e - s) (by omega) (by omega),
          move_drop a dst s (e - s) e (by omega) (by omega) he2, ← hs3, List.append_assoc]
        congr 1
        -- the moved block is exactly the kept run starting at s
        have hsplit : a.drop s = (a.drop s).take (e - s) ++ a.drop e := by
          have hdd : (a.drop s).drop (e - s) = a.drop e := by
            simp [List.drop_drop, hse']
          conv => lhs; rw [← List.take_append_drop (e - s) (a.drop s), hdd]
        have hall : ∀ x ∈ (a.drop s).take (e - s), drop x = false := by
          have h' : e - s = (e - (s + 1)) + 1 := by omega
          rw [List.drop_eq_getElem_cons hlt, h', List.take_succ_cons]
          intro x hx
          rcases List.mem_cons.mp hx with hx | hx
          · subst hx; exact hkeep
          · exact he3 x hx
        conv => rhs; rw [hsplit, List.filter_append]
        congr 1
        symm
        apply List.filter_eq_self.mpr
        intro x hx; simp [hall x hx]
    · simp only [hd, if_false]
      refine ⟨a, dst, rfl, ?_⟩
      have : a.length ≤ src := by omega
      simp [List.drop_eq_nil_of_le this]

theorem filterEntries_eq (drop : α → Bool) (a : List α) :
    filterEntries drop a = some (a.filter fun x => !drop x) := by
  obtain ⟨a', d, hc, ht⟩ := compactLoop_spec drop (a.length + 1) a 0 0 (Nat.le_refl _) (Nat.zero_le _) (by omega)
  simp [filterEntries, hc, ht]

end Compaction


/-! ## Specification side: requirement evaluation and the per-response characterisation -/

theorem svcOpt_eval (a : Authz) (s : String) : (Req.svcOpt s).eval a = allowService a s := by
  unfold Req.svcOpt allowService; split <;> simp [Req.eval]

theorem csnReq_eval (a : Authz) (c : CSN) : (csnReq c).eval a = csnCanRead a c := by
  unfold csnReq csnCanRead
  cases c.node <;> cases c.svc <;> simp [Req.eval]

theorem csnEntries_filter (a : Authz) (slot : String) (xs : List CSN) :
    (csnEntries slot xs).filter (Entry.readable a) = csnEntries slot (xs.filter (csnCanRead a)) := by
  simp only [csnEntries, List.filter_map]
  congr 1
  apply List.filter_congr
  intro c _
  simp [Entry.readable, csnReq_eval]

theorem csnEntries_any (a : Authz) (slot : String) (xs : List CSN) :
    ((csnEntries slot xs).any fun e => !e.readable a && !e.silent) = xs.any fun c => !csnCanRead a c := by
  simp [csnEntries, List.any_map, Entry.readable, csnReq_eval, Function.comp_def]


@[simp] theorem readable_mk (a : Authz) (slot : String) (id : Nat) (name : String) (req : Req) (s : Bool) :
    Entry.readable a ⟨slot, id, name, req, s⟩ = req.eval a := rfl


theorem ixnReq_eval (a : Authz) (x : Ixn) : (ixnReq x).eval a = ixnCanRead a x := by
  unfold ixnReq ixnCanRead
  by_cases h1 : x.src ≠ "" ∧ x.srcPeer = false
  · obtain ⟨h1a, h1b⟩ := h1
    by_cases h2 : x.dst ≠ "" <;> cases h3 : a.intentionRead x.src <;> cases h4 : a.intentionRead x.dst <;>
      simp [h1a, h1b, h2, h3, h4, Req.eval]
  · have h1' : ¬ (x.src ≠ "" ∧ x.srcPeer = false ∧ a.intentionRead x.src = true) := fun h => h1 ⟨h.1, h.2.1⟩
    by_cases h2 : x.dst ≠ "" <;> cases h4 : a.intentionRead x.dst <;>
      simp only [h1, h1', if_false, Req.eval, Bool.false_or] <;> simp [h2, h4, Req.eval]

theorem gwReq_eval (a : Authz) (g : String × String) : (gwReq g).eval a = allowGateway a g := by
  unfold gwReq allowGateway
  cases h : allowService a g.1 <;> simp [Req.eval, svcOpt_eval, h]

theorem svcInfoReq_eval (a : Authz) (s : SvcInfo) : (svcInfoReq s).eval a = svcInfoKeep a s := by
  unfold svcInfoReq svcInfoKeep
  cases s.gs with
  | none => simp [Req.eval]
  | some g =>
    cases s.node with
    | none => cases h : allowGateway a g <;> simp [gwReq_eval, h]
    | some n => cases h : allowGateway a g <;> cases h2 : allowNode a n <;> simp_all [Req.eval, gwReq_eval, allowNode]

theorem txnReq_eval (a : Authz) (t : TxnRes) : (txnReq t).eval a = !txnDrop a t := by
  cases t <;> simp [txnReq, txnDrop, Req.eval]
  rename_i n s i
  by_cases h : s = "" <;> simp [h, Req.eval]

theorem nodeInfoEntries_filter (a : Authz) (slot : String) (info : NodeInfo) :
    (nodeInfoEntries slot info).filter (Entry.readable a) =
      if allowNode a info.node then nodeInfoEntries slot (pruneInfo a info) else [] := by
  cases h : allowNode a info.node
  · simp only [allowNode] at h
    simp [nodeInfoEntries, List.filter_append, List.filter_map, Req.eval, h]
  · simp only [allowNode] at h
    simp [nodeInfoEntries, pruneInfo, List.filter_append, List.filter_map, Req.eval, h,
      Function.comp_def, svcOpt_eval, allowNode]

theorem flatMap_nodeInfo (a : Authz) (slot : String) (nd : List NodeInfo) :
    ((nd.filter fun x => allowNode a x.node).map (pruneInfo a)).flatMap (nodeInfoEntries slot) =
      (nd.flatMap (nodeInfoEntries slot)).filter (Entry.readable a) := by
  induction nd with
  | nil => simp
  | cons x nd ih =>
    simp only [List.flatMap_cons, List.filter_append, nodeInfoEntries_filter, ← ih, List.filter_cons]
    cases h : allowNode a x.node <;> simp

theorem flatMap_filter_ne_nil {α β γ : Type} (m : List α) (f : α → β × List γ) (g : β × List γ → List Entry)
    (hg : ∀ b, g (b, []) = []) :
    ((m.map f).filter fun e => e.2 ≠ []).flatMap g = (m.map f).flatMap g := by
  induction m with
  | nil => simp
  | cons x m ih =>
    simp only [List.map_cons, List.filter_cons, List.flatMap_cons]
    by_cases h : (f x).2 = []
    · have : g (f x) = [] := by
        have := hg (f x).1; rw [← h] at this; exact this
      have hd : decide ((f x).2 ≠ []) = false := by simp [h]
      rw [hd, this]; simpa using ih
    · have hd : decide ((f x).2 ≠ []) = true := by simp [h]
      rw [hd]; simp only [if_true, List.flatMap_cons, ih]


@[simp] theorem redactPQ_id (a : Authz) (q : PQ) : (redactPQ a q).id = q.id := by
  unfold redactPQ; split
  · rfl
  · split <;> rfl
@[simp] theorem redactPQ_name (a : Authz) (q : PQ) : (redactPQ a q).name = q.name := by
  unfold redactPQ; split
  · rfl
  · split <;> rfl
@[simp] theorem redactPQ_tmpl (a : Authz) (q : PQ) : (redactPQ a q).tmpl = q.tmpl := by
  unfold redactPQ; split
  · rfl
  · split <;> rfl
@[simp] theorem redactPQ_hasName (a : Authz) (q : PQ) : (redactPQ a q).hasName = q.hasName := by
  simp [PQ.hasName]

theorem aclEntries_none (xs : List (Option AclObj)) : aclEntries (none :: xs) = aclEntries xs := by
  simp [aclEntries]
theorem aclEntries_some (o : AclObj) (xs : List (Option AclObj)) :
    aclEntries (some o :: xs) = ⟨"", o.id, "acl", .aclRead, false⟩ :: aclEntries xs := by
  simp [aclEntries]

theorem aclEntries_filter (a : Authz) (k : AclKind) (xs : List (Option AclObj)) :
    aclEntries ((xs.filterMap (filterAclObj a k)).map some) = (aclEntries xs).filter (Entry.readable a) := by
  induction xs with
  | nil => simp [aclEntries]
  | cons x xs ih =>
    cases x with
    | none =>
      have h0 : filterAclObj a k none = none := rfl
      rw [List.filterMap_cons, h0, aclEntries_none]; exact ih
    | some o =>
      rw [aclEntries_some, List.filter_cons, readable_mk]
      cases hr : a.aclRead
      · simpa [filterAclObj, hr, Req.eval] using ih
      · by_cases hs : (k = .token ∨ k = .tokenStub) ∧ (!a.aclWrite) = true
        · have : filterAclObj a k (some o) = some { o with secret := 2 } := by
            simp only [filterAclObj, hr, Bool.not_true, Bool.false_eq_true, if_false]; rw [if_pos hs]
          simp [this, aclEntries_some, Req.eval, hr, ih]
        · have : filterAclObj a k (some o) = some o := by
            simp only [filterAclObj, hr, Bool.not_true, Bool.false_eq_true, if_false]; rw [if_neg hs]
          simp [this, aclEntries_some, Req.eval, hr, ih]

theorem entries_filterCore (a : Authz) (r : Resp) (hwf : r.wf = true)
    (hi : r.isIxnMatch = false) :
    entries (filterCore a r) = (entries r).filter (Entry.readable a) := by
  cases r with
  | ixnMatch es => simp [Resp.isIxnMatch] at hi
  | topology t fb f =>
    cases t with
    | none => simp [filterCore, entries]
    | some ud =>
      obtain ⟨u, d⟩ := ud
      simp only [filterCore, filterCSNs_eq]
      split <;> simp [entries, List.filter_append, csnEntries_filter]
  | dcCSNs m f =>
    simp only [filterCore, dcLoop_eq, entries, List.nil_append]
    rw [flatMap_filter_ne_nil m _ (fun e => csnEntries e.1 e.2) (by intro b; simp [csnEntries]),
      List.flatMap_map, List.filter_flatMap]
    simp [csnEntries_filter]
  | exportedServiceList m f =>
    simp only [filterCore, exportedLoop_eq, entries, List.nil_append]
    rw [flatMap_filter_ne_nil m _ (fun e => e.2.map fun s => (⟨e.1, 0, s, .service s, false⟩ : Entry)) (by intro b; simp),
      List.flatMap_map, List.filter_flatMap]
    simp [List.filter_map, Function.comp_def, Req.eval]
  | nodeDump d imp f =>
    simp only [filterCore, filterNodeDump, nodeDumpLoop_eq, entries, List.take_zero, List.drop_zero,
      List.nil_append, List.filter_append, flatMap_nodeInfo]
  | nodeServices ns f =>
    cases ns with
    | none => simp [filterCore, entries]
    | some p =>
      obtain ⟨n, svcs⟩ := p
      simp only [Resp.wf, decide_eq_true_eq] at hwf
      cases hn : allowNode a n
      · simp only [allowNode] at hn
        simp [filterCore, entries, allowNode, hn, Req.eval]
        intros; subst_vars; simp [Req.eval, hn]
      · have := rangeDelete_eq (fun e : String × (String × Nat) => allowNode a n && allowService a e.2.1) svcs [] false hwf (by simp)
        simp only [List.nil_append, hn] at this
        simp only [filterCore, hn, Bool.not_true, Bool.false_eq_true, if_false, this, entries]
        simp only [allowNode] at hn
        simp only [List.filter_cons, readable_mk, Req.eval, hn, if_true, List.filter_map, List.cons.injEq, true_and]
        congr 1
        apply List.filter_congr
        intro e he
        simp [Req.eval, hn, svcOpt_eval]
  | nodeServiceList n svcs f =>
    cases n with
    | none =>
      simp only [Resp.wf, List.isEmpty_iff] at hwf
      simp [filterCore, entries]
    | some n =>
      cases hn : allowNode a n
      · simp only [allowNode] at hn
        simp [filterCore, entries, allowNode, hn, Req.eval]
        intros; subst_vars; simp [Req.eval, hn]
      · simp only [filterCore, hn, Bool.not_true, Bool.false_eq_true, if_false, loopRemove_eq, entries,
          List.take_zero, List.drop_zero, List.nil_append]
        simp only [allowNode] at hn
        simp [List.filter_cons, Req.eval, hn, List.filter_map, Function.comp_def, svcOpt_eval]
  | services m f =>
    simp only [Resp.wf, decide_eq_true_eq] at hwf
    have := rangeDelete_eq (fun e : String × Nat => allowService a e.1) m [] false hwf (by simp)
    simp only [List.nil_append] at this
    simp [filterCore, this, entries, List.filter_map, Function.comp_def, svcOpt_eval]
  | preparedQueries xs f =>
    cases hw : a.aclWrite
    · simp only [filterCore, hw, Bool.false_eq_true, if_false, pqLoop_eq, entries, List.nil_append, List.map_map,
        List.filter_map]
      simp [Function.comp_def, pqReq, Req.eval, hw]
      congr 1
      apply List.filter_congr
      intro q _
      cases q.hasName <;> simp [Req.eval]
    · simp only [filterCore, hw, if_true, entries]
      symm
      apply List.filter_eq_self.mpr
      intro e he
      obtain ⟨q, _, rfl⟩ := List.mem_map.mp he
      simp [pqReq, Req.eval, hw]
  | preparedQuery q => simp [filterCore, entries, Req.eval, List.filter_cons]
  | aclList k xs => simp only [filterCore, filterAclList_eq, List.nil_append, entries, aclEntries_filter]
  | aclOne k x =>
    have := aclEntries_filter a k [x]
    simp only [filterCore, entries]
    rw [← this]
    cases h : filterAclObj a k x <;> simp [aclEntries, h]
  | dirEntries xs =>
    simp [filterCore, filterEntries_eq, entries, List.filter_map, Function.comp_def, Req.eval]
  | txnResults xs =>
    simp [filterCore, filterEntries_eq, entries, List.filter_map, Function.comp_def, txnReq_eval]
  | _ =>
    simp [filterCore, entries, loopRemove_eq, appendLoop_eq, filterCSNs_eq, csnEntries_filter, List.filter_map,
      Function.comp_def, Req.eval, svcOpt_eval, allowNode, allowSession, ixnReq_eval, svcInfoReq_eval]



/-! ## The flag -/

theorem any_congr' {α : Type} (l : List α) (p q : α → Bool) (h : ∀ x ∈ l, p x = q x) : l.any p = l.any q := by
  induction l with
  | nil => rfl
  | cons x l ih =>
    simp only [List.any_cons, h x (List.mem_cons_self ..)]
    rw [ih (fun y hy => h y (List.mem_cons_of_mem _ hy))]

theorem nodeInfoEntries_any (a : Authz) (slot : String) (x : NodeInfo) :
    ((nodeInfoEntries slot x).any fun e => !e.readable a && !e.silent) = infoRemoves a x := by
  simp [nodeInfoEntries, infoRemoves, List.any_map, Function.comp_def, Req.eval, svcOpt_eval, allowNode, Bool.or_assoc]

theorem flag_filterCore (a : Authz) (r : Resp) (hwf : r.wf = true) :
    (filterCore a r).flag =
      r.flag.map fun f => (if r.flagAccumulates then f else false) || removedReported a r := by
  cases r with
  | topology t fb f =>
    cases t with
    | none => simp [filterCore, Resp.flag, Resp.flagAccumulates, removedReported, entries]
    | some ud =>
      obtain ⟨u, d⟩ := ud
      cases h1 : (u.any fun c => !csnCanRead a c) <;> cases h2 : (d.any fun c => !csnCanRead a c) <;> cases f <;>
        simp [filterCore, filterCSNs_eq, Resp.flag, Resp.flagAccumulates, removedReported, entries,
          List.any_append, csnEntries_any, h1, h2]
  | dcCSNs m f =>
    simp [filterCore, dcLoop_eq, Resp.flag, Resp.flagAccumulates, removedReported, entries, List.any_flatMap,
      csnEntries_any]
  | exportedServiceList m f =>
    simp [filterCore, exportedLoop_eq, Resp.flag, Resp.flagAccumulates, removedReported, entries, List.any_flatMap,
      List.any_map, Function.comp_def, Req.eval]
  | nodeDump d imp f =>
    simp only [filterCore, filterNodeDump, nodeDumpLoop_eq, Resp.flag, Resp.flagAccumulates, removedReported, entries,
      List.any_append, List.any_flatMap, nodeInfoEntries_any, List.drop_zero, Bool.false_or, Option.map_some, if_true]
    cases d.any (infoRemoves a) <;> cases imp.any (infoRemoves a) <;> cases f <;> simp
  | nodeServices ns f =>
    cases ns with
    | none => simp [filterCore, Resp.flag, Resp.flagAccumulates, removedReported, entries]
    | some p =>
      obtain ⟨n, svcs⟩ := p
      simp only [Resp.wf, decide_eq_true_eq] at hwf
      cases hn : allowNode a n
      · simp only [allowNode] at hn
        simp [filterCore, Resp.flag, Resp.flagAccumulates, removedReported, entries, allowNode, hn, Req.eval]
      · have := rangeDelete_eq (fun e : String × (String × Nat) => allowNode a n && allowService a e.2.1) svcs [] false hwf (by simp)
        simp only [List.nil_append, hn] at this
        simp only [filterCore, hn, Bool.not_true, Bool.false_eq_true, if_false, this, Resp.flag, Resp.flagAccumulates,
          removedReported, entries, Option.map_some, List.any_cons, List.any_map]
        simp only [allowNode] at hn
        simp only [readable_mk, Req.eval, hn, Bool.not_true, Bool.false_and, Bool.false_or, Bool.true_and,
          Function.comp_def, Bool.not_false, Bool.and_true]
        congr 1
        apply any_congr'
        intro e he
        simp [svcOpt_eval]
  | nodeServiceList n svcs f =>
    cases n with
    | none =>
      simp only [Resp.wf, List.isEmpty_iff] at hwf
      simp [filterCore, Resp.flag, Resp.flagAccumulates, removedReported, entries]
    | some n =>
      cases hn : allowNode a n
      · simp only [allowNode] at hn
        simp [filterCore, Resp.flag, Resp.flagAccumulates, removedReported, entries, allowNode, hn, Req.eval]
      · simp only [filterCore, hn, Bool.not_true, Bool.false_eq_true, if_false, loopRemove_eq, Resp.flag,
          Resp.flagAccumulates, removedReported, entries, List.drop_zero]
        simp only [allowNode] at hn
        simp [Req.eval, hn, List.any_map, Function.comp_def, svcOpt_eval]
  | services m f =>
    simp only [Resp.wf, decide_eq_true_eq] at hwf
    have := rangeDelete_eq (fun e : String × Nat => allowService a e.1) m [] false hwf (by simp)
    simp only [List.nil_append] at this
    simp [filterCore, this, Resp.flag, Resp.flagAccumulates, removedReported, entries, List.any_map,
      Function.comp_def, svcOpt_eval]
  | preparedQueries xs f =>
    cases hw : a.aclWrite
    · simp only [filterCore, hw, Bool.false_eq_true, if_false, pqLoop_eq, Resp.flag, Resp.flagAccumulates,
        removedReported, entries, List.any_map, Option.map_some]
      simp only [Function.comp_def, readable_mk, pqReq, Req.eval, hw, Bool.false_or]
      congr 1
      apply any_congr'
      intro q _
      cases q.hasName <;> simp [Req.eval]
    · simp [filterCore, hw, Resp.flag, Resp.flagAccumulates, removedReported, entries, List.any_map,
        Function.comp_def, pqReq, Req.eval]
  | dirEntries xs => simp [filterCore, filterEntries_eq, Resp.flag]
  | txnResults xs => simp [filterCore, filterEntries_eq, Resp.flag]
  | nodesWithGateways ns gws imp f =>
    cases h1 : (ns.any fun c => !csnCanRead a c) <;> cases h2 : (imp.any fun c => !csnCanRead a c) <;>
      cases h3 : (gws.any fun g => !a.serviceRead g.svc) <;> cases f <;>
      simp [filterCore, Resp.flag, Resp.flagAccumulates, removedReported, entries, appendLoop_eq,
        filterCSNs_eq, csnEntries_any, List.any_map, List.any_append, Function.comp_def, Req.eval, h1, h2, h3]
  | _ =>
    simp [filterCore, Resp.flag, Resp.flagAccumulates, removedReported, entries, loopRemove_eq, appendLoop_eq,
      filterCSNs_eq, csnEntries_any, List.any_map, List.any_append, Function.comp_def, Req.eval, svcOpt_eval, allowNode,
      allowSession, ixnReq_eval, svcInfoReq_eval]


end CV.Filter
