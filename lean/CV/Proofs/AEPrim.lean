/-
Each primitive effect of a sync step preserves the invariant `GInv`.
-/
import CV.Proofs.AEInv
namespace CV.AE
open AMap

variable {T : Prop} {Rs Rc Ps Pc : Id → Prop}

/-- flags turning on (justified by a refusal, by the catalog holding the entry, or irrelevant
    because the entry is pending deletion) -/
theorem GInv_flags {l l' : Local} {c : Cat}
    (hs : ∀ i, l'.svcs.get? i = l.svcs.get? i ∨ ∃ e, l.svcs.get? i = some e ∧ l'.svcs.get? i = some (e.setInSync true) ∧
        (e.deleted = true ∨ Rs i ∨ ∀ d, e.live? = some d → c.svcs.get? i = some d))
    (hc : ∀ k, l'.chks.get? k = l.chks.get? k ∨ ∃ e, l.chks.get? k = some e ∧ l'.chks.get? k = some (e.setInSync true) ∧
        (e.deleted = true ∨ Rc k ∨ ∀ d, e.live? = some d → ∃ rc, c.chks.get? k = some rc ∧ rc.core = d.core))
    (g : GInv T Rs Rc Ps Pc l c) : GInv T Rs Rc Ps Pc l' c := by
  have hls : ∀ i, liveSvc l' i = liveSvc l i := by
    intro i; unfold liveSvc
    rcases hs i with h | ⟨e, h1, h2, _⟩
    · rw [h]
    · rw [h1, h2]; simp
  have hlc : ∀ k, liveChk l' k = liveChk l k := by
    intro k; unfold liveChk
    rcases hc k with h | ⟨e, h1, h2, _⟩
    · rw [h]
    · rw [h1, h2]; simp
  refine ⟨?_, g.cwf, ?_, ?_, ⟨?_, ?_⟩, ⟨?_, ?_⟩⟩
  · intro k d h1 h2
    rw [hlc] at h1; rw [hls]; exact g.lwf k d h1 h2
  · obtain ⟨n1, n2, n3, n4⟩ := g.nek
    refine ⟨?_, ?_, n3, n4⟩
    · rcases hs "" with h | ⟨e, h1, _, _⟩
      · rw [h]; exact n1
      · rw [n1] at h1; cases h1
    · rcases hc "" with h | ⟨e, h1, _, _⟩
      · rw [h]; exact n2
      · rw [n2] at h1; cases h1
  · intro ht k d tok loc b rc h1 h2 h3
    rcases hc k with h | ⟨e, he1, he2, _⟩
    · rw [h] at h1; exact g.nrb ht k d tok loc b rc h1 h2 h3
    · rw [he2] at h1
      cases e with
      | ghost x => simp [Ent.setInSync] at h1
      | ent d' t' lo' x' del' =>
        simp only [Ent.setInSync, Option.some.injEq, Ent.ent.injEq] at h1
        obtain ⟨rfl, rfl, rfl, _, rfl⟩ := h1
        exact g.nrb ht k d' t' lo' x' rc he1 h2 h3
  · intro id d tok loc h1
    rcases hs id with h | ⟨e, he1, he2, hj⟩
    · rw [h] at h1; exact g.snd.1 id d tok loc h1
    · rw [he2] at h1
      cases e with
      | ghost x => simp [Ent.setInSync] at h1
      | ent d' t' lo' x' del' =>
        simp only [Ent.setInSync, Option.some.injEq, Ent.ent.injEq] at h1
        obtain ⟨rfl, rfl, rfl, _, rfl⟩ := h1
        rcases hj with hj | hj | hj
        · simp [Ent.deleted] at hj
        · exact Or.inl hj
        · exact Or.inr (hj d' (by simp [Ent.live?]))
  · intro k d tok loc h1
    rcases hc k with h | ⟨e, he1, he2, hj⟩
    · rw [h] at h1; exact g.snd.2 k d tok loc h1
    · rw [he2] at h1
      cases e with
      | ghost x => simp [Ent.setInSync] at h1
      | ent d' t' lo' x' del' =>
        simp only [Ent.setInSync, Option.some.injEq, Ent.ent.injEq] at h1
        obtain ⟨rfl, rfl, rfl, _, rfl⟩ := h1
        rcases hj with hj | hj | hj
        · simp [Ent.deleted] at hj
        · exact Or.inl hj
        · exact Or.inr (hj d' (by simp [Ent.live?]))
  · intro id h1
    rcases hs id with h | ⟨e, he1, he2, _⟩
    · rw [h] at h1; exact g.tgt.1 id h1
    · rw [he2] at h1; cases h1
  · intro ht k h1
    rcases hc k with h | ⟨e, he1, he2, _⟩
    · rw [h] at h1; exact g.tgt.2 ht k h1
    · rw [he2] at h1; cases h1

/-! ### Catalog.Register -/

theorem register_spec {c c' : Cat} {r : RegReq} (h : c.register r = some c') :
    (∀ i, c'.svcs.get? i = match r.svc with
        | some p => if p.1 = i then some p.2 else c.svcs.get? i
        | none => c.svcs.get? i) ∧
    (∀ k, (∀ d, (k, d) ∉ r.chks) → c'.chks.get? k = c.chks.get? k) ∧
    (∀ k, (∃ d, (k, d) ∈ r.chks) → ∃ d rc, (k, d) ∈ r.chks ∧ c'.chks.get? k = some rc ∧ rc.core = d.core ∧
        (d.sid ≠ "" → c'.svcs.get? d.sid ≠ none)) ∧
    (c'.node = some r.nodeVal ∨ (c'.node = c.node ∧ c.node ≠ none)) := by
  unfold Cat.register at h
  simp only at h
  obtain ⟨hf1, hf2⟩ := regNode_frame c r.nodeVal r.skipNode
  cases hsv : r.svc with
  | none =>
    rw [hsv] at h; simp only at h
    obtain ⟨e1, e2⟩ := regChecks_frame _ _ _ h
    refine ⟨fun i => by rw [e1, hf1], ?_, ?_, ?_⟩
    · intro k hk; rw [regChecks_get?_other _ k _ _ h hk, hf2]
    · intro k hk
      obtain ⟨d, rc, m1, m2, m3, m4⟩ := regChecks_get?_mem _ k _ _ h hk
      exact ⟨d, rc, m1, m2, m3, fun hne => by rw [e1]; exact m4 hne⟩
    · rw [e2]; exact regNode_node c r.nodeVal r.skipNode
  | some p =>
    obtain ⟨id, d⟩ := p
    rw [hsv] at h; simp only at h
    obtain ⟨e1, e2⟩ := regChecks_frame _ _ _ h
    refine ⟨fun i => by rw [e1]; simp only [get?_set, hf1], ?_, ?_, ?_⟩
    · intro k hk; rw [regChecks_get?_other _ k _ _ h hk]; simp only [hf2]
    · intro k hk
      obtain ⟨d, rc, m1, m2, m3, m4⟩ := regChecks_get?_mem _ k _ _ h hk
      exact ⟨d, rc, m1, m2, m3, fun hne => by rw [e1]; exact m4 hne⟩
    · rw [e2]; exact regNode_node c r.nodeVal r.skipNode

theorem register_succeeds (c : Cat) (r : RegReq)
    (h : ∀ p ∈ r.chks, p.2.sid = "" ∨ (∃ d, r.svc = some (p.2.sid, d)) ∨ c.svcs.get? p.2.sid ≠ none) :
    ∃ c', c.register r = some c' := by
  unfold Cat.register
  simp only
  apply regChecks_succeeds
  intro p hp
  obtain ⟨hf1, _⟩ := regNode_frame c r.nodeVal r.skipNode
  rcases h p hp with h | ⟨d, h⟩ | h
  · exact Or.inl h
  · right; rw [h]; simp [get?_set]
  · right
    cases hsv : r.svc with
    | none => simp only; rw [hf1]; exact h
    | some q => simp only [get?_set, hf1]; split <;> simp_all

/-- registering definitions that the agent holds as live records -/
theorem GInv_register {l : Local} {c c' : Cat} {r : RegReq} (h : c.register r = some c')
    (hsv : ∀ id d, r.svc = some (id, d) → ∃ tok loc b, l.svcs.get? id = some (.ent d tok loc b false))
    (hck : ∀ k d, (k, d) ∈ r.chks → ∃ tok loc b, l.chks.get? k = some (.ent d tok loc b false))
    (g : GInv T Rs Rc Ps Pc l c) : GInv T Rs Rc Ps Pc l c' := by
  obtain ⟨s1, s2, s3, _⟩ := register_spec h
  obtain ⟨n1, n2, n3, n4⟩ := g.nek
  -- service presence only grows
  have hpres : ∀ i, c.svcs.get? i ≠ none → c'.svcs.get? i ≠ none := by
    intro i hi; rw [s1 i]
    cases hr : r.svc with
    | none => exact hi
    | some p => simp only; split <;> simp_all
  have hsvc_eq : ∀ i, c'.svcs.get? i = c.svcs.get? i ∨ ∃ d tok loc b, l.svcs.get? i = some (.ent d tok loc b false) ∧ c'.svcs.get? i = some d := by
    intro i; rw [s1 i]
    cases hr : r.svc with
    | none => exact Or.inl rfl
    | some p =>
      obtain ⟨id, d⟩ := p
      simp only
      split
      · rename_i e; subst e
        obtain ⟨tok, loc, b, hl⟩ := hsv id d hr
        exact Or.inr ⟨d, tok, loc, b, hl, rfl⟩
      · exact Or.inl rfl
  have hchk_eq : ∀ k, c'.chks.get? k = c.chks.get? k ∨ ∃ d tok loc b rc, l.chks.get? k = some (.ent d tok loc b false) ∧
      c'.chks.get? k = some rc ∧ rc.core = d.core ∧ (d.sid ≠ "" → c'.svcs.get? d.sid ≠ none) := by
    intro k
    by_cases hk : ∃ d, (k, d) ∈ r.chks
    · obtain ⟨d, rc, m1, m2, m3, m4⟩ := s3 k hk
      obtain ⟨tok, loc, b, hl⟩ := hck k d m1
      exact Or.inr ⟨d, tok, loc, b, rc, hl, m2, m3, m4⟩
    · exact Or.inl (s2 k (fun d hd => hk ⟨d, hd⟩))
  refine ⟨g.lwf, ?_, ?_, ?_, ⟨?_, ?_⟩, ⟨?_, ?_⟩⟩
  · -- CatWF
    intro k rc h1 h2
    rcases hchk_eq k with e | ⟨d, tok, loc, b, rc', hl, hc', hcore, hsid⟩
    · rw [e] at h1; exact hpres _ (g.cwf k rc h1 h2)
    · rw [hc'] at h1; cases h1
      have : rc.sid = d.sid := by have := congrArg Prod.fst hcore; simpa [ChkDef.core] using this
      rw [this] at h2 ⊢; exact hsid h2
  · refine ⟨n1, n2, ?_, ?_⟩
    · rcases hsvc_eq "" with e | ⟨d, tok, loc, b, hl, _⟩
      · rw [e]; exact n3
      · rw [n1] at hl; cases hl
    · rcases hchk_eq "" with e | ⟨d, tok, loc, b, rc, hl, _⟩
      · rw [e]; exact n4
      · rw [n2] at hl; cases hl
  · intro ht k d tok loc b rc h1 h2 h3
    rcases hchk_eq k with e | ⟨d', tok', loc', b', rc', hl, _⟩
    · rw [e] at h3; exact g.nrb ht k d tok loc b rc h1 h2 h3
    · rw [hl] at h1; cases h1
  · intro id d tok loc h1
    rcases hsvc_eq id with e | ⟨d', tok', loc', b', hl, hc'⟩
    · rw [e]; exact g.snd.1 id d tok loc h1
    · rw [hl] at h1; cases h1; exact Or.inr hc'
  · intro k d tok loc h1
    rcases hchk_eq k with e | ⟨d', tok', loc', b', rc', hl, hc', hcore, _⟩
    · rw [e]; exact g.snd.2 k d tok loc h1
    · rw [hl] at h1; cases h1; exact Or.inr ⟨rc', hc', hcore⟩
  · intro id h1
    rcases hsvc_eq id with e | ⟨d', tok', loc', b', hl, _⟩
    · rw [e]; exact g.tgt.1 id h1
    · rw [h1] at hl; cases hl
  · intro ht k h1
    rcases hchk_eq k with e | ⟨d', tok', loc', b', rc', hl, _⟩
    · rw [e]; exact g.tgt.2 ht k h1
    · rw [h1] at hl; cases hl

/-! ### Catalog.Deregister -/

theorem GInv_deregSvc {l : Local} {c : Cat} (id : Id) (hl : liveSvc l id = none)
    (g : GInv T Rs Rc Ps Pc l c) : GInv T Rs Rc Ps Pc l (c.deregSvc id) := by
  obtain ⟨n1, n2, n3, n4⟩ := g.nek
  have hsub : ∀ k rc, (c.deregSvc id).chks.get? k = some rc → c.chks.get? k = some rc ∧ (c.svcs.get? id ≠ none → rc.sid ≠ id) := by
    intro k rc h
    rw [deregSvc_chks] at h
    cases hs : c.svcs.get? id with
    | none => rw [hs] at h; exact ⟨h, fun x => absurd rfl x⟩
    | some s =>
      rw [hs] at h; simp only at h
      cases hk : c.chks.get? k with
      | none => rw [hk] at h; cases h
      | some rc' =>
        rw [hk] at h; simp only at h
        split at h
        · cases h
        · cases h; exact ⟨rfl, fun _ => by assumption⟩
  refine ⟨g.lwf, ?_, ?_, ?_, ⟨?_, ?_⟩, ⟨?_, ?_⟩⟩
  · intro k rc h1 h2
    obtain ⟨h3, h4⟩ := hsub k rc h1
    have := g.cwf k rc h3 h2
    rw [deregSvc_svcs]
    split
    · rename_i e; subst e
      exact absurd rfl (h4 this)
    · exact this
  · refine ⟨n1, n2, ?_, ?_⟩
    · rw [deregSvc_svcs]; split <;> simp_all
    · cases h : (c.deregSvc id).chks.get? "" with
      | none => rfl
      | some rc => have := (hsub "" rc h).1; rw [n4] at this; cases this
  · intro ht k d tok loc b rc h1 h2 h3
    exact g.nrb ht k d tok loc b rc h1 h2 (hsub k rc h3).1
  · intro i d tok loc h1
    rcases g.snd.1 i d tok loc h1 with h | h
    · exact Or.inl h
    · right; rw [deregSvc_svcs]
      split
      · rename_i e; subst e
        simp [liveSvc, h1, Ent.live?] at hl
      · exact h
  · intro k d tok loc h1
    rcases g.snd.2 k d tok loc h1 with h | ⟨rc, h, hcore⟩
    · exact Or.inl h
    · right
      refine ⟨rc, ?_, hcore⟩
      rw [deregSvc_chks]
      cases hs : c.svcs.get? id with
      | none => exact h
      | some s =>
        simp only [h]
        split
        · rename_i e
          have hsid : d.sid = id := by
            have := congrArg Prod.fst hcore; simp [ChkDef.core] at this; rw [← this]; exact e
          have hne : id ≠ "" := by intro e0; rw [e0, n3] at hs; cases hs
          have := g.lwf k d (by simp [liveChk, h1, Ent.live?]) (by rw [hsid]; exact hne)
          rw [hsid] at this; exact absurd hl this
        · rfl
  · intro i h1
    rcases g.tgt.1 i h1 with h | h
    · left; rw [deregSvc_svcs]; split <;> simp_all
    · exact Or.inr h
  · intro ht k h1
    rcases g.tgt.2 ht k h1 with h | h
    · left
      cases h' : (c.deregSvc id).chks.get? k with
      | none => rfl
      | some rc => have := (hsub k rc h').1; rw [h] at this; cases this
    · exact Or.inr h

theorem deregChk_chks (c : Cat) (k k' : Id) :
    (c.deregChk k).chks.get? k' = if k = k' then none else c.chks.get? k' := by
  simp [Cat.deregChk, get?_erase]

theorem GInv_deregChk {l : Local} {c : Cat} (k : Id) (hl : liveChk l k = none)
    (g : GInv T Rs Rc Ps Pc l c) : GInv T Rs Rc Ps Pc l (c.deregChk k) := by
  obtain ⟨n1, n2, n3, n4⟩ := g.nek
  have hsub : ∀ k' rc, (c.deregChk k).chks.get? k' = some rc → c.chks.get? k' = some rc := by
    intro k' rc h; rw [deregChk_chks] at h; split at h
    · cases h
    · exact h
  refine ⟨g.lwf, ?_, ⟨n1, n2, n3, ?_⟩, ?_, ⟨g.snd.1, ?_⟩, ⟨g.tgt.1, ?_⟩⟩
  · intro k' rc h1 h2; exact g.cwf k' rc (hsub k' rc h1) h2
  · rw [deregChk_chks]; split <;> simp_all
  · intro ht k' d tok loc b rc h1 h2 h3; exact g.nrb ht k' d tok loc b rc h1 h2 (hsub k' rc h3)
  · intro k' d tok loc h1
    rcases g.snd.2 k' d tok loc h1 with h | ⟨rc, h, hcore⟩
    · exact Or.inl h
    · right; refine ⟨rc, ?_, hcore⟩
      rw [deregChk_chks]; split
      · rename_i e; subst e; simp [liveChk, h1, Ent.live?] at hl
      · exact h
  · intro ht k' h1
    rcases g.tgt.2 ht k' h1 with h | h
    · left; rw [deregChk_chks]; split <;> simp_all
    · exact Or.inr h

end CV.AE
