/-
CV.Store.Apply — the single command type of the store model and `apply`, one committed Raft entry.

Mirrors the FSM handlers of agent/consul/fsm/commands_ce.go (`applyKVSOperation`,
`applySessionOperation`, `applyRegister`, `applyDeregister`, `applyTombstoneOperation`,
`applyPreparedQueryOperation`, `applyTxn`) and the `Store` wrappers they call: each opens one
`WriteTxn(idx)`, runs the inner `…Txn` function and commits only when it returned no error
(`defer tx.Abort()`): on an error the state is exactly the state before the command.
-/
import CV.Store.Txn
namespace CV.Store
open CV

inductive Cmd
  | kvSet (e : KV) | kvCas (e : KV) | kvDelete (k : Key) | kvDeleteCas (k : Key) (cidx : Nat)
  | kvDeleteTree (p : Key) | kvLock (e : KV) | kvUnlock (e : KV)
  | sessionCreate (r : SessReq) | sessionDestroy (id : String)
  | register (r : RegReq)
  | deregister (node svcId chkId : String)
  | reap (upto : Nat)
  | pqSet (id session : String) | pqDelete (id : String)
  | txn (ops : List TxnOp)
deriving DecidableEq, Repr

inductive Result
  | ok                                   -- nil error, no value
  | bool (b : Bool)                      -- cas / delete-cas / lock / unlock verdict
  | err (e : Err)
  | txn (results : List TxnRes) (errors : List (Nat × Err))
deriving DecidableEq, Repr

def Result.isErr : Result → Bool
  | .err _ => true
  | .txn _ (_ :: _) => true
  | _ => false

def liftS (s : State) : Except Err State → State × Result
  | .ok s' => (s', .ok)
  | .error e => (s, .err e)

def liftB (s : State) : Except Err (State × Bool) → State × Result
  | .ok (s', b) => (if b then s' else s, .bool b)      -- `if !set { return false }` — no commit
  | .error e => (s, .err e)

/-- apply one committed log entry with Raft index `idx` -/
def apply (s : State) (idx : Nat) : Cmd → State × Result
  | .kvSet e => liftS s ((kvSetTxn s idx e false).map (·.1))
  | .kvCas e => liftB s ((kvSetCasTxn s idx e).map (fun r => (r.1, r.2.1)))
  | .kvDelete k => liftS s (kvDeleteTxn s idx k)
  | .kvDeleteCas k c => liftB s (kvDeleteCasTxn s idx c k)
  | .kvDeleteTree p => (kvDeleteTreeTxn s idx p, .ok)
  | .kvLock e => liftB s ((kvLockTxn s idx e).map (fun r => (r.1, r.2.1)))
  | .kvUnlock e => liftB s ((kvUnlockTxn s idx e).map (fun r => (r.1, r.2.1)))
  | .sessionCreate r => liftS s (sessionCreate s idx r)
  | .sessionDestroy id => liftS s (deleteSession s idx id)
  | .register r => liftS s (ensureRegistration s idx r)
  | .deregister node svcId chkId =>
    if svcId ≠ "" then liftS s (deleteService s idx node svcId)
    else if chkId ≠ "" then liftS s (deleteCheck s idx node chkId)
    else liftS s (deleteNode s idx node)
  | .reap upto => (reapTxn s upto, .ok)
  | .pqSet id session => liftS s (pqSet s idx id session)
  | .pqDelete id => (pqDelete s idx id, .ok)
  | .txn ops => let (s', rs, es) := txnRW s idx ops; (s', .txn rs es)

/-- a log: (raft index, command) pairs -/
abbrev Log := List (Nat × Cmd)

def replay (s : State) (log : Log) : State := log.foldl (fun st ic => (apply st ic.1 ic.2).1) s

/-- results of a replay, in order -/
def replayResults : State → Log → List Result
  | _, [] => []
  | s, (i, c) :: rest => (apply s i c).2 :: replayResults (apply s i c).1 rest

end CV.Store
