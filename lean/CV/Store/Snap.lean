/-
CV.Store.Snap — snapshot / restore over the shared store model (property C02, round 3).

Mirrors, for the tables of `CV.Store.State`:
  agent/consul/fsm/snapshot.go     `Persist` (header `LastIndex`)
  agent/consul/fsm/snapshot_ce.go  `persistCE` order restricted to the covered tables:
                                     persistNodes (node; then one record per service; then one per check, all
                                     through `Node.ToRegisterRequest`), persistSessions, persistKVs,
                                     persistTombstones, persistPreparedQueries, persistIndex
                                   and the registered restorers
  agent/consul/state               `Restore.Registration` → `ensureRegistrationTxn(idx = header.LastIndex,
                                     preserveIndexes = true)` → `ensureNodeTxn` / `ensureServiceTxn` /
                                     `ensureCheckTxn` with preserveIndexes; `Restore.Session` →
                                     `insertSessionTxn(updateMax)` (no validation, no check rewrite);
                                     `Restore.KVS`, `Restore.Tombstone`, `Restore.PreparedQuery`
                                     (insert + `indexUpdateMaxTxn`); `Restore.IndexRestore` (verbatim insert)
  agent/consul/fsm/fsm.go          `Restore`: one fold over the record stream into a fresh store; the first
                                     restorer error aborts the whole restore.

Nothing of the existing store model is changed: the non-preserving `ensureNode` / `ensureService` of
CV.Store.Catalog get preserving twins here (`ensureNodeR`, `ensureServiceR`); `ensureCheck` already carries
the `preserve` flag. The leader-local part `loc` is not in a snapshot: a restored store starts with an empty
lock-delay map. Usage, kind-service-names and the other derived tables are outside `State` (see CV.Snap for
the usage row and the harness for the rest).
-/
import CV.Store.Apply
import CV.Generated.FactsSnap
namespace CV.Store
open CV

/-! ### records -/

/-- one record of the snapshot stream (message type + payload) -/
inductive SRec
  | reg (r : RegReq)            -- RegisterRequestType
  | sess (x : Sess)             -- SessionRequestType
  | kv (e : KV)                 -- KVSRequestType
  | tomb (t : Tomb)             -- TombstoneRequestType (a DirEntry with Key + ModifyIndex)
  | pq (q : PQ)                 -- PreparedQueryRequestType
  | index (k : String) (v : Nat)  -- IndexRequestType
deriving DecidableEq, Repr

structure SSnapshot where
  last : Nat
  recs : List SRec
deriving DecidableEq, Repr

/-! ### persist -/

/-- `s.state.Services(n.Node)`: the node's services in id-index order -/
def svcsOf (s : State) (n : Node) : List Svc := s.svcs.filter (fun v => lc v.node == lc n.name)
/-- `s.state.Checks(n.Node)` -/
def chksOf (s : State) (n : Node) : List Chk := s.chks.filter (fun c => lc c.node == lc n.name)

/-- `persistNodes` for one node: the node itself, then `req.Service = svc` per service, then
    `req.Service = nil; req.Check = check` per check — every record repeats the node part of the request -/
def nodeRecs (s : State) (n : Node) : List SRec :=
  SRec.reg ⟨n, none, []⟩ ::
    ((svcsOf s n).map (fun v => SRec.reg ⟨n, some v, []⟩) ++ (chksOf s n).map (fun c => SRec.reg ⟨n, none, [c]⟩))

/-- schema table names (regenerated facts: state/schema.go `newDBSchema`): the header takes the maximum of
    THEIR index rows only (`Store.Snapshot`: `maxIndexTxn(tx, tables...)`) -/
def headerTables : List String := CV.Facts.Snap.schemaTables

/-- header `LastIndex` -/
def lastIndexS (s : State) : Nat := headerTables.foldl (fun m k => max m (idxVal s.index k)) 0

def snapshotS (s : State) : SSnapshot :=
  { last := lastIndexS s
    recs := s.nodes.flatMap (nodeRecs s) ++ s.sessions.map SRec.sess ++ s.kvs.map SRec.kv ++
            s.tombs.map SRec.tomb ++ s.queries.map SRec.pq ++ s.index.map (fun r => SRec.index r.1 r.2) }

/-! ### the preserving twins of `ensureNode` / `ensureService` / `ensureRegistration` -/

/-- `ensureNodeTxn` with preserveIndexes = true: a new row keeps the indexes of the request unless its
    CreateIndex is 0 (snapshots older than 1.9.0 carried no node indexes) -/
def ensureNodeR (s : State) (idx : Nat) (node : Node) : Except Err State :=
  let r : Except Err (State × Option Node) :=
    if node.id ≠ "" then
      match nodeFindByID s node.id with
      | some n =>
        if lc n.name ≠ lc node.name then
          if nameClash s node false then .error .nodeNameReserved
          else match deleteNode s idx n.name with
            | .ok s' => .ok (s', some n)
            | .error e => .error e
        else .ok (s, some n)
      | none => if nameClash s node true then .error .nodeNameReserved else .ok (s, none)
    else .ok (s, none)
  match r with
  | .error e => .error e
  | .ok (s1, byId) =>
    let n? := match byId with
      | some n => some n
      | none => nodeFind s1 node.name
    match n? with
    | some n =>
      let node := { node with create := n.create, modify := n.modify }
      if nodeSame node n then .ok s1
      else .ok (nodeInsert s1 { node with modify := idx })
    | none =>
      if node.create = 0 then .ok (nodeInsert s1 { node with create := idx, modify := idx })
      else .ok (nodeInsert s1 node)

/-- `ensureServiceTxn` (typical kind) with preserveIndexes = true: the row is written with the indexes it
    carries (those of the existing row when there is one) -/
def ensureServiceR (s : State) (v : Svc) : Except Err State :=
  match nodeFind s v.node with
  | none => .error .missingNode
  | some _ =>
    match svcFind s v.node v.id with
    | some x =>
      let e := { v with create := x.create, modify := x.modify }
      if svcSame e x then .ok s else .ok (svcInsert s e)
    | none => .ok (svcInsert s v)

/-- `ensureCheckIfNodeMatches` with preserveIndexes = true -/
def ensureCheckIfNodeMatchesR (s : State) (idx : Nat) (node : String) (c : Chk) : Except Err State :=
  if lc c.node ≠ lc node then .error .checkNodeMismatch else ensureCheck s idx true c

/-- `Restore.Registration`: `ensureRegistrationTxn(tx, idx, preserveIndexes = true, req, restore = true)` -/
def ensureRegistrationR (s : State) (idx : Nat) (r : RegReq) : Except Err State :=
  let r1 : Except Err State :=
    match nodeFind s r.node.name with
    | some x => if nodeSame r.node x then .ok s else ensureNodeR s idx r.node
    | none => ensureNodeR s idx r.node
  match r1 with
  | .error e => .error e
  | .ok s1 =>
    let r2 : Except Err State :=
      match r.svc with
      | none => .ok s1
      | some v =>
        match svcFind s1 r.node.name v.id with
        | some x => if x.id == v.id && x.name == v.name && x.port == v.port then .ok s1
                    else ensureServiceR s1 { v with node := r.node.name }
        | none => ensureServiceR s1 { v with node := r.node.name }
    match r2 with
    | .error e => .error e
    | .ok s2 => foldE (fun st c => ensureCheckIfNodeMatchesR st idx r.node.name c) r.checks s2

/-! ### restorers -/

/-- `Restore.Session` → `insertSessionTxn(tx, sess, sess.ModifyIndex, updateMax = true)` -/
def restoreSession (s : State) (x : Sess) : State :=
  { s with sessions := tupsert Sess.pk strLt x s.sessions,
           sessChecks := x.checks.foldl (fun t c => tupsert SessCheck.pk strLt ⟨x.node, c, x.id⟩ t) s.sessChecks,
           index := idxMax s.index "sessions" x.modify }

/-- `Restore.KVS` → `insertKVTxn(updateMax = true)`; memdb refuses a row with an empty key -/
def restoreKV (s : State) (e : KV) : Except Err State :=
  if e.key = [] then .error .emptyKey
  else .ok { s with kvs := tupsert KV.pk keyLt e s.kvs, index := idxMax s.index "kvs" e.modify }

/-- `Restore.Tombstone` → `Graveyard.RestoreTxn` -/
def restoreTomb (s : State) (t : Tomb) : Except Err State :=
  if t.key = [] then .error .emptyKey
  else .ok { s with tombs := tupsert Tomb.pk keyLt t s.tombs, index := idxMax s.index "tombstones" t.idx }

/-- `Restore.PreparedQuery` (plain query): insert + `indexUpdateMaxTxn(query.ModifyIndex, "prepared-queries")` -/
def restorePQ (s : State) (q : PQ) : State :=
  { s with queries := tupsert PQ.pk strLt q s.queries, index := idxMax s.index "prepared-queries" q.modify }

/-- one record through its registered restorer, given the header -/
def restoreRec (last : Nat) (s : State) : SRec → Except Err State
  | .reg r => ensureRegistrationR s last r
  | .sess x => .ok (restoreSession s x)
  | .kv e => restoreKV s e
  | .tomb t => restoreTomb s t
  | .pq q => .ok (restorePQ s q)
  | .index k v => .ok (s.setIdx k v)      -- Restore.IndexRestore: tx.Insert(tableIndex, idx) — verbatim

/-- `FSM.Restore`: fresh store, every record through its restorer, first error aborts -/
def restoreS (sn : SSnapshot) : Except Err State := foldE (restoreRec sn.last) sn.recs State.empty

end CV.Store
