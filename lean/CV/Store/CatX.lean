/-
CV.Store.CatX — the catalog layer of property C07, built AROUND the shared store model
(`CV.Store.State`, `apply`): service kinds (typical, connect-proxy, connect-native, the gateway
kinds), peer-imported catalogs, coordinates, kind-service-names, virtual IPs and the free list,
usage counters, the config entries that influence them, and the `virtual-ips` system-metadata flag.

Shape (nothing in CV/Store/{Types..Apply}.lean is changed):
  * `Cat`     one catalog = a base `State` (nodes, services, checks, sessions, index rows) + `ext`,
              the attributes of every service row the base row type has no field for (kind,
              Connect.Native, proxy destination, upstreams, the `consul-virtual` tagged address),
              keyed and ordered exactly like `State.svcs`.
  * `XState`  the local `Cat`, one `Cat` per peer name (imported rows live in the same memdb tables
              under another key prefix: an imported catalog is one more instance of the same functions),
              plus the tables shared by all of them.
  * the wrapper functions call the base functions for everything they already do
    (`ensureNode`'s pieces, `svcInsert`, `deleteService` incl. its check / session cascade,
    `deleteCheck`, `ensureCheck…`, `deleteNodePost`, `deleteSession`, `txnStep`, `apply`) and add what
    agent/consul/state/catalog.go does around them: `ensureServiceTxn` (kind-service-names,
    `assignServiceVirtualIP`, the tagged address, `IsSameService` on the full row),
    the tail of `deleteServiceTxn` (`freeServiceVirtualIP`, `cleanupKindServiceName`, connect-enabled
    cleanup), the coordinate cascade of `deleteNodeTxn`, `CoordinateBatchUpdate`,
    `SystemMetadataSet/Delete`, `ensureConfigEntryTxn` / `deleteConfigEntryTxn` as far as they touch
    these tables, and `updateUsage` (usage.go), which runs at commit on the change set.

Copied because the code has them (not because they look right):
  * free-virtual-ips is keyed by `StringFieldIndex{Field:"IP"}` on a `net.IP`: reflect's
    `Value.String()` of a slice is the constant "<net.IP Value>", so the table holds at most ONE freed
    address (and one counter row); freeing a second address overwrites the first (it is never reused).
  * `freeServiceVirtualIP` is driven by the instances NAMED like the service, while the address is
    assigned for (and advertised by) the sidecar proxies of that name: the last `web` instance going
    away frees web's address although `web-sidecar-proxy` instances still advertise it.
  * `ensureServiceTxn` never removes the connect-enabled kind-service-names row when an instance is
    re-registered without Connect.Native / with another proxy destination.
  * `updateServiceNameUsage` keys its Go map by the exact service name but counts through the
    lower-cased index.
  * kind-service-names / VIPs / connect-enabled are written BEFORE the node lookup of
    `ensureServiceTxn`; they persist when the row itself is not rewritten (`IsSameService`).

Not modelled here (stage 2; compared by the Go monitor only): gateway-services, mesh-topology,
terminating-gateway virtual IPs (`virtual-ips-term-gateway` flag is never set), manual VIPs,
index-table rows of the added tables, `service_kind.*` index rows (the base model writes
`service_kind.typical` for every kind; the engine drops these rows from the comparison).
Core-only Lean; no Mathlib.
-/
import CV.Store.Apply
namespace CV.Store
open CV

/-! ### service kinds -/

inductive Kind
  | typical | connectProxy | meshGateway | terminatingGateway | ingressGateway | apiGateway
  | connectEnabled | destination
deriving DecidableEq, Repr

/-- `string(structs.ServiceKind)` (typical is the empty string) -/
def Kind.raw : Kind → String
  | .typical => "" | .connectProxy => "connect-proxy" | .meshGateway => "mesh-gateway"
  | .terminatingGateway => "terminating-gateway" | .ingressGateway => "ingress-gateway"
  | .apiGateway => "api-gateway" | .connectEnabled => "connect-enabled" | .destination => "destination"

/-- `ServiceKind.Normalized()` -/
def Kind.name (k : Kind) : String := if k = .typical then "typical" else k.raw

/-! ### rows -/

/-- the attributes of a service row that `Svc` has no field for; same key as the row -/
structure SvcX where
  node : String
  id : String
  kind : Kind
  native : Bool              -- Connect.Native
  dest : String              -- Proxy.DestinationServiceName
  ups : List String          -- Proxy.Upstreams[*].DestinationName
  vip : Option Nat           -- TaggedAddresses["consul-virtual"] as the offset inside the VIP range (port = the row's port)
deriving DecidableEq, Repr

def SvcX.pk (e : SvcX) : String := pk2 e.node e.id

/-- one catalog (the local one, or the rows imported from one peer) -/
structure Cat where
  st : State := {}
  ext : List SvcX := []
deriving DecidableEq, Repr

/-- `structs.Coordinate` (the coordinate itself is an opaque token) -/
structure CoordRow where
  node : String
  segment : String
  val : Nat
deriving DecidableEq, Repr

def CoordRow.pk (c : CoordRow) : String := pk2 c.node c.segment

/-- `state.KindServiceName` -/
structure KsnRow where
  kind : Kind
  name : String
  create : Nat
  modify : Nat
deriving DecidableEq, Repr

def ksnKey (k : Kind) (name : String) : String := pk2 k.raw name
def KsnRow.pk (r : KsnRow) : String := ksnKey r.kind r.name

/-- `state.ServiceVirtualIP` (ManualIPs not modelled); `ip` is the offset inside the range -/
structure VipRow where
  peer : String
  name : String
  ip : Nat
  create : Nat
  modify : Nat
deriving DecidableEq, Repr

/-- `indexFromPeeredServiceName` -/
def vipKey (peer name : String) : String := pk2 (if peer = "" then "~" else "peer:" ++ peer) name
def VipRow.pk (r : VipRow) : String := vipKey r.peer r.name

/-- `state.UsageEntry` -/
structure UsageRow where
  id : String
  count : Nat
  index : Nat
deriving DecidableEq, Repr

def UsageRow.pk (r : UsageRow) : String := lc r.id

/-- a config entry, as far as the catalog tables depend on it: kind, name, whether a service-defaults
    entry has a Destination, and an opaque token of the rest of the payload -/
structure CfgRow where
  kind : String
  name : String
  dest : Bool
  tok : String
  create : Nat
  modify : Nat
deriving DecidableEq, Repr

def CfgRow.pk (r : CfgRow) : String := pk2 r.kind r.name

/-- GHOST record (instrumentation only: no function of the model reads it, the real store has no counterpart,
    the engine does not print it). It lists the keys of derived rows at the moments one of the recorded mechanisms
    by which consul's derived tables drift from their recomputation fires; the "justified or known" theorems of
    CV.Props.C07 say a derived row can disagree with the recomputation only if its key is listed here. -/
structure Ghost where
  /-- virtual-ips keys `freeServiceVirtualIP` freed while a catalog row still advertised the address -/
  freedAdvertised : List String := []
  /-- kind-service-names keys left behind: (a) the old (kind, name) / connect-enabled name of a local instance
      re-registered under another kind, name or Connect name (`ensureServiceTxn` only upserts); (b) the (kind, name)
      of a deregistered instance when instances of the name remain but none of that kind (`deleteServiceTxn` cleans
      only when no instance of the name remains); (c) the destination row of a service-defaults entry overwritten by
      one without a Destination -/
  staleKsn : List String := []
deriving DecidableEq, Repr

def Ghost.noteFree (g : Ghost) (b : Bool) (key : String) : Ghost := ⟨if b then key :: g.freedAdvertised else g.freedAdvertised, g.staleKsn⟩
def Ghost.noteStale (g : Ghost) (keys : List String) : Ghost := ⟨g.freedAdvertised, g.staleKsn ++ keys⟩

structure XState where
  loc : Cat := {}
  /-- imported catalogs, keyed by the lower-cased peer name -/
  peers : List (String × Cat) := []
  coords : List CoordRow := []
  kindNames : List KsnRow := []
  vips : List VipRow := []
  /-- free-virtual-ips: the single freed address the table can hold, and the counter row -/
  freeIP : Option Nat := none
  counter : Option Nat := none
  usage : List UsageRow := []
  cfg : List CfgRow := []
  sysMeta : List (String × String) := []
  ghost : Ghost := {}
deriving DecidableEq, Repr

def XState.empty : XState := {}

inductive XErr
  | store (e : Err)
  | vipExhausted            -- "cannot allocate any more unique service virtual IPs"
  | desync                  -- model-internal: a service row without its `ext` row (never on reachable states)
deriving DecidableEq, Repr

def XErr.name : XErr → String
  | .store e => e.name | .vipExhausted => "vip-exhausted" | .desync => "DESYNC"

def liftX {α : Type} : Except Err α → Except XErr α
  | .ok a => .ok a
  | .error e => .error (.store e)

/-! ### access -/

def XState.cat (s : XState) (p : String) : Cat :=
  if p = "" then s.loc
  else match tfind (·.1) (lc p) s.peers with
    | some x => x.2
    | none => {}          -- nothing imported from that peer yet: an empty catalog

def XState.setCat (s : XState) (p : String) (c : Cat) : XState :=
  if p = "" then { s with loc := c } else { s with peers := tupsert (·.1) strLt (lc p, c) s.peers }

def extFind (c : Cat) (node id : String) : Option SvcX := tfind SvcX.pk (pk2 node id) c.ext

/-- the joined view: every service row with its attributes (rows without attributes are dropped; `ExtSync`
    shows there are none) -/
def Cat.rows (c : Cat) : List (Svc × SvcX) :=
  c.st.svcs.filterMap fun v => (tfind SvcX.pk v.pk c.ext).map fun e => (v, e)

/-- `tx.First(tableServices, indexService, name)` is non-nil -/
def hasInstanceNamed (c : Cat) (name : String) : Bool := c.st.svcs.any fun v => lc v.name == lc name

/-- `connectNameFromServiceNode` -/
def connectName (r : Svc × SvcX) : Option String :=
  if r.2.kind = .connectProxy then some r.2.dest
  else if r.2.native then some r.1.name
  else none

/-- the row is in the `connect` index under `name` -/
def isConnectFor (name : String) (r : Svc × SvcX) : Bool :=
  match connectName r with
  | some n => lc n == lc name
  | none => false

/-- `serviceHasConnectEnabledInstances` -/
def hasConnectInstance (c : Cat) (name : String) : Bool := c.rows.any (isConnectFor name)

/-- `virtualIPsSupported` -/
def XState.vipsSupported (s : XState) : Bool :=
  match tfind (·.1) "virtual-ips" s.sysMeta with
  | some e => e.2 != ""
  | none => false

/-! ### kind-service-names -/

/-- `upsertKindServiceName` -/
def ksnUpsert (t : List KsnRow) (idx : Nat) (k : Kind) (name : String) : List KsnRow :=
  match tfind KsnRow.pk (ksnKey k name) t with
  | some _ => t
  | none => tupsert KsnRow.pk strLt ⟨k, name, idx, idx⟩ t

/-- `cleanupKindServiceName` -/
def ksnCleanup (t : List KsnRow) (k : Kind) (name : String) : List KsnRow := terase KsnRow.pk (ksnKey k name) t

/-! ### virtual IPs -/

/-- `maxOffsetIPv4` of 240.0.0.0/4 -/
def maxVipOffset : Nat := 2 ^ 28 - 2

/-- `assignServiceVirtualIP`: the state and the offset assigned to (peer, name) -/
def assignVip (s : XState) (idx : Nat) (peer name : String) : Except XErr (XState × Nat) :=
  match tfind VipRow.pk (vipKey peer name) s.vips with
  | some r => .ok (s, r.ip)
  | none =>
    match s.freeIP with
    | some ip =>
      .ok ({ s with freeIP := none, vips := tupsert VipRow.pk strLt ⟨peer, name, ip, idx, idx⟩ s.vips }, ip)
    | none =>
      let cur := match s.counter with | some c => c | none => 0
      let new := cur + 1
      if new = maxVipOffset then .error .vipExhausted
      else .ok ({ s with counter := some new, vips := tupsert VipRow.pk strLt ⟨peer, name, new, idx, idx⟩ s.vips }, new)

/-- config entry kinds that keep a service's virtual IP alive (`freeServiceVirtualIP`) / get one
    assigned (`configEntryHasVirtualIP`; service-intentions with a wildcard name are excluded there) -/
def cfgVipKinds : List String :=
  ["service-resolver", "service-router", "service-splitter", "service-defaults", "service-intentions"]

def cfgHasVip (kind name : String) : Bool :=
  name != "" && cfgVipKinds.contains kind && !(kind == "service-intentions" && name.contains '*')

/-- row `r` of the catalog with peer key `q` advertises a virtual IP for the assignment with key `K` -/
def advertises (q K : String) (r : Svc × SvcX) : Bool :=
  r.2.vip.isSome && (match connectName r with
    | some sn => vipKey q sn == K
    | none => false)

/-- some catalog row advertises a virtual IP for the assignment with key `K` (ghost) -/
def advertisedKey (s : XState) (K : String) : Bool :=
  s.loc.rows.any (advertises "" K) || s.peers.any (fun pc => pc.2.rows.any (advertises pc.1 K))

/-- `freeServiceVirtualIP` (terminating-gateway guard: flag never set) -/
def freeVip (s : XState) (peer name : String) : XState :=
  if !s.vipsSupported then s
  else if hasInstanceNamed (s.cat peer) name then s
  else if s.cfg.any (fun c => cfgVipKinds.contains c.kind && lc c.name == lc name) then s
  else match tfind VipRow.pk (vipKey peer name) s.vips with
    | none => s
    | some r => { s with vips := terase VipRow.pk (vipKey peer name) s.vips, freeIP := some r.ip,
                         ghost := s.ghost.noteFree (advertisedKey s (vipKey peer name)) (vipKey peer name) }

/-! ### services -/

/-- `structs.NodeService` of a request -/
structure SvcReq where
  id : String
  name : String
  port : Nat
  kind : Kind
  native : Bool
  dest : String
  ups : List String
  /-- the request carries explicit default Weights{1,1} (`NodeService.IsSame` compares the pointer's
      target with the stored defaults; a request without Weights is never "the same") -/
  weights : Bool
  modify : Nat          -- ModifyIndex of the request (CAS verbs)
deriving DecidableEq, Repr

/-- `ServiceNode.IsSameService` on the attribute part -/
def extSame (a b : SvcX) : Bool :=
  a.kind == b.kind && a.native == b.native && a.dest == b.dest && a.ups == b.ups && a.vip == b.vip

/-- `existing.ToNodeService().IsSame(req.Service)` (ensureRegistrationTxn) -/
def reqSame (x : Svc) (e : SvcX) (q : SvcReq) : Bool :=
  q.weights && x.id == q.id && x.name == q.name && x.port == q.port && e.kind == q.kind &&
  e.native == q.native && e.dest == q.dest && e.ups == q.ups && e.vip == none

/-- the Connect name of a request (`connectNameFromServiceNode` of the row it writes) -/
def SvcReq.connectName (q : SvcReq) : Option String :=
  if q.kind = .connectProxy then some q.dest else if q.native then some q.name else none

/-- GHOST: the kind-service-names keys a registration leaves without an owner: the old (kind, name) of the instance
    when kind or name change, its old connect-enabled name when the Connect name changes -/
def svcStaleKeys (c : Cat) (node : String) (q : SvcReq) : List String :=
  match svcFind c.st node q.id, extFind c node q.id with
  | some x, some ex =>
    (if ex.kind ≠ q.kind ∨ lc x.name ≠ lc q.name then [ksnKey ex.kind x.name] else []) ++
    (match connectName (x, ex) with
      | some n => if q.connectName.map lc = some (lc n) then [] else [ksnKey .connectEnabled n]
      | none => [])
  | _, _ => []

/-- write a service row and its attributes -/
def XState.putSvc (s : XState) (p : String) (v : Svc) (e : SvcX) : XState :=
  let c := s.cat p
  s.setCat p { st := svcInsert c.st v, ext := tupsert SvcX.pk strLt e c.ext }

/-- `ensureServiceTxn` (preserveIndexes = false) -/
def ensureServiceX (s : XState) (p : String) (idx : Nat) (node : String) (q : SvcReq) : Except XErr XState :=
  let c := s.cat p
  -- local services: kind-service-names (gateway-services maintenance: not modelled)
  let s1 := if p = "" then
      { s with kindNames := ksnUpsert s.kindNames idx q.kind q.name,
               ghost := s.ghost.noteStale (svcStaleKeys c node q) }
    else s
  -- connect services: connect-enabled name and virtual IP of the destination
  let r2 : Except XErr (XState × Option Nat) :=
    if q.kind = .connectProxy ∨ q.native = true then
      let sn := if q.kind = .connectProxy then q.dest else q.name
      let s2 := if p = "" ∧ sn ≠ "" then { s1 with kindNames := ksnUpsert s1.kindNames idx .connectEnabled sn } else s1
      if s2.vipsSupported = true ∧ sn ≠ "" then
        match assignVip s2 idx p sn with
        | .ok (s3, ip) => .ok (s3, some ip)
        | .error e => .error e
      else .ok (s2, none)
    else .ok (s1, none)
  match r2 with
  | .error e => .error e
  | .ok (s3, vip) =>
    match nodeFind c.st node with
    | none => .error (.store .missingNode)
    | some _ =>
      let e : SvcX := ⟨node, q.id, q.kind, q.native, q.dest, q.ups, vip⟩
      let v : Svc := ⟨node, q.id, q.name, q.port, 0, 0⟩
      match svcFind c.st node q.id, extFind c node q.id with
      | some x, some ex =>
        let v1 := { v with create := x.create, modify := x.modify }
        if svcSame v1 x && extSame e ex then .ok s3
        else .ok (s3.putSvc p { v1 with modify := idx } e)
      | some _, none => .error .desync
      | none, _ => .ok (s3.putSvc p { v with create := idx, modify := idx } e)

/-- `ensureServiceCASTxn` -/
def ensureServiceCasX (s : XState) (p : String) (idx : Nat) (node : String) (q : SvcReq) : Except XErr (XState × Bool) :=
  if casRefused q.modify ((svcFind (s.cat p).st node q.id).map (·.modify)) then .ok (s, false)
  else match ensureServiceX s p idx node q with
    | .ok s' => .ok (s', true)
    | .error e => .error e

/-- GHOST: the kind-service-names key a deregistration leaves without an owner (local catalog; called when instances
    of the name remain): none of the remaining instances of the name has the deleted instance's kind -/
def leftStaleKeys (c : Cat) (p : String) (v : Svc) (e : SvcX) : List String :=
  if p = "" ∧ c.rows.all (fun r => !(r.2.kind == e.kind && lc r.1.name == lc v.name)) = true then [ksnKey e.kind v.name] else []

/-- the part of `deleteServiceTxn` after the row delete that touches the derived tables -/
def afterServiceDelete (s : XState) (p : String) (v : Svc) (e : SvcX) : XState :=
  let s1 :=
    if hasInstanceNamed (s.cat p) v.name then
      -- GHOST: instances of the name remain (no cleanup), none of them of the deleted instance's kind
      { s with ghost := s.ghost.noteStale (leftStaleKeys (s.cat p) p v e) }
    else
      let s' := freeVip s p v.name
      if p = "" then { s' with kindNames := ksnCleanup s'.kindNames e.kind v.name } else s'
  if p = "" ∧ (e.kind = .connectProxy ∨ e.native = true) then
    let sn := if e.kind = .connectProxy then e.dest else v.name
    if hasConnectInstance (s1.cat p) sn then s1
    else { s1 with kindNames := ksnCleanup s1.kindNames .connectEnabled sn }
  else s1

/-- `deleteServiceTxn` -/
def deleteServiceX (s : XState) (p : String) (idx : Nat) (node id : String) : Except XErr XState :=
  let c := s.cat p
  match svcFind c.st node id, extFind c node id with
  | none, _ => .ok s
  | some _, none => .error .desync
  | some v, some e =>
    match deleteService c.st idx node id with
    | .error er => .error (.store er)
    | .ok st' => .ok (afterServiceDelete (s.setCat p ⟨st', terase SvcX.pk (pk2 node id) c.ext⟩) p v e)

/-- `deleteServiceCASTxn` -/
def deleteServiceCasX (s : XState) (p : String) (idx cidx : Nat) (node id : String) : Except XErr (XState × Bool) :=
  match svcFind (s.cat p).st node id with
  | none => .ok (s, false)
  | some v =>
    if v.modify ≠ cidx then .ok (s, false)
    else match deleteServiceX s p idx node id with
      | .ok s' => .ok (s', true)
      | .error e => .error e

/-- fold a state transformer that may fail -/
def foldX {β : Type} (f : XState → β → Except XErr XState) : List β → XState → Except XErr XState
  | [], s => .ok s
  | b :: bs, s => match f s b with
    | .ok s' => foldX f bs s'
    | .error e => .error e

/-! ### nodes -/

/-- `deleteNodeTxn` (same control flow as the base `deleteNode`, with `deleteServiceX` in the service
    loop and the coordinate cascade; coordinates and sessions exist for the local catalog only) -/
def deleteNodeX (s : XState) (p : String) (idx : Nat) (name : String) : Except XErr XState :=
  let c := s.cat p
  match nodeFind c.st name with
  | none => .ok s
  | some _ =>
    let svcs := c.st.svcs.filter (fun v => lc v.node == lc name)
    let st1 := svcs.foldl (fun st v => bumpServiceIdx st idx v.name) c.st
    match foldX (fun x v => deleteServiceX x p idx name v.id) svcs (s.setCat p { c with st := st1 }) with
    | .error e => .error e
    | .ok s2 =>
      let c2 := s2.cat p
      let cs := c2.st.chks.filter (fun ch => lc ch.node == lc name)
      match foldE (fun st ch => deleteCheck st idx name ch.id) cs c2.st with
      | .error e => .error (.store e)
      | .ok st3 =>
        let s3 := if p = "" then { s2 with coords := s2.coords.filter (fun co => lc co.node != lc name) } else s2
        let st5 := deleteNodePost st3 idx name
        let ids := (st5.sessions.filter (fun x => lc x.node == lc name)).map (·.id)
        match foldE (fun st sid => deleteSession st idx sid) ids st5 with
        | .error e => .error (.store e)
        | .ok st6 => .ok (s3.setCat p { c2 with st := st6 })

/-- `deleteNodeCASTxn` -/
def deleteNodeCasX (s : XState) (p : String) (idx cidx : Nat) (name : String) : Except XErr (XState × Bool) :=
  match nodeFind (s.cat p).st name with
  | none => .ok (s, false)
  | some n =>
    if n.modify ≠ cidx then .ok (s, false)
    else match deleteNodeX s p idx name with
      | .ok s' => .ok (s', true)
      | .error e => .error e

/-- `ensureNodeTxn` (same control flow as the base `ensureNode`; a rename by ID runs `deleteNodeX`) -/
def ensureNodeX (s : XState) (p : String) (idx : Nat) (node : Node) : Except XErr XState :=
  let st := (s.cat p).st
  let r : Except XErr (XState × Option Node) :=
    if node.id ≠ "" then
      match nodeFindByID st node.id with
      | some n =>
        if lc n.name ≠ lc node.name then
          if nameClash st node false then .error (.store .nodeNameReserved)
          else match deleteNodeX s p idx n.name with
            | .ok s' => .ok (s', some n)
            | .error e => .error e
        else .ok (s, some n)
      | none => if nameClash st node true then .error (.store .nodeNameReserved) else .ok (s, none)
    else .ok (s, none)
  match r with
  | .error e => .error e
  | .ok (s1, byId) =>
    let c1 := s1.cat p
    let n? := match byId with
      | some n => some n
      | none => nodeFind c1.st node.name
    match n? with
    | some n =>
      let node := { node with create := n.create, modify := n.modify }
      if nodeSame node n then .ok s1
      else .ok (s1.setCat p { c1 with st := nodeInsert c1.st { node with modify := idx } })
    | none => .ok (s1.setCat p { c1 with st := nodeInsert c1.st { node with create := idx, modify := idx } })

/-- `ensureNodeCASTxn` -/
def ensureNodeCasX (s : XState) (p : String) (idx : Nat) (node : Node) : Except XErr (XState × Bool) :=
  if casRefused node.modify ((nodeFind (s.cat p).st node.name).map (·.modify)) then .ok (s, false)
  else match ensureNodeX s p idx node with
    | .ok s' => .ok (s', true)
    | .error e => .error e

/-! ### registration -/

/-- `structs.RegisterRequest` -/
structure XRegReq where
  peer : String
  node : Node
  svc : Option SvcReq
  checks : List Chk
deriving DecidableEq, Repr

/-- run a base function on the `State` of catalog `p` -/
def XState.onSt (s : XState) (p : String) (f : State → Except Err State) : Except XErr XState :=
  let c := s.cat p
  match f c.st with
  | .ok st' => .ok (s.setCat p { c with st := st' })
  | .error e => .error (.store e)

/-- `ensureRegistrationTxn` -/
def registerX (s : XState) (idx : Nat) (r : XRegReq) : Except XErr XState :=
  let p := r.peer
  let r1 : Except XErr XState :=
    match nodeFind (s.cat p).st r.node.name with
    | some x => if nodeSame r.node x then .ok s else ensureNodeX s p idx r.node
    | none => ensureNodeX s p idx r.node
  match r1 with
  | .error e => .error e
  | .ok s1 =>
    let r2 : Except XErr XState :=
      match r.svc with
      | none => .ok s1
      | some q =>
        let c1 := s1.cat p
        match svcFind c1.st r.node.name q.id, extFind c1 r.node.name q.id with
        | some x, some e => if reqSame x e q then .ok s1 else ensureServiceX s1 p idx r.node.name q
        | some _, none => .error .desync
        | none, _ => ensureServiceX s1 p idx r.node.name q
    match r2 with
    | .error e => .error e
    | .ok s2 => s2.onSt p fun st => foldE (fun st c => ensureCheckIfNodeMatches st idx r.node.name c) r.checks st

/-- the FSM's deregister: service, else check, else node -/
def deregisterX (s : XState) (idx : Nat) (p node svcId chkId : String) : Except XErr XState :=
  if svcId ≠ "" then deleteServiceX s p idx node svcId
  else if chkId ≠ "" then s.onSt p fun st => deleteCheck st idx node chkId
  else deleteNodeX s p idx node

/-! ### coordinates, system metadata, config entries -/

/-- `CoordinateBatchUpdate` (updates for unknown nodes are dropped silently) -/
def coordUpdate (s : XState) (us : List CoordRow) : XState :=
  us.foldl (fun x u =>
    if (nodeFind x.loc.st u.node).isSome then { x with coords := tupsert CoordRow.pk strLt u x.coords } else x) s

/-- `SystemMetadataSet` / `SystemMetadataDelete` -/
def sysMetaSet (s : XState) (key : String) : Option String → XState
  | some v => { s with sysMeta := tupsert (·.1) strLt (key, v) s.sysMeta }
  | none => { s with sysMeta := terase (·.1) key s.sysMeta }

def cfgFind (s : XState) (kind name : String) : Option CfgRow := tfind CfgRow.pk (pk2 kind name) s.cfg

/-- `ensureConfigEntryTxn` → `insertConfigEntryWithTxn` for an entry that passes validation
    (gateway-services / mesh-topology maintenance not modelled) -/
def configUpsert (s : XState) (idx : Nat) (kind name : String) (dest : Bool) (tok : String) : Except XErr XState :=
  let s1 := if kind = "service-defaults" ∧ dest = true
    then { s with kindNames := ksnUpsert s.kindNames idx .destination name } else s
  let r2 : Except XErr XState :=
    if s1.vipsSupported && cfgHasVip kind name then
      match assignVip s1 idx "" name with
      | .ok (s2, _) => .ok s2
      | .error e => .error e
    else .ok s1
  match r2 with
  | .error e => .error e
  | .ok s2 =>
    let create := match cfgFind s kind name with | some x => x.create | none => idx
    let over : List String := match cfgFind s kind name with
      | some x => if kind = "service-defaults" ∧ x.dest = true ∧ dest = false then [ksnKey .destination name] else []
      | none => []
    .ok { s2 with cfg := tupsert CfgRow.pk strLt ⟨kind, name, dest, tok, create, idx⟩ s2.cfg,
                  ghost := s2.ghost.noteStale over }

/-- `deleteConfigEntryTxn` -/
def configDelete (s : XState) (kind name : String) : XState :=
  match cfgFind s kind name with
  | none => s
  | some x =>
    let s1 := if x.kind = "service-defaults" ∧ x.dest = true
      then { s with kindNames := ksnCleanup s.kindNames .destination name } else s
    let s2 := { s1 with cfg := terase CfgRow.pk (pk2 kind name) s1.cfg }
    if cfgHasVip x.kind x.name then freeVip s2 "" name else s2

/-! ### transactions -/

inductive XTxnOp
  | base (op : TxnOp)                                    -- service ops given here are typical services
  | service (v : CatVerb) (node : String) (q : SvcReq)
deriving DecidableEq, Repr

def typicalReq (x : Svc) : SvcReq := ⟨x.id, x.name, x.port, .typical, false, "", [], false, x.modify⟩

def okResX (s : XState) (rs : List TxnRes) : Except XErr (XState × List TxnRes) := .ok (s, rs)

/-- `txnNode` on the local catalog -/
def txnNodeX (s : XState) (idx : Nat) (v : CatVerb) (n : Node) : Except XErr (XState × List TxnRes) :=
  match v with
  | .get => match txnGetNode s.loc.st n with
    | some x => okResX s [.node x]
    | none => .error (.store .nodeMissing)
  | .set => match ensureNodeX s "" idx n with
    | .ok s' => okResX s' (nodeRes s'.loc.st n)
    | .error e => .error e
  | .cas => match ensureNodeCasX s "" idx n with
    | .ok (s', true) => okResX s' (nodeRes s'.loc.st n)
    | .ok (_, false) => .error (.store .casStale)
    | .error e => .error e
  | .delete => match deleteNodeX s "" idx n.name with
    | .ok s' => okResX s' []
    | .error e => .error e
  | .deleteCas => match deleteNodeCasX s "" idx n.modify n.name with
    | .ok (s', true) => okResX s' []
    | .ok (_, false) => .error (.store .casStale)
    | .error e => .error e

/-- `txnService` on the local catalog -/
def txnServiceX (s : XState) (idx : Nat) (v : CatVerb) (node : String) (q : SvcReq) : Except XErr (XState × List TxnRes) :=
  let probe : Svc := ⟨node, q.id, q.name, q.port, 0, q.modify⟩
  match v with
  | .get => match svcFind s.loc.st node q.id with
    | some y => okResX s [.service y]
    | none => .error (.store .serviceMissing)
  | .set => match ensureServiceX s "" idx node q with
    | .ok s' => okResX s' (svcRes s'.loc.st probe)
    | .error e => .error e
  | .cas => match ensureServiceCasX s "" idx node q with
    | .ok (s', true) => okResX s' (svcRes s'.loc.st probe)
    | .ok (_, false) => .error (.store .casStale)
    | .error e => .error e
  | .delete => match deleteServiceX s "" idx node q.id with
    | .ok s' => okResX s' []
    | .error e => .error e
  | .deleteCas => match deleteServiceCasX s "" idx q.modify node q.id with
    | .ok (s', true) => okResX s' []
    | .ok (_, false) => .error (.store .casStale)
    | .error e => .error e

/-- one iteration of the `txnDispatch` loop -/
def txnStepX (s : XState) (idx : Nat) : XTxnOp → Except XErr (XState × List TxnRes)
  | .base (.node v n) => txnNodeX s idx v n
  | .base (.service v x) => txnServiceX s idx v x.node (typicalReq x)
  | .service v node q => txnServiceX s idx v node q
  | .base op =>      -- KV verbs, check verbs, session delete: no service row is written or removed
    match txnStep s.loc.st idx op with
    | .ok (st', rs) => okResX { s with loc := { s.loc with st := st' } } rs
    | .error e => .error (.store e)

def txnLoopX (idx : Nat) : List XTxnOp → Nat → XState → List TxnRes → List (Nat × XErr) → XState × List TxnRes × List (Nat × XErr)
  | [], _, s, rs, es => (s, rs, es)
  | op :: ops, i, s, rs, es =>
    match txnStepX s idx op with
    | .ok (s', r) => txnLoopX idx ops (i + 1) s' (rs ++ r) es
    | .error e => txnLoopX idx ops (i + 1) s rs (es ++ [(i, e)])

/-- `TxnRW`: all or nothing -/
def txnRWX (s : XState) (idx : Nat) (ops : List XTxnOp) : XState × List TxnRes × List (Nat × XErr) :=
  let (s', rs, es) := txnLoopX idx ops 0 s [] []
  if es.isEmpty then (s', rs, []) else (s, [], es)

/-! ### usage (usage.go `updateUsage`, run by `txn.Commit` on the change set) -/

/-- `Changes` of one table between the state before and after a transaction: (before, after) per
    primary key whose row differs (every write of the catalog changes at least the row's ModifyIndex
    or status, so "written" and "different" coincide) -/
def changesOf {α κ : Type} [DecidableEq α] [DecidableEq κ] (key : α → κ) (pre post : List α) : List (Option α × Option α) :=
  (pre.filterMap fun a =>
    match tfind key (key a) post with
    | none => some (some a, none)
    | some b => if a = b then none else some (some a, some b))
  ++ (post.filterMap fun b =>
    match tfind key (key b) pre with
    | none => some (none, some b)
    | some _ => none)

abbrev Deltas := List (String × Int)

/-- `usageDeltas[id] += n` (creates the entry, also for n = 0) -/
def addDelta (d : Deltas) (id : String) (n : Int) : Deltas :=
  match d with
  | [] => [(id, n)]
  | (k, v) :: rest => if k = id then (k, v + n) :: rest else (k, v) :: addDelta rest id n

/-- +1 created, −1 deleted, 0 updated -/
def changeDelta {α : Type} : Option α × Option α → Int
  | (none, some _) => 1
  | (some _, none) => -1
  | _ => 0

/-- deltas of a table that is only counted (`nodes`, `kvs`, `config-entries-<kind>`) -/
def countDeltas {α : Type} (id : α → String) (d : Deltas) : List (Option α × Option α) → Deltas
  | [] => d
  | ch :: rest =>
    match ch with
    | (_, some a) => countDeltas id (addDelta d (id a) (changeDelta ch)) rest
    | (some b, none) => countDeltas id (addDelta d (id b) (changeDelta ch)) rest
    | (none, none) => countDeltas id d rest

def connectUsageName (k : String) : String := "connect-mesh-" ++ k
def billableName : String := "billable-services"
def consulServiceName : String := "consul"

/-- `connectDeltas` -/
def connectDeltas (d : Deltas) : Option (Svc × SvcX) × Option (Svc × SvcX) → Deltas
  | (some b, some a) =>
    let d1 := if b.2.kind ≠ .typical then addDelta d (connectUsageName b.2.kind.raw) (-1) else d
    let d2 := if a.2.kind ≠ .typical then addDelta d1 (connectUsageName a.2.kind.raw) 1 else d1
    if b.2.native ≠ a.2.native then
      addDelta d2 (connectUsageName "connect-native") (if b.2.native then -1 else 1)
    else d2
  | (none, some a) =>
    let d1 := if a.2.kind ≠ .typical then addDelta d (connectUsageName a.2.kind.raw) 1 else d
    if a.2.native then addDelta d1 (connectUsageName "connect-native") 1 else d1
  | (some b, none) =>
    let d1 := if b.2.kind ≠ .typical then addDelta d (connectUsageName b.2.kind.raw) (-1) else d
    if b.2.native then addDelta d1 (connectUsageName "connect-native") (-1) else d1
  | (none, none) => d

/-- `billableServiceInstancesDeltas` -/
def billableDeltas (d : Deltas) : Option (Svc × SvcX) × Option (Svc × SvcX) → Deltas
  | (some b, some a) =>
    let d1 := if b.1.name = consulServiceName ∧ a.1.name ≠ consulServiceName ∧ a.2.kind = .typical
      then addDelta d billableName 1 else d
    let d2 := if b.1.name ≠ consulServiceName ∧ a.1.name = consulServiceName then addDelta d1 billableName (-1) else d1
    if b.2.kind ≠ .typical ∧ a.2.kind = .typical then addDelta d2 billableName 1
    else if b.2.kind = .typical ∧ a.2.kind ≠ .typical then addDelta d2 billableName (-1)
    else d2
  | (none, some a) => if a.2.kind = .typical ∧ a.1.name ≠ consulServiceName then addDelta d billableName 1 else d
  | (some b, none) => if b.2.kind = .typical ∧ b.1.name ≠ consulServiceName then addDelta d billableName (-1) else d
  | (none, none) => d

/-- the `serviceNameChanges` map (keyed by the exact spelling) -/
def nameChanges (m : Deltas) : Option (Svc × SvcX) × Option (Svc × SvcX) → Deltas
  | (some b, some a) =>
    if b.1.name ≠ a.1.name then addDelta (addDelta m a.1.name 1) b.1.name (-1) else addDelta m a.1.name 0
  | (none, some a) => addDelta m a.1.name 1
  | (some b, none) => addDelta m b.1.name (-1)
  | (none, none) => m

/-- the `tableServices` case of the loop in `updateUsage` -/
def serviceDeltas : Deltas × Deltas → List (Option (Svc × SvcX) × Option (Svc × SvcX)) → Deltas × Deltas
  | dm, [] => dm
  | (d, m), ch :: rest =>
    let d1 := addDelta d "services" (changeDelta ch)
    serviceDeltas (billableDeltas (connectDeltas d1 ch) ch, nameChanges m ch) rest

/-- `updateServiceNameUsage`: the instances are counted through the lower-cased `service` index of the
    state at commit -/
def serviceNameDeltas (post : Cat) (d : Deltas) : Deltas → Deltas
  | [] => d
  | (name, delta) :: rest =>
    let count : Int := ((post.st.svcs.filter fun v => lc v.name == lc name).length : Nat)
    let d1 := if count = 0 then addDelta d "service-names" (-1)
      else if count = delta then addDelta d "service-names" 1
      else d
    serviceNameDeltas post d1 rest

/-- `writeUsageDeltas` -/
def writeUsage (idx : Nat) : List UsageRow → Deltas → List UsageRow
  | u, [] => u
  | u, (id, delta) :: rest =>
    let cur : Int := match tfind UsageRow.pk (lc id) u with | some r => (r.count : Nat) | none => 0
    writeUsage idx (tupsert UsageRow.pk strLt ⟨id, (cur + delta).toNat, idx⟩ u) rest

/-- all usage deltas of a committed transaction `pre → post` -/
def usageDeltas (pre post : XState) : Deltas :=
  let d0 := countDeltas (fun (_ : Node) => "nodes") [] (changesOf Node.pk pre.loc.st.nodes post.loc.st.nodes)
  let (d1, m) := serviceDeltas (d0, []) (changesOf (fun r => Svc.pk r.1) pre.loc.rows post.loc.rows)
  let d2 := countDeltas (fun (_ : KV) => "kvs") d1 (changesOf KV.pk pre.loc.st.kvs post.loc.st.kvs)
  let d3 := countDeltas (fun (c : CfgRow) => "config-entries-" ++ c.kind) d2 (changesOf CfgRow.pk pre.cfg post.cfg)
  serviceNameDeltas post.loc d3 m

/-- `txn.Commit`: the usage table after the transaction `pre → post` at index `idx` -/
def commitUsage (pre post : XState) (idx : Nat) : XState :=
  { post with usage := writeUsage idx post.usage (usageDeltas pre post) }

/-! ### commands -/

inductive XCmd
  | store (c : Cmd)            -- KV verbs, sessions, prepared queries, reap (register / deregister / txn given here run as typical, local)
  | register (r : XRegReq)
  | deregister (peer node svcId chkId : String)
  | coords (us : List CoordRow)
  | sysmeta (key : String) (val : Option String)
  | configSet (kind name : String) (dest : Bool) (tok : String)
  | configDelete (kind name : String)
  | txn (ops : List XTxnOp)
deriving DecidableEq, Repr

inductive XResult
  | ok
  | bool (b : Bool)
  | err (e : XErr)
  | txn (results : List TxnRes) (errors : List (Nat × XErr))
deriving DecidableEq, Repr

def baseResult : Result → XResult
  | .ok => .ok
  | .bool b => .bool b
  | .err e => .err (.store e)
  | .txn rs es => .txn rs (es.map fun (i, e) => (i, .store e))

def liftSX (s : XState) : Except XErr XState → XState × XResult
  | .ok s' => (s', .ok)
  | .error e => (s, .err e)

/-- the inner `…Txn` function of a command: the working state it would commit, and its answer -/
def stepX (s : XState) (idx : Nat) : XCmd → XState × XResult
  | .store (.register r) =>
    liftSX s (registerX s idx ⟨"", r.node, r.svc.map typicalReq, r.checks⟩)
  | .store (.deregister node svcId chkId) => liftSX s (deregisterX s idx "" node svcId chkId)
  | .store (.txn ops) => let (s', rs, es) := txnRWX s idx (ops.map .base); (s', .txn rs es)
  | .store c => let (st', r) := apply s.loc.st idx c; ({ s with loc := { s.loc with st := st' } }, baseResult r)
  | .register r => liftSX s (registerX s idx r)
  | .deregister p node svcId chkId => liftSX s (deregisterX s idx p node svcId chkId)
  | .coords us => (coordUpdate s us, .ok)
  | .sysmeta k v => (sysMetaSet s k v, .ok)
  | .configSet kind name dest tok => liftSX s (configUpsert s idx kind name dest tok)
  | .configDelete kind name => (configDelete s kind name, .ok)
  | .txn ops => let (s', rs, es) := txnRWX s idx ops; (s', .txn rs es)

/-- apply one committed log entry with Raft index `idx`: the inner function, then the commit hook -/
def applyX (s : XState) (idx : Nat) (c : XCmd) : XState × XResult :=
  let (s', r) := stepX s idx c
  (commitUsage s s' idx, r)

abbrev XLog := List (Nat × XCmd)

def replayX (s : XState) (log : XLog) : XState := log.foldl (fun st ic => (applyX st ic.1 ic.2).1) s

end CV.Store
