/-
CV.Store.KvSpec — the sequential versioned map of property C03, written from the property
statement (not from the consul code): a map from keys to entries with per-key create/modify
indexes, flags, lock counter and lock holder; get / list read exactly that map.

  * a write that changes nothing leaves the entry (and its modify index) alone;
  * the create index is fixed when the key is created and never changes while it exists;
  * a fresh lock acquisition raises the lock counter by one, re-acquisition by the holder and
    release leave it unchanged;
  * delete-tree removes exactly the keys that have the prefix (plain string prefix).
Two conventions are taken over from the implementation because the statement leaves them open
(DESIGN §6, "not findings"): a plain set / cas stores the lock counter carried by the request, and
delete-cas of an absent key reports success.
-/
import CV.Store.Types
namespace CV.Store
open CV

structure Ent where
  val : String
  flags : Nat
  lockIdx : Nat
  create : Nat
  modify : Nat
  holder : String
deriving DecidableEq, Repr

/-- the map, as an association list (looked up with `tfind`, updated with `tupsert` / `terase`) -/
abbrev KMap := List (Key × Ent)

inductive KvOp
  | set (k : Key) (val : String) (flags lockIdx : Nat)
  | cas (k : Key) (val : String) (flags lockIdx cidx : Nat)
  | delete (k : Key)
  | deleteCas (k : Key) (cidx : Nat)
  | deleteTree (p : Key)
  | lock (k : Key) (val : String) (flags : Nat) (session : String)
  | unlock (k : Key) (val : String) (flags : Nat) (session : String)
deriving DecidableEq, Repr

inductive KvRes
  | ok | bool (b : Bool) | err
deriving DecidableEq, Repr

def mget (m : KMap) (k : Key) : Option Ent := (tfind Prod.fst k m).map (·.2)

/-- write the content (value, flags, lock counter, holder) under key `k` at index `i` -/
def mput (m : KMap) (k : Key) (val : String) (flags lockIdx : Nat) (holder : String) (i : Nat) : KMap :=
  match mget m k with
  | some e =>
    if e.val = val ∧ e.flags = flags ∧ e.lockIdx = lockIdx ∧ e.holder = holder then m
    else tupsert Prod.fst keyLt (k, ⟨val, flags, lockIdx, e.create, i, holder⟩) m
  | none => tupsert Prod.fst keyLt (k, ⟨val, flags, lockIdx, i, i, holder⟩) m

def holderOf (m : KMap) (k : Key) : String :=
  match mget m k with | some e => e.holder | none => ""

/-- one KV operation on the sequential map; `live` says which sessions exist -/
def specStep (m : KMap) (live : String → Bool) (i : Nat) : KvOp → KMap × KvRes
  | .set k val flags lockIdx =>
    if k = [] then (m, .err) else (mput m k val flags lockIdx (holderOf m k) i, .ok)
  | .cas k val flags lockIdx cidx =>
    if k = [] then (m, .err) else
    match mget m k with
    | some e =>
      if cidx = 0 ∨ cidx ≠ e.modify then (m, .bool false)
      else (mput m k val flags lockIdx e.holder i, .bool true)
    | none =>
      if cidx ≠ 0 then (m, .bool false) else (mput m k val flags lockIdx "" i, .bool true)
  | .delete k => if k = [] then (m, .err) else (terase Prod.fst k m, .ok)
  | .deleteCas k cidx =>
    if k = [] then (m, .err) else
    match mget m k with
    | none => (m, .bool true)
    | some e => if e.modify ≠ cidx then (m, .bool false) else (terase Prod.fst k m, .bool true)
  | .deleteTree p => (m.filter (fun x => !p.isPrefixOf x.1), .ok)
  | .lock k val flags session =>
    if session = "" ∨ !live session ∨ k = [] then (m, .err) else
    match mget m k with
    | some e =>
      if e.holder = session then (mput m k val flags e.lockIdx session i, .bool true)     -- re-acquire
      else if e.holder ≠ "" then (m, .bool false)                                          -- held by another
      else (mput m k val flags (e.lockIdx + 1) session i, .bool true)                      -- fresh
    | none => (mput m k val flags 1 session i, .bool true)
  | .unlock k val flags session =>
    if session = "" ∨ k = [] then (m, .err) else
    match mget m k with
    | none => (m, .bool false)
    | some e =>
      if e.holder ≠ session then (m, .bool false)
      else (mput m k val flags e.lockIdx "" i, .bool true)

def specGet (m : KMap) (k : Key) : Option Ent := mget m k

/-- entries under a prefix, in key order (the map is kept in key order) -/
def specList (m : KMap) (p : Key) : KMap := m.filter (fun x => p.isPrefixOf x.1)

/-- Sessions ending: every key held by a session that is gone is released (holder cleared, modify index
    = the command's index, everything else kept) or deleted, according to that session's behaviour;
    every other key is untouched. `gone h` says whether the session named `h` no longer exists. -/
def specEnd (m : KMap) (idx : Nat) (gone : String → Bool) (beh : String → Behavior) : KMap :=
  m.filterMap fun x =>
    if x.2.holder != "" && gone x.2.holder then
      match beh x.2.holder with
      | .delete => none
      | .release => some (x.1, { x.2 with holder := "", modify := idx })
    else some x

end CV.Store
