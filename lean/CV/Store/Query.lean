/-
CV.Store.Query — the READ paths of the state store (property C06): for every modelled query the
index the Go code reports, the canonical result, and the *watch footprint* (what the Go code adds
to the `memdb.WatchSet`). Built on the shared store model (`CV.Store.State`, `apply`); nothing in
the existing files is changed.

Mirrors, function by function (agent/consul/state):
  kvs.go            KVSGet / kvsGetTxn, KVSList / kvsListTxn (`kvGet`, `kvList` live in CV.Store.KV)
  kvs_endpoint.go   the key-collapsing loop of KVS.ListKeys (`collapseKeys`)
  session.go        SessionGet, NodeSessions;  session_ce.go  SessionList
  catalog.go        Nodes, Services (joinServiceNodes false / true), ServiceNodes, ConnectServiceNodes,
                    ServiceTagNodes, parseServiceNodes, nodeServices / NodeServices / NodeServiceList,
                    NodeChecks, ServiceChecks, ChecksInState, checkServiceNodesTxn (plain / connect),
                    CheckServiceTagNodes, parseCheckServiceNodes, maxIndexAndWatchChForService
  catalog_ce.go     catalogNodesMaxIndex, catalogServicesMaxIndex, catalogChecksMaxIndex,
                    catalogNodeMaxIndex, catalog{Service,Node}LastExtinctionIndex, catalogMaxIndex
  prepared_query.go PreparedQueryGet, PreparedQueryList
  rpc.go            SetQueryMeta (`reported`)

What the base model does not have stays outside: service tags, Connect (native / proxies / gateways),
node meta, peers. Consequently `connectNodes`, `csnConnect` always return no rows here and the tag
filter (a non-empty tag never matches a tag-less instance) filters everything; their INDEX
computation is still the code's. Node lookups by UUID prefix (`nodeServices`) are not modelled: the
queried name is assumed not to be a hex prefix of a node ID.
-/
import CV.Store.Apply
namespace CV.Store
open CV

/-! ### index-table rows the read paths consult -/

def kSessions : String := "sessions"
def kPQ : String := "prepared-queries"
def kNodes : String := "peer.~:nodes"
def kServices : String := "peer.~:services"
def kChecks : String := "peer.~:checks"
def kSvcExt : String := "peer.~:service_last_extinction"
def kNodeExt : String := "peer.~:node_last_extinction"
/-- `serviceIndexName` -/
def svcKey (name : String) : String := "peer.~:service." ++ name
/-- `nodeIndexName` -/
def nodeKey (name : String) : String := "peer.~:node." ++ name

/-- `catalogMaxIndex` -/
def catalogMaxIndex (s : State) (checks : Bool) : Nat :=
  let m := max (idxVal s.index kServices) (idxVal s.index kNodes)
  if checks then max (idxVal s.index kChecks) m else m

/-- `maxIndexAndWatchChForService` (the index part) -/
def maxIndexForService (s : State) (name : String) (serviceExists checks : Bool) : Nat :=
  let fall := match idxGet s.index (svcKey name) with
    | some v => v
    | none => catalogMaxIndex s checks
  if serviceExists then fall
  else match idxGet s.index kSvcExt with
    | some v => v
    | none => fall

/-! ### results -/

/-- a service instance joined with its node row (`parseServiceNodes`) -/
structure SvcNode where
  svc : Svc
  node : Option Node
deriving DecidableEq, Repr

/-- `structs.CheckServiceNode` -/
structure CSN where
  node : Node
  svc : Svc
  checks : List Chk
deriving DecidableEq, Repr

inductive QRes
  | err (e : Err)
  | kv (o : Option KV) | kvs (l : List KV) | keys (l : List Key)
  | sess (o : Option Sess) | sesss (l : List Sess)
  | nodes (l : List Node) | svcs (l : List Svc) | svcNodes (l : List SvcNode)
  | nodeSvcs (o : Option (Node × List Svc))
  | chks (l : List Chk)
  | csns (l : List CSN)
  | pq (o : Option PQ) | pqs (l : List PQ)
deriving DecidableEq, Repr

/-! ### views (secondary-index scans, as filters over the primary-ordered tables) -/

def svcsNamed (s : State) (name : String) : List Svc := s.svcs.filter (fun v => lc v.name == lc name)
def svcsOnNode (s : State) (node : String) : List Svc := s.svcs.filter (fun v => lc v.node == lc node)
def sessOnNode (s : State) (node : String) : List Sess := s.sessions.filter (fun x => lc x.node == lc node)
def chksOnNode (s : State) (node : String) : List Chk := s.chks.filter (fun c => lc c.node == lc node)
def chksOfService (s : State) (name : String) : List Chk :=
  s.chks.filter (fun c => c.svcName != "" && lc c.svcName == lc name)
def chksInStatus (s : State) (st : String) : List Chk := s.chks.filter (fun c => lc c.status == lc st)
/-- the `node_service` index of the checks table: (node, service id) -/
def chksNodeSvc (s : State) (node svcId : String) : List Chk :=
  s.chks.filter (fun c => lc c.node == lc node && lc c.svcId == lc svcId)

def joinNode (s : State) (v : Svc) : SvcNode := ⟨v, nodeFind s v.node⟩

/-- one element of `parseCheckServiceNodes`: node-level checks first, then the instance's checks -/
def csnRow (s : State) (v : Svc) : Option CSN :=
  match nodeFind s v.node with
  | none => none
  | some n => some ⟨n, v, chksNodeSvc s v.node "" ++ chksNodeSvc s v.node v.id⟩

/-- `parseCheckServiceNodes`: `ErrMissingNode` when an instance has no node row -/
def csnRows (s : State) : List Svc → Option (List CSN)
  | [] => some []
  | v :: vs =>
    match csnRow s v, csnRows s vs with
    | some r, some rs => some (r :: rs)
    | _, _ => none

def csnResult (s : State) (rows : List Svc) : QRes :=
  match csnRows s rows with
  | some l => .csns l
  | none => .err .missingNode

/-! ### `KVS.ListKeys`: collapse keys at the separator -/

/-- first position at which `sep` occurs in `l` (`strings.Index`) -/
def indexOf (sep : Key) : Key → Option Nat
  | [] => if sep = [] then some 0 else none
  | c :: cs =>
    if sep.isPrefixOf (c :: cs) then some 0
    else match indexOf sep cs with
      | some n => some (n + 1)
      | none => none

def collapseKeysAux (plen : Nat) (sep : Key) : List KV → List Key → List Key
  | [], acc => acc.reverse
  | e :: es, acc =>
    if sep = [] then collapseKeysAux plen sep es (e.key :: acc)
    else match indexOf sep (e.key.drop plen) with
      | some i =>
        let k := e.key.take (plen + i + sep.length)
        if acc.contains k then collapseKeysAux plen sep es acc else collapseKeysAux plen sep es (k :: acc)
      | none => collapseKeysAux plen sep es (e.key :: acc)

def collapseKeys (p sep : Key) (ents : List KV) : List Key := collapseKeysAux p.length sep ents []

/-! ### queries -/

inductive Query
  | kvGet (k : Key) | kvList (p : Key) | kvKeys (p sep : Key)
  | sessGet (id : String) | sessList | nodeSessions (node : String)
  | nodes | services | servicesJoin
  | serviceNodes (name : String) | connectNodes (name : String) | tagNodes (name tag : String)
  | nodeServices (node : String) | nodeServiceList (node : String)
  | nodeChecks (node : String) | serviceChecks (name : String) | checksInState (st : String)
  | csn (name : String) | csnConnect (name : String) | csnTag (name tag : String)
  | pqGet (id : String) | pqList
deriving DecidableEq, Repr

/-- `Store.nodeServices` up to the service scan: `(done, idx, node)`; names only (no UUID lookup).
    Since /repo 8ebfe04 the branch for names shorter than `minUUIDLookupLen` reports the node extinction
    index like every other not-found branch (it used to report 0: fixed finding). -/
def nodeServicesHead (s : State) (name : String) : Nat × Option Node :=
  match nodeFind s name with
  | some n => (idxVal s.index (nodeKey n.name), some n)
  | none => (idxVal s.index kNodeExt, none)

/-- run a query: the raw index the store function returns and the canonical result -/
def Query.run (s : State) : Query → Nat × QRes
  | .kvGet k => match Store.kvGet s k with
    | .ok (i, o) => (i, .kv o)
    | .error e => (0, .err e)
  | .kvList p => ((Store.kvList s p).1, .kvs (Store.kvList s p).2)
  | .kvKeys p sep => ((Store.kvList s p).1, .keys (collapseKeys p sep (Store.kvList s p).2))
  | .sessGet id => (idxVal s.index kSessions, .sess (sessFind s id))
  | .sessList => (idxVal s.index kSessions, .sesss s.sessions)
  | .nodeSessions node => (idxVal s.index kSessions, .sesss (sessOnNode s node))
  | .nodes => (idxVal s.index kNodes, .nodes s.nodes)
  | .services => (idxVal s.index kServices, .svcs s.svcs)
  | .servicesJoin => (idxVal s.index kServices, .svcNodes (s.svcs.map (joinNode s)))
  | .serviceNodes name =>
    let rows := svcsNamed s name
    (maxIndexForService s name (!rows.isEmpty) false, .svcNodes (rows.map (joinNode s)))
  | .connectNodes name =>
    -- no Connect instances and no gateway-services rows in this model: gateway index 0, no rows
    (maxIndexForService s name false false, .svcNodes [])
  | .tagNodes name _tag =>
    -- instances carry no tags here: every instance is filtered out
    (maxIndexForService s name (!(svcsNamed s name).isEmpty) false, .svcNodes [])
  | .nodeServices node =>
    match nodeServicesHead s node with
    | (i, some n) => (i, .nodeSvcs (some (n, svcsOnNode s n.name)))
    | (i, none) => (i, .nodeSvcs none)
  | .nodeServiceList node =>
    match nodeServicesHead s node with
    | (i, some n) => if i = 0 then (0, .nodeSvcs none) else (i, .nodeSvcs (some (n, svcsOnNode s n.name)))
    | (i, none) => (i, .nodeSvcs none)
  | .nodeChecks node => (idxVal s.index kChecks, .chks (chksOnNode s node))
  | .serviceChecks name => (idxVal s.index kChecks, .chks (chksOfService s name))
  | .checksInState st =>
    (idxVal s.index kChecks, .chks (if st = "any" then s.chks else chksInStatus s st))
  | .csn name =>
    let rows := svcsNamed s name
    (maxIndexForService s name (!rows.isEmpty) true, csnResult s rows)
  | .csnConnect name => (maxIndexForService s name false true, .csns [])
  | .csnTag name _tag => (maxIndexForService s name (!(svcsNamed s name).isEmpty) true, .csns [])
  | .pqGet id => (idxVal s.index kPQ, .pq (pqFind s id))
  | .pqList => (idxVal s.index kPQ, .pqs s.queries)

/-- `Server.SetQueryMeta`: the index handed to the client is never 0 -/
def reported (i : Nat) : Nat := if i < 1 then 1 else i

/-! ### watch footprints -/

/-- what the Go code adds to the WatchSet: a row of a table's `id` index (`FirstWatch`), the
    iterator of an index scan (`iter.WatchCh()`), or a row of the index table -/
inductive WatchItem
  | kvRow (k : Key) | kvPrefix (p : Key)
  | sessRow (id : String) | sessAll | sessNode (node : String)
  | nodeRow (name : String) | nodesAll
  | svcAll | svcNamed (name : String) | svcOnNode (node : String)
  | chkAll | chkNode (node : String) | chkService (name : String) | chkStatus (st : String)
  | chkNodeSvc (node svcId : String)
  | idxRow (k : String)
  | pqRow (id : String) | pqAll
deriving DecidableEq, Repr

/-- did the watched part of the database change between `s` and `s'`? (a lower bound of what
    memdb reports: radix-tree channels may also fire for neighbours) -/
def WatchItem.changed (s s' : State) : WatchItem → Bool
  | .kvRow k => decide (kvFind s k ≠ kvFind s' k)
  | .kvPrefix p => decide (s.kvs.filter (fun e => prefixMatch p e.key) ≠ s'.kvs.filter (fun e => prefixMatch p e.key))
  | .sessRow id => decide (sessFind s id ≠ sessFind s' id)
  | .sessAll => decide (s.sessions ≠ s'.sessions)
  | .sessNode n => decide (sessOnNode s n ≠ sessOnNode s' n)
  | .nodeRow n => decide (nodeFind s n ≠ nodeFind s' n)
  | .nodesAll => decide (s.nodes ≠ s'.nodes)
  | .svcAll => decide (s.svcs ≠ s'.svcs)
  | .svcNamed n => decide (svcsNamed s n ≠ svcsNamed s' n)
  | .svcOnNode n => decide (svcsOnNode s n ≠ svcsOnNode s' n)
  | .chkAll => decide (s.chks ≠ s'.chks)
  | .chkNode n => decide (chksOnNode s n ≠ chksOnNode s' n)
  | .chkService n => decide (chksOfService s n ≠ chksOfService s' n)
  | .chkStatus st => decide (chksInStatus s st ≠ chksInStatus s' st)
  | .chkNodeSvc n i => decide (chksNodeSvc s n i ≠ chksNodeSvc s' n i)
  | .idxRow k => decide (idxGet s.index k ≠ idxGet s'.index k)
  | .pqRow id => decide (pqFind s id ≠ pqFind s' id)
  | .pqAll => decide (s.queries ≠ s'.queries)

/-- node rows watched by `parseServiceNodes` / `parseCheckServiceNodes` for the given instances -/
def nodeWatches (rows : List Svc) : List WatchItem := rows.map (fun v => .nodeRow v.node)

/-- the WatchSet the Go code builds while answering the query in state `s` -/
def Query.watch (s : State) : Query → List WatchItem
  | .kvGet k => if k = [] then [] else [.kvRow k]
  | .kvList p | .kvKeys p _ => [.kvPrefix p]
  | .sessGet id => [.sessRow id]
  | .sessList => [.sessAll]
  | .nodeSessions n => [.sessNode n]
  | .nodes => [.nodesAll]
  | .services => [.svcAll]
  | .servicesJoin => .svcAll :: nodeWatches s.svcs
  | .serviceNodes name => .svcNamed name :: nodeWatches (svcsNamed s name)
  | .connectNodes _ => []        -- connect index + gateway-services: outside the model, never change here
  | .tagNodes name _ => [.svcNamed name]
  | .nodeServices n | .nodeServiceList n =>
    match nodeFind s n with
    | some nd => [.nodeRow n, .svcOnNode nd.name]
    | none => [.nodeRow n]
  | .nodeChecks n => [.chkNode n]
  | .serviceChecks n => [.chkService n]
  | .checksInState st => if st = "any" then [.chkAll] else [.chkStatus st]
  | .csn name =>
    let rows := svcsNamed s name
    if rows.isEmpty then [.svcNamed name]
    else match idxGet s.index (svcKey name) with
      | some _ => [.idxRow (svcKey name)]          -- the watch-set optimisation
      | none => .svcNamed name :: (nodeWatches rows ++
                  rows.flatMap (fun v => [.chkNodeSvc v.node "", .chkNodeSvc v.node v.id]))
  | .csnConnect _ => []
  | .csnTag name _ => [.svcNamed name]
  | .pqGet id => [.pqRow id]
  | .pqList => [.pqAll]

/-- some channel of the WatchSet built in `s` is closed once the store has moved to `s'` -/
def Query.fired (q : Query) (s s' : State) : Bool := (q.watch s).any (WatchItem.changed s s')

end CV.Store
