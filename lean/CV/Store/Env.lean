/-
CV.Store.Env — the store model with its environment made explicit (property C01, round 2).

`CV.Store.apply : State → Nat → Cmd → State × Result` threads ONE record `State` that contains the
replicated tables and, in the field `loc`, the server-local lock-delay map (`Store.lockDelay` in
Go: written by `deleteSessionTxn`, read only by the leader's `kvsPreApply` before a command is
appended to the log; entries expire by the server's own wall clock). Everything a handler of the
modelled families can consult besides the command and the replicated tables is therefore

  * `loc`  — whatever this server's lock-delay map happens to contain when the entry is applied
             (it depends on the server's clock: expiry; and on whether it was restarted), and
  * the clock itself, which the modelled code reads only to stamp new `loc` entries
    (`now := time.Now()` in `deleteSessionTxn`), so it has no other way into the result.

The recursion budget (`fuelFor s = 2 * |sessions| + 2`) is computed from the replicated session
table, so it is not an environment input.

Nothing of `CV/Store/*.lean` is changed here: `applyEnv` is a wrapper that installs the
environment's `loc` into the state, runs the unchanged `apply` and projects the result back to the
replicated part (`State.repl`). `CV/Proofs/StoreEnv.lean` proves that its output does not depend on
the environment; `CV/Props/C01.lean` plugs that into the dispatch-level theorem.
-/
import CV.Store.Apply
import CV.Fsm
namespace CV.Store
open CV

/-- replace the server-local part of a store -/
def setLoc (s : State) (l : Local) : State := { s with loc := l }

/-- two stores with the same replicated tables (they may differ in the lock-delay map) -/
def Sim (a b : State) : Prop := a.repl = b.repl

/-- The environment of one replica at one log position, for the modelled command families. -/
structure Env where
  /-- wall clock of this server (`time.Now()`); only ever used to date new lock-delay entries -/
  clock : Nat := 0
  /-- this server's lock-delay map at that moment -/
  loc : Local := {}
deriving DecidableEq, Repr

/-- One committed entry applied by a replica whose replicated tables are `s` under environment
    `env`: the new replicated tables and the command's result. -/
def applyEnv (env : Env) (s : State) (idx : Nat) (c : Cmd) : State × Result :=
  let r := apply (setLoc s env.loc) idx c
  (r.1.repl, r.2)

/-- Replay of a log by a replica that sees environment `envs pos` at log position `pos`
    (different replicas: different `envs`). Returns the replicated tables and all results. -/
def runEnv (envs : Nat → Env) : Nat → State → Log → State × List Result
  | _, s, [] => (s.repl, [])
  | pos, s, (idx, c) :: rest =>
    let r := applyEnv (envs pos) s idx c
    let t := runEnv envs (pos + 1) r.1 rest
    (t.1, r.2 :: t.2)

/-! ### the modelled families as handlers of the FSM dispatch table (`CV.Fsm`)

The decode layer (msgpack → request struct) is not modelled: the handlers are parametrised by an
arbitrary decoder per message type; `none` = the Go handler panics on a decode failure. -/

/-- decoder of the payloads of one message type into store commands -/
abbrev Decoder := Bytes → Option Cmd

/-- `(*FSM).applyXxx` of a modelled family as a handler of the dispatch table. The replica's
    replicated state is a pair: the tables of the store model and `O`, whatever the not yet
    modelled tables (ACL, config entries, peering, CA, …) are; results are `Result` for the
    modelled families and `R'` for the others. Decode, apply under the environment, project. -/
def storeHandler {O R' : Type} (dec : Decoder) : Fsm.Handler Env (State × O) (Result ⊕ R') :=
  fun env s idx payload =>
    match dec payload with
    | none => none
    | some c =>
      let r := applyEnv env s.1 idx c
      some ((r.1, s.2), .inl r.2)

/-- one decoder per modelled message type -/
structure Decoders where
  register : Decoder
  deregister : Decoder
  kvs : Decoder
  session : Decoder
  tombstone : Decoder
  preparedQuery : Decoder
  txn : Decoder

section
variable {O R' : Type}
/-- The command families the store model covers, as sub-tables of the dispatch table (message type
    bytes as audited in `CV.Props.C01.expectedSlots`). -/
def catalogFamily (d : Decoders) : Fsm.Table Env (State × O) (Result ⊕ R') :=
  [(0, storeHandler d.register), (1, storeHandler d.deregister)]
def kvFamily (d : Decoders) : Fsm.Table Env (State × O) (Result ⊕ R') := [(2, storeHandler d.kvs)]
def sessionFamily (d : Decoders) : Fsm.Table Env (State × O) (Result ⊕ R') := [(3, storeHandler d.session)]
def tombstoneFamily (d : Decoders) : Fsm.Table Env (State × O) (Result ⊕ R') := [(5, storeHandler d.tombstone)]
def pqFamily (d : Decoders) : Fsm.Table Env (State × O) (Result ⊕ R') := [(7, storeHandler d.preparedQuery)]
def txnFamily (d : Decoders) : Fsm.Table Env (State × O) (Result ⊕ R') := [(8, storeHandler d.txn)]

def storeFamilies (d : Decoders) : List (Fsm.Table Env (State × O) (Result ⊕ R')) :=
  [catalogFamily d, kvFamily d, sessionFamily d, tombstoneFamily d, pqFamily d, txnFamily d]
end

end CV.Store
