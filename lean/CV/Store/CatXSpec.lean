/-
CV.Store.CatXSpec — the derived views of the catalog RECOMPUTED from the registrations and config entries
alone, written from the statement of property C07 (not from the code): what the usage counters, the
kind-service-names table and the virtual-IP tables should say. The theorems of CV.Props.C07 compare the
tables the model maintains incrementally (as the code does) with these.
-/
import CV.Store.CatX
namespace CV.Store
open CV

/-- `firstUsageEntry`: the count stored for `id` (0 when there is no row) -/
def usageGet (s : XState) (id : String) : Nat :=
  match tfind UsageRow.pk (lc id) s.usage with
  | some r => r.count
  | none => 0

/-- distinct service names of the local catalog (names are compared the way the catalog indexes them) -/
def localServiceNames (s : XState) : List String := (s.loc.st.svcs.map fun v => lc v.name).eraseDups

/-- the usage counters recomputed from the local registrations, the KV table and the config entries -/
def usageOf (s : XState) (id : String) : Nat :=
  if id = "nodes" then s.loc.st.nodes.length
  else if id = "services" then s.loc.st.svcs.length
  else if id = "service-names" then (localServiceNames s).length
  else if id = "billable-services" then
    (s.loc.rows.filter fun r => r.2.kind == .typical && r.1.name != consulServiceName).length
  else if id = "connect-mesh-connect-native" then (s.loc.rows.filter fun r => r.2.native).length
  else if id = "kvs" then s.loc.st.kvs.length
  else
    match [Kind.connectProxy, .meshGateway, .terminatingGateway, .ingressGateway, .apiGateway].find?
        (fun k => id == connectUsageName k.raw) with
    | some k => (s.loc.rows.filter fun r => r.2.kind == k).length
    | none => (s.cfg.filter fun c => id == "config-entries-" ++ c.kind).length

/-- FULL-STRENGTH statement for the usage counters -/
def UsageExact (s : XState) : Prop := ∀ id, usageGet s id = usageOf s id

/-- the (kind, name) pairs the registrations and config entries give: every local instance under its kind,
    every name served through Connect under connect-enabled, every service-defaults with a Destination -/
def kindNamesOf (s : XState) : List (Kind × String) :=
  (s.loc.rows.map fun r => (r.2.kind, lc r.1.name)) ++
  (s.loc.rows.filterMap fun r => match connectName r with
    | some n => if n = "" then none else some (Kind.connectEnabled, lc n)
    | none => none) ++
  (s.cfg.filterMap fun c => if c.kind = "service-defaults" ∧ c.dest = true then some (Kind.destination, lc c.name) else none)

/-- FULL-STRENGTH statement for kind-service-names: the table lists exactly the recomputed pairs -/
def KindNamesExact (s : XState) : Prop :=
  ∀ k n, (∃ r ∈ s.kindNames, r.kind = k ∧ lc r.name = n) ↔ (k, n) ∈ kindNamesOf s

/-- the virtual IP a catalog row advertises is its service's current assignment -/
def VipAgrees (s : XState) : Prop :=
  ∀ q, ∀ r ∈ (s.cat q).rows, ∀ ip, r.2.vip = some ip → ∀ sn, connectName r = some sn →
    ∃ a ∈ s.vips, a.pk = vipKey q sn ∧ a.ip = ip

/-- FULL-STRENGTH statement for virtual IPs: no address assigned twice, the freed address is not assigned, and
    every advertised address is the current assignment -/
def vipWellFormed (s : XState) : Prop :=
  (s.vips.map (·.ip)).Nodup ∧ (∀ r ∈ s.vips, some r.ip ≠ s.freeIP) ∧ VipAgrees s

end CV.Store
