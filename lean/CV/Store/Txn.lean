/-
CV.Store.Txn — the transaction dispatcher (`agent/consul/state/txn.go`): `txnKVS` (13 verbs),
`txnNode`, `txnService`, `txnCheck`, `txnSession`, `txnDispatch`, `TxnRW`.

`txnDispatch` keeps executing after a failed operation and collects every error; `TxnRW` commits only
when there was none. In the model a failed operation leaves the working copy as it was: every error
branch of the modelled verbs is taken before the verb's first write (the only exceptions are
errors of nested cascades, which cannot occur while every check has its node and service).
-/
import CV.Store.Catalog
namespace CV.Store
open CV

inductive KvVerb
  | set | delete | deleteCas | deleteTree | cas | lock | unlock
  | get | getOrEmpty | getTree | checkSession | checkIndex | checkNotExists
deriving DecidableEq, Repr

inductive CatVerb | get | set | cas | delete | deleteCas
deriving DecidableEq, Repr

inductive TxnOp
  | kv (v : KvVerb) (e : KV)
  | node (v : CatVerb) (n : Node)
  | service (v : CatVerb) (x : Svc)
  | check (v : CatVerb) (c : Chk)
  | sessionDelete (id : String)
deriving DecidableEq, Repr

/-- one entry of `structs.TxnResults` -/
inductive TxnRes
  | kv (e : KV) (withValue : Bool)
  | node (n : Node)
  | service (x : Svc)
  | check (c : Chk)
deriving DecidableEq, Repr

def okRes (s : State) (rs : List TxnRes) : Except Err (State × List TxnRes) := .ok (s, rs)

/-- `txnKVS` -/
def txnKV (s : State) (idx : Nat) (v : KvVerb) (e : KV) : Except Err (State × List TxnRes) :=
  match v with
  | .set => match kvSetTxn s idx e false with
    | .ok (s', w) => okRes s' [.kv w false]
    | .error er => .error er
  | .delete => match kvDeleteTxn s idx e.key with
    | .ok s' => okRes s' []
    | .error er => .error er
  | .deleteCas => match kvDeleteCasTxn s idx e.modify e.key with
    | .ok (s', true) => okRes s' []
    | .ok (_, false) => .error .casStale
    | .error er => .error er
  | .deleteTree => okRes (kvDeleteTreeTxn s idx e.key) []
  | .cas => match kvSetCasTxn s idx e with
    | .ok (s', true, w) => okRes s' [.kv w false]
    | .ok (_, false, _) => .error .casStale
    | .error er => .error er
  | .lock => match kvLockTxn s idx e with
    | .ok (s', true, w) => okRes s' [.kv w false]
    | .ok (_, false, _) => .error .lockHeld
    | .error er => .error er
  | .unlock => match kvUnlockTxn s idx e with
    | .ok (s', true, w) => okRes s' [.kv w false]
    | .ok (_, false, _) => .error .unlockFailed
    | .error er => .error er
  | .get => match kvGet s e.key with
    | .ok (_, some x) => okRes s [.kv x true]
    | .ok (_, none) => .error .keyMissing
    | .error er => .error er
  | .getOrEmpty => match kvGet s e.key with
    | .ok (_, some x) => okRes s [.kv x true]
    | .ok (_, none) => okRes s [.kv { e with val := "=" } true]
    | .error er => .error er
  | .getTree => okRes s ((kvList s e.key).2.map (fun x => .kv x true))
  | .checkSession => match kvCheckSession s e.key e.session with
    | .ok x => okRes s [.kv x false]
    | .error er => .error er
  | .checkIndex => match kvCheckIndex s e.key e.modify with
    | .ok x => okRes s [.kv x false]
    | .error er => .error er
  | .checkNotExists => match kvGet s e.key with
    | .ok (_, some _) => .error .keyExists
    | .ok (_, none) => okRes s []
    | .error er => .error er

/-- the `getNode` closure of `txnNode` -/
def txnGetNode (s : State) (n : Node) : Option Node :=
  if n.id ≠ "" then nodeFindByID s n.id else nodeFind s n.name

def nodeRes (s : State) (n : Node) : List TxnRes :=
  match txnGetNode s n with | some x => [.node x] | none => []

/-- `txnNode` -/
def txnNode (s : State) (idx : Nat) (v : CatVerb) (n : Node) : Except Err (State × List TxnRes) :=
  match v with
  | .get => match txnGetNode s n with
    | some x => okRes s [.node x]
    | none => .error .nodeMissing
  | .set => match ensureNode s idx n with
    | .ok s' => okRes s' (nodeRes s' n)
    | .error e => .error e
  | .cas => match ensureNodeCas s idx n with
    | .ok (s', true) => okRes s' (nodeRes s' n)
    | .ok (_, false) => .error .casStale
    | .error e => .error e
  | .delete => match deleteNode s idx n.name with
    | .ok s' => okRes s' []
    | .error e => .error e
  | .deleteCas => match deleteNodeCas s idx n.modify n.name with
    | .ok (s', true) => okRes s' []
    | .ok (_, false) => .error .casStale
    | .error e => .error e

def svcRes (s : State) (x : Svc) : List TxnRes :=
  match svcFind s x.node x.id with | some y => [.service y] | none => []

/-- `txnService` -/
def txnService (s : State) (idx : Nat) (v : CatVerb) (x : Svc) : Except Err (State × List TxnRes) :=
  match v with
  | .get => match svcFind s x.node x.id with
    | some y => okRes s [.service y]
    | none => .error .serviceMissing
  | .set => match ensureService s idx x with
    | .ok s' => okRes s' (svcRes s' x)
    | .error e => .error e
  | .cas => match ensureServiceCas s idx x with
    | .ok (s', true) => okRes s' (svcRes s' x)
    | .ok (_, false) => .error .casStale
    | .error e => .error e
  | .delete => match deleteService s idx x.node x.id with
    | .ok s' => okRes s' []
    | .error e => .error e
  | .deleteCas => match deleteServiceCas s idx x.modify x.node x.id with
    | .ok (s', true) => okRes s' []
    | .ok (_, false) => .error .casStale
    | .error e => .error e

def chkRes (s : State) (c : Chk) : List TxnRes :=
  match chkFind s c.node c.id with | some y => [.check y] | none => []

/-- `txnCheck` -/
def txnCheck (s : State) (idx : Nat) (v : CatVerb) (c : Chk) : Except Err (State × List TxnRes) :=
  match v with
  | .get => match chkFind s c.node c.id with
    | some y => okRes s [.check y]
    | none => .error .checkMissing
  | .set => match ensureCheck s idx false c with
    | .ok s' => okRes s' (chkRes s' c)
    | .error e => .error e
  | .cas => match ensureCheckCas s idx c with
    | .ok (s', true) => okRes s' (chkRes s' c)
    | .ok (_, false) => .error .casStale
    | .error e => .error e
  | .delete => match deleteCheck s idx c.node c.id with
    | .ok s' => okRes s' []
    | .error e => .error e
  | .deleteCas => match deleteCheckCas s idx c.modify c.node c.id with
    | .ok (s', true) => okRes s' []
    | .ok (_, false) => .error .casStale
    | .error e => .error e

/-- one iteration of the `txnDispatch` loop -/
def txnStep (s : State) (idx : Nat) : TxnOp → Except Err (State × List TxnRes)
  | .kv v e => txnKV s idx v e
  | .node v n => txnNode s idx v n
  | .service v x => txnService s idx v x
  | .check v c => txnCheck s idx v c
  | .sessionDelete id => match deleteSession s idx id with
    | .ok s' => okRes s' []
    | .error e => .error e

/-- `txnDispatch`: working state, accumulated results, accumulated (position, error) -/
def txnLoop (idx : Nat) : List TxnOp → Nat → State → List TxnRes → List (Nat × Err) → State × List TxnRes × List (Nat × Err)
  | [], _, s, rs, es => (s, rs, es)
  | op :: ops, i, s, rs, es =>
    match txnStep s idx op with
    | .ok (s', r) => txnLoop idx ops (i + 1) s' (rs ++ r) es
    | .error e => txnLoop idx ops (i + 1) s rs (es ++ [(i, e)])

/-- `TxnRW`: all or nothing -/
def txnRW (s : State) (idx : Nat) (ops : List TxnOp) : State × List TxnRes × List (Nat × Err) :=
  let (s', rs, es) := txnLoop idx ops 0 s [] []
  if es.isEmpty then (s', rs, []) else (s, [], es)

/-! ### read-only transactions (`TxnRO`) -/

/-- the verbs the HTTP layer routes to the read-only endpoint (`agent/txn_endpoint.go`: everything
    that is not counted as a write) -/
def TxnOp.isRead : TxnOp → Bool
  | .kv .get _ | .kv .getOrEmpty _ | .kv .getTree _ | .kv .checkSession _ | .kv .checkIndex _
  | .kv .checkNotExists _ => true
  | .node .get _ | .service .get _ | .check .get _ => true
  | _ => false

def TxnOp.isDeleteTree : TxnOp → Bool
  | .kv .deleteTree _ => true
  | _ => false

/-- `ensureServiceTxn` records the service NAME (kind-service-names, not modelled as a table: a row
    exists exactly while some instance of that name does) before it looks for the node, so in a read
    transaction a first instance of a name is refused as a write even when the node is missing -/
def roEarlyWrite (s : State) : TxnOp → Bool
  | .service .set x => !s.svcs.any (fun w => lc w.name == lc x.name)
  | .service .cas x => !casRefused x.modify ((svcFind s x.node x.id).map (·.modify)) &&
      !s.svcs.any (fun w => lc w.name == lc x.name)
  | _ => false

/-- One operation inside `TxnRO`: the dispatcher runs on a memdb READ transaction with index 0.
    Reads behave as in `TxnRW`; the first memdb write (`Insert` / `Delete` / `DeletePrefix`) fails
    with "… in read-only transaction". A verb that turns out to write nothing (delete of an absent
    key, an identical set, …) succeeds; `DeletePrefix` refuses before it looks at the table. -/
def txnStepRO (s : State) (op : TxnOp) : Except Err (List TxnRes) :=
  if roEarlyWrite s op then .error .readOnly else
  match txnStep s 0 op with
  | .error e => .error e
  | .ok (s', rs) => if s' = s ∧ !op.isDeleteTree then .ok rs else .error .readOnly

def txnLoopRO (s : State) : List TxnOp → Nat → List TxnRes → List (Nat × Err) → List TxnRes × List (Nat × Err)
  | [], _, rs, es => (rs, es)
  | op :: ops, i, rs, es =>
    match txnStepRO s op with
    | .ok r => txnLoopRO s ops (i + 1) (rs ++ r) es
    | .error e => txnLoopRO s ops (i + 1) rs (es ++ [(i, e)])

/-- `TxnRO`: results, or the errors; there is no state to return -/
def txnRO (s : State) (ops : List TxnOp) : List TxnRes × List (Nat × Err) :=
  let (rs, es) := txnLoopRO s ops 0 [] []
  if es.isEmpty then (rs, []) else ([], es)

end CV.Store
