/-
CV.Store.TxnEndpoint — the layers ABOVE the state store that a transaction passes through (property C05):

  * `agent/consul/txn_endpoint.go`: `Txn.preCheck` (per operation: verb validation, `kvsPreApply` with the
    leader's lock-delay check, `nodePreApply`, `servicePreApplyValidate` — which REWRITES an empty
    service ID —, `checkPreApply`, and the ACL vetting `vetNodeTxnOp` / `vetServiceTxnOp` /
    `vetCheckTxnOp` / `vetSessionTxnOp`, all of which look at the COMMITTED state), `Txn.Apply`
    (pre-check, then one Raft entry = `fsm.applyTxn` = `Store.TxnRW`, then `FilterTxnResults`),
    `Txn.Read` (pre-check, `Store.TxnRO`, filter, `ResultsFilteredByACLs`);
  * `agent/consul/filter.go`: `txnResultsFilter`;
  * `agent/txn_endpoint.go`: the write classification of `convertOps` (`isWrite` for KV verbs, "not
    get" for node / service / check verbs) and the routing of `HTTPHandlers.Txn` (no write ⇒ `Txn.Read`,
    else `Txn.Apply`), the operation-count limit.

The ACL decision procedure itself (policy compilation, longest-prefix rule matching) is property
C09's subject: here an authorizer is the table of its answers (`Authz`), and the model fixes WHICH
permission is asked about WHICH name at WHICH stage and on WHICH state.
-/
import CV.Store.Txn
namespace CV.Store
open CV

/-- `acl.Authorizer` as far as the transaction endpoint asks it (default partition / namespace) -/
structure Authz where
  keyRead : Key → Bool
  keyWrite : Key → Bool
  keyWritePrefix : Key → Bool
  nodeRead : String → Bool
  nodeWrite : String → Bool
  serviceRead : String → Bool
  serviceWrite : String → Bool
  sessionWrite : String → Bool

/-- `acl.ManageAll()` -/
def Authz.all : Authz := ⟨fun _ => true, fun _ => true, fun _ => true, fun _ => true, fun _ => true,
  fun _ => true, fun _ => true, fun _ => true⟩

/-- errors raised before the transaction reaches Raft -/
inductive PreErr
  | mustProvideKey      -- kvsPreApply: "Must provide key"
  | denied              -- acl.PermissionDeniedError
  | lockDelay           -- "failed to lock key … due to lock delay"
  | mustProvideNode     -- nodePreApply: "Must provide node"
  | badNodeID           -- nodePreApply: "Bad node ID"
  | svcNameRequired     -- servicePreApplyValidate: ID and name both empty
  | mustProvideSvcName  -- servicePreApplyValidate: an ID but no name
  | svcNameMismatch     -- vetServiceTxnOp: name differs from the registered one for that ID
  | unknownServiceID    -- vetCheckWrite: service-level check, no such service, no ServiceName
deriving DecidableEq, Repr

def PreErr.name : PreErr → String
  | .mustProvideKey => "must-provide-key" | .denied => "denied" | .lockDelay => "lock-delay"
  | .mustProvideNode => "must-provide-node" | .badNodeID => "bad-node-id"
  | .svcNameRequired => "service-name-required" | .mustProvideSvcName => "must-provide-service-name" | .svcNameMismatch => "service-name-mismatch"
  | .unknownServiceID => "unknown-service-id"

def allow (b : Bool) : Option PreErr := if b then none else some .denied

/-- `kvsPreApply` -/
def kvPreApply (a : Authz) (s : State) (v : KvVerb) (e : KV) : Option PreErr :=
  if e.key = [] ∧ v ≠ .deleteTree then some .mustProvideKey else
  let aclErr : Option PreErr := match v with
    | .deleteTree => allow (a.keyWritePrefix e.key)
    | .get | .getTree | .getOrEmpty => none
    | .checkSession | .checkIndex => allow (a.keyRead e.key)
    | .checkNotExists | .unlock | .lock | .cas | .deleteCas | .delete | .set => allow (a.keyWrite e.key)
  match aclErr with
  | some er => some er
  | none => if v = .lock ∧ e.key ∈ s.loc.delayKeys then some .lockDelay else none

def isHexChar (c : Char) : Bool := c.isDigit || ('a' ≤ c && c ≤ 'f') || ('A' ≤ c && c ≤ 'F')

/-- `uuid.ParseUUID` succeeds: 36 characters, hex digits everywhere but at the four separator
    positions (which it skips without looking at them) -/
def parsesAsUUID (t : String) : Bool :=
  let l := t.toList
  l.length == 36 &&
  ((l.take 8) ++ ((l.drop 9).take 4) ++ ((l.drop 14).take 4) ++ ((l.drop 19).take 4) ++ ((l.drop 24).take 12)).all isHexChar

/-- `nodePreApply` -/
def nodePreApply (n : Node) : Option PreErr :=
  if n.name = "" then some .mustProvideNode
  else if n.id ≠ "" ∧ !parsesAsUUID n.id then some .badNodeID
  else none

/-- `vetNodeTxnOp` (on the committed state) -/
def vetNode (a : Authz) (s : State) (n : Node) : Option PreErr :=
  match (if n.id ≠ "" then nodeFindByID s n.id else none) with
  | some ex =>
    if !a.nodeWrite ex.name then some .denied
    else if lc ex.name ≠ lc n.name then allow (a.nodeWrite n.name)
    else none
  | none => allow (a.nodeWrite n.name)

/-- the rewrite done by `servicePreApplyValidate`: an empty ID defaults to the name -/
def normSvc (x : Svc) : Svc := if x.id = "" ∧ x.name ≠ "" then { x with id := x.name } else x

/-- `servicePreApplyValidate` (typical kind) followed by `vetServiceTxnOp` -/
def vetService (a : Authz) (s : State) (x : Svc) : Option PreErr :=
  if x.id = "" ∧ x.name = "" then some .svcNameRequired else
  let y := normSvc x
  if y.name = "" then some .mustProvideSvcName else
  match svcFind s y.node y.id with
  | some ex => if y.name ≠ ex.name then some .svcNameMismatch else allow (a.serviceWrite y.name)
  | none => allow (a.serviceWrite y.name)

/-- `vetCheckWrite` -/
def vetCheckWrite (a : Authz) (s : State) (c : Chk) : Option PreErr :=
  if c.svcId = "" then allow (a.nodeWrite c.node) else
  match svcFind s c.node c.svcId with
  | some sv => allow (a.serviceWrite sv.name)
  | none => if c.svcName = "" then some .unknownServiceID else allow (a.serviceWrite c.svcName)

/-- `vetCheckTxnOp`: the stored check, when there is one, decides -/
def vetCheck (a : Authz) (s : State) (c : Chk) : Option PreErr :=
  match chkFind s c.node c.id with
  | some ex => vetCheckWrite a s ex
  | none => vetCheckWrite a s c

/-- `vetSessionTxnOp` -/
def vetSession (a : Authz) (s : State) (id : String) : Option PreErr :=
  match sessFind s id with
  | some x => allow (a.sessionWrite x.node)
  | none => none

/-- one iteration of `Txn.preCheck` -/
def preCheckOp (a : Authz) (s : State) : TxnOp → Option PreErr
  | .kv v e => kvPreApply a s v e
  | .node .get _ => none
  | .node _ n => match nodePreApply n with
    | some e => some e
    | none => vetNode a s n
  | .service .get _ => none
  | .service _ x => vetService a s x
  | .check .get _ => none
  | .check _ c => vetCheck a s c
  | .sessionDelete id => vetSession a s id

/-- what the operation looks like after `preCheck` (it works on the request in place) -/
def normOp : TxnOp → TxnOp
  | .service .get x => .service .get x
  | .service v x => .service v (normSvc x)
  | op => op

/-- `Txn.preCheck`: (position, error) of every refused operation -/
def preCheckFrom (a : Authz) (s : State) : List TxnOp → Nat → List (Nat × PreErr)
  | [], _ => []
  | op :: ops, i =>
    match preCheckOp a s op with
    | some e => (i, e) :: preCheckFrom a s ops (i + 1)
    | none => preCheckFrom a s ops (i + 1)

def preCheck (a : Authz) (s : State) (ops : List TxnOp) : List (Nat × PreErr) := preCheckFrom a s ops 0

/-- `txnResultsFilter.Filter` negated: the result stays -/
def resVisible (a : Authz) : TxnRes → Bool
  | .kv e _ => a.keyRead e.key
  | .node n => a.nodeRead n.name
  | .service x => a.serviceRead x.name
  | .check c => if c.svcName ≠ "" then a.serviceRead c.svcName else a.nodeRead c.node

/-- `FilterTxnResults` (an in-place, order-preserving compaction) -/
def filterResults (a : Authz) (rs : List TxnRes) : List TxnRes := rs.filter (resVisible a)

/-- errors of the endpoint: raised by the pre-check, or by the state store inside the transaction -/
inductive EpErr
  | pre (e : PreErr)
  | st (e : Err)
deriving DecidableEq, Repr

/-- answer of `Txn.Apply` -/
structure ApplyOut where
  state : State
  /-- a Raft entry was written (the index was consumed) -/
  raft : Bool
  results : List TxnRes
  errors : List (Nat × EpErr)

/-- `Txn.Apply` on the leader: `idx` is the index the Raft entry gets IF one is written -/
def txnApply (a : Authz) (s : State) (idx : Nat) (ops : List TxnOp) : ApplyOut :=
  match preCheck a s ops with
  | [] =>
    let r := txnRW s idx (ops.map normOp)
    ⟨r.1, true, filterResults a r.2.1, r.2.2.map (fun (i, e) => (i, .st e))⟩
  | pes => ⟨s, false, [], pes.map (fun (i, e) => (i, .pre e))⟩

/-- answer of `Txn.Read`: results, errors, `ResultsFilteredByACLs` -/
def txnRead (a : Authz) (s : State) (ops : List TxnOp) : List TxnRes × List (Nat × EpErr) × Bool :=
  match preCheck a s ops with
  | [] =>
    let r := txnRO s (ops.map normOp)
    let f := filterResults a r.1
    (f, r.2.map (fun (i, e) => (i, .st e)), f.length != r.1.length)
  | pes => ([], pes.map (fun (i, e) => (i, .pre e)), false)

/-! ### the HTTP layer (`agent/txn_endpoint.go`) -/

/-- `isWrite(api.KVOp)` -/
def KvVerb.httpWrite : KvVerb → Bool
  | .set | .delete | .deleteCas | .deleteTree | .cas | .lock | .unlock => true
  | _ => false

/-- what `convertOps` counts as a write (`writes++`). The HTTP body format has no session operations:
    those reach the endpoint only by RPC -/
def TxnOp.httpWrite : TxnOp → Bool
  | .kv v _ => v.httpWrite
  | .node v _ | .service v _ | .check v _ => v ≠ .get
  | .sessionDelete _ => true

def TxnOp.fromHTTP : TxnOp → Bool
  | .sessionDelete _ => false
  | _ => true

/-- `maxTxnOps` -/
def maxTxnOps : Nat := 128

inductive HttpOut
  | tooMany                                                   -- 413
  | read (rs : List TxnRes) (es : List (Nat × EpErr)) (filtered : Bool)   -- 200, or 409 when `es ≠ []`
  | apply (out : ApplyOut)                                    -- 200, or 409 when `errors ≠ []`

/-- `HTTPHandlers.Txn` after the body has been decoded into operations -/
def httpTxn (a : Authz) (s : State) (idx : Nat) (ops : List TxnOp) : HttpOut :=
  if ops.length > maxTxnOps then .tooMany
  else if (ops.filter TxnOp.httpWrite).length = 0 then
    let r := txnRead a s ops; .read r.1 r.2.1 r.2.2
  else .apply (txnApply a s idx ops)

def HttpOut.state (s : State) : HttpOut → State
  | .apply o => o.state
  | _ => s

end CV.Store
