/-
CV.Store.Catalog — the minimal catalog the session / lock logic depends on: nodes, typical
services, health checks, and the cascades of deleteNodeTxn / deleteServiceTxn / deleteCheckTxn.

Mirrors agent/consul/state/catalog.go + catalog_ce.go: `ensureRegistrationTxn`, `ensureNodeTxn`
(incl. rename by node ID), `ensureNoNodeWithSimilarNameTxn`, `ensureNodeCASTxn`,
`ensureServiceTxn`, `ensureServiceCASTxn`, `ensureCheckCASTxn`, `deleteNodeTxn`, `deleteNodeCASTxn`,
`deleteServiceTxn`, `deleteServiceCASTxn`, `deleteCheckTxn`, `deleteCheckCASTxn` and the
`catalogUpdate*Indexes` helpers (index rows `nodes`, `services`, `checks`, their `peer.~:`
twins, `peer.~:node.<n>`, `peer.~:service.<s>`, `service_kind.typical`,
`peer.~:service_last_extinction`, `peer.~:node_last_extinction`).

Not modelled (left for C07): service kinds other than typical, connect, gateways, virtual IPs,
kind-service-names (and their `kind-service-names.*` index rows), usage counters, coordinates, peers.
-/
import CV.Store.Session
namespace CV.Store
open CV

def serfCheckID : String := "serfHealth"

/-- `Node.IsSame` / `RegisterRequest.ChangesNode` on the modelled fields -/
def nodeSame (a b : Node) : Bool := a.id == b.id && lc a.name == lc b.name && a.addr == b.addr

/-- `tx.First(nodes, "uuid_prefix", id)` for full-length IDs -/
def nodeFindByID (s : State) (id : String) : Option Node := s.nodes.find? (fun n => n.id != "" && lc n.id == lc id)

/-- `ensureNoNodeWithSimilarNameTxn` -/
def nameClash (s : State) (n : Node) (allowClashWithoutID : Bool) : Bool :=
  s.nodes.any fun e =>
    lc e.name == lc n.name && e.id != n.id &&
    (let healthy := match chkFind s e.name serfCheckID with
        | some c => c.status != critical
        | none => false
     (e.id != "" || !allowClashWithoutID) && healthy)

/-- `catalogInsertNode` -/
def nodeInsert (s : State) (n : Node) : State :=
  let s1 := { s with nodes := tupsert Node.pk strLt n s.nodes }
  let s2 := (s1.maxIdx2 "nodes" n.modify).maxIdx ("peer.~:node." ++ n.name) n.modify
  updateAllServiceIndexesOfNode s2 n.modify n.name

/-- `deleteCheckTxn` up to (excluding) the session invalidation: index bumps and the row delete -/
def deleteCheckPre (s : State) (idx : Nat) (node id : String) (x : Chk) : State :=
  let s1 :=
    if x.svcId ≠ "" then
      -- (the Go code dereferences the service row here; a check never outlives its service)
      (s.maxIdx ("peer.~:service." ++ x.svcName) idx).maxIdx2 "service_kind.typical" idx
    else (updateAllServiceIndexesOfNode s idx x.node).maxIdx2 "services" idx
  ({ s1 with chks := terase Chk.pk (pk2 node id) s1.chks }).maxIdx2 "checks" idx

/-- `deleteCheckTxn` -/
def deleteCheck (s : State) (idx : Nat) (node id : String) : Except Err State :=
  match chkFind s node id with
  | none => .ok s
  | some x =>
    let s2 := deleteCheckPre s idx node id x
    foldE (fun st sid => deleteSession st idx sid) (checkSessions s2 x.node x.id) s2

/-- `deleteServiceTxn` after its checks are gone: the row delete and the index maintenance -/
def deleteServicePost (s1 : State) (idx : Nat) (node id : String) (v : Svc) : State :=
  let s2 := s1.maxIdx2 "checks" idx
  let s3 := { s2 with svcs := terase Svc.pk (pk2 node id) s2.svcs }
  let s4 := (((s3.maxIdx2 "services" idx).maxIdx2 "service_kind.typical" idx).maxIdx2 "nodes" idx).maxIdx
              ("peer.~:node." ++ node) idx
  if s4.svcs.any (fun w => lc w.name == lc v.name) then
    s4.maxIdx ("peer.~:service." ++ v.name) idx
  else
    (s4.delIdx ("peer.~:service." ++ v.name)).maxIdx "peer.~:service_last_extinction" idx

/-- `deleteServiceTxn` -/
def deleteService (s : State) (idx : Nat) (node id : String) : Except Err State :=
  match svcFind s node id with
  | none => .ok s
  | some v =>
    let cs := s.chks.filter (fun c => lc c.node == lc node && lc c.svcId == lc id)
    match foldE (fun st c => deleteCheck st idx node c.id) cs s with
    | .error e => .error e
    | .ok s1 => .ok (deleteServicePost s1 idx node id v)

/-- `deleteNodeTxn`: the row delete and index maintenance between the check loop and the session loop -/
def deleteNodePost (s3 : State) (idx : Nat) (name : String) : State :=
  let s4 := { s3 with nodes := terase Node.pk (lc name) s3.nodes }
  (((s4.maxIdx2 "nodes" idx).delIdx ("peer.~:node." ++ name)).maxIdx "peer.~:node_last_extinction" idx)

/-- `deleteNodeTxn` -/
def deleteNode (s : State) (idx : Nat) (name : String) : Except Err State :=
  match nodeFind s name with
  | none => .ok s
  | some _ =>
    let svcs := s.svcs.filter (fun v => lc v.node == lc name)
    let s1 := svcs.foldl (fun st v => bumpServiceIdx st idx v.name) s
    match foldE (fun st v => deleteService st idx name v.id) svcs s1 with
    | .error e => .error e
    | .ok s2 =>
      let cs := s2.chks.filter (fun c => lc c.node == lc name)
      match foldE (fun st c => deleteCheck st idx name c.id) cs s2 with
      | .error e => .error e
      | .ok s3 =>
        let s5 := deleteNodePost s3 idx name
        -- allNodeSessionsTxn
        let ids := (s5.sessions.filter (fun x => lc x.node == lc name)).map (·.id)
        foldE (fun st sid => deleteSession st idx sid) ids s5

/-- `ensureNodeTxn` (preserveIndexes = false) -/
def ensureNode (s : State) (idx : Nat) (node : Node) : Except Err State :=
  -- by-ID part: rename or ID adoption
  let r : Except Err (State × Option Node) :=
    if node.id ≠ "" then
      match nodeFindByID s node.id with
      | some n =>
        if lc n.name ≠ lc node.name then
          if nameClash s node false then .error .nodeNameReserved
          else match deleteNode s idx n.name with
            | .ok s' => .ok (s', some n)
            | .error e => .error e
        else .ok (s, some n)
      | none => if nameClash s node true then .error .nodeNameReserved else .ok (s, none)
    else .ok (s, none)
  match r with
  | .error e => .error e
  | .ok (s1, byId) =>
    let n? := match byId with
      | some n => some n
      | none => nodeFind s1 node.name
    match n? with
    | some n =>
      let node := { node with create := n.create, modify := n.modify }
      if nodeSame node n then .ok s1
      else .ok (nodeInsert s1 { node with modify := idx })
    | none => .ok (nodeInsert s1 { node with create := idx, modify := idx })

/-- the three refusals shared by every `ensure…CASTxn`: index 0 means create-only, a non-zero index
    needs an existing row with exactly that ModifyIndex -/
def casRefused (reqIdx : Nat) (existingModify : Option Nat) : Bool :=
  match existingModify with
  | some m => reqIdx == 0 || reqIdx != m
  | none => reqIdx != 0

/-- `ensureNodeCASTxn` -/
def ensureNodeCas (s : State) (idx : Nat) (node : Node) : Except Err (State × Bool) :=
  if casRefused node.modify ((nodeFind s node.name).map (·.modify)) then .ok (s, false)
  else match ensureNode s idx node with
    | .ok s' => .ok (s', true)
    | .error e => .error e

/-- `deleteNodeCASTxn` -/
def deleteNodeCas (s : State) (idx cidx : Nat) (name : String) : Except Err (State × Bool) :=
  match nodeFind s name with
  | none => .ok (s, false)
  | some n =>
    if n.modify ≠ cidx then .ok (s, false)
    else match deleteNode s idx name with
      | .ok s' => .ok (s', true)
      | .error e => .error e

/-- `ServiceNode.IsSameService` on the modelled fields -/
def svcSame (a b : Svc) : Bool := lc a.node == lc b.node && a.id == b.id && a.name == b.name && a.port == b.port

/-- `catalogInsertService` -/
def svcInsert (s : State) (v : Svc) : State :=
  let s1 := { s with svcs := tupsert Svc.pk strLt v s.svcs }
  ((((s1.maxIdx2 "services" v.modify).maxIdx ("peer.~:service." ++ v.name) v.modify).maxIdx2
      "service_kind.typical" v.modify).maxIdx2 "nodes" v.modify).maxIdx ("peer.~:node." ++ v.node) v.modify

/-- `ensureServiceTxn` (typical kind, preserveIndexes = false) -/
def ensureService (s : State) (idx : Nat) (v : Svc) : Except Err State :=
  match nodeFind s v.node with
  | none => .error .missingNode
  | some _ =>
    match svcFind s v.node v.id with
    | some x =>
      let e := { v with create := x.create, modify := x.modify }
      if svcSame e x then .ok s else .ok (svcInsert s { e with modify := idx })
    | none => .ok (svcInsert s { v with create := idx, modify := idx })

/-- `ensureServiceCASTxn`; `none` = comparison failed -/
def ensureServiceCas (s : State) (idx : Nat) (v : Svc) : Except Err (State × Bool) :=
  if casRefused v.modify ((svcFind s v.node v.id).map (·.modify)) then .ok (s, false)
  else match ensureService s idx v with
    | .ok s' => .ok (s', true)
    | .error e => .error e

/-- `deleteServiceCASTxn` -/
def deleteServiceCas (s : State) (idx cidx : Nat) (node id : String) : Except Err (State × Bool) :=
  match svcFind s node id with
  | none => .ok (s, false)
  | some v =>
    if v.modify ≠ cidx then .ok (s, false)
    else match deleteService s idx node id with
      | .ok s' => .ok (s', true)
      | .error e => .error e

/-- `ensureCheckCASTxn` -/
def ensureCheckCas (s : State) (idx : Nat) (c : Chk) : Except Err (State × Bool) :=
  if casRefused c.modify ((chkFind s c.node c.id).map (·.modify)) then .ok (s, false)
  else match ensureCheck s idx false c with
    | .ok s' => .ok (s', true)
    | .error e => .error e

/-- `deleteCheckCASTxn` -/
def deleteCheckCas (s : State) (idx cidx : Nat) (node id : String) : Except Err (State × Bool) :=
  match chkFind s node id with
  | none => .ok (s, false)
  | some c =>
    if c.modify ≠ cidx then .ok (s, false)
    else match deleteCheck s idx node id with
      | .ok s' => .ok (s', true)
      | .error e => .error e

/-- `structs.RegisterRequest` (node + optional service + checks) -/
structure RegReq where
  node : Node
  svc : Option Svc
  checks : List Chk
deriving DecidableEq, Repr

/-- `ensureCheckIfNodeMatches` -/
def ensureCheckIfNodeMatches (s : State) (idx : Nat) (node : String) (c : Chk) : Except Err State :=
  if lc c.node ≠ lc node then .error .checkNodeMismatch else ensureCheck s idx false c

/-- `ensureRegistrationTxn` -/
def ensureRegistration (s : State) (idx : Nat) (r : RegReq) : Except Err State :=
  let r1 : Except Err State :=
    match nodeFind s r.node.name with
    | some x => if nodeSame r.node x then .ok s else ensureNode s idx r.node
    | none => ensureNode s idx r.node
  match r1 with
  | .error e => .error e
  | .ok s1 =>
    let r2 : Except Err State :=
      match r.svc with
      | none => .ok s1
      | some v =>
        match svcFind s1 r.node.name v.id with
        | some x => if x.id == v.id && x.name == v.name && x.port == v.port then .ok s1
                    else ensureService s1 idx { v with node := r.node.name }
        | none => ensureService s1 idx { v with node := r.node.name }
    match r2 with
    | .error e => .error e
    | .ok s2 => foldE (fun st c => ensureCheckIfNodeMatches st idx r.node.name c) r.checks s2

end CV.Store
