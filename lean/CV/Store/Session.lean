/-
CV.Store.Session — sessions, session-check links, prepared queries (as (id, session) rows) and the
health-check upsert, which is recursive together with session invalidation.

Mirrors agent/consul/state/session.go + session_ce.go (`sessionCreateTxn`, `deleteSessionTxn`,
`updateSessionCheck`, `validateSessionChecksTxn`, `insertSessionTxn`, `sessionDeleteWithSession`),
agent/consul/state/catalog.go (`ensureCheckTxn`, `checkSessionsTxn`,
`updateAllServiceIndexesOfNode`, `catalogInsertCheck`) and prepared_query.go
(`preparedQuerySetTxn` for plain queries, `preparedQueryDeleteTxn`).

Recursion. `deleteSessionTxn` → `updateSessionCheck` → `ensureCheckTxn` (status critical) →
`checkSessionsTxn` → `deleteSessionTxn` …  The Go recursion terminates because every level removes a
session row first. The model recurses structurally on a fuel argument; a level consumes fuel only
after it has found (and is about to remove) a live session, so `fuelFor s` always suffices.
Running out of fuel is the explicit error `Err.fuel` (printed as `FUEL`, never seen on a run).

Loops over secondary indexes (keys of a session, links of a session, sessions of a check) are
written as `filter`/`map` over the primary-ordered table: every write inside one command carries
the same raft index, so the per-row Go loop and the bulk form agree row by row.
-/
import CV.Store.KV
namespace CV.Store
open CV

/-- `updateAllServiceIndexesOfNode` -/
def bumpServiceIdx (s : State) (idx : Nat) (svcName : String) : State :=
  ((s.maxIdx ("peer.~:service." ++ svcName) idx).maxIdx2 "service_kind.typical" idx)

def updateAllServiceIndexesOfNode (s : State) (idx : Nat) (node : String) : State :=
  (s.svcs.filter (fun v => lc v.node == lc node)).foldl (fun st v => bumpServiceIdx st idx v.name) s

/-- `HealthCheck.IsSame` on the modelled fields (Type is NOT compared by the Go code) -/
def chkSame (a b : Chk) : Bool :=
  lc a.node == lc b.node && a.id == b.id && a.status == b.status && a.output == b.output &&
  a.svcId == b.svcId && a.svcName == b.svcName && a.sessName == b.sessName

/-- `catalogInsertCheck` -/
def chkInsert (s : State) (c : Chk) (idx : Nat) : State :=
  ({ s with chks := tupsert Chk.pk strLt c s.chks }).maxIdx2 "checks" idx

/-- keys whose `session` secondary index entry equals `id` -/
def heldBy (id : String) (e : KV) : Bool := e.session != "" && lc e.session == lc id

/-- release / delete the keys held by a session (the two loops of `deleteSessionTxn`) -/
def invalidateKeys (s : State) (idx : Nat) (sess : Sess) : State :=
  let held := s.kvs.filter (heldBy sess.id)
  if held.isEmpty then s else
  let loc := if sess.lockDelay > 0
    then { s.loc with delayKeys := held.foldl (fun d e => tupsert id keyLt e.key d) s.loc.delayKeys }
    else s.loc
  match sess.behavior with
  | .release =>
    { s with kvs := s.kvs.map (fun e => if heldBy sess.id e then { e with session := "", modify := idx } else e),
             index := idxSet s.index "kvs" idx, loc := loc }
  | .delete =>
    { s with kvs := s.kvs.filter (fun e => !heldBy sess.id e),
             tombs := held.foldl (fun t e => tupsert Tomb.pk keyLt ⟨e.key, idx⟩ t) s.tombs,
             index := idxSet (idxSet s.index "tombstones" idx) "kvs" idx, loc := loc }

/-- delete the session's check links and session-scoped prepared queries -/
def dropSessionRefs (s : State) (idx : Nat) (id : String) : State :=
  let s1 := { s with sessChecks := s.sessChecks.filter (fun m => lc m.session != lc id) }
  if s1.queries.any (fun q => q.session != "" && lc q.session == lc id) then
    { s1 with queries := s1.queries.filter (fun q => !(q.session != "" && lc q.session == lc id)),
              index := idxSet s1.index "prepared-queries" idx }
  else s1

/-- the checks `updateSessionCheck` rewrites for a session -/
def sessionTypedChecks (s : State) (sess : Sess) : List Chk :=
  s.chks.filter (fun c => lc c.node == lc sess.node && c.typ == "session" && c.sessName == sess.name)

def sessionCheckOutput (sess : Sess) (status : String) : String :=
  if status == passing then "Session '" ++ sess.id ++ "' in force" else "Session '" ++ sess.id ++ "' is invalid"

/-- sessions linked to a check (`checkSessionsTxn`) -/
def checkSessions (s : State) (node chk : String) : List String :=
  (s.sessChecks.filter (fun m => lc m.node == lc node && lc m.check == lc chk)).map (·.session)

/-- fold a state transformer that may fail -/
def foldE {β : Type} (f : State → β → Except Err State) : List β → State → Except Err State
  | [], s => .ok s
  | b :: bs, s => match f s b with
    | .ok s' => foldE f bs s'
    | .error e => .error e

/-- first half of `ensureCheckTxn` (no recursion): indexes of the existing row, default status, node and
    service validation, the `modified` decision and the service index bumps.
    Returns the state, the completed check and `modified`. -/
def checkPrep (s : State) (idx : Nat) (preserve : Bool) (hc : Chk) : Except Err (State × Chk × Bool) :=
  let existing := chkFind s hc.node hc.id
  let hc := match existing with
    | some x => { hc with create := x.create, modify := x.modify }
    | none => if preserve then hc else { hc with create := idx }
  let hc := if hc.status == "" then { hc with status := critical } else hc
  match nodeFind s hc.node with
  | none => .error .missingNode
  | some _ =>
    if hc.svcId ≠ "" then
      match svcFind s hc.node hc.svcId with
      | none => .error .missingService
      | some v =>
        let hc := { hc with svcName := v.name }
        match existing with
        | some x => if chkSame x hc then .ok (s, hc, false) else .ok (bumpServiceIdx s idx v.name, hc, true)
        | none => .ok (bumpServiceIdx s idx v.name, hc, true)
    else
      match existing with
      | some x => if chkSame x hc then .ok (s, hc, false) else .ok (updateAllServiceIndexesOfNode s idx hc.node, hc, true)
      | none => .ok (updateAllServiceIndexesOfNode s idx hc.node, hc, true)

/-- last part of `ensureCheckTxn`: write the row unless nothing was modified -/
def checkFinish (s : State) (idx : Nat) (preserve : Bool) (hc : Chk) (modified : Bool) : State :=
  if !modified then s
  else chkInsert s (if preserve then hc else { hc with modify := idx }) idx

/-- the sessions `ensureCheckTxn` invalidates: those bound to the check, when its status is critical -/
def sessionsToInvalidate (s : State) (hc : Chk) : List String :=
  if hc.status == critical then checkSessions s hc.node hc.id else []

mutual
/-- `deleteSessionTxn` -/
def deleteSessionF : Nat → State → Nat → String → Except Err State
  | fuel, s, idx, id =>
    match sessFind s id with
    | none => .ok s
    | some sess =>
      match fuel with
      | 0 => .error .fuel
      | n + 1 =>
        -- sessionDeleteWithSession
        let s1 := { s with sessions := terase Sess.pk (lc id) s.sessions, index := idxSet s.index "sessions" idx }
        let s2 := invalidateKeys s1 idx sess
        let s3 := dropSessionRefs s2 idx id
        -- updateSessionCheck(critical)
        foldE (fun st c => ensureCheckF n st idx false
                  { c with status := critical, output := sessionCheckOutput sess critical })
              (sessionTypedChecks s3 sess) s3

/-- `ensureCheckTxn` -/
def ensureCheckF : Nat → State → Nat → Bool → Chk → Except Err State
  | fuel, s, idx, preserve, hc =>
    match checkPrep s idx preserve hc with
    | .error e => .error e
    | .ok (s1, hc1, modified) =>
      -- critical: invalidate the sessions bound to this check
      match sessionsToInvalidate s1 hc1, fuel with
      | [], _ => .ok (checkFinish s1 idx preserve hc1 modified)
      | _ :: _, 0 => .error .fuel
      | ids, n + 1 =>
        match foldE (fun st sid => deleteSessionF n st idx sid) ids s1 with
        | .error e => .error e
        | .ok s2 => .ok (checkFinish s2 idx preserve hc1 modified)
end

/-- enough fuel for any cascade starting in `s` (each level that consumes fuel removes a session;
    the two functions alternate, hence the factor 2) -/
def fuelFor (s : State) : Nat := 2 * s.sessions.length + 2

def deleteSession (s : State) (idx : Nat) (id : String) : Except Err State := deleteSessionF (fuelFor s) s idx id
def ensureCheck (s : State) (idx : Nat) (preserve : Bool) (hc : Chk) : Except Err State :=
  ensureCheckF (fuelFor s) s idx preserve hc

/-- `updateSessionCheck` -/
def updateSessionCheck (s : State) (idx : Nat) (sess : Sess) (status : String) : Except Err State :=
  foldE (fun st c => ensureCheck st idx false { c with status := status, output := sessionCheckOutput sess status })
        (sessionTypedChecks s sess) s

/-- request payload of a session create -/
structure SessReq where
  id : String
  node : String
  name : String
  behavior : String
  checks : List String
  lockDelay : Nat
deriving DecidableEq, Repr

/-- `validateSessionChecksTxn` -/
def validateSessionChecks (s : State) (node : String) : List String → Except Err Unit
  | [] => .ok ()
  | c :: cs =>
    match chkFind s node c with
    | none => .error .missingCheck
    | some hc =>
      if hc.status == critical && hc.typ != "session" then .error .checkCritical
      else validateSessionChecks s node cs

/-- `insertSessionTxn` -/
def insertSession (s : State) (x : Sess) (idx : Nat) : State :=
  { s with sessions := tupsert Sess.pk strLt x s.sessions,
           sessChecks := x.checks.foldl (fun t c => tupsert SessCheck.pk strLt ⟨x.node, c, x.id⟩ t) s.sessChecks,
           index := idxSet s.index "sessions" idx }

/-- `sessionCreateTxn` -/
def sessionCreate (s : State) (idx : Nat) (r : SessReq) : Except Err State :=
  if r.id = "" then .error .missingSessionID else
  let beh : Option Behavior :=
    if r.behavior = "" ∨ r.behavior = "release" then some .release
    else if r.behavior = "delete" then some .delete else none
  match beh with
  | none => .error .badBehavior
  | some b =>
    match nodeFind s r.node with
    | none => .error .missingNode
    | some _ =>
      match validateSessionChecks s r.node r.checks with
      | .error e => .error e
      | .ok () =>
        let x : Sess := ⟨r.id, r.node, r.name, b, r.checks, r.lockDelay, idx, idx⟩
        updateSessionCheck (insertSession s x idx) idx x passing

/-! ### prepared queries (id × session only) -/

def pqFind (s : State) (id : String) : Option PQ := tfind PQ.pk (lc id) s.queries

/-- `preparedQuerySetTxn` for a plain (non-template, unnamed) query -/
def pqSet (s : State) (idx : Nat) (id session : String) : Except Err State :=
  if id = "" then .error .missingQueryID
  else if session ≠ "" ∧ !sessionLive s session then .error .invalidSession
  else
    let create := match pqFind s id with | some q => q.create | none => idx
    .ok { s with queries := tupsert PQ.pk strLt ⟨id, session, create, idx⟩ s.queries,
                 index := idxSet s.index "prepared-queries" idx }

/-- `preparedQueryDeleteTxn` -/
def pqDelete (s : State) (idx : Nat) (id : String) : State :=
  match pqFind s id with
  | none => s
  | some _ => { s with queries := terase PQ.pk (lc id) s.queries, index := idxSet s.index "prepared-queries" idx }

end CV.Store
