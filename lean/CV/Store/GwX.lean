/-
CV.Store.GwX — stage 2 of the C07 catalog model: the two remaining derived tables, gateway-services and
mesh-topology, maintained the way consul's state store maintains them, wrapped AROUND `XState` (CV.Store.CatX is
not changed): a `GState` is an `XState` plus the two tables, the service / config-entry functions of the wrapper are
the X-level functions followed by the table hooks, and the compound functions (node delete, rename, registration,
transactions) repeat the X-level control flow over them (CV.Proofs.StoreGwProj: the `XState` component of every
G-level function is the X-level function).

Modelled (agent/consul/state/catalog.go, config_entry.go): `updateMeshTopology` (with the fe0fbdc repair),
`cleanupMeshTopology`, `insertGatewayServiceTopologyMapping`, `deleteGatewayServiceTopologyMapping`,
`truncateGatewayServiceTopologyMappings`; `updateGatewayServices`, `ingressConfigGatewayServices`,
`terminatingConfigGatewayServices`, `GatewayServiceKind`, `updateGatewayNamespace`, `serviceHasConnectInstances`,
`updateGatewayService`, `checkGatewayWildcardsAndUpdate`, `checkGatewayAndUpdate`, `cleanupGatewayWildcards`, and
their call sites in `ensureServiceTxn`, `deleteServiceTxn`, `insertConfigEntryWithTxn`, `deleteConfigEntryTxn`.
Copied because the code has them (the recorded findings): a registration overwrites an explicit link with the
wildcard variant; `updateGatewayNamespace` walks typical instances only and links every Destination to ingress
wildcards too; wildcard links are cleaned in `deleteServiceTxn` only; `updateMeshTopology` records imported sidecars
while `cleanupMeshTopology` returns early for them, references are `node/id` without the peer; `DeleteAll` of a pair
when ONE sidecar drops the upstream; `cleanupMeshTopology` only acts for rows of kind connect-proxy.
Not modelled: terminating-gateway virtual IPs (flag never set in the compared histories), TLS fields and Hosts of a
link (never set by the harness), api-gateway.
Core-only Lean; no Mathlib.
-/
import CV.Store.CatX
namespace CV.Store
open CV

/-! ### rows -/

/-- `upstreamDownstream` -/
structure TopoRow where
  up : String
  dn : String
  /-- `Refs` (a set of `node/serviceID`), kept sorted -/
  refs : List String
  create : Nat
  modify : Nat
deriving DecidableEq, Repr

def TopoRow.pk (r : TopoRow) : String := pk2 r.up r.dn

/-- `structs.GatewayServiceKind` -/
inductive GsKind
  | unknown | service | destination
deriving DecidableEq, Repr

def GsKind.raw : GsKind → String
  | .unknown => "" | .service => "service" | .destination => "destination"

/-- `structs.GatewayService` (TLS fields, Hosts, AutoHostRewrite not modelled) -/
structure GwRow where
  gateway : String
  service : String
  kind : Kind               -- ingressGateway | terminatingGateway
  port : Nat
  protocol : String
  fromWildcard : Bool
  svcKind : GsKind
  create : Nat
  modify : Nat
deriving DecidableEq, Repr

/-- order-preserving rendering of a port (`IntFieldIndex`: fixed width) -/
def portKey (n : Nat) : String :=
  let s := toString n
  String.mk (List.replicate (6 - s.length) '0') ++ s

def gwKey (gateway service : String) (port : Nat) : String := pk2 gateway service ++ nul ++ portKey port
def GwRow.pk (r : GwRow) : String := gwKey r.gateway r.service r.port

/-- the two tables -/
structure GTabs where
  gw : List GwRow := []
  topo : List TopoRow := []
deriving DecidableEq, Repr

/-- GHOST record of stage 2 (instrumentation only: nothing reads it, the store has no counterpart, the engine does not
    print it): mesh-topology keys at the moments one of the recorded mechanisms fires on the sidecar side —
    `staleTopo`: a pair an instance declared (or a connect-native instance registered with upstreams) that is left in
    the table without any sidecar declaring it: (a) re-registration of a sidecar instance id under another kind /
    destination / upstream spelling, (b) deregistration of an IMPORTED sidecar (`cleanupMeshTopology` returns early),
    (c) deregistration of a local sidecar whose pair is kept by a leftover reference, (d) a connect-native instance with
    upstreams;
    `lostTopo`: a pair whose row this step removed although a local sidecar still declares it: (e) `DeleteAll` when ONE
    sidecar drops the upstream, (f) the last REFERENCE went (another declaring sidecar was never / no longer
    referenced: its node/id collides with an imported sidecar's, or the row was re-created without it). -/
structure GGhost where
  staleTopo : List String := []
  lostTopo : List String := []
  /-- ingress links found without their (service <- gateway) pair right after a command that runs
      `cleanupGatewayWildcards` (a deregistration, the delete of a service-defaults entry): the wildcard link of one
      listener went, and `deleteGatewayServiceTopologyMapping` deleted the pair another listener's link still needs -/
  lostIngress : List String := []
deriving DecidableEq, Repr

/-- the catalog with gateway-services and mesh-topology -/
structure GState where
  x : XState := {}
  t : GTabs := {}
  gh : GGhost := {}
deriving DecidableEq, Repr

def GState.empty : GState := {}

/-! ### mesh-topology -/

def insertRef (uid : String) : List String → List String
  | [] => [uid]
  | r :: rs => if r = uid then r :: rs else if strLt uid r then uid :: r :: rs else r :: insertRef uid rs

/-- `structs.UniqueID(node, serviceID)` -/
def uidOf (node id : String) : String := node ++ "/" ++ id

def topoAddRef (t : List TopoRow) (idx : Nat) (up dn uid : String) : List TopoRow :=
  match tfind TopoRow.pk (pk2 up dn) t with
  | some r => tupsert TopoRow.pk strLt ⟨r.up, r.dn, insertRef uid r.refs, r.create, idx⟩ t
  | none => tupsert TopoRow.pk strLt ⟨up, dn, [uid], idx, idx⟩ t

/-- `updateMeshTopology` (called for connect-proxy / connect-native registrations of ANY catalog) -/
def topoEnsure (t : List TopoRow) (idx : Nat) (node : String) (q : SvcReq) (existing : Option (Svc × SvcX)) : List TopoRow :=
  if q.kind = .connectProxy ∨ q.native = true then
    let t1 := q.ups.foldl (fun t u => topoAddRef t idx u q.dest (uidOf node q.id)) t
    let old := match existing with
      | some r => r.2.ups
      | none => []
    old.foldl (fun t u => if q.ups.contains u then t else terase TopoRow.pk (pk2 u q.dest) t) t1
  else t

/-- `cleanupMeshTopology` -/
def topoCleanup (t : List TopoRow) (p : String) (v : Svc) (e : SvcX) : List TopoRow :=
  if p ≠ "" then t
  else if e.kind ≠ .connectProxy then t
  else
    let uid := uidOf v.node v.id
    t.filterMap fun r =>
      if lc r.dn = lc e.dest ∧ r.refs.contains uid then
        let refs := r.refs.filter (· != uid)
        if refs.isEmpty then none else some { r with refs := refs }
      else some r

/-! ### gateway-services -/

/-- `serviceHasConnectInstances` on the local catalog: (a connect instance serves the name, an instance named so is not connect-native) -/
def hasConnectInstances (x : XState) (name : String) : Bool × Bool :=
  (hasConnectInstance x.loc name, x.loc.rows.any fun r => lc r.1.name == lc name && !r.2.native)

/-- `GatewayServiceKind` -/
def gatewayServiceKind (x : XState) (name : String) : GsKind :=
  if hasInstanceNamed x.loc name then .service
  else match cfgFind x "service-defaults" name with
    | some c => if c.dest then .destination else .unknown
    | none => .unknown

/-- `GatewayService.IsSame` (the indexes aside) -/
def gwSame (a b : GwRow) : Bool :=
  a.gateway == b.gateway && a.service == b.service && a.kind == b.kind && a.port == b.port && a.protocol == b.protocol &&
  a.svcKind == b.svcKind && a.fromWildcard == b.fromWildcard

/-- `insertGatewayServiceTopologyMapping` -/
def topoIngressInsert (t : List TopoRow) (m : GwRow) : List TopoRow :=
  if m.kind ≠ .ingressGateway ∨ m.service = "*" then t
  else tupsert TopoRow.pk strLt ⟨m.service, m.gateway, [], m.create, m.modify⟩ t

/-- `updateGatewayService` -/
def gwUpdate (T : GTabs) (idx : Nat) (m : GwRow) : GTabs :=
  let m1 : Option GwRow := match tfind GwRow.pk m.pk T.gw with
    | some g => if gwSame g m then none else some { m with create := g.create, modify := idx }
    | none => some { m with create := idx, modify := idx }
  match m1 with
  | none => T
  | some m' => { gw := tupsert GwRow.pk strLt m' T.gw, topo := topoIngressInsert T.topo m' }

/-- the links a gateway config entry declares: `ingressConfigGatewayServices` / `terminatingConfigGatewayServices`
    on the payload token (ingress: `port:svc+svc|port:svc`, protocol http for a wildcard or several services;
    terminating: `svc+svc`) -/
def cfgGwRows (x : XState) (kind name tok : String) : List GwRow :=
  if tok = "" then []
  else if kind = "ingress-gateway" then
    (tok.splitOn "|").flatMap fun l =>
      match l.splitOn ":" with
      | [port, svcs] =>
        let names := svcs.splitOn "+"
        let proto := if names.length > 1 ∨ names.head? = some "*" then "http" else "tcp"
        names.map fun n => ⟨name, n, .ingressGateway, port.toNat!, proto, false, .unknown, 0, 0⟩
      | _ => []
  else if kind = "terminating-gateway" then
    (tok.splitOn "+").map fun n => ⟨name, n, .terminatingGateway, 0, "", false, gatewayServiceKind x n, 0, 0⟩
  else []

/-- `updateGatewayNamespace` -/
def gwNamespace (T : GTabs) (x : XState) (idx : Nat) (w : GwRow) : GTabs :=
  let T1 := x.loc.rows.foldl (fun T r =>
    if r.2.kind ≠ .typical ∨ r.1.name = "consul" then T
    else
      let (hc, hn) := hasConnectInstances x r.1.name
      if w.kind = .ingressGateway ∧ !hc then T
      else if w.kind = .terminatingGateway ∧ !hn then T
      else match tfind GwRow.pk (gwKey w.gateway r.1.name w.port) T.gw with
        | some _ => T
        | none => gwUpdate T idx { w with service := r.1.name, fromWildcard := true }) T
  let T2 := x.cfg.foldl (fun T c =>
    if c.kind = "service-defaults" ∧ c.dest = true then
      match tfind GwRow.pk (gwKey w.gateway c.name w.port) T.gw with
      | some _ => T
      | none => gwUpdate T idx { w with service := c.name, svcKind := .destination, fromWildcard := true }
    else T) T1
  gwUpdate T2 idx w

/-- `updateGatewayServices` (run before the entry is inserted: `x` still holds the previous entry) -/
def gwConfigSet (T : GTabs) (x : XState) (idx : Nat) (kind name tok : String) : GTabs :=
  if kind ≠ "ingress-gateway" ∧ kind ≠ "terminating-gateway" then T
  else
    let noChange := match cfgFind x kind name with
      | some e => e.tok == tok
      | none => false
    if noChange then T
    else
      let T0 : GTabs := { gw := T.gw.filter (fun g => lc g.gateway != lc name),
                          topo := if kind = "ingress-gateway" then T.topo.filter (fun r => lc r.dn != lc name) else T.topo }
      (cfgGwRows x kind name tok).foldl (fun T m => if m.service = "*" then gwNamespace T x idx m else gwUpdate T idx m) T0

/-- `checkGatewayWildcardsAndUpdate` (`ns`: the instance being registered is a connect instance / is not / none is) -/
def gwCheckWildcards (T : GTabs) (x : XState) (idx : Nat) (name : String) (ns : Option Bool) (kind : GsKind) : GTabs :=
  let (hc0, hn0) := hasConnectInstances x name
  let hc := hc0 || ns == some true
  let hn := hn0 || ns == some false
  (T.gw.filter fun g => g.service == "*").foldl (fun T w =>
    if w.kind = .ingressGateway ∧ !hc then T
    else if w.kind = .terminatingGateway ∧ !hn ∧ kind ≠ .destination then T
    else gwUpdate T idx { w with service := name, fromWildcard := true, svcKind := kind }) T

/-- `checkGatewayAndUpdate` -/
def gwCheck (T : GTabs) (idx : Nat) (name : String) (kind : GsKind) : GTabs :=
  match T.gw.find? (fun g => lc g.service == lc name) with
  | some g => gwUpdate T idx { g with service := name, svcKind := kind }
  | none => T

/-- `cleanupGatewayWildcards` -/
def gwCleanup (T : GTabs) (x : XState) (idx : Nat) (name : String) (cleaningUpDestination : Bool) : GTabs :=
  let mappings := T.gw.filter fun g => lc g.service == lc name
  let (hc, hn) := hasConnectInstances x name
  let hasDest := !cleaningUpDestination && (match cfgFind x "service-defaults" name with
    | some c => c.dest
    | none => false)
  mappings.foldl (fun T m =>
    if m.fromWildcard then
      if m.kind = .ingressGateway ∧ hc then T
      else if m.kind = .terminatingGateway ∧ (hn ∨ hasDest) then T
      else { gw := terase GwRow.pk m.pk T.gw,
             topo := if m.kind = .ingressGateway then terase TopoRow.pk (pk2 m.service m.gateway) T.topo else T.topo }
    else gwCheck T idx m.service (gatewayServiceKind x m.service)) T

/-! ### which pairs the sidecars declare (used by the ghost record only) -/

/-- row `r` is a sidecar declaring the pair with key `k` -/
def declares (k : String) (r : Svc × SvcX) : Bool :=
  r.2.kind == .connectProxy && r.2.ups.any fun u => pk2 u r.2.dest == k

/-- a local sidecar declares `k` -/
def localDeclared (x : XState) (k : String) : Bool := x.loc.rows.any (declares k)

/-- a sidecar of some catalog (local or imported) declares `k` -/
def sidecarDeclared (x : XState) (k : String) : Bool :=
  x.loc.rows.any (declares k) || x.peers.any fun pc => (x.cat pc.1).rows.any (declares k)

def hasTopo (t : List TopoRow) (k : String) : Bool := (tfind TopoRow.pk k t).isSome

/-- the ingress links (not the wildcard rows) whose pair the topology lacks -/
def ingressMissing (T : GTabs) : List String :=
  ((T.gw.filter fun m => m.kind == .ingressGateway && m.service != "*").map fun m => pk2 m.service m.gateway).filter
    fun k => !hasTopo T.topo k

/-- the pairs a row declares when it is a sidecar -/
def pairsOf (r : Svc × SvcX) : List String :=
  if r.2.kind = .connectProxy then r.2.ups.map fun u => pk2 u r.2.dest else []

/-- the pairs a registration may leave without a declaring sidecar: the upstreams of a connect-native instance, the
    pairs the instance declared before -/
def staleCands (q : SvcReq) (existing : Option (Svc × SvcX)) : List String :=
  (if (q.kind = .connectProxy ∨ q.native = true) ∧ q.kind ≠ .connectProxy then q.ups.map fun u => pk2 u q.dest else []) ++
  (match existing with
    | some r => pairsOf r
    | none => [])

/-- the keys `updateMeshTopology` deletes: upstreams the existing row had and the request does not name -/
def droppedKeys (q : SvcReq) (existing : Option (Svc × SvcX)) : List String :=
  if q.kind = .connectProxy ∨ q.native = true then
    (match existing with
      | some r => (r.2.ups.filter fun u => !q.ups.contains u).map fun u => pk2 u q.dest
      | none => [])
  else []

/-- the keys of the rows a step removed -/
def goneKeys (t t' : List TopoRow) : List String := (t.filter fun row => !hasTopo t' row.pk).map TopoRow.pk

/-- GHOST after the hooks of `ensureServiceTxn` (`x'`: the state after the registration, `t` / `t'`: the topology before / after them) -/
def ghostEnsure (gh : GGhost) (x' : XState) (t t' : List TopoRow) (q : SvcReq) (existing : Option (Svc × SvcX)) : GGhost :=
  { gh with
    staleTopo := gh.staleTopo ++ (staleCands q existing).filter (fun k => hasTopo t' k && !sidecarDeclared x' k),
    lostTopo := gh.lostTopo ++ (droppedKeys q existing ++ goneKeys t t').filter (fun k => !hasTopo t' k && localDeclared x' k) }

/-- GHOST after the hooks of `deleteServiceTxn` (`t`: the topology before them, `t'`: after) -/
def ghostDelete (gh : GGhost) (x' : XState) (t : List TopoRow) (T' : GTabs) (r : Svc × SvcX) : GGhost :=
  { staleTopo := gh.staleTopo ++ (pairsOf r).filter (fun k => hasTopo T'.topo k && !sidecarDeclared x' k),
    lostTopo := gh.lostTopo ++ (goneKeys t T'.topo).filter (fun k => !hasTopo T'.topo k && localDeclared x' k),
    lostIngress := gh.lostIngress ++ ingressMissing T' }

/-! ### the service / config-entry functions with their hooks -/

/-- the row `ensureServiceTxn` finds at the request's key -/
def existingRow (x : XState) (p node id : String) : Option (Svc × SvcX) :=
  match svcFind (x.cat p).st node id, extFind (x.cat p) node id with
  | some v, some e => some (v, e)
  | _, _ => none

/-- the hooks of `ensureServiceTxn` (they run before the row is written: `x` is the state the function starts from) -/
def ensureHooks (T : GTabs) (x : XState) (p : String) (idx : Nat) (node : String) (q : SvcReq) : GTabs :=
  let isConn := q.kind = .connectProxy ∨ q.native = true
  let T1 := if p = "" ∧ q.kind = .typical ∧ q.name ≠ "consul" then
      gwCheck (gwCheckWildcards T x idx q.name (some (decide isConn)) .service) idx q.name .service
    else T
  if isConn then
    let T2 := { T1 with topo := topoEnsure T1.topo idx node q (existingRow x p node q.id) }
    let sn := if q.kind = .connectProxy then q.dest else q.name
    gwCheckWildcards T2 x idx sn (some true) .service
  else T1

def ensureServiceG (g : GState) (p : String) (idx : Nat) (node : String) (q : SvcReq) : Except XErr GState :=
  match ensureServiceX g.x p idx node q with
  | .error e => .error e
  | .ok x' =>
    let T' := ensureHooks g.t g.x p idx node q
    .ok { x := x', t := T', gh := ghostEnsure g.gh x' g.t.topo T'.topo q (existingRow g.x p node q.id) }

def ensureServiceCasG (g : GState) (p : String) (idx : Nat) (node : String) (q : SvcReq) : Except XErr (GState × Bool) :=
  if casRefused q.modify ((svcFind (g.x.cat p).st node q.id).map (·.modify)) then .ok (g, false)
  else match ensureServiceG g p idx node q with
    | .ok g' => .ok (g', true)
    | .error e => .error e

/-- the hooks of `deleteServiceTxn` (`x'`: the state after the row delete) -/
def deleteHooks (T : GTabs) (x' : XState) (p : String) (idx : Nat) (v : Svc) (e : SvcX) : GTabs :=
  let T1 := { T with topo := topoCleanup T.topo p v e }
  let T2 := if p = "" ∧ (e.kind = .connectProxy ∨ e.native = true) then
      let sn := if e.kind = .connectProxy then e.dest else v.name
      if hasConnectInstance x'.loc sn then T1 else gwCleanup T1 x' idx sn false
    else T1
  if p = "" then gwCleanup T2 x' idx v.name false else T2

def deleteServiceG (g : GState) (p : String) (idx : Nat) (node id : String) : Except XErr GState :=
  match deleteServiceX g.x p idx node id with
  | .error e => .error e
  | .ok x' =>
    let c := g.x.cat p
    match svcFind c.st node id, extFind c node id with
    | some v, some e =>
      let T' := deleteHooks g.t x' p idx v e
      .ok { x := x', t := T', gh := ghostDelete g.gh x' g.t.topo T' (v, e) }
    | _, _ => .ok { g with x := x' }

def deleteServiceCasG (g : GState) (p : String) (idx cidx : Nat) (node id : String) : Except XErr (GState × Bool) :=
  match svcFind (g.x.cat p).st node id with
  | none => .ok (g, false)
  | some v =>
    if v.modify ≠ cidx then .ok (g, false)
    else match deleteServiceG g p idx node id with
      | .ok g' => .ok (g', true)
      | .error e => .error e

/-- the hooks of `insertConfigEntryWithTxn` (they run before the entry is inserted) -/
def configSetHooks (T : GTabs) (x : XState) (idx : Nat) (kind name : String) (dest : Bool) (tok : String) : GTabs :=
  let T1 := gwConfigSet T x idx kind name tok
  if kind = "service-defaults" ∧ dest = true then
    let k0 := gatewayServiceKind x name
    let k := if k0 = .unknown then .destination else k0
    gwCheck (gwCheckWildcards T1 x idx name none k) idx name k
  else T1

def configUpsertG (g : GState) (idx : Nat) (kind name : String) (dest : Bool) (tok : String) : Except XErr GState :=
  match configUpsert g.x idx kind name dest tok with
  | .error e => .error e
  | .ok x' => .ok { g with x := x', t := configSetHooks g.t g.x idx kind name dest tok }

/-- the hooks of `deleteConfigEntryTxn` (they run before the entry is deleted) -/
def configDeleteHooks (T : GTabs) (x : XState) (idx : Nat) (kind name : String) : GTabs :=
  match cfgFind x kind name with
  | none => T
  | some c =>
    let T1 : GTabs := if kind = "terminating-gateway" ∨ kind = "ingress-gateway"
      then { T with gw := T.gw.filter (fun g => lc g.gateway != lc name) } else T
    let T2 := if c.kind = "service-defaults" ∧ c.dest = true then
        let k0 := gatewayServiceKind x name
        let k := if k0 = .destination then .unknown else k0
        gwCheck (gwCleanup (gwCheckWildcards T1 x idx c.name none k) x idx c.name true) idx c.name k
      else T1
    if kind = "ingress-gateway" then { T2 with topo := T2.topo.filter (fun r => lc r.dn != lc name) } else T2

def configDeleteG (g : GState) (idx : Nat) (kind name : String) : GState :=
  let T' := configDeleteHooks g.t g.x idx kind name
  { x := configDelete g.x kind name, t := T', gh := { g.gh with lostIngress := g.gh.lostIngress ++ ingressMissing T' } }

/-! ### the compound functions: the control flow of CV.Store.CatX over the G-level service functions -/

def foldG {β : Type} (f : GState → β → Except XErr GState) : List β → GState → Except XErr GState
  | [], g => .ok g
  | b :: bs, g => match f g b with
    | .ok g' => foldG f bs g'
    | .error e => .error e

/-- run an X-level function that writes no service row -/
def GState.onX (g : GState) (f : XState → Except XErr XState) : Except XErr GState :=
  match f g.x with
  | .ok x' => .ok { g with x := x' }
  | .error e => .error e

def deleteNodeG (g : GState) (p : String) (idx : Nat) (name : String) : Except XErr GState :=
  let c := g.x.cat p
  match nodeFind c.st name with
  | none => .ok g
  | some _ =>
    let svcs := c.st.svcs.filter (fun v => lc v.node == lc name)
    let st1 := svcs.foldl (fun st v => bumpServiceIdx st idx v.name) c.st
    match foldG (fun y v => deleteServiceG y p idx name v.id) svcs { g with x := g.x.setCat p { c with st := st1 } } with
    | .error e => .error e
    | .ok g2 =>
      let s2 := g2.x
      let c2 := s2.cat p
      let cs := c2.st.chks.filter (fun ch => lc ch.node == lc name)
      match foldE (fun st ch => deleteCheck st idx name ch.id) cs c2.st with
      | .error e => .error (.store e)
      | .ok st3 =>
        let s3 := if p = "" then { s2 with coords := s2.coords.filter (fun co => lc co.node != lc name) } else s2
        let st5 := deleteNodePost st3 idx name
        let ids := (st5.sessions.filter (fun x => lc x.node == lc name)).map (·.id)
        match foldE (fun st sid => deleteSession st idx sid) ids st5 with
        | .error e => .error (.store e)
        | .ok st6 => .ok { g2 with x := s3.setCat p { c2 with st := st6 } }

def deleteNodeCasG (g : GState) (p : String) (idx cidx : Nat) (name : String) : Except XErr (GState × Bool) :=
  match nodeFind (g.x.cat p).st name with
  | none => .ok (g, false)
  | some n =>
    if n.modify ≠ cidx then .ok (g, false)
    else match deleteNodeG g p idx name with
      | .ok g' => .ok (g', true)
      | .error e => .error e

def ensureNodeG (g : GState) (p : String) (idx : Nat) (node : Node) : Except XErr GState :=
  let st := (g.x.cat p).st
  let r : Except XErr (GState × Option Node) :=
    if node.id ≠ "" then
      match nodeFindByID st node.id with
      | some n =>
        if lc n.name ≠ lc node.name then
          if nameClash st node false then .error (.store .nodeNameReserved)
          else match deleteNodeG g p idx n.name with
            | .ok g' => .ok (g', some n)
            | .error e => .error e
        else .ok (g, some n)
      | none => if nameClash st node true then .error (.store .nodeNameReserved) else .ok (g, none)
    else .ok (g, none)
  match r with
  | .error e => .error e
  | .ok (g1, byId) =>
    let s1 := g1.x
    let c1 := s1.cat p
    let n? := match byId with
      | some n => some n
      | none => nodeFind c1.st node.name
    match n? with
    | some n =>
      let node := { node with create := n.create, modify := n.modify }
      if nodeSame node n then .ok g1
      else .ok { g1 with x := s1.setCat p { c1 with st := nodeInsert c1.st { node with modify := idx } } }
    | none => .ok { g1 with x := s1.setCat p { c1 with st := nodeInsert c1.st { node with create := idx, modify := idx } } }

def ensureNodeCasG (g : GState) (p : String) (idx : Nat) (node : Node) : Except XErr (GState × Bool) :=
  if casRefused node.modify ((nodeFind (g.x.cat p).st node.name).map (·.modify)) then .ok (g, false)
  else match ensureNodeG g p idx node with
    | .ok g' => .ok (g', true)
    | .error e => .error e

def registerG (g : GState) (idx : Nat) (r : XRegReq) : Except XErr GState :=
  let p := r.peer
  let r1 : Except XErr GState :=
    match nodeFind (g.x.cat p).st r.node.name with
    | some x => if nodeSame r.node x then .ok g else ensureNodeG g p idx r.node
    | none => ensureNodeG g p idx r.node
  match r1 with
  | .error e => .error e
  | .ok g1 =>
    let r2 : Except XErr GState :=
      match r.svc with
      | none => .ok g1
      | some q =>
        let c1 := g1.x.cat p
        match svcFind c1.st r.node.name q.id, extFind c1 r.node.name q.id with
        | some x, some e => if reqSame x e q then .ok g1 else ensureServiceG g1 p idx r.node.name q
        | some _, none => .error .desync
        | none, _ => ensureServiceG g1 p idx r.node.name q
    match r2 with
    | .error e => .error e
    | .ok g2 => g2.onX fun s => s.onSt p fun st => foldE (fun st c => ensureCheckIfNodeMatches st idx r.node.name c) r.checks st

def deregisterG (g : GState) (idx : Nat) (p node svcId chkId : String) : Except XErr GState :=
  if svcId ≠ "" then deleteServiceG g p idx node svcId
  else if chkId ≠ "" then g.onX fun s => s.onSt p fun st => deleteCheck st idx node chkId
  else deleteNodeG g p idx node

def okResG (g : GState) (rs : List TxnRes) : Except XErr (GState × List TxnRes) := .ok (g, rs)

def txnNodeG (g : GState) (idx : Nat) (v : CatVerb) (n : Node) : Except XErr (GState × List TxnRes) :=
  match v with
  | .get => match txnGetNode g.x.loc.st n with
    | some x => okResG g [.node x]
    | none => .error (.store .nodeMissing)
  | .set => match ensureNodeG g "" idx n with
    | .ok g' => okResG g' (nodeRes g'.x.loc.st n)
    | .error e => .error e
  | .cas => match ensureNodeCasG g "" idx n with
    | .ok (g', true) => okResG g' (nodeRes g'.x.loc.st n)
    | .ok (_, false) => .error (.store .casStale)
    | .error e => .error e
  | .delete => match deleteNodeG g "" idx n.name with
    | .ok g' => okResG g' []
    | .error e => .error e
  | .deleteCas => match deleteNodeCasG g "" idx n.modify n.name with
    | .ok (g', true) => okResG g' []
    | .ok (_, false) => .error (.store .casStale)
    | .error e => .error e

def txnServiceG (g : GState) (idx : Nat) (v : CatVerb) (node : String) (q : SvcReq) : Except XErr (GState × List TxnRes) :=
  let probe : Svc := ⟨node, q.id, q.name, q.port, 0, q.modify⟩
  match v with
  | .get => match svcFind g.x.loc.st node q.id with
    | some y => okResG g [.service y]
    | none => .error (.store .serviceMissing)
  | .set => match ensureServiceG g "" idx node q with
    | .ok g' => okResG g' (svcRes g'.x.loc.st probe)
    | .error e => .error e
  | .cas => match ensureServiceCasG g "" idx node q with
    | .ok (g', true) => okResG g' (svcRes g'.x.loc.st probe)
    | .ok (_, false) => .error (.store .casStale)
    | .error e => .error e
  | .delete => match deleteServiceG g "" idx node q.id with
    | .ok g' => okResG g' []
    | .error e => .error e
  | .deleteCas => match deleteServiceCasG g "" idx q.modify node q.id with
    | .ok (g', true) => okResG g' []
    | .ok (_, false) => .error (.store .casStale)
    | .error e => .error e

def txnStepG (g : GState) (idx : Nat) : XTxnOp → Except XErr (GState × List TxnRes)
  | .base (.node v n) => txnNodeG g idx v n
  | .base (.service v x) => txnServiceG g idx v x.node (typicalReq x)
  | .service v node q => txnServiceG g idx v node q
  | .base op =>
    match txnStep g.x.loc.st idx op with
    | .ok (st', rs) => okResG { g with x := { g.x with loc := { g.x.loc with st := st' } } } rs
    | .error e => .error (.store e)

def txnLoopG (idx : Nat) : List XTxnOp → Nat → GState → List TxnRes → List (Nat × XErr) → GState × List TxnRes × List (Nat × XErr)
  | [], _, g, rs, es => (g, rs, es)
  | op :: ops, i, g, rs, es =>
    match txnStepG g idx op with
    | .ok (g', r) => txnLoopG idx ops (i + 1) g' (rs ++ r) es
    | .error e => txnLoopG idx ops (i + 1) g rs (es ++ [(i, e)])

def txnRWG (g : GState) (idx : Nat) (ops : List XTxnOp) : GState × List TxnRes × List (Nat × XErr) :=
  let (g', rs, es) := txnLoopG idx ops 0 g [] []
  if es.isEmpty then (g', rs, []) else (g, [], es)

def liftSG (g : GState) : Except XErr GState → GState × XResult
  | .ok g' => (g', .ok)
  | .error e => (g, .err e)

/-- the inner function of a command on the catalog with the two tables -/
def stepG (g : GState) (idx : Nat) : XCmd → GState × XResult
  | .store (.register r) => liftSG g (registerG g idx ⟨"", r.node, r.svc.map typicalReq, r.checks⟩)
  | .store (.deregister node svcId chkId) => liftSG g (deregisterG g idx "" node svcId chkId)
  | .store (.txn ops) => let (g', rs, es) := txnRWG g idx (ops.map .base); (g', .txn rs es)
  | .store c => let (st', r) := apply g.x.loc.st idx c; ({ g with x := { g.x with loc := { g.x.loc with st := st' } } }, baseResult r)
  | .register r => liftSG g (registerG g idx r)
  | .deregister p node svcId chkId => liftSG g (deregisterG g idx p node svcId chkId)
  | .coords us => ({ g with x := coordUpdate g.x us }, .ok)
  | .sysmeta k v => ({ g with x := sysMetaSet g.x k v }, .ok)
  | .configSet kind name dest tok => liftSG g (configUpsertG g idx kind name dest tok)
  | .configDelete kind name => (configDeleteG g idx kind name, .ok)
  | .txn ops => let (g', rs, es) := txnRWG g idx ops; (g', .txn rs es)

/-- apply one committed log entry: the inner function, then the usage commit hook of the X level -/
def applyG (g : GState) (idx : Nat) (c : XCmd) : GState × XResult :=
  let (g', r) := stepG g idx c
  ({ g' with x := commitUsage g.x g'.x idx }, r)

def replayG (g : GState) (log : XLog) : GState := log.foldl (fun st ic => (applyG st ic.1 ic.2).1) g

end CV.Store
