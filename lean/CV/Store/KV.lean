/-
CV.Store.KV — the KV table, tombstones (graveyard) and KV reads.

Mirrors agent/consul/state/kvs.go, kvs_ce.go, graveyard.go, graveyard_ce.go function by function:
  kvsSetTxn, kvsSetCASTxn, kvsDeleteTxn, kvsDeleteCASTxn, kvsDeleteTreeTxn, kvsLockTxn,
  kvsUnlockTxn, kvsCheckSessionTxn, kvsCheckIndexTxn, kvsGetTxn, kvsListTxn, Graveyard.InsertTxn,
  GetMaxIndexTxn, ReapTxn.
Behaviours copied because the code has them (not because they look right):
  * a plain `set` keeps the stored session but takes `LockIndex` from the request;
  * `delete-cas` of an absent key reports `true`; `cas` with index 0 is create-only;
  * the empty key is a memdb index error for every verb except delete-tree / list;
  * the primary index key is `key ++ NUL`, and prefix scans (`KVSList`, `DeletePrefix`) match the
    *index key*: a prefix that ends in NUL also matches the key without that NUL;
  * graveyard prefix lookups go through `Query`, whose prefix is trimmed of NUL bytes at both ends;
  * delete-tree writes ONE tombstone (on the prefix itself), none for the empty prefix.
-/
import CV.Store.Types
namespace CV.Store
open CV

/-- `structs.DirEntry.Equal` — compares LockIndex, Key, Flags, Value, Session; not the indexes -/
def kvEqual (a b : KV) : Bool :=
  a.lockIdx == b.lockIdx && a.key == b.key && a.flags == b.flags && a.val == b.val && a.session == b.session

def kvInsert (s : State) (e : KV) : State :=
  { s with kvs := tupsert KV.pk keyLt e s.kvs, index := idxSet s.index "kvs" e.modify }

/-- `kvsSetTxn`. Returns the new state and the entry as written back into the request
    (CreateIndex / ModifyIndex / Session), which the Txn API returns. -/
def kvSetTxn (s : State) (idx : Nat) (e : KV) (updateSession : Bool) : Except Err (State × KV) :=
  if e.key = [] then .error .emptyKey else
  match kvFind s e.key with
  | some x =>
    let e1 := { e with create := x.create }
    let e2 := if updateSession then e1 else { e1 with session := x.session }
    if kvEqual x e2 then .ok (s, { e2 with modify := x.modify })
    else let e3 := { e2 with modify := idx }; .ok (kvInsert s e3, e3)
  | none =>
    let e1 := { e with create := idx }
    let e2 := if updateSession then e1 else { e1 with session := "" }
    let e3 := { e2 with modify := idx }
    .ok (kvInsert s e3, e3)

/-- `Graveyard.InsertTxn` -/
def tombInsert (s : State) (k : Key) (idx : Nat) : State :=
  { s with tombs := tupsert Tomb.pk keyLt ⟨k, idx⟩ s.tombs, index := idxSet s.index "tombstones" idx }

/-- `kvsDeleteTxn` -/
def kvDeleteTxn (s : State) (idx : Nat) (k : Key) : Except Err State :=
  if k = [] then .error .emptyKey else
  match kvFind s k with
  | none => .ok s
  | some _ =>
    let s1 := tombInsert s k idx
    .ok { s1 with kvs := terase KV.pk k s1.kvs, index := idxSet s1.index "kvs" idx }

/-- `kvsDeleteCASTxn` -/
def kvDeleteCasTxn (s : State) (idx cidx : Nat) (k : Key) : Except Err (State × Bool) :=
  if k = [] then .error .emptyKey else
  match kvFind s k with
  | none => .ok (s, true)
  | some x =>
    if x.modify ≠ cidx then .ok (s, false)
    else match kvDeleteTxn s idx k with
      | .ok s' => .ok (s', true)
      | .error e => .error e

/-- `kvsSetCASTxn` -/
def kvSetCasTxn (s : State) (idx : Nat) (e : KV) : Except Err (State × Bool × KV) :=
  if e.key = [] then .error .emptyKey else
  let ex := kvFind s e.key
  if e.modify = 0 ∧ ex.isSome then .ok (s, false, e)
  else if e.modify ≠ 0 ∧ ex.isNone then .ok (s, false, e)
  else match ex with
    | some x =>
      if e.modify ≠ 0 ∧ e.modify ≠ x.modify then .ok (s, false, e)
      else match kvSetTxn s idx e false with
        | .ok (s', e') => .ok (s', true, e')
        | .error er => .error er
    | none =>
      match kvSetTxn s idx e false with
      | .ok (s', e') => .ok (s', true, e')
      | .error er => .error er

/-- does the memdb `id_prefix` scan with raw prefix `p` visit the row with key `k`?
    (the index key is `k ++ [0]`) -/
def prefixMatch (p k : Key) : Bool := p.isPrefixOf (k ++ [0])

/-- `kvsDeleteTreeTxn` -/
def kvDeleteTreeTxn (s : State) (idx : Nat) (p : Key) : State :=
  if s.kvs.any (fun e => prefixMatch p e.key) then
    let s1 := { s with kvs := s.kvs.filter (fun e => !prefixMatch p e.key) }
    let s2 := if p ≠ [] then tombInsert s1 p idx else s1
    { s2 with index := idxSet s2.index "kvs" idx }
  else s

/-- `kvsLockTxn` up to its write: an error, a refusal (`none`: somebody else holds the lock) or the
    entry handed to `kvsSetTxn` -/
def lockDecision (s : State) (idx : Nat) (e : KV) : Except Err (Option KV) :=
  if e.session = "" then .error .missingSession
  else if !sessionLive s e.session then .error .invalidSession
  else if e.key = [] then .error .emptyKey
  else match kvFind s e.key with
    | some x =>
      if x.session = e.session then .ok (some { e with create := x.create, lockIdx := x.lockIdx, modify := idx })
      else if x.session ≠ "" then .ok none
      else .ok (some { e with create := x.create, lockIdx := x.lockIdx + 1, modify := idx })
    | none => .ok (some { e with create := idx, lockIdx := 1, modify := idx })

/-- `kvsLockTxn` -/
def kvLockTxn (s : State) (idx : Nat) (e : KV) : Except Err (State × Bool × KV) :=
  match lockDecision s idx e with
  | .error er => .error er
  | .ok none => .ok (s, false, e)
  | .ok (some e') =>
    match kvSetTxn s idx e' true with
    | .ok (s', w) => .ok (s', true, w)
    | .error er => .error er

/-- `kvsUnlockTxn` up to its write -/
def unlockDecision (s : State) (idx : Nat) (e : KV) : Except Err (Option KV) :=
  if e.session = "" then .error .missingSession
  else if e.key = [] then .error .emptyKey
  else match kvFind s e.key with
    | none => .ok none
    | some x =>
      if x.session ≠ e.session then .ok none
      else .ok (some { e with session := "", lockIdx := x.lockIdx, create := x.create, modify := idx })

/-- `kvsUnlockTxn` -/
def kvUnlockTxn (s : State) (idx : Nat) (e : KV) : Except Err (State × Bool × KV) :=
  match unlockDecision s idx e with
  | .error er => .error er
  | .ok none => .ok (s, false, e)
  | .ok (some e') =>
    match kvSetTxn s idx e' true with
    | .ok (s', w) => .ok (s', true, w)
    | .error er => .error er

/-- `Graveyard.ReapTxn` -/
def reapTxn (s : State) (upto : Nat) : State := { s with tombs := s.tombs.filter (fun t => !(t.idx ≤ upto)) }

/-! ### reads -/

/-- `kvsMaxIndex` -/
def kvMaxIndex (s : State) : Nat := max (idxVal s.index "kvs") (idxVal s.index "tombstones")

/-- `kvsGetTxn` -/
def kvGet (s : State) (k : Key) : Except Err (Nat × Option KV) :=
  if k = [] then .error .emptyKey else .ok (kvMaxIndex s, kvFind s k)

def trimNulL : Key → Key
  | 0 :: xs => trimNulL xs
  | xs => xs
/-- `bytes.Trim(b, "\x00")` -/
def trimNul (k : Key) : Key := (trimNulL (trimNulL k).reverse).reverse

def listMax (l : List Nat) : Nat := l.foldl max 0

/-- `Graveyard.GetMaxIndexTxn` -/
def tombMaxIndex (s : State) (p : Key) : Nat :=
  listMax ((s.tombs.filter (fun t => prefixMatch (trimNul p) t.key)).map (·.idx))

/-- `kvsListTxn` -/
def kvList (s : State) (p : Key) : Nat × List KV :=
  let idx := kvMaxIndex s
  let ents := s.kvs.filter (fun e => prefixMatch p e.key)
  let lindex := listMax (ents.map (·.modify))
  let lindex := if p ≠ [] then max lindex (tombMaxIndex s p) else idx
  (if lindex ≠ 0 then lindex else idx, ents)

/-- `kvsCheckSessionTxn` -/
def kvCheckSession (s : State) (k : Key) (session : String) : Except Err KV :=
  if k = [] then .error .emptyKey else
  match kvFind s k with
  | none => .error .keyMissing
  | some x => if x.session ≠ session then .error .sessionCheckFailed else .ok x

/-- `kvsCheckIndexTxn` -/
def kvCheckIndex (s : State) (k : Key) (cidx : Nat) : Except Err KV :=
  if k = [] then .error .emptyKey else
  match kvFind s k with
  | none => .error .keyMissing
  | some x => if x.modify ≠ cidx then .error .indexCheckFailed else .ok x

end CV.Store
