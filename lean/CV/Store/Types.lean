/-
CV.Store.Types — rows, tables and the `State` record of the shared state-store model
(properties C03, C04; to be extended for C01, C02, C05, C06, C07, C10).

Conventions
  * one memdb table = one `List Row`, kept in the iteration order of the table's primary
    (`id`) index: rows are inserted with `tupsert` at their sorted position. No theorem of
    C03/C04 needs sortedness (they are membership / lookup statements); the order is what the
    canonical dump and `kvList` show and is validated by the correspondence run.
  * memdb lower-cases most index keys (`strings.ToLower`): `lc`. The model's `lc` is ASCII
    lower-casing; the harness keeps case-folded names (nodes, services, checks, session ids,
    index keys) inside ASCII. KV keys are raw bytes and are never folded.
  * session / prepared-query / node IDs are assumed to be RFC-4122 shaped (8-4-4-4-12 hex):
    the `UUIDFieldIndex` secondary indexes (`kvs.session`, `prepared-queries.session`) then
    compare exactly `lc id`.
  * enterprise meta = default partition/namespace, peer = local (index rows carry the `peer.~:` prefix of structs.LocalPeerKeyword).
Core-only Lean; no Mathlib.
-/
import CV.Proto
namespace CV.Store
open CV

/-- KV keys are raw byte strings (Go strings); `List Nat` `<` is Go's bytewise order. -/
abbrev Key := Bytes

/-- `strings.ToLower` on the ASCII universes the harness uses. -/
def lc (s : String) : String := s.map Char.toLower

/-! ### generic table operations (sorted association lists) -/
section Tbl
variable {α κ : Type} [DecidableEq κ]

/-- `tx.First(table, "id", k)` -/
def tfind (key : α → κ) (k : κ) (l : List α) : Option α := l.find? (fun x => key x == k)

/-- `tx.Insert`: replace the row with the same primary key, else insert at the sorted position. -/
def tupsert (key : α → κ) (lt : κ → κ → Bool) (r : α) : List α → List α
  | [] => [r]
  | x :: xs =>
    if key x = key r then r :: xs
    else if lt (key r) (key x) then r :: x :: xs
    else x :: tupsert key lt r xs

/-- `tx.Delete` by primary key -/
def terase (key : α → κ) (k : κ) (l : List α) : List α := l.filter (fun x => key x != k)

end Tbl

def strLt (a b : String) : Bool := decide (a < b)
def keyLt (a b : Key) : Bool := decide (a < b)

/-! ### rows -/

inductive Behavior | release | delete
deriving DecidableEq, Repr

/-- `structs.DirEntry` (also used as the request payload of KV verbs) -/
structure KV where
  key : Key
  val : String          -- protocol token of the value bytes (only compared for equality)
  flags : Nat
  session : String
  lockIdx : Nat
  create : Nat
  modify : Nat
deriving DecidableEq, Repr

/-- `state.Tombstone` -/
structure Tomb where
  key : Key
  idx : Nat
deriving DecidableEq, Repr

/-- `structs.Session`; `checks` is `Session.CheckIDs()` -/
structure Sess where
  id : String
  node : String
  name : String
  behavior : Behavior
  checks : List String
  lockDelay : Nat
  create : Nat
  modify : Nat
deriving DecidableEq, Repr

/-- `state.sessionCheck` -/
structure SessCheck where
  node : String
  check : String
  session : String
deriving DecidableEq, Repr

/-- `structs.Node` (fields the session / lock logic can observe) -/
structure Node where
  name : String
  id : String
  addr : String
  create : Nat
  modify : Nat
deriving DecidableEq, Repr

/-- `structs.ServiceNode`, typical kind only (connect / gateways / VIPs: not modelled yet) -/
structure Svc where
  node : String
  id : String
  name : String
  port : Nat
  create : Nat
  modify : Nat
deriving DecidableEq, Repr

/-- `structs.HealthCheck` -/
structure Chk where
  node : String
  id : String
  status : String
  svcId : String
  svcName : String
  typ : String
  sessName : String      -- Definition.SessionName
  output : String
  create : Nat
  modify : Nat
deriving DecidableEq, Repr

/-- prepared query, as far as sessions are concerned -/
structure PQ where
  id : String
  session : String
  create : Nat
  modify : Nat
deriving DecidableEq, Repr

/-- leader-local, non-replicated state (`Store.lockDelay`): keys with a pending lock delay -/
structure Local where
  delayKeys : List Key := []
deriving DecidableEq, Repr

/-- The whole store. `loc` is NOT replicated state; it is kept as a separate record so that
    theorems can say which part a command touches (`State.repl` forgets it). -/
structure State where
  kvs : List KV := []
  tombs : List Tomb := []
  sessions : List Sess := []
  sessChecks : List SessCheck := []
  nodes : List Node := []
  svcs : List Svc := []
  chks : List Chk := []
  queries : List PQ := []
  /-- the `index` table verbatim (keys lower-cased as memdb stores them) -/
  index : List (String × Nat) := []
  loc : Local := {}
deriving DecidableEq, Repr

def State.empty : State := {}

/-- the replicated part -/
def State.repl (s : State) : State := { s with loc := {} }

/-! ### errors (small enum; the harness maps Go error texts onto it) -/

inductive Err
  | emptyKey            -- memdb: "object is missing a value for this index" on an empty KV key
  | missingSession      -- lock/unlock without a session
  | invalidSession      -- lock / prepared query naming a session that does not exist
  | missingSessionID | badBehavior
  | missingNode | missingService | missingCheck | checkCritical
  | nodeNameReserved | checkNodeMismatch | missingQueryID
  | fuel                -- model-internal: recursion budget exhausted (never on reachable runs)
  -- failures of transaction verbs
  | casStale | lockHeld | unlockFailed | keyMissing | keyExists
  | sessionCheckFailed | indexCheckFailed
  | nodeMissing | serviceMissing | checkMissing
  | readOnly            -- a write reached memdb inside a read-only transaction (TxnRO)
deriving DecidableEq, Repr

def Err.name : Err → String
  | .emptyKey => "empty-key" | .missingSession => "missing-session" | .invalidSession => "invalid-session"
  | .missingSessionID => "missing-session-id" | .badBehavior => "bad-behavior"
  | .missingNode => "missing-node" | .missingService => "missing-service" | .missingCheck => "missing-check"
  | .checkCritical => "check-critical" | .nodeNameReserved => "node-name-reserved"
  | .checkNodeMismatch => "check-node-mismatch" | .missingQueryID => "missing-query-id" | .fuel => "FUEL"
  | .casStale => "cas-stale" | .lockHeld => "lock-held" | .unlockFailed => "unlock-failed"
  | .keyMissing => "key-missing" | .keyExists => "key-exists" | .sessionCheckFailed => "session-check-failed"
  | .indexCheckFailed => "index-check-failed" | .nodeMissing => "node-missing"
  | .serviceMissing => "service-missing" | .checkMissing => "check-missing" | .readOnly => "read-only"

/-! ### primary keys -/

def nul : String := "\x00"

def KV.pk (e : KV) : Key := e.key
def Tomb.pk (t : Tomb) : Key := t.key
def Sess.pk (x : Sess) : String := lc x.id
def SessCheck.pk (m : SessCheck) : String := lc m.node ++ nul ++ lc m.check ++ nul ++ lc m.session
def Node.pk (n : Node) : String := lc n.name
def pk2 (a b : String) : String := lc a ++ nul ++ lc b
def Svc.pk (v : Svc) : String := pk2 v.node v.id
def Chk.pk (c : Chk) : String := pk2 c.node c.id
def PQ.pk (q : PQ) : String := lc q.id

/-! ### the index table -/

def idxGet (ix : List (String × Nat)) (k : String) : Option Nat := (tfind (·.1) (lc k) ix).map (·.2)

/-- `maxIndexTxn` reads a missing row as 0 (that is what the Go code does) -/
def idxVal (ix : List (String × Nat)) (k : String) : Nat :=
  match idxGet ix k with | some v => v | none => 0

/-- `tx.Insert(tableIndex, &IndexEntry{k, v})` — verbatim overwrite -/
def idxSet (ix : List (String × Nat)) (k : String) (v : Nat) : List (String × Nat) :=
  tupsert (·.1) strLt (lc k, v) ix

/-- `indexUpdateMaxTxn` -/
def idxMax (ix : List (String × Nat)) (k : String) (v : Nat) : List (String × Nat) :=
  match idxGet ix k with
  | some cur => if v ≤ cur then ix else idxSet ix k v
  | none => idxSet ix k v

def idxDel (ix : List (String × Nat)) (k : String) : List (String × Nat) := terase (·.1) (lc k) ix

def State.setIdx (s : State) (k : String) (v : Nat) : State := { s with index := idxSet s.index k v }
def State.maxIdx (s : State) (k : String) (v : Nat) : State := { s with index := idxMax s.index k v }
def State.delIdx (s : State) (k : String) : State := { s with index := idxDel s.index k }
/-- `indexUpdateMaxTxn` on the table row and on its `peer.~:` twin -/
def State.maxIdx2 (s : State) (k : String) (v : Nat) : State := (s.maxIdx k v).maxIdx ("peer.~:" ++ k) v

/-! ### lookups shared by several table families -/

def sessFind (s : State) (id : String) : Option Sess := tfind Sess.pk (lc id) s.sessions
/-- "the session exists" -/
def sessionLive (s : State) (id : String) : Bool := (sessFind s id).isSome
def nodeFind (s : State) (name : String) : Option Node := tfind Node.pk (lc name) s.nodes
def svcFind (s : State) (node id : String) : Option Svc := tfind Svc.pk (pk2 node id) s.svcs
def chkFind (s : State) (node id : String) : Option Chk := tfind Chk.pk (pk2 node id) s.chks
def kvFind (s : State) (k : Key) : Option KV := tfind KV.pk k s.kvs

def critical : String := "critical"
def passing : String := "passing"

end CV.Store
