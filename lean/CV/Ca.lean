/-
CV.Ca — executable model of the Connect CA leaf-signing path and of the CA tables of the FSM
(property C12).  Mirrors, as the code is:

  agent/connect/uri.go              ParseCertURI  (four anchored regexps over the raw path,
                                    PathUnescape of each captured segment when RawPath is set,
                                    default partition, signing id)
  agent/connect/uri_*.go            URI() / uriPath() of the CE build
  agent/connect/uri_signing.go      SpiffeIDSigning.Host / CanSign (lower-cased host equality)
  agent/consul/leader_connect_ca.go AuthorizeAndSignCertificate, SignCertificate
  agent/consul/leader_connect_ca_ce.go validateSupportedIdentityScopesInCertificate
  agent/connect/ca/provider_consul.go  Sign (URIs, DNS names, IPs copied; IsCA=false; serial from Raft)
  agent/consul/state/connect_ca.go  CA roots / config / provider-state / serial tables
  agent/consul/fsm/commands_ce.go   ApplyConnectCAOperationFromRequest

Round 5 additions: `canSign` (uri_signing.go CanSign), the later checks of SignCertificate in their
order (rate limiter, root expiry, provider row / key / signing certificate, serial taken before
x509.CreateCertificate), `restoreCa` (FSM snapshot + restore of the CA tables), `rotationRoots` (the
root list primaryUpdateRootCA / persistNewRootAndConfig build), `pruneRoots` (leader_connect.go
pruneCARoots; modelled only, not tied).

The code modelled is /repo at or after the fix commits 7598e15 (agents: datacenter check), d4218d0
(`isSameAgentURI`: the trust-domain fix-up also replaces agent URIs that are not in canonical form),
68fde22 (active roots counted per root id, last one wins), 9d8398d / bb7cbe1 (honest roots CAS,
roots+config in one transaction).

All strings are byte strings (`Bytes = List Nat`): percent-decoding yields arbitrary bytes.
A `Url` is what Go's net/url hands to the code (Scheme, Host, Path, RawPath) plus `str`, the value of
`u.String()` (net/url is trusted, not modelled; only the rendering of URLs the code *constructs*
— scheme, host, path — is modelled, in `urlStr`).
-/
import CV.Proto
deriving instance DecidableEq for Except

namespace CV.Ca
open CV

/-! ### byte-string constants (numeric so that the kernel can compute with them) -/

def bSpiffe  : Bytes := [115, 112, 105, 102, 102, 101]
def bAp      : Bytes := [97, 112]
def bNs      : Bytes := [110, 115]
def bDc      : Bytes := [100, 99]
def bSvc     : Bytes := [115, 118, 99]
def bAgent   : Bytes := [97, 103, 101, 110, 116]
def bClient  : Bytes := [99, 108, 105, 101, 110, 116]
def bId      : Bytes := [105, 100]
def bServer  : Bytes := [115, 101, 114, 118, 101, 114]
def bGateway : Bytes := [103, 97, 116, 101, 119, 97, 121]
def bMesh    : Bytes := [109, 101, 115, 104]
def bDefault : Bytes := [100, 101, 102, 97, 117, 108, 116]
def bDotConsul : Bytes := [46, 99, 111, 110, 115, 117, 108]
/-- `spiffe://` -/
def bSpiffePfx : Bytes := [115, 112, 105, 102, 102, 101, 58, 47, 47]

/-- ASCII lower-casing (`strings.ToLower`; hosts that reach the code through a parsed CSR are ASCII). -/
def lcByte (c : Nat) : Nat := if 65 ≤ c ∧ c ≤ 90 then c + 32 else c
def lc (s : Bytes) : Bytes := s.map lcByte

/-! ### paths: splitting on '/', percent-decoding, escaping -/

/-- `strings.Split(p, "/")`: never empty. -/
def splitSlash : Bytes → List Bytes
  | [] => [[]]
  | c :: cs =>
    match splitSlash cs with
    | [] => [[c]]            -- not reachable: the result is never empty
    | seg :: rest => if c = 47 then [] :: seg :: rest else (c :: seg) :: rest

/-- every segment preceded by '/' -/
def joinSegs : List Bytes → Bytes
  | [] => []
  | s :: ss => 47 :: (s ++ joinSegs ss)

def isHex (c : Nat) : Bool :=
  (48 ≤ c && c ≤ 57) || (97 ≤ c && c ≤ 102) || (65 ≤ c && c ≤ 70)
def unhexB (c : Nat) : Nat := if c ≤ 57 then c - 48 else if c ≤ 70 then c - 55 else c - 87

/-- `url.PathUnescape`: every `%XY` becomes one byte, a `%` not followed by two hex digits is an
    error, `+` stays. -/
def pathUnescape : Bytes → Option Bytes
  | [] => some []
  | c :: rest =>
    if c = 37 then
      match rest with
      | a :: b :: rest' =>
        if isHex a && isHex b then (pathUnescape rest').map ((unhexB a * 16 + unhexB b) :: ·) else none
      | _ => none
    else (pathUnescape rest).map (c :: ·)

def isAlnum (c : Nat) : Bool := (48 ≤ c && c ≤ 57) || (65 ≤ c && c ≤ 90) || (97 ≤ c && c ≤ 122)
/-- net/url `shouldEscape(c, encodePath) == false` -/
def pathNoEsc (c : Nat) : Bool :=
  isAlnum c || [45, 95, 46, 126].contains c || [36, 38, 43, 44, 47, 58, 59, 61, 64].contains c
/-- net/url `shouldEscape(c, encodeHost) == false` -/
def hostNoEsc (c : Nat) : Bool :=
  isAlnum c || [33, 36, 38, 39, 40, 41, 42, 43, 44, 59, 61, 58, 91, 93, 60, 62, 34].contains c
    || [45, 95, 46, 126].contains c
def upperHex (n : Nat) : Nat := if n < 10 then 48 + n else 55 + n
def escapeWith (ok : Nat → Bool) (s : Bytes) : Bytes :=
  s.flatMap fun c => if ok c then [c] else [37, upperHex (c / 16), upperHex (c % 16)]

/-- `(&url.URL{Scheme: "spiffe", Host: host, Path: path}).String()` for a path starting with '/'. -/
def urlStr (host path : Bytes) : Bytes :=
  bSpiffePfx ++ escapeWith hostNoEsc host ++ escapeWith pathNoEsc path

/-! ### URLs and identities -/

structure Url where
  scheme : Bytes
  host : Bytes
  path : Bytes
  rawPath : Bytes
  /-- `u.String()` as net/url computes it (input, not modelled) -/
  str : Bytes
deriving DecidableEq, Repr

inductive Id
  | service (host ap ns dc svc : Bytes)
  | agent (host ap dc node : Bytes)
  | gateway (host ap dc : Bytes)
  | server (host dc : Bytes)
  | signing (cluster domain : Bytes)
deriving DecidableEq, Repr

inductive PErr | scheme | escape | format
deriving DecidableEq, Repr

/-- `^(?:/ap/([^/]+))?/ns/([^/]+)/dc/([^/]+)/svc/([^/]+)$` on the split path: (ap, ns, dc, svc), ap raw ("" when absent) -/
def matchService : List Bytes → Option (Bytes × Bytes × Bytes × Bytes)
  | [e, a, ns, d, dc, s, svc] =>
    if e = [] ∧ a = bNs ∧ d = bDc ∧ s = bSvc ∧ ns ≠ [] ∧ dc ≠ [] ∧ svc ≠ [] then some ([], ns, dc, svc) else none
  | [e, p, ap, a, ns, d, dc, s, svc] =>
    if e = [] ∧ p = bAp ∧ a = bNs ∧ d = bDc ∧ s = bSvc ∧ ap ≠ [] ∧ ns ≠ [] ∧ dc ≠ [] ∧ svc ≠ []
    then some (ap, ns, dc, svc) else none
  | _ => none

/-- `^(?:/ap/([^/]+))?/agent/client/dc/([^/]+)/id/([^/]+)$`: (ap, dc, node) -/
def matchAgent : List Bytes → Option (Bytes × Bytes × Bytes)
  | [e, a, c, d, dc, i, node] =>
    if e = [] ∧ a = bAgent ∧ c = bClient ∧ d = bDc ∧ i = bId ∧ dc ≠ [] ∧ node ≠ [] then some ([], dc, node) else none
  | [e, p, ap, a, c, d, dc, i, node] =>
    if e = [] ∧ p = bAp ∧ a = bAgent ∧ c = bClient ∧ d = bDc ∧ i = bId ∧ ap ≠ [] ∧ dc ≠ [] ∧ node ≠ []
    then some (ap, dc, node) else none
  | _ => none

/-- `^(?:/ap/([^/]+))?/gateway/mesh/dc/([^/]+)$`: (ap, dc) -/
def matchGateway : List Bytes → Option (Bytes × Bytes)
  | [e, g, m, d, dc] =>
    if e = [] ∧ g = bGateway ∧ m = bMesh ∧ d = bDc ∧ dc ≠ [] then some ([], dc) else none
  | [e, p, ap, g, m, d, dc] =>
    if e = [] ∧ p = bAp ∧ g = bGateway ∧ m = bMesh ∧ d = bDc ∧ ap ≠ [] ∧ dc ≠ [] then some (ap, dc) else none
  | _ => none

/-- `^/agent/server/dc/([^/]+)$` -/
def matchServer : List Bytes → Option Bytes
  | [e, a, s, d, dc] =>
    if e = [] ∧ a = bAgent ∧ s = bServer ∧ d = bDc ∧ dc ≠ [] then some dc else none
  | _ => none

/-- source text of the four patterns (in the order `ParseCertURI` tries them) that the matchers
    above were written from; the harness compares it with the real `regexp.String()` values -/
def regexpSources : List String :=
  [ "^(?:/ap/([^/]+))?/ns/([^/]+)/dc/([^/]+)/svc/([^/]+)$",
    "^(?:/ap/([^/]+))?/agent/client/dc/([^/]+)/id/([^/]+)$",
    "^(?:/ap/([^/]+))?/gateway/mesh/dc/([^/]+)$",
    "^/agent/server/dc/([^/]+)$" ]

/-- segment decoding of ParseCertURI: `PathUnescape` only when `RawPath` is set -/
def decSeg (raw : Bool) (s : Bytes) : Option Bytes := if raw then pathUnescape s else some s

def apOrDefault (ap : Bytes) : Bytes := if ap = [] then bDefault else ap

/-- index of the first '.' (46) -/
def dotIndex : Bytes → Option Nat
  | [] => none
  | c :: cs => if c = 46 then some 0 else (dotIndex cs).map (· + 1)

/-- `connect.ParseCertURI` -/
def parseId (u : Url) : Except PErr Id :=
  if u.scheme ≠ bSpiffe then .error .scheme else
  let raw := u.rawPath ≠ []
  let segs := splitSlash (if raw then u.rawPath else u.path)
  match matchService segs with
  | some (ap, ns, dc, svc) =>
    match decSeg raw ap, decSeg raw ns, decSeg raw dc, decSeg raw svc with
    | some ap, some ns, some dc, some svc => .ok (.service u.host (apOrDefault ap) ns dc svc)
    | _, _, _, _ => .error .escape
  | none =>
  match matchAgent segs with
  | some (ap, dc, node) =>
    match decSeg raw ap, decSeg raw dc, decSeg raw node with
    | some ap, some dc, some node => .ok (.agent u.host (apOrDefault ap) dc node)
    | _, _, _ => .error .escape
  | none =>
  match matchGateway segs with
  | some (ap, dc) =>
    match decSeg raw ap, decSeg raw dc with
    | some ap, some dc => .ok (.gateway u.host (apOrDefault ap) dc)
    | _, _ => .error .escape
  | none =>
  match matchServer segs with
  | some dc =>
    match decSeg raw dc with
    | some dc => .ok (.server u.host dc)
    | none => .error .escape
  | none =>
    if u.path = [] then
      match dotIndex u.host with
      | some i => if 0 < i then .ok (.signing (u.host.take i) (u.host.drop (i + 1))) else .error .format
      | none => .error .format
    else .error .format

/-- the path `uriPath()` renders in the CE build (namespace always `default`; partition only for
    services, lower-cased, omitted when `default`; agents and gateways never render a partition) -/
def pathOf : Id → Bytes
  | .service _ ap _ dc svc =>
    let ap' := if ap = [] then bDefault else lc ap
    (if ap' ≠ bDefault then joinSegs [bAp, ap'] else []) ++ joinSegs [bNs, bDefault, bDc, dc, bSvc, svc]
  | .agent _ _ dc node => joinSegs [bAgent, bClient, bDc, dc, bId, node]
  | .gateway _ _ dc => joinSegs [bGateway, bMesh, bDc, dc]
  | .server _ dc => joinSegs [bAgent, bServer, bDc, dc]
  | .signing _ _ => []

def hostOf : Id → Bytes
  | .service h .. => h
  | .agent h .. => h
  | .gateway h .. => h
  | .server h .. => h
  | .signing c d => lc (c ++ [46] ++ d)

/-- `id.URI()`: scheme, host and path only (RawPath empty) -/
def uriOf (id : Id) : Url :=
  { scheme := bSpiffe, host := hostOf id, path := pathOf id, rawPath := [],
    str := match id with
      | .signing .. => bSpiffePfx ++ escapeWith hostNoEsc (hostOf id)
      | _ => urlStr (hostOf id) (pathOf id) }

def dcOf : Id → Option Bytes
  | .service _ _ _ dc _ => some dc
  | .agent _ _ dc _ => some dc
  | .gateway _ _ dc => some dc
  | .server _ dc => some dc
  | .signing .. => none

def isAgent : Id → Bool
  | .agent .. => true
  | _ => false

/-- the kinds `AuthorizeAndSignCertificate` signs, in the scopes the CE build supports -/
def supported : Id → Bool
  | .service _ ap ns _ _ => ap = bDefault && ns = bDefault
  | .gateway _ ap _ => ap = bDefault
  | .agent .. => true
  | .server .. => true
  | .signing .. => false

/-! ### authorization -/

inductive Scope
  | service (name : Bytes)
  | node (name : Bytes)
  | mesh
  | acl
deriving DecidableEq, Repr

/-- what the code asks of the caller's `acl.Authorizer` (default enterprise meta) -/
structure Authz where
  serviceWrite : Bytes → Bool
  nodeWrite : Bytes → Bool
  meshWrite : Bool
  aclWrite : Bool

def aclWrite (az : Authz) : Scope → Bool
  | .service n => az.serviceWrite n
  | .node n => az.nodeWrite n
  | .mesh => az.meshWrite
  | .acl => az.aclWrite

def scopeOf : Id → Option Scope
  | .service _ _ _ _ svc => some (.service svc)
  | .agent _ _ _ node => some (.node node)
  | .gateway .. => some .mesh
  | .server .. => some .acl
  | .signing .. => none

/-! ### signing -/

structure Csr where
  uris : List Url
  /-- number of e-mail SANs -/
  emails : Nat
  dns : List Bytes
  ips : List Bytes
deriving DecidableEq, Repr

structure Cfg where
  /-- `serverConf.Datacenter` -/
  dc : Bytes
  /-- `SpiffeIDSigningForCluster(config.ClusterID).Host()` -/
  trustDomain : Bytes
  /-- ID of the root the provider signs with (the active root) -/
  root : Bytes
deriving DecidableEq, Repr

inductive Err
  | uriCount | email | parse (e : PErr) | entOnly | kind | acl | dc | trustDomain
  | noConfig | noActiveRoot | providerUninit
  | rateLimited | rootExpired | noSigningCert | keyMismatch
deriving DecidableEq, Repr

structure Cert where
  uris : List Url
  dns : List Bytes
  ips : List Bytes
  emails : Nat
  isCA : Bool
  serial : Nat
  issuer : Bytes
deriving DecidableEq, Repr

/-- `validateSupportedIdentityScopesInCertificate` (CE) -/
def validateScopes : Id → Except Err Unit
  | .service _ ap ns _ _ => if ns ≠ bDefault ∨ ap ≠ bDefault then .error .entOnly else .ok ()
  | .gateway _ ap _ => if ap ≠ bDefault then .error .entOnly else .ok ()
  | .agent .. => .ok ()
  | .server .. => .ok ()
  | .signing .. => .error .kind

/-- the ACL and datacenter switch of `AuthorizeAndSignCertificate` -/
def authorize (cfg : Cfg) (az : Authz) : Id → Except Err Unit
  | .service _ _ _ dc svc =>
    if !az.serviceWrite svc then .error .acl else if dc ≠ cfg.dc then .error .dc else .ok ()
  | .agent _ _ dc node =>
    if !az.nodeWrite node then .error .acl else if dc ≠ cfg.dc then .error .dc else .ok ()
  | .gateway _ _ dc =>
    if !az.meshWrite then .error .acl else if dc ≠ cfg.dc then .error .dc else .ok ()
  | .server _ dc =>
    if !az.aclWrite then .error .acl else if dc ≠ cfg.dc then .error .dc else .ok ()
  | .signing .. => .error .kind

/-- `isSameAgentURI(uri, original)`: the rendered strings are equal, or `uri` parses to an agent
    whose canonical rendering is `original` -/
def sameAgentUri (u : Url) (orig : Bytes) : Bool :=
  u.str = orig ||
    (match parseId u with
     | .ok (.agent h ap dc node) => (uriOf (.agent h ap dc node)).str = orig
     | _ => false)

/-- the trust-domain switch of `SignCertificate`: the URI list the certificate will carry.
    Service / gateway / server: `CanSign` (lower-cased host equality), URIs unchanged.
    Agent: when the host differs from the trust domain the id is re-rendered with the trust
    domain as host and replaces every CSR URI that names the same agent. -/
def signUris (cfg : Cfg) (u : Url) : Id → Except Err (List Url)
  | .agent host ap dc node =>
    if host ≠ cfg.trustDomain then
      if sameAgentUri u (uriOf (.agent host ap dc node)).str then .ok [uriOf (.agent cfg.trustDomain ap dc node)]
      else .ok [u]
    else .ok [u]
  | .signing .. => .error .kind
  | id => if lc (hostOf id) = cfg.trustDomain then .ok [u] else .error .trustDomain

def bConsul : Bytes := [99, 111, 110, 115, 117, 108]

/-- `SpiffeIDSigningForCluster(cluster).CanSign(id)`: a signing id only when both render to the same
    URI string; service / mesh gateway / server when the lower-cased host is the signing id's
    host; everything else (agents) never. -/
def canSign (cluster : Bytes) : Id → Bool
  | .signing c d => (uriOf (.signing cluster bConsul)).str = (uriOf (.signing c d)).str
  | .agent .. => false
  | id => lc (hostOf id) = hostOf (.signing cluster bConsul)

/-- `CAManager.AuthorizeAndSignCertificate` + `SignCertificate` + `ConsulProvider.Sign`,
    with the serial number Raft hands out as a parameter. -/
def authorizeAndSign (cfg : Cfg) (az : Authz) (csr : Csr) (serial : Nat) : Except Err Cert :=
  match csr.uris with
  | [u] =>
    if csr.emails > 0 then .error .email else
    match parseId u with
    | .error e => .error (.parse e)
    | .ok id =>
      match validateScopes id with
      | .error e => .error e
      | .ok () =>
        match authorize cfg az id with
        | .error e => .error e
        | .ok () =>
          match signUris cfg u id with
          | .error e => .error e
          | .ok uris =>
            .ok { uris := uris, dns := csr.dns, ips := csr.ips, emails := 0, isCA := false,
                  serial := serial, issuer := cfg.root }
  | _ => .error .uriCount

/-! ### the CA tables of the state store -/

structure Root where
  id : Bytes
  active : Bool
  create : Nat
  mod : Nat
deriving DecidableEq, Repr

structure ReqRoot where
  id : Bytes
  active : Bool
deriving DecidableEq, Repr

structure CfgRow where
  provider : Bytes
  cluster : Bytes
  tag : Bytes
  create : Nat
  mod : Nat
deriving DecidableEq, Repr

/-- a `CAConfiguration` inside a request; `cidx` is its `ModifyIndex` field -/
structure ReqCfg where
  provider : Bytes
  cluster : Bytes
  tag : Bytes
  cidx : Nat
deriving DecidableEq, Repr

structure Prov where
  id : Bytes
  create : Nat
  mod : Nat
deriving DecidableEq, Repr

structure CaState where
  roots : List Root := []
  /-- index-table entry of `connect-ca-roots` (0 when absent) -/
  rootsIdx : Nat := 0
  config : Option CfgRow := none
  provs : List Prov := []
  /-- index-table entry of `connect-ca-builtin` (0 when absent) -/
  provIdx : Nat := 0
  /-- index-table entry of `connect-ca-builtin-serial` -/
  serial : Option Nat := none
deriving DecidableEq, Repr

inductive CaCmd
  | setConfig (c : ReqCfg)
  | setRoots (cidx : Nat) (rs : List ReqRoot)
  | setProv (id : Bytes)
  | delProv (id : Bytes)
  | setBoth (cidx : Nat) (rs : List ReqRoot) (c : ReqCfg)
  | incSerial
  | invalid
deriving DecidableEq, Repr

inductive CaErr | activeCount | missingId | casMismatch | invalidOp
deriving DecidableEq, Repr

inductive CaRes
  | nil
  | bool (b : Bool)
  | num (n : Nat)
  | err (e : CaErr)
deriving DecidableEq, Repr

def createOf (old : List Root) (id : Bytes) (idx : Nat) : Nat :=
  match old.find? (·.id = id) with
  | some r => r.create
  | none => idx

/-- insert with replacement of the row that has the same key (memdb `Insert` on a unique index;
    a Go map assignment) -/
def upsert {α : Type} (key : α → Bytes) (acc : List α) (x : α) : List α :=
  if acc.any (fun y => key y = key x) then acc.map (fun y => if key y = key x then x else y) else acc ++ [x]

/-- the row `caRootSetCASAppliedTxn` writes for a requested root -/
def rowOf (idx : Nat) (old : List Root) (r : ReqRoot) : Root := ⟨r.id, r.active, createOf old r.id idx, idx⟩

/-- delete-all + insert-all of `caRootSetCASAppliedTxn` -/
def buildRoots (idx : Nat) (old : List Root) (rs : List ReqRoot) : List Root :=
  rs.foldl (fun acc r => upsert (·.id) acc (rowOf idx old r)) []

/-- `lastByID`: roots listed with the same id overwrite each other, the last one wins -/
def lastById (rs : List ReqRoot) : List ReqRoot := rs.foldl (upsert (·.id)) []

/-- the number of active roots the table will hold -/
def activeCount (rs : List ReqRoot) : Nat := ((lastById rs).filter (·.active)).length

/-- `caRootSetCASAppliedTxn`: error / not applied (`none`) / the new table -/
def rootsCas (s : CaState) (idx cidx : Nat) (rs : List ReqRoot) : Except CaErr (Option (List Root)) :=
  if activeCount rs ≠ 1 then .error .activeCount
  else if s.rootsIdx ≠ cidx then .ok none
  else if rs.any (·.id = []) then .error .missingId
  else .ok (some (buildRoots idx s.roots rs))

/-- the `ModifyIndex` comparison of `CACheckAndSetConfig` -/
def cfgMatches (s : CaState) (cidx : Nat) : Bool :=
  match s.config with
  | some e => e.mod = cidx
  | none => cidx = 0

/-- `caSetConfigTxn`: CreateIndex kept, ClusterID kept when the request leaves it empty -/
def newCfg (s : CaState) (idx : Nat) (c : ReqCfg) : CfgRow :=
  match s.config with
  | some e => ⟨c.provider, if c.cluster = [] then e.cluster else c.cluster, c.tag, e.create, idx⟩
  | none => ⟨c.provider, c.cluster, c.tag, idx, idx⟩

def setProvRow (ps : List Prov) (id : Bytes) (idx : Nat) : List Prov :=
  if ps.any (·.id = id) then ps.map (fun p => if p.id = id then ⟨id, p.create, idx⟩ else p)
  else ps ++ [⟨id, idx, idx⟩]

def nextSerial (s : CaState) : Nat :=
  match s.serial with
  | some n => n + 1
  | none => s.provIdx + 1

/-- `ApplyConnectCAOperationFromRequest` at Raft index `idx` -/
def caStep (s : CaState) (idx : Nat) : CaCmd → CaState × CaRes
  | .setConfig c =>
    if c.cidx ≠ 0 then
      if cfgMatches s c.cidx then ({ s with config := some (newCfg s idx c) }, .bool true)
      else (s, .err .casMismatch)
    else ({ s with config := some (newCfg s idx c) }, .nil)
  | .setRoots cidx rs =>
    match rootsCas s idx cidx rs with
    | .error e => (s, .err e)
    | .ok none => (s, .bool false)
    | .ok (some rs') => ({ s with roots := rs', rootsIdx := idx }, .bool true)
  | .setProv id => ({ s with provs := setProvRow s.provs id idx, provIdx := idx }, .bool true)
  | .delProv id =>
    if s.provs.any (·.id = id) then
      ({ s with provs := s.provs.filter (·.id ≠ id), provIdx := idx }, .bool true)
    else (s, .bool true)
  | .setBoth cidx rs c =>
    match rootsCas s idx cidx rs with
    | .error e => (s, .err e)
    | .ok none => (s, .bool false)
    | .ok (some rs') =>
      if cfgMatches s c.cidx then
        ({ s with roots := rs', rootsIdx := idx, config := some (newCfg s idx c) }, .bool true)
      else (s, .err .casMismatch)
  | .incSerial => ({ s with serial := some (nextSerial s) }, .num (nextSerial s))
  | .invalid => (s, .err .invalidOp)

/-- FSM snapshot + restore of the CA tables: roots, provider rows and every index-table entry
    (roots index, provider index, serial counter) are persisted and restored as they are; a
    configuration row with an empty provider name is not restored (`Restore.CAConfig`). -/
def restoreCa (s : CaState) : CaState :=
  { s with config := s.config.filter (fun c => c.provider ≠ []) }

/-- The root list the leader sends when it installs a new active root (`primaryUpdateRootCA`,
    `persistNewRootAndConfig`): a copy of every stored root with the active flag cleared, then the
    new root, active.  Without a new root (`none`: config-only persist) the stored roots as they are. -/
def rotationRoots (old : List Root) : Option Bytes → List ReqRoot
  | some n => old.map (fun r => ⟨r.id, false⟩) ++ [⟨n, true⟩]
  | none => old.map (fun r => ⟨r.id, r.active⟩)

/-- The root list `pruneCARoots` sends: every stored root except the inactive ones whose
    rotated-out stamp is older than twice the leaf TTL (`expired`). -/
def pruneRoots (old : List Root) (expired : Bytes → Bool) : List ReqRoot :=
  (old.filter (fun r => !(!r.active && expired r.id))).map (fun r => ⟨r.id, r.active⟩)

/-! ### the system: CA tables + the leader's signing path -/

structure Sys where
  ca : CaState := {}
  dc : Bytes := []
  /-- id of the provider-state row the leader's Consul CA provider reads its key from
      (`none`: no provider yet) -/
  mgrProv : Option Bytes := none
  /-- `CSRMaxPerSecond` of the stored CA config: `none` when 0 (no rate limit), otherwise a key
      naming the value (only values so small that no token is ever added back are modelled) -/
  rate : Option Nat := none
  /-- the leader's CSR rate limiter, created lazily by the first request that reaches it and
      re-created (`rate.NewLimiter(limit, 1)`, one token) only when the configured value differs
      from the one it was created with: (value key, tokens left) -/
  limiter : Option (Nat × Nat) := none
  /-- the leader's clock is past the signing root's `NotAfter` -/
  rootExpired : Bool := false
  /-- the provider-state row holds a private key / a certificate to sign leaves with (the root in
      the primary, the intermediate the primary signed in a secondary datacenter) -/
  provKey : Bool := true
  provCert : Bool := true
  /-- the private key of the row is the key of that certificate (a secondary whose request for a
      new intermediate the primary did not answer holds a new key next to the old certificate) -/
  provMatch : Bool := true
deriving DecidableEq, Repr

/-- `ConsulProvider.getState`: the provider-state row must exist -/
def providerReady (s : Sys) : Bool :=
  match s.mgrProv with
  | some p => s.ca.provs.any (·.id = p)
  | none => false

def trustDomainOf (cluster : Bytes) : Bytes := lc (cluster ++ bDotConsul)

def activeRoots (s : CaState) : List Root := s.roots.filter (·.active)

/-- `getCSRRateLimiterWithLimit`: tokens the request finds (`none`: no rate limit configured) -/
def limiterTokens (s : Sys) : Option Nat :=
  match s.rate with
  | none => none
  | some k =>
    match s.limiter with
    | some (k', t) => if k' = k then some t else some 1
    | none => some 1

/-- the limiter after a request took a token from it -/
def limiterAfter (s : Sys) : Option (Nat × Nat) :=
  match s.rate with
  | some k => some (k, (limiterTokens s).getD 1 - 1)
  | none => s.limiter

/-- one `ConnectCA.Sign`: configuration and signing root come from the CA tables, the serial number
    from `CAOpIncrementProviderSerialNumber`, which is applied only when every check passed. -/
def signStep (s : Sys) (az : Authz) (csr : Csr) : Sys × Except Err Cert :=
  match s.ca.config with
  | none => (s, .error .noConfig)
  | some c =>
    match activeRoots s.ca with
    | [r] =>
      match authorizeAndSign ⟨s.dc, trustDomainOf c.cluster, r.id⟩ az csr (nextSerial s.ca) with
      | .error e => (s, .error e)
      | .ok cert =>
        -- the rate limiter is consulted after every check on the request and before anything else
        if limiterTokens s = some 0 then ({ s with limiter := s.rate.map (·, 0) }, .error .rateLimited) else
        let s1 := { s with limiter := limiterAfter s }
        if s.rootExpired then (s1, .error .rootExpired) else
        if providerReady s && s.provKey then
          if s.provCert then
            -- the serial number is taken before x509.CreateCertificate compares the keys
            if s.provMatch then
              ({ s1 with ca := { s.ca with serial := some (nextSerial s.ca) } }, .ok cert)
            else ({ s1 with ca := { s.ca with serial := some (nextSerial s.ca) } }, .error .keyMismatch)
          else (s1, .error .noSigningCert)
        else (s1, .error .providerUninit)
    | _ => (s, .error .noActiveRoot)

inductive SysOp
  | ca (idx : Nat) (c : CaCmd)
  | sign (az : Authz) (csr : Csr)
  /-- the leader installs a provider instance (Initialize / UpdateConfiguration) -/
  | mgr (p : Option Bytes) (key cert mtch : Bool)
  /-- FSM snapshot + restore (same lineage) -/
  | restore
  /-- the stored config's `CSRMaxPerSecond` changes -/
  | rate (k : Option Nat)
  /-- a new leader (a new CAManager, hence no limiter yet and the real clock) -/
  | leader
  /-- the leader's clock moves past / before the root's expiry -/
  | clock (expired : Bool)

/-- serial numbers handed out by one operation -/
def sysStep (s : Sys) : SysOp → Sys × List Nat
  | .ca idx c =>
    match caStep s.ca idx c with
    | (ca', .num n) => ({ s with ca := ca' }, [n])
    | (ca', _) => ({ s with ca := ca' }, [])
  | .sign az csr =>
    match signStep s az csr with
    | (s', .ok cert) => (s', [cert.serial])
    -- a serial number taken for a certificate that could then not be created is gone as well
    | (s', .error _) => if s'.ca.serial = s.ca.serial then (s', []) else (s', [nextSerial s.ca])
  | .mgr p k c m => ({ s with mgrProv := p, provKey := k, provCert := c, provMatch := m }, [])
  | .restore => ({ s with ca := restoreCa s.ca }, [])
  | .rate k => ({ s with rate := k }, [])
  | .leader => ({ s with limiter := none, rootExpired := false }, [])
  | .clock e => ({ s with rootExpired := e }, [])

/-- all serial numbers handed out along a run, in order -/
def runSerials (s : Sys) : List SysOp → Sys × List Nat
  | [] => (s, [])
  | op :: ops =>
    let (s1, ns) := sysStep s op
    let (s2, ms) := runSerials s1 ops
    (s2, ns ++ ms)

def runCa (s : CaState) : List (Nat × CaCmd) → CaState
  | [] => s
  | (idx, c) :: cs => runCa (caStep s idx c).1 cs

end CV.Ca
