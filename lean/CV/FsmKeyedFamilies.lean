/-
CV.FsmKeyedFamilies — the keyed-table families of `CV.FsmKeyed` wrapped as handlers of the FSM
dispatch table (property C01, round 5), next to the 17 handlers of `CV.FsmFamilies`.

The joint state of `CV.FsmFamilies.Joint O` has a component `other : O` for "every table no model
covers yet"; here `O := Keyed.State × O'`: the tables of ACL policies / roles / binding rules /
auth methods, federation states and their `index` rows become concrete, `O'` is what is still
uncovered (ACL bootstrap state, peerings, trust bundles, peering secrets, resources, manual VIPs).
The tie of `CV.Keyed.apply` to the code is THIS property's harness (section `keyedSection`:
generated histories applied to a real fsm.FSM, every result and a dump of the affected tables after
every command compared line by line with the model).
-/
import CV.FsmFamilies
import CV.FsmKeyed

namespace CV.Fsm.KeyedFamilies
open CV CV.Fsm CV.Fsm.Families

variable {O R' : Type}

abbrev JointK (O : Type) := Joint (Keyed.State × O)
abbrev JResK (R' : Type) := JRes (Keyed.Res ⊕ R')

def keyedH (allowed : Keyed.Cmd → Bool) (dec : Bytes → Option Keyed.Cmd) :
    Handler Store.Env (JointK O) (JResK R') :=
  fun _ s idx p =>
    match dec p with
    | none => none
    | some c =>
      if allowed c then
        let r := Keyed.apply s.other.1 idx c
        some ({ s with other := (r.1, s.other.2) }, .other (.inl r.2))
      else none

structure Decoders where
  policySet : Bytes → Option Keyed.Cmd
  policyDelete : Bytes → Option Keyed.Cmd
  roleSet : Bytes → Option Keyed.Cmd
  roleDelete : Bytes → Option Keyed.Cmd
  ruleSet : Bytes → Option Keyed.Cmd
  ruleDelete : Bytes → Option Keyed.Cmd
  methodSet : Bytes → Option Keyed.Cmd
  methodDelete : Bytes → Option Keyed.Cmd
  fed : Bytes → Option Keyed.Cmd
  leaf : Bytes → Option Keyed.Cmd

def keyedFamily (d : Decoders) : Table Store.Env (JointK O) (JResK R') := [
  (19, keyedH Keyed.isPolicySet d.policySet), (20, keyedH Keyed.isPolicyDelete d.policyDelete),
  (23, keyedH Keyed.isRoleSet d.roleSet), (24, keyedH Keyed.isRoleDelete d.roleDelete),
  (25, keyedH Keyed.isRuleSet d.ruleSet), (26, keyedH Keyed.isRuleDelete d.ruleDelete),
  (27, keyedH Keyed.isMethodSet d.methodSet), (28, keyedH Keyed.isMethodDelete d.methodDelete),
  (30, keyedH Keyed.isFed d.fed), (21, keyedH Keyed.isLeaf d.leaf)]

/-- message types made concrete by this file -/
def keyedTypes : List String := [
  "ACLPolicySetRequestType", "ACLPolicyDeleteRequestType", "ACLRoleSetRequestType", "ACLRoleDeleteRequestType",
  "ACLBindingRuleSetRequestType", "ACLBindingRuleDeleteRequestType", "ACLAuthMethodSetRequestType",
  "ACLAuthMethodDeleteRequestType", "FederationStateRequestType", "ConnectCALeafRequestType"]

/-- message types whose handler is still an opaque hypothesis -/
def opaqueTypes : List String := [
  "ACLBootstrapRequestType", "PeeringWriteType", "PeeringDeleteType", "PeeringTerminateByIDType",
  "PeeringTrustBundleWriteType", "PeeringTrustBundleDeleteType", "PeeringSecretsWriteType",
  "ResourceOperationType", "UpdateVirtualIPRequestType"]

end CV.Fsm.KeyedFamilies
