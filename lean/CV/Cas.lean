/-
CV.Cas — model of every conditional ("check-and-set") write of the consul state store
(property C10).  Self-contained: small keyed tables of versioned rows, one function per Go
function, written with the control flow of the code *as it is* (the three early-return `if`s of
the set-CAS family, delete-cas on an absent KV key reporting `true`, the CA configuration
signalling a mismatch by an error, autopilot CAS refusing to create, the silent ACL token CAS).

Mirrors (agent/consul/state unless noted)
  kvs.go            kvsSetTxn, kvsDeleteTxn, kvsSetCASTxn/KVSSetCAS, kvsDeleteCASTxn/KVSDeleteCAS,
                    kvsLockTxn/KVSLock, kvsUnlockTxn/KVSUnlock, kvsCheckSessionTxn, kvsCheckIndexTxn
  session.go        sessionCreateTxn/SessionCreate, deleteSessionTxn/SessionDestroy (no checks, no lock delay)
  catalog.go        ensureNodeTxn (node IDs, rename-by-ID, ensureNoNodeWithSimilarNameTxn), ensureServiceTxn, ensureCheckTxn (row level),
                    deleteNodeTxn / deleteServiceTxn / deleteCheckTxn (row level, with cascades),
                    ensure{Node,Service,Check}CASTxn, delete{Node,Service,Check}CASTxn
  txn.go            txnKVS / txnNode / txnService / txnCheck (set, delete, cas, delete-cas verbs),
                    txnDispatch, TxnRW (all-or-nothing)
  config_entry.go   ensureConfigEntryTxn, deleteConfigEntryTxn, EnsureConfigEntryCAS,
                    EnsureConfigEntryWithStatusCAS, DeleteConfigEntryCAS
  connect_ca.go     caSetConfigTxn, CACheckAndSetConfig, caRootSetCASAppliedTxn, CARootSetCAS,
                    CARootSetCASAndCheckAndSetConfig
  autopilot.go      autopilotSetConfigTxn, AutopilotCASConfig
  feature_gate.go   FeatureGateUpdate
  acl.go            aclTokenSetTxn (opts.CAS), ACLTokenBatchSet, ACLTokenBatchDelete, ACLBootstrap
  fsm/commands_ce.go  applyKVSOperation, applyTxn, applyConfigEntryOperation,
                    ApplyConnectCAOperationFromRequest, applyAutopilotUpdate,
                    applyFeatureGateUpdate, applyACLTokenSetOperation  (`fsmApply`)

Projection.  A row is (key, content, CreateIndex, ModifyIndex).  The `index` table is modelled for
the tables whose bookkeeping is a single entry (kvs, tombstones, config-entries,
connect-ca-roots, acl-tokens).  Catalog rows are modelled without the derived catalog index
entries / kind-service-names / usage rows (those belong to C07/C01); the Go monitor of the C10
harness compares the *complete* memdb dump around every failed conditional write.
Sessions are modelled without health checks and with LockDelay 0 (`sessCreate`, `sessDelete` with
its release / delete cascade over the keys the session holds, invalidation when the node goes);
KV rows carry LockIndex and Session; `kvLock` / `kvUnlock` are the session-conditioned writes,
`check-index` / `check-session` / `check-not-exists` the pure guards of a transaction.
`tokBootstrap` is `ACLBootstrap` (conditional on the reset index).
Core-only Lean; no Mathlib.
-/
import CV.Proto
namespace CV.Cas

/-! ## Versioned rows, cells and keyed tables -/

structure Ver (α : Type) where
  val    : α
  create : Nat
  modify : Nat
deriving DecidableEq, Repr

/-- a singleton table (CA config, autopilot config, feature-gate policy/status) -/
abbrev Cell (α : Type) := Option (Ver α)

/-- a memdb table projected to (primary key, versioned content) -/
abbrev Tab (κ α : Type) := List (κ × Ver α)

section tab
variable {κ α : Type} [DecidableEq κ]

def tget : Tab κ α → κ → Cell α
  | [], _ => none
  | (k', v) :: r, k => if k' = k then some v else tget r k

def tdel (t : Tab κ α) (k : κ) : Tab κ α := t.filter (fun p => p.1 ≠ k)

def tput (t : Tab κ α) (k : κ) (v : Ver α) : Tab κ α := (k, v) :: tdel t k

/-- ModifyIndex of a possibly absent row; 0 when absent (`raftModifyIndex`). -/
def modOf (c : Cell α) : Nat := match c with | none => 0 | some v => v.modify

/-- the row written by an upsert at raft index `i`: CreateIndex is inherited from the existing row -/
def stamp (old : Cell α) (i : Nat) (x : α) : Ver α :=
  ⟨x, match old with | some e => e.create | none => i, i⟩
end tab

/-! ## The `index` table -/

/-- memdb lower-cases string index keys (node names, and the key of the index table itself);
    ASCII in the harness -/
def lc (s : String) : String := String.ofList (s.toList.map Char.toLower)

/-- the index table: rows (Key, Value) whose primary index is the LOWER-CASED key — writing
    `node.N1` replaces the row `node.n1` (and keeps the new spelling) -/
abbrev Idx := List (String × Nat)

def iget : Idx → String → Option Nat
  | [], _ => none
  | (k', v) :: r, k => if lc k' = lc k then some v else iget r k

/-- `tx.Insert(tableIndex, &IndexEntry{key, v})` -/
def iset (t : Idx) (k : String) (v : Nat) : Idx := (k, v) :: t.filter (fun p => lc p.1 ≠ lc k)

/-- `indexUpdateMaxTxn` -/
def imax (t : Idx) (k : String) (v : Nat) : Idx :=
  match iget t k with
  | some cur => if v ≤ cur then t else iset t k v
  | none => iset t k v

/-- `maxIndexTxn(tx, key)` for one key -/
def imaxIndex (t : Idx) (k : String) : Nat := match iget t k with | some v => v | none => 0

/-! ## State -/

structure KVal where
  value : String
  flags : Nat
  lockIndex : Nat := 0     -- `DirEntry.LockIndex` (requests of the harness carry 0)
  session : String := ""   -- `DirEntry.Session`: the lock holder, "" = not locked
deriving DecidableEq, Repr

structure SessVal where
  node     : String        -- the node name as given at creation (indexed lower-cased)
  behavior : String        -- "release" / "delete"
deriving DecidableEq, Repr

structure NodeVal where
  name : String        -- the name as last written (the row key is its lower-case form)
  id   : String        -- node UUID, "" when the registration carries none
  addr : String
deriving DecidableEq, Repr

structure ChkVal where
  svcId  : String
  output : String
  status : String      -- "passing" / "critical" / …

deriving DecidableEq, Repr

structure CfgVal where
  val    : String
  status : String      -- "" = the zero `structs.Status{}`
  flag   : Bool := false   -- service-defaults: MutualTLSMode = permissive;
                           -- mesh: AllowEnablingPermissiveMutualTLS; false for every other kind
deriving DecidableEq, Repr

structure CaVal where
  provider : String
  cluster  : String
deriving DecidableEq, Repr

structure RootVal where
  name   : String
  active : Bool
deriving DecidableEq, Repr

structure FgsVal where
  digest      : String
  policyIndex : Nat
deriving DecidableEq, Repr

structure TokVal where
  secret : String
  desc   : String
deriving DecidableEq, Repr

structure State where
  kvs       : Tab String KVal := []
  tombs     : List (String × Nat) := []
  nodes     : Tab String NodeVal := []                -- node name ↦ (node ID, address)
  svcs      : Tab (String × String) Nat := []         -- (node, service id) ↦ port
  chks      : Tab (String × String) ChkVal := []      -- (node, check id)
  ksn       : List String := []                       -- kind-service-names, kind "typical"
  cfgs      : Tab (String × String) CfgVal := []      -- (kind, name)
  caConfig  : Cell CaVal := none
  roots     : Tab String RootVal := []
  autopilot : Cell Nat := none
  fgPolicy  : Cell String := none
  fgStatus  : Cell FgsVal := none
  toks      : Tab String TokVal := []                 -- accessor id
  sess      : Tab String SessVal := []                -- session id
  idx       : Idx := []
deriving DecidableEq, Repr

inductive Err
  | casMismatch        -- "ModifyIndex did not match existing" (CA config)
  | stale              -- txn verb: "... index is stale"
  | missingNode        -- ErrMissingNode
  | missingService     -- ErrMissingService
  | cfgMtls            -- "cannot set MutualTLSMode=permissive because AllowEnablingPermissiveMutualTLS=false …"
  | cfgGatewayClash    -- "cannot create a %q config entry with name %q, a %q config entry with that name already exists"
  | cfgGraph           -- "discovery chain %q uses a protocol %q that does not permit advanced routing or splitting behavior"
  | nodeNameConflict   -- "Node name %s is reserved by node %s …" (ensureNoNodeWithSimilarNameTxn)
  | rootsActive        -- "there must be exactly one active CA"
  | missingRootId      -- ErrMissingCARootID
  | fgNoStatus         -- "feature-gate update requires status"
  | fgNoPolicy         -- "feature-gate status cannot exist without policy"
  | tokNoSecret        -- ErrMissingACLTokenSecret
  | tokNoAccessor      -- ErrMissingACLTokenAccessor
  | tokSecretImmutable -- "The ACL Token SecretID field is immutable"
  | missingSession     -- kvsLockTxn / kvsUnlockTxn: "missing session"
  | invalidSession     -- kvsLockTxn: "invalid session …" (no such session)
  | lockHeld           -- txn verb lock: "failed to lock key …, lock is already held"
  | lockNotHeld        -- txn verb unlock: "failed to unlock key …, lock isn't held, or is held by another session"
  | keyMissing         -- check-session / check-index: "… key … doesn't exist"
  | sessionMismatch    -- check-session: "failed session check for key …"
  | indexMismatch      -- check-index: "failed index check for key …"
  | keyExists          -- check-not-exists: "key … exists"
  | missingSessionId   -- ErrMissingSessionID
  | badBehavior        -- "Invalid session behavior: …"
  | bootstrapNotAllowed   -- structs.ACLBootstrapNotAllowedErr
  | bootstrapInvalidReset -- structs.ACLBootstrapInvalidResetIndexErr
deriving DecidableEq, Repr

/-- one `structs.TxnResult`: the entry a write verb hands back (key + its raft indexes) -/
inductive TRes
  | kv   (key : String) (flags lockIndex : Nat) (session : String) (create modify : Nat)
  | node (name : String) (create modify : Nat)
  | svc  (node id : String) (create modify : Nat)
  | chk  (node id : String) (create modify : Nat)
deriving DecidableEq, Repr

/-- what a command reports to its caller -/
inductive Res
  | unit                               -- `error`-only API returning nil
  | ok (applied : Bool)                -- `(bool, nil)`
  | err (e : Err)                      -- any error (the write transaction is aborted)
  | txnOk (rs : List TRes)             -- TxnResponse without errors
  | txnErr (es : List (Nat × Err))     -- TxnResponse.Errors (op index, error); nothing committed
deriving DecidableEq, Repr

structure Out where
  state : State
  res   : Res
deriving DecidableEq, Repr

/-- "the command reported success" -/
def Out.reported (o : Out) : Bool := o.res == .ok true

/-! ## KV -/

/-- `kvsSetTxn(tx, idx, entry, updateSession)`: unless `updateSession`, the stored session is kept
    ("no session" for a new key); every other field — LockIndex included — is the request's.
    An entry equal to the stored one (`DirEntry.Equal`: value, flags, LockIndex, session) is not
    rewritten (ModifyIndex stays), otherwise the row is stored with ModifyIndex = idx and the
    `kvs` index entry is *set* to idx. -/
def kvSetCore (s : State) (i : Nat) (k : String) (v : KVal) (updateSession : Bool) : State :=
  match tget s.kvs k with
  | some e =>
    let v' : KVal := if updateSession then v else { v with session := e.val.session }
    if e.val = v' then s
    else { s with kvs := tput s.kvs k ⟨v', e.create, i⟩, idx := iset s.idx "kvs" i }
  | none =>
    let v' : KVal := if updateSession then v else { v with session := "" }
    { s with kvs := tput s.kvs k ⟨v', i, i⟩, idx := iset s.idx "kvs" i }

/-- `kvsSetTxn(tx, idx, entry, updateSession=false)` -/
def kvSet (s : State) (i : Nat) (k : String) (v : KVal) : State := kvSetCore s i k v false

/-- `kvsDeleteTxn`: absent ⇒ nothing; else tombstone + delete + both index entries set. -/
def kvDelete (s : State) (i : Nat) (k : String) : State :=
  match tget s.kvs k with
  | none => s
  | some _ =>
    { s with kvs := tdel s.kvs k
             tombs := (k, i) :: s.tombs.filter (fun p => p.1 ≠ k)
             idx := iset (iset s.idx "tombstones" i) "kvs" i }

/-- The three early returns shared by every set-CAS in the code base
    (`kvsSetCASTxn`, `ensureNodeCASTxn`, `ensureServiceCASTxn`, `ensureCheckCASTxn`,
    `EnsureConfigEntryCAS`, `aclTokenSetTxn`): `true` = comparison failed. -/
def setCasFails {α : Type} (existing : Cell α) (cidx : Nat) : Bool :=
  if cidx = 0 ∧ existing.isSome then true
  else if cidx ≠ 0 ∧ existing.isNone then true
  else match existing with
    | some e => decide (cidx ≠ 0 ∧ cidx ≠ e.modify)
    | none => false

/-- `kvsSetCASTxn` + `KVSSetCAS` (commit only when set). -/
def kvCas (s : State) (i : Nat) (k : String) (v : KVal) (cidx : Nat) : Out :=
  if setCasFails (tget s.kvs k) cidx then ⟨s, .ok false⟩ else ⟨kvSet s i k v, .ok true⟩

/-- `kvsDeleteCASTxn` + `KVSDeleteCAS`: an absent key reports `true` (`return entry == nil, nil`). -/
def kvDeleteCas (s : State) (i : Nat) (k : String) (cidx : Nat) : Out :=
  match tget s.kvs k with
  | none => ⟨s, .ok true⟩
  | some e => if e.modify ≠ cidx then ⟨s, .ok false⟩ else ⟨kvDelete s i k, .ok true⟩

/-! ### Session-conditioned KV writes -/

/-- `kvsLockTxn`: `(locked, err)` with the working state.  The session must be named and exist;
    a key held by ANOTHER session refuses (`false`); re-acquiring one's own lock keeps LockIndex,
    taking a free key raises it by one (1 for a new key). -/
def kvLockTxn (s : State) (i : Nat) (k : String) (v : KVal) : Except Err (Bool × State) :=
  if v.session = "" then .error .missingSession
  else if (tget s.sess v.session).isNone then .error .invalidSession
  else match tget s.kvs k with
    | some e =>
      if e.val.session = v.session then .ok (true, kvSetCore s i k { v with lockIndex := e.val.lockIndex } true)
      else if e.val.session ≠ "" then .ok (false, s)
      else .ok (true, kvSetCore s i k { v with lockIndex := e.val.lockIndex + 1 } true)
    | none => .ok (true, kvSetCore s i k { v with lockIndex := 1 } true)

/-- `kvsUnlockTxn`: only the holder unlocks; the request's value and flags are stored. -/
def kvUnlockTxn (s : State) (i : Nat) (k : String) (v : KVal) : Except Err (Bool × State) :=
  if v.session = "" then .error .missingSession
  else match tget s.kvs k with
    | none => .ok (false, s)
    | some e =>
      if e.val.session ≠ v.session then .ok (false, s)
      else .ok (true, kvSetCore s i k { v with session := "", lockIndex := e.val.lockIndex } true)

/-- `KVSLock` / `KVSUnlock`: commit only when applied -/
def ofLock (s : State) (r : Except Err (Bool × State)) : Out :=
  match r with
  | .error e => ⟨s, .err e⟩
  | .ok (false, _) => ⟨s, .ok false⟩
  | .ok (true, s') => ⟨s', .ok true⟩

def kvLock (s : State) (i : Nat) (k : String) (v : KVal) : Out := ofLock s (kvLockTxn s i k v)
def kvUnlock (s : State) (i : Nat) (k : String) (v : KVal) : Out := ofLock s (kvUnlockTxn s i k v)

/-- the txn verbs `lock` / `unlock`: `!ok && err == nil` ⇒ the verb's own error -/
def ofLockTxn (refused : Err) (r : Except Err (Bool × State)) : Except Err State :=
  match r with
  | .error e => .error e
  | .ok (false, _) => .error refused
  | .ok (true, s') => .ok s'

/-- `kvsCheckSessionTxn` -/
def kvCheckSession (s : State) (k sess : String) : Except Err Unit :=
  match tget s.kvs k with
  | none => .error .keyMissing
  | some e => if e.val.session ≠ sess then .error .sessionMismatch else .ok ()

/-- `kvsCheckIndexTxn` -/
def kvCheckIndex (s : State) (k : String) (cidx : Nat) : Except Err Unit :=
  match tget s.kvs k with
  | none => .error .keyMissing
  | some e => if e.modify ≠ cidx then .error .indexMismatch else .ok ()

/-- txn verb `check-not-exists` -/
def kvCheckNotExists (s : State) (k : String) : Except Err Unit :=
  match tget s.kvs k with
  | none => .ok ()
  | some _ => .error .keyExists

/-! ### Sessions (no health checks attached, LockDelay 0) -/

/-- `sessionCreateTxn`: ID, behaviour, node must exist; the `sessions` index entry is *set*. -/
def sessCreate (s : State) (i : Nat) (id node behavior : String) : Except Err State :=
  if id = "" then .error .missingSessionId
  else if behavior ≠ "" ∧ behavior ≠ "release" ∧ behavior ≠ "delete" then .error .badBehavior
  else if (tget s.nodes (lc node)).isNone then .error .missingNode
  else .ok { s with sess := tput s.sess id ⟨⟨node, if behavior = "" then "release" else behavior⟩, i, i⟩
                    idx := iset s.idx "sessions" i }

/-- release one key held by a vanished session: the row is cloned with Session = "" -/
def kvRelease (w : State) (i : Nat) (k : String) : State :=
  match tget w.kvs k with
  | some e => kvSetCore w i k { e.val with session := "" } true
  | none => w

/-- `deleteSessionTxn`: the row goes, the `sessions` entry is set, every key the session holds is
    released (behaviour release) or deleted (behaviour delete). -/
def sessDelete (s : State) (i : Nat) (id : String) : State :=
  match tget s.sess id with
  | none => s
  | some e =>
    let s1 := { s with sess := tdel s.sess id, idx := iset s.idx "sessions" i }
    let held := (s1.kvs.filter (fun p => p.2.val.session = id)).map (·.1)
    if e.val.behavior = "delete" then held.foldl (fun w k => kvDelete w i k) s1
    else held.foldl (fun w k => kvRelease w i k) s1

/-! ## Catalog rows (nodes with or without a node ID, typical services, checks) and the
index-table entries every catalog write maintains

Node rows are keyed by the LOWER-CASED name; the node ID is a second, unique index.
`ensureNodeCASTxn` compares the ModifyIndex of the row stored under the NAME of the request,
whatever ID the request carries.  Service and check rows are keyed by (lower-cased node, id);
in the modelled universe a service's name is its ID and its kind is "typical". -/

/-- `peeredIndexEntryName(entry, "")` -/
def peered (x : String) : String := "peer.~:" ++ x

/-- `tx.Delete(tableIndex, entry)` -/
def idel (t : Idx) (k : String) : Idx := t.filter (fun p => lc p.1 ≠ lc k)

/-- `catalogUpdateNodesIndexes` -/
def ixNodes (t : Idx) (i : Nat) : Idx := imax (imax t "nodes" i) (peered "nodes") i
/-- `catalogUpdateNodeIndexes` (the name as given by the caller, not lower-cased) -/
def ixNode (t : Idx) (raw : String) (i : Nat) : Idx := imax t (peered ("node." ++ raw)) i
/-- `catalogUpdateServicesIndexes` -/
def ixServices (t : Idx) (i : Nat) : Idx := imax (imax t "services" i) (peered "services") i
/-- `catalogUpdateServiceIndexes` -/
def ixService (t : Idx) (name : String) (i : Nat) : Idx := imax t (peered ("service." ++ name)) i
/-- `catalogUpdateServiceKindIndexes` for kind "typical" -/
def ixKind (t : Idx) (i : Nat) : Idx := imax (imax t "service_kind.typical" i) (peered "service_kind.typical") i
/-- `catalogUpdateCheckIndexes` -/
def ixChecks (t : Idx) (i : Nat) : Idx := imax (imax t "checks" i) (peered "checks") i
/-- `updateAllServiceIndexesOfNode` -/
def ixServicesOfNode (svcs : Tab (String × String) Nat) (t : Idx) (k : String) (i : Nat) : Idx :=
  svcs.foldl (fun t p => if p.1.1 = k then ixKind (ixService t p.1.2 i) i else t) t

/-- `getNodeIDTxn`: the row carrying this node ID (the `uuid` index), with the key it is stored under -/
def nodeById (t : Tab String NodeVal) (id : String) : Option (String × Ver NodeVal) :=
  t.find? (fun p => p.2.val.id = id)

/-- the Serf health check of a node exists and is not critical — only then does a node defend
    its name (`ensureNoNodeWithSimilarNameTxn`) -/
def nodeHealthy (chks : Tab (String × String) ChkVal) (k : String) : Bool :=
  match tget chks (k, "serfHealth") with
  | some e => decide (e.val.status ≠ "critical")
  | none => false

/-- `ensureNoNodeWithSimilarNameTxn(tx, node, allowClashWithoutID)`: `true` = "Node name … is
    reserved by node …".  Names are unique keys (case-insensitively), so the only candidate is
    the row under the key `k`. -/
def nameConflict (nodes : Tab String NodeVal) (chks : Tab (String × String) ChkVal)
    (k id : String) (allowClashWithoutID : Bool) : Bool :=
  match tget nodes k with
  | some e => decide (e.val.id ≠ id) && (decide (e.val.id ≠ "") || !allowClashWithoutID) && nodeHealthy chks k
  | none => false

/-- `Node.IsSame`: ID and address (the name is compared case-insensitively, i.e. by key) -/
def sameNode (a b : NodeVal) : Bool := decide (a.id = b.id ∧ a.addr = b.addr)

/-- `catalogInsertNode`: the row, the nodes / node.<name> entries and the entries of every
    service registered on the node -/
def nodeInsert (s : State) (i : Nat) (v : NodeVal) (create : Nat) : State :=
  let k := lc v.name
  { s with nodes := tput s.nodes k ⟨v, create, i⟩
           idx := ixServicesOfNode s.svcs (ixNode (ixNodes s.idx i) v.name i) k i }

/-- the by-name tail of `ensureNodeTxn`: same ID and address ⇒ untouched -/
def nodeSetByName (s : State) (i : Nat) (v : NodeVal) : State :=
  match tget s.nodes (lc v.name) with
  | some e => if sameNode e.val v then s else nodeInsert s i v e.create
  | none => nodeInsert s i v i

/-- `deleteCheckTxn` -/
def chkDelete (s : State) (i : Nat) (n id : String) : State :=
  let k := lc n
  match tget s.chks (k, id) with
  | none => s
  | some e =>
    let ix := if e.val.svcId ≠ "" then ixKind (ixService s.idx e.val.svcId i) i
              else ixServices (ixServicesOfNode s.svcs s.idx k i) i
    { s with chks := tdel s.chks (k, id), idx := ixChecks ix i }

/-- `deleteServiceTxn`: the bound checks go first (each through `deleteCheckTxn`), then the row;
    when the last instance of the service name disappears its `service.<name>` entry is
    garbage-collected, the extinction index is raised and the kind-service-name is cleaned up -/
def svcDelete (s : State) (i : Nat) (n id : String) : State :=
  let k := lc n
  match tget s.svcs (k, id) with
  | none => s
  | some _ =>
    let bound := (s.chks.filter (fun p => p.1.1 = k ∧ p.2.val.svcId = id)).map (·.1.2)
    let s1 := bound.foldl (fun w c => chkDelete w i n c) s
    let svcs' := tdel s1.svcs (k, id)
    let ix := ixNode (ixNodes (ixKind (ixServices (ixChecks s1.idx i) i) i) i) n i
    if svcs'.any (fun p => p.1.2 = id) then { s1 with svcs := svcs', idx := ixService ix id i }
    else { s1 with svcs := svcs'
                   ksn := s1.ksn.filter (· ≠ id)
                   idx := imax (imax (idel ix (peered ("service." ++ id))) (peered "service_last_extinction") i)
                            "kind_service_names.typical" i }

/-- `deleteNodeTxn`: services (with their checks), remaining checks, then the node row, its
    `node.<name>` entry and the node extinction index; finally every session of the node is
    invalidated (`deleteSessionTxn`, releasing or deleting the keys it holds) -/
def nodeDelete (s : State) (i : Nat) (n : String) : State :=
  let k := lc n
  match tget s.nodes k with
  | none => s
  | some _ =>
    let mine := (s.svcs.filter (fun p => p.1.1 = k)).map (·.1.2)
    let s0 := { s with idx := mine.foldl (fun t id => ixKind (ixService t id i) i) s.idx }
    let s1 := mine.foldl (fun w id => svcDelete w i n id) s0
    let myChks := (s1.chks.filter (fun p => p.1.1 = k)).map (·.1.2)
    let s2 := myChks.foldl (fun w c => chkDelete w i n c) s1
    let s3 := { s2 with nodes := tdel s2.nodes k
                        idx := imax (idel (ixNodes s2.idx i) (peered ("node." ++ n))) (peered "node_last_extinction") i }
    let mySess := (s3.sess.filter (fun p => lc p.2.val.node = k)).map (·.1)
    mySess.foldl (fun w id => sessDelete w i id) s3

/-- `ensureNodeTxn`.  With a node ID: a registration already carrying that ID is the one being
    updated — if it is stored under another name this is a rename (name-clash check, then the old
    registration is deleted with its services and checks, the new row inherits its CreateIndex and
    replaces whatever was stored under the new name); an unknown ID may take over the name of a
    registration unless that one has an ID of its own and is healthy.  Without ID: by name only. -/
def nodeSet (s : State) (i : Nat) (v : NodeVal) : Except Err State :=
  let k := lc v.name
  if v.id ≠ "" then
    match nodeById s.nodes v.id with
    | some (oldKey, e) =>
      if oldKey ≠ k then
        if nameConflict s.nodes s.chks k v.id false then .error .nodeNameConflict
        else .ok (nodeInsert (nodeDelete s i e.val.name) i v e.create)
      else if sameNode e.val v then .ok s
      else .ok (nodeInsert s i v e.create)
    | none =>
      if nameConflict s.nodes s.chks k v.id true then .error .nodeNameConflict
      else .ok (nodeSetByName s i v)
  else .ok (nodeSetByName s i v)

/-- `ensureServiceTxn`: the kind-service-name is recorded first, then the node must exist
    (`ErrMissingNode`); same content ⇒ the row is untouched. -/
def svcSet (s : State) (i : Nat) (n id : String) (port : Nat) : Except Err State :=
  let k := lc n
  let s0 := if s.ksn.contains id then s
            else { s with ksn := id :: s.ksn, idx := imax s.idx "kind_service_names.typical" i }
  match tget s.nodes k with
  | none => .error .missingNode
  | some _ =>
    let ins := fun (create : Nat) =>
      { s0 with svcs := tput s0.svcs (k, id) ⟨port, create, i⟩
                idx := ixNode (ixNodes (ixKind (ixService (ixServices s0.idx i) id i) i) i) n i }
    match tget s.svcs (k, id) with
    | some e => if e.val = port then .ok s0 else .ok (ins e.create)
    | none => .ok (ins i)

/-- `ensureCheckTxn`: node must exist, a service-bound check needs its service; an unchanged
    check writes nothing, a changed one also raises the entries of the service(s) it reflects on -/
def chkSet (s : State) (i : Nat) (n id : String) (v : ChkVal) : Except Err State :=
  let k := lc n
  match tget s.nodes k with
  | none => .error .missingNode
  | some _ =>
    if v.svcId ≠ "" ∧ tget s.svcs (k, v.svcId) = none then .error .missingService
    else
      let ix := if v.svcId ≠ "" then ixKind (ixService s.idx v.svcId i) i
                else ixServicesOfNode s.svcs s.idx k i
      match tget s.chks (k, id) with
      | some e => if e.val = v then .ok s
                  else .ok { s with chks := tput s.chks (k, id) ⟨v, e.create, i⟩, idx := ixChecks ix i }
      | none => .ok { s with chks := tput s.chks (k, id) ⟨v, i, i⟩, idx := ixChecks ix i }

/-- `ensureNodeCASTxn` as used by `txnNode` (false ⇒ "index is stale"): the comparison is made
    against the row stored under the request's NAME — never against the row of its node ID. -/
def nodeCas (s : State) (i : Nat) (v : NodeVal) (cidx : Nat) : Except Err State :=
  if setCasFails (tget s.nodes (lc v.name)) cidx then .error .stale else nodeSet s i v

/-- `deleteNodeCASTxn`: absent ⇒ false. -/
def nodeDeleteCas (s : State) (i : Nat) (n : String) (cidx : Nat) : Except Err State :=
  match tget s.nodes (lc n) with
  | none => .error .stale
  | some e => if e.modify ≠ cidx then .error .stale else .ok (nodeDelete s i n)

/-- `ensureServiceCASTxn` (error valued: `errCASCompareFailed`). -/
def svcCas (s : State) (i : Nat) (n id : String) (port cidx : Nat) : Except Err State :=
  if setCasFails (tget s.svcs (lc n, id)) cidx then .error .stale else svcSet s i n id port

def svcDeleteCas (s : State) (i : Nat) (n id : String) (cidx : Nat) : Except Err State :=
  match tget s.svcs (lc n, id) with
  | none => .error .stale
  | some e => if e.modify ≠ cidx then .error .stale else .ok (svcDelete s i n id)

def chkCas (s : State) (i : Nat) (n id : String) (v : ChkVal) (cidx : Nat) : Except Err State :=
  if setCasFails (tget s.chks (lc n, id)) cidx then .error .stale else chkSet s i n id v

def chkDeleteCas (s : State) (i : Nat) (n id : String) (cidx : Nat) : Except Err State :=
  match tget s.chks (lc n, id) with
  | none => .error .stale
  | some e => if e.modify ≠ cidx then .error .stale else .ok (chkDelete s i n id)

/-! ## Transactions -/

inductive TOp
  | kvSet (k : String) (v : KVal) | kvDelete (k : String)
  | kvCas (k : String) (v : KVal) (cidx : Nat) | kvDeleteCas (k : String) (cidx : Nat)
  | kvLock (k : String) (v : KVal) | kvUnlock (k : String) (v : KVal)
  | kvCheckSession (k sess : String) | kvCheckIndex (k : String) (cidx : Nat) | kvCheckNotExists (k : String)
  | sessDelete (id : String)
  | nodeSet (v : NodeVal) | nodeDelete (n : String)
  | nodeCas (v : NodeVal) (cidx : Nat) | nodeDeleteCas (n : String) (cidx : Nat)
  | svcSet (n id : String) (port : Nat) | svcDelete (n id : String)
  | svcCas (n id : String) (port cidx : Nat) | svcDeleteCas (n id : String) (cidx : Nat)
  | chkSet (n id : String) (v : ChkVal) | chkDelete (n id : String)
  | chkCas (n id : String) (v : ChkVal) (cidx : Nat) | chkDeleteCas (n id : String) (cidx : Nat)
deriving DecidableEq, Repr

def kvRes (s : State) (k : String) : List TRes :=
  match tget s.kvs k with | some e => [.kv k e.val.flags e.val.lockIndex e.val.session e.create e.modify] | none => []
/-- `txnNode`'s `getNode()`: by node ID when the operation carries one, else by name;
    the result carries the name as stored -/
def nodeRes (s : State) (v : NodeVal) : List TRes :=
  if v.id ≠ "" then
    match nodeById s.nodes v.id with | some (_, e) => [.node e.val.name e.create e.modify] | none => []
  else
    match tget s.nodes (lc v.name) with | some e => [.node e.val.name e.create e.modify] | none => []
def svcRes (s : State) (n id : String) : List TRes :=
  match tget s.svcs (lc n, id) with | some e => [.svc (lc n) id e.create e.modify] | none => []
def chkRes (s : State) (n id : String) : List TRes :=
  match tget s.chks (lc n, id) with | some e => [.chk (lc n) id e.create e.modify] | none => []

/-- a boolean CAS result inside a transaction: `!ok && err == nil` ⇒ "index is stale" -/
def ofCas (o : Out) : Except Err State :=
  match o.res with
  | .ok true => .ok o.state
  | _ => .error .stale

/-- one operation of `txnDispatch` on the working transaction: new working state + results,
    or the error recorded for this op (the working state is then left as it was: every modelled
    error is raised before the first row is written). -/
def tapply (w : State) (i : Nat) : TOp → Except Err (State × List TRes)
  | .kvSet k v => let w' := kvSet w i k v; .ok (w', kvRes w' k)
  | .kvDelete k => .ok (kvDelete w i k, [])
  | .kvCas k v c => (ofCas (kvCas w i k v c)).map fun w' => (w', kvRes w' k)
  | .kvDeleteCas k c => (ofCas (kvDeleteCas w i k c)).map fun w' => (w', [])
  | .kvLock k v => (ofLockTxn .lockHeld (kvLockTxn w i k v)).map fun w' => (w', kvRes w' k)
  | .kvUnlock k v => (ofLockTxn .lockNotHeld (kvUnlockTxn w i k v)).map fun w' => (w', kvRes w' k)
  | .kvCheckSession k se => (kvCheckSession w k se).map fun _ => (w, kvRes w k)
  | .kvCheckIndex k c => (kvCheckIndex w k c).map fun _ => (w, kvRes w k)
  | .kvCheckNotExists k => (kvCheckNotExists w k).map fun _ => (w, [])
  | .sessDelete id => .ok (sessDelete w i id, [])
  | .nodeSet v => (nodeSet w i v).map fun w' => (w', nodeRes w' v)
  | .nodeDelete n => .ok (nodeDelete w i n, [])
  | .nodeCas v c => (nodeCas w i v c).map fun w' => (w', nodeRes w' v)
  | .nodeDeleteCas n c => (nodeDeleteCas w i n c).map fun w' => (w', [])
  | .svcSet n id p => (svcSet w i n id p).map fun w' => (w', svcRes w' n id)
  | .svcDelete n id => .ok (svcDelete w i n id, [])
  | .svcCas n id p c => (svcCas w i n id p c).map fun w' => (w', svcRes w' n id)
  | .svcDeleteCas n id c => (svcDeleteCas w i n id c).map fun w' => (w', [])
  | .chkSet n id v => (chkSet w i n id v).map fun w' => (w', chkRes w' n id)
  | .chkDelete n id => .ok (chkDelete w i n id, [])
  | .chkCas n id v c => (chkCas w i n id v c).map fun w' => (w', chkRes w' n id)
  | .chkDeleteCas n id c => (chkDeleteCas w i n id c).map fun w' => (w', [])

/-- `txnDispatch`: every op runs (errors are accumulated with their op index). -/
def txnLoop (w : State) (i : Nat) : Nat → List TOp → State × List TRes × List (Nat × Err)
  | _, [] => (w, [], [])
  | n, op :: ops =>
    match tapply w i op with
    | .ok (w', rs) =>
      let r := txnLoop w' i (n + 1) ops
      (r.1, rs ++ r.2.1, r.2.2)
    | .error e =>
      let r := txnLoop w i (n + 1) ops
      (r.1, r.2.1, (n, e) :: r.2.2)

/-- `TxnRW`: commit iff no operation failed. -/
def txn (s : State) (i : Nat) (ops : List TOp) : Out :=
  let r := txnLoop s i 0 ops
  if r.2.2.isEmpty then ⟨r.1, .txnOk r.2.1⟩ else ⟨s, .txnErr r.2.2⟩

/-! ## Config entries -/

/-- kinds implementing `structs.ControlledConfigEntry` -/
def controlled (kind : String) : Bool :=
  kind == "api-gateway" || kind == "http-route" || kind == "tcp-route"

/-- the status stored by `ensureConfigEntryTxn`: unless this is a status update, a controlled
    entry keeps the stored status (or gets the default, empty, one) -/
def cfgStatus (old : Cell CfgVal) (statusUpdate : Bool) (kind : String) (v : CfgVal) : String :=
  if controlled kind then
    (if statusUpdate then v.status else match old with | some e => e.val.status | none => "")
  else v.status

/-- the write of `ensureConfigEntryTxn` once the entry is admitted: ModifyIndex is always idx,
    CreateIndex is inherited; the `config-entries` index entry is raised to idx. -/
def cfgWrite (s : State) (i : Nat) (statusUpdate : Bool) (k : String × String) (v : CfgVal) : State :=
  let old := tget s.cfgs k
  { s with cfgs := tput s.cfgs k (stamp old i ⟨v.val, cfgStatus old statusUpdate k.1 v, v.flag⟩)
           idx := imax s.idx "config-entries" i }

/-- the mesh config entry allows switching a service to permissive mutual TLS -/
def meshAllowsPermissive (cfgs : Tab (String × String) CfgVal) : Bool :=
  match tget cfgs ("mesh", "mesh") with
  | some e => e.val.flag
  | none => false

/-- `validateProposedConfigEntryInGraph` for the modelled kinds: why an upsert is refused.
    * service-defaults: *changing* to MutualTLSMode=permissive needs the mesh entry's consent
      (`checkMutualTLSMode`);
    * ingress gateway / terminating gateway: the name must not be taken by the other gateway kind
      (`checkGatewayClash`);
    * service-splitter: every service of the modelled universe speaks tcp, which "does not permit
      advanced routing or splitting behavior" (`validateProposedConfigEntryInServiceGraph`). -/
def cfgRefused (s : State) (k : String × String) (v : CfgVal) : Option Err :=
  if k.1 = "service-defaults" then
    let oldPermissive := match tget s.cfgs k with | some e => e.val.flag | none => false
    if v.flag && !oldPermissive && !meshAllowsPermissive s.cfgs then some .cfgMtls else none
  else if k.1 = "ingress-gateway" then
    if tget s.cfgs ("terminating-gateway", k.2) ≠ none then some .cfgGatewayClash else none
  else if k.1 = "terminating-gateway" then
    if tget s.cfgs ("ingress-gateway", k.2) ≠ none then some .cfgGatewayClash else none
  else if k.1 = "service-splitter" then some .cfgGraph
  else none

/-- `ensureConfigEntryTxn(tx, idx, statusUpdate, conf)`: a refused entry aborts the transaction -/
def cfgEnsure (s : State) (i : Nat) (statusUpdate : Bool) (k : String × String) (v : CfgVal) : Except Err State :=
  match cfgRefused s k v with
  | some e => .error e
  | none => .ok (cfgWrite s i statusUpdate k v)

/-- `deleteConfigEntryTxn` -/
def cfgDelete (s : State) (i : Nat) (k : String × String) : State :=
  match tget s.cfgs k with
  | none => s
  | some _ => { s with cfgs := tdel s.cfgs k, idx := iset s.idx "config-entries" i }

/-- `EnsureConfigEntryCAS` / `EnsureConfigEntryWithStatusCAS` -/
def cfgCas (s : State) (i : Nat) (statusUpdate : Bool) (k : String × String) (v : CfgVal) (cidx : Nat) : Out :=
  if setCasFails (tget s.cfgs k) cidx then ⟨s, .ok false⟩
  else match cfgEnsure s i statusUpdate k v with
    | .ok s' => ⟨s', .ok true⟩
    | .error e => ⟨s, .err e⟩

/-- `DeleteConfigEntryCAS` -/
def cfgDeleteCas (s : State) (i : Nat) (k : String × String) (cidx : Nat) : Out :=
  match tget s.cfgs k with
  | none => ⟨s, .ok false⟩
  | some e => if e.modify ≠ cidx then ⟨s, .ok false⟩ else ⟨cfgDelete s i k, .ok true⟩

/-! ## Connect CA -/

/-- `caSetConfigTxn`: an empty ClusterID keeps the stored one. No index-table entry. -/
def caSet (s : State) (i : Nat) (v : CaVal) : State :=
  match s.caConfig with
  | some e =>
    { s with caConfig := some ⟨⟨v.provider, if v.cluster = "" then e.val.cluster else v.cluster⟩, e.create, i⟩ }
  | none => { s with caConfig := some ⟨v, i, i⟩ }

/-- the comparison of `CACheckAndSetConfig`: `true` = "ModifyIndex did not match existing" -/
def caConfigMismatch (c : Cell CaVal) (cidx : Nat) : Bool :=
  match c with
  | some e => decide (e.modify ≠ cidx)
  | none => decide (cidx ≠ 0)

/-- `CACheckAndSetConfig`: mismatch is an *error*. -/
def caConfigCas (s : State) (i : Nat) (v : CaVal) (cidx : Nat) : Out :=
  if caConfigMismatch s.caConfig cidx then ⟨s, .err .casMismatch⟩ else ⟨caSet s i v, .ok true⟩

abbrev RootReq := String × RootVal     -- (ID, content)

/-- the table written by a matching `caRootSetCASAppliedTxn`: delete all, insert every root of the
    request in order (a later duplicate ID replaces an earlier one), CreateIndex inherited by ID. -/
def rootsInsert (old : Tab String RootVal) (i : Nat) : List RootReq → Tab String RootVal → Tab String RootVal
  | [], acc => acc
  | (id, v) :: rs, acc => rootsInsert old i rs (tput acc id (stamp (tget old id) i v))

def rootsWrite (s : State) (i : Nat) (rs : List RootReq) : State :=
  { s with roots := rootsInsert s.roots i rs [], idx := iset s.idx "connect-ca-roots" i }

/-- the root the table will hold for an ID: the LAST one listed (`lastByID`; inserts overwrite) -/
def lastLookup : List RootReq → String → Option RootVal
  | [], _ => none
  | (k, v) :: rs, id =>
    match lastLookup rs id with
    | some x => some x
    | none => if k = id then some v else none

/-- number of active roots the table will hold: one vote per distinct ID, cast by its last entry -/
def activeCount (rs : List RootReq) : Nat :=
  ((rs.map (·.1)).eraseDups.filter (fun id => match lastLookup rs id with | some v => v.active | none => false)).length

/-- `caRootSetCASAppliedTxn` on the open transaction: `(applied, err)` with the working state.
    Order of the checks as in the code: active count, index, empty ID. -/
def rootsCasTxn (s : State) (i : Nat) (cidx : Nat) (rs : List RootReq) : Except Err (Bool × State) :=
  if activeCount rs ≠ 1 then .error .rootsActive
  else if imaxIndex s.idx "connect-ca-roots" ≠ cidx then .ok (false, s)
  else if rs.any (fun r => r.1 = "") then .error .missingRootId
  else .ok (true, rootsWrite s i rs)

/-- `CARootSetCAS` -/
def caRootsCas (s : State) (i : Nat) (cidx : Nat) (rs : List RootReq) : Out :=
  match rootsCasTxn s i cidx rs with
  | .error e => ⟨s, .err e⟩
  | .ok (false, _) => ⟨s, .ok false⟩
  | .ok (true, s') => ⟨s', .ok true⟩

/-- `CARootSetCASAndCheckAndSetConfig`: both conditional writes in ONE write transaction. -/
def caRootsAndConfig (s : State) (i : Nat) (rcidx : Nat) (rs : List RootReq) (ccidx : Nat) (v : CaVal) : Out :=
  match rootsCasTxn s i rcidx rs with
  | .error e => ⟨s, .err e⟩
  | .ok (false, _) => ⟨s, .ok false⟩
  | .ok (true, s') =>
    if caConfigMismatch s'.caConfig ccidx then ⟨s, .err .casMismatch⟩   -- tx.Abort(): roots discarded
    else ⟨caSet s' i v, .ok true⟩

/-! ## Autopilot -/

def apSet (s : State) (i : Nat) (v : Nat) : State := { s with autopilot := some (stamp s.autopilot i v) }

/-- `AutopilotCASConfig`: an absent config never matches (`!ok`). -/
def apCas (s : State) (i : Nat) (v : Nat) (cidx : Nat) : Out :=
  match s.autopilot with
  | none => ⟨s, .ok false⟩
  | some e => if e.modify ≠ cidx then ⟨s, .ok false⟩ else ⟨apSet s i v, .ok true⟩

/-! ## Feature gates -/

/-- `FeatureGateUpdate`: two expected indexes, one transaction. -/
def fgUpdate (s : State) (i : Nat) (pol : Option String) (st : Option String) (expP expS : Nat) : Out :=
  match st with
  | none => ⟨s, .err .fgNoStatus⟩
  | some digest =>
    if modOf s.fgPolicy ≠ expP ∨ modOf s.fgStatus ≠ expS then ⟨s, .ok false⟩
    else match pol with
      | some p =>
        ⟨{ s with fgPolicy := some (stamp s.fgPolicy i p), fgStatus := some (stamp s.fgStatus i ⟨digest, i⟩) }, .ok true⟩
      | none =>
        if s.fgPolicy = none then ⟨s, .err .fgNoPolicy⟩
        else ⟨{ s with fgStatus := some (stamp s.fgStatus i ⟨digest, expP⟩) }, .ok true⟩

/-! ## ACL tokens -/

structure TokReq where
  accessor : String
  secret   : String
  desc     : String
  modify   : Nat        -- the ModifyIndex carried by the request (the CAS index)
deriving DecidableEq, Repr

/-- `aclTokenSetTxn`: with `opts.CAS` a failed comparison is a *silent* no-op (`return nil`). -/
def tokSetOne (s : State) (i : Nat) (cas : Bool) (t : TokReq) : Except Err State :=
  if t.secret = "" then .error .tokNoSecret
  else if t.accessor = "" then .error .tokNoAccessor
  else
    let original := tget s.toks t.accessor
    if cas ∧ setCasFails original t.modify then .ok s
    else match original with
      | some e =>
        if t.secret ≠ e.val.secret then .error .tokSecretImmutable
        else .ok { s with toks := tput s.toks t.accessor ⟨⟨t.secret, t.desc⟩, e.create, i⟩
                          idx := imax s.idx "acl-tokens" i }
      | none =>
        .ok { s with toks := tput s.toks t.accessor ⟨⟨t.secret, t.desc⟩, i, i⟩
                     idx := imax s.idx "acl-tokens" i }

def tokLoop (w : State) (i : Nat) (cas : Bool) : List TokReq → Except Err State
  | [] => .ok w
  | t :: ts => match tokSetOne w i cas t with
    | .ok w' => tokLoop w' i cas ts
    | .error e => .error e

/-- `ACLTokenBatchSet` -/
def tokBatchSet (s : State) (i : Nat) (cas : Bool) (ts : List TokReq) : Out :=
  match tokLoop s i cas ts with
  | .ok w => ⟨w, .unit⟩
  | .error e => ⟨s, .err e⟩

def tokDeleteOne (s : State) (i : Nat) (acc : String) : State :=
  match tget s.toks acc with
  | none => s
  | some _ => { s with toks := tdel s.toks acc, idx := imax s.idx "acl-tokens" i }

/-- `ACLTokenBatchDelete` -/
def tokBatchDelete (s : State) (i : Nat) (accs : List String) : State :=
  accs.foldl (fun w a => tokDeleteOne w i a) s

/-- `ACLBootstrap(idx, resetIndex, token)`: allowed when the cluster was never bootstrapped (no
    `acl-token-bootstrap` entry — the reset index is then ignored), or when the supplied reset
    index is non-zero and equals the entry; the token is written by `aclTokenSetTxn` without CAS
    and the entry is set to idx. -/
def tokBootstrap (s : State) (i : Nat) (reset : Nat) (t : TokReq) : Out :=
  let go : Out := match tokSetOne s i false t with
    | .ok w => ⟨{ w with idx := iset w.idx "acl-token-bootstrap" i }, .unit⟩
    | .error e => ⟨s, .err e⟩
  match iget s.idx "acl-token-bootstrap" with
  | some v =>
    if reset = 0 then ⟨s, .err .bootstrapNotAllowed⟩
    else if reset ≠ v then ⟨s, .err .bootstrapInvalidReset⟩
    else go
  | none => go

/-! ## Commands: the Store API and the FSM (raft command) layer -/

inductive Cmd
  | kvSet (k : String) (v : KVal) | kvDelete (k : String)
  | kvCas (k : String) (v : KVal) (cidx : Nat) | kvDeleteCas (k : String) (cidx : Nat)
  | txn (ops : List TOp)
  | cfgSet (k : String × String) (v : CfgVal) | cfgDelete (k : String × String)
  | cfgCas (k : String × String) (v : CfgVal) (cidx : Nat)
  | cfgStatusCas (k : String × String) (v : CfgVal) (cidx : Nat)
  | cfgDeleteCas (k : String × String) (cidx : Nat)
  | caSet (v : CaVal) | caCas (v : CaVal) (cidx : Nat)
  | rootsCas (cidx : Nat) (rs : List RootReq)
  | rootsAndConfig (rcidx : Nat) (rs : List RootReq) (ccidx : Nat) (v : CaVal)
  | apSet (v : Nat) | apCas (v : Nat) (cidx : Nat)
  | fg (pol st : Option String) (expP expS : Nat)
  | tokSet (cas : Bool) (ts : List TokReq) | tokDelete (accs : List String)
  | kvLock (k : String) (v : KVal) | kvUnlock (k : String) (v : KVal)
  | sessCreate (id node behavior : String) | sessDestroy (id : String)
  | tokBootstrap (reset : Nat) (t : TokReq)
deriving DecidableEq, Repr

/-- the `state.Store` method of each command, at raft index `i` -/
def storeApply (s : State) (i : Nat) : Cmd → Out
  | .kvSet k v => ⟨kvSet s i k v, .unit⟩
  | .kvDelete k => ⟨kvDelete s i k, .unit⟩
  | .kvCas k v c => kvCas s i k v c
  | .kvDeleteCas k c => kvDeleteCas s i k c
  | .txn ops => txn s i ops
  | .cfgSet k v => match cfgEnsure s i false k v with | .ok s' => ⟨s', .unit⟩ | .error e => ⟨s, .err e⟩
  | .cfgDelete k => ⟨cfgDelete s i k, .unit⟩
  | .cfgCas k v c => cfgCas s i false k v c
  | .cfgStatusCas k v c => cfgCas s i true k v c
  | .cfgDeleteCas k c => cfgDeleteCas s i k c
  | .caSet v => ⟨caSet s i v, .unit⟩
  | .caCas v c => caConfigCas s i v c
  | .rootsCas c rs => caRootsCas s i c rs
  | .rootsAndConfig rc rs cc v => caRootsAndConfig s i rc rs cc v
  | .apSet v => ⟨apSet s i v, .unit⟩
  | .apCas v c => apCas s i v c
  | .fg p st ep es => fgUpdate s i p st ep es
  | .tokSet cas ts => tokBatchSet s i cas ts
  | .tokDelete accs => ⟨tokBatchDelete s i accs, .unit⟩
  | .kvLock k v => kvLock s i k v
  | .kvUnlock k v => kvUnlock s i k v
  | .sessCreate id n b => match sessCreate s i id n b with | .ok s' => ⟨s', .unit⟩ | .error e => ⟨s, .err e⟩
  | .sessDestroy id => ⟨sessDelete s i id, .unit⟩
  | .tokBootstrap r t => tokBootstrap s i r t

/-- the raft command handler of each command (`fsm/commands_ce.go`).  It is the Store method
    except that (a) `ConfigEntryUpsert` answers `true`, and (b) `CAOpSetConfig` decides between the
    conditional and the unconditional write by `Config.ModifyIndex != 0`. -/
def fsmApply (s : State) (i : Nat) : Cmd → Out
  | .cfgSet k v => match cfgEnsure s i false k v with | .ok s' => ⟨s', .ok true⟩ | .error e => ⟨s, .err e⟩
  | .caCas v c => if c ≠ 0 then caConfigCas s i v c else ⟨caSet s i v, .unit⟩
  | c => storeApply s i c

end CV.Cas
