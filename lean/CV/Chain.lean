/-
CV.Chain — model of discovery-chain compilation (property C15).

Mirrors (consul CE: `acl.EnterpriseMeta` is empty, so a `structs.ServiceID` is just the service name and
every `NamespaceOrDefault()/PartitionOrDefault()` is the literal "default")
  * agent/consul/discoverychain/compile.go   `Compile`, `compiler.compile`, `assembleChain`,
        `getSplitterOrResolverNode`, `getSplitterNode` (memo `splitterNodes` recorded BEFORE recursing),
        `getResolverNode` (loop `RESOLVE_AGAIN` guarded by `redirectHistory`, default-subset rewrite,
        subset existence, external-SNI checks, target decoration, failover through the one-level
        `getResolverNode(…, true)`), `newTarget` (memo `loadedTargets` keyed by the *ID string*),
        `rewriteTarget`, `recordProtocol`, `detectCircularReferences`, `flattenAdjacentSplitterNodes`
        (repaired version: node keys visited in sorted order; float32 weights rounded per absorption),
        `removeUnusedNodes`, `determineIfDefaultChain`, protocol / override handling
  * agent/structs/discovery_chain.go          `ChainID`, `MapKey`, node / target shapes
  * agent/structs/config_entry_discoverychain.go  `SubsetExists`, `IsDefault`, `ListRelatedServices`,
        `NormalizeServiceSplitWeight` / `scaleWeight`
  * agent/consul/state/config_entry.go        `ensureConfigEntryTxn` / `deleteConfigEntryTxn` →
        `validateProposedConfigEntryInServiceGraph` (chains to re-check via the link index, speculative
        compile with the override), `readDiscoveryChainConfigEntriesTxn` (`gather`) — end of this file

NOT modelled (generator restrictions or opaque pass-through, see DESIGN §5 C15 and the final report):
sameness groups (rejected by CE validation), `PrioritizeByLocality`, failover policies, envoy extensions,
service meta, virtual IPs, peer locality, HTTP header modifiers in `MergeParent` (the split definition is
carried as (service, subset) of the innermost split), the customization *hash* (only "is customized"),
the default SNI / target name strings (only the external-SNI override), `TransparentProxy`.

State threading: the compiler's maps only ever grow; Go pointer mutation becomes value return.
`splitterNodes` (the memo that makes the splitter recursion finite) is threaded as an explicit list of
marks whose *increment* is returned, so that "marks only grow" is visible in the definition itself.

Core-only Lean; no Mathlib. No fuel anywhere in assembly: termination of the splitter recursion and of
the redirect loop is proved (`termination_by` / `decreasing_by`) from the memo / `redirectHistory`.
-/
import CV.Proto
set_option linter.unusedVariables false
namespace CV.Chain

/-! ### association lists (Go maps; keys unique on the Go side) -/

def alook {α : Type} (k : String) : List (String × α) → Option α
  | [] => none
  | (a, v) :: r => if a = k then some v else alook k r

def akeys {α : Type} (l : List (String × α)) : List String := l.map (·.1)

def aset {α : Type} (k : String) (v : α) : List (String × α) → List (String × α)
  | [] => [(k, v)]
  | (a, w) :: r => if a = k then (a, v) :: r else (a, w) :: aset k v r

theorem alook_mem {α : Type} {k : String} {v : α} : ∀ {l : List (String × α)}, alook k l = some v → (k, v) ∈ l
  | [], h => by simp [alook] at h
  | (a, w) :: r, h => by
    unfold alook at h
    split at h
    · rename_i hk; cases h; subst hk; exact List.mem_cons_self
    · exact List.mem_cons_of_mem _ (alook_mem h)

theorem alook_key_mem {α : Type} {k : String} {v : α} {l : List (String × α)} (h : alook k l = some v) :
    k ∈ akeys l := List.mem_map.mpr ⟨(k, v), alook_mem h, rfl⟩

/-! ### inputs -/

/-- `structs.DiscoveryTarget` identity fields = `structs.DiscoveryTargetOpts` -/
structure Target where
  svc    : String := ""
  subset : String := ""
  ns     : String := ""
  part   : String := ""
  dc     : String := ""
  peer   : String := ""
deriving DecidableEq, Repr, Inhabited

abbrev Opts := Target

/-- `structs.ChainID` -/
def Target.id (t : Target) : String :=
  if t.peer ≠ "" then t.svc ++ "." ++ t.ns ++ "." ++ t.part ++ ".external." ++ t.peer
  else if t.subset = "" then t.svc ++ "." ++ t.ns ++ "." ++ t.part ++ "." ++ t.dc
  else t.subset ++ "." ++ t.svc ++ "." ++ t.ns ++ "." ++ t.part ++ "." ++ t.dc

/-- a `ServiceRoute`: the match is carried as an opaque tag (`Match.HTTP.PathPrefix`);
    a nil destination is the all-empty destination -/
structure Route where
  pfx  : String
  dest : Opts
deriving DecidableEq, Repr

/-- a `ServiceSplit`; weight in integer hundredths of a percent (normalised weights are exactly the
    float32 values nearest to k/100). Namespace / partition of a split are ignored by CE. -/
structure Split where
  weight : Nat
  svc    : String
  subset : String
deriving DecidableEq, Repr

structure Failover where
  svc     : String := ""
  subset  : String := ""
  ns      : String := ""
  dcs     : List String := []
  targets : List Opts := []
deriving DecidableEq, Repr

structure Resolver where
  defaultSubset : String := ""
  subsets  : List (String × Nat) := []       -- name ↦ opaque subset definition
  redirect : Option Opts := none
  failover : List (String × Failover) := []  -- keyed by subset or "*"
  ct       : Nat := 0                        -- ConnectTimeout, seconds (0 = unset)
  rt       : Nat := 0                        -- RequestTimeout, seconds
  lb       : Option String := none           -- LoadBalancer policy (none = nil pointer)
deriving DecidableEq, Repr

/-- the fields of a service-defaults entry the compiler reads -/
structure SvcDef where
  proto  : String := ""
  extSNI : String := ""
  mgw    : String := ""
deriving DecidableEq, Repr

structure ProxyDef where
  proto : String := ""
  mgw   : String := ""
deriving DecidableEq, Repr

/-- `configentry.DiscoveryChainSet` -/
structure Entries where
  routers   : List (String × List Route) := []
  splitters : List (String × List Split) := []
  resolvers : List (String × Resolver) := []
  services  : List (String × SvcDef) := []
  proxy     : Option ProxyDef := none
deriving DecidableEq, Repr

/-- `CompileRequest` minus the entries -/
structure Ctx where
  svc     : String
  ns      : String := "default"
  part    : String := "default"
  dc      : String := "dc1"
  td      : String := "td"
  ovMgw   : String := ""
  ovProto : String := ""
  ovCT    : Nat := 0
deriving DecidableEq, Repr

inductive Err
  | badRequest | protoMismatch | circularRef | circularRedirect | noSubset
  | extRedirect | extSubsets | extFailover | noAdvRouting
  | internal (why : String)      -- a Go panic / "impossible" branch; proved unreachable where claimed
deriving DecidableEq, Repr

/-! ### outputs -/

/-- a compiled split -/
structure CSplit where
  weight : Nat
  next   : String
  dsvc   : String      -- Definition.Service
  dsub   : String      -- Definition.ServiceSubset
deriving DecidableEq, Repr

inductive Node
  | router   (routes : List (String × String))                      -- (match tag, NextNode)
  | splitter (splits : List CSplit) (lb : Option String)
  | resolver (isDefault : Bool) (ct rt : Nat) (target : String) (failover : List String) (lb : Option String)
deriving DecidableEq, Repr

/-- `NextNode`s of a node -/
def Node.next : Node → List String
  | .router rs => rs.map (·.2)
  | .splitter ss _ => ss.map (·.next)
  | .resolver .. => []

def Node.isSplitter : Node → Bool
  | .splitter .. => true
  | _ => false

/-- a loaded target with the fields `getResolverNode` mutates on it -/
structure TInfo where
  t        : Target
  ct       : Nat := 0
  external : Bool := false
  sni      : String := ""     -- only the external-SNI override is modelled
  mgw      : String := ""
  subsetDef : Nat := 0
deriving DecidableEq, Repr

structure Chain where
  proto      : String
  start      : String
  isDefault  : Bool
  customized : Bool
  nodes      : List (String × Node)
  targets    : List (String × TInfo)
deriving DecidableEq, Repr

/-! ### compiler state -/

structure St where
  nodes    : List (String × Node) := []           -- c.nodes
  rmemo    : List (String × Option String) := []  -- c.resolveNodes: target ID ↦ LoadBalancer of the node
  loaded   : List (String × TInfo) := []          -- c.loadedTargets
  retained : List String := []                    -- c.retainedTargets
  proto    : String := ""                         -- c.protocol ("" = not yet recorded)
  adv      : Bool := false                        -- c.usesAdvancedRoutingFeatures
  custProto : Bool := false
  custMgw   : Bool := false
  custCT    : Bool := false
deriving Repr, DecidableEq

def dflt (v d : String) : String := if v ≠ "" then v else d

/-- ASCII lower-casing (`strings.ToLower` on the protocols the generators emit) -/
def lower (s : String) : String := s.map Char.toLower

def httpLike (p : String) : Bool := p = "http" || p = "http2" || p = "grpc"

def disableAdv (cx : Ctx) : Bool := cx.ovProto ≠ "" && !httpLike cx.ovProto

/-- `newTarget` up to the memo: defaulting of the fields -/
def mkTarget (cx : Ctx) (o : Opts) : Target :=
  if o.peer = "" then
    { o with dc := dflt o.dc cx.dc, ns := dflt o.ns cx.ns, part := dflt o.part cx.part }
  else
    { o with dc := "", part := "default", ns := "default" }

/-- `newTarget`: returns the previously loaded target when the ID string is already known -/
def newTarget (cx : Ctx) (st : St) (o : Opts) : St × Target :=
  let t := mkTarget cx o
  match alook t.id st.loaded with
  | some prev => (st, prev.t)
  | none => ({ st with loaded := st.loaded ++ [(t.id, { t := t })] }, t)

/-- `rewriteTarget` up to the final `newTarget` -/
def rewrite (t : Target) (o : Opts) : Opts :=
  let other := o.svc ≠ "" && o.svc ≠ t.svc
  let svc := if other then o.svc else t.svc
  let sub0 := if other then "" else t.subset
  { svc := svc
    subset := if o.subset ≠ "" then o.subset else sub0
    part := if o.part ≠ "" then o.part else t.part
    ns := if o.ns ≠ "" || o.peer ≠ "" then o.ns else t.ns
    dc := if o.dc ≠ "" then o.dc else t.dc
    peer := o.peer }

/-- `recordProtocol`: the new value of `c.protocol` -/
def recordProtocol (cur : String) (p : String) : Except Err String :=
  let p' := if p = "" then "tcp" else lower p
  if cur = "" then .ok p'
  else if cur ≠ p' then .error .protoMismatch
  else .ok cur

/-- `recordServiceProtocol` -/
def recordServiceProtocol (es : Entries) (cur : String) (svc : String) : Except Err String :=
  match alook svc es.services with
  | some sd => recordProtocol cur sd.proto
  | none =>
    match es.proxy with
    | some pd => recordProtocol cur pd.proto
    | none => recordProtocol cur ""

/-- `c.resolvers[sid]` with defaults materialised on demand (`newDefaultServiceResolver`; no default
    sameness group in CE, so the materialised entry is the empty resolver) -/
def getResolver (es : Entries) (svc : String) : Resolver :=
  match alook svc es.resolvers with
  | some r => r
  | none => {}

def Resolver.subsetExists (r : Resolver) (name : String) : Bool :=
  name = "" || (alook name r.subsets).isSome

def Resolver.isDefault (r : Resolver) : Bool :=
  r.defaultSubset = "" && r.subsets.isEmpty && r.redirect.isNone && r.failover.isEmpty &&
  r.ct = 0 && r.rt = 0 && r.lb.isNone

/-! ### the redirect loop and its termination argument

`redirectHistory` only helps because every target the loop can ever see is drawn from a finite set:
each field of a rewritten target is either kept, or defaulted from the request, or copied from a
redirect / default subset of some resolver entry, or (when `newTarget` hits its memo) a field of an
already loaded target. `vals` collects all those strings; `allTargets vals` is the finite universe;
the measure is the number of universe members not yet in the history. -/

def Target.fields (t : Target) : List String := [t.svc, t.subset, t.ns, t.part, t.dc, t.peer]

def resolverVals (r : Resolver) : List String :=
  r.defaultSubset :: (match r.redirect with | some o => o.fields | none => [])

def mkVals (es : Entries) (cx : Ctx) (st : St) (t : Target) : List String :=
  ["", "default", cx.ns, cx.part, cx.dc] ++ t.fields ++ st.loaded.flatMap (fun x => x.2.t.fields)
    ++ es.resolvers.flatMap (fun x => resolverVals x.2)

def allTargets (vals : List String) : List Target :=
  vals.flatMap fun a => vals.flatMap fun b => vals.flatMap fun c => vals.flatMap fun d =>
    vals.flatMap fun e => vals.map fun f => ⟨a, b, c, d, e, f⟩

def InU (vals : List String) (t : Target) : Prop := ∀ f ∈ t.fields, f ∈ vals

def LoadedIn (vals : List String) (st : St) : Prop := ∀ x ∈ st.loaded, InU vals x.2.t

theorem mem_allTargets {vals : List String} {t : Target} (h : InU vals t) : t ∈ allTargets vals := by
  obtain ⟨a, b, c, d, e, f⟩ := t
  simp only [InU, Target.fields, List.mem_cons, List.not_mem_nil, or_false, forall_eq_or_imp, forall_eq] at h
  simp only [allTargets, List.mem_flatMap, List.mem_map]
  exact ⟨a, h.1, b, h.2.1, c, h.2.2.1, d, h.2.2.2.1, e, h.2.2.2.2.1, f, h.2.2.2.2.2, rfl⟩

/-- number of members of the finite universe `u` not yet in `seen` (the measure of every memoised walk here) -/
def unseen {α : Type} [DecidableEq α] (u seen : List α) : Nat := u.countP fun x => !seen.contains x

theorem countP_lt {α : Type} (p q : α → Bool) (l : List α) (t : α) (hpq : ∀ x, p x = true → q x = true)
    (ht : t ∈ l) (hq : q t = true) (hp : p t = false) : l.countP p < l.countP q := by
  induction l with
  | nil => cases ht
  | cons x xs ih =>
    have hle : xs.countP p ≤ xs.countP q := List.countP_mono_left (fun x _ => hpq x)
    simp only [List.countP_cons]
    by_cases hx : x = t
    · subst hx; simp [hq, hp]; omega
    · have : t ∈ xs := by
        cases ht with
        | head => exact absurd rfl hx
        | tail _ h => exact h
      have := ih this
      by_cases h1 : p x = true
      · simp [h1, hpq x h1]; omega
      · by_cases h2 : q x = true
        · simp [h1, h2]; omega
        · simp [h1, h2]; omega

theorem unseen_lt {α : Type} [DecidableEq α] {u seen : List α} {t : α} (hu : t ∈ u) (hh : t ∉ seen) :
    unseen u (t :: seen) < unseen u seen := by
  unfold unseen
  apply countP_lt _ _ u t _ hu
  · simpa using hh
  · simp
  · intro x; simp only [List.contains_cons, Bool.not_or, Bool.and_eq_true]; exact fun h => h.2

theorem unseen_append_le {α : Type} [DecidableEq α] (u d seen : List α) : unseen u (d ++ seen) ≤ unseen u seen := by
  unfold unseen
  apply List.countP_mono_left
  intro x _; simp only [List.contains_eq_mem, List.mem_append, Bool.not_eq_eq_eq_not, Bool.not_true,
    decide_eq_false_iff_not, not_or]
  intro h; simpa using h.2

theorem inU_mkTarget_rewrite {vals : List String} {cx : Ctx} {t : Target} {o : Opts}
    (hb : ∀ f ∈ ["", "default", cx.ns, cx.part, cx.dc], f ∈ vals) (ht : InU vals t) (ho : InU vals o) :
    InU vals (mkTarget cx (rewrite t o)) := by
  simp only [InU, Target.fields, List.mem_cons, List.not_mem_nil, or_false, forall_eq_or_imp, forall_eq] at *
  unfold mkTarget rewrite dflt
  simp only
  split <;> (refine ⟨?_, ?_, ?_, ?_, ?_, ?_⟩ <;> simp only [] <;> repeat' split) <;> simp_all

theorem newTarget_inv {vals : List String} {cx : Ctx} {st : St} {o : Opts}
    (hst : LoadedIn vals st) (ho : InU vals (mkTarget cx o)) :
    LoadedIn vals (newTarget cx st o).1 ∧ InU vals (newTarget cx st o).2 := by
  unfold newTarget
  simp only
  split
  · rename_i prev hp
    exact ⟨hst, hst _ (alook_mem hp)⟩
  · refine ⟨?_, ho⟩
    intro x hx
    simp only [List.mem_append, List.mem_singleton] at hx
    rcases hx with hx | hx
    · exact hst x hx
    · subst hx; exact ho

theorem hist_not_mem {hist : List Target} {t : Target} (h : (hist.any fun x => x.id == t.id) = false) : t ∉ hist := by
  intro hm
  have : (hist.any fun x => x.id == t.id) = true := List.any_eq_true.mpr ⟨t, hm, by simp⟩
  rw [h] at this; cases this

theorem vals_base (es : Entries) (cx : Ctx) (st : St) (t : Target) :
    ∀ f ∈ ["", "default", cx.ns, cx.part, cx.dc], f ∈ mkVals es cx st t := by
  intro f hf; unfold mkVals; simp only [List.append_assoc, List.mem_append]; exact Or.inl hf

theorem vals_t (es : Entries) (cx : Ctx) (st : St) (t : Target) : InU (mkVals es cx st t) t := by
  intro f hf; unfold mkVals; simp only [List.mem_append]; exact Or.inl (Or.inl (Or.inr hf))

theorem vals_loaded (es : Entries) (cx : Ctx) (st : St) (t : Target) : LoadedIn (mkVals es cx st t) st := by
  intro x hx f hf; unfold mkVals; simp only [List.mem_append, List.mem_flatMap]
  exact Or.inl (Or.inr ⟨x, hx, hf⟩)

theorem vals_resolver (es : Entries) (cx : Ctx) (st : St) (t : Target) (svc : String) :
    ∀ f ∈ resolverVals (getResolver es svc), f ∈ mkVals es cx st t := by
  intro f hf
  unfold getResolver at hf
  split at hf
  · rename_i r hr
    unfold mkVals; simp only [List.mem_append, List.mem_flatMap]
    exact Or.inr ⟨(svc, r), alook_mem hr, hf⟩
  · simp only [resolverVals, List.mem_cons, List.not_mem_nil, or_false] at hf
    subst hf
    exact vals_base es cx st t _ (by simp)

theorem inU_redirect {vals : List String} {r : Resolver} {o : Opts}
    (hv : ∀ f ∈ resolverVals r, f ∈ vals) (h : r.redirect = some o) : InU vals o := by
  intro f hf; apply hv; simp [resolverVals, h, hf]

theorem inU_defaultSubset {vals : List String} {r : Resolver}
    (hb : "" ∈ vals) (hv : ∀ f ∈ resolverVals r, f ∈ vals) : InU vals { subset := r.defaultSubset } := by
  intro f hf
  simp only [Target.fields, List.mem_cons, List.not_mem_nil, or_false] at hf
  rcases hf with h | h | h | h | h | h <;> subst h <;> first | exact hb | exact hv _ (by simp [resolverVals])



/-- the `Redirect` step of one loop iteration: the state after `rewriteTarget` and, when the
    redirected target has a different ID, the target to resolve next -/
def redirectStep (cx : Ctx) (st : St) (t : Target) (r : Resolver) : St × Option Target :=
  match r.redirect with
  | some o =>
    let nt := newTarget cx st (rewrite t o)
    if nt.2.id ≠ t.id then (nt.1, some nt.2) else (nt.1, none)
  | none => (st, none)

/-- the `DefaultSubset` step: unconditional `goto RESOLVE_AGAIN` with the rewritten target -/
def subsetStep (cx : Ctx) (st : St) (t : Target) (r : Resolver) : Option (St × Target) :=
  if t.subset = "" ∧ r.defaultSubset ≠ "" then
    some (newTarget cx st (rewrite t { subset := r.defaultSubset }))
  else none

theorem redirectStep_inv {vals : List String} {cx : Ctx} {st : St} {t : Target} {r : Resolver}
    (hb : ∀ f ∈ ["", "default", cx.ns, cx.part, cx.dc], f ∈ vals) (hr : ∀ f ∈ resolverVals r, f ∈ vals)
    (hst : LoadedIn vals st) (ht : InU vals t) :
    LoadedIn vals (redirectStep cx st t r).1 ∧ ∀ t2, (redirectStep cx st t r).2 = some t2 → InU vals t2 := by
  unfold redirectStep
  split
  · rename_i o ho
    have hn := newTarget_inv (cx := cx) (o := rewrite t o) hst (inU_mkTarget_rewrite hb ht (inU_redirect hr ho))
    simp only
    split
    · exact ⟨hn.1, fun t2 h => by cases h; exact hn.2⟩
    · exact ⟨hn.1, fun t2 h => by cases h⟩
  · exact ⟨hst, fun t2 h => by cases h⟩

theorem subsetStep_inv {vals : List String} {cx : Ctx} {st : St} {t : Target} {r : Resolver} {st' : St} {t' : Target}
    (hb : ∀ f ∈ ["", "default", cx.ns, cx.part, cx.dc], f ∈ vals) (hr : ∀ f ∈ resolverVals r, f ∈ vals)
    (hst : LoadedIn vals st) (ht : InU vals t) (h : subsetStep cx st t r = some (st', t')) :
    LoadedIn vals st' ∧ InU vals t' := by
  unfold subsetStep at h
  split at h
  · have hn := newTarget_inv (cx := cx) (o := rewrite t { subset := r.defaultSubset }) hst
      (inU_mkTarget_rewrite hb ht (inU_defaultSubset (hb _ (by simp)) hr))
    have e := Option.some.inj h
    rw [e] at hn; exact hn
  · cases h

/-- outcome of the `RESOLVE_AGAIN` loop -/
inductive LoopOut
  | memo  (id : String) (lb : Option String)     -- `c.resolveNodes[target.ID]` hit
  | fresh (t : Target) (r : Resolver)            -- fall through to the node construction
deriving Repr

/-- The loop `RESOLVE_AGAIN` of `getResolverNode`, up to (not including) the subset-existence check.
    `hist` is `redirectHistory` (most recent first). `st0`/`t0` are the state and target at loop entry;
    they and the two proofs only feed the termination argument (erased at run time). -/
def resolveLoop (es : Entries) (cx : Ctx) (st0 : St) (t0 : Target) (st : St) (hist : List Target) (t : Target)
    (hst : LoadedIn (mkVals es cx st0 t0) st) (ht : InU (mkVals es cx st0 t0) t) : Except Err (St × LoopOut) :=
  match alook t.id st.rmemo with
  | some lb => .ok (st, .memo t.id lb)
  | none =>
    -- only validate the protocol of non-peered services
    match (if t.peer = "" then recordServiceProtocol es st.proto t.svc else .ok st.proto) with
    | .error e => .error e
    | .ok p =>
      if hh : (hist.any fun x => x.id == t.id) = true then .error .circularRedirect
      else
        match h1 : redirectStep cx { st with proto := p } t (getResolver es t.svc) with
        | (st2, some t2) =>
          have hi := redirectStep_inv (st := { st with proto := p }) (t := t) (vals_base es cx st0 t0)
            (vals_resolver es cx st0 t0 t.svc) hst ht
          resolveLoop es cx st0 t0 st2 (t :: hist) t2 (by rw [h1] at hi; exact hi.1) (by rw [h1] at hi; exact hi.2 t2 rfl)
        | (st2, none) =>
          have hi := redirectStep_inv (st := { st with proto := p }) (t := t) (vals_base es cx st0 t0)
            (vals_resolver es cx st0 t0 t.svc) hst ht
          match h2 : subsetStep cx st2 t (getResolver es t.svc) with
          | some (st3, t3) =>
            have hj := subsetStep_inv (vals_base es cx st0 t0) (vals_resolver es cx st0 t0 t.svc)
              (by rw [h1] at hi; exact hi.1) ht h2
            resolveLoop es cx st0 t0 st3 (t :: hist) t3 hj.1 hj.2
          | none => .ok (st2, .fresh t (getResolver es t.svc))
termination_by unseen (allTargets (mkVals es cx st0 t0)) hist
decreasing_by
  all_goals exact unseen_lt (mem_allTargets ht) (hist_not_mem (by simpa using hh))

/-! ### building the resolver node (the straight-line rest of `getResolverNode`) -/

/-- what `getResolverNode` hands back to its callers: `node.Resolver.Target` (= node name) and
    `node.LoadBalancer` -/
structure RNode where
  id : String
  lb : Option String
deriving Repr, DecidableEq

def rkey (id : String) : String := "resolver:" ++ id
/-- `serviceIDString` + `MapKey` for a splitter / router of service `svc` -/
def skey (svc : String) : String := "splitter:" ++ svc ++ ".default.default"
def rtkey (svc : String) : String := "router:" ++ svc ++ ".default.default"

def isHashBased (lb : Option String) : Bool :=
  match lb with
  | some p => p = "maglev" || p = "ring_hash"
  | none => false

/-- the mutations `getResolverNode` applies to the target it ended with (timeouts, subset definition,
    external SNI, mesh-gateway mode), plus whether the connect-timeout / mesh-gateway override took effect -/
def decorate (es : Entries) (cx : Ctx) (st : St) (t : Target) (r : Resolver) : TInfo × Bool × Bool :=
  let ct0 := if r.ct < 1 then 5 else r.ct
  let over := decide (cx.ovCT > 0) && decide (ct0 ≠ cx.ovCT)
  let ct := if over then cx.ovCT else ct0
  -- the *pointer* the loop ended with: the loaded target carrying earlier mutations
  let info0 : TInfo := match alook t.id st.loaded with
    | some i => i
    | none => { t := t }
  let sd := alook t.svc es.services
  let extNow := match sd with
    | some d => decide (d.extSNI ≠ "")
    | none => false
  let ext := info0.external || extNow
  let sni := match sd with
    | some d => if d.extSNI ≠ "" then d.extSNI else info0.sni
    | none => info0.sni
  let mgw1 := match sd with
    | some d => d.mgw
    | none => info0.mgw
  let mgw2 := match es.proxy with
    | some pd => if mgw1 = "" then pd.mgw else mgw1
    | none => mgw1
  let overM := !ext && decide (cx.ovMgw ≠ "") && decide (mgw2 ≠ cx.ovMgw)
  let mgw := if ext then "" else if overM then cx.ovMgw else mgw2
  let sdef := match alook t.subset r.subsets with
    | some d => d
    | none => 0           -- Go map zero value
  ({ info0 with ct := ct, external := ext, sni := sni, mgw := mgw, subsetDef := sdef }, over, overM)

/-- subset check, target decoration, external-SNI restrictions, retain, node construction -/
def finishResolve (es : Entries) (cx : Ctx) (st : St) (t : Target) (r : Resolver) : Except Err (St × Node) :=
  if t.subset ≠ "" && !r.subsetExists t.subset then .error .noSubset
  else
    let d := decorate es cx st t r
    if d.1.external && r.redirect.isSome then .error .extRedirect
    else if d.1.external && !r.subsets.isEmpty then .error .extSubsets
    else if d.1.external && !r.failover.isEmpty then .error .extFailover
    else
      .ok ({ st with loaded := aset t.id d.1 st.loaded, retained := t.id :: st.retained,
                     custCT := st.custCT || d.2.1, custMgw := st.custMgw || d.2.2 },
           .resolver r.isDefault d.1.ct r.rt t.id [] r.lb)

/-- `getResolverNode` up to `recordNode` — shared by the normal and the `recursedForFailover` mode -/
def resolveCore (es : Entries) (cx : Ctx) (st : St) (t : Target) :
    Except Err (St × RNode × Option (Target × Resolver × Node)) :=
  match resolveLoop es cx st t st [] t (vals_loaded es cx st t) (vals_t es cx st t) with
  | .error e => .error e
  | .ok (st1, .memo id lb) => .ok (st1, ⟨id, lb⟩, none)
  | .ok (st1, .fresh t' r) =>
    match finishResolve es cx st1 t' r with
    | .error e => .error e
    | .ok (st2, node) => .ok (st2, ⟨t'.id, r.lb⟩, some (t', r, node))

def sectionOpts (f : Failover) : List Opts :=
  if !f.dcs.isEmpty then f.dcs.map fun dc => { svc := f.svc, subset := f.subset, ns := f.ns, dc := dc }
  else if !f.targets.isEmpty then f.targets
  else [{ svc := f.svc, subset := f.subset, ns := f.ns }]

/-- the rewrite options of the failover section that applies to `t` (subset key, else "*") -/
def failoverOpts (r : Resolver) (t : Target) : List Opts :=
  match alook t.subset r.failover with
  | some f => sectionOpts f
  | none =>
    match alook "*" r.failover with
    | some f => sectionOpts f
    | none => []

/-- `rewriteTarget` for every failover option; "don't failover to yourself" -/
def failoverTargets (cx : Ctx) (st : St) (t : Target) : List Opts → St × List Target
  | [] => (st, [])
  | o :: os =>
    let nt := newTarget cx st (rewrite t o)
    let r := failoverTargets cx nt.1 t os
    (r.1, if nt.2.id ≠ t.id then nt.2 :: r.2 else r.2)

/-- `getResolverNode(target, true)` for each failover target (never recurses further) -/
def failoverResolve (es : Entries) (cx : Ctx) (st : St) : List Target → Except Err (St × List String)
  | [] => .ok (st, [])
  | ft :: rest =>
    match resolveCore es cx st ft with
    | .error e => .error e
    | .ok (st1, rn, _) =>
      match failoverResolve es cx st1 rest with
      | .error e => .error e
      | .ok (st2, ids) => .ok (st2, rn.id :: ids)

def Node.withFailover (n : Node) (ids : List String) : Node :=
  match n with
  | .resolver d ct rt tgt _ lb => .resolver d ct rt tgt ids lb
  | other => other

/-- `getResolverNode(target, false)` -/
def resolverNode (es : Entries) (cx : Ctx) (st : St) (t : Target) : Except Err (St × RNode) :=
  match resolveCore es cx st t with
  | .error e => .error e
  | .ok (st1, rn, none) => .ok (st1, rn)
  | .ok (st1, rn, some (t', r, node)) =>
    -- recordNode before failover: the memo short-circuits failover targets that resolve back here
    let st2 : St := { st1 with rmemo := (t'.id, r.lb) :: st1.rmemo }
    let ft := failoverTargets cx st2 t' (failoverOpts r t')
    match failoverResolve es cx ft.1 ft.2 with
    | .error e => .error e
    | .ok (st4, ids) =>
      .ok ({ st4 with nodes := st4.nodes ++ [(rkey t'.id, node.withFailover ids)] }, rn)

/-! ### splitters: memo recorded before recursing -/

mutual
/-- `getSplitterNode`. `marks` = keys of `c.splitterNodes`; the returned list is the *increment*. -/
def splitterNode (es : Entries) (cx : Ctx) (marks : List String) (st : St) (name : String) :
    Except Err (List String × St × Option String) :=
  if hm : name ∈ marks then .ok ([], st, some (skey name))
  else
    match hs : alook name es.splitters with
    | none => .ok ([], st, none)
    | some splits =>
      if disableAdv cx then .ok ([], { st with custProto := true }, none)
      else
        match splitLoop es cx (name :: marks) st name splits none with
        | .error e => .error e
        | .ok (dm, st1, cs, lb) =>
          .ok (dm ++ [name],
               { st1 with nodes := st1.nodes ++ [(skey name, .splitter cs lb)], adv := true },
               some (skey name))
termination_by (unseen (akeys es.splitters) marks, 0)
decreasing_by
  exact Prod.Lex.left _ _ (unseen_lt (alook_key_mem hs) hm)

/-- the loop over `splitter.Splits` -/
def splitLoop (es : Entries) (cx : Ctx) (marks : List String) (st : St) (name : String)
    (splits : List Split) (lb : Option String) :
    Except Err (List String × St × List CSplit × Option String) :=
  match splits with
  | [] => .ok ([], st, [], lb)
  | s :: rest =>
    let svc := dflt s.svc name
    -- "eligible for additional splitting"
    match (if svc ≠ name ∧ s.subset = "" then splitterNode es cx marks st svc else .ok ([], st, none)) with
    | .error e => .error e
    | .ok (dm1, st1, some key) =>
      match splitLoop es cx (dm1 ++ marks) st1 name rest lb with
      | .error e => .error e
      | .ok (dm2, st2, cs, lb') => .ok (dm2 ++ dm1, st2, ⟨s.weight, key, s.svc, s.subset⟩ :: cs, lb')
    | .ok (dm1, st1, none) =>
      let nt := newTarget cx st1 { svc := svc, subset := s.subset, ns := "default", part := "default" }
      match resolverNode es cx nt.1 nt.2 with
      | .error e => .error e
      | .ok (st2, rn) =>
        let lb1 := if lb.isNone && isHashBased rn.lb then rn.lb else lb
        match splitLoop es cx (dm1 ++ marks) st2 name rest lb1 with
        | .error e => .error e
        | .ok (dm2, st3, cs, lb') => .ok (dm2 ++ dm1, st3, ⟨s.weight, rkey rn.id, s.svc, s.subset⟩ :: cs, lb')
termination_by (unseen (akeys es.splitters) marks, splits.length + 1)
decreasing_by
  · exact Prod.Lex.right _ (by simp)
  · have := unseen_append_le (akeys es.splitters) dm1 marks
    rcases Nat.lt_or_eq_of_le this with h | h
    · exact Prod.Lex.left _ _ h
    · rw [h]; exact Prod.Lex.right _ (by simp)
  · have := unseen_append_le (akeys es.splitters) dm1 marks
    rcases Nat.lt_or_eq_of_le this with h | h
    · exact Prod.Lex.left _ _ h
    · rw [h]; exact Prod.Lex.right _ (by simp)
end

/-- `getSplitterOrResolverNode` -/
def splitterOrResolver (es : Entries) (cx : Ctx) (marks : List String) (st : St) (t : Target) :
    Except Err (List String × St × String) :=
  match splitterNode es cx marks st t.svc with
  | .error e => .error e
  | .ok (dm, st1, some key) => .ok (dm, st1, key)
  | .ok (dm, st1, none) =>
    match resolverNode es cx st1 t with
    | .error e => .error e
    | .ok (st2, rn) => .ok (dm, st2, rkey rn.id)

/-- the loop over `router.Routes` in `assembleChain` -/
def routeLoop (es : Entries) (cx : Ctx) (marks : List String) (st : St) :
    List Route → Except Err (List String × St × List (String × String))
  | [] => .ok ([], st, [])
  | rt :: rest =>
    let svc := dflt rt.dest.svc cx.svc
    let ns := dflt rt.dest.ns "default"
    let part := dflt rt.dest.part "default"
    let nt := newTarget cx st { svc := svc, subset := rt.dest.subset, ns := ns, part := part }
    let r : Except Err (List String × St × String) :=
      if rt.dest.subset = "" then splitterOrResolver es cx marks nt.1 nt.2
      else
        match resolverNode es cx nt.1 nt.2 with
        | .error e => .error e
        | .ok (st2, rn) => .ok ([], st2, rkey rn.id)
    match r with
    | .error e => .error e
    | .ok (dm1, st1, key) =>
      match routeLoop es cx (dm1 ++ marks) st1 rest with
      | .error e => .error e
      | .ok (dm2, st2, rs) => .ok (dm2 ++ dm1, st2, (rt.pfx, key) :: rs)

/-- `assembleChain`: final state and `c.startNode` -/
def assemble (es : Entries) (cx : Ctx) : Except Err (St × String) :=
  match alook cx.svc es.routers with
  | some routes =>
    if disableAdv cx then
      -- the router is ignored and the customization is recorded
      let nt := newTarget cx { custProto := true } { svc := cx.svc }
      match splitterOrResolver es cx [] nt.1 nt.2 with
      | .error e => .error e
      | .ok (_, st, key) => .ok (st, key)
    else
      match recordServiceProtocol es "" cx.svc with
      | .error e => .error e
      | .ok p =>
        match routeLoop es cx [] { adv := true, proto := p } routes with
        | .error e => .error e
        | .ok (dm, st1, rs) =>
          -- catch-all route to the service itself
          let nt := newTarget cx st1 { svc := cx.svc, ns := "default", part := "default" }
          match splitterOrResolver es cx dm nt.1 nt.2 with
          | .error e => .error e
          | .ok (_, st2, key) =>
            .ok ({ st2 with nodes := st2.nodes ++ [(rtkey cx.svc, .router (rs ++ [("/", key)]))] }, rtkey cx.svc)
  | none =>
    let nt := newTarget cx {} { svc := cx.svc }
    match splitterOrResolver es cx [] nt.1 nt.2 with
    | .error e => .error e
    | .ok (_, st, key) => .ok (st, key)

/-! ### `detectCircularReferences`: DFS with a path-local visited set (`_popvisit`) -/

mutual
def dfsNode (nodes : List (String × Node)) (path : List String) (k : String) : Except Err Unit :=
  if hp : k ∈ path then .error .circularRef
  else
    match hn : alook k nodes with
    | none => .error (.internal "detectCircularReferences: missing node")   -- Go: nil dereference
    | some n => dfsList nodes (k :: path) n.next.reverse
termination_by (unseen (akeys nodes) path, 0)
decreasing_by
  exact Prod.Lex.left _ _ (unseen_lt (alook_key_mem hn) hp)

def dfsList (nodes : List (String × Node)) (path : List String) (ks : List String) : Except Err Unit :=
  match ks with
  | [] => .ok ()
  | c :: cs =>
    match dfsNode nodes path c with
    | .error e => .error e
    | .ok _ => dfsList nodes path cs
termination_by (unseen (akeys nodes) path, ks.length + 1)
decreasing_by
  · exact Prod.Lex.right _ (by simp)
  · exact Prod.Lex.right _ (by simp)
end

/-! ### `flattenAdjacentSplitterNodes` -/

/-- exact value of the float32 nearest (ties to even) to the positive rational `n/d`, as a rational
    `(num, den)` with `den` a power of two; subnormals / overflow cannot occur for split weights -/
def f32 (n d : Nat) : Nat × Nat :=
  if n = 0 ∨ d = 0 then (0, 1)
  else
    -- exponent e with 2^23 ≤ n / (d·2^e) < 2^24
    let e0 : Int := (Nat.log2 n : Int) - (Nat.log2 d : Int) - 23
    let sc (e : Int) : Nat × Nat := if e ≥ 0 then (n, d * 2 ^ e.toNat) else (n * 2 ^ (-e).toNat, d)
    let e : Int := if (sc e0).1 < 2 ^ 23 * (sc e0).2 then e0 - 1 else e0
    let N := (sc e).1
    let D := (sc e).2
    let q := N / D
    let rm := N % D
    let m := if 2 * rm > D ∨ (2 * rm = D ∧ q % 2 = 1) then q + 1 else q
    if e ≥ 0 then (m * 2 ^ e.toNat, 1) else (m, 2 ^ (-e).toNat)

def f32mul (a b : Nat × Nat) : Nat × Nat := f32 (a.1 * b.1) (a.2 * b.2)
def f32div (a b : Nat × Nat) : Nat × Nat := f32 (a.1 * b.2) (a.2 * b.1)

/-- `math.Round` (half away from zero) of a non-negative rational -/
def roundHalfUp (x : Nat × Nat) : Nat := (2 * x.1 + x.2) / (2 * x.2)

/-- the float32 a normalised weight of `k` hundredths is stored as: `float32(k) / 100.0` -/
def wOf (k : Nat) : Nat × Nat := f32 k 100

/-- `scaleWeight`: `int(math.Round(float64(v * 100.0)))` with the product in float32 -/
def scaleW (v : Nat × Nat) : Nat := roundHalfUp (f32mul v (100, 1))

/-- `NormalizeServiceSplitWeight(split.Weight * innerSplit.Weight / 100)` on hundredths, in exact
    float32 arithmetic (the result is again stored as `float32(k)/100`) -/
def mulW (a b : Nat) : Nat := scaleW (f32div (f32mul (wOf a) (wOf b)) (100, 1))

/-- one splitter's new split list; `none` = a `NextNode` is missing (Go: nil dereference) -/
def absorb (nodes : List (String × Node)) : List CSplit → Option (List CSplit × Bool)
  | [] => some ([], false)
  | s :: rest =>
    match absorb nodes rest with
    | none => none
    | some (rest', ch) =>
      match alook s.next nodes with
      | none => none
      | some (.splitter inner _) =>
        some (inner.map (fun i => ⟨mulW s.weight i.weight, i.next, i.dsvc, i.dsub⟩) ++ rest', true)
      | some _ => some (s :: rest', ch)

/-- one pass of the inner `for` over the node names in the given order (in place) -/
def flattenRound (nodes : List (String × Node)) : List String → Option (List (String × Node) × Bool)
  | [] => some (nodes, false)
  | k :: ks =>
    match alook k nodes with
    | none => none
    | some (.splitter ss lb) =>
      match absorb nodes ss with
      | none => none
      | some (ss', ch) =>
        match flattenRound (if ch then aset k (.splitter ss' lb) nodes else nodes) ks with
        | none => none
        | some (n', ch') => some (n', ch || ch')
    | some _ => flattenRound nodes ks

/-- the outer `for {}`; `none` when a lookup fails or the bound on the number of passes is hit.
    The bound is not part of the Go code (whose loop would spin forever on a splitter cycle, which
    `detectCircularReferences` has excluded): on the graphs `compile` hands to it every pass lowers the
    largest rank of a splitter below a splitter, so `#nodes + 1` passes always suffice — proved as
    `flatten_bound_sufficient` (CV/Proofs/ChainFlat.lean), whence `compile_never_internal`. -/
def flattenLoop : Nat → List String → List (String × Node) → Option (List (String × Node))
  | 0, _, _ => none
  | fuel + 1, order, nodes =>
    match flattenRound nodes order with
    | none => none
    | some (n', ch) => if ch then flattenLoop fuel order n' else some n'

/-- `sort.Strings` (insertion sort; bytewise order = code-point order on valid UTF-8) -/
def insertKey (k : String) : List String → List String
  | [] => [k]
  | x :: xs => if k < x then k :: x :: xs else x :: insertKey k xs

def sortKeys : List String → List String
  | [] => []
  | k :: ks => insertKey k (sortKeys ks)

/-! ### `removeUnusedNodes` -/

/-- the set of node keys reachable from the todo list -/
def reach (nodes : List (String × Node)) (todo visited : List String) : Except Err (List String) :=
  match todo with
  | [] => .ok visited
  | k :: rest =>
    if hv : k ∈ visited then reach nodes rest visited
    else
      match hn : alook k nodes with
      | none => .error (.internal "compilation references non-retained node")
      | some n => reach nodes (n.next ++ rest) (k :: visited)
termination_by (unseen (akeys nodes) visited, todo.length)
decreasing_by
  · exact Prod.Lex.right _ (by simp)
  · exact Prod.Lex.left _ _ (unseen_lt (alook_key_mem hn) hv)

/-! ### `Compile` -/

/-- `determineIfDefaultChain` on the pruned nodes / targets -/
def isDefaultChain (cx : Ctx) (nodes : List (String × Node)) (targets : List (String × TInfo)) (start : String) :
    Except Err Bool :=
  match alook start nodes with
  | none => .error (.internal "missing start node")
  | some (.resolver d _ _ tgt _ _) =>
    if !d then .ok false
    else
      match alook tgt targets with
      | none => .error (.internal "missing start target")     -- Go: nil dereference
      | some i => .ok (i.t.svc = cx.svc && i.t.ns = cx.ns && i.t.part = cx.part)
  | some _ => .ok false

/-- everything after `assembleChain`, with the flatten visiting order as a parameter -/
def finishCompile (cx : Ctx) (order : List (String × Node) → List String) (st : St) (start : String) : Except Err Chain :=
  match dfsNode st.nodes [] start with
  | .error e => .error e
  | .ok _ =>
    match flattenLoop (st.nodes.length + 1) (order st.nodes) st.nodes with
    | none => .error (.internal "flatten")
    | some nodes1 =>
      match reach nodes1 [start] [] with
      | .error e => .error e
      | .ok vis =>
        let nodes2 := nodes1.filter fun kv => vis.contains kv.1
        let targets := st.loaded.filter fun kv => st.retained.contains kv.1
        if !httpLike st.proto && st.adv then .error .noAdvRouting
        else
          let ov := decide (cx.ovProto ≠ "") && decide (cx.ovProto ≠ st.proto)
          match isDefaultChain cx nodes2 targets start with
          | .error e => .error e
          | .ok d =>
            .ok { proto := if ov then cx.ovProto else st.proto
                  start := start
                  isDefault := d
                  customized := st.custProto || ov || st.custMgw || st.custCT
                  nodes := nodes2
                  targets := targets }

def compileWith (order : List (String × Node) → List String) (es : Entries) (cx : Ctx) : Except Err Chain :=
  if cx.svc = "" ∨ cx.ns = "" ∨ cx.part = "" ∨ cx.dc = "" ∨ cx.td = "" then .error .badRequest
  else
    match assemble es cx with
    | .error e => .error e
    | .ok (st, start) => finishCompile cx order st start

/-- `discoverychain.Compile` (repaired flatten: node keys in sorted order) -/
def compile (es : Entries) (cx : Ctx) : Except Err Chain :=
  compileWith (fun nodes => sortKeys (akeys nodes)) es cx

/-! ### the config-entry store: writes are validated by speculative compilation

`ensureConfigEntryTxn` / `deleteConfigEntryTxn` → `validateProposedConfigEntryInGraph` →
`validateProposedConfigEntryInServiceGraph`: the chains to re-check are the entry's own name plus the
names of stored router / splitter / resolver entries that reference it directly (memdb `link` index over
`ListRelatedServices`, read BEFORE the mutation); for proxy-defaults every name that has a router,
splitter or resolver entry. Each is compiled with the proposed entry overriding the stored one
(`testCompileDiscoveryChain`: namespace/partition `default`, datacenter `dc1`). Any error rejects the
write and the transaction is aborted. Which chain's error is reported depends on Go map order, so the
model only says *rejected*.

The speculative compile reads its inputs through `readDiscoveryChainConfigEntriesTxn`, which collects
the entries reachable through `ListRelatedServices` (`gather` below). This differs from compiling
against the whole store exactly when a failover target names a *peer*: those are not followed by the
collector but the compiler still looks up the local resolver / service-defaults of that name. -/

inductive Kind | router | splitter | resolver | service | proxy
deriving DecidableEq, Repr

inductive Entry
  | router   (name : String) (routes : List Route)
  | splitter (name : String) (splits : List Split)
  | resolver (name : String) (r : Resolver)
  | service  (name : String) (d : SvcDef)
  | proxy    (d : ProxyDef)
deriving DecidableEq, Repr

def Entry.kind : Entry → Kind
  | .router .. => .router | .splitter .. => .splitter | .resolver .. => .resolver
  | .service .. => .service | .proxy .. => .proxy

def Entry.name : Entry → String
  | .router n _ => n | .splitter n _ => n | .resolver n _ => n | .service n _ => n | .proxy _ => "global"

def adel {α : Type} (k : String) (l : List (String × α)) : List (String × α) := l.filter fun kv => kv.1 ≠ k

/-- upsert -/
def Entries.put (S : Entries) : Entry → Entries
  | .router n x => { S with routers := aset n x S.routers }
  | .splitter n x => { S with splitters := aset n x S.splitters }
  | .resolver n x => { S with resolvers := aset n x S.resolvers }
  | .service n x => { S with services := aset n x S.services }
  | .proxy x => { S with proxy := some x }

def Entries.del (S : Entries) (k : Kind) (n : String) : Entries :=
  match k with
  | .router => { S with routers := adel n S.routers }
  | .splitter => { S with splitters := adel n S.splitters }
  | .resolver => { S with resolvers := adel n S.resolvers }
  | .service => { S with services := adel n S.services }
  | .proxy => { S with proxy := none }

def Entries.has (S : Entries) (k : Kind) (n : String) : Bool :=
  match k with
  | .router => (alook n S.routers).isSome
  | .splitter => (alook n S.splitters).isSome
  | .resolver => (alook n S.resolvers).isSome
  | .service => (alook n S.services).isSome
  | .proxy => S.proxy.isSome && n = "global"

/-- `ServiceRouterConfigEntry.ListRelatedServices` (always contains the router's own name) -/
def routerRelated (name : String) (routes : List Route) : List String :=
  name :: routes.map fun r => dflt r.dest.svc name

/-- `ServiceSplitterConfigEntry.ListRelatedServices` -/
def splitterRelated (name : String) (splits : List Split) : List String :=
  (splits.map fun s => dflt s.svc name).filter (· ≠ name)

/-- `ServiceResolverConfigEntry.ListRelatedServices` (peer failover targets are skipped) -/
def resolverRelated (name : String) (r : Resolver) : List String :=
  let rd := match r.redirect with
    | some o => [dflt o.svc name]
    | none => []
  let fo := r.failover.flatMap fun kf =>
    if kf.2.targets.isEmpty then [dflt kf.2.svc name]
    else (kf.2.targets.filter (·.peer = "")).map fun t => dflt t.svc name
  (rd ++ fo).filter (· ≠ name)

/-- names of stored router / splitter / resolver entries whose link index contains `n` -/
def linkers (S : Entries) (n : String) : List String :=
  (S.routers.filter fun kv => (routerRelated kv.1 kv.2).contains n).map (·.1) ++
  (S.splitters.filter fun kv => (splitterRelated kv.1 kv.2).contains n).map (·.1) ++
  (S.resolvers.filter fun kv => (resolverRelated kv.1 kv.2).contains n).map (·.1)

/-- `checkChains` -/
def affected (S : Entries) (k : Kind) (n : String) : List String :=
  match k with
  | .proxy => akeys S.routers ++ akeys S.splitters ++ akeys S.resolvers
  | _ => n :: linkers S n

/-- the request `testCompileDiscoveryChain` uses -/
def storeCtx (svc : String) : Ctx := { svc := svc }

/-- the work-queue closure of `readDiscoveryChainConfigEntriesTxn`: names reachable from `todo` through
    the `ListRelatedServices` of the entries that exist (`g` : name ↦ related names); names without an
    entry are visited but not expanded. The Go queue is a map (any order); the result *set* is the same. -/
def closeOver (g : List (String × List String)) (todo visited : List String) : List String :=
  match todo with
  | [] => visited
  | k :: rest =>
    if hv : k ∈ visited then closeOver g rest visited
    else
      match hn : alook k g with
      | none => closeOver g rest (k :: visited)
      | some next => closeOver g (next ++ rest) (k :: visited)
termination_by (unseen (akeys g) visited, todo.length)
decreasing_by
  · exact Prod.Lex.right _ (by simp)
  · have := unseen_append_le (akeys g) [k] visited
    rcases Nat.lt_or_eq_of_le this with h | h
    · exact Prod.Lex.left _ _ h
    · simp only [List.singleton_append] at h
      rw [h]; exact Prod.Lex.right _ (by simp)
  · exact Prod.Lex.left _ _ (unseen_lt (alook_key_mem hn) hv)

/-- `readDiscoveryChainConfigEntriesTxn`: the entries a chain's compilation is given. One router (the
    chain's own), splitters reachable from it (or from the name itself), resolvers reachable from every
    visited splitter name, service-defaults of every visited name, proxy-defaults. Peer failover targets
    are not followed (`ListRelatedServices` skips them). -/
def gather (S : Entries) (svc : String) : Entries :=
  let router := alook svc S.routers
  let start := match router with
    | some routes => routerRelated svc routes
    | none => [svc]
  let sv := closeOver (S.splitters.map fun kv => (kv.1, splitterRelated kv.1 kv.2)) start []
  let rv := closeOver (S.resolvers.map fun kv => (kv.1, resolverRelated kv.1 kv.2)) sv []
  let dv := svc :: sv ++ rv
  { routers := S.routers.filter fun kv => kv.1 = svc
    splitters := S.splitters.filter fun kv => sv.contains kv.1
    resolvers := S.resolvers.filter fun kv => rv.contains kv.1
    services := S.services.filter fun kv => dv.contains kv.1
    proxy := S.proxy }

/-- `testCompileDiscoveryChain` against a (proposed) store -/
def compiles (S : Entries) (svc : String) : Bool :=
  match compile (gather S svc) (storeCtx svc) with
  | .ok _ => true
  | .error _ => false

/-- `Store.EnsureConfigEntry`: `none` = rejected (transaction aborted) -/
def ensureEntry (S : Entries) (e : Entry) : Option Entries :=
  let S' := S.put e
  if (affected S e.kind e.name).all (compiles S') then some S' else none

/-- `Store.DeleteConfigEntry`: deleting an absent entry is a no-op that succeeds -/
def deleteEntry (S : Entries) (k : Kind) (n : String) : Option Entries :=
  if !S.has k n then some S
  else
    let S' := S.del k n
    if (affected S k n).all (compiles S') then some S' else none

end CV.Chain
