/-
CV.PeerIdx — Raft indexes (CreateIndex / ModifyIndex) of the catalog rows, as a layer over CV.Peer.

Every Raft command (`CatalogRegister` / `CatalogDeregister` applied by the FSM) runs as one state-store transaction
at one Raft index. The ensure*Txn functions of agent/consul/state/catalog.go stamp a row only when they write it:
  * a row that is inserted gets `CreateIndex = ModifyIndex = idx`;
  * a row that replaces the row with the same key keeps that row's `CreateIndex` and gets `ModifyIndex = idx`;
    a node found by UUID under another name (rename) hands its `CreateIndex` to the renamed node;
  * a row that is found unchanged (`IsSame`) is not written: both indexes stay;
  * deletions stamp nothing.
Since the content model (CV.Peer) decides "written or not" by content, the stamps of a transaction are a function
of the catalogs before and after it: `ixStep`. The index layer is kept beside the catalog, keyed by the memdb
primary key, so that nothing of the content model changes. `ixRun` replays the command log of a handler.
-/
import CV.Peer
namespace CV.Peer

inductive Tab
  | node | svc | chk
deriving DecidableEq, Repr

structure IxKey where
  tab  : Tab
  peer : String
  node : String
  id   : String        -- "" for a node, the service id, the check id
deriving DecidableEq, Repr

structure IxEnt where
  key    : IxKey
  create : Nat
  modify : Nat
deriving DecidableEq, Repr

abbrev Ix := List IxEnt

def nodeKey (x : Node) : IxKey := ⟨.node, x.peer, x.name, ""⟩
def svcKey (x : Svc) : IxKey := ⟨.svc, x.peer, x.node, x.sid⟩
def chkKey (x : Chk) : IxKey := ⟨.chk, x.peer, x.node, x.cid⟩

def ixGet (ix : Ix) (k : IxKey) : Option IxEnt := ix.find? fun e => decide (e.key = k)

/-- some row with this key was written or deleted by the transaction `c → c'` -/
def touched (c c' : Cat) (k : IxKey) : Bool :=
  c.nodes.any (fun x => decide (nodeKey x = k) && !decide (x ∈ c'.nodes)) ||
  c'.nodes.any (fun x => decide (nodeKey x = k) && !decide (x ∈ c.nodes)) ||
  c.svcs.any (fun x => decide (svcKey x = k) && !decide (x ∈ c'.svcs)) ||
  c'.svcs.any (fun x => decide (svcKey x = k) && !decide (x ∈ c.svcs)) ||
  c.chks.any (fun x => decide (chkKey x = k) && !decide (x ∈ c'.chks)) ||
  c'.chks.any (fun x => decide (chkKey x = k) && !decide (x ∈ c.chks))

/-- `CreateIndex` of a written row: the one of the row it replaces, else the current Raft index -/
def createOf (ix : Ix) (k : IxKey) (idx : Nat) : Nat :=
  match ixGet ix k with
  | some e => e.create
  | none => idx

/-- the row `ensureNodeTxn` takes the `CreateIndex` from: found by UUID (possibly under another name), else by name -/
def nodeSource (c : Cat) (x : Node) : Option Node :=
  match (if x.id = "" then none else c.nodes.find? fun e => decide (e.peer = x.peer ∧ e.id = x.id)) with
  | some e => some e
  | none => c.nodes.find? (nodeAt x.peer x.name)

def stampNode (c : Cat) (ix : Ix) (idx : Nat) (x : Node) : IxEnt :=
  match nodeSource c x with
  | some e => ⟨nodeKey x, createOf ix (nodeKey e) idx, idx⟩
  | none => ⟨nodeKey x, idx, idx⟩

/-- the index table after the transaction `c → c'` committed at Raft index `idx` -/
def ixStep (c c' : Cat) (ix : Ix) (idx : Nat) : Ix :=
  ix.filter (fun e => !touched c c' e.key)
    ++ (c'.nodes.filter fun x => !decide (x ∈ c.nodes)).map (stampNode c ix idx)
    ++ (c'.svcs.filter fun x => !decide (x ∈ c.svcs)).map (fun x => ⟨svcKey x, createOf ix (svcKey x) idx, idx⟩)
    ++ (c'.chks.filter fun x => !decide (x ∈ c.chks)).map (fun x => ⟨chkKey x, createOf ix (chkKey x) idx, idx⟩)

/-- the catalog after a command, whatever its outcome (a failing transaction aborts) -/
def applyOr (c : Cat) (o : Op) : Cat :=
  match applyOp c o with
  | .ok c' => c'
  | .error _ => c

/-- replay a command log: every command, failing or not, consumes one Raft index -/
def ixRun (c : Cat) (ix : Ix) (idx : Nat) : List Op → Cat × Ix × Nat
  | [] => (c, ix, idx)
  | o :: os => ixRun (applyOr c o) (ixStep c (applyOr c o) ix idx) (idx + 1) os

end CV.Peer
