/-
CV.Peer — model of the peering import path and of the exported-services listing (property C17).

Mirrors, function by function and "as the code is":
  * agent/grpc-external/services/peerstream/health_snapshot.go   `newHealthSnapshot`        → `mkSnap`
  * agent/grpc-external/services/peerstream/replication.go       `handleUpdateService`      → `handleUpdate`
                                                                 `handleUpsertExportedServiceList` → `handleList`
  * agent/consul/fsm/commands_ce.go   `applyRegister` / `applyDeregister`                   → `applyOp`
  * agent/consul/state/catalog.go     `ensureRegistrationTxn` (`register`), `ensureNodeTxn` incl. the
       rename-by-ID path and `ensureNoNodeWithSimilarNameTxn` (`ensureNode`, `nameClash`),
       `ensureServiceTxn` (`regSvc`), `ensureCheckTxn` (`regChk`), `deleteNodeTxn` / `deleteServiceTxn` /
       `deleteCheckTxn` (`delNode`, `delSvc`, `delChk`), `checkServiceNodesTxn` + `parseCheckServiceNodes`
       (`csn`), `serviceListTxn` (`serviceList`), `NodeServiceList` (`hasSvc`)
  * agent/consul/state/peering.go     `exportedServicesForPeerTxn`                           → `exportedFor`

The mini-catalog is the three memdb tables nodes / services / checks with the peer name in every key
(`catalog_schema.go`: `indexWithPeerName`). The schema lower-cases node names, service ids, check ids
and service names in index keys while the importer's Go maps use the exact spelling; the model assumes
CASE-NORMAL (lower-case) names, for which both coincide — the engine rejects anything else, and the
harness explores names that differ only in case with its monitors only (see the report: this is where
the implementation breaks). Go maps whose iteration order can matter are association lists processed
in list order; the harness hands the snapshot over in the node order the implementation actually used.

Raft indexes (CreateIndex / ModifyIndex of the rows) are a layer over this model: CV/PeerIdx.lean.
Not modelled (see bin/props/C17.json): the index table, every
field of Node / NodeService / HealthCheck beyond one content field each (address, port, status),
non-typical service kinds (virtual IPs, mesh topology, gateways), sessions, coordinates,
enterprise partitions / namespaces, and the state store's change-event hook (`catalog_events.go`), which
can fail a commit only for names that differ in case. `deleteCheckTxn` panics on a service check whose
service row is missing; no sequence of the modelled commands creates one (a service goes with its
checks), so the model has no such branch — the harness reports any state-store panic it meets.
Core-only Lean; no Mathlib.
-/
import CV.Proto
namespace CV.Peer

/-! ### the three tables -/

structure Node where
  peer : String
  name : String
  id   : String      -- node UUID, "" = none
  addr : String
deriving DecidableEq, Repr

structure Svc where
  peer : String
  node : String
  sid  : String
  name : String
  port : Nat
deriving DecidableEq, Repr

structure Chk where
  peer   : String
  node   : String
  cid    : String
  sid    : String    -- "" = node-level check
  sname  : String
  status : String
deriving DecidableEq, Repr

structure Cat where
  nodes : List Node := []
  svcs  : List Svc := []
  chks  : List Chk := []
deriving DecidableEq, Repr

inductive Err
  | missingNode | missingService | nodeReserved | checkNodeMismatch
deriving DecidableEq, Repr

/-! ### index keys (peer name first, then the names) -/

def nodeAt (p n : String) (x : Node) : Bool := decide (x.peer = p ∧ x.name = n)
def svcAt (p n i : String) (x : Svc) : Bool := decide (x.peer = p ∧ x.node = n ∧ x.sid = i)
def svcOn (p n : String) (x : Svc) : Bool := decide (x.peer = p ∧ x.node = n)
def chkAt (p n k : String) (x : Chk) : Bool := decide (x.peer = p ∧ x.node = n ∧ x.cid = k)
def chkOn (p n : String) (x : Chk) : Bool := decide (x.peer = p ∧ x.node = n)
/-- index `node_service`: checks of one service instance -/
def chkOfSvc (p n i : String) (x : Chk) : Bool := decide (x.peer = p ∧ x.node = n ∧ x.sid = i)
/-- index `node_service` with the empty service id: node-level checks -/
def chkOfNode (p n : String) (x : Chk) : Bool := decide (x.peer = p ∧ x.node = n ∧ x.sid = "")

/-! ### deletions (`deleteCheckTxn`, `deleteServiceTxn`, `deleteNodeTxn`) -/

def delChk (c : Cat) (p n k : String) : Cat :=
  { c with chks := c.chks.filter fun x => !chkAt p n k x }

def delSvc (c : Cat) (p n i : String) : Cat :=
  if c.svcs.any (svcAt p n i) then
    { c with svcs := c.svcs.filter (fun x => !svcAt p n i x)
             chks := c.chks.filter (fun x => !chkOfSvc p n i x) }
  else c

def delNode (c : Cat) (p n : String) : Cat :=
  if c.nodes.any (nodeAt p n) then
    { nodes := c.nodes.filter (fun x => !nodeAt p n x)
      svcs := c.svcs.filter (fun x => !svcOn p n x)
      chks := c.chks.filter (fun x => !chkOn p n x) }
  else c

/-! ### registration (`ensureRegistrationTxn` and the three `ensure*Txn`) -/

structure NodeDef where
  name : String
  id   : String
  addr : String
deriving DecidableEq, Repr

structure SvcDef where
  sid  : String
  name : String
  port : Nat
deriving DecidableEq, Repr

structure ChkDef where
  node   : String
  cid    : String
  sid    : String
  sname  : String
  status : String
deriving DecidableEq, Repr

structure RegReq where
  peer : String
  node : NodeDef
  svc  : Option SvcDef
  chks : List ChkDef
deriving DecidableEq, Repr

/-- `ensureNoNodeWithSimilarNameTxn`: the other node's serf check exists and is not critical -/
def serfHealthy (c : Cat) (p n : String) : Bool :=
  match c.chks.find? (chkAt p n "serfHealth") with
  | some k => decide (k.status ≠ "critical")
  | none => false

/-- `ensureNoNodeWithSimilarNameTxn` returns an error -/
def nameClash (c : Cat) (nd : Node) (allowNoId : Bool) : Bool :=
  c.nodes.any fun e =>
    decide (e.peer = nd.peer ∧ e.name = nd.name ∧ nd.id ≠ e.id)
      && (decide (e.id ≠ "") || !allowNoId) && serfHealthy c e.peer e.name

def putNode (c : Cat) (nd : Node) : Cat :=
  { c with nodes := c.nodes.filter (fun x => !nodeAt nd.peer nd.name x) ++ [nd] }

/-- `Node.IsSame` (peer and partition agree by construction of the lookups) -/
def sameNode (a b : Node) : Bool := decide (a.id = b.id ∧ a.name = b.name ∧ a.addr = b.addr)

/-- tail of `ensureNodeTxn`: compare with the row found (by UUID, else by name) and insert -/
def finishNode (c : Cat) (nd : Node) (found : Option Node) : Cat :=
  match found with
  | some n => if sameNode nd n then c else putNode c nd
  | none => putNode c nd

def ensureNode (c : Cat) (nd : Node) : Except Err Cat :=
  if nd.id = "" then
    .ok (finishNode c nd (c.nodes.find? (nodeAt nd.peer nd.name)))
  else
    match c.nodes.find? (fun x => decide (x.peer = nd.peer ∧ x.id = nd.id)) with
    | some n =>
      if n.name = nd.name then .ok (finishNode c nd (some n))
      else if nameClash c nd false then .error .nodeReserved
      else .ok (finishNode (delNode c n.peer n.name) nd (some n))     -- rename: the old node goes, with all it carries
    | none =>
      if nameClash c nd true then .error .nodeReserved
      else .ok (finishNode c nd (c.nodes.find? (nodeAt nd.peer nd.name)))

/-- `RegisterRequest.ChangesNode` -/
def changesNode (nd e : Node) : Bool := decide (nd.id ≠ e.id ∨ nd.name ≠ e.name ∨ nd.addr ≠ e.addr)

def regNode (c : Cat) (nd : Node) : Except Err Cat :=
  match c.nodes.find? (nodeAt nd.peer nd.name) with
  | some e => if changesNode nd e then ensureNode c nd else .ok c
  | none => ensureNode c nd

/-- `NodeService.IsSame` -/
def sameSvcDef (e : Svc) (s : SvcDef) : Bool := decide (e.sid = s.sid ∧ e.name = s.name ∧ e.port = s.port)

def putSvc (c : Cat) (s : Svc) : Cat :=
  { c with svcs := c.svcs.filter (fun x => !svcAt s.peer s.node s.sid x) ++ [s] }

/-- the stored row of this instance already equals the definition (`ensureRegistrationTxn` skips it) -/
def svcStored (c : Cat) (p n : String) (s : SvcDef) : Bool :=
  match c.svcs.find? (svcAt p n s.sid) with
  | some e => sameSvcDef e s
  | none => false

def regSvc (c : Cat) (p n : String) (s : SvcDef) : Except Err Cat :=
  if svcStored c p n s then .ok c
  else if c.nodes.any (nodeAt p n) then .ok (putSvc c ⟨p, n, s.sid, s.name, s.port⟩)
  else .error .missingNode

def putChk (c : Cat) (k : Chk) : Cat :=
  { c with chks := c.chks.filter (fun x => !chkAt k.peer k.node k.cid x) ++ [k] }

/-- `HealthCheck.IsSame` -/
def sameChk (a b : Chk) : Bool :=
  decide (a.node = b.node ∧ a.cid = b.cid ∧ a.status = b.status ∧ a.sid = b.sid ∧ a.sname = b.sname)

/-- tail of `ensureCheckTxn`: nothing is written when the stored check is the same -/
def upsertChk (c : Cat) (row : Chk) : Cat :=
  match c.chks.find? (chkAt row.peer row.node row.cid) with
  | some e => if sameChk e row then c else putChk c row
  | none => putChk c row

/-- "Use the default check status if none was provided" -/
def normStatus (s : String) : String := if s = "" then "critical" else s

/-- `ensureCheckIfNodeMatches` + `ensureCheckTxn` -/
def regChk (c : Cat) (p reqNode : String) (k : ChkDef) : Except Err Cat :=
  if k.node ≠ reqNode then .error .checkNodeMismatch
  else if !(c.nodes.any (nodeAt p k.node)) then .error .missingNode
  else if k.sid = "" then .ok (upsertChk c ⟨p, k.node, k.cid, k.sid, k.sname, normStatus k.status⟩)
  else match c.svcs.find? (svcAt p k.node k.sid) with
    | some s => .ok (upsertChk c ⟨p, k.node, k.cid, k.sid, s.name, normStatus k.status⟩)   -- service name copied from the service row
    | none => .error .missingService

def regChks (c : Cat) (p reqNode : String) : List ChkDef → Except Err Cat
  | [] => .ok c
  | k :: ks => match regChk c p reqNode k with
    | .ok c' => regChks c' p reqNode ks
    | .error e => .error e

/-- one `EnsureRegistration` transaction: all or nothing -/
def register (c : Cat) (r : RegReq) : Except Err Cat :=
  match regNode c ⟨r.peer, r.node.name, r.node.id, r.node.addr⟩ with
  | .error e => .error e
  | .ok c1 =>
    match (match r.svc with
           | some s => regSvc c1 r.peer r.node.name s
           | none => .ok c1) with
    | .error e => .error e
    | .ok c2 => regChks c2 r.peer r.node.name r.chks

/-! ### Raft commands issued by the importer -/

inductive Op
  | reg (r : RegReq)
  | deregSvc (p n i : String)
  | deregChk (p n k : String)
  | deregNode (p n : String)
deriving DecidableEq, Repr

def Op.peer : Op → String
  | .reg r => r.peer
  | .deregSvc p _ _ => p
  | .deregChk p _ _ => p
  | .deregNode p _ => p

def applyOp (c : Cat) : Op → Except Err Cat
  | .reg r => register c r
  | .deregSvc p n i => .ok (delSvc c p n i)
  | .deregChk p n k => .ok (delChk c p n k)
  | .deregNode p n => .ok (delNode c p n)

/-- apply commands until the first failure; returns the state, the failure, and the commands sent -/
def runOps (c : Cat) : List Op → Cat × Option Err × List Op
  | [] => (c, none, [])
  | o :: os =>
    match applyOp c o with
    | .error e => (c, some e, [o])
    | .ok c' => let (cf, e, l) := runOps c' os; (cf, e, o :: l)

/-! ### reads -/

structure CSN where
  node : Node
  svc  : Svc
  chks : List Chk
deriving DecidableEq, Repr

def csnOf (c : Cat) (p : String) (s : Svc) : Except Err CSN :=
  match c.nodes.find? (nodeAt p s.node) with
  | none => .error .missingNode
  | some n => .ok ⟨n, s, c.chks.filter (chkOfNode p s.node) ++ c.chks.filter (chkOfSvc p s.node s.sid)⟩

def csnAll (c : Cat) (p : String) : List Svc → Except Err (List CSN)
  | [] => .ok []
  | s :: ss => match csnOf c p s with
    | .error e => .error e
    | .ok x => match csnAll c p ss with
      | .error e => .error e
      | .ok xs => .ok (x :: xs)

/-- `Store.CheckServiceNodes(name, peer)` -/
def csn (c : Cat) (p sn : String) : Except Err (List CSN) :=
  csnAll c p (c.svcs.filter fun s => decide (s.peer = p ∧ s.name = sn))

/-- `Store.ServiceList(peer)`: distinct (exact) service names -/
def serviceList (c : Cat) (p : String) : List String :=
  ((c.svcs.filter fun s => decide (s.peer = p)).map (·.name)).eraseDups

/-- `NodeServiceList(node, peer)` returns at least one service -/
def hasSvc (c : Cat) (p n : String) : Bool :=
  c.nodes.any (nodeAt p n) && c.svcs.any (svcOn p n)

/-! ### the received snapshot (`newHealthSnapshot`) -/

structure Inst where
  node : NodeDef
  svc  : SvcDef
  chks : List ChkDef
deriving DecidableEq, Repr

structure SSvc where
  svc  : SvcDef
  chks : List ChkDef            -- Go map CheckID → check; a later duplicate replaces
deriving DecidableEq, Repr

structure SNode where
  node : NodeDef                -- the first instance seen for this node name wins
  svcs : List SSvc              -- Go map ServiceID → serviceSnapshot
deriving DecidableEq, Repr

abbrev Snap := List SNode       -- Go map node name → nodeSnapshot, in order of first appearance

def addChk (ks : List ChkDef) (k : ChkDef) : List ChkDef :=
  if ks.any (fun e => decide (e.cid = k.cid)) then ks.map (fun e => if e.cid = k.cid then k else e)
  else ks ++ [k]

def addSvc (ss : List SSvc) (s : SvcDef) (ks : List ChkDef) : List SSvc :=
  if ss.any (fun e => decide (e.svc.sid = s.sid)) then
    ss.map (fun e => if e.svc.sid = s.sid then { e with chks := ks.foldl addChk e.chks } else e)
  else ss ++ [⟨s, ks.foldl addChk []⟩]

def addInst (sn : Snap) (i : Inst) : Snap :=
  if sn.any (fun e => decide (e.node.name = i.node.name)) then
    sn.map (fun e => if e.node.name = i.node.name then { e with svcs := addSvc e.svcs i.svc i.chks } else e)
  else sn ++ [⟨i.node, addSvc [] i.svc i.chks⟩]

/-- `newHealthSnapshot` panics on an empty node name, service id or check id -/
def instOK (i : Inst) : Bool :=
  decide (i.node.name ≠ "" ∧ i.svc.sid ≠ "") && i.chks.all (fun k => decide (k.cid ≠ ""))

def mkSnap (is : List Inst) : Option Snap :=
  if is.all instOK then some (is.foldl addInst []) else none

/-! ### `handleUpdateService` -/

def storedNode (st : List CSN) (n : String) : Option Node :=
  (st.find? fun x => decide (x.node.name = n)).map (·.node)

def storedInst (st : List CSN) (n i : String) : Option CSN :=
  st.find? fun x => decide (x.node.name = n ∧ x.svc.sid = i)

/-- `Node.IsSame(stored, received)` -/
def sameNodeDef (e : Node) (d : NodeDef) : Bool := decide (e.id = d.id ∧ e.name = d.name ∧ e.addr = d.addr)

/-- `HealthCheck.IsSame(stored, received)`; an empty received status never equals the stored one -/
def sameChkDef (e : Chk) (k : ChkDef) : Bool :=
  decide (e.node = k.node ∧ e.cid = k.cid ∧ e.status = k.status ∧ e.sid = k.sid ∧ e.sname = k.sname)

def nodeUnchanged (st : List CSN) (d : NodeDef) : Bool :=
  match storedNode st d.name with
  | some e => sameNodeDef e d
  | none => false

def svcUnchanged (st : List CSN) (n : String) (s : SvcDef) : Bool :=
  match storedInst st n s.sid with
  | some x => sameSvcDef x.svc s
  | none => false

def chkUnchanged (st : List CSN) (n i : String) (k : ChkDef) : Bool :=
  match storedInst st n i with
  | some x => (match x.chks.find? (fun e => decide (e.cid = k.cid)) with
               | some e => sameChkDef e k
               | none => false)
  | none => false

/-- the registrations sent for one node of the snapshot: node, changed services, changed checks -/
def regOpsNode (p : String) (st : List CSN) (sn : SNode) : List Op :=
  let base : RegReq := ⟨p, sn.node, none, []⟩
  let o1 : List Op := if nodeUnchanged st sn.node then [] else [.reg base]
  let o2 : List Op := (sn.svcs.filter fun ss => !svcUnchanged st sn.node.name ss.svc).map
                        fun ss => .reg { base with svc := some ss.svc }
  let ks : List ChkDef := sn.svcs.flatMap fun ss => ss.chks.filter fun k => !chkUnchanged st sn.node.name ss.svc.sid k
  let o3 : List Op := if ks.isEmpty then [] else [.reg { base with chks := ks }]
  o1 ++ o2 ++ o3

def snapNode (sn : Snap) (n : String) : Option SNode := sn.find? fun e => decide (e.node.name = n)

def insertNew [DecidableEq α] (l : List α) (a : α) : List α := if a ∈ l then l else l ++ [a]

structure Cleanup where
  ops    : List Op := []                    -- immediate deregistrations, in order
  nchks  : List (String × String) := []     -- de-duplicated node checks to delete: (node, check id)
  unused : List String := []                -- de-duplicated node names absent from the snapshot

def cleanupChecks (p : String) (ss : SSvc) : List Chk → Cleanup → Cleanup
  | [], acc => acc
  | k :: ks, acc =>
    if ss.chks.any (fun e => decide (e.cid = k.cid)) then cleanupChecks p ss ks acc
    else if k.sid = "" then cleanupChecks p ss ks { acc with nchks := insertNew acc.nchks (k.node, k.cid) }
    else cleanupChecks p ss ks { acc with ops := acc.ops ++ [.deregChk p k.node k.cid] }

def cleanupOne (p : String) (snap : Snap) (x : CSN) (acc : Cleanup) : Cleanup :=
  match snapNode snap x.node.name with
  | none => { acc with unused := insertNew acc.unused x.node.name
                       ops := acc.ops ++ [.deregSvc p x.node.name x.svc.sid] }
  | some nd =>
    match nd.svcs.find? (fun e => decide (e.svc.sid = x.svc.sid)) with
    | none => { acc with ops := acc.ops ++ [.deregSvc p x.node.name x.svc.sid] }
    | some ss => cleanupChecks p ss x.chks acc

def cleanup (p : String) (snap : Snap) (st : List CSN) : Cleanup :=
  st.foldl (fun acc x => cleanupOne p snap x acc) {}

/-- delete the unused nodes that carry no service any more (reads the state after every step) -/
def dropUnused (p : String) : Cat → List String → Cat × List Op
  | c, [] => (c, [])
  | c, n :: ns =>
    if hasSvc c p n then dropUnused p c ns
    else let (cf, l) := dropUnused p (delNode c p n) ns; (cf, .deregNode p n :: l)

structure Res where
  cat   : Cat
  err   : Option Err := none
  panic : Bool := false
  log   : List Op := []

def handleUpdate (c : Cat) (p sn : String) (insts : List Inst) : Res :=
  match csn c p sn with
  | .error e => { cat := c, err := some e }
  | .ok st =>
    match mkSnap insts with
    | none => { cat := c, panic := true }
    | some snap =>
      match runOps c (snap.flatMap (regOpsNode p st)) with
      | (c1, some e, l1) => { cat := c1, err := some e, log := l1 }
      | (c1, none, l1) =>
        let cl := cleanup p snap st
        let ops2 := cl.ops ++ cl.nchks.map fun (n, k) => .deregChk p n k
        let (c2, _, l2) := runOps c1 ops2
        let (c3, l3) := dropUnused p c2 cl.unused
        { cat := c3, log := l1 ++ l2 ++ l3 }

/-! ### `handleUpsertExportedServiceList` -/

def sidecarSuffix : String := "-sidecar-proxy"

def keepNames (names : List String) : List String := names.flatMap fun s => [s, s ++ sidecarSuffix]

def pruneAll (p : String) (keep : List String) : List String → Res → Res
  | [], r => r
  | sn :: rest, r =>
    if r.err.isSome || r.panic then r
    else if sn ∈ keep then pruneAll p keep rest r
    else
      let r' := handleUpdate r.cat p sn []
      pruneAll p keep rest { r' with log := r.log ++ r'.log }

def handleList (c : Cat) (p : String) (names : List String) : Res :=
  pruneAll p (keepNames names) (serviceList c p) { cat := c }

/-! ### a replication stream: messages are processed one after the other (`processResponse`) -/

inductive Msg
  | upd (p sn : String) (insts : List Inst)      -- exported-service upsert; `insts = []` is the deletion
  | list (p : String) (names : List String)      -- exported-service list
deriving DecidableEq, Repr

def Msg.peer : Msg → String
  | .upd p _ _ => p
  | .list p _ => p

/-- the catalog after one message, whatever its outcome (a failing update keeps what it already wrote) -/
def stepMsg (c : Cat) : Msg → Cat
  | .upd p sn insts => (handleUpdate c p sn insts).cat
  | .list p names => (handleList c p names).cat

def runMsgs (c : Cat) (ms : List Msg) : Cat := ms.foldl stepMsg c

/-! ### the exporting side: `exportedServicesForPeerTxn` -/

structure ExpEntry where
  name  : String          -- exact service name or "*"
  peers : List String     -- consumers that are peers
deriving DecidableEq, Repr

def consulName : String := "consul"

/-- `ExportedServiceList.Services` as a set (the code sorts the keys of a map) -/
def exportedFor (cfg : List ExpEntry) (typical : List String) (peer : String) : List String :=
  cfg.flatMap fun e =>
    if e.name = consulName then []
    else if peer ∉ e.peers then []
    else if e.name ≠ "*" then [e.name]
    else typical.filter fun n => decide (n ≠ consulName)

/-- a discovery chain (service-resolver) of the exporting cluster: its name and where it redirects to (the name
    itself when it does not redirect) -/
structure Chain where
  name   : String
  target : String
deriving DecidableEq, Repr

/-- the service the compiled chain of `n` ends at: redirects are followed (the state store rejects cycles;
    `fuel` bounds the walk) -/
def chainEnd (chains : List Chain) : Nat → String → String
  | 0, n => n
  | fuel + 1, n =>
    match chains.find? (fun ch => decide (ch.name = n)) with
    | some ch => if ch.target = n then n else chainEnd chains fuel ch.target
    | none => n

/-- keys of `ExportedServiceList.DiscoChains`: under a wildcard every discovery chain; otherwise an exported name
    that is a chain, has connect-enabled instances (sidecar / native) or sits behind a terminating gateway
    (`populateConnectService`); a chain that ends at the `consul` service is dropped (`populateChainInfo`) -/
def exportedChains (cfg : List ExpEntry) (typical : List String) (chains : List Chain) (connect tgw : List String)
    (peer : String) : List String :=
  ((cfg.flatMap fun e =>
      if e.name = consulName then []
      else if peer ∉ e.peers then []
      else if e.name ≠ "*" then []
      else (chains.map (·.name)).filter fun n => decide (n ≠ consulName))
    ++ (exportedFor cfg typical peer).filter fun n =>
         decide (n ∈ chains.map (·.name) ∨ n ∈ connect ∨ n ∈ tgw)).filter fun n =>
    !decide (chainEnd chains (chains.length + 1) n = consulName)

end CV.Peer
