/- Line-protocol engine for C14 (intentions → Envoy RBAC). See go/overlay/internal/verifharness/c14.

Separators, outermost first: ' ' (tokens) · ',' (lists) · ';' (record fields) · '|' (permissions)
· '!' (permission fields) · '+' (inner lists) · '~' (innermost fields). `-` is the empty list. -/
import CV.Rbac
namespace CV.Engine.C14
open CV CV.Rbac

def lst (sep : String) (tok : String) : List String := if tok == "-" then [] else tok.splitOn sep

/-! ### parsing -/

def pHdr (t : String) : Option HdrPerm :=
  match t.splitOn "~" with
  | [n, pr, ex, pf, sf, co, re, inv, ic] => do
      pure ⟨← decB n, ← decBool pr, ← decB ex, ← decB pf, ← decB sf, ← decB co, ← decB re, ← decBool inv, ← decBool ic⟩
  | _ => none

/-- `seg>seg<value` -/
def pFact (t : String) : Option (List Name × Name) :=
  match t.splitOn "<" with
  | [p, v] => do pure (← (p.splitOn ">").mapM decB, ← decB v)
  | _ => none

/-- `name~claim^claim` (`-` = no claims) -/
def pProv (t : String) : Option JwtProv :=
  match t.splitOn "~" with
  | [n, cs] => do
      let claims ← (lst "^" cs).mapM pFact
      pure ⟨← decB n, claims.map fun c => ⟨c.1, c.2⟩⟩
  | _ => none

def pPerm (t : String) : Option Perm :=
  match t.splitOn "!" with
  | [a, h, pe, pp, pr, hs, ms, jw] => do
      let allow ← decBool a
      let has ← decBool h
      let jwt ← (lst "+" jw).mapM pProv
      if has then
        pure ⟨allow, some ⟨← decB pe, ← decB pp, ← decB pr, ← (lst "+" hs).mapM pHdr, ← (lst "+" ms).mapM decB⟩, jwt⟩
      else pure ⟨allow, none, jwt⟩
  | _ => none

def pIxn (t : String) : Option Ixn :=
  match t.splitOn ";" with
  | [peer, name, dst, prec, allow, perms, jw] => do
      pure ⟨← decB peer, ← decB name, ← decB dst, ← prec.toNat?, ← decBool allow, ← (lst "|" perms).mapM pPerm,
        ← (lst "+" jw).mapM pProv⟩
  | _ => none

def pBundle (t : String) : Option Bundle :=
  match t.splitOn ";" with
  | [p, td, ap] => do pure ⟨← decB p, ← decB td, ← decB ap⟩
  | _ => none

def pSrc (t : String) : Option Src :=
  match t.splitOn ";" with
  | [n, p, ap, td] => do pure ⟨← decB n, ← decB p, ← decB ap, ← decB td⟩
  | _ => none

def pIdent (t : String) : Option Ident :=
  match t.splitOn "~" with
  | ["s", td, ap, ns, dc, n] => do pure (.svc (← decB td) (← decB ap) (← decB ns) (← decB dc) (← decB n))
  | ["g", td, dc] => do pure (.gw (← decB td) (← decB dc))
  | ["r", s] => do pure (.raw (← decB s))
  | _ => none

def pXElem (t : String) : Option XElem :=
  match t.splitOn "!" with
  | [pre, u] => do pure ⟨← decB pre, ← pIdent u⟩
  | _ => none

def pCaller (t : String) : Option Caller :=
  match t.splitOn ";" with
  | [d, x] => do
      let direct ← pIdent d
      if x == "-" then pure ⟨direct, none, []⟩
      else pure ⟨direct, some (← (x.splitOn "+").mapM pXElem), []⟩
  | _ => none

def pPair (t : String) : Option (Name × Name) :=
  match t.splitOn "~" with
  | [a, b] => do pure (← decB a, ← decB b)
  | _ => none

def pReq (t : String) : Option Req :=
  match t.splitOn ";" with
  | [p, hs, rx, md] => do
      pure ⟨← decB p, ← (lst "+" hs).mapM pPair, ← (lst "+" rx).mapM pPair, ← (lst "+" md).mapM pFact⟩
  | _ => none

/-! ### canonical printing -/

def sStrM : StrM → String
  | .exact s ic => s!"ex[{encB s};{encBool ic}]"
  | .pfx s ic => s!"pf[{encB s};{encBool ic}]"
  | .sfx s ic => s!"sf[{encB s};{encBool ic}]"
  | .contains s ic => s!"co[{encB s};{encBool ic}]"
  | .regex s => s!"re[{encB s}]"

def sHdrM (h : HdrM) : String :=
  let spec := match h.spec with | .present => "present" | .str m => sStrM m
  s!"hdr({encB h.name},{spec},{encBool h.invert})"

mutual
def sPm : Pm → String
  | .any => "any"
  | .urlPath m => s!"path({sStrM m})"
  | .header h => sHdrM h
  | .mdata p v => "meta(" ++ ">".intercalate (p.map encB) ++ ";" ++ encB v ++ ")"
  | .andRules l => "and(" ++ sPms l ++ ")"
  | .orRules l => "or(" ++ sPms l ++ ")"
  | .notRule p => "not(" ++ sPm p ++ ")"
def sPms : List Pm → String
  | [] => ""
  | [p] => sPm p
  | p :: ps => sPm p ++ "," ++ sPms ps
end

mutual
def sPr : Pr → String
  | .id s => s!"auth({encB (idPattern s)})"
  | .gw td => s!"auth({encB (gwPattern td)})"
  | .xfcc s => s!"xfcc({encB (xfccPattern s)})"
  | .mdata p v => "meta(" ++ ">".intercalate (p.map encB) ++ ";" ++ encB v ++ ")"
  | .andIds l => "and(" ++ sPrs l ++ ")"
  | .orIds l => "or(" ++ sPrs l ++ ")"
  | .notId p => "not(" ++ sPr p ++ ")"
def sPrs : List Pr → String
  | [] => ""
  | [p] => sPr p
  | p :: ps => sPr p ++ "," ++ sPrs ps
end

def sPolicy (p : PolName × Policy) : String :=
  let n := match p.1 with | .l7 i => s!"L7-{i}" | .l4 => "L4"
  n ++ "{" ++ sPrs p.2.principals ++ "#" ++ sPms p.2.permissions ++ "}"

def sRbac (rb : Rbac) : String :=
  (if rb.allowAction then "ALLOW" else "DENY") ++ "[" ++ "".intercalate (rb.policies.map sPolicy) ++ "]"

def bits (l : List Bool) : String := String.ofList (l.map fun b => if b then '1' else '0')

def sSrc (s : Src) : String := s!"{encB s.name};{encB s.peer};{encB s.ap};{encB s.td}"

def emptyReq : Req := ⟨[], [], [], []⟩

/-! ### the engine -/

def step (_ : Unit) (toks : List String) : Unit × String :=
  match toks with
  | ["rbac", d, h, td, bs, ps, is, cs, rs] =>
    match decBool d, decBool h, decB td, (lst "," bs).mapM pBundle, (lst "," ps).mapM pPair, (lst "," is).mapM pIxn,
          (lst "," cs).mapM pCaller, (lst "," rs).mapM pReq with
    | some dflt, some http, some ltd, some bundles, some provs, some ixns, some callers, some reqs =>
      let env : Env := ⟨ltd, bundles, provs⟩
      let reqs := if http then reqs else [emptyReq]
      -- the validated JWT payloads travel with the request; a caller is judged together with them
      let withMeta (c : Caller) (r : Req) : Caller := { c with jmeta := r.jmeta }
      let spec := ".".intercalate (callers.map fun c =>
        bits (reqs.map fun r => specAllow callerSem env ixns dflt http (withMeta c r) r))
      match translate env ixns dflt http with
      | none =>
        let why := if jwtMissing env http (removeSameSource (sortIxns ixns)) then "error" else "panic"
        ((), s!"rbac={why} eval=- spec={spec}")
      | some rb =>
        let ev := ".".intercalate (callers.map fun c =>
          bits (reqs.map fun r => evalRbac wireSem rb (wire (withMeta c r)) r))
        ((), s!"rbac={sRbac rb} eval={ev} spec={spec}")
    | _, _, _, _, _, _, _, _ => ((), "bad-op")
  | ["pat", s] =>
    match pSrc s with
    | some s => ((), s!"p={encB (idPattern s)} x={encB (xfccPattern s)}")
    | none => ((), "bad-op")
  | ["gwpat", td] =>
    match decB td with
    | some td => ((), s!"p={encB (gwPattern td)}")
    | none => ((), "bad-op")
  | ["match", kind, s, subj] =>
    match pSrc s, decB subj with
    | some s, some subj =>
      if kind == "id" then ((), s!"m={encBool (matchToks (idToks s) subj)}")
      else if kind == "gw" then ((), s!"m={encBool (matchToks (gwToks s.td) subj)}")
      else if kind == "xfcc" then ((), s!"m={encBool (matchToks (xfccToks s) subj)}")
      else ((), "bad-op")
    | _, _ => ((), "bad-op")
  | ["spiffe", i] =>
    match pIdent i with
    | some i => ((), s!"s={encB (spiffe i)}")
    | none => ((), "bad-op")
  | ["prec", a, b] =>
    match decB a, decB b with
    | some a, some b => ((), s!"p={precOf a b}")
    | _, _ => ((), "bad-op")
  | ["esc", b] =>
    match decB b with
    | some b => ((), s!"s={encB (escapePath b)}")
    | none => ((), "bad-op")
  | ["xfcc", es] =>
    match (lst "+" es).mapM pXElem with
    | some es => ((), s!"s={encB (xfccHeader es)}")
    | none => ((), "bad-op")
  | ["srcmatch", a, b] =>
    match pSrc a, pSrc b with
    | some a, some b => ((), s!"m={encBool (ixnSourceMatches a b)}")
    | _, _ => ((), "bad-op")
  | ["simp", ss] =>
    match (lst "," ss).mapM pSrc with
    | some ss => ((), "s=" ++ encList ((simplifyNotSources ss).map sSrc))
    | none => ((), "bad-op")
  | ["perm", p, rs] =>
    match pPerm p, (lst "," rs).mapM pReq with
    | some p, some reqs =>
      let pm := convertPermission p
      ((), s!"pm={sPm pm} eval={bits (reqs.map fun r => evalPm r pm)} spec={bits (reqs.map fun r => permMatches r p)}")
    | _, _ => ((), "bad-op")
  | _ => ((), "bad-op")

def engine : Engine := { State := Unit, init := (), step := step }

end CV.Engine.C14
