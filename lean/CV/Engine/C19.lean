/- Line-protocol engine for C19 (replication round). See go/overlay/internal/verifharness/c19. -/
import CV.Repl
namespace CV.Engine.C19
open CV CV.Repl

def parseAclItem (tok : String) : Option (Item Bytes Bytes) :=
  match tok.splitOn ";" with
  | [i, m, h, v] => do
      let id ← decB i; let mod ← m.toNat?; let hash ← decB h; let val ← v.toNat?
      pure ⟨id, mod, hash, val⟩
  | _ => none

def parseCfgItem (tok : String) : Option (Item CKey Nat) :=
  match tok.splitOn ";" with
  | [k, n, m, h, v] => do
      let kind ← decB k; let name ← decB n; let mod ← m.toNat?; let hash ← h.toNat?; let val ← v.toNat?
      pure ⟨(kind, name), mod, hash, val⟩
  | _ => none

def encIds (l : List Bytes) : String := encList (l.map encB)

def finalStr (xs : List (Bytes × Nat)) : String :=
  let items : List (Item Bytes Unit) := xs.map fun (k, v) => ⟨k, 0, (), v⟩
  encList ((sortBy bytesLt items).map fun x => encB x.id ++ ";" ++ toString x.val)

def cfgId (k : CKey) : Bytes := k.1 ++ [47] ++ k.2

def step (_ : Unit) (toks : List String) : Unit × String :=
  match toks with
  | ["acl", last, ls, rs] =>
    match last.toNat?, (decList ls).mapM parseAclItem, (decList rs).mapM parseAclItem with
    | some last, some l, some r =>
      let (d, u) := diff aclCfg last (sortBy aclCfg.lt l) (sortBy aclCfg.lt r)
      let nl := (l.filter fun x => aclCfg.skip x.id).length
      let nr := (r.filter fun x => aclCfg.skip x.id).length
      let fin := if nl + nr > 0 then "skip"
                 else finalStr ((round aclCfg last l r).map fun x => (x.id, x.val))
      ((), s!"d={encIds d} u={encIds u} ls={nl} rs={nr} final={fin}")
    | _, _, _ => ((), "bad-op")
  | ["cfg", last, ls, rs] =>
    match last.toNat?, (decList ls).mapM parseCfgItem, (decList rs).mapM parseCfgItem with
    | some last, some l, some r =>
      let (d, u) := diff cfgCfg last (sortBy cfgCfg.lt l) (sortBy cfgCfg.lt r)
      let fin := finalStr ((round cfgCfg last l r).map fun x => (cfgId x.id, x.val))
      ((), s!"d={encIds (d.map cfgId)} u={encIds (u.map cfgId)} final={fin}")
    | _, _, _ => ((), "bad-op")
  | _ => ((), "bad-op")

def engine : Engine := { State := Unit, init := (), step := step }

end CV.Engine.C19
