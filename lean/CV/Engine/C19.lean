/- Line-protocol engine for C19 (replication round). See go/overlay/internal/verifharness/c19.

   acl  <last> <locals> <remotes>                 the walk alone (diffACLType through the shim)
   cfg  <last> <locals> <remotes>                 the walk alone (diffConfigEntries)
   racl <kind> <last> <remoteIndex> <locals> <remotes>   one real replicateACLType round
   rcfg <last> <remoteIndex> <locals> <remotes>          one real replicateConfig round
   sacl <kind> <last> <remoteIndex> <locals> <remotes id;mod;hash;val;size;create> <overrides>
        one real round whose batch read is answered stale: override = id;mod;hash;val;size (an
        older version) or id;- (not returned); policies and tokens are both guarded (ensureRemoteConsistent)
   nbatch <rows id;name …> <upserts id;name …>           one upsert batch against the unique name index
   xrnd <kind> <last> <remoteIndex> <cancelAt|-> <locals> <remotes>
        one real round under faults (CV.Repl.roundRun): kind policy|role|token (ACL items), cfg (config
        items; applies rejected by the modelled fragment of graph validation, cfgRej), fed (federation
        states, item dc;mod;val - for a local item mod is its PrimaryModifyIndex; final prints it);
        cancelAt = the poll of ctx.Done() (0 = right after the fetch) that finds the context cancelled.
        w= lists every apply ISSUED (a rejected one is a Raft entry too); ret = exit | error | index

   ACL item:    id;mod;hash;val;size      config item: kind;name;mod;hash;val
   A round answers  ret=<returned index> w=<Raft applies in order> final=<id;val …>  where an apply
   is `D~id+id+…` (one deletion batch) or `U~id+id+…` (one upsert batch). -/
import CV.Repl
namespace CV.Engine.C19
open CV CV.Repl

def parseAclItem (tok : String) : Option (Item Bytes Bytes) :=
  match tok.splitOn ";" with
  | [i, m, h, v, z] => do
      let id ← decB i; let mod ← m.toNat?; let hash ← decB h; let val ← v.toNat?; let size ← z.toNat?
      pure ⟨id, mod, hash, val, size⟩
  | _ => none

def parseCfgItem (tok : String) : Option (Item CKey Nat) :=
  match tok.splitOn ";" with
  | [k, n, m, h, v] => do
      let kind ← decB k; let name ← decB n; let mod ← m.toNat?; let hash ← h.toNat?; let val ← v.toNat?
      pure ⟨(kind, name), mod, hash, val, 1⟩
  | _ => none

def parseAclItemC (tok : String) : Option (Item Bytes Bytes × Nat) :=
  match tok.splitOn ";" with
  | [i, m, h, v, z, c] => do
      let it ← parseAclItem (";".intercalate [i, m, h, v, z]); let cre ← c.toNat?
      pure (it, cre)
  | _ => none

def parseOverride (tok : String) : Option (Bytes × Option (Item Bytes Bytes)) :=
  match tok.splitOn ";" with
  | [i, "-"] => do let id ← decB i; pure (id, none)
  | [i, _, _, _, _] => do let id ← decB i; let it ← parseAclItem tok; pure (id, some it)
  | _ => none

def parseFedItem (tok : String) : Option (Item Bytes Unit) :=
  match tok.splitOn ";" with
  | [i, m, v] => do
      let id ← decB i; let mod ← m.toNat?; let val ← v.toNat?
      pure ⟨id, mod, (), val, 1⟩
  | _ => none

def parseCancel (tok : String) : Option (Option Nat) :=
  if tok == "-" then some none else tok.toNat?.map some

def parseNRow (tok : String) : Option NRow :=
  match tok.splitOn ";" with
  | [i, n] => do
      let id ← decB i; let name ← decB n
      pure ⟨id, name⟩
  | _ => none

def encIds (l : List Bytes) : String := encList (l.map encB)

def finalStr (xs : List (Bytes × Nat)) : String :=
  let items : List (Item Bytes Unit) := xs.map fun (k, v) => ⟨k, 0, (), v, 1⟩
  encList ((sortBy bytesLt items).map fun x => encB x.id ++ ";" ++ toString x.val)

def cfgId (k : CKey) : Bytes := k.1 ++ [47] ++ k.2

def opStr {κ η : Type} (idOf : κ → Bytes) : Op κ η → String
  | .del ks => "D~" ++ "+".intercalate (ks.map fun k => encB (idOf k))
  | .ups xs => "U~" ++ "+".intercalate (xs.map fun x => encB (idOf x.id))

def retStr : Ret → String
  | .exit => "exit"
  | .error => "error"
  | .idx n => toString n

def runStr {κ η : Type} [DecidableEq κ] (X : RndX κ η) (F : Fault κ η) (idOf : κ → Bytes) (withMod : Bool)
    (last ridx : Nat) (l r : List (Item κ η)) : String :=
  let st := roundRun X F last ridx l r
  let rows : List (Item Bytes Unit) := st.store.map fun x => ⟨idOf x.id, x.mod, (), x.val, 1⟩
  let fin := encList ((sortBy bytesLt rows).map fun x =>
    encB x.id ++ ";" ++ toString x.val ++ (if withMod then ";" ++ toString x.mod else ""))
  s!"ret={retStr (runRet ridx st)} w={encList (st.tried.map (opStr idOf))} final={fin}"

def roundStr {κ η : Type} [DecidableEq κ] (R : Rnd κ η) (idOf : κ → Bytes) (last ridx : Nat)
    (l r : List (Item κ η)) : String :=
  let ops := roundOps R last ridx l r
  let fin := finalStr ((roundFinal R last ridx l r).map fun x => (idOf x.id, x.val))
  s!"ret={roundRet last ridx} w={encList (ops.map (opStr idOf))} final={fin}"

def step (_ : Unit) (toks : List String) : Unit × String :=
  match toks with
  | ["acl", last, ls, rs] =>
    match last.toNat?, (decList ls).mapM parseAclItem, (decList rs).mapM parseAclItem with
    | some last, some l, some r =>
      let (d, u) := diff aclCfg last (sortBy aclCfg.lt l) (sortBy aclCfg.lt r)
      let nl := (l.filter fun x => aclCfg.skip x.id).length
      let nr := (r.filter fun x => aclCfg.skip x.id).length
      let fin := if nl + nr > 0 then "skip"
                 else finalStr ((roundFinal aclRnd last last l r).map fun x => (x.id, x.val))
      ((), s!"d={encIds d} u={encIds u} ls={nl} rs={nr} final={fin}")
    | _, _, _ => ((), "bad-op")
  | ["cfg", last, ls, rs] =>
    match last.toNat?, (decList ls).mapM parseCfgItem, (decList rs).mapM parseCfgItem with
    | some last, some l, some r =>
      let (d, u) := diff cfgCfg last (sortBy cfgCfg.lt l) (sortBy cfgCfg.lt r)
      let fin := finalStr ((roundFinal cfgRnd last last l r).map fun x => (cfgId x.id, x.val))
      ((), s!"d={encIds (d.map cfgId)} u={encIds (u.map cfgId)} final={fin}")
    | _, _, _ => ((), "bad-op")
  | ["racl", _kind, last, ridx, ls, rs] =>
    match last.toNat?, ridx.toNat?, (decList ls).mapM parseAclItem, (decList rs).mapM parseAclItem with
    | some last, some ridx, some l, some r => ((), roundStr aclRnd id last ridx l r)
    | _, _, _, _ => ((), "bad-op")
  | ["rcfg", last, ridx, ls, rs] =>
    match last.toNat?, ridx.toNat?, (decList ls).mapM parseCfgItem, (decList rs).mapM parseCfgItem with
    | some last, some ridx, some l, some r => ((), roundStr cfgRnd cfgId last ridx l r)
    | _, _, _, _ => ((), "bad-op")
  | ["sacl", kind, last, ridx, ls, rs, ovs] =>
    match last.toNat?, ridx.toNat?, (decList ls).mapM parseAclItem, (decList rs).mapM parseAclItemC,
          (decList ovs).mapM parseOverride with
    | some last, some ridx, some l, some rc, some ov =>
      let r := rc.map (·.1)
      let cre : Bytes → Nat := fun k => match rc.find? (fun p => p.1.id = k) with
        | some p => p.2
        | none => 0
      let guard := kind == "policy" || kind == "token"
      let ops := roundOpsStale aclRnd guard ov cre last ridx l r
      let fin := finalStr ((roundFinalStale aclRnd guard ov cre last ridx l r).map fun x => (x.id, x.val))
      let ret := match roundRetStale aclRnd guard ov cre last ridx l r with
        | some n => toString n
        | none => "error"
      ((), s!"ret={ret} w={encList (ops.map (opStr id))} final={fin}")
    | _, _, _, _, _ => ((), "bad-op")
  | ["xrnd", kind, last, ridx, cancel, ls, rs] =>
    match last.toNat?, ridx.toNat?, parseCancel cancel with
    | some last, some ridx, some c =>
      if kind == "cfg" then
        match (decList ls).mapM parseCfgItem, (decList rs).mapM parseCfgItem with
        | some l, some r => ((), runStr cfgX { rej := cfgRej, cancelAt := c } cfgId false last ridx l r)
        | _, _ => ((), "bad-op")
      else if kind == "fed" then
        match (decList ls).mapM parseFedItem, (decList rs).mapM parseFedItem with
        | some l, some r => ((), runStr fedX { rej := fun _ _ => false, cancelAt := c } id true last ridx l r)
        | _, _ => ((), "bad-op")
      else if kind == "policy" || kind == "role" || kind == "token" then
        match (decList ls).mapM parseAclItem, (decList rs).mapM parseAclItem with
        | some l, some r => ((), runStr aclX { rej := fun _ _ => false, cancelAt := c } id false last ridx l r)
        | _, _ => ((), "bad-op")
      else ((), "bad-op")
    | _, _, _ => ((), "bad-op")
  | ["nbatch", rows, ups] =>
    match (decList rows).mapM parseNRow, (decList ups).mapM parseNRow with
    | some s, some xs =>
      match nBatch s xs with
      | some _ => ((), "applied")
      | none => ((), "rejected")
    | _, _ => ((), "bad-op")
  | _ => ((), "bad-op")

def engine : Engine := { State := Unit, init := (), step := step }

end CV.Engine.C19
