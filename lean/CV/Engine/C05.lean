/-
Line-protocol engine for C05 (transactions all-or-nothing and isolated): the shared store engine
(CV.Engine.StoreCore: `txn <idx> <ops>` = TxnRW, dumps, reads) plus
  txnro <op,op,…>                         a read-only transaction (`Store.TxnRO`), same op syntax as `txn`
  authz <tok> <kr> <kw> <kwp> <nr> <nw> <sr> <sw> <xw>
                                          the answers of token <tok>'s authorizer: the names (lists) for which
                                          KeyRead / KeyWrite / KeyWritePrefix / NodeRead / NodeWrite / ServiceRead /
                                          ServiceWrite / SessionWrite are allowed (everything else is denied)
  tapply <idx> <tok> <ops>                `Txn.Apply` (pre-check, Raft entry at <idx> if it gets that far, filter)
  tread <tok> <ops>                       `Txn.Read`
  http <idx> <tok> <ops>                  `HTTPHandlers.Txn` after decoding (routing by write count, op limit)
-/
import CV.Engine.StoreCore
import CV.Store.TxnEndpoint
namespace CV.Engine.C05
open CV CV.Store CV.Engine.StoreCore

/-- the allowed names per permission -/
structure AuthzTab where
  kr : List Key
  kw : List Key
  kwp : List Key
  nr : List String
  nw : List String
  sr : List String
  sw : List String
  xw : List String

def AuthzTab.authz (t : AuthzTab) : Authz :=
  ⟨t.kr.contains, t.kw.contains, t.kwp.contains, t.nr.contains, t.nw.contains, t.sr.contains, t.sw.contains,
   t.xw.contains⟩

structure St where
  store : Store.State
  toks : List (String × AuthzTab)

def showEpErrs (es : List (Nat × EpErr)) : String :=
  encList (es.map fun (i, e) => encNat i ++ ":" ++ (match e with | .pre p => p.name | .st x => x.name))

def showApply (o : ApplyOut) : String :=
  match o.errors with
  | [] => "ok:" ++ encList (o.results.map showTxnRes)
  | es => (if o.raft then "errs:" else "pre:") ++ showEpErrs es

def showRead (rs : List TxnRes) (es : List (Nat × EpErr)) (filtered : Bool) : String :=
  match es with
  | [] => "ok:" ++ encList (rs.map showTxnRes) ++ " filtered=" ++ encBool filtered
  | es =>
    (if es.any (fun p => match p.2 with | .pre _ => true | _ => false) then "pre:" else "errs:") ++ showEpErrs es

def findTok (st : St) (tok : String) : Option Authz := (st.toks.find? (·.1 == tok)).map (·.2.authz)

def step (st : St) (toks : List String) : St × String :=
  match toks with
  | ["reset"] => (⟨Store.State.empty, []⟩, "ok")
  | ["txnro", ops] =>
    match (decList ops).mapM parseTxnOp with
    | some l => let (rs, es) := txnRO st.store l; (st, showResult (.txn rs es))
    | none => (st, "bad-op")
  | ["authz", tok, kr, kw, kwp, nr, nw, sr, sw, xw] =>
    match (do
      let t : AuthzTab := ⟨← (decList kr).mapM decB, ← (decList kw).mapM decB, ← (decList kwp).mapM decB,
        ← (decList nr).mapM decS, ← (decList nw).mapM decS, ← (decList sr).mapM decS, ← (decList sw).mapM decS,
        ← (decList xw).mapM decS⟩
      pure t : Option AuthzTab) with
    | some t => ({ st with toks := (tok, t) :: st.toks.filter (·.1 != tok) }, "ok")
    | none => (st, "bad-op")
  | ["tapply", idx, tok, ops] =>
    match idx.toNat?, findTok st tok, (decList ops).mapM parseTxnOp with
    | some i, some a, some l =>
      let o := txnApply a st.store i l
      ({ st with store := o.state }, showApply o)
    | _, _, _ => (st, "bad-op")
  | ["tread", tok, ops] =>
    match findTok st tok, (decList ops).mapM parseTxnOp with
    | some a, some l => let r := txnRead a st.store l; (st, showRead r.1 r.2.1 r.2.2)
    | _, _ => (st, "bad-op")
  | ["http", idx, tok, ops] =>
    match idx.toNat?, findTok st tok, (decList ops).mapM parseTxnOp with
    | some i, some a, some l =>
      match httpTxn a st.store i l with
      | .tooMany => (st, "too-many")
      | .read rs es f => (st, "read:" ++ showRead rs es f)
      | .apply o => ({ st with store := o.state }, "apply:" ++ showApply o)
    | _, _, _ => (st, "bad-op")
  | _ => let (s', out) := StoreCore.step st.store toks; ({ st with store := s' }, out)

def engine : Engine := { State := St, init := ⟨Store.State.empty, []⟩, step := step }
end CV.Engine.C05
