/-
Line-protocol engine for C05 (transactions all-or-nothing and isolated): the shared store engine
(CV.Engine.StoreCore: `txn <idx> <ops>` = TxnRW, dumps, reads) plus
  txnro <op,op,…>        a read-only transaction (`Store.TxnRO`), same op syntax as `txn`
-/
import CV.Engine.StoreCore
namespace CV.Engine.C05
open CV CV.Store CV.Engine.StoreCore

def step (s : Store.State) (toks : List String) : Store.State × String :=
  match toks with
  | ["txnro", ops] =>
    match (decList ops).mapM parseTxnOp with
    | some l => let (rs, es) := txnRO s l; (s, showResult (.txn rs es))
    | none => (s, "bad-op")
  | _ => StoreCore.step s toks

def engine : Engine := { State := Store.State, init := Store.State.empty, step := step }
end CV.Engine.C05
