/- Line-protocol engine for C02 (snapshot / restore of the stand-alone instance).
   See go/overlay/internal/verifharness/c02.

   op:   rt <index rows> <kvs> <tombstones> <sessions> <peerings> <trust bundles>
           index row   key;value
           kv          key;payload;modify
           tombstone   key;index
           session     id;node;payload;modify;check+check+…      (check list may be empty)
           peering     id;payload;modify        trust bundle   peerName;payload;modify
         lists are comma separated, `-` = empty; strings in the CV.Proto encoding.
   out:  last=<header LastIndex> idx=… kvs=… tombs=… sess=… sc=<node;check;session,…> peer=… tb=… stream=<kind:count,…> usage=<count;index of usage row "kvs", or ->
         computed as  restore (snapshot s)  by the model functions the theorems are about. -/
import CV.Snap
import CV.SnapG
import CV.Store.Snap
namespace CV.Engine.C02
open CV CV.Snap

def parseIdx (tok : String) : Option IdxRow :=
  match tok.splitOn ";" with
  | [k, v] => do pure ⟨← decB k, ← v.toNat?⟩
  | _ => none

def parseKV (tok : String) : Option KV :=
  match tok.splitOn ";" with
  | [k, p, m] => do pure ⟨← decB k, ← decS p, ← m.toNat?⟩
  | _ => none

def parseTomb (tok : String) : Option Tomb :=
  match tok.splitOn ";" with
  | [k, i] => do pure ⟨← decB k, ← i.toNat?⟩
  | _ => none

def parseSess (tok : String) : Option Sess :=
  match tok.splitOn ";" with
  | [i, n, p, m, cs] => do
      let checks ← if cs.isEmpty then some [] else (cs.splitOn "+").mapM decB
      pure ⟨← decB i, ← decB n, ← decS p, ← m.toNat?, checks⟩
  | _ => none

def parseLate (tok : String) : Option Late :=
  match tok.splitOn ";" with
  | [i, p, m] => do pure ⟨← decB i, ← decS p, ← m.toNat?⟩
  | _ => none

def encIdx (l : List IdxRow) : String := encList (l.map fun r => encB r.key ++ ";" ++ toString r.value)
def encKVs (l : List KV) : String := encList (l.map fun e => encB e.key ++ ";" ++ encS e.payload ++ ";" ++ toString e.modify)
def encTombs (l : List Tomb) : String := encList (l.map fun t => encB t.key ++ ";" ++ toString t.index)
def encSess (l : List Sess) : String :=
  encList (l.map fun s => encB s.id ++ ";" ++ encB s.node ++ ";" ++ encS s.payload ++ ";" ++ toString s.modify ++ ";" ++
    "+".intercalate (s.checks.map encB))
def encSC (l : List SCheck) : String := encList (l.map fun c => encB c.node ++ ";" ++ encB c.check ++ ";" ++ encB c.session)
def encLate (l : List Late) : String := encList (l.map fun p => encB p.id ++ ";" ++ encS p.payload ++ ";" ++ toString p.modify)
def encRuns (l : List (String × Nat)) : String := encList (l.map fun (k, n) => k ++ ":" ++ toString n)

/-! ### `rts`: the store model (CV.Store.Snap)

   op:   rts <nodes> <svcs> <chks> <sessions> <kvs> <tombstones> <queries> <index>
           node   name;id;addr;create;modify          svc    node;id;name;port;create;modify
           chk    node;id;status;svcId;svcName;typ;sessName;output;create;modify
           sess   id;node;name;r|d;lockDelay;create;modify;check+check+…
           kv     key;valtoken;flags;session;lockIdx;create;modify      tomb  key;idx
           pq     id;session;create;modify            index  key;value
   out:  ok last=… nodes=… svcs=… chks=… sess=… sc=… kvs=… tombs=… pqs=… idx=…   of restoreS (snapshotS s),
         or err:<name> when a restorer refuses a record. -/
section StoreTie
open CV.Store

def pNode (tok : String) : Option Node :=
  match tok.splitOn ";" with
  | [n, i, a, c, m] => do pure ⟨← decS n, ← decS i, ← decS a, ← c.toNat?, ← m.toNat?⟩
  | _ => none
def pSvc (tok : String) : Option Svc :=
  match tok.splitOn ";" with
  | [n, i, nm, p, c, m] => do pure ⟨← decS n, ← decS i, ← decS nm, ← p.toNat?, ← c.toNat?, ← m.toNat?⟩
  | _ => none
def pChk (tok : String) : Option Chk :=
  match tok.splitOn ";" with
  | [n, i, st, si, sn, ty, se, o, c, m] => do
      pure ⟨← decS n, ← decS i, ← decS st, ← decS si, ← decS sn, ← decS ty, ← decS se, ← decS o, ← c.toNat?, ← m.toNat?⟩
  | _ => none
def pSess (tok : String) : Option Store.Sess :=
  match tok.splitOn ";" with
  | [i, n, nm, b, ld, c, m, cs] => do
      let beh ← if b == "r" then some Behavior.release else if b == "d" then some Behavior.delete else none
      let checks ← if cs.isEmpty then some [] else (cs.splitOn "+").mapM decS
      pure ⟨← decS i, ← decS n, ← decS nm, beh, checks, ← ld.toNat?, ← c.toNat?, ← m.toNat?⟩
  | _ => none
def pKV (tok : String) : Option Store.KV :=
  match tok.splitOn ";" with
  | [k, v, f, se, li, c, m] => do pure ⟨← decB k, v, ← f.toNat?, ← decS se, ← li.toNat?, ← c.toNat?, ← m.toNat?⟩
  | _ => none
def pTomb (tok : String) : Option Store.Tomb :=
  match tok.splitOn ";" with
  | [k, i] => do pure ⟨← decB k, ← i.toNat?⟩
  | _ => none
def pPQ (tok : String) : Option PQ :=
  match tok.splitOn ";" with
  | [i, se, c, m] => do pure ⟨← decS i, ← decS se, ← c.toNat?, ← m.toNat?⟩
  | _ => none
def pIdx (tok : String) : Option (String × Nat) :=
  match tok.splitOn ";" with
  | [k, v] => do pure (← decS k, ← v.toNat?)
  | _ => none

def sj (l : List String) : String := ";".intercalate l
def eNodes (l : List Node) : String := encList (l.map fun n => sj [encS n.name, encS n.id, encS n.addr, toString n.create, toString n.modify])
def eSvcs (l : List Svc) : String :=
  encList (l.map fun v => sj [encS v.node, encS v.id, encS v.name, toString v.port, toString v.create, toString v.modify])
def eChks (l : List Chk) : String :=
  encList (l.map fun c => sj [encS c.node, encS c.id, encS c.status, encS c.svcId, encS c.svcName, encS c.typ, encS c.sessName,
    encS c.output, toString c.create, toString c.modify])
def eSess (l : List Store.Sess) : String :=
  encList (l.map fun x => sj [encS x.id, encS x.node, encS x.name, (match x.behavior with | .release => "r" | .delete => "d"),
    toString x.lockDelay, toString x.create, toString x.modify, "+".intercalate (x.checks.map encS)])
def eSC (l : List SessCheck) : String := encList (l.map fun m => sj [encS m.node, encS m.check, encS m.session])
def eKVs (l : List Store.KV) : String :=
  encList (l.map fun e => sj [encB e.key, e.val, toString e.flags, encS e.session, toString e.lockIdx, toString e.create, toString e.modify])
def eTombs (l : List Store.Tomb) : String := encList (l.map fun t => sj [encB t.key, toString t.idx])
def ePQs (l : List PQ) : String := encList (l.map fun q => sj [encS q.id, encS q.session, toString q.create, toString q.modify])
def eIdx (l : List (String × Nat)) : String := encList (l.map fun r => sj [encS r.1, toString r.2])

def stepStore (n v c x k t q i : String) : String :=
  match (decList n).mapM pNode, (decList v).mapM pSvc, (decList c).mapM pChk, (decList x).mapM pSess,
        (decList k).mapM pKV, (decList t).mapM pTomb, (decList q).mapM pPQ, (decList i).mapM pIdx with
  | some nodes, some svcs, some chks, some sess, some kvs, some tombs, some pqs, some idx =>
    -- session_checks of the original is not sent (derived table, rebuilt by Restore.Session)
    let st : Store.State := { kvs := kvs, tombs := tombs, sessions := sess, sessChecks := [], nodes := nodes, svcs := svcs,
                              chks := chks, queries := pqs, index := idx }
    let sn := snapshotS st
    match restoreS sn with
    | .error e => "err:" ++ e.name
    | .ok r =>
      s!"ok last={sn.last} nodes={eNodes r.nodes} svcs={eSvcs r.svcs} chks={eChks r.chks} sess={eSess r.sessions} sc={eSC r.sessChecks} kvs={eKVs r.kvs} tombs={eTombs r.tombs} pqs={ePQs r.queries} idx={eIdx r.index}"
  | _, _, _, _, _, _, _, _ => "bad-op"

end StoreTie

/-! ### `rtg`: the plain persisted tables (CV.SnapG)

   op:   rtg <index rows> <rows of the tables persisted before the index table> <rows of the tables persisted after it>
           row   table;key;payload;create;modify;aux(0|1)      table = memdb table name (CV.SnapG.tables)
   out:  last=… idx=… rows=… late=… kinds=<record kinds of the model's stream, consecutive repetitions dropped>
         of SnapG.restore (SnapG.snapshot s). -/
section TablesTie

def tabOf (name : String) : Option Nat :=
  let i := SnapG.tables.findIdx (·.name == name)
  if i < SnapG.tables.length then some i else none

def tabName (t : Nat) : String :=
  match SnapG.tables[t]? with
  | some d => d.name
  | none => "?"

def parseRow (tok : String) : Option SnapG.Row :=
  match tok.splitOn ";" with
  | [t, k, p, c, m, a] => do
      let aux ← if a == "1" then some true else if a == "0" then some false else none
      pure ⟨← tabOf t, ← decB k, ← decS p, ← c.toNat?, ← m.toNat?, aux⟩
  | _ => none

def encRows (l : List SnapG.Row) : String :=
  encList (l.map fun r => tabName r.tab ++ ";" ++ encB r.key ++ ";" ++ encS r.payload ++ ";" ++ toString r.create ++ ";" ++
    toString r.modify ++ ";" ++ (if r.aux then "1" else "0"))

def stepTables (i e l : String) : String :=
  match (decList i).mapM parseIdx, (decList e).mapM parseRow, (decList l).mapM parseRow with
  | some idx, some rows, some late =>
    let st : SnapG.State := ⟨idx, rows, late⟩
    let sn := SnapG.snapshot st
    let r := SnapG.restore sn
    s!"last={sn.last} idx={encIdx r.index} rows={encRows r.rows} late={encRows r.late} kinds={encList (SnapG.kindSeq sn.recs)}"
  | _, _, _ => "bad-op"

end TablesTie

def step (_ : Unit) (toks : List String) : Unit × String :=
  match toks with
  | ["rt", i, k, t, s, p, b] =>
    match (decList i).mapM parseIdx, (decList k).mapM parseKV, (decList t).mapM parseTomb,
          (decList s).mapM parseSess, (decList p).mapM parseLate, (decList b).mapM parseLate with
    | some idx, some kvs, some tombs, some sess, some peer, some bund =>
      -- session_checks of the original is not sent: it is a derived table, the model rebuilds it
      let st : Snap.State := ⟨idx, kvs, tombs, sess, [], peer, bund⟩
      let sn := snapshot st
      let r := restore sn
      let usage := match usageKvsAfterRestore r with
        | some (c, i) => s!"{c};{i}"
        | none => "-"
      ((), s!"last={sn.last} idx={encIdx r.index} kvs={encKVs r.kvs} tombs={encTombs r.tombs} sess={encSess r.sessions} sc={encSC r.sessionChecks} peer={encLate r.peerings} tb={encLate r.bundles} stream={encRuns (kindRuns sn.recs)} usage={usage}")
    | _, _, _, _, _, _ => ((), "bad-op")
  | ["rts", n, v, c, x, k, t, q, i] => ((), stepStore n v c x k t q i)
  | ["rtg", i, e, l] => ((), stepTables i e l)
  | _ => ((), "bad-op")

def engine : Engine := { State := Unit, init := (), step := step }

end CV.Engine.C02
