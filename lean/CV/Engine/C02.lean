/- Line-protocol engine for C02 (snapshot / restore of the stand-alone instance).
   See go/overlay/internal/verifharness/c02.

   op:   rt <index rows> <kvs> <tombstones> <sessions> <peerings> <trust bundles>
           index row   key;value
           kv          key;payload;modify
           tombstone   key;index
           session     id;node;payload;modify;check+check+…      (check list may be empty)
           peering     id;payload;modify        trust bundle   peerName;payload;modify
         lists are comma separated, `-` = empty; strings in the CV.Proto encoding.
   out:  last=<header LastIndex> idx=… kvs=… tombs=… sess=… sc=<node;check;session,…> peer=… tb=… stream=<kind:count,…> usage=<count;index of usage row "kvs", or ->
         computed as  restore (snapshot s)  by the model functions the theorems are about. -/
import CV.Snap
namespace CV.Engine.C02
open CV CV.Snap

def parseIdx (tok : String) : Option IdxRow :=
  match tok.splitOn ";" with
  | [k, v] => do pure ⟨← decB k, ← v.toNat?⟩
  | _ => none

def parseKV (tok : String) : Option KV :=
  match tok.splitOn ";" with
  | [k, p, m] => do pure ⟨← decB k, ← decS p, ← m.toNat?⟩
  | _ => none

def parseTomb (tok : String) : Option Tomb :=
  match tok.splitOn ";" with
  | [k, i] => do pure ⟨← decB k, ← i.toNat?⟩
  | _ => none

def parseSess (tok : String) : Option Sess :=
  match tok.splitOn ";" with
  | [i, n, p, m, cs] => do
      let checks ← if cs.isEmpty then some [] else (cs.splitOn "+").mapM decB
      pure ⟨← decB i, ← decB n, ← decS p, ← m.toNat?, checks⟩
  | _ => none

def parseLate (tok : String) : Option Late :=
  match tok.splitOn ";" with
  | [i, p, m] => do pure ⟨← decB i, ← decS p, ← m.toNat?⟩
  | _ => none

def encIdx (l : List IdxRow) : String := encList (l.map fun r => encB r.key ++ ";" ++ toString r.value)
def encKVs (l : List KV) : String := encList (l.map fun e => encB e.key ++ ";" ++ encS e.payload ++ ";" ++ toString e.modify)
def encTombs (l : List Tomb) : String := encList (l.map fun t => encB t.key ++ ";" ++ toString t.index)
def encSess (l : List Sess) : String :=
  encList (l.map fun s => encB s.id ++ ";" ++ encB s.node ++ ";" ++ encS s.payload ++ ";" ++ toString s.modify ++ ";" ++
    "+".intercalate (s.checks.map encB))
def encSC (l : List SCheck) : String := encList (l.map fun c => encB c.node ++ ";" ++ encB c.check ++ ";" ++ encB c.session)
def encLate (l : List Late) : String := encList (l.map fun p => encB p.id ++ ";" ++ encS p.payload ++ ";" ++ toString p.modify)
def encRuns (l : List (String × Nat)) : String := encList (l.map fun (k, n) => k ++ ":" ++ toString n)

def step (_ : Unit) (toks : List String) : Unit × String :=
  match toks with
  | ["rt", i, k, t, s, p, b] =>
    match (decList i).mapM parseIdx, (decList k).mapM parseKV, (decList t).mapM parseTomb,
          (decList s).mapM parseSess, (decList p).mapM parseLate, (decList b).mapM parseLate with
    | some idx, some kvs, some tombs, some sess, some peer, some bund =>
      -- session_checks of the original is not sent: it is a derived table, the model rebuilds it
      let st : Snap.State := ⟨idx, kvs, tombs, sess, [], peer, bund⟩
      let sn := snapshot st
      let r := restore sn
      let usage := match usageKvsAfterRestore r with
        | some (c, i) => s!"{c};{i}"
        | none => "-"
      ((), s!"last={sn.last} idx={encIdx r.index} kvs={encKVs r.kvs} tombs={encTombs r.tombs} sess={encSess r.sessions} sc={encSC r.sessionChecks} peer={encLate r.peerings} tb={encLate r.bundles} stream={encRuns (kindRuns sn.recs)} usage={usage}")
    | _, _, _, _, _, _ => ((), "bad-op")
  | _ => ((), "bad-op")

def engine : Engine := { State := Unit, init := (), step := step }

end CV.Engine.C02
