/- Line-protocol engine for the service-level part of C18 (CV.ResSvc). Ops start with `S`.
   See go/overlay/internal/verifharness/c18/svcseq.go. -/
import CV.ResSvc
import CV.Engine.C18Codec
namespace CV.Engine.C18Svc
open CV CV.Res CV.Res.Svc CV.Engine.C18

/-! ### codecs
  sres   := <res>!<gen>!<status>!<delTs>!<fins>!<other>!<tomb>
  status := - | key~obsGen~cond~upd ^ …
  bop    := w$<sres> | d$<id>$<vsn>
  sched  := - | <bops>&<bops>…        bops := - | <bop>%<bop>…
  hints  := uid;gen;tombUid;tombGen;upd;now      (empty string = not observed)
-/

def optS (t : String) : Option (Option String) :=
  if t == "-" then some none else (decS t).map some

def encOptS : Option String → String
  | none => "-"
  | some s => encS s

def parseStat (t : String) : Option (String × SStat) :=
  match t.splitOn "~" with
  | [k, g, c, u] => do pure (← decS k, ⟨← decS g, ← c.toNat?, ← decS u⟩)
  | _ => none

def encStat (p : String × SStat) : String :=
  "~".intercalate [encS p.1, encS p.2.obsGen, toString p.2.cond, encS p.2.upd]

def parseStatus (t : String) : Option (List (String × SStat)) :=
  if t == "-" then some [] else (t.splitOn "^").mapM parseStat

def encStatus (l : List (String × SStat)) : String :=
  if l.isEmpty then "-" else "^".intercalate (l.map encStat)

def parseSRes (t : String) : Option SRes :=
  match t.splitOn "!" with
  | [r, g, st, dt, f, o, tb] => do
    let r ← parseRes r
    let g ← decS g
    let st ← parseStatus st
    let dt ← optS dt
    let f ← optS f
    let o ← o.toNat?
    let tb ← if tb == "-" then some none else (parseID tb).map some
    pure ⟨r, { gen := g, status := st, delTs := dt, fins := f, other := o, tomb := tb }⟩
  | _ => none

def encSRes (s : SRes) : String :=
  "!".intercalate [encRes s.r, encS s.x.gen, encStatus s.x.status, encOptS s.x.delTs, encOptS s.x.fins,
    toString s.x.other, (match s.x.tomb with | none => "-" | some i => encID i)]

def encSRows (l : List SRes) : String :=
  if l.isEmpty then "-" else "+".intercalate (l.map encSRes)

def parseBOp (t : String) : Option BOp :=
  match t.splitOn "$" with
  | ["w", r] => do pure (.write (← parseSRes r))
  | ["d", i, v] => do pure (.delete (← parseID i) (← decS v))
  | _ => none

def parseBOps (t : String) : Option (List BOp) :=
  if t == "-" then some [] else (t.splitOn "%").mapM parseBOp

def parseSched (t : String) : Option Sched :=
  if t == "-" then some [] else (t.splitOn "&").mapM parseBOps

def parseHints (t : String) : Option Hints :=
  match t.splitOn ";" with
  | [u, g, tu, tg, up, nw] => do
    pure ⟨← decB u, ← decS g, ← decB tu, ← decS tg, ← decS up, ← decS nw⟩
  | _ => none

def encErr : SErr → String
  | .aborted => "aborted"
  | .abortedStatus => "aborted"
  | .wrongUid => "wronguid"
  | .notFound => "notfound"
  | .invalid why => "invalid:" ++ why
  | .internal => "internal"

/-! ### state: the service world + every minted token seen so far (freshness of the hints is checked here) -/

structure SSt where
  sw   : SW := SW.init
  seen : List String := []

def withDump (w : SW) (out : String) : String := out ++ " ## " ++ encSRows w.dump

/-- tokens of the hints that must be new: everything non-empty except `upd` / `now` -/
def mintTokens (h : Hints) : List String :=
  ([encB h.uid, encS h.gen, encB h.tombUid, encS h.tombGen]).filter (· ≠ "=")

def stale (st : SSt) (h : Hints) : Bool :=
  let t := mintTokens h
  t.any (st.seen.contains ·) || t.eraseDups.length ≠ t.length

/-- a schedule that is not used up means harness and model disagree about the number of backend mutations -/
def leftover (s : Sched) : String := if s.isEmpty then "" else s!" sched-left={s.length}"

def step (st : SSt) (toks : List String) : Option (SSt × String) :=
  match toks with
  | ["Snew"] => some ({}, "ok")
  | ["Sw", r, h, tm, sc] => do
    let r ← parseSRes r; let h ← parseHints h; let tm ← decBool tm; let sc ← parseSched sc
    if stale st h then some (st, "hint-not-fresh") else
    let (w', s', res) := st.sw.svcWrite sc r h tm
    let out := match res with | .ok v => "ok " ++ encSRes v | .error e => encErr e
    some ({ sw := w', seen := mintTokens h ++ st.seen }, withDump w' (out ++ leftover s'))
  | ["Sws", i, k, g, c, v, h, sc] => do
    let i ← parseID i; let k ← decS k; let g ← decS g; let c ← c.toNat?; let v ← decS v
    let h ← parseHints h; let sc ← parseSched sc
    if stale st h then some (st, "hint-not-fresh") else
    let (w', s', res) := st.sw.svcWriteStatus sc i k ⟨g, c, ""⟩ v h
    let out := match res with | .ok v => "ok " ++ encSRes v | .error e => encErr e
    some ({ sw := w', seen := mintTokens h ++ st.seen }, withDump w' (out ++ leftover s'))
  | ["Sd", i, v, h, tm, sc] => do
    let i ← parseID i; let v ← decS v; let h ← parseHints h; let tm ← decBool tm; let sc ← parseSched sc
    if stale st h then some (st, "hint-not-fresh") else
    let (w', s', res) := st.sw.svcDelete sc i v h tm
    let out := match res with | .ok _ => "ok" | .error e => encErr e
    some ({ sw := w', seen := mintTokens h ++ st.seen }, withDump w' (out ++ leftover s'))
  | ["Sr", i] => do
    let i ← parseID i
    some (st, match st.sw.svcRead i with | .ok v => "ok " ++ encSRes v | .error e => encErr e)
  | ["Sl", gv, q] => do
    let gv ← decB gv; let q ← parseQuery q
    some (st, encSRows (st.sw.svcList gv q))
  | ["Slo", i] => do
    let i ← parseID i
    some (st, match st.sw.svcListByOwner i with | .ok l => encSRows l | .error e => encErr e)
  | ["Sb", b] => do
    let b ← parseBOp b
    let (w', out) : SW × String := match b with
      | .write sr => let (w', r, _) := st.sw.beWrite sr; (w', encWRes r)
      | .delete id v => let (w', ok) := st.sw.beDelete id v; (w', if ok then "ok" else "cas")
    some ({ st with sw := w' }, withDump w' out)
  | _ => none

end CV.Engine.C18Svc
