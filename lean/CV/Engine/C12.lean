/- Line-protocol engine for C12 (Connect CA). See go/overlay/internal/verifharness/c12.

  regexps                                                      the four ParseCertURI patterns the model mirrors
  new <dc>                                                     fresh CA tables, local datacenter
  ca <idx> setconfig <cidx> <provider> <cluster> <tag>         CAOpSetConfig
  ca <idx> setroots <cidx> <roots>                             CAOpSetRoots        roots = id;active,...
  ca <idx> setprov <id> | delprov <id>                         CAOpSet/DeleteProviderState
  ca <idx> setboth <rcidx> <roots> <ccidx> <provider> <cluster> <tag>   CAOpSetRootsAndConfig
  ca <idx> incserial | badop
  mgr <provider-state id | none> <key> <cert> <match>                the provider the leader installed and whether its row holds a key / a signing certificate; answers the active root
  render <kind;field;...>                                      id.URI().String() and ParseCertURI of it
  cansign <cluster> <url>                                      ParseCertURI + SpiffeIDSigningForCluster(cluster).CanSign
  restore                                                      FSM snapshot + restore; answers the tables
  rate <k|none> / leader / clock <expired>                     stored CSRMaxPerSecond (key) / new CAManager / leader clock vs root expiry
  swap                                                         switch between two independent systems (primary / secondary datacenter)
  rotreq <new root id|none>                                    the roots+index the leader sends to install a new active root
  prunereq <expired ids>                                       the roots+index pruneCARoots sends
  sign <mesh> <acl> <svcTable> <nodeTable> <uris> <nEmails> <dns> <ips>
       tables = name;bit,...   uris = scheme;host;path;rawpath;str,...
-/
import CV.Ca
namespace CV.Engine.C12
open CV CV.Ca

def parseReqRoot (tok : String) : Option ReqRoot :=
  match tok.splitOn ";" with
  | [i, a] => do
      let id ← decB i; let act ← decBool a
      pure ⟨id, act⟩
  | _ => none

def parseUrl (tok : String) : Option Url :=
  match tok.splitOn ";" with
  | [s, h, p, r, t] => do
      let s ← decB s; let h ← decB h; let p ← decB p; let r ← decB r; let t ← decB t
      pure ⟨s, h, p, r, t⟩
  | _ => none

def parseEntry (tok : String) : Option (Bytes × Bool) :=
  match tok.splitOn ";" with
  | [n, b] => do
      let n ← decB n; let b ← decBool b
      pure (n, b)
  | _ => none

def lookup (t : List (Bytes × Bool)) (n : Bytes) : Option Bool := (t.find? (·.1 = n)).map (·.2)

/-- insertion sort by bytewise order of the key (what a memdb string index iterates in) -/
def insertSorted {α : Type} (key : α → Bytes) (x : α) : List α → List α
  | [] => [x]
  | y :: ys => if key x < key y then x :: y :: ys else y :: insertSorted key x ys
def sortByKey {α : Type} (key : α → Bytes) (l : List α) : List α := l.foldr (insertSorted key) []

def dumpState (s : CaState) : String :=
  let roots := encList ((sortByKey (·.id) s.roots).map fun r =>
    s!"{encB r.id};{encBool r.active};{r.create};{r.mod}")
  let cfg := match s.config with
    | some c => s!"{encB c.provider};{encB c.cluster};{encB c.tag};{c.create};{c.mod}"
    | none => "none"
  let provs := encList ((sortByKey (·.id) s.provs).map fun p => s!"{encB p.id};{p.create};{p.mod}")
  let ser := match s.serial with
    | some n => toString n
    | none => "none"
  s!"roots={roots} ridx={s.rootsIdx} cfg={cfg} pidx={s.provIdx} provs={provs} ser={ser}"

def resStr : CaRes → String
  | .nil => "nil"
  | .bool b => if b then "true" else "false"
  | .num n => s!"n={n}"
  | .err .activeCount => "err:active-count"
  | .err .missingId => "err:missing-id"
  | .err .casMismatch => "err:cas-mismatch"
  | .err .invalidOp => "err:invalid-op"

def parseCmd : List String → Option CaCmd
  | ["setconfig", cidx, p, c, t] => do
      let cidx ← cidx.toNat?; let p ← decB p; let c ← decB c; let t ← decB t
      pure (.setConfig ⟨p, c, t, cidx⟩)
  | ["setroots", cidx, rs] => do
      let cidx ← cidx.toNat?; let rs ← (decList rs).mapM parseReqRoot
      pure (.setRoots cidx rs)
  | ["setprov", id] => do let id ← decB id; pure (.setProv id)
  | ["delprov", id] => do let id ← decB id; pure (.delProv id)
  | ["setboth", rc, rs, cc, p, c, t] => do
      let rc ← rc.toNat?; let rs ← (decList rs).mapM parseReqRoot
      let cc ← cc.toNat?; let p ← decB p; let c ← decB c; let t ← decB t
      pure (.setBoth rc rs ⟨p, c, t, cc⟩)
  | ["incserial"] => some .incSerial
  | ["badop"] => some .invalid
  | _ => none

def errStr : Err → String
  | .uriCount => "uri-count"
  | .email => "email"
  | .parse .scheme => "scheme"
  | .parse .escape => "escape"
  | .parse .format => "format"
  | .entOnly => "ent-only"
  | .kind => "kind"
  | .acl => "acl"
  | .dc => "dc"
  | .trustDomain => "trust-domain"
  | .noConfig => "no-config"
  | .noActiveRoot => "no-active-root"
  | .providerUninit => "provider-uninit"
  | .rateLimited => "rate-limited"
  | .rootExpired => "root-expired"
  | .noSigningCert => "no-signing-cert"
  | .keyMismatch => "key-mismatch"

def idStr : Id → String
  | .service h ap ns dc svc => s!"service;{encB h};{encB ap};{encB ns};{encB dc};{encB svc}"
  | .agent h ap dc n => s!"agent;{encB h};{encB ap};{encB dc};{encB n}"
  | .gateway h ap dc => s!"gateway;{encB h};{encB ap};{encB dc}"
  | .server h dc => s!"server;{encB h};{encB dc}"
  | .signing c d => s!"signing;{encB c};{encB d}"

/-- what a verifier reads out of the issued certificate: its URI SANs, each parsed again -/
def certIds (c : Cert) : String :=
  encList (c.uris.map fun u =>
    match parseId u with
    | .ok id => idStr id
    | .error _ => "unparseable")

/-- the name the model asks the authorizer about must be in the table the harness sent -/
def tableCovers (svc node : List (Bytes × Bool)) (csr : Csr) : Bool :=
  match csr.uris with
  | [u] =>
    match parseId u with
    | .ok id =>
      match scopeOf id with
      | some (.service n) => (lookup svc n).isSome
      | some (.node n) => (lookup node n).isSome
      | _ => true
    | .error _ => true
  | _ => true

/-- `render` operand: kind;field;… -/
def parseIdTok (tok : String) : Option Id :=
  match tok.splitOn ";" with
  | ["service", h, ap, ns, dc, svc] => do
      let h ← decB h; let ap ← decB ap; let ns ← decB ns; let dc ← decB dc; let svc ← decB svc
      pure (.service h ap ns dc svc)
  | ["agent", h, ap, dc, n] => do
      let h ← decB h; let ap ← decB ap; let dc ← decB dc; let n ← decB n
      pure (.agent h ap dc n)
  | ["gateway", h, ap, dc] => do
      let h ← decB h; let ap ← decB ap; let dc ← decB dc
      pure (.gateway h ap dc)
  | ["server", h, dc] => do
      let h ← decB h; let dc ← decB dc
      pure (.server h dc)
  | ["signing", c, d] => do
      let c ← decB c; let d ← decB d
      pure (.signing c d)
  | _ => none

def parseResStr : Except PErr Id → String
  | .ok id => idStr id
  | .error .scheme => "err:scheme"
  | .error .escape => "err:escape"
  | .error .format => "err:format"

/-- request roots in a canonical order: by id, inactive before active -/
def reqRootsStr (rs : List ReqRoot) : String :=
  encList ((sortByKey (fun r : ReqRoot => r.id ++ [if r.active then 1 else 0]) rs).map fun r =>
    s!"{encB r.id};{encBool r.active}")

def step (s : Sys) (toks : List String) : Sys × String :=
  match toks with
  | ["render", idt] =>
    match parseIdTok idt with
    | some id => (s, s!"str={encB (uriOf id).str} parse={parseResStr (parseId (uriOf id))}")
    | none => (s, "bad-op")
  | ["cansign", cluster, ut] =>
    match decB cluster, parseUrl ut with
    | some cluster, some u =>
      match parseId u with
      | .ok id => (s, s!"{parseResStr (.ok id)} cansign={encBool (canSign cluster id)}")
      | .error e => (s, parseResStr (.error e))
    | _, _ => (s, "bad-op")
  | ["restore"] =>
    let ca' := restoreCa s.ca
    ({ s with ca := ca' }, dumpState ca')
  | ["rate", l] =>
    match (if l == "none" then some none else l.toNat?.map some) with
    | some l => ({ s with rate := l }, "ok")
    | none => (s, "bad-op")
  | ["leader"] => ({ s with limiter := none, rootExpired := false }, "ok")
  | ["clock", e] =>
    match decBool e with
    | some e => ({ s with rootExpired := e }, "ok")
    | none => (s, "bad-op")
  | ["rotreq", n] =>
    match (if n == "none" then some none else (decB n).map some) with
    | some n => (s, s!"cidx={s.ca.rootsIdx} roots={reqRootsStr (rotationRoots s.ca.roots n)}")
    | none => (s, "bad-op")
  | ["prunereq", exp] =>
    match (decList exp).mapM decB with
    | some exp => (s, s!"cidx={s.ca.rootsIdx} roots={reqRootsStr (pruneRoots s.ca.roots (fun i => exp.contains i))}")
    | none => (s, "bad-op")
  | ["new", dc] =>
    match decB dc with
    | some dc => ({ ca := {}, dc := dc, mgrProv := none }, "ok")
    | none => (s, "bad-op")
  | "ca" :: idx :: rest =>
    match idx.toNat?, parseCmd rest with
    | some idx, some cmd =>
      let (ca', r) := caStep s.ca idx cmd
      ({ s with ca := ca' }, s!"{resStr r} | {dumpState ca'}")
    | _, _ => (s, "bad-op")
  | ["regexps"] => (s, encList (regexpSources.map encS))
  | ["mgr", p, k, c, m] =>
    match (if p == "none" then some none else (decB p).map some), decBool k, decBool c, decBool m with
    | some p, some k, some c, some m =>
      ({ s with mgrProv := p, provKey := k, provCert := c, provMatch := m }, "active=" ++ encList ((activeRoots s.ca).map (encB ·.id)))
    | _, _, _, _ => (s, "bad-op")
  | ["sign", mesh, acl, svcT, nodeT, uris, nEmails, dns, ips] =>
    match decBool mesh, decBool acl, (decList svcT).mapM parseEntry, (decList nodeT).mapM parseEntry,
          (decList uris).mapM parseUrl, nEmails.toNat?, (decList dns).mapM decB, (decList ips).mapM decB with
    | some mesh, some acl, some svcT, some nodeT, some uris, some nEmails, some dns, some ips =>
      let csr : Csr := ⟨uris, nEmails, dns, ips⟩
      if !tableCovers svcT nodeT csr then (s, "authz-table-miss") else
      let az : Authz := { serviceWrite := fun n => lookup svcT n == some true,
                          nodeWrite := fun n => lookup nodeT n == some true,
                          meshWrite := mesh, aclWrite := acl }
      match signStep s az csr with
      | (s', .ok c) =>
        (s', s!"ok ids={certIds c} uris={encList (c.uris.map (encB ·.str))} serial={c.serial} root={encB c.issuer} dns={encList (c.dns.map encB)} ips={encList (c.ips.map encB)} emails={c.emails} ca={encBool c.isCA} caops=incserial")
      | (s', .error .keyMismatch) => (s', "err key-mismatch caops=incserial")
      | (s', .error e) => (s', s!"err {errStr e} caops=-")
    | _, _, _, _, _, _, _, _ => (s, "bad-op")
  | _ => (s, "bad-op")

/-- two independent systems (a primary and a secondary datacenter); `swap` exchanges them -/
structure St where
  cur : Sys := {}
  other : Sys := {}

def step2 (st : St) (toks : List String) : St × String :=
  match toks with
  | ["swap"] => ({ cur := st.other, other := st.cur }, "ok")
  | _ => let (s', out) := step st.cur toks; ({ st with cur := s' }, out)

def engine : Engine := { State := St, init := {}, step := step2 }

end CV.Engine.C12
