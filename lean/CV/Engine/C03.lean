/- Line-protocol engine for C03 (KV store = sequential versioned map): the shared store engine. -/
import CV.Engine.StoreCore
namespace CV.Engine.C03
def engine : CV.Engine := CV.Engine.StoreCore.engine
end CV.Engine.C03
