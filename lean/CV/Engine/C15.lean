/- Line-protocol engine for C15 (discovery-chain compilation). See go/overlay/internal/verifharness/c15.

Separators by nesting level:  `,` items · `|` fields · `!` sub-items · `;` sub-fields · `+` sub-sub-items ·
`~` sub-sub-fields; `-` is the empty list / absent value at every level; strings are `CV.encS` tokens.

  compile <ctx> <routers> <splitters> <resolvers> <services> <proxy>     one-shot `discoverychain.Compile`
  reset | put <K> <item> | del <K> <name> | dump | chain <ctx>            the config-entry store
-/
import CV.Chain
namespace CV.Engine.C15
open CV CV.Chain

def lst (sep : String) (tok : String) : List String := if tok == "-" then [] else tok.splitOn sep

def pOpts6 (sep : String) (tok : String) : Option Opts :=
  match (tok.splitOn sep).mapM decS with
  | some [a, b, c, d, e, f] => some ⟨a, b, c, d, e, f⟩
  | _ => none

def pCtx (tok : String) : Option Ctx :=
  match tok.splitOn ";" with
  | [a, b, c, d, e, f, g, h] => do
    pure { svc := ← decS a, ns := ← decS b, part := ← decS c, dc := ← decS d, td := ← decS e,
           ovMgw := ← decS f, ovProto := ← decS g, ovCT := ← h.toNat? }
  | _ => none

def pRoute (tok : String) : Option Route :=
  match (tok.splitOn ";").mapM decS with
  | some [p, a, b, c, d] => some ⟨p, { svc := a, subset := b, ns := c, part := d }⟩
  | _ => none

def pRouter (tok : String) : Option (String × List Route) :=
  match tok.splitOn "|" with
  | [n, rs] => do pure (← decS n, ← (lst "!" rs).mapM pRoute)
  | _ => none

def pSplit (tok : String) : Option Split :=
  match tok.splitOn ";" with
  | [w, a, b] => do pure ⟨← w.toNat?, ← decS a, ← decS b⟩
  | _ => none

def pSplitter (tok : String) : Option (String × List Split) :=
  match tok.splitOn "|" with
  | [n, ss] => do pure (← decS n, ← (lst "!" ss).mapM pSplit)
  | _ => none

def pSubset (tok : String) : Option (String × Nat) :=
  match tok.splitOn ";" with
  | [n, d] => do pure (← decS n, ← d.toNat?)
  | _ => none

def pFailover (tok : String) : Option (String × Failover) :=
  match tok.splitOn ";" with
  | [k, a, b, c, dcs, ts] => do
    pure (← decS k, { svc := ← decS a, subset := ← decS b, ns := ← decS c,
                      dcs := ← (lst "+" dcs).mapM decS, targets := ← (lst "+" ts).mapM (pOpts6 "~") })
  | _ => none

def pResolver (tok : String) : Option (String × Resolver) :=
  match tok.splitOn "|" with
  | [n, ds, subs, rd, fo, ct, rt, lb] => do
    let redirect ← if rd == "-" then pure none else (pOpts6 ";" rd).map some
    let lb' ← if lb == "-" then pure none else (decS lb).map some
    pure (← decS n, { defaultSubset := ← decS ds, subsets := ← (lst "!" subs).mapM pSubset, redirect := redirect,
                      failover := ← (lst "!" fo).mapM pFailover, ct := ← ct.toNat?, rt := ← rt.toNat?, lb := lb' })
  | _ => none

def pService (tok : String) : Option (String × SvcDef) :=
  match (tok.splitOn "|").mapM decS with
  | some [n, p, x, m] => some (n, ⟨p, x, m⟩)
  | _ => none

def pProxy (tok : String) : Option (Option ProxyDef) :=
  if tok == "-" then some none
  else match (tok.splitOn "|").mapM decS with
    | some [p, m] => some (some ⟨p, m⟩)
    | _ => none

def pEntries (r s v d p : String) : Option Entries := do
  pure { routers := ← (lst "," r).mapM pRouter, splitters := ← (lst "," s).mapM pSplitter,
         resolvers := ← (lst "," v).mapM pResolver, services := ← (lst "," d).mapM pService, proxy := ← pProxy p }

/-! ### printing -/

def eLb (lb : Option String) : String :=
  match lb with
  | some p => encS p
  | none => "-"

def eList (sep : String) (l : List String) : String := if l.isEmpty then "-" else sep.intercalate l

def eNode (kv : String × Node) : String :=
  match kv.2 with
  | .router rs => encS kv.1 ++ "|R|" ++ eList "!" (rs.map fun r => encS r.1 ++ ";" ++ encS r.2)
  | .splitter ss lb => encS kv.1 ++ "|S|" ++ eLb lb ++ "|" ++
      eList "!" (ss.map fun s => toString s.weight ++ ";" ++ encS s.next ++ ";" ++ encS s.dsvc ++ ";" ++ encS s.dsub)
  | .resolver d ct rt tgt fo lb => encS kv.1 ++ "|V|" ++ encBool d ++ "|" ++ toString ct ++ "|" ++ toString rt ++ "|" ++
      encS tgt ++ "|" ++ eList "+" (fo.map encS) ++ "|" ++ eLb lb

def eTarget (kv : String × TInfo) : String :=
  let i := kv.2
  "|".intercalate [encS kv.1, encS i.t.svc, encS i.t.subset, encS i.t.ns, encS i.t.part, encS i.t.dc, encS i.t.peer,
    toString i.ct, encBool i.external, encS i.sni, encS i.mgw, toString i.subsetDef]

/-- sort an association list by key (`sortKeys` order) -/
def sortByKey {α : Type} (l : List (String × α)) : List (String × α) :=
  (sortKeys (akeys l)).filterMap fun k => (alook k l).map fun v => (k, v)

def eErr : Err → String
  | .badRequest => "bad-request" | .protoMismatch => "proto-mismatch" | .circularRef => "circular-ref"
  | .circularRedirect => "circular-redirect" | .noSubset => "no-subset" | .extRedirect => "ext-redirect"
  | .extSubsets => "ext-subsets" | .extFailover => "ext-failover" | .noAdvRouting => "no-adv-routing"
  | .internal _ => "internal"

def eResult (r : Except Err Chain) : String :=
  match r with
  | .error e => "err " ++ eErr e
  | .ok c => "ok p=" ++ encS c.proto ++ " s=" ++ encS c.start ++ " d=" ++ encBool c.isDefault ++ " c=" ++ encBool c.customized ++
      " n=" ++ eList "," ((sortByKey c.nodes).map eNode) ++ " t=" ++ eList "," ((sortByKey c.targets).map eTarget)

/-! ### store dump (canonical: each table sorted by name) -/

def eOpts6 (sep : String) (o : Opts) : String := sep.intercalate (o.fields.map encS)

def eRouter (kv : String × List Route) : String :=
  encS kv.1 ++ "|" ++ eList "!" (kv.2.map fun r => ";".intercalate [encS r.pfx, encS r.dest.svc, encS r.dest.subset, encS r.dest.ns, encS r.dest.part])

def eSplitter (kv : String × List Split) : String :=
  encS kv.1 ++ "|" ++ eList "!" (kv.2.map fun s => toString s.weight ++ ";" ++ encS s.svc ++ ";" ++ encS s.subset)

def eFailover (kf : String × Failover) : String :=
  ";".intercalate [encS kf.1, encS kf.2.svc, encS kf.2.subset, encS kf.2.ns, eList "+" (kf.2.dcs.map encS),
    eList "+" (kf.2.targets.map (eOpts6 "~"))]

def eResolver (kv : String × Resolver) : String :=
  let r := kv.2
  "|".intercalate [encS kv.1, encS r.defaultSubset,
    eList "!" ((sortByKey r.subsets).map fun s => encS s.1 ++ ";" ++ toString s.2),
    (match r.redirect with | some o => eOpts6 ";" o | none => "-"),
    eList "!" ((sortByKey r.failover).map eFailover), toString r.ct, toString r.rt, eLb r.lb]

def eService (kv : String × SvcDef) : String := "|".intercalate [encS kv.1, encS kv.2.proto, encS kv.2.extSNI, encS kv.2.mgw]

def eStore (S : Entries) : String :=
  "R=" ++ eList "," ((sortByKey S.routers).map eRouter) ++ " S=" ++ eList "," ((sortByKey S.splitters).map eSplitter) ++
  " V=" ++ eList "," ((sortByKey S.resolvers).map eResolver) ++ " D=" ++ eList "," ((sortByKey S.services).map eService) ++
  " P=" ++ (match S.proxy with | some p => encS p.proto ++ "|" ++ encS p.mgw | none => "-")

def pEntry (k item : String) : Option Entry :=
  match k with
  | "R" => (pRouter item).map fun x => .router x.1 x.2
  | "S" => (pSplitter item).map fun x => .splitter x.1 x.2
  | "V" => (pResolver item).map fun x => .resolver x.1 x.2
  | "D" => (pService item).map fun x => .service x.1 x.2
  | "P" => match pProxy item with
    | some (some p) => some (.proxy p)
    | _ => none
  | _ => none

def pKind (k : String) : Option Kind :=
  match k with
  | "R" => some .router | "S" => some .splitter | "V" => some .resolver | "D" => some .service | "P" => some .proxy
  | _ => none

def step (S : Entries) (toks : List String) : Entries × String :=
  match toks with
  | ["compile", cx, r, s, v, d, p] =>
    match pCtx cx, pEntries r s v d p with
    | some cx, some es => (S, eResult (compile es cx))
    | _, _ => (S, "bad-op")
  | ["reset"] => ({}, "ok")
  | ["put", k, item] =>
    match pEntry k item with
    | some e =>
      match ensureEntry S e with
      | some S' => (S', "ok")
      | none => (S, "rejected")
    | none => (S, "bad-op")
  | ["del", k, n] =>
    match pKind k, decS n with
    | some k, some n =>
      match deleteEntry S k n with
      | some S' => (S', "ok")
      | none => (S, "rejected")
    | _, _ => (S, "bad-op")
  | ["dump"] => (S, eStore S)
  | ["chain", cx] =>
    match pCtx cx with
    | some cx => (S, eResult (compile (gather S cx.svc) cx))   -- Store.ReadDiscoveryChainConfigEntries + Compile
    | none => (S, "bad-op")
  | _ => (S, "bad-op")

def engine : Engine := { State := Entries, init := {}, step := step }

end CV.Engine.C15
