/- Line-protocol engine for C04 (locks / session invalidation): the shared store engine. -/
import CV.Engine.StoreCore
namespace CV.Engine.C04
def engine : CV.Engine := CV.Engine.StoreCore.engine
end CV.Engine.C04
